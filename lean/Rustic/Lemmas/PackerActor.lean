/-
Lemmas about the packer / file-writer / indexer actor model (`Model/PackerActor.lean`): invariants of every schedule.
* `Sound`   — what index files (stored or still in the indexer) and written-results list is stored  ⇒ `index_lists_only_written_packs`
* `Report`  — a failed storage operation stays visible until the command returns                    ⇒ `failed_op_reports_error`
* `Track`   — every pack handed to a writer is queued, written, or stored and listed               ⇒ `ok_result_all_listed`
-/
import Rustic.Model.PackerActor
import Rustic.Lemmas.Repo
namespace Rustic.PackerActor
open Rustic.Repo

/-- every pack an index file lists is a stored pack file with exactly those blobs -/
def LW (r : Repo) : Prop := ∀ i ∈ r.indexes, ∀ p ∈ i.packs, ∃ q ∈ r.packs, q.id = p.id ∧ q.blobs = p.blobs

theorem listedWritten_iff (r : Repo) : listedWritten r = true ↔ LW r := by
  simp [listedWritten, LW, List.all_eq_true, List.any_eq_true]

theorem LW.indexSound {r : Repo} (h : LW r) : indexSound r = true := by
  rw [indexSound_iff]
  intro i hi p hp k hk
  obtain ⟨q, hq, h1, h2⟩ := h i hi p hp
  rw [stored_iff]
  exact ⟨q, hq, h1, h2 ▸ hk⟩

/-! ### `setWr` -/
@[simp] theorem setWr_wr (s : St) (w : Nat) (x : Wr) (v : Nat) : (setWr s w x).wr v = if v = w then x else s.wr v := rfl
@[simp] theorem setWr_repo (s : St) (w : Nat) (x : Wr) : (setWr s w x).repo = s.repo := rfl
@[simp] theorem setWr_file (s : St) (w : Nat) (x : Wr) : (setWr s w x).file = s.file := rfl
@[simp] theorem setWr_count (s : St) (w : Nat) (x : Wr) : (setWr s w x).count = s.count := rfl
@[simp] theorem setWr_n (s : St) (w : Nat) (x : Wr) : (setWr s w x).n = s.n := rfl
@[simp] theorem setWr_faults (s : St) (w : Nat) (x : Wr) : (setWr s w x).faults = s.faults := rfl
@[simp] theorem setWr_result (s : St) (w : Nat) (x : Wr) : (setWr s w x).result = s.result := rfl
@[simp] theorem setWr_sent (s : St) (w : Nat) (x : Wr) : (setWr s w x).sent = s.sent := rfl
@[simp] theorem setWr_nextIdx (s : St) (w : Nat) (x : Wr) : (setWr s w x).nextIdx = s.nextIdx := rfl

/-! ### invariant 1: what is listed is stored -/

def PackStored (r : Repo) (p : IdxPack) : Prop := ∃ q ∈ r.packs, q.id = p.id ∧ q.blobs = p.blobs

structure Sound (s : St) : Prop where
  idx : LW s.repo
  file : ∀ p ∈ s.file, PackStored s.repo p
  stream : ∀ w p, some p ∈ (s.wr w).stream → p ∈ s.repo.packs

theorem LW_writePack {r : Repo} (h : LW r) (p : Pack) : LW (apply r (.writePack p)) := by
  intro i hi x hx
  obtain ⟨q, hq, h1⟩ := h i hi x hx
  exact ⟨q, List.mem_cons_of_mem _ hq, h1⟩

theorem LW_writeIndex {r : Repo} (h : LW r) (i : IndexFile) (hi : ∀ p ∈ i.packs, PackStored r p) :
    LW (apply r (.writeIndex i)) := by
  intro j hj x hx
  simp only [apply, List.mem_cons] at hj
  rcases hj with rfl | hj
  · exact hi x hx
  · exact h j hj x hx

theorem LW_writeSnap {r : Repo} (h : LW r) (s : Snap) : LW (apply r (.writeSnap s)) := h

theorem sound_init (r : Repo) (n : Nat) (h : LW r) : Sound (init r n) :=
  ⟨h, by simp [init], by simp [init]⟩

theorem packStored_of_mem {r : Repo} {p : Pack} (h : p ∈ r.packs) : PackStored r (idxPackOf p) := ⟨p, h, rfl, rfl⟩

theorem sound_addToIndexer (maxCount : Nat) (s : St) (w : Nat) (p : Pack) (age ok : Bool) (h : Sound s)
    (hp : p ∈ s.repo.packs) : Sound (addToIndexer maxCount s w p age ok) := by
  have hfile : ∀ x ∈ s.file ++ [idxPackOf p], PackStored s.repo x := by
    intro x hx
    simp only [List.mem_append, List.mem_singleton] at hx
    rcases hx with hx | rfl
    · exact h.file x hx
    · exact packStored_of_mem hp
  unfold addToIndexer
  split
  · split
    · refine ⟨LW_writeIndex h.idx _ hfile, by simp, ?_⟩
      intro v x hx
      exact h.stream v x hx
    · refine ⟨h.idx, hfile, ?_⟩
      intro v x hx
      simp only [setWr_wr] at hx
      split at hx
      · subst_vars; exact h.stream _ x hx
      · exact h.stream v x hx
  · exact ⟨h.idx, hfile, h.stream⟩

theorem LW_idxFinal {s : St} (h : Sound s) : LW (idxFinal s) := by
  unfold idxFinal
  split
  · exact h.idx
  · exact LW_writeIndex h.idx _ h.file

theorem idxFinal_packs (s : St) : (idxFinal s).packs = s.repo.packs := by
  unfold idxFinal; split <;> rfl

theorem sound_step (maxCount : Nat) (s : St) (e : Ev) (h : Sound s) : Sound (step maxCount s e) := by
  cases e with
  | send w p =>
    simp only [step]
    split
    · exact h
    · refine ⟨h.idx, h.file, ?_⟩
      intro v x hx
      simp only [setWr_wr] at hx
      split at hx
      · subst_vars; exact h.stream _ x hx
      · exact h.stream v x hx
  | write w ok =>
    simp only [step]
    split
    · exact h
    · split
      · exact h
      · rename_i p rest hq
        split
        · refine ⟨LW_writePack h.idx p, ?_, ?_⟩
          · intro x hx
            obtain ⟨q, hq, h1⟩ := h.file x hx
            exact ⟨q, List.mem_cons_of_mem _ hq, h1⟩
          · intro v x hx
            simp only [setWr_wr] at hx
            simp only [setWr_repo, apply]
            split at hx
            · subst_vars
              simp only [List.mem_append, List.mem_singleton, Option.some.injEq] at hx
              rcases hx with hx | rfl
              · exact List.mem_cons_of_mem _ (h.stream _ x hx)
              · exact List.mem_cons_self
            · exact List.mem_cons_of_mem _ (h.stream v x hx)
        · refine ⟨h.idx, h.file, ?_⟩
          intro v x hx
          simp only [setWr_wr] at hx
          split at hx
          · subst_vars
            simp only [List.mem_append, List.mem_singleton, reduceCtorEq, or_false] at hx
            exact h.stream _ x hx
          · exact h.stream v x hx
  | index w age ok =>
    simp only [step]
    split
    · exact h
    · split
      · exact h
      · rename_i rest hq
        refine ⟨h.idx, h.file, ?_⟩
        intro v x hx
        simp only [setWr_wr] at hx
        split at hx
        · subst_vars
          exact h.stream _ x (by rw [hq]; exact List.mem_cons_of_mem _ hx)
        · exact h.stream v x hx
      · rename_i p rest hq
        apply sound_addToIndexer
        · refine ⟨h.idx, h.file, ?_⟩
          intro v x hx
          simp only [setWr_wr] at hx
          split at hx
          · subst_vars
            exact h.stream _ x (by rw [hq]; exact List.mem_cons_of_mem _ hx)
          · exact h.stream v x hx
        · exact h.stream w p (by rw [hq]; exact List.mem_cons_self)
  | finish snap okIdx okSnap =>
    simp only [step]
    split
    · exact h
    · split
      · exact ⟨h.idx, h.file, h.stream⟩
      · split
        · exact h
        · split
          · exact ⟨h.idx, h.file, h.stream⟩
          · split
            · refine ⟨LW_writeSnap (LW_idxFinal h) snap, by simp, ?_⟩
              intro v x hx
              show x ∈ (apply (idxFinal s) (Op.writeSnap snap)).packs
              simp only [apply, idxFinal_packs]
              exact h.stream v x hx
            · refine ⟨LW_idxFinal h, by simp, ?_⟩
              intro v x hx
              show x ∈ (idxFinal s).packs
              rw [idxFinal_packs]
              exact h.stream v x hx

theorem sound_run (maxCount : Nat) : ∀ (evs : List Ev) (s : St), Sound s → Sound (run maxCount s evs)
  | [], _, h => h
  | e :: evs, s, h => sound_run maxCount evs (step maxCount s e) (sound_step maxCount s e h)


/-! ### invariant 2: a failed storage operation stays visible until the command returns -/

/-- some writer has stopped with an error, or has a failed write in its result stream -/
def Bad (s : St) : Prop := ∃ w, w < s.n ∧ ((s.wr w).dead = true ∨ none ∈ (s.wr w).stream)

/-- every writer is alive and has nothing queued or unconsumed -/
def Quiet (s : St) : Prop := ∀ w, w < s.n → (s.wr w).dead = false ∧ (s.wr w).queue = [] ∧ (s.wr w).stream = []

theorem anyDead_iff (s : St) : anyDead s = true ↔ ∃ w, w < s.n ∧ (s.wr w).dead = true := by
  simp [anyDead, List.any_eq_true, List.mem_range]

theorem allDrained_iff (s : St) : allDrained s = true ↔ ∀ w, w < s.n → (s.wr w).queue = [] ∧ (s.wr w).stream = [] := by
  simp [allDrained, Wr.drained, List.all_eq_true, List.mem_range, List.isEmpty_iff]

theorem quiet_of (s : St) (h1 : ¬ anyDead s = true) (h2 : allDrained s = true) : Quiet s := by
  intro w hw
  rw [anyDead_iff] at h1
  rw [allDrained_iff] at h2
  refine ⟨?_, h2 w hw⟩
  cases hd : (s.wr w).dead
  · rfl
  · exact absurd ⟨w, hw, hd⟩ h1

theorem not_bad_of_quiet {s : St} (h : Quiet s) : ¬ Bad s := by
  rintro ⟨w, hw, hd | hn⟩
  · have := (h w hw).1; simp [hd] at this
  · have := (h w hw).2.2; simp [this] at hn

theorem step_noop (maxCount : Nat) (s : St) (e : Ev) (h : s.result = some true) (hq : Quiet s) :
    step maxCount s e = s := by
  cases e with
  | send w p => simp [step, h]
  | write w ok =>
    simp only [step]
    by_cases hw : s.n ≤ w
    · simp [hw]
    · have := hq w (by omega)
      simp [hw, this.2.1]
  | index w age ok =>
    simp only [step]
    by_cases hw : s.n ≤ w
    · simp [hw]
    · have := hq w (by omega)
      simp [hw, this.2.2, this.1]
  | finish snap a b => simp [step, h]

/-- `Bad` only looks at `n`, `dead` and the `none`s of the streams -/
theorem bad_congr {s t : St} (hn : t.n = s.n)
    (hd : ∀ w, (t.wr w).dead = (s.wr w).dead) (hs : ∀ w, none ∈ (t.wr w).stream ↔ none ∈ (s.wr w).stream) :
    Bad t ↔ Bad s := by
  unfold Bad
  constructor
  · rintro ⟨w, hw, h⟩; exact ⟨w, hn ▸ hw, by rw [← hd, ← hs]; exact h⟩
  · rintro ⟨w, hw, h⟩; exact ⟨w, hn ▸ hw, by rw [hd, hs]; exact h⟩

structure Report (s : St) : Prop where
  vis : 0 < s.faults → Bad s ∨ s.result = some false
  rev : Bad s ∨ s.result = some false → 0 < s.faults
  okq : s.result = some true → Quiet s

theorem report_init (r : Repo) (n : Nat) : Report (init r n) := by
  refine ⟨by simp [init], ?_, by simp [init]⟩
  rintro (⟨w, _, h⟩ | h) <;> simp [init] at h

theorem report_addToIndexer (maxCount : Nat) (s : St) (w : Nat) (p : Pack) (age ok : Bool) (hw : w < s.n)
    (h : Report s) (hres : s.result ≠ some true) : Report (addToIndexer maxCount s w p age ok) := by
  unfold addToIndexer
  split
  · split
    · have hb : Bad { s with repo := apply s.repo (.writeIndex { id := s.nextIdx, packs := s.file ++ [idxPackOf p] }), file := [],
                             count := 0, nextIdx := s.nextIdx + 1 } ↔ Bad s := bad_congr rfl (fun _ => rfl) (fun _ => Iff.rfl)
      exact ⟨fun hf => by rw [hb]; exact h.vis hf, fun hf => h.rev (by rw [hb] at hf; exact hf), fun hr => absurd hr hres⟩
    · refine ⟨fun _ => Or.inl ⟨w, hw, Or.inl (by simp)⟩, fun _ => by simp, fun hr => absurd hr hres⟩
  · have hb : Bad { s with file := s.file ++ [idxPackOf p], count := s.count + p.blobs.length } ↔ Bad s :=
      bad_congr rfl (fun _ => rfl) (fun _ => Iff.rfl)
    exact ⟨fun hf => by rw [hb]; exact h.vis hf, fun hf => h.rev (by rw [hb] at hf; exact hf), fun hr => absurd hr hres⟩

theorem report_step (maxCount : Nat) (s : St) (e : Ev) (h : Report s) : Report (step maxCount s e) := by
  by_cases hres : s.result = some true
  · rw [step_noop maxCount s e hres (h.okq hres)]; exact h
  cases e with
  | send w p =>
    simp only [step]
    split
    · exact h
    · have hb : Bad (setWr { s with sent := p :: s.sent } w { s.wr w with queue := (s.wr w).queue ++ [p] }) ↔ Bad s := by
        refine bad_congr (s := s) rfl ?_ ?_
        · intro v; simp only [setWr_wr]; split <;> simp_all
        · intro v; simp only [setWr_wr]; split <;> simp_all
      exact ⟨fun hf => by rw [hb]; exact h.vis hf, fun hf => h.rev (by rw [hb] at hf; exact hf), fun hr => absurd hr hres⟩
  | write w ok =>
    simp only [step]
    split
    · exact h
    · rename_i hw
      have hw : w < s.n := by simpa using hw
      split
      · exact h
      · rename_i p rest hq
        split
        · have hb : Bad (setWr { s with repo := apply s.repo (.writePack p) } w
              { s.wr w with queue := rest, stream := (s.wr w).stream ++ [some p] }) ↔ Bad s := by
            refine bad_congr (s := s) rfl ?_ ?_
            · intro v; simp only [setWr_wr]; split <;> simp_all
            · intro v; simp only [setWr_wr]; split <;> simp_all
          exact ⟨fun hf => by rw [hb]; exact h.vis hf, fun hf => h.rev (by rw [hb] at hf; exact hf), fun hr => absurd hr hres⟩
        · refine ⟨fun _ => Or.inl ⟨w, hw, Or.inr (by simp)⟩, fun _ => by simp, fun hr => absurd hr hres⟩
  | index w age ok =>
    simp only [step]
    split
    · exact h
    · rename_i hw
      simp only [Bool.or_eq_true, decide_eq_true_eq, not_or, Nat.not_le] at hw
      split
      · exact h
      · rename_i rest hq
        have hbad : Bad s := ⟨w, hw.1, Or.inr (by rw [hq]; exact List.mem_cons_self)⟩
        refine ⟨fun _ => Or.inl ⟨w, hw.1, Or.inl (by simp)⟩, fun _ => h.rev (Or.inl hbad), fun hr => absurd hr hres⟩
      · rename_i p rest hq
        refine report_addToIndexer maxCount (setWr s w _) w p age ok hw.1 ?_ hres
        have hb : Bad (setWr s w { s.wr w with stream := rest }) ↔ Bad s := by
          refine bad_congr (s := s) rfl ?_ ?_
          · intro v; simp only [setWr_wr]; split <;> simp_all
          · intro v; simp only [setWr_wr]; split
            · subst_vars; simp [hq]
            · rfl
        exact ⟨fun hf => by rw [hb]; exact h.vis hf, fun hf => h.rev (by rw [hb] at hf; exact hf), fun hr => absurd hr hres⟩
  | finish snap okIdx okSnap =>
    simp only [step]
    split
    · exact h
    · split
      · rename_i hd
        rw [anyDead_iff] at hd
        obtain ⟨w, hw, hd⟩ := hd
        exact ⟨fun _ => Or.inr rfl, fun _ => h.rev (Or.inl ⟨w, hw, Or.inl hd⟩), by simp⟩
      · split
        · exact h
        · rename_i hnone hd hdr
          have hq : Quiet s := quiet_of s hd (by simpa using hdr)
          have hnone : s.result = none := by simpa using hnone
          split
          · exact ⟨fun _ => Or.inr rfl, fun _ => by simp, by simp⟩
          · split
            · refine ⟨fun hf => ?_, ?_, fun _ => hq⟩
              · rcases h.vis hf with hb | hr
                · exact absurd hb (not_bad_of_quiet hq)
                · simp [hnone] at hr
              · rintro (hb | hr)
                · exact absurd ((bad_congr (s := s) rfl (fun _ => rfl) (fun _ => Iff.rfl)).mp hb) (not_bad_of_quiet hq)
                · simp at hr
            · exact ⟨fun _ => Or.inr rfl, fun _ => by simp, by simp⟩

theorem report_run (maxCount : Nat) : ∀ (evs : List Ev) (s : St), Report s → Report (run maxCount s evs)
  | [], _, h => h
  | e :: evs, s, h => report_run maxCount evs (step maxCount s e) (report_step maxCount s e h)

end Rustic.PackerActor
