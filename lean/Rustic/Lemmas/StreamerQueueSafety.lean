/-
Lemmas for C13: WHAT the threads of `TreeStreamerOnce` (`Model/StreamerQueue.lean`) yield — for every thread schedule and
every capacity setting (also the bounded counter-model: bounding the queue breaks progress, not safety).
-/
import Rustic.Lemmas.StreamerQueue
namespace Rustic.StreamerQ
open Rustic.Streamer (pick pick_spec Reach)

/-! ### `fresh` -/

theorem fresh_sub : ∀ (cs vis : List Nat) (x : Nat), x ∈ fresh vis cs → x ∈ cs ∧ x ∉ vis
  | [], _, _, h => by simp [fresh] at h
  | c :: cs, vis, x, h => by
    simp only [fresh] at h
    by_cases hc : vis.contains c = true
    · rw [if_pos hc] at h
      have := fresh_sub cs vis x h
      exact ⟨List.mem_cons_of_mem _ this.1, this.2⟩
    · rw [if_neg hc] at h
      have hcv : c ∉ vis := by simpa using hc
      rcases List.mem_cons.mp h with rfl | h
      · exact ⟨List.mem_cons_self, hcv⟩
      · have := fresh_sub cs (c :: vis) x h
        exact ⟨List.mem_cons_of_mem _ this.1, fun hx => this.2 (List.mem_cons_of_mem _ hx)⟩

theorem fresh_nodup : ∀ (cs vis : List Nat), (fresh vis cs).Nodup
  | [], _ => by simp [fresh]
  | c :: cs, vis => by
    simp only [fresh]
    by_cases hc : vis.contains c = true
    · rw [if_pos hc]; exact fresh_nodup cs vis
    · rw [if_neg hc]
      refine List.nodup_cons.mpr ⟨?_, fresh_nodup cs (c :: vis)⟩
      intro h
      exact (fresh_sub cs (c :: vis) c h).2 List.mem_cons_self

theorem fresh_cover : ∀ (cs vis : List Nat) (x : Nat), x ∈ cs → x ∈ vis ∨ x ∈ fresh vis cs
  | [], _, _, h => by simp at h
  | c :: cs, vis, x, h => by
    simp only [fresh]
    by_cases hc : vis.contains c = true
    · rw [if_pos hc]
      rcases List.mem_cons.mp h with rfl | h
      · exact Or.inl (by simpa using hc)
      · exact fresh_cover cs vis x h
    · rw [if_neg hc]
      rcases List.mem_cons.mp h with rfl | h
      · exact Or.inr List.mem_cons_self
      · rcases fresh_cover cs (c :: vis) x h with h | h
        · rcases List.mem_cons.mp h with rfl | h
          · exact Or.inr List.mem_cons_self
          · exact Or.inl h
        · exact Or.inr (List.mem_cons_of_mem _ h)

theorem count_nodup {l : List Nat} (h : l.Nodup) (x : Nat) : l.count x = if x ∈ l then 1 else 0 := h.count

/-! ### the invariant -/

/-- every visited id is in exactly one place (to send, request queue, a loader's hands, result queue, yielded); visited ids
are reachable; the roots are visited; the sub-trees of a yielded tree are visited -/
structure SInv (children : Nat → List Nat) (roots : List Nat) (s : TSt) : Prop where
  cnt : ∀ x, s.todo.count x + s.inq.count x + s.held.count x + s.outq.count x + s.yielded.count x =
    if x ∈ s.visited then 1 else 0
  reach : ∀ x ∈ s.visited, Reach children roots x
  roots : ∀ r ∈ roots, r ∈ s.visited
  closed : ∀ y ∈ s.yielded, ∀ c ∈ children y, c ∈ s.visited

theorem init_inv (children : Nat → List Nat) (roots : List Nat) : SInv children roots (init roots) := by
  refine ⟨?_, ?_, ?_, ?_⟩
  · intro x
    simp only [init, List.count_nil, Nat.add_zero, List.mem_reverse]
    exact count_nodup (fresh_nodup roots []) x
  · intro x hx
    simp only [init, List.mem_reverse] at hx
    exact Reach.root (fresh_sub roots [] x hx).1
  · intro r hr
    simp only [init, List.mem_reverse]
    rcases fresh_cover roots [] r hr with h | h
    · simp at h
    · exact h
  · intro y hy
    simp [init] at hy

theorem step_inv {children : Nat → List Nat} {roots : List Nat} (c : Cfg) (s s' : TSt) (a : Act)
    (hi : SInv children roots s) (h : step c children s a = some s') : SInv children roots s' := by
  cases a with
  | send =>
    simp only [step] at h
    split at h
    · cases h
    · rename_i id rest htodo
      split at h
      · cases h
        refine ⟨?_, hi.reach, hi.roots, hi.closed⟩
        intro x
        have := hi.cnt x
        simp only [htodo, List.count_cons, List.count_append, List.count_nil] at this ⊢
        omega
      · cases h
  | load =>
    simp only [step] at h
    split at h
    · cases h
    · rename_i id rest hin
      split at h
      · cases h
        refine ⟨?_, hi.reach, hi.roots, hi.closed⟩
        intro x
        have := hi.cnt x
        simp only [hin, List.count_cons, List.count_append, List.count_nil] at this ⊢
        omega
      · cases h
  | put k =>
    simp only [step] at h
    split at h
    · cases h
    · rename_i id rest hp
      have hc := (pick_spec _ _ _ _ hp).2.1
      split at h
      · cases h
        refine ⟨?_, hi.reach, hi.roots, hi.closed⟩
        intro x
        have := hi.cnt x
        have hcx := hc (fun y => y == x)
        simp only [List.count, List.countP_append, List.countP_cons, List.countP_nil] at this ⊢
        simp only [hcx] at this
        omega
      · cases h
  | recv =>
    simp only [step] at h
    split at h
    · rename_i id rest htodo hout
      cases h
      have hidv : id ∈ s.visited := by
        have := hi.cnt id
        simp only [hout, List.count_cons_self] at this
        by_cases hv : id ∈ s.visited
        · exact hv
        · rw [if_neg hv] at this; omega
      refine ⟨?_, ?_, ?_, ?_⟩
      · intro x
        have := hi.cnt x
        have hn := count_nodup (fresh_nodup (children id) s.visited) x
        have hsub := fresh_sub (children id) s.visited x
        simp only [htodo, hout, List.count_cons, List.count_append, List.count_nil, List.mem_append,
          List.mem_reverse] at this ⊢
        rw [hn]
        by_cases hx : x ∈ fresh s.visited (children id)
        · have hnv := (hsub hx).2
          simp only [hx, hnv, if_true, if_false, true_or, or_false] at this ⊢
          omega
        · simp only [hx, if_false, false_or] at this ⊢
          omega
      · intro x hx
        simp only [List.mem_append, List.mem_reverse] at hx
        rcases hx with hx | hx
        · exact Reach.child (hi.reach id hidv) (fresh_sub _ _ x hx).1
        · exact hi.reach x hx
      · intro r hr
        simp only [List.mem_append, List.mem_reverse]
        exact Or.inr (hi.roots r hr)
      · intro y hy ch hch
        simp only [List.mem_append, List.mem_reverse, List.mem_singleton] at hy ⊢
        rcases hy with hy | rfl
        · exact Or.inr (hi.closed y hy ch hch)
        · rcases fresh_cover (children y) s.visited ch hch with h | h
          · exact Or.inr h
          · exact Or.inl h
    · cases h

theorem runActs_inv {children : Nat → List Nat} {roots : List Nat} (c : Cfg) : ∀ (acts : List Act) (s : TSt),
    SInv children roots s → SInv children roots (runActs c children s acts)
  | [], _, h => h
  | a :: as, s, h => by
    simp only [runActs]
    cases hst : step c children s a with
    | none => exact runActs_inv c as s h
    | some s' => exact runActs_inv c as s' (step_inv c s s' a h hst)

theorem inv_yielded_nodup {children : Nat → List Nat} {roots : List Nat} {s : TSt} (hi : SInv children roots s) :
    s.yielded.Nodup := by
  rw [List.nodup_iff_count]
  intro x
  have := hi.cnt x
  split at this <;> omega

theorem inv_yielded_reach {children : Nat → List Nat} {roots : List Nat} {s : TSt} (hi : SInv children roots s) :
    ∀ x ∈ s.yielded, Reach children roots x := by
  intro x hx
  apply hi.reach
  have := hi.cnt x
  have hp : 0 < s.yielded.count x := List.count_pos_iff.mpr hx
  by_cases hv : x ∈ s.visited
  · exact hv
  · rw [if_neg hv] at this; omega

theorem inv_finished_complete {children : Nat → List Nat} {roots : List Nat} {s : TSt} (hi : SInv children roots s)
    (hf : finished s = true) : ∀ x, Reach children roots x → x ∈ s.yielded := by
  simp only [finished, Bool.and_eq_true, List.isEmpty_iff] at hf
  obtain ⟨⟨⟨h1, h2⟩, h3⟩, h4⟩ := hf
  have hvy : ∀ x, x ∈ s.visited → x ∈ s.yielded := by
    intro x hv
    have := hi.cnt x
    rw [if_pos hv, h1, h2, h3, h4] at this
    simp only [List.count_nil, Nat.zero_add] at this
    exact List.count_pos_iff.mp (by omega)
  intro x hr
  apply hvy
  induction hr with
  | root h => exact hi.roots _ h
  | child _ hc ih => exact hi.closed _ (hvy _ ih) _ hc

/-! ### termination: every step earns one credit, credits are bounded by the reachable trees -/

theorem step_credit (c : Cfg) (children : Nat → List Nat) (s s' : TSt) (a : Act)
    (h : step c children s a = some s') : credit s' = credit s + 1 := by
  cases a with
  | send =>
    simp only [step] at h
    split at h
    · cases h
    · split at h
      · cases h; simp only [credit, List.length_append, List.length_cons, List.length_nil]; omega
      · cases h
  | load =>
    simp only [step] at h
    split at h
    · cases h
    · rename_i id rest hin
      split at h
      · cases h; simp only [credit, hin, List.length_append, List.length_cons, List.length_nil]; omega
      · cases h
  | put k =>
    simp only [step] at h
    split at h
    · cases h
    · rename_i id rest hp
      have hlen := (pick_spec _ _ _ _ hp).2.2
      split at h
      · cases h; simp only [credit, hlen, List.length_append, List.length_cons, List.length_nil]; omega
      · cases h
  | recv =>
    simp only [step] at h
    split at h
    · rename_i id rest htodo hout
      cases h; simp only [credit, hout, List.length_append, List.length_cons, List.length_nil]; omega
    · cases h

theorem executed_eq_credit (c : Cfg) (children : Nat → List Nat) : ∀ (acts : List Act) (s : TSt),
    credit (runActs c children s acts) = credit s + executed c children s acts
  | [], _ => rfl
  | a :: as, s => by
    simp only [runActs, executed]
    cases hst : step c children s a with
    | none => exact executed_eq_credit c children as s
    | some s' =>
      simp only []
      rw [executed_eq_credit c children as s', step_credit c children s s' a hst]; omega

theorem credit_le {children : Nat → List Nat} {roots : List Nat} {s : TSt} (hi : SInv children roots s) (l : List Nat)
    (hl : ∀ id, Reach children roots id → id ∈ l) : credit s ≤ 4 * l.length := by
  have hnd : (s.inq ++ s.held ++ s.outq ++ s.yielded).Nodup := by
    rw [List.nodup_iff_count]
    intro x
    have := hi.cnt x
    simp only [List.count_append]
    split at this <;> omega
  have hsub : ∀ x ∈ s.inq ++ s.held ++ s.outq ++ s.yielded, x ∈ l := by
    intro x hx
    apply hl
    apply hi.reach
    have hp : 0 < (s.inq ++ s.held ++ s.outq ++ s.yielded).count x := List.count_pos_iff.mpr hx
    simp only [List.count_append] at hp
    have := hi.cnt x
    by_cases hv : x ∈ s.visited
    · exact hv
    · rw [if_neg hv] at this; omega
  have := Rustic.Streamer.nodup_subset_length _ l hnd hsub
  simp only [List.length_append] at this
  simp only [credit]
  omega

end Rustic.StreamerQ
