/-
Lemmas for C07 about the archiver: a backup without parent does not depend on the data index except for
what it uploads; backing up the same items again after the index has been reloaded uploads nothing and
yields the same root tree id.
-/
import Rustic.Lemmas.ArchiveParent
namespace Rustic.Archive
open Rustic.Tree Rustic.Parent

/-! ### `Parent` without parent trees -/

def EmptyP (st : PState) : Prop := st.trees = [] ∧ ∀ t ∈ st.stack, t = []

theorem process_emptyP {γ} (o : Opts) (load : Id → Option (List Node)) (hd hd' : Id → Bool) (st : PState)
    (it : Item γ) (h : EmptyP st) :
    process o load hd st it = process o load hd' st it ∧ EmptyP (process o load hd st it).1 := by
  obtain ⟨ht, hs⟩ := h
  have hip : ∀ node name, isParent o st node name = (st, .notFound) := by
    intro node name
    cases st with
    | mk trees stack => simp only at ht; subst ht; simp [isParent, isParentGo]
  cases it with
  | newTree node name =>
    simp only [process, hip]
    refine ⟨trivial, ?_, ?_⟩
    · simp [setDir, ht, pNodeAll, sortDedup, dedupAdj]
    · intro t htm
      simp only [setDir, ht, pNodeAll, List.mem_cons] at htm
      rcases htm with rfl | htm
      · rfl
      · exact hs t htm
  | endTree =>
    simp only [process, finishDir]
    cases hst : st.stack with
    | nil => exact ⟨trivial, ht, by rw [hst]; intro t h; cases h⟩
    | cons t rest =>
      refine ⟨trivial, hs t (by rw [hst]; exact List.mem_cons_self), ?_⟩
      intro t' ht'; exact hs t' (by rw [hst]; exact List.mem_cons_of_mem _ ht')
  | other node x =>
    simp only [process, hip]
    exact ⟨trivial, ht, hs⟩

theorem run_emptyP {γ} (o : Opts) (load : Id → Option (List Node)) (hd hd' : Id → Bool) :
    ∀ (items : List (Item γ)) (st : PState), EmptyP st → run o load hd st items = run o load hd' st items
  | [], _, _ => rfl
  | it :: its, st, h => by
    obtain ⟨e, h'⟩ := process_emptyP o load hd hd' st it h
    simp only [run]
    rw [← e, run_emptyP o load hd hd' its _ h']

/-! ### `fileStep`: only the upload list depends on the index -/

theorem fileStep_indep {γ} (chunk : γ → List Id) (len : γ → Nat) (hd hd' : Id → Bool) (out : Out γ) :
    (fileStep chunk len hd out).map (fun s => (s.1, s.2.2)) =
      (fileStep chunk len hd' out).map (fun s => (s.1, s.2.2)) := by
  cases out with
  | other node x r =>
    by_cases hm : r.isMatched = true <;> by_cases hk : node.kind = .file <;> simp [fileStep, hm, hk]
  | _ => rfl

theorem fileStep_adds {γ} (chunk : γ → List Id) (len : γ → Nat) (hd : Id → Bool) (out : Out γ)
    (s : TItem × List Id × Option Node) (h : fileStep chunk len hd out = some s) :
    ∀ id ∈ s.2.1, hd id = false := by
  cases out with
  | other node x r =>
    simp only [fileStep] at h
    split at h
    · injection h with h; subst h; simp
    · split at h
      · injection h with h; subst h
        intro id hid; simpa using (List.mem_filter.mp hid).2
      · injection h with h; subst h; simp
  | newTree node r => simp only [fileStep] at h; injection h with h; subst h; simp
  | endTree => simp only [fileStep] at h; injection h with h; subst h; simp
  | stackEmpty => simp [fileStep] at h
  | panicNoSubtree => simp [fileStep] at h

/-- with an index that has every blob the first index lacked, nothing is uploaded -/
theorem fileStep_reindexed {γ} (chunk : γ → List Id) (len : γ → Nat) (hd hd' : Id → Bool) (out : Out γ)
    (s : TItem × List Id × Option Node) (h : fileStep chunk len hd out = some s)
    (hsup : ∀ id, (hd id = true ∨ id ∈ s.2.1) → hd' id = true) :
    fileStep chunk len hd' out = some (s.1, [], s.2.2) := by
  cases out with
  | other node x r =>
    by_cases hm : r.isMatched = true
    · simp only [fileStep, hm, if_true] at h ⊢
      injection h with h; subst h; rfl
    · have hm' : r.isMatched = false := by simpa using hm
      by_cases hk : node.kind = .file
      · simp only [fileStep, hm', Bool.false_eq_true, if_false, hk, if_true] at h ⊢
        injection h with h; subst h
        simp only [Option.some.injEq, Prod.mk.injEq, true_and, and_true]
        rw [List.filter_eq_nil_iff]
        intro id hid
        simp only [Bool.not_eq_eq_eq_not, Bool.not_true, Bool.not_eq_false]
        by_cases hh : hd id = true
        · exact hsup id (Or.inl hh)
        · exact hsup id (Or.inr (List.mem_filter.mpr ⟨hid, by simpa using hh⟩))
      · simp only [fileStep, hm', Bool.false_eq_true, if_false, hk] at h ⊢
        injection h with h; subst h; rfl
  | newTree node r => simp only [fileStep] at h ⊢; injection h with h; subst h; rfl
  | endTree => simp only [fileStep] at h ⊢; injection h with h; subst h; rfl
  | stackEmpty => simp [fileStep] at h
  | panicNoSubtree => simp [fileStep] at h

theorem steps_reindexed {γ} (chunk : γ → List Id) (len : γ → Nat) (hd hd' : Id → Bool) :
    ∀ (outs : List (Out γ)),
      (∀ id, (hd id = true ∨ id ∈ ((outs.filterMap (fileStep chunk len hd)).map (·.2.1)).flatten) → hd' id = true) →
      outs.filterMap (fileStep chunk len hd') =
        (outs.filterMap (fileStep chunk len hd)).map (fun s => (s.1, [], s.2.2))
  | [], _ => rfl
  | out :: outs, hsup => by
    simp only [List.filterMap_cons]
    cases hs : fileStep chunk len hd out with
    | none =>
      have : fileStep chunk len hd' out = none := by
        have := fileStep_indep chunk len hd hd' out
        rw [hs] at this
        cases h' : fileStep chunk len hd' out with
        | none => rfl
        | some v => rw [h'] at this; simp at this
      simp only [this]
      apply steps_reindexed chunk len hd hd' outs
      intro id h; apply hsup id
      simpa [List.filterMap_cons, hs] using h
    | some s =>
      have e := fileStep_reindexed chunk len hd hd' out s hs (by
        intro id h; apply hsup id
        rcases h with h | h
        · exact Or.inl h
        · right; simp [List.filterMap_cons, hs, h])
      simp only [e, List.map_cons]
      congr 1
      apply steps_reindexed chunk len hd hd' outs
      intro id h; apply hsup id
      rcases h with h | h
      · exact Or.inl h
      · right
        simp only [List.filterMap_cons, hs, List.map_cons, List.flatten_cons, List.mem_append]
        exact Or.inr h

/-! ### the tree archiver run again with a reloaded index -/

theorem sameNode_refl (a : TItem) : sameNode a a := by cases a <;> simp [sameNode]

theorem backupTree_adds (H : List Node → Id) (hasTree : Id → Bool) (s : TA) (p : PRes Id) :
    (s.backupTree H hasTree p).1.adds =
      if hasTree (H s.tree) then s.adds else s.adds ++ [(H s.tree, s.tree)] := by
  unfold TA.backupTree
  simp only []
  split <;> rfl

theorem add_adds (H : List Node → Id) (h : Id → Bool) (s s' : TA) (it : TItem)
    (he : s.add H h it = some s') :
    s'.adds = s.adds ∨ (h (H s.tree) = false ∧ s'.adds = s.adds ++ [(H s.tree, s.tree)]) := by
  cases it with
  | newTree n r => simp only [TA.add] at he; injection he with he; subst he; exact Or.inl rfl
  | other n r sz => simp only [TA.add, TA.addFile] at he; injection he with he; subst he; exact Or.inl rfl
  | endTree =>
    simp only [TA.add] at he
    cases hst : s.stack with
    | nil => simp [hst] at he
    | cons x xs =>
      obtain ⟨n, p, tr⟩ := x
      simp only [hst] at he
      injection he with he; subst he
      have := backupTree_adds H h s p
      simp only [this]
      by_cases hh : h (H s.tree) = true
      · left; simp [hh]
      · right; simp [hh]

theorem addAll_adds_mono (H : List Node → Id) (h : Id → Bool) :
    ∀ (items : List TItem) (s f : TA), TA.addAll H h s items = some f → ∀ x ∈ s.adds, x ∈ f.adds
  | [], s, f, he, x, hx => by simp only [TA.addAll] at he; injection he with he; subst he; exact hx
  | it :: its, s, f, he, x, hx => by
    simp only [TA.addAll] at he
    cases ha : s.add H h it with
    | none => simp [ha] at he
    | some s' =>
      simp only [ha] at he
      apply addAll_adds_mono H h its s' f he x
      rcases add_adds H h s s' it ha with e | ⟨_, e⟩ <;> rw [e]
      · exact hx
      · exact List.mem_append_left _ hx

theorem addAll_rerun (H : List Node → Id) (h0 h1 : Id → Bool) :
    ∀ (items : List TItem) (s0 s1 f0 : TA), TA.addAll H h0 s0 items = some f0 → TASame s0 s1 →
      s1.adds = [] → (∀ id, (h0 id = true ∨ id ∈ f0.adds.map (·.1)) → h1 id = true) →
      ∃ f1, TA.addAll H h1 s1 items = some f1 ∧ TASame f0 f1 ∧ f1.adds = []
  | [], s0, s1, f0, he, hs, ha, _ => by
    simp only [TA.addAll] at he; injection he with he; subst he
    exact ⟨s1, rfl, hs, ha⟩
  | it :: its, s0, s1, f0, he, hs, ha, hsup => by
    simp only [TA.addAll] at he ⊢
    cases h0a : s0.add H h0 it with
    | none => simp [h0a] at he
    | some s0' =>
      simp only [h0a] at he
      rcases add_same H h0 h1 s0 s1 it it hs (sameNode_refl it) with ⟨e, _⟩ | ⟨t0, t1, e0, e1, ht⟩
      · rw [h0a] at e; cases e
      · rw [h0a] at e0; injection e0 with e0; subst e0
        simp only [e1]
        refine addAll_rerun H h0 h1 its s0' t1 f0 he ht ?_ hsup
        rcases add_adds H h1 s1 t1 it e1 with e | ⟨hf, _⟩
        · rw [e, ha]
        · exfalso
          have htree : s0.tree = s1.tree := hs.1
          have : h1 (H s1.tree) = true := by
            apply hsup
            by_cases hh : h0 (H s1.tree) = true
            · exact Or.inl hh
            · right
              rcases add_adds H h0 s0 s0' it h0a with e' | ⟨_, e'⟩
              · -- the first run did not add although `h0` lacks the id: then `it` is not `endTree`, but the second run added
                exfalso
                cases it with
                | newTree n r => simp only [TA.add] at e1; injection e1 with e1; subst e1; simp [ha] at *
                | other n r sz => simp only [TA.add, TA.addFile] at e1; injection e1 with e1; subst e1; simp [ha] at *
                | endTree =>
                  simp only [TA.add] at h0a
                  cases hst : s0.stack with
                  | nil => simp [hst] at h0a
                  | cons x xs =>
                    obtain ⟨n, p, tr⟩ := x
                    simp only [hst] at h0a
                    injection h0a with h0a; subst h0a
                    have := backupTree_adds H h0 s0 p
                    rw [htree] at this
                    simp only [this] at e'
                    simp [hh] at e'
              · have hm : (H s0.tree, s0.tree) ∈ s0'.adds := by rw [e']; simp
                have := addAll_adds_mono H h0 its s0' f0 he _ hm
                rw [← htree]
                exact List.mem_map.mpr ⟨_, this, rfl⟩
          rw [this] at hf; cases hf

/-! ### A backup without parent: what goes to the data packer is a function of the item CONTENTS -/

/-- what a backup without parent hands to `data_packer.add` for one item: the chunks of its content that the index lacks -/
def itemAdds {γ} (chunk : γ → List Id) (hd : Id → Bool) : Item γ → List Id
  | .other node x => if node.kind = .file then (chunk x).filter (fun i => !hd i) else []
  | _ => []

/-- the node with another RECORDED size (`node.meta.size`: what `stat` / the source reported, not what the reader delivers) -/
def withSize (n : Node) (s : Nat) : Node := { n with md := { n.md with size := s } }

/-- every non-directory item records an arbitrary other size (`f`), the contents stay -/
def resizeItem {γ} (f : Node → Nat) : Item γ → Item γ
  | .other node x => .other (withSize node (f node)) x
  | it => it

theorem itemAdds_resize {γ} (chunk : γ → List Id) (hd : Id → Bool) (f : Node → Nat) (it : Item γ) :
    itemAdds chunk hd (resizeItem f it) = itemAdds chunk hd it := by
  cases it <;> simp [resizeItem, itemAdds, withSize]

theorem adds_of_full_run {γ} (chunk : γ → List Id) (len : γ → Nat) (o : Opts) (load : Id → Option (List Node))
    (hd : Id → Bool) : ∀ (items : List (Item γ)) (st : PState), EmptyP st →
      (((run o load hd st items).filterMap (fileStep chunk len hd)).map (·.2.1)).flatten =
        (items.map (itemAdds chunk hd)).flatten
  | [], _, _ => rfl
  | it :: its, st, h => by
    obtain ⟨_, h'⟩ := process_emptyP o load hd hd st it h
    have ih := adds_of_full_run chunk len o load hd its _ h'
    have hip : ∀ node name, isParent o st node name = (st, .notFound) := by
      intro node name
      obtain ⟨ht, _⟩ := h
      cases st with
      | mk trees stack => simp only at ht; subst ht; simp [isParent, isParentGo]
    simp only [run, List.map_cons, List.flatten_cons]
    rw [← ih]
    cases it with
    | newTree node name => simp [process, hip, fileStep, itemAdds]
    | endTree =>
      simp only [process]
      cases finishDir st with
      | none =>
        have e : fileStep chunk len hd (Out.stackEmpty : Out γ) = none := rfl
        simp only [List.filterMap_cons, e]
        simp [itemAdds]
      | some st' => simp [fileStep, itemAdds]
    | other node x =>
      by_cases hk : node.kind = .file <;> simp [process, hip, fileStep, itemAdds, PRes.isMatched, hk]

/-! ### … and whether the archiver succeeds depends on the SHAPE of the item stream only -/

def resizeOut {γ} (f : Node → Nat) : Out γ → Out γ
  | .other node x r => .other (withSize node (f node)) x r
  | out => out

theorem run_resize {γ} (o : Opts) (load : Id → Option (List Node)) (hd : Id → Bool) (f : Node → Nat) :
    ∀ (items : List (Item γ)) (st : PState), EmptyP st →
      run o load hd st (items.map (resizeItem f)) = (run o load hd st items).map (resizeOut f)
  | [], _, _ => rfl
  | it :: its, st, h => by
    obtain ⟨_, h'⟩ := process_emptyP o load hd hd st it h
    have ih := run_resize o load hd f its _ h'
    have hip : ∀ node name, isParent o st node name = (st, .notFound) := by
      intro node name
      obtain ⟨ht, _⟩ := h
      cases st with
      | mk trees stack => simp only at ht; subst ht; simp [isParent, isParentGo]
    cases it with
    | newTree node name => simp only [List.map_cons, resizeItem, run]; rw [ih]; simp [process, hip, resizeOut]
    | endTree =>
      simp only [List.map_cons, resizeItem, run]; rw [ih]
      simp only [process]
      cases finishDir st <;> simp [resizeOut]
    | other node x =>
      simp only [List.map_cons, resizeItem, run]
      have e1 : process o load hd st (Item.other (withSize node (f node)) x) = (st, .other (withSize node (f node)) x .notFound) := by
        simp [process, hip, withSize]
      have e2 : process o load hd st (Item.other node x) = (st, .other node x .notFound) := by
        simp [process, hip]
      rw [e2] at ih
      rw [e1, e2]
      simp only [List.map_cons, resizeOut]
      rw [ih]

theorem hasPanic_resize {γ} (f : Node → Nat) : ∀ outs : List (Out γ), hasPanic (outs.map (resizeOut f)) = hasPanic outs
  | [] => rfl
  | out :: outs => by
    cases out <;> simp [resizeOut, hasPanic, hasPanic_resize f outs]

/-- what `TreeArchiver::add` looks at to decide between `Ok` and "Tree stack is empty" -/
def tshape : TItem → Nat
  | .newTree _ _ => 0
  | .endTree => 1
  | .other _ _ _ => 2

theorem fileStep_resize_shape {γ} (chunk : γ → List Id) (len : γ → Nat) (hd : Id → Bool) (f : Node → Nat) (out : Out γ) :
    (fileStep chunk len hd (resizeOut f out)).map (fun s => tshape s.1) = (fileStep chunk len hd out).map (fun s => tshape s.1) := by
  cases out with
  | other node x r =>
    by_cases hm : r.isMatched = true <;> by_cases hk : node.kind = .file <;>
      simp [fileStep, resizeOut, withSize, hm, hk, tshape]
  | _ => rfl

theorem addAll_isSome_shape (H H' : List Node → Id) (h h' : Id → Bool) :
    ∀ (its its' : List TItem) (s s' : TA), its.map tshape = its'.map tshape → s.stack.length = s'.stack.length →
      (TA.addAll H h s its).isSome = (TA.addAll H' h' s' its').isSome
  | [], [], _, _, _, _ => rfl
  | [], _ :: _, _, _, e, _ => by simp at e
  | _ :: _, [], _, _, e, _ => by simp at e
  | it :: its, it' :: its', s, s', e, hl => by
    simp only [List.map_cons, List.cons.injEq] at e
    obtain ⟨e1, e2⟩ := e
    cases it <;> cases it' <;> simp only [tshape] at e1 <;> try omega
    · simp only [TA.addAll, TA.add]
      exact addAll_isSome_shape H H' h h' its its' _ _ e2 (by simp [hl])
    · simp only [TA.addAll, TA.add]
      cases hs : s.stack with
      | nil =>
        have : s'.stack = [] := by rw [hs] at hl; exact List.eq_nil_of_length_eq_zero hl.symm
        simp [this]
      | cons x xs =>
        cases hs' : s'.stack with
        | nil => rw [hs, hs'] at hl; simp at hl
        | cons x' xs' =>
          obtain ⟨n, p, tr⟩ := x
          obtain ⟨n', p', tr'⟩ := x'
          simp only []
          exact addAll_isSome_shape H H' h h' its its' _ _ e2 (by rw [hs, hs'] at hl; simpa using hl)
    · simp only [TA.addAll, TA.add]
      exact addAll_isSome_shape H H' h h' its its' _ _ e2 (by simpa [TA.addFile] using hl)

end Rustic.Archive
