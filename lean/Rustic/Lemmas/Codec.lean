/-
Lemmas for C04 (model `Rustic/Model/Codec.lean`): shape of `decrypt`, round trips.
-/
import Rustic.Model.Codec
namespace Rustic.Codec

theorem encrypt_length (ae : AE) (k : ae.Key) (n m : Bytes) :
    (encrypt ae k n m).length = n.length + m.length + 16 := by
  simp [encrypt, ae.enc_len, ae.tag_len]; omega

/-- the parts `decrypt` cuts a long-enough message into -/
def nonceOf (data : Bytes) : Bytes := data.take 16
def ctOf (data : Bytes) : Bytes := (data.drop 16).take ((data.drop 16).length - 16)
def tagOf (data : Bytes) : Bytes := (data.drop 16).drop ((data.drop 16).length - 16)

theorem parts_append (data : Bytes) (h : 32 ≤ data.length) :
    data = nonceOf data ++ ctOf data ++ tagOf data ∧ (nonceOf data).length = 16 ∧ (tagOf data).length = 16 := by
  refine ⟨?_, ?_, ?_⟩
  · simp only [nonceOf, ctOf, tagOf, List.append_assoc, List.take_append_drop]
  · simp [nonceOf]; omega
  · simp [tagOf]; omega

theorem parts_of_append (n c t : Bytes) (hn : n.length = 16) (ht : t.length = 16) :
    nonceOf (n ++ c ++ t) = n ∧ ctOf (n ++ c ++ t) = c ∧ tagOf (n ++ c ++ t) = t := by
  have hd : (n ++ c ++ t).drop 16 = c ++ t := by
    rw [List.append_assoc, ← hn, List.drop_left]
  refine ⟨?_, ?_, ?_⟩
  · rw [nonceOf, List.append_assoc, ← hn, List.take_left]
  · rw [ctOf, hd]
    have : (c ++ t).length - 16 = c.length := by simp [ht]
    rw [this, List.take_left]
  · rw [tagOf, hd]
    have : (c ++ t).length - 16 = c.length := by simp [ht]
    rw [this, List.drop_left]

/-- `decrypt` in closed form -/
theorem decrypt_eq (ae : AE) (k : ae.Key) (data : Bytes) :
    decrypt ae k data =
      if data.length < 16 then .error .tooShort
      else if data.length < 32 then .error .mac
      else if ae.tag k (nonceOf data) (ctOf data) = tagOf data then .ok (ae.dec k (nonceOf data) (ctOf data))
      else .error .mac := by
  unfold decrypt nonceOf ctOf tagOf
  by_cases h1 : data.length < 16
  · rw [if_pos h1, if_pos h1]
  · rw [if_neg h1, if_neg h1]
    by_cases h2 : data.length < 32
    · have : (data.drop 16).length < 16 := by simp; omega
      rw [if_pos this, if_pos h2]
    · have : ¬ (data.drop 16).length < 16 := by simp; omega
      rw [if_neg this, if_neg h2]

theorem decrypt_encrypt (ae : AE) (k : ae.Key) (n m : Bytes) (hn : n.length = 16) :
    decrypt ae k (encrypt ae k n m) = .ok m := by
  rw [decrypt_eq]
  have hl := encrypt_length ae k n m
  obtain ⟨h1, h2, h3⟩ := parts_of_append n (ae.enc k n m) (ae.tag k n (ae.enc k n m)) hn (ae.tag_len _ _ _)
  unfold encrypt at hl ⊢
  rw [if_neg (by omega), if_neg (by omega), h1, h2, h3, if_pos rfl, ae.dec_enc]

/-- an accepted message is the encryption of what it decrypts to, under its own nonce -/
theorem encrypt_of_decrypt (ae : AE) (k : ae.Key) (data m : Bytes) (h : decrypt ae k data = .ok m) :
    32 ≤ data.length ∧ data = encrypt ae k (nonceOf data) m := by
  rw [decrypt_eq] at h
  split at h
  · cases h
  · split at h
    · cases h
    · split at h
      · rename_i h1 h2 ht
        cases h
        refine ⟨by omega, ?_⟩
        have hp := (parts_append data (by omega)).1
        unfold encrypt
        rw [ae.enc_dec, ht]
        exact hp
      · cases h

end Rustic.Codec
