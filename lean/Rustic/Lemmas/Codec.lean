/-
Lemmas for C04 (model `Rustic/Model/Codec.lean`): shape of `decrypt`, round trips.
-/
import Rustic.Model.Codec
namespace Rustic.Codec

theorem encrypt_length (ae : AE) (k : ae.Key) (n m : Bytes) :
    (encrypt ae k n m).length = n.length + m.length + 16 := by
  simp [encrypt, ae.enc_len, ae.tag_len]; omega

/-- the parts `decrypt` cuts a long-enough message into -/
def nonceOf (data : Bytes) : Bytes := data.take 16
def ctOf (data : Bytes) : Bytes := (data.drop 16).take ((data.drop 16).length - 16)
def tagOf (data : Bytes) : Bytes := (data.drop 16).drop ((data.drop 16).length - 16)

theorem parts_append (data : Bytes) (h : 32 ≤ data.length) :
    data = nonceOf data ++ ctOf data ++ tagOf data ∧ (nonceOf data).length = 16 ∧ (tagOf data).length = 16 := by
  refine ⟨?_, ?_, ?_⟩
  · simp only [nonceOf, ctOf, tagOf, List.append_assoc, List.take_append_drop]
  · simp [nonceOf]; omega
  · simp [tagOf]; omega

theorem parts_of_append (n c t : Bytes) (hn : n.length = 16) (ht : t.length = 16) :
    nonceOf (n ++ c ++ t) = n ∧ ctOf (n ++ c ++ t) = c ∧ tagOf (n ++ c ++ t) = t := by
  have hd : (n ++ c ++ t).drop 16 = c ++ t := by
    rw [List.append_assoc, ← hn, List.drop_left]
  refine ⟨?_, ?_, ?_⟩
  · rw [nonceOf, List.append_assoc, ← hn, List.take_left]
  · rw [ctOf, hd]
    have : (c ++ t).length - 16 = c.length := by simp [ht]
    rw [this, List.take_left]
  · rw [tagOf, hd]
    have : (c ++ t).length - 16 = c.length := by simp [ht]
    rw [this, List.drop_left]

/-- `decrypt` in closed form -/
theorem decrypt_eq (ae : AE) (k : ae.Key) (data : Bytes) :
    decrypt ae k data =
      if data.length < 16 then .error .tooShort
      else if data.length < 32 then .error .mac
      else if ae.tag k (nonceOf data) (ctOf data) = tagOf data then .ok (ae.dec k (nonceOf data) (ctOf data))
      else .error .mac := by
  unfold decrypt nonceOf ctOf tagOf
  by_cases h1 : data.length < 16
  · rw [if_pos h1, if_pos h1]
  · rw [if_neg h1, if_neg h1]
    by_cases h2 : data.length < 32
    · have : (data.drop 16).length < 16 := by simp; omega
      rw [if_pos this, if_pos h2]
    · have : ¬ (data.drop 16).length < 16 := by simp; omega
      rw [if_neg this, if_neg h2]

theorem decrypt_encrypt (ae : AE) (k : ae.Key) (n m : Bytes) (hn : n.length = 16) :
    decrypt ae k (encrypt ae k n m) = .ok m := by
  rw [decrypt_eq]
  have hl := encrypt_length ae k n m
  obtain ⟨h1, h2, h3⟩ := parts_of_append n (ae.enc k n m) (ae.tag k n (ae.enc k n m)) hn (ae.tag_len _ _ _)
  unfold encrypt at hl ⊢
  rw [if_neg (by omega), if_neg (by omega), h1, h2, h3, if_pos rfl, ae.dec_enc]

/-- an accepted message is the encryption of what it decrypts to, under its own nonce -/
theorem encrypt_of_decrypt (ae : AE) (k : ae.Key) (data m : Bytes) (h : decrypt ae k data = .ok m) :
    32 ≤ data.length ∧ data = encrypt ae k (nonceOf data) m := by
  rw [decrypt_eq] at h
  split at h
  · cases h
  · split at h
    · cases h
    · split at h
      · rename_i h1 h2 ht
        cases h
        refine ⟨by omega, ?_⟩
        have hp := (parts_append data (by omega)).1
        unfold encrypt
        rw [ae.enc_dec, ht]
        exact hp
      · cases h

/-! ### copy between repositories: every stored blob is a message under its repository's own key -/

/-- every blob in the repository's packs authenticates and decrypts under the repository's OWN key -/
def BlobRepo.OwnKey {ae : AE} (r : BlobRepo ae) : Prop := ∀ b ∈ r.blobs, ∃ p, decrypt ae r.key b.bytes = .ok p

theorem encodeBlob_decrypts (ae : AE) (z : Zstd) (on : Bool) (k : ae.Key) (nonce data : Bytes) (hn : nonce.length = 16) :
    ∃ p, decrypt ae k (encodeBlob ae z on k nonce data).1 = .ok p := by
  cases on
  · exact ⟨data, by simp [encodeBlob, decrypt_encrypt ae k nonce _ hn]⟩
  · exact ⟨z.compress data, by simp [encodeBlob, decrypt_encrypt ae k nonce _ hn]⟩

theorem BlobRepo.store_key {ae : AE} (z : Zstd) (r : BlobRepo ae) (nonce : Bytes) (id : Nat) (data : Bytes) :
    (r.store ae z nonce id data).key = r.key := by
  unfold BlobRepo.store; split <;> rfl

theorem BlobRepo.store_own {ae : AE} (z : Zstd) (r : BlobRepo ae) (h : r.OwnKey) (nonce : Bytes) (hn : nonce.length = 16)
    (id : Nat) (data : Bytes) : (r.store ae z nonce id data).OwnKey := by
  unfold BlobRepo.store
  split
  · exact h
  · intro b hb
    simp only [List.mem_append, List.mem_singleton] at hb
    rcases hb with hb | rfl
    · exact h b hb
    · exact encodeBlob_decrypts ae z r.zstdOn r.key nonce data hn

theorem copyOne_key (ae : AE) (z : Zstd) (src dst dst' : BlobRepo ae) (nonce : Bytes) (id : Nat)
    (h : copyOne ae z src dst nonce id = .ok dst') : dst'.key = dst.key := by
  unfold copyOne at h
  split at h
  · cases h; rfl
  · split at h
    · cases h; rfl
    · split at h
      · cases h
      · cases h; exact BlobRepo.store_key z dst nonce id _

theorem copyOne_own (ae : AE) (z : Zstd) (src dst dst' : BlobRepo ae) (hd : dst.OwnKey) (nonce : Bytes)
    (hn : nonce.length = 16) (id : Nat) (h : copyOne ae z src dst nonce id = .ok dst') : dst'.OwnKey := by
  unfold copyOne at h
  split at h
  · cases h; exact hd
  · split at h
    · cases h; exact hd
    · split at h
      · cases h
      · cases h; exact BlobRepo.store_own z dst hd nonce hn id _

theorem copyMany_own (ae : AE) (z : Zstd) (nonce : Nat → Bytes) (hn : ∀ i, (nonce i).length = 16) (src : BlobRepo ae)
    (ids : List Nat) : ∀ (dst : BlobRepo ae) (c : Nat), dst.OwnKey →
      (copyMany ae z nonce src dst c ids).1.OwnKey ∧ (copyMany ae z nonce src dst c ids).1.key = dst.key := by
  induction ids with
  | nil => intro dst c hd; exact ⟨hd, rfl⟩
  | cons id ids ih =>
    intro dst c hd
    unfold copyMany
    split
    · exact ⟨hd, rfl⟩
    · rename_i dst' hok
      obtain ⟨h1, h2⟩ := ih dst' (c + 1) (copyOne_own ae z src dst dst' hd (nonce c) (hn c) id hok)
      exact ⟨h1, h2.trans (copyOne_key ae z src dst dst' (nonce c) id hok)⟩

/-- both repositories of the pair -/
def TwoRepos.OwnKey {ae : AE} (s : TwoRepos ae) : Prop := s.a.OwnKey ∧ s.b.OwnKey

theorem stepCopy_own (ae : AE) (z : Zstd) (nonce : Nat → Bytes) (hn : ∀ i, (nonce i).length = 16) (s : TwoRepos ae)
    (h : s.OwnKey) (c : CopyCmd) :
    (stepCopy ae z nonce s c).OwnKey ∧ (stepCopy ae z nonce s c).a.key = s.a.key ∧ (stepCopy ae z nonce s c).b.key = s.b.key := by
  obtain ⟨ha, hb⟩ := h
  cases c with
  | add toB id data =>
    cases toB
    · exact ⟨⟨BlobRepo.store_own z s.a ha _ (hn _) id data, hb⟩, BlobRepo.store_key z s.a _ id data, rfl⟩
    · exact ⟨⟨ha, BlobRepo.store_own z s.b hb _ (hn _) id data⟩, rfl, BlobRepo.store_key z s.b _ id data⟩
  | copy toB ids =>
    cases toB
    · obtain ⟨h1, h2⟩ := copyMany_own ae z nonce hn s.b ids s.a s.ctr ha
      exact ⟨⟨h1, hb⟩, h2, rfl⟩
    · obtain ⟨h1, h2⟩ := copyMany_own ae z nonce hn s.a ids s.b s.ctr hb
      exact ⟨⟨ha, h1⟩, rfl, h2⟩
  | setCompression toB on =>
    cases toB
    · exact ⟨⟨ha, hb⟩, rfl, rfl⟩
    · exact ⟨⟨ha, hb⟩, rfl, rfl⟩

theorem runCopy_own (ae : AE) (z : Zstd) (nonce : Nat → Bytes) (hn : ∀ i, (nonce i).length = 16) (cmds : List CopyCmd) :
    ∀ s : TwoRepos ae, s.OwnKey →
      (runCopy ae z nonce s cmds).OwnKey ∧ (runCopy ae z nonce s cmds).a.key = s.a.key ∧ (runCopy ae z nonce s cmds).b.key = s.b.key := by
  induction cmds with
  | nil => intro s h; exact ⟨h, rfl, rfl⟩
  | cons c cs ih =>
    intro s h
    obtain ⟨h1, h2, h3⟩ := stepCopy_own ae z nonce hn s h c
    obtain ⟨i1, i2, i3⟩ := ih (stepCopy ae z nonce s c) h1
    exact ⟨i1, i2.trans h2, i3.trans h3⟩

end Rustic.Codec
