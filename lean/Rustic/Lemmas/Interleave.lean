/-
Lemmas about the interleaving model (`Model/Interleave.lean`): the invariant `Inv` that every step of every actor
preserves, and what it implies (`noLoss`, recovery by the follow-up prune).
-/
import Rustic.Model.Interleave
namespace Rustic.Interleave
open Rustic.Repo (Key)

/-- the index still lists the pack: unmarked, or marked not before `since` -/
def Listed (p : PackSt) (since : Int) : Prop := p.status = .unmarked ∨ ∃ t, p.status = .marked t ∧ since ≤ t

/-- the pack is planned-for-deletion material: already out of the index, or marked at `t` with `t + keep_delete ≤ pn` -/
def Doomed (p : PackSt) (kd pn : Int) : Prop := p.status = .unlisted ∨ ∃ t, p.status = .marked t ∧ t + kd ≤ pn

/-- backup `b` is still within the hypothesis: keep-delete exceeds its duration plus the prune span -/
def Within (s : St) (b : Backup) : Prop := s.now + (spanOf s : Nat) < b.t0 + s.keepDelete

structure Inv (s : St) : Prop where
  span : s.pruneSpan.isSome = true
  uniq : s.packs.Pairwise (fun p q => p.id ≠ q.id)
  t0le : ∀ b ∈ s.backups, b.t0 ≤ s.now
  pnle : ∀ pr ∈ s.prunes, pr.pn ≤ s.now
  /-- (I3) what a running prune will delete was marked `keep_delete` before its plan -/
  del : ∀ pr ∈ s.prunes, ∀ id ∈ pr.toDelete, ∃ p ∈ s.packs, p.id = id ∧ Doomed p s.keepDelete pr.pn
  /-- (I1) every key of a visible snapshot is in a stored, listed pack that no running prune deletes -/
  snap : ∀ c ∈ s.snaps, ∀ k ∈ c, ∃ p ∈ s.packs, p.stored = true ∧ k ∈ p.blobs ∧ p.status ≠ .unlisted ∧
    ∀ pr ∈ s.prunes, p.id ∉ pr.toDelete
  /-- (I2) what a running backup relies on is stored and listed since `t0 - span` -/
  rel : ∀ b ∈ s.backups, Within s b → ∀ k ∈ b.relied, ∃ p ∈ s.packs, p.stored = true ∧ k ∈ p.blobs ∧
    Listed p (b.t0 - (spanOf s : Nat))
  own : ∀ b ∈ s.backups, Within s b → ∀ id ∈ b.written, ∃ p ∈ s.packs, p.id = id ∧ p.stored = true ∧
    Listed p (b.t0 - (spanOf s : Nat))

/-! ### small facts -/

theorem uniq_eq {l : List PackSt} (h : l.Pairwise (fun p q => p.id ≠ q.id)) {p q : PackSt} (hp : p ∈ l) (hq : q ∈ l)
    (e : p.id = q.id) : p = q := by
  induction l with
  | nil => cases hp
  | cons a l ih =>
    rw [List.pairwise_cons] at h
    rcases List.mem_cons.mp hp with rfl | hp' <;> rcases List.mem_cons.mp hq with rfl | hq'
    · rfl
    · exact absurd e (h.1 q hq')
    · exact absurd e.symm (h.1 p hp')
    · exact ih h.2 hp' hq'

@[simp] theorem rewritePack_id (pr : Prune) (p : PackSt) : (rewritePack pr p).id = p.id := by
  unfold rewritePack
  split
  · rfl
  · split <;> rfl
@[simp] theorem rewritePack_blobs (pr : Prune) (p : PackSt) : (rewritePack pr p).blobs = p.blobs := by
  unfold rewritePack
  split
  · rfl
  · split <;> rfl
@[simp] theorem rewritePack_stored (pr : Prune) (p : PackSt) : (rewritePack pr p).stored = p.stored := by
  unfold rewritePack
  split
  · rfl
  · split <;> rfl
@[simp] theorem removePack_id (id : Nat) (p : PackSt) : (removePack id p).id = p.id := by
  unfold removePack; split <;> rfl
@[simp] theorem removePack_blobs (id : Nat) (p : PackSt) : (removePack id p).blobs = p.blobs := by
  unfold removePack; split <;> rfl
@[simp] theorem removePack_status (id : Nat) (p : PackSt) : (removePack id p).status = p.status := by
  unfold removePack; split <;> rfl

theorem removePack_stored_of_ne {id : Nat} {p : PackSt} (h : p.id ≠ id) : (removePack id p).stored = p.stored := by
  unfold removePack; simp [h]

/-- status after `rewritePack`: unchanged, or unmarked → marked pn (id planned for marking), or → unlisted (id planned for deletion) -/
theorem rewritePack_status (pr : Prune) (p : PackSt) :
    (rewritePack pr p).status = p.status ∨
    (p.status = .unmarked ∧ p.id ∈ pr.toMark ∧ (rewritePack pr p).status = .marked pr.pn) ∨
    (p.id ∈ pr.toDelete ∧ (rewritePack pr p).status = .unlisted) := by
  unfold rewritePack
  split
  · rename_i h
    simp only [Bool.and_eq_true, List.contains_iff_mem, beq_iff_eq] at h
    exact Or.inr (Or.inl ⟨h.2, h.1, rfl⟩)
  · split
    · rename_i h
      simp only [List.contains_iff_mem] at h
      exact Or.inr (Or.inr ⟨h, rfl⟩)
    · exact Or.inl rfl

theorem pairwise_map_id {l : List PackSt} (f : PackSt → PackSt) (hf : ∀ p, (f p).id = p.id)
    (h : l.Pairwise (fun p q => p.id ≠ q.id)) : (l.map f).Pairwise (fun p q => p.id ≠ q.id) := by
  rw [List.pairwise_map]
  exact h.imp (fun {a b} hab => by rw [hf, hf]; exact hab)

/-- a `Doomed` pack that is also `Listed since` contradicts the timing hypothesis — the timing core -/
theorem doomed_listed_absurd {p : PackSt} {kd pn since now : Int} (hd : Doomed p kd pn) (hl : Listed p since)
    (hpn : pn ≤ now) (hw : now < since + kd) : False := by
  rcases hd with hu | ⟨t, ht, h1⟩ <;> rcases hl with hl | ⟨t', ht', h2⟩
  · rw [hu] at hl; cases hl
  · rw [hu] at ht'; cases ht'
  · rw [ht] at hl; cases hl
  · rw [ht] at ht'; injection ht' with e; subst e; omega

/-! ### inversion of `step` -/

theorem step_backupStart {s s' : St} {relied : List Key} (h : step s (.backupStart relied) = some s') :
    (∀ k ∈ relied, visible s k = true) ∧
    s' = { s with backups := s.backups ++ [{ t0 := s.now, relied := relied, written := [] }] } := by
  simp only [step] at h
  split at h
  · rename_i hc
    simp only [Option.some.injEq] at h
    exact ⟨by simpa [List.all_eq_true] using hc, h.symm⟩
  · simp at h

theorem step_backupWrite {s s' : St} {i id : Nat} {blobs : List Key} (h : step s (.backupWrite i id blobs) = some s') :
    ∃ b, s.backups[i]? = some b ∧ (∀ p ∈ s.packs, p.id ≠ id) ∧
    s' = { s with packs := s.packs ++ [{ id := id, blobs := blobs, stored := true, status := .unmarked }],
                  backups := setAt s.backups i { b with written := id :: b.written } } := by
  simp only [step] at h
  split at h
  · simp at h
  · rename_i b hb
    split at h
    · simp at h
    · rename_i hc
      simp only [Option.some.injEq] at h
      refine ⟨b, hb, ?_, h.symm⟩
      intro p hp e
      apply hc
      simp only [List.any_eq_true, beq_iff_eq]
      exact ⟨p, hp, e⟩

theorem step_backupFinish {s s' : St} {i : Nat} {closure : List Key} (h : step s (.backupFinish i closure) = some s') :
    ∃ b, s.backups[i]? = some b ∧
    (∀ k ∈ closure, k ∈ b.relied ∨ ∃ p ∈ s.packs, p.id ∈ b.written ∧ k ∈ p.blobs) ∧ Within s b ∧
    s' = { s with snaps := closure :: s.snaps, backups := s.backups.eraseIdx i } := by
  simp only [step] at h
  split at h
  · simp at h
  · rename_i b hb
    split at h
    · rename_i hc
      simp only [Option.some.injEq] at h
      simp only [Bool.and_eq_true, List.all_eq_true, Bool.or_eq_true, List.contains_iff_mem, List.any_eq_true,
        List.mem_filter, decide_eq_true_eq] at hc
      refine ⟨b, hb, ?_, hc.2, h.symm⟩
      intro k hk
      rcases hc.1 k hk with h1 | ⟨p, ⟨hp, hw⟩, hkp⟩
      · exact Or.inl h1
      · exact Or.inr ⟨p, hp, hw, hkp⟩
    · simp at h

theorem step_pruneStart {s s' : St} {del mk : List Nat} (h : step s (.pruneStart del mk) = some s') :
    (∀ id ∈ del, ∃ p ∈ s.packs, p.id = id ∧ deletable s s.now p = true) ∧
    (∀ id ∈ mk, ∃ p ∈ s.packs, p.id = id ∧ unusedUnmarked s p = true) ∧
    s' = { s with prunes := s.prunes ++ [{ pn := s.now, toDelete := del, toMark := mk }] } := by
  simp only [step] at h
  split at h
  · rename_i hc
    simp only [Option.some.injEq] at h
    simp only [Bool.and_eq_true, List.all_eq_true, List.any_eq_true, beq_iff_eq] at hc
    exact ⟨fun id hid => by obtain ⟨p, hp, h1, h2⟩ := hc.1 id hid; exact ⟨p, hp, h1, h2⟩,
           fun id hid => by obtain ⟨p, hp, h1, h2⟩ := hc.2 id hid; exact ⟨p, hp, h1, h2⟩, h.symm⟩
  · simp at h

theorem step_pruneRewrite {s s' : St} {j : Nat} (h : step s (.pruneRewrite j) = some s') :
    ∃ pr, s.prunes[j]? = some pr ∧ (s.pruneSpan.isSome → s.now ≤ pr.pn + (spanOf s : Nat)) ∧
    s' = { s with packs := s.packs.map (rewritePack pr) } := by
  simp only [step] at h
  split at h
  · simp at h
  · rename_i pr hpr
    refine ⟨pr, hpr, ?_⟩
    cases hd : s.pruneSpan with
    | none =>
      simp only [hd, Bool.not_true, Bool.false_eq_true, if_false, Option.some.injEq] at h
      exact ⟨by simp, h.symm⟩
    | some d =>
      simp only [hd] at h
      split at h
      · simp at h
      · rename_i hc
        simp only [Option.some.injEq] at h
        simp only [Bool.not_eq_true, Bool.not_eq_false', decide_eq_true_eq] at hc
        exact ⟨fun _ => by simpa [spanOf, hd] using hc, h.symm⟩

theorem step_pruneRemove {s s' : St} {j id : Nat} (h : step s (.pruneRemove j id) = some s') :
    ∃ pr, s.prunes[j]? = some pr ∧ id ∈ pr.toDelete ∧ s' = { s with packs := s.packs.map (removePack id) } := by
  simp only [step] at h
  split at h
  · simp at h
  · rename_i pr hpr
    split at h
    · rename_i hc
      simp only [Option.some.injEq] at h
      exact ⟨pr, hpr, by simpa using hc, h.symm⟩
    · simp at h

theorem step_pruneEnd {s s' : St} {j : Nat} (h : step s (.pruneEnd j) = some s') :
    s' = { s with prunes := s.prunes.eraseIdx j } := by
  simp only [step] at h
  split at h
  · simp only [Option.some.injEq] at h; exact h.symm
  · simp at h


/-! ### helper facts for the preservation proofs -/

theorem deletable_doomed {s : St} {p : PackSt} {pn : Int} (h : deletable s pn p = true) :
    Doomed p s.keepDelete pn ∧ ∀ c ∈ s.snaps, ∀ k ∈ c, k ∉ p.blobs := by
  simp only [deletable, Bool.and_eq_true, Bool.not_eq_true', List.any_eq_false, List.contains_iff_mem] at h
  refine ⟨?_, fun c hc k hk hkp => by
    have := h.2 c hc
    simp only [List.any_eq_true, List.contains_iff_mem, not_exists, not_and] at this
    exact this k hk hkp⟩
  cases hs : p.status with
  | unmarked => rw [hs] at h; simp at h
  | unlisted => exact Or.inl hs
  | marked t =>
    rw [hs] at h
    exact Or.inr ⟨t, hs, by simpa using h.1⟩

theorem listed_ne_unlisted {p : PackSt} {since : Int} (h : Listed p since) : p.status ≠ .unlisted := by
  rcases h with h | ⟨t, h, _⟩ <;> rw [h] <;> simp

/-- within the hypothesis, a pack that is listed since `t0 - span` is in no running prune's deletion list -/
theorem listed_not_planned {s : St} (I : Inv s) {b : Backup} (hb : b ∈ s.backups) (hw : Within s b) {p : PackSt}
    (hp : p ∈ s.packs) (hl : Listed p (b.t0 - (spanOf s : Nat))) : ∀ pr ∈ s.prunes, p.id ∉ pr.toDelete := by
  intro pr hpr hin
  obtain ⟨q, hq, hid, hd⟩ := I.del pr hpr _ hin
  have : q = p := uniq_eq I.uniq hq hp hid
  subst this
  have := I.pnle pr hpr
  unfold Within at hw
  exact doomed_listed_absurd hd hl this (by omega)

/-! ### every step preserves `Inv` -/

theorem inv_tick {s : St} (I : Inv s) (d : Nat) : Inv { s with now := s.now + d } := by
  refine ⟨I.span, I.uniq, fun b hb => ?_, fun pr hpr => ?_, I.del, I.snap, fun b hb hw => ?_, fun b hb hw => ?_⟩
  · have := I.t0le b hb; show b.t0 ≤ s.now + d; omega
  · have := I.pnle pr hpr; show pr.pn ≤ s.now + d; omega
  · have hw' : s.now + (d : Int) + (spanOf s : Nat) < b.t0 + s.keepDelete := hw
    exact I.rel b hb (by unfold Within; omega)
  · have hw' : s.now + (d : Int) + (spanOf s : Nat) < b.t0 + s.keepDelete := hw
    exact I.own b hb (by unfold Within; omega)

theorem inv_backupStart {s : St} (I : Inv s) (relied : List Key) (hv : ∀ k ∈ relied, visible s k = true) :
    Inv { s with backups := s.backups ++ [{ t0 := s.now, relied := relied, written := [] }] } := by
  refine ⟨I.span, I.uniq, fun b hb => ?_, I.pnle, I.del, I.snap, fun b hb hw => ?_, fun b hb hw => ?_⟩
  · simp only [List.mem_append, List.mem_singleton] at hb
    rcases hb with hb | rfl
    · exact I.t0le b hb
    · exact Int.le_refl _
  · simp only [List.mem_append, List.mem_singleton] at hb
    rcases hb with hb | rfl
    · exact I.rel b hb hw
    · intro k hk
      have := hv k hk
      simp only [visible, List.any_eq_true, Bool.and_eq_true, beq_iff_eq, List.contains_iff_mem] at this
      obtain ⟨p, hp, ⟨h1, h2⟩, h3⟩ := this
      exact ⟨p, hp, h1, h3, Or.inl h2⟩
  · simp only [List.mem_append, List.mem_singleton] at hb
    rcases hb with hb | rfl
    · exact I.own b hb hw
    · intro id hid; cases hid

theorem inv_backupWrite {s : St} (I : Inv s) {i id : Nat} (blobs : List Key) {b : Backup} (hb : s.backups[i]? = some b)
    (hf : ∀ p ∈ s.packs, p.id ≠ id) :
    Inv { s with packs := s.packs ++ [{ id := id, blobs := blobs, stored := true, status := .unmarked }],
                 backups := setAt s.backups i { b with written := id :: b.written } } := by
  have hbm : b ∈ s.backups := List.mem_of_getElem? hb
  have hmem : ∀ b' ∈ setAt s.backups i { b with written := id :: b.written },
      b' ∈ s.backups ∨ b' = { b with written := id :: b.written } := fun b' h => List.mem_or_eq_of_mem_set h
  refine ⟨I.span, ?_, fun b' hb' => ?_, I.pnle, fun pr hpr x hx => ?_, fun c hc k hk => ?_, fun b' hb' hw => ?_,
    fun b' hb' hw => ?_⟩
  · show (s.packs ++ [_]).Pairwise _
    rw [List.pairwise_append]
    refine ⟨I.uniq, List.pairwise_singleton _ _, ?_⟩
    intro p hp q hq
    simp only [List.mem_singleton] at hq
    subst hq
    exact hf p hp
  · rcases hmem b' hb' with h | rfl
    · exact I.t0le b' h
    · exact I.t0le b hbm
  · obtain ⟨p, hp, h1, h2⟩ := I.del pr hpr x hx
    exact ⟨p, List.mem_append_left _ hp, h1, h2⟩
  · obtain ⟨p, hp, h1⟩ := I.snap c hc k hk
    exact ⟨p, List.mem_append_left _ hp, h1⟩
  · rcases hmem b' hb' with h | rfl
    · intro k hk
      obtain ⟨p, hp, h1⟩ := I.rel b' h hw k hk
      exact ⟨p, List.mem_append_left _ hp, h1⟩
    · intro k hk
      obtain ⟨p, hp, h1⟩ := I.rel b hbm hw k hk
      exact ⟨p, List.mem_append_left _ hp, h1⟩
  · rcases hmem b' hb' with h | rfl
    · intro x hx
      obtain ⟨p, hp, h1⟩ := I.own b' h hw x hx
      exact ⟨p, List.mem_append_left _ hp, h1⟩
    · intro x hx
      simp only [List.mem_cons] at hx
      rcases hx with rfl | hx
      · exact ⟨_, List.mem_append_right _ (List.mem_singleton.mpr rfl), rfl, rfl, Or.inl rfl⟩
      · obtain ⟨p, hp, h1⟩ := I.own b hbm hw x hx
        exact ⟨p, List.mem_append_left _ hp, h1⟩

theorem inv_backupFinish {s : St} (I : Inv s) {i : Nat} (closure : List Key) {b : Backup} (hb : s.backups[i]? = some b)
    (hc : ∀ k ∈ closure, k ∈ b.relied ∨ ∃ p ∈ s.packs, p.id ∈ b.written ∧ k ∈ p.blobs) (hw : Within s b) :
    Inv { s with snaps := closure :: s.snaps, backups := s.backups.eraseIdx i } := by
  have hbm : b ∈ s.backups := List.mem_of_getElem? hb
  have sub : ∀ b' ∈ s.backups.eraseIdx i, b' ∈ s.backups := fun b' h => List.mem_of_mem_eraseIdx h
  refine ⟨I.span, I.uniq, fun b' hb' => I.t0le b' (sub b' hb'), I.pnle, I.del, fun c hcm k hk => ?_,
    fun b' hb' hw' => I.rel b' (sub b' hb') hw', fun b' hb' hw' => I.own b' (sub b' hb') hw'⟩
  simp only [List.mem_cons] at hcm
  rcases hcm with rfl | hcm
  · rcases hc k hk with hr | ⟨p, hp, hpw, hkp⟩
    · obtain ⟨p, hp, h1, h2, h3⟩ := I.rel b hbm hw k hr
      exact ⟨p, hp, h1, h2, listed_ne_unlisted h3, listed_not_planned I hbm hw hp h3⟩
    · obtain ⟨q, hq, h1, h2, h3⟩ := I.own b hbm hw p.id hpw
      have : q = p := uniq_eq I.uniq hq hp h1
      subst this
      exact ⟨q, hq, h2, hkp, listed_ne_unlisted h3, listed_not_planned I hbm hw hq h3⟩
  · exact I.snap c hcm k hk

theorem inv_pruneStart {s : St} (I : Inv s) (del mk : List Nat)
    (hd : ∀ id ∈ del, ∃ p ∈ s.packs, p.id = id ∧ deletable s s.now p = true) :
    Inv { s with prunes := s.prunes ++ [{ pn := s.now, toDelete := del, toMark := mk }] } := by
  refine ⟨I.span, I.uniq, I.t0le, fun pr hpr => ?_, fun pr hpr x hx => ?_, fun c hc k hk => ?_, I.rel, I.own⟩
  · simp only [List.mem_append, List.mem_singleton] at hpr
    rcases hpr with h | rfl
    · exact I.pnle pr h
    · exact Int.le_refl _
  · simp only [List.mem_append, List.mem_singleton] at hpr
    rcases hpr with h | rfl
    · exact I.del pr h x hx
    · obtain ⟨p, hp, h1, h2⟩ := hd x hx
      exact ⟨p, hp, h1, (deletable_doomed h2).1⟩
  · obtain ⟨p, hp, h1, h2, h3, h4⟩ := I.snap c hc k hk
    refine ⟨p, hp, h1, h2, h3, fun pr hpr => ?_⟩
    simp only [List.mem_append, List.mem_singleton] at hpr
    rcases hpr with h | rfl
    · exact h4 pr h
    · intro hin
      obtain ⟨q, hq, e, hdel⟩ := hd p.id hin
      have : q = p := uniq_eq I.uniq hq hp e
      subst this
      exact (deletable_doomed hdel).2 c hc k hk h2

theorem inv_pruneRewrite {s : St} (I : Inv s) {j : Nat} {pr : Prune} (hpr : s.prunes[j]? = some pr)
    (hg : s.now ≤ pr.pn + (spanOf s : Nat)) : Inv { s with packs := s.packs.map (rewritePack pr) } := by
  have hprm : pr ∈ s.prunes := List.mem_of_getElem? hpr
  -- a listed pack stays listed (since `t0 - span`) through the rewrite, for a backup within the hypothesis
  have keep : ∀ b ∈ s.backups, Within s b → ∀ p ∈ s.packs, Listed p (b.t0 - (spanOf s : Nat)) →
      Listed (rewritePack pr p) (b.t0 - (spanOf s : Nat)) := by
    intro b hb hw p hp hl
    rcases rewritePack_status pr p with h | ⟨_, _, h⟩ | ⟨hin, _⟩
    · unfold Listed; rw [h]; exact hl
    · have := I.t0le b hb
      exact Or.inr ⟨pr.pn, h, by omega⟩
    · exact absurd hin (listed_not_planned I hb hw hp hl pr hprm)
  refine ⟨I.span, pairwise_map_id _ (rewritePack_id pr) I.uniq, I.t0le, I.pnle, fun pr' hpr' x hx => ?_,
    fun c hc k hk => ?_, fun b hb hw k hk => ?_, fun b hb hw x hx => ?_⟩
  · obtain ⟨p, hp, h1, h2⟩ := I.del pr' hpr' x hx
    refine ⟨rewritePack pr p, List.mem_map_of_mem hp, by simp [h1], ?_⟩
    rcases rewritePack_status pr p with h | ⟨hu, _, _⟩ | ⟨_, h⟩
    · unfold Doomed; rw [h]; exact h2
    · rcases h2 with h2 | ⟨t, h2, _⟩ <;> rw [hu] at h2 <;> cases h2
    · exact Or.inl h
  · obtain ⟨p, hp, h1, h2, h3, h4⟩ := I.snap c hc k hk
    refine ⟨rewritePack pr p, List.mem_map_of_mem hp, by simp [h1], by simp [h2], ?_, by simpa using h4⟩
    rcases rewritePack_status pr p with h | ⟨_, _, h⟩ | ⟨hin, _⟩
    · rw [h]; exact h3
    · rw [h]; simp
    · exact absurd hin (h4 pr hprm)
  · obtain ⟨p, hp, h1, h2, h3⟩ := I.rel b hb hw k hk
    exact ⟨rewritePack pr p, List.mem_map_of_mem hp, by simp [h1], by simp [h2], keep b hb hw p hp h3⟩
  · obtain ⟨p, hp, h1, h2, h3⟩ := I.own b hb hw x hx
    exact ⟨rewritePack pr p, List.mem_map_of_mem hp, by simp [h1], by simp [h2], keep b hb hw p hp h3⟩

theorem inv_pruneRemove {s : St} (I : Inv s) {j id : Nat} {pr : Prune} (hpr : s.prunes[j]? = some pr)
    (hid : id ∈ pr.toDelete) : Inv { s with packs := s.packs.map (removePack id) } := by
  have hprm : pr ∈ s.prunes := List.mem_of_getElem? hpr
  have listed : ∀ p, Listed (removePack id p) = Listed p := by
    intro p; funext since; unfold Listed; rw [removePack_status]
  refine ⟨I.span, pairwise_map_id _ (removePack_id id) I.uniq, I.t0le, I.pnle, fun pr' hpr' x hx => ?_,
    fun c hc k hk => ?_, fun b hb hw k hk => ?_, fun b hb hw x hx => ?_⟩
  · obtain ⟨p, hp, h1, h2⟩ := I.del pr' hpr' x hx
    exact ⟨removePack id p, List.mem_map_of_mem hp, by simp [h1], by unfold Doomed at h2 ⊢; rw [removePack_status]; exact h2⟩
  · obtain ⟨p, hp, h1, h2, h3, h4⟩ := I.snap c hc k hk
    have hne : p.id ≠ id := fun e => h4 pr hprm (e ▸ hid)
    exact ⟨removePack id p, List.mem_map_of_mem hp, by rw [removePack_stored_of_ne hne]; exact h1, by simp [h2],
      by rw [removePack_status]; exact h3, by simpa using h4⟩
  · obtain ⟨p, hp, h1, h2, h3⟩ := I.rel b hb hw k hk
    have hne : p.id ≠ id := fun e => listed_not_planned I hb hw hp h3 pr hprm (e ▸ hid)
    exact ⟨removePack id p, List.mem_map_of_mem hp, by rw [removePack_stored_of_ne hne]; exact h1, by simp [h2],
      by rw [listed]; exact h3⟩
  · obtain ⟨p, hp, h1, h2, h3⟩ := I.own b hb hw x hx
    have hne : p.id ≠ id := fun e => listed_not_planned I hb hw hp h3 pr hprm (e ▸ hid)
    exact ⟨removePack id p, List.mem_map_of_mem hp, by simp [h1], by rw [removePack_stored_of_ne hne]; exact h2,
      by rw [listed]; exact h3⟩

theorem inv_pruneEnd {s : St} (I : Inv s) (j : Nat) : Inv { s with prunes := s.prunes.eraseIdx j } := by
  have sub : ∀ pr ∈ s.prunes.eraseIdx j, pr ∈ s.prunes := fun pr h => List.mem_of_mem_eraseIdx h
  exact ⟨I.span, I.uniq, I.t0le, fun pr h => I.pnle pr (sub pr h), fun pr h => I.del pr (sub pr h),
    fun c hc k hk => by
      obtain ⟨p, hp, h1, h2, h3, h4⟩ := I.snap c hc k hk
      exact ⟨p, hp, h1, h2, h3, fun pr h => h4 pr (sub pr h)⟩,
    I.rel, I.own⟩

theorem step_forget {s s' : St} {i : Nat} (h : step s (.forget i) = some s') :
    s' = { s with snaps := s.snaps.eraseIdx i } := by
  simp only [step] at h
  split at h
  · simp only [Option.some.injEq] at h; exact h.symm
  · simp at h

theorem inv_forget {s : St} (I : Inv s) (i : Nat) : Inv { s with snaps := s.snaps.eraseIdx i } :=
  ⟨I.span, I.uniq, I.t0le, I.pnle, I.del, fun c hc k hk => I.snap c (List.mem_of_mem_eraseIdx hc) k hk, I.rel, I.own⟩

/-- **every step of every actor preserves the invariant** -/
theorem inv_step {s s' : St} (a : Step) (I : Inv s) (h : step s a = some s') : Inv s' := by
  cases a with
  | tick d => simp only [step, Option.some.injEq] at h; subst h; exact inv_tick I d
  | backupStart relied => obtain ⟨hv, rfl⟩ := step_backupStart h; exact inv_backupStart I relied hv
  | backupWrite i id blobs => obtain ⟨b, hb, hf, rfl⟩ := step_backupWrite h; exact inv_backupWrite I blobs hb hf
  | backupFinish i closure => obtain ⟨b, hb, hc, hw, rfl⟩ := step_backupFinish h; exact inv_backupFinish I closure hb hc hw
  | pruneStart del mk => obtain ⟨hd, _, rfl⟩ := step_pruneStart h; exact inv_pruneStart I del mk hd
  | pruneRewrite j => obtain ⟨pr, hpr, hg, rfl⟩ := step_pruneRewrite h; exact inv_pruneRewrite I hpr (hg I.span)
  | pruneRemove j id => obtain ⟨pr, hpr, hid, rfl⟩ := step_pruneRemove h; exact inv_pruneRemove I hpr hid
  | pruneEnd j => rw [step_pruneEnd h]; exact inv_pruneEnd I j
  | forget i => rw [step_forget h]; exact inv_forget I i

theorem inv_run : ∀ (as : List Step) {s s' : St}, Inv s → run s as = some s' → Inv s'
  | [], s, s', I, h => by simp only [run, Option.some.injEq] at h; exact h ▸ I
  | a :: as, s, s', I, h => by
    simp only [run] at h
    split at h
    · simp at h
    · rename_i s1 h1
      exact inv_run as (inv_step a I h1) h

/-! ### what the invariant gives -/

theorem inv_noLoss {s : St} (I : Inv s) : noLoss s = true := by
  simp only [noLoss, Bool.and_eq_true, List.all_eq_true, List.any_eq_true, Bool.or_eq_true, Bool.not_eq_true',
    decide_eq_false_iff_not, List.contains_iff_mem, bne_iff_ne, ne_eq]
  refine ⟨fun c hc k hk => ?_, fun b hb => ?_⟩
  · obtain ⟨p, hp, h1, h2, h3, _⟩ := I.snap c hc k hk
    exact ⟨p, hp, ⟨h1, h2⟩, h3⟩
  · by_cases hw : Within s b
    · refine Or.inr (fun k hk => ?_)
      obtain ⟨p, hp, h1, h2, h3⟩ := I.rel b hb hw k hk
      simp only [kept, List.any_eq_true, Bool.and_eq_true, List.contains_iff_mem]
      refine ⟨p, hp, ⟨h1, h2⟩, ?_⟩
      rcases h3 with h3 | ⟨t, h3, h4⟩
      · rw [h3]
      · rw [h3]; simpa using h4
    · exact Or.inl hw

theorem inv_followup {s : St} (I : Inv s) : allVisible (followupPrune s) = true := by
  simp only [allVisible, List.all_eq_true]
  intro c hc k hk
  have hc' : c ∈ s.snaps := hc
  obtain ⟨p, hp, h1, h2, h3, _⟩ := I.snap c hc' k hk
  have used : (s.snaps.any fun c => c.any fun k => p.blobs.contains k) = true := by
    simp only [List.any_eq_true, List.contains_iff_mem]
    exact ⟨c, hc', k, hk, h2⟩
  have used' : ∃ x, x ∈ s.snaps ∧ ∃ k, k ∈ x ∧ k ∈ p.blobs := ⟨c, hc', k, hk, h2⟩
  simp only [visible, followupPrune, List.any_eq_true, List.mem_map, Bool.and_eq_true, beq_iff_eq, List.contains_iff_mem]
  refine ⟨_, ⟨p, hp, rfl⟩, ?_⟩
  cases hs : p.status with
  | unlisted => exact absurd hs h3
  | unmarked => simp only [if_pos used']; exact ⟨⟨h1, hs⟩, h2⟩
  | marked t => simp only [if_pos used']; exact ⟨⟨h1, trivial⟩, h2⟩

/-- a quiescent state whose snapshots are all stored and listed satisfies the invariant -/
theorem inv_quiescent (s : St) (hspan : s.pruneSpan.isSome = true) (hu : s.packs.Pairwise (fun p q => p.id ≠ q.id))
    (hb : s.backups = []) (hp : s.prunes = [])
    (hs : ∀ c ∈ s.snaps, ∀ k ∈ c, ∃ p ∈ s.packs, p.stored = true ∧ k ∈ p.blobs ∧ p.status ≠ .unlisted) : Inv s := by
  refine ⟨hspan, hu, by simp [hb], by simp [hp], by simp [hp], fun c hc k hk => ?_, by simp [hb], by simp [hb]⟩
  obtain ⟨p, hpm, h⟩ := hs c hc k hk
  exact ⟨p, hpm, h.1, h.2.1, h.2.2, by simp [hp]⟩

/-! ### the follow-up prune, pack by pack -/

/-- what `followupPrune` does to one pack (the body of its `map`) -/
theorem followupPrune_packs (s : St) : (followupPrune s).packs = s.packs.map (fun p =>
      let used := s.snaps.any (fun c => c.any (fun k => p.blobs.contains k))
      match p.status with
      | .marked t => if used then { p with status := .unmarked }
                     else if decide (t + s.keepDelete ≤ s.now) then { p with status := .unlisted, stored := false } else p
      | .unmarked => if used then p else { p with status := .marked s.now }
      | .unlisted => p) := rfl

theorem used_of_mem {s : St} {p : PackSt} {c : List Key} {k : Key} (hc : c ∈ s.snaps) (hk : k ∈ c) (hb : k ∈ p.blobs) :
    (s.snaps.any fun c => c.any fun k => p.blobs.contains k) = true := by
  simp only [List.any_eq_true, List.contains_iff_mem]
  exact ⟨c, hc, k, hk, hb⟩

/-- Recover does not look at the mark's time: a marked pack holding a key of a visible snapshot becomes unmarked, for
EVERY mark time `t` and every `now` -/
theorem followup_recovers_marked {s : St} {p : PackSt} {t : Int} {c : List Key} {k : Key} (hp : p ∈ s.packs)
    (hm : p.status = .marked t) (hc : c ∈ s.snaps) (hk : k ∈ c) (hb : k ∈ p.blobs) :
    { p with status := .unmarked } ∈ (followupPrune s).packs := by
  rw [followupPrune_packs, List.mem_map]
  refine ⟨p, hp, ?_⟩
  simp only [hm, used_of_mem hc hk hb, if_true]

/-- the age of a mark only matters for packs NO snapshot needs: those are removed once `t + keep_delete ≤ now` -/
theorem followup_deletes_old_unused {s : St} {p : PackSt} {t : Int} (hp : p ∈ s.packs) (hm : p.status = .marked t)
    (hu : (s.snaps.any fun c => c.any fun k => p.blobs.contains k) = false) (hold : t + s.keepDelete ≤ s.now) :
    { p with status := .unlisted, stored := false } ∈ (followupPrune s).packs := by
  rw [followupPrune_packs, List.mem_map]
  refine ⟨p, hp, ?_⟩
  simp only [hm, hu, Bool.false_eq_true, if_false, decide_eq_true hold, if_true]

/-- no prune step of the model touches a blob list: every pack of `followupPrune s` has the id and the blobs of a pack of `s` -/
theorem followup_keeps_blobs {s : St} {p : PackSt} (hp : p ∈ s.packs) :
    ∃ q ∈ (followupPrune s).packs, q.id = p.id ∧ q.blobs = p.blobs := by
  rw [followupPrune_packs]
  refine ⟨_, List.mem_map.mpr ⟨p, hp, rfl⟩, ?_⟩
  cases hs : p.status with
  | unlisted => exact ⟨rfl, rfl⟩
  | unmarked => dsimp only; split <;> exact ⟨rfl, rfl⟩
  | marked t => dsimp only; split; · exact ⟨rfl, rfl⟩
                split <;> exact ⟨rfl, rfl⟩

/-- `KeepMarked`: a marked pack that plan `pr` does not delete goes through `pr`'s index rewrite unchanged — same mark time,
same blob list -/
theorem rewritePack_keepMarked {pr : Prune} {p : PackSt} {t : Int} (hm : p.status = .marked t) (hk : p.id ∉ pr.toDelete) :
    rewritePack pr p = p := by
  unfold rewritePack
  have h1 : (pr.toMark.contains p.id && p.status == .unmarked) = false := by
    rw [hm]; simp
  have h2 : pr.toDelete.contains p.id = false := by simpa using hk
  simp only [h1, h2, Bool.false_eq_true, if_false]

end Rustic.Interleave

namespace Rustic.Repo
/-! ### protocol model: a prune's index rewrite (used by Props/C10) -/

/-- removing index files other than `i` keeps `i` listed and does not touch the pack files -/
theorem removeIndexes_keep : ∀ (rm : List Nat) (r : Repo) (i : IndexFile), i ∈ r.indexes → i.id ∉ rm →
    i ∈ (applyAll r (rm.map .removeIndex)).indexes ∧ (applyAll r (rm.map .removeIndex)).packs = r.packs
  | [], r, i, hi, _ => ⟨hi, rfl⟩
  | id :: rm, r, i, hi, hn => by
    simp only [List.map_cons, applyAll, List.foldl_cons]
    have hne : i.id ≠ id := fun e => hn (e ▸ List.mem_cons_self ..)
    have hi' : i ∈ (apply r (.removeIndex id)).indexes := by
      simp only [apply, List.mem_filter, bne_iff_ne, ne_eq]
      exact ⟨hi, hne⟩
    have := removeIndexes_keep rm (apply r (.removeIndex id)) i hi' (fun h => hn (List.mem_cons_of_mem _ h))
    exact ⟨this.1, this.2.trans rfl⟩

end Rustic.Repo
