import Rustic.Model.CommandTable
/- Lemmas for C15: a conforming command on an append-only repository keeps every protected file. -/
namespace Rustic.CommandTable

theorem run_appendOnly_no_protected_removal (hc : Bool) (cmd : Cmd) (ops : List Op) (h : run hc true cmd = .runs ops) :
    ∀ op ∈ ops, op.isProtectedRemoval = false := by
  have fin : ∀ (l : List Op), l.all (fun o => !o.isProtectedRemoval) = true → Outcome.runs l = .runs ops →
      ∀ op ∈ ops, op.isProtectedRemoval = false := by
    intro l hl he
    cases he
    intro op hop
    have := List.all_eq_true.1 hl op hop
    simpa using this
  cases cmd with
  | backup src d => cases d <;> exact fin _ (by decide) h
  | deleteSnapshots => simp [run] at h
  | saveSnapshots => exact fin _ (by decide) h
  | prunePlan => exact fin _ (by decide) h
  | prune => simp [run] at h
  | repairIndex d => simp [run] at h
  | repairSnapshots del d => cases del <;> cases d <;> first | exact fin _ (by decide) h | simp [run] at h
  | rewriteSnapshots fg d => cases fg <;> cases d <;> first | exact fin _ (by decide) h | simp [run] at h
  | rewriteTrees fg d => cases fg <;> cases d <;> first | exact fin _ (by decide) h | simp [run] at h
  | applyConfig c =>
    cases c with
    | setAppendOnly b => cases b <;> first | exact fin _ (by decide) h | simp [run] at h
    | other ch => simp [run] at h
    | rejected sao why => simp only [run] at h; split at h <;> cases h
  | addKey => exact fin _ (by decide) h
  | deleteKey => exact fin _ (by decide) h
  | copyInto => exact fin _ (by decide) h
  | mergeSnapshots => exact fin _ (by decide) h
  | repairHotcold d => cases hc <;> cases d <;> first | exact fin _ (by decide) h | simp [run] at h
  | prepareRestore d => exact fin _ (by decide) h
  | init => simp [run] at h
  | initWithConfig b => exact fin _ (by decide) h
  | initHot => cases hc <;> exact fin _ (by decide) h
  | readOnly => exact fin _ (by decide) h

theorem applyOp_keeps (files : List File) (f : File) (o : ConcreteOp) (hf : f ∈ files)
    (hp : f.isProtected = true) (hk : o.kind.isProtectedRemoval = false) : f ∈ applyOp files o := by
  cases o with
  | write g =>
    simp only [applyOp]
    split
    · exact hf
    · exact List.mem_cons_of_mem _ hf
  | remove g =>
    simp only [applyOp, List.mem_filter, bne_iff_ne, ne_eq]
    refine ⟨hf, ?_⟩
    intro hfg
    subst hfg
    simp only [ConcreteOp.kind] at hk
    cases f with
    | mk t i => cases t <;> simp_all [Op.isProtectedRemoval, File.isProtected]

theorem foldl_applyOp_keeps (ops : List ConcreteOp) (files : List File) (f : File) (hf : f ∈ files)
    (hp : f.isProtected = true) (hk : ∀ o ∈ ops, o.kind.isProtectedRemoval = false) :
    f ∈ ops.foldl applyOp files := by
  induction ops generalizing files with
  | nil => exact hf
  | cons o os ih =>
    simp only [List.foldl_cons]
    apply ih
    · exact applyOp_keeps files f o hf hp (hk o (by simp))
    · intro o' ho'; exact hk o' (by simp [ho'])

theorem step_keeps (s : State) (e : Exec) (hao : s.appendOnly = true) (hc : conforms s e = true)
    (f : File) (hf : f ∈ s.files) (hp : f.isProtected = true) : f ∈ (step s e).files := by
  simp only [step]
  apply foldl_applyOp_keeps _ _ _ hf hp
  intro o ho
  simp only [conforms, hao] at hc
  cases hr : run s.hotCold true e.cmd with
  | refused err =>
    simp only [hr, List.isEmpty_iff] at hc
    simp [hc] at ho
  | runs allowed =>
    simp only [hr, List.all_eq_true] at hc
    have hin := hc o ho
    have hmem : o.kind ∈ allowed := by simpa using hin
    exact run_appendOnly_no_protected_removal s.hotCold e.cmd allowed hr _ hmem

/-- every command of the history conforms to the table and the repository is append-only before each. -/
def AllAppendOnly (s : State) : List Exec → Prop
  | [] => True
  | e :: es => s.appendOnly = true ∧ conforms s e = true ∧ AllAppendOnly (step s e) es

instance decAllAppendOnly : (s : State) → (es : List Exec) → Decidable (AllAppendOnly s es)
  | _, [] => isTrue trivial
  | s, e :: es =>
    have := decAllAppendOnly (step s e) es
    by unfold AllAppendOnly; infer_instance

theorem history_keeps (es : List Exec) (s : State) (h : AllAppendOnly s es) (f : File) (hf : f ∈ s.files)
    (hp : f.isProtected = true) : f ∈ (es.foldl step s).files := by
  induction es generalizing s with
  | nil => exact hf
  | cons e es ih =>
    obtain ⟨hao, hc, hrest⟩ := h
    simp only [List.foldl_cons]
    exact ih (step s e) hrest (step_keeps s e hao hc f hf hp)

end Rustic.CommandTable
