/- Helper lemmas for C20 (`Model/Backends.lean`). -/
import Rustic.Model.Backends
namespace Rustic.Backends

/-! ### `parseSome` -/

theorem hex_lower (c : Char) (h : isHexChar c = true) :
    isHexChar (lowerHex c) = true ∧ lowerHex (lowerHex c) = lowerHex c := by
  simp [isHexChar, hexDigits] at h
  rcases h with h|h|h|h|h|h|h|h|h|h|h|h|h|h|h|h|h|h|h|h|h|h <;> subst h <;>
    simp [lowerHex, isHexChar, hexDigits]

theorem parseSome_isSome_iff (L : Nat) (s : Name) :
    (parseSome L s).isSome = true ↔ s.length = L ∧ ∀ c ∈ s, isHexChar c = true := by
  unfold parseSome
  by_cases h : (s.length = L && s.all isHexChar) = true
  · simp only [h, if_true, Option.isSome_some, true_iff]
    simpa [List.all_eq_true] using h
  · simp only [h]
    simp [List.all_eq_true] at h
    constructor
    · intro hh; simp at hh
    · intro ⟨h1, h2⟩
      obtain ⟨c, hc, hcn⟩ := h h1
      have := h2 c hc
      simp [this] at hcn

theorem parseSome_eq_some {L : Nat} {s id : Name} (h : parseSome L s = some id) :
    s.length = L ∧ (∀ c ∈ s, isHexChar c = true) ∧ id = s.map lowerHex := by
  have hs : (parseSome L s).isSome = true := by simp [h]
  have := (parseSome_isSome_iff L s).1 hs
  refine ⟨this.1, this.2, ?_⟩
  unfold parseSome at h
  split at h
  · exact (Option.some.inj h).symm
  · cases h

theorem parseSome_length {L : Nat} {s id : Name} (h : parseSome L s = some id) : id.length = L := by
  obtain ⟨h1, _, h3⟩ := parseSome_eq_some h
  simp [h3, h1]

/-- The result of `parse_some` is canonical: parsing it again gives itself. -/
theorem parseSome_canon {L : Nat} {s id : Name} (h : parseSome L s = some id) : parseSome L id = some id := by
  obtain ⟨h1, h2, h3⟩ := parseSome_eq_some h
  subst h3
  unfold parseSome
  have hall : (s.map lowerHex).all isHexChar = true := by
    simp only [List.all_map, List.all_eq_true]
    intro c hc
    exact (hex_lower c (h2 c hc)).1
  have hmap : (s.map lowerHex).map lowerHex = s.map lowerHex := by
    simp only [List.map_map]
    apply List.map_congr_left
    intro c hc
    exact (hex_lower c (h2 c hc)).2
  simp [h1, hall, hmap]

theorem parseSome_wrong_length {L : Nat} {s : Name} (h : s.length ≠ L) : parseSome L s = none := by
  unfold parseSome
  simp [h]

theorem canon_length {L : Nat} {id : Name} (h : CanonId L id) : id.length = L := parseSome_length h

/-! ### file-system primitives -/

@[simp] theorem fget_nil (p : Path) : fget [] p = none := rfl

theorem fget_cons (q : Path) (b : Bytes) (rest : FS) (p : Path) :
    fget ((q, b) :: rest) p = if q = p then some b else fget rest p := rfl

theorem fdel_cons (q : Path) (b : Bytes) (rest : FS) (p : Path) :
    fdel ((q, b) :: rest) p = if q = p then fdel rest p else (q, b) :: fdel rest p := rfl

theorem fget_fdel_same (fs : FS) (p : Path) : fget (fdel fs p) p = none := by
  induction fs with
  | nil => rfl
  | cons e rest ih =>
    obtain ⟨q, b⟩ := e
    rw [fdel_cons]
    by_cases h : q = p
    · simp [h, ih]
    · simp [h, fget_cons, ih]

theorem fget_fdel_ne (fs : FS) {p q : Path} (h : q ≠ p) : fget (fdel fs p) q = fget fs q := by
  induction fs with
  | nil => rfl
  | cons e rest ih =>
    obtain ⟨r, b⟩ := e
    rw [fdel_cons]
    by_cases hr : r = p
    · have hrq : r ≠ q := fun e => h (e ▸ hr)
      simp [hr, fget_cons, ih]
      intro e; exact absurd e.symm h
    · simp [hr, fget_cons, ih]

theorem fget_fput_same (fs : FS) (p : Path) (b : Bytes) : fget (fput fs p b) p = some b := by
  simp [fput, fget_cons]

theorem fget_fput_ne (fs : FS) {p q : Path} (b : Bytes) (h : q ≠ p) : fget (fput fs p b) q = fget fs q := by
  have h' : p ≠ q := fun e => h e.symm
  simp [fput, fget_cons, h', fget_fdel_ne fs h]

theorem mem_fdel (fs : FS) (p : Path) (e : Path × Bytes) : e ∈ fdel fs p ↔ e ∈ fs ∧ e.1 ≠ p := by
  induction fs with
  | nil => simp [fdel]
  | cons x rest ih =>
    obtain ⟨q, b⟩ := x
    rw [fdel_cons]
    by_cases hq : q = p
    · simp only [hq, if_true, ih, List.mem_cons]
      constructor
      · intro h; exact ⟨Or.inr h.1, h.2⟩
      · rintro ⟨h | h, hne⟩
        · subst h; exact absurd rfl hne
        · exact ⟨h, hne⟩
    · simp only [hq, if_false, List.mem_cons, ih]
      constructor
      · rintro (h | h)
        · subst h; exact ⟨Or.inl rfl, hq⟩
        · exact ⟨Or.inr h.1, h.2⟩
      · rintro ⟨h | h, hne⟩
        · exact Or.inl h
        · exact Or.inr ⟨h, hne⟩

theorem mem_fput (fs : FS) (p : Path) (b : Bytes) (e : Path × Bytes) :
    e ∈ fput fs p b ↔ e = (p, b) ∨ (e ∈ fs ∧ e.1 ≠ p) := by
  simp [fput, mem_fdel]

/-- Paths are unique (a file system has one file per path). -/
def NodupKeys (fs : FS) : Prop := (fs.map Prod.fst).Nodup

theorem mem_of_fget {fs : FS} {p : Path} {b : Bytes} (h : fget fs p = some b) : (p, b) ∈ fs := by
  induction fs with
  | nil => simp at h
  | cons e rest ih =>
    obtain ⟨q, c⟩ := e
    rw [fget_cons] at h
    by_cases hq : q = p
    · simp [hq] at h; simp [hq, h]
    · simp [hq] at h; exact List.mem_cons_of_mem _ (ih h)

theorem fget_of_mem {fs : FS} (hn : NodupKeys fs) {p : Path} {b : Bytes} (h : (p, b) ∈ fs) : fget fs p = some b := by
  induction fs with
  | nil => simp at h
  | cons e rest ih =>
    obtain ⟨q, c⟩ := e
    unfold NodupKeys at hn
    simp only [List.map_cons, List.nodup_cons] at hn
    rw [fget_cons]
    rcases List.mem_cons.1 h with h | h
    · cases h; simp
    · have : q ≠ p := by
        intro e; subst e
        exact hn.1 (List.mem_map.2 ⟨(q, b), h, rfl⟩)
      simp [this]; exact ih hn.2 h

theorem nodup_fdel {fs : FS} (hn : NodupKeys fs) (p : Path) : NodupKeys (fdel fs p) := by
  induction fs with
  | nil => exact hn
  | cons x rest ih =>
    obtain ⟨q, b⟩ := x
    unfold NodupKeys at hn ih ⊢
    simp only [List.map_cons, List.nodup_cons] at hn
    rw [fdel_cons]
    by_cases hq : q = p
    · simp only [hq, if_true]; exact ih hn.2
    · simp only [hq, if_false, List.map_cons, List.nodup_cons]
      refine ⟨?_, ih hn.2⟩
      intro hm
      obtain ⟨e, he, hp⟩ := List.mem_map.1 hm
      exact hn.1 (List.mem_map.2 ⟨e, ((mem_fdel rest p e).1 he).1, hp⟩)

theorem nodup_fput {fs : FS} (hn : NodupKeys fs) (p : Path) (b : Bytes) : NodupKeys (fput fs p b) := by
  have h1 := nodup_fdel hn p
  unfold NodupKeys fput at *
  simp only [List.map_cons, List.nodup_cons]
  refine ⟨?_, h1⟩
  intro hm
  obtain ⟨e, he, hp⟩ := List.mem_map.1 hm
  exact ((mem_fdel fs p e).1 he).2 hp

theorem filterMap_fdel_of_none {β : Type} (f : Path × Bytes → Option β) (fs : FS) (p : Path)
    (h : ∀ b, f (p, b) = none) : (fdel fs p).filterMap f = fs.filterMap f := by
  induction fs with
  | nil => rfl
  | cons e rest ih =>
    obtain ⟨q, c⟩ := e
    rw [fdel_cons]
    by_cases hq : q = p
    · subst hq; simp [List.filterMap_cons, h, ih]
    · simp [hq, List.filterMap_cons, ih]

/-! ### paths -/

theorem ne_append_tmpSuffix {x y : Name} (h : x.length = y.length) : x ≠ y ++ tmpSuffix := by
  intro e
  have := congrArg List.length e
  simp [tmpSuffix] at this
  omega

theorem path_ne_tmpPath {L : Nat} {k k' : Key} (h : WFKey L k) (h' : WFKey L k') :
    path k.1 k.2 ≠ tmpPath k'.1 k'.2 := by
  obtain ⟨t, id⟩ := k
  obtain ⟨t', id'⟩ := k'
  have hl : id.length = id'.length := by rw [canon_length h.1, canon_length h'.1]
  intro e
  cases t <;> cases t' <;> simp [path, tmpPath, baseDir, fileName, FileType.dirname] at e <;>
    first
    | exact ne_append_tmpSuffix hl e
    | exact ne_append_tmpSuffix hl e.2
    | exact ne_append_tmpSuffix rfl e
    | (simp [tmpSuffix] at e)
    | skip

theorem path_inj {L : Nat} {k k' : Key} (h : WFKey L k) (h' : WFKey L k')
    (e : path k.1 k.2 = path k'.1 k'.2) : k = k' := by
  obtain ⟨t, id⟩ := k
  obtain ⟨t', id'⟩ := k'
  cases t <;> cases t' <;>
    simp [path, baseDir, fileName, FileType.dirname, nIndex, nKeys, nSnapshots, nData, nConfig] at e <;>
    first
    | (have h1 := h.2 rfl; have h2 := h'.2 rfl; simp at h1 h2; simp [h1, h2])
    | (simp [e])
    | (simp [e.2])

theorem tmpPath_ne_config (t : FileType) (id : Name) : tmpPath t id ≠ [nConfig] := by
  intro e
  cases t <;> simp [tmpPath, baseDir, fileName, FileType.dirname] at e
  exact ne_append_tmpSuffix rfl e.symm

theorem underDir_path (t t' : FileType) (id : Name) (ht : t ≠ .config) :
    underDir t.dirname (path t' id) = true ↔ t' = t := by
  cases t <;> cases t' <;>
    simp [underDir, path, baseDir, fileName, FileType.dirname, nIndex, nKeys, nSnapshots, nData, nConfig] at ht ⊢

theorem last_path (t : FileType) (id : Name) (ht : t ≠ .config) : (path t id).getLast?.getD [] = id := by
  cases t <;> simp [path, baseDir, fileName] at ht ⊢

/-- A temp file is never a listing entry, for any type. -/
theorem listEntry_tmpPath {L : Nat} (t t' : FileType) {id : Name} (hid : id.length = L) (b : Bytes) :
    listEntry L t' (tmpPath t id, b) = none := by
  unfold listEntry
  cases t
  · simp [tmpPath, baseDir, underDir]
  all_goals
    have hp : parseSome L (id ++ tmpSuffix) = none :=
      parseSome_wrong_length (by simp [tmpSuffix]; omega)
    simp [tmpPath, baseDir, fileName, hp]

theorem listIdEntry_tmpPath {L : Nat} (t t' : FileType) {id : Name} (hid : id.length = L) (b : Bytes) :
    listIdEntry L t' (tmpPath t id, b) = none := by
  unfold listIdEntry
  cases t
  · simp [tmpPath, baseDir, underDir]
  all_goals
    have hp : parseSome L (id ++ tmpSuffix) = none :=
      parseSome_wrong_length (by simp [tmpSuffix]; omega)
    simp [tmpPath, baseDir, fileName, hp]

/-! ### `abs` commutes with the operations -/

theorem abs_writeTmp {L : Nat} {k k' : Key} (hk : WFKey L k) (hk' : WFKey L k') (fs : FS) (c : Bytes) :
    abs (writeTmp fs k.1 k.2 c) k' = abs fs k' := by
  unfold abs writeTmp
  exact fget_fput_ne fs c (path_ne_tmpPath hk' hk)

theorem writeBytes_eq (fs : FS) (t : FileType) (id : Name) (c : Bytes) :
    writeBytes fs t id c = fput (fdel (fput fs (tmpPath t id) c) (tmpPath t id)) (path t id) c := by
  unfold writeBytes publish writeTmp
  simp [fget_fput_same]

theorem abs_writeBytes {L : Nat} {k k' : Key} (hk : WFKey L k) (hk' : WFKey L k') (fs : FS) (c : Bytes) :
    abs (writeBytes fs k.1 k.2 c) k' = if k' = k then some c else abs fs k' := by
  rw [writeBytes_eq]
  unfold abs
  by_cases e : k' = k
  · subst e; simp [fget_fput_same]
  · have hne : path k'.1 k'.2 ≠ path k.1 k.2 := fun h => e (path_inj hk' hk h)
    rw [fget_fput_ne _ c hne, fget_fdel_ne _ (path_ne_tmpPath hk' hk), fget_fput_ne _ c (path_ne_tmpPath hk' hk)]
    simp [e]

theorem abs_remove {L : Nat} {k k' : Key} (hk : WFKey L k) (hk' : WFKey L k') (fl : Flavor) (fs : FS) :
    abs (remove fl fs k.1 k.2).2 k' = if k' = k then none else abs fs k' := by
  unfold remove abs
  by_cases e : k' = k
  · subst e
    cases hg : fget fs (path k'.1 k'.2) <;> simp [hg, fget_fdel_same]
  · have hne : path k'.1 k'.2 ≠ path k.1 k.2 := fun h => e (path_inj hk' hk h)
    cases hg : fget fs (path k.1 k.2) <;> simp [e, fget_fdel_ne _ hne]

/-! ### listings -/

/-- `p` is not mistaken for a repository file by any listing. -/
def ForeignPath (L : Nat) (p : Path) : Prop :=
  ∀ t : FileType, t ≠ .config → underDir t.dirname p = true → parseSome L (p.getLast?.getD []) = none

/-- Everything in the directory is either a file the backend wrote or foreign; sizes fit `u32`. -/
def Clean (L : Nat) (fs : FS) : Prop :=
  NodupKeys fs ∧ ∀ e ∈ fs, e.2.length < u32Bound ∧
    (ForeignPath L e.1 ∨ ∃ k : Key, WFKey L k ∧ e.1 = path k.1 k.2)

theorem foreign_tmpPath {L : Nat} (t : FileType) {id : Name} (hid : id.length = L) : ForeignPath L (tmpPath t id) := by
  intro t' _ hu
  have := listIdEntry_tmpPath (L := L) t t' hid []
  unfold listIdEntry at this
  simpa [hu] using this

theorem listEntry_path {L : Nat} {t : FileType} (ht : t ≠ .config) {k : Key} (hk : WFKey L k) (b : Bytes) :
    listEntry L t (path k.1 k.2, b) =
      if k.1 = t then (if b.length < u32Bound then some (k.2, b.length) else none) else none := by
  unfold listEntry
  dsimp only
  by_cases e : k.1 = t
  · obtain ⟨t', id⟩ := k
    simp only at e
    subst e
    have hu := (underDir_path t' t' id ht).2 rfl
    have : parseSome L id = some id := hk.1
    simp only [hu, if_true, last_path t' id ht, this]
  · have hu : underDir t.dirname (path k.1 k.2) = false := by
      cases h : underDir t.dirname (path k.1 k.2)
      · rfl
      · exact absurd ((underDir_path t k.1 k.2 ht).1 h) e
    simp [hu, e]

theorem listing_exact_aux {L : Nat} {fs : FS} (hc : Clean L fs) {t : FileType} (ht : t ≠ .config) {id : Name}
    (hid : CanonId L id) (n : Nat) :
    (id, n) ∈ listWithSize L fs t ↔ ∃ c, abs fs (t, id) = some c ∧ n = c.length := by
  have hl : listWithSize L fs t = fs.filterMap (listEntry L t) := by cases t <;> simp [listWithSize] at ht ⊢
  rw [hl, List.mem_filterMap]
  constructor
  · rintro ⟨⟨p, b⟩, hmem, hentry⟩
    obtain ⟨hb, hcl⟩ := hc.2 _ hmem
    simp only at hb
    rcases hcl with hf | ⟨k, hk, hp⟩
    · exfalso
      unfold listEntry at hentry
      by_cases hu : underDir t.dirname p = true
      · have := hf t ht hu
        simp [hu, this] at hentry
      · simp [hu] at hentry
    · simp only at hp
      subst hp
      rw [listEntry_path ht hk] at hentry
      by_cases e : k.1 = t
      · simp only [e, if_true, hb, Option.some.injEq, Prod.mk.injEq] at hentry
        refine ⟨b, ?_, hentry.2.symm⟩
        unfold abs
        have : k = (t, id) := by rw [← e, ← hentry.1]
        rw [← this]
        exact fget_of_mem hc.1 hmem
      · simp [e] at hentry
  · rintro ⟨c, hab, hn⟩
    have hmem := mem_of_fget hab
    have hk : WFKey L (t, id) := ⟨hid, fun h => absurd h ht⟩
    refine ⟨(path t id, c), hmem, ?_⟩
    have := listEntry_path ht hk c
    simp only at this
    rw [this]
    have hb := (hc.2 _ hmem).1
    simp only at hb
    simp [hb, hn]

/-! ### `Clean` is an invariant -/

theorem clean_nil (L : Nat) : Clean L [] := ⟨by simp [NodupKeys], by simp⟩

theorem clean_fput {L : Nat} {fs : FS} (hc : Clean L fs) (p : Path) (b : Bytes) (hb : b.length < u32Bound)
    (hp : ForeignPath L p ∨ ∃ k : Key, WFKey L k ∧ p = path k.1 k.2) : Clean L (fput fs p b) := by
  refine ⟨nodup_fput hc.1 p b, ?_⟩
  intro e he
  rcases (mem_fput fs p b e).1 he with h | h
  · subst h; exact ⟨hb, hp⟩
  · exact hc.2 e h.1

theorem clean_fdel {L : Nat} {fs : FS} (hc : Clean L fs) (p : Path) : Clean L (fdel fs p) :=
  ⟨nodup_fdel hc.1 p, fun e he => hc.2 e ((mem_fdel fs p e).1 he).1⟩

theorem clean_writeTmp {L : Nat} {fs : FS} (hc : Clean L fs) {k : Key} (hk : WFKey L k) (c : Bytes)
    (hb : c.length < u32Bound) : Clean L (writeTmp fs k.1 k.2 c) :=
  clean_fput hc _ c hb (Or.inl (foreign_tmpPath k.1 (canon_length hk.1)))

theorem clean_writeBytes {L : Nat} {fs : FS} (hc : Clean L fs) {k : Key} (hk : WFKey L k) (c : Bytes)
    (hb : c.length < u32Bound) : Clean L (writeBytes fs k.1 k.2 c) := by
  rw [writeBytes_eq]
  exact clean_fput (clean_fdel (clean_writeTmp hc hk c hb) _) _ c hb (Or.inr ⟨k, hk, rfl⟩)

theorem clean_remove {L : Nat} {fs : FS} (hc : Clean L fs) (fl : Flavor) (t : FileType) (id : Name) :
    Clean L (remove fl fs t id).2 := by
  unfold remove
  cases fget fs (path t id) <;> simp [hc, clean_fdel hc]

end Rustic.Backends
