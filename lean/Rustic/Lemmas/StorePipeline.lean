/-
C01: the packer pipeline of `Model/Archive` (C07 / C13 theorems, over ids and for every schedule) delivers a
repository that satisfies `RepoOK` once its packs are given their bytes (`Store.Conc`) — so every blob the archiver
handed to a packer reads back exactly, whatever the schedule.
-/
import Rustic.Lemmas.Store
import Rustic.Props.C07
import Rustic.Props.C13
namespace Rustic.Store
open Rustic.Pack Rustic.Index Rustic.Archive

theorem toBlobType_inj {a b : BT} (h : toBlobType a = toBlobType b) : a = b := by
  cases a <;> cases b <;> first | rfl | cases h

theorem RepoOK.of_mem_iff {c : Cfg} {packs : List BuiltPack} {ips ips' : List IndexPack}
    (h : RepoOK c packs ips) (hm : ∀ p, p ∈ ips' ↔ p ∈ ips) : RepoOK c packs ips' :=
  ⟨h.uniq, h.nonce, h.nonempty, h.inj, fun p hp => h.cons p ((hm p).mp hp),
   fun q hq => by obtain ⟨p, hp, r⟩ := h.cover q hq; exact ⟨p, (hm p).mpr hp, r⟩⟩

/-- The repository a fresh archiver run leaves behind, for EVERY schedule of the pipeline. -/
theorem pipeline_repoOK (c : Cfg) (k : Conc) (evs : List Ev)
    (hpid : ∀ p p', k.packId p = k.packId p' → p = p')
    (hnonce : ∀ key, (k.nonce key).length = 16)
    (hne : ∀ key ∈ entered evs, k.content key ≠ [] ∨ c.zstdOn = false)
    (hhash : ∀ key ∈ entered evs, c.hash (k.content key) = key.2) :
    RepoOK c (packsOf k (finalizeAll (runEvs Rustic.Props.C07.init evs)))
      (indexedOf c k (finalizeAll (runEvs Rustic.Props.C07.init evs))) := by
  have hent : ∀ p ∈ (finalizeAll (runEvs Rustic.Props.C07.init evs)).packs, ∀ id ∈ p.2, (p.1, id) ∈ entered evs := by
    intro p hp id hid
    exact (Rustic.Props.C07.uploaded_exactly_added evs p.1 id).mp (mem_keysOf.mpr ⟨p.2, hp, hid⟩)
  have hidx : ∀ p, p ∈ (finalizeAll (runEvs Rustic.Props.C07.init evs)).packs ↔
      p ∈ (finalizeAll (runEvs Rustic.Props.C07.init evs)).index := fun p =>
    Rustic.Props.C13.every_written_pack_indexed true evs p.1 p.2
  generalize finalizeAll (runEvs Rustic.Props.C07.init evs) = s at hent hidx
  refine ⟨?_, ?_, ?_, ?_, ?_, ?_⟩
  · intro q hq q' hq' hid
    obtain ⟨p, _, rfl⟩ := List.mem_map.mp hq
    obtain ⟨p', _, rfl⟩ := List.mem_map.mp hq'
    rw [hpid p p' hid]
  · intro q hq a ha
    obtain ⟨p, _, rfl⟩ := List.mem_map.mp hq
    obtain ⟨id, _, rfl⟩ := List.mem_map.mp ha
    exact hnonce _
  · intro q hq a ha
    obtain ⟨p, hp, rfl⟩ := List.mem_map.mp hq
    obtain ⟨id, hid, rfl⟩ := List.mem_map.mp ha
    exact hne _ (hent p hp id hid)
  · intro q hq q' hq' hty a ha a' ha' hh
    obtain ⟨p, hp, rfl⟩ := List.mem_map.mp hq
    obtain ⟨p', hp', rfl⟩ := List.mem_map.mp hq'
    obtain ⟨id, hid, rfl⟩ := List.mem_map.mp ha
    obtain ⟨id', hid', rfl⟩ := List.mem_map.mp ha'
    have ht : p.1 = p'.1 := toBlobType_inj hty
    simp only at hh ⊢
    rw [hhash _ (hent p hp id hid), hhash _ (hent p' hp' id' hid')] at hh
    simp only at hh
    rw [ht, hh]
  · intro ip hip
    obtain ⟨p, hp, rfl⟩ := List.mem_map.mp hip
    exact ⟨k.pack p, List.mem_map.mpr ⟨p, (hidx p).mpr hp, rfl⟩, rfl, rfl⟩
  · intro q hq
    obtain ⟨p, hp, rfl⟩ := List.mem_map.mp hq
    exact ⟨(k.pack p).indexPack c, List.mem_map.mpr ⟨p, (hidx p).mp hp, rfl⟩, rfl, rfl⟩

/-- two repositories side by side (the packs that were there and the packs of a new run) -/
theorem RepoOK.append {c : Cfg} {old new : List BuiltPack} {ipsOld ipsNew : List IndexPack}
    (h1 : RepoOK c old ipsOld) (h2 : RepoOK c new ipsNew)
    (hids : ∀ q ∈ old, ∀ q' ∈ new, q.id ≠ q'.id)
    (hinj : ∀ q ∈ old, ∀ q' ∈ new, q.tpe = q'.tpe → ∀ a ∈ q.adds, ∀ a' ∈ q'.adds,
      c.hash a.data = c.hash a'.data → a.data = a'.data) :
    RepoOK c (old ++ new) (ipsOld ++ ipsNew) := by
  refine ⟨?_, ?_, ?_, ?_, ?_, ?_⟩
  · intro q hq q' hq' hid
    rcases List.mem_append.mp hq with hq | hq <;> rcases List.mem_append.mp hq' with hq' | hq'
    · exact h1.uniq q hq q' hq' hid
    · exact absurd hid (hids q hq q' hq')
    · exact absurd hid.symm (hids q' hq' q hq)
    · exact h2.uniq q hq q' hq' hid
  · intro q hq
    rcases List.mem_append.mp hq with hq | hq
    · exact h1.nonce q hq
    · exact h2.nonce q hq
  · intro q hq
    rcases List.mem_append.mp hq with hq | hq
    · exact h1.nonempty q hq
    · exact h2.nonempty q hq
  · intro q hq q' hq' hty a ha a' ha' hh
    rcases List.mem_append.mp hq with hq | hq <;> rcases List.mem_append.mp hq' with hq' | hq'
    · exact h1.inj q hq q' hq' hty a ha a' ha' hh
    · exact hinj q hq q' hq' hty a ha a' ha' hh
    · exact (hinj q' hq' q hq hty.symm a' ha' a ha hh.symm).symm
    · exact h2.inj q hq q' hq' hty a ha a' ha' hh
  · intro p hp
    rcases List.mem_append.mp hp with hp | hp
    · obtain ⟨q, hq, r⟩ := h1.cons p hp; exact ⟨q, List.mem_append_left _ hq, r⟩
    · obtain ⟨q, hq, r⟩ := h2.cons p hp; exact ⟨q, List.mem_append_right _ hq, r⟩
  · intro q hq
    rcases List.mem_append.mp hq with hq | hq
    · obtain ⟨p, hp, r⟩ := h1.cover q hq; exact ⟨p, List.mem_append_left _ hp, r⟩
    · obtain ⟨p, hp, r⟩ := h2.cover q hq; exact ⟨p, List.mem_append_right _ hp, r⟩

/-- what the global index reports as present is the plaintext of some add of a stored pack of that type -/
theorem has_is_added (c : Cfg) (packs : List BuiltPack) (files : List IndexFile)
    (hok : RepoOK c packs (unmarked files)) (m : IndexType) (idx : Index) (hl : Rustic.Props.C17.Loaded m files idx)
    (t : BlobType) (id : Nat) (hh : idx.has t id = true) :
    ∃ q ∈ packs, q.tpe = t ∧ ∃ a ∈ q.adds, c.hash a.data = id := by
  have hwf : Rustic.Props.C17.WF files := fun p hp => homogeneous_of_cons c packs p (hok.cons p hp)
  obtain ⟨_, hlisted⟩ := (Rustic.Props.C17.has_iff m files hwf idx hl t id).mp hh
  obtain ⟨p, hp, b, hb, hbt, hbid⟩ := (Rustic.Props.C17.listedUnmarked_iff files t id).mp hlisted
  obtain ⟨q, hq, _, hpb⟩ := hok.cons p hp
  rw [hpb] at hb
  obtain ⟨a, ha, hh', _, _⟩ := pack_blob_read c q b hb
  exact ⟨q, hq, by rw [← packer_types c q b hb, hbt], a, ha, by rw [hh', hbid]⟩

/-- every key entered into the pipeline is an add of some stored pack -/
theorem entered_is_added (k : Conc) (evs : List Ev) (key : Key) (hk : key ∈ entered evs) :
    ∃ q ∈ packsOf k (finalizeAll (runEvs Rustic.Props.C07.init evs)), q.tpe = toBlobType key.1 ∧
      ∃ a ∈ q.adds, a.data = k.content key := by
  obtain ⟨t, id⟩ := key
  obtain ⟨p, hp, hid⟩ := mem_keysOf.mp ((Rustic.Props.C07.uploaded_exactly_added evs t id).mpr hk)
  exact ⟨k.pack (t, p), List.mem_map.mpr ⟨(t, p), hp, rfl⟩, rfl,
    ⟨_, List.mem_map.mpr ⟨id, hid, rfl⟩, rfl⟩⟩

/-! ### plaintext of a key, from the list of blobs the archiver handed over -/

/-- the first blob with this key among those handed to `Packer::add` -/
def contentOf (hash : Bytes → Nat) (blobs : List (BT × Bytes)) (key : Key) : Bytes :=
  match blobs.find? (fun b => decide (b.1 = key.1 ∧ hash b.2 = key.2)) with
  | some b => b.2
  | none => []

/-- hash injectivity on the blobs of one type that are handed over in this run -/
def HashInj (hash : Bytes → Nat) (blobs : List (BT × Bytes)) : Prop :=
  ∀ b ∈ blobs, ∀ b' ∈ blobs, b.1 = b'.1 → hash b.2 = hash b'.2 → b.2 = b'.2

theorem contentOf_spec (hash : Bytes → Nat) (blobs : List (BT × Bytes)) (hinj : HashInj hash blobs)
    (b : BT × Bytes) (hb : b ∈ blobs) : contentOf hash blobs (b.1, hash b.2) = b.2 := by
  unfold contentOf
  cases hf : blobs.find? (fun x => decide (x.1 = (b.1, hash b.2).1 ∧ hash x.2 = (b.1, hash b.2).2)) with
  | none =>
    have := List.find?_eq_none.mp hf b hb
    simp at this
  | some b' =>
    have h1 := List.mem_of_find?_eq_some hf
    have h2 := List.find?_some hf
    simp only [decide_eq_true_eq] at h2
    exact hinj b' h1 b hb h2.1 h2.2

theorem contentOf_key (hash : Bytes → Nat) (blobs : List (BT × Bytes)) (key : Key)
    (hk : key ∈ blobs.map (fun b => (b.1, hash b.2))) :
    hash (contentOf hash blobs key) = key.2 ∧ ∃ b ∈ blobs, b.2 = contentOf hash blobs key := by
  unfold contentOf
  cases hf : blobs.find? (fun x => decide (x.1 = key.1 ∧ hash x.2 = key.2)) with
  | none =>
    obtain ⟨b, hb, rfl⟩ := List.mem_map.mp hk
    have := List.find?_eq_none.mp hf b hb
    simp at this
  | some b' =>
    have h1 := List.mem_of_find?_eq_some hf
    have h2 := List.find?_some hf
    simp only [decide_eq_true_eq] at h2
    exact ⟨h2.2, b', h1, rfl⟩

end Rustic.Store
