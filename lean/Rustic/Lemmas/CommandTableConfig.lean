import Rustic.Lemmas.CommandTable
import Rustic.Lemmas.Config
/-
Bridge between the command table (`Model/CommandTable.lean`, one append-only flag) and the configuration model
(`Model/Config.lean`, `applyConfigH`: the handle's in-memory config next to the stored one): the table's flag is the
in-memory flag of the handle that issues the commands.
-/
namespace Rustic.CommandTable

/-- the append-only flag of a config as the guards read it (`config.append_only == Some(true)`). -/
def flagOf (c : Rustic.Config.ConfigFile) : Bool := c.appendOnly == some true

def rejectionOf : Rustic.Config.Fail → Rejection
  | .err .unsupported => .unsupported
  | .err .invalidInput => .invalidInput
  | _ => .internal

/-- the table's classification of an `apply_config(opts)` call on a handle whose in-memory config is `mem`. -/
def classify (mem : Rustic.Config.ConfigFile) (o : Rustic.Config.ConfigOptions) : ConfigChange :=
  match Rustic.Config.apply o mem with
  | .error e => .rejected o.setAppendOnly (rejectionOf e)
  | .ok c' =>
    match o.setAppendOnly with
    | some b => .setAppendOnly b
    | none => .other (c' != mem)

/-- see `Props/C15.handle_flag_is_table_flag` -/
theorem applyConfigH_flag_is_table_flag (mem : Rustic.Config.ConfigFile) (st : Rustic.Config.Store)
    (o : Rustic.Config.ConfigOptions) (hc : Bool) (files : List File) (ops : List ConcreteOp) :
    ((∃ err, (Rustic.Config.applyConfigH mem st o).2.2 = .error err) ↔
      ∃ k, run hc (flagOf mem) (.applyConfig (classify mem o)) = .refused k) ∧
    flagOf (Rustic.Config.applyConfigH mem st o).1 =
      (step ⟨flagOf mem, files, hc⟩ ⟨.applyConfig (classify mem o), ops⟩).appendOnly := by
  unfold Rustic.Config.applyConfigH
  by_cases hg : mem.appendOnly = some true ∧ o.setAppendOnly ≠ some false
  · -- refused by the guard
    have hf : flagOf mem = true := by simp [flagOf, hg.1]
    simp only [if_pos hg, hf]
    have hrun : run hc true (.applyConfig (classify mem o)) = .refused .appendOnly := by
      unfold classify
      cases Rustic.Config.apply o mem with
      | error e => simp [run, hg.2]
      | ok c' =>
        cases hs : o.setAppendOnly with
        | none => simp [run]
        | some b => cases b <;> simp_all [run]
    refine ⟨⟨fun _ => ⟨_, hrun⟩, fun _ => ⟨_, rfl⟩⟩, ?_⟩
    simp [step, hrun]
  · simp only [if_neg hg]
    have hg' : flagOf mem = true → o.setAppendOnly = some false := by
      intro hf
      have : mem.appendOnly = some true := by simpa [flagOf] using hf
      exact Classical.byContradiction fun hne => hg ⟨this, hne⟩
    cases hm : Rustic.Config.applyMut o mem with
    | mk a b =>
      cases b with
      | some e =>
        -- rejected by a validation
        have hap : Rustic.Config.apply o mem = .error e := Rustic.Config.applyMut_err.1 (by rw [hm])
        have hrun : ∃ k, run hc (flagOf mem) (.applyConfig (classify mem o)) = .refused k := by
          simp only [classify, hap, run]; split <;> exact ⟨_, rfl⟩
        refine ⟨⟨fun _ => hrun, fun _ => ⟨_, rfl⟩⟩, ?_⟩
        obtain ⟨k, hk⟩ := hrun
        simp [step, hk]
      | none =>
        have hap : Rustic.Config.apply o mem = .ok a := Rustic.Config.applyMut_ok.1 hm
        have hao : a.appendOnly = Rustic.Config.named o.setAppendOnly mem.appendOnly := by
          rw [(Rustic.Config.apply_ok hap).1]; rfl
        have hrun : run hc (flagOf mem) (.applyConfig (classify mem o)) = .runs [.write .config] := by
          simp only [classify, hap]
          cases hs : o.setAppendOnly with
          | none =>
            have : flagOf mem = false := by
              cases hf : flagOf mem with
              | false => rfl
              | true => have := hg' hf; simp [hs] at this
            simp [run, this]
          | some b =>
            cases hf : flagOf mem with
            | false => simp [run]
            | true =>
              have := hg' hf
              rw [hs] at this
              cases this
              simp [run]
        have hfst : (if a = mem then (mem, st, (Except.ok false : Except Rustic.Config.Fail Bool))
            else (a, { config := a, writes := st.writes + 1 }, Except.ok true)).1 = a := by
          split
          · rename_i h; exact h.symm
          · rfl
        refine ⟨⟨fun ⟨err, he⟩ => ?_, fun ⟨k, hk⟩ => ?_⟩, ?_⟩
        · by_cases hc' : a = mem <;> simp [hc'] at he
        · rw [hrun] at hk; cases hk
        · rw [hfst]
          simp only [step, hrun]
          simp only [classify, hap]
          cases hs : o.setAppendOnly with
          | none => simp [flagOf, hao, hs]
          | some b => cases b <;> simp [flagOf, hao, hs]

end Rustic.CommandTable
