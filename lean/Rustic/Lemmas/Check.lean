/-
Lemmas about the check model (`Rustic/Model/Check.lean`): the tree walk computes the closure, a clean index
and a clean pack read make every indexed blob of that pack read back with its own hash.
-/
import Rustic.Model.Check
namespace Rustic.Check

/-! ### `newIds` -/

theorem mem_newIds {vis l : List Id} {x : Id} (h : x ∈ newIds vis l) : x ∈ l ∧ x ∉ vis := by
  induction l generalizing vis with
  | nil => simp [newIds] at h
  | cons s l ih =>
    unfold newIds at h
    split at h
    · have := ih h
      exact ⟨List.mem_cons_of_mem _ this.1, this.2⟩
    · rename_i hs
      rcases List.mem_cons.mp h with rfl | h'
      · exact ⟨List.mem_cons_self, hs⟩
      · have := ih h'
        exact ⟨List.mem_cons_of_mem _ this.1, fun hv => this.2 (List.mem_cons_of_mem _ hv)⟩

theorem newIds_complete {vis l : List Id} {x : Id} (h : x ∈ l) : x ∈ vis ∨ x ∈ newIds vis l := by
  induction l generalizing vis with
  | nil => simp at h
  | cons s l ih =>
    unfold newIds
    rcases List.mem_cons.mp h with rfl | h'
    · split
      · rename_i hs; exact Or.inl hs
      · exact Or.inr List.mem_cons_self
    · split
      · exact (ih h').imp id id
      · rcases ih (vis := s :: vis) h' with hv | hn
        · rcases List.mem_cons.mp hv with rfl | hv'
          · exact Or.inr List.mem_cons_self
          · exact Or.inl hv'
        · exact Or.inr (List.mem_cons_of_mem _ hn)

/-! ### the walk computes a closed set -/

/-- What a successful walk guarantees, stated for the induction: everything queued is processed, every
processed tree was read as recorded, and every subtree of a processed tree is processed or was visited
(and no longer queued) before. -/
theorem walk_spec (rd : Id → Option (List Node)) :
    ∀ (n : Nat) (q vis : List Id) (out : List (Id × List Node)), walk rd n q vis = some out →
      (∀ t ∈ q, t ∈ out.map (·.1)) ∧
      (∀ tn ∈ out, rd tn.1 = some tn.2) ∧
      (∀ tn ∈ out, ∀ s ∈ subtreesOf tn.2, s ∈ out.map (·.1) ∨ (s ∈ vis ∧ s ∉ q)) := by
  intro n
  induction n with
  | zero =>
    intro q vis out h
    cases q with
    | nil => simp [walk] at h; subst h; simp
    | cons t q => simp [walk] at h
  | succ n ih =>
    intro q vis out h
    cases q with
    | nil => simp [walk] at h; subst h; simp
    | cons t q =>
      simp only [walk] at h
      split at h
      · simp at h
      · rename_i nodes hrd
        simp only [Option.map_eq_some_iff] at h
        obtain ⟨out', hw, rfl⟩ := h
        obtain ⟨hq, hr, hc⟩ := ih _ _ _ hw
        refine ⟨?_, ?_, ?_⟩
        · intro x hx
          rcases List.mem_cons.mp hx with rfl | hx'
          · simp
          · have := hq x (List.mem_append_left _ hx')
            simp only [List.map_cons, List.mem_cons]; exact Or.inr this
        · intro tn htn
          rcases List.mem_cons.mp htn with rfl | htn'
          · exact hrd
          · exact hr tn htn'
        · intro tn htn s hs
          rcases List.mem_cons.mp htn with rfl | htn'
          · -- the tree just processed
            simp only [List.map_cons, List.mem_cons]
            rcases newIds_complete (vis := vis) hs with hv | hn
            · by_cases hst : s = t
              · exact Or.inl (Or.inl hst)
              · by_cases hsq : s ∈ q
                · exact Or.inl (Or.inr (hq s (List.mem_append_left _ hsq)))
                · exact Or.inr ⟨hv, by simp [hst, hsq]⟩
            · exact Or.inl (Or.inr (hq s (List.mem_append_right _ hn)))
          · simp only [List.map_cons, List.mem_cons]
            rcases hc tn htn' s hs with hd | ⟨hv, hnq⟩
            · exact Or.inl (Or.inr hd)
            · by_cases hst : s = t
              · exact Or.inl (Or.inl hst)
              · have hnq' : s ∉ q := fun hh => hnq (List.mem_append_left _ hh)
                have hnn : s ∉ newIds vis (subtreesOf nodes) := fun hh => hnq (List.mem_append_right _ hh)
                rcases List.mem_append.mp hv with hv' | hv'
                · exact Or.inr ⟨hv', by simp [hst, hnq']⟩
                · exact absurd hv' hnn

/-- A full run (queue = visited = roots): the processed set contains the roots and is closed. -/
theorem walk_closed (rd : Id → Option (List Node)) (n : Nat) (rs : List Id) (out : List (Id × List Node))
    (h : walk rd n rs rs = some out) :
    (∀ t ∈ rs, t ∈ out.map (·.1)) ∧ (∀ tn ∈ out, rd tn.1 = some tn.2) ∧
    (∀ tn ∈ out, ∀ s ∈ subtreesOf tn.2, s ∈ out.map (·.1)) := by
  obtain ⟨h1, h2, h3⟩ := walk_spec rd n rs rs out h
  refine ⟨h1, h2, fun tn htn s hs => ?_⟩
  rcases h3 tn htn s hs with hd | ⟨hv, hnq⟩
  · exact hd
  · exact absurd hv hnq

theorem mem_subtreesOf {nodes : List Node} {n : Node} {s : Id} (hn : n ∈ nodes) (hs : n.subtree = some s) :
    s ∈ subtreesOf nodes := by
  unfold subtreesOf
  exact List.mem_filterMap.mpr ⟨n, hn, hs⟩

theorem mem_roots {r : Repo} {s : Snap} (hs : s ∈ r.snaps) : s.tree ∈ roots r := by
  unfold roots
  have : s.tree ∈ r.snaps.map (·.tree) := List.mem_map.mpr ⟨s, hs, rfl⟩
  rcases newIds_complete (vis := []) this with h | h
  · simp at h
  · exact h

/-! ### sorting by offset is a permutation (membership) -/

theorem mem_insertByOffset {x b : Blob} {l : List Blob} : b ∈ insertByOffset x l ↔ b = x ∨ b ∈ l := by
  induction l with
  | nil => simp [insertByOffset]
  | cons y l ih =>
    unfold insertByOffset
    split
    · simp
    · simp only [List.mem_cons, ih]
      constructor
      · rintro (h | h | h)
        · exact Or.inr (Or.inl h)
        · exact Or.inl h
        · exact Or.inr (Or.inr h)
      · rintro (h | h | h)
        · exact Or.inr (Or.inl h)
        · exact Or.inl h
        · exact Or.inr (Or.inr h)

theorem mem_sortBlobs {b : Blob} {l : List Blob} : b ∈ sortBlobs l ↔ b ∈ l := by
  induction l with
  | nil => simp [sortBlobs]
  | cons x l ih => simp [sortBlobs, mem_insertByOffset, ih]

/-! ### a clean index entry and a clean pack read -/

theorem offsetErrs_types {pt : BT} {pos : Nat} {l : List Blob} (h : offsetErrs pt pos l = []) :
    ∀ b ∈ l, b.tpe = pt := by
  induction l generalizing pos with
  | nil => simp
  | cons b l ih =>
    simp only [offsetErrs, List.append_eq_nil_iff] at h
    obtain ⟨⟨h1, _⟩, h3⟩ := h
    intro x hx
    rcases List.mem_cons.mp hx with rfl | hx'
    · by_cases hb : x.tpe = pt
      · exact hb
      · simp [hb] at h1
    · exact ih h3 x hx'

/-- Index offsets are cumulative and every sequential decrypt of the pack verified ⇒ every blob of the
list decrypts *at its index location* to a plaintext whose hash is the blob id. -/
theorem seq_ok {f : PFile} {pt : BT} {pos : Nat} {l : List Blob}
    (ho : offsetErrs pt pos l = []) (hb : blobErrs f pos l = []) :
    ∀ b ∈ l, ∃ len nodes, f.dec b.offset b.length b.ulen.isSome = .ok b.id len nodes ∧ lenOk b.ulen len = true := by
  induction l generalizing pos with
  | nil => simp
  | cons b l ih =>
    simp only [offsetErrs, List.append_eq_nil_iff] at ho
    obtain ⟨⟨_, ho2⟩, ho3⟩ := ho
    have hoff : b.offset = pos := by
      by_cases hh : b.offset = pos
      · exact hh
      · simp [hh] at ho2
    unfold blobErrs at hb
    split at hb
    · simp at hb
    · simp at hb
    · rename_i h len nodes hdec
      simp only [List.append_eq_nil_iff] at hb
      obtain ⟨⟨hb1, hb2⟩, hb3⟩ := hb
      have hlen : lenOk b.ulen len = true := by
        by_cases hh : lenOk b.ulen len = true
        · exact hh
        · simp [hh] at hb1
      have hh : h = b.id := by
        by_cases hh : h = b.id
        · exact hh
        · simp [hh] at hb2
      intro x hx
      rcases List.mem_cons.mp hx with rfl | hx'
      · exact ⟨len, nodes, by rw [hoff, hdec, hh], hlen⟩
      · exact ih ho3 hb3 x hx'

theorem retype_blobs_eq {p : IPack} (h : ∀ b ∈ p.blobs, b.tpe = packType p) : (retype p).blobs = p.blobs := by
  unfold retype
  simp only
  conv => rhs; rw [← List.map_id p.blobs]
  apply List.map_congr_left
  intro b hb
  have := h b hb
  cases b
  simp_all

theorem retype_id (p : IPack) : (retype p).id = p.id := rfl

/-- check's own index is built from the unmarked sections only: it lists exactly the packs of the readers' index. -/
theorem checkIndexPacks_false (r : Repo) : checkIndexPacks false r = livePacks r := by
  simp [checkIndexPacks, livePacks]

theorem mem_reconstructed {r : Repo} {p : IPack} (hp : p ∈ livePacks r) : retype p ∈ reconstructed r := by
  unfold reconstructed reconstructedOf
  rw [checkIndexPacks_false]
  apply List.mem_map_of_mem
  cases hpt : packType p with
  | tree => exact List.mem_append_left _ (List.mem_filter.mpr ⟨hp, by simp [hpt]⟩)
  | data => exact List.mem_append_right _ (List.mem_filter.mpr ⟨hp, by simp [hpt]⟩)

theorem mem_allIndexPacks_of_live {r : Repo} {p : IPack} (hp : p ∈ livePacks r) :
    (p, false) ∈ allIndexPacks r := by
  unfold livePacks at hp
  unfold allIndexPacks
  obtain ⟨f, hf, hpf⟩ := List.mem_flatMap.mp hp
  exact List.mem_flatMap.mpr ⟨f, hf, List.mem_append_left _ (List.mem_map.mpr ⟨p, hpf, rfl⟩)⟩

theorem missing_nil_of_listErrs {z : Sizes} {r : Repo} (h : listErrs z r = []) : missing r = [] := by
  unfold missing
  apply List.filter_eq_nil_iff.mpr
  intro id hid
  obtain ⟨pd, hpd, rfl⟩ := List.mem_map.mp hid
  unfold listErrs at h
  have := (List.flatMap_eq_nil_iff.mp h) pd hpd
  cases hf : findFile r pd.1.id with
  | none => simp [hf] at this
  | some f => simp

/-- The core of soundness: with clean index-level findings and a clean read of every pack of the read
set, every index entry pointing into the read set reads back with its own hash. -/
theorem key_ok {z : Sizes} {r : Repo} {lk : Lookup} {packs : List Id}
    (hlk : ∀ t id e, lk t id = some e → ∃ p ∈ livePacks r, p.id = e.pack ∧ packType p = t ∧
      ∃ b ∈ p.blobs, b.id = id ∧ b.offset = e.offset ∧ b.length = e.length ∧ b.ulen = e.ulen)
    (hi : indexErrs r = []) (hl : listErrs z r = []) (hp : packErrs z r packs = [])
    {t : BT} {id : Id} {e : Entry} (he : lk t id = some e) (hin : e.pack ∈ packs) :
    ∃ nodes, readBlob r lk t id = some (id, nodes) := by
  obtain ⟨p, hpl, hpid, _, b, hb, hbid, hbo, hbl, hbu⟩ := hlk t id e he
  -- index-level: offsets of p are cumulative, all blobs typed like the pack
  have hoe : offsetErrs (packType p) 0 (sortBlobs p.blobs) = [] := by
    have := (List.flatMap_eq_nil_iff.mp hi) (p, false) (mem_allIndexPacks_of_live hpl)
    simp only [indexPackErrs, List.append_eq_nil_iff] at this
    exact this.2
  have htypes : ∀ b ∈ p.blobs, b.tpe = packType p := fun b hb =>
    offsetErrs_types hoe b (mem_sortBlobs.mpr hb)
  have hre : (retype p).blobs = p.blobs := retype_blobs_eq htypes
  -- the reconstructed pack was read
  have hmiss := missing_nil_of_listErrs hl
  have hcp : checkPack z r (retype p) = [] := by
    unfold packErrs packErrsOf at hp
    refine (List.flatMap_eq_nil_iff.mp hp) (retype p) (List.mem_filter.mpr ⟨mem_reconstructed hpl, ?_⟩)
    simp only [retype_id, hmiss, hpid, Bool.and_eq_true]
    exact ⟨by simp, by simpa using hin⟩
  unfold checkPack at hcp
  rw [retype_id, hre] at hcp
  cases hf : findFile r p.id with
  | none => simp [hf] at hcp
  | some f =>
    simp only [hf] at hcp
    split at hcp
    · simp at hcp
    · split at hcp
      · simp at hcp
      · split at hcp
        · simp at hcp
        · split at hcp
          · simp at hcp
          · split at hcp
            · simp at hcp
            · split at hcp
              · simp at hcp
              · obtain ⟨len, nodes, hdec, hlen⟩ := seq_ok hoe hcp b (mem_sortBlobs.mpr hb)
                refine ⟨nodes, ?_⟩
                unfold readBlob
                simp only [he, ← hpid, hf, ← hbo, ← hbl, ← hbu, hdec, hlen, if_true, hbid]


/-! ### specification: what "restores correctly" means on an abstract repository -/

/-- The in-memory index answers only from the (live) index files: a hit is an entry of some listed pack,
typed by that pack.  (Which entry among duplicates is not constrained.)  Implementation: property C17. -/
def LkSound (r : Repo) (lk : Lookup) : Prop :=
  ∀ t id e, lk t id = some e → ∃ p ∈ livePacks r, p.id = e.pack ∧ packType p = t ∧
    ∃ b ∈ p.blobs, b.id = id ∧ b.offset = e.offset ∧ b.length = e.length ∧ b.ulen = e.ulen

/-- the same specification for an index built from an explicit pack list -/
def LkSoundOn (ps : List IPack) (lk : Lookup) : Prop :=
  ∀ t id e, lk t id = some e → ∃ p ∈ ps, p.id = e.pack ∧ packType p = t ∧
    ∃ b ∈ p.blobs, b.id = id ∧ b.offset = e.offset ∧ b.length = e.length ∧ b.ulen = e.ulen

/-- Only directory nodes carry a subtree (what every archiver writes).  `TreeStreamerOnce` and the node
streamer used by restore / ls follow the subtree of *any* node, `check_trees` looks at `Dir` nodes only. -/
def DirsOnly (r : Repo) (lk : Lookup) : Prop :=
  ∀ t nodes, readTree r lk t = some nodes → ∀ n ∈ nodes, n.subtree.isSome → n.kind = .dir

/-- trees a reader of the snapshot rooted at `root` visits (following the trees *as stored*) -/
inductive Reach (r : Repo) (lk : Lookup) (root : Id) : Id → Prop
  | root : Reach r lk root root
  | step {t s : Id} {nodes : List Node} {n : Node} : Reach r lk root t → readTree r lk t = some nodes →
      n ∈ nodes → n.subtree = some s → Reach r lk root s

/-- the blob is indexed, stored, MAC-valid, decodes, has the recorded length and hashes to its id -/
def BlobOk (r : Repo) (lk : Lookup) (t : BT) (id : Id) : Prop := ∃ nodes, readBlob r lk t id = some (id, nodes)

def TreeOk (r : Repo) (lk : Lookup) (t : Id) : Prop :=
  BlobOk r lk .tree t ∧ ∃ nodes, readTree r lk t = some nodes ∧
    ∀ n ∈ nodes, n.kind = .file → ∃ ids, n.content = some ids ∧ ∀ d ∈ ids, BlobOk r lk .data d

/-- every tree and every file chunk a restore / dump / ls of the snapshot reads is authentic -/
def RestoresCorrectly (r : Repo) (lk : Lookup) (root : Id) : Prop := ∀ t, Reach r lk root t → TreeOk r lk t

theorem reach_processed {r : Repo} {lk : Lookup} {n : Nat} {out : List (Id × List Node)}
    (h : walk (readTree r lk) n (roots r) (roots r) = some out) {root : Id} (hr : root ∈ roots r)
    {t : Id} (ht : Reach r lk root t) : ∃ nodes, (t, nodes) ∈ out ∧ readTree r lk t = some nodes := by
  obtain ⟨h1, h2, h3⟩ := walk_closed _ _ _ _ h
  have key : ∀ x, x ∈ out.map (·.1) → ∃ nodes, (x, nodes) ∈ out ∧ readTree r lk x = some nodes := by
    intro x hx
    obtain ⟨tn, htn, rfl⟩ := List.mem_map.mp hx
    exact ⟨tn.2, htn, h2 tn htn⟩
  induction ht with
  | root => exact key _ (h1 _ hr)
  | step _ hrd hn hs ih =>
    obtain ⟨nodes', hmem, hrd'⟩ := ih
    rw [hrd] at hrd'
    cases hrd'
    exact key _ (h3 _ hmem _ (mem_subtreesOf hn hs))

theorem lk_of_readTree {r : Repo} {lk : Lookup} {t : Id} {nodes : List Node}
    (h : readTree r lk t = some nodes) : ∃ e, lk .tree t = some e := by
  unfold readTree readBlob at h
  cases hl : lk .tree t with
  | none => simp [hl] at h
  | some e => exact ⟨e, rfl⟩

theorem contentErrs_nil {lk : Lookup} {ids : List Id} (h : contentErrs lk ids = []) :
    ∀ d ∈ ids, ∃ e, lk .data d = some e := by
  induction ids with
  | nil => simp
  | cons d l ih =>
    simp only [contentErrs, List.append_eq_nil_iff] at h
    obtain ⟨⟨_, h2⟩, h3⟩ := h
    intro x hx
    rcases List.mem_cons.mp hx with rfl | hx'
    · cases hl : lk .data x with
      | none => simp [hl] at h2
      | some e => exact ⟨e, rfl⟩
    · exact ih h3 x hx'

theorem mem_walkPacks {lk : Lookup} {out : List (Id × List Node)} {t : Id} {nodes : List Node} {n : Node}
    {x : Id} (hm : (t, nodes) ∈ out) (hn : n ∈ nodes) (hx : x ∈ nodePacks lk n) : x ∈ walkPacks lk out := by
  unfold walkPacks
  exact List.mem_flatMap.mpr ⟨(t, nodes), hm, List.mem_flatMap.mpr ⟨n, hn, hx⟩⟩

/-- `check_trees` marks the packs of a file node's content blobs whatever the node's recorded size, link count, inode and
device are -/
theorem nodePacks_ignores_metadata (lk : Lookup) (n : Node) (size links inode device : Nat) :
    nodePacks lk { n with size := size, links := links, inode := inode, device := device } = nodePacks lk n ∧
    nodeErrs lk { n with size := size, links := links, inode := inode, device := device } = nodeErrs lk n := by
  cases n with
  | mk kind subtree content _ _ _ _ => cases kind <;> exact ⟨rfl, rfl⟩

theorem content_pack_in_nodePacks {lk : Lookup} {n : Node} (hk : n.kind = .file) {ids : List Id}
    (hc : n.content = some ids) {d : Id} (hd : d ∈ ids) {e : Entry} (he : lk .data d = some e) :
    e.pack ∈ nodePacks lk n := by
  unfold nodePacks
  rw [hk]
  simp only [hc, Option.getD_some]
  apply List.mem_append_left
  exact List.mem_filterMap.mpr ⟨d, hd, by simp [he]⟩

theorem nodeErrs_nil_of_walkErrs {lk : Lookup} {out : List (Id × List Node)} {t : Id} {nodes : List Node}
    {n : Node} (h : walkErrs lk out = []) (hm : (t, nodes) ∈ out) (hn : n ∈ nodes) : nodeErrs lk n = [] := by
  unfold walkErrs at h
  exact (List.flatMap_eq_nil_iff.mp ((List.flatMap_eq_nil_iff.mp h) (t, nodes) hm)) n hn

/-- a node without finding whose subtree is `t`: `t` is in the index and its pack is in the read set — whatever the
kind of the node (since `fix: check ignored subtrees of non-directory nodes`). -/
theorem subtree_indexed_of_nodeErrs_nil {lk : Lookup} {n : Node} {t : Id} (hs : n.subtree = some t)
    (h : nodeErrs lk n = []) : ∃ e, lk .tree t = some e ∧ e.pack ∈ nodePacks lk n := by
  have key : subtreeErrs lk (some t) = [] → ∃ e, lk .tree t = some e ∧ e.pack ∈ subtreePacks lk (some t) := by
    intro h'
    simp only [subtreeErrs] at h'
    by_cases hnz : t = nullId
    · simp [hnz] at h'
    · simp only [hnz, if_false] at h'
      cases hl : lk .tree t with
      | none => simp [hl] at h'
      | some e => exact ⟨e, rfl, by simp [subtreePacks, hnz, hl]⟩
  unfold nodeErrs at h
  unfold nodePacks
  cases hk : n.kind with
  | file =>
    simp only [hk, hs, List.append_eq_nil_iff] at h
    obtain ⟨e, he, hp⟩ := key h.2
    exact ⟨e, he, by simp only [hs]; exact List.mem_append_right _ hp⟩
  | dir =>
    simp only [hk, hs] at h
    obtain ⟨e, he, hp⟩ := key h
    exact ⟨e, he, by simp only [hs]; exact hp⟩
  | other =>
    simp only [hk, hs] at h
    obtain ⟨e, he, hp⟩ := key h
    exact ⟨e, he, by simp only [hs]; exact hp⟩

/-- Soundness of the check model (with the root-tree packs in the read set). -/
theorem check_sound {z : Sizes} {r : Repo} {lk : Lookup} {fuel : Nat} (hlk : LkSound r lk)
    (h : check z true r lk fuel = .findings []) :
    ∀ s ∈ r.snaps, RestoresCorrectly r lk s.tree := by
  unfold check checkW at h
  split at h
  · cases h
  · split at h
    · simp at h
    · rename_i out hw
      simp only [Verdict.findings.injEq, List.append_eq_nil_iff] at h
      obtain ⟨⟨⟨hi, hl⟩, he⟩, hp⟩ := h
      intro s hs t ht
      have hroot := mem_roots hs
      -- every reached tree is indexed with its pack in the read set
      have hkey : ∀ t, Reach r lk s.tree t → ∃ e, lk .tree t = some e ∧ e.pack ∈ readSet true r lk out := by
        intro t ht
        cases ht with
        | root =>
          obtain ⟨nodes, _, hrd⟩ := reach_processed hw hroot (Reach.root (r := r) (lk := lk))
          obtain ⟨e, he'⟩ := lk_of_readTree hrd
          refine ⟨e, he', ?_⟩
          unfold readSet rootPacks
          simp only [if_true]
          apply List.mem_append_left
          exact List.mem_filterMap.mpr ⟨s.tree, List.mem_map.mpr ⟨s, hs, rfl⟩, by simp [he']⟩
        | step hpar hrd hn hsub =>
          rename_i t' nodes n
          obtain ⟨nodes', hmem, hrd'⟩ := reach_processed hw hroot hpar
          rw [hrd] at hrd'
          cases hrd'
          have hne := nodeErrs_nil_of_walkErrs he hmem hn
          obtain ⟨e, he', hp'⟩ := subtree_indexed_of_nodeErrs_nil hsub hne
          refine ⟨e, he', ?_⟩
          unfold readSet
          apply List.mem_append_right
          exact mem_walkPacks hmem hn hp'
      obtain ⟨nodes, hmem, hrd⟩ := reach_processed hw hroot ht
      refine ⟨?_, nodes, hrd, ?_⟩
      · obtain ⟨e, he', hin⟩ := hkey t ht
        exact key_ok hlk hi hl hp he' hin
      · intro n hn hfile
        have hne := nodeErrs_nil_of_walkErrs he hmem hn
        unfold nodeErrs at hne
        simp only [hfile, List.append_eq_nil_iff] at hne
        replace hne := hne.1
        cases hc : n.content with
        | none => simp [hc] at hne
        | some ids =>
          simp only [hc] at hne
          refine ⟨ids, rfl, ?_⟩
          intro d hdm
          obtain ⟨e, he'⟩ := contentErrs_nil hne d hdm
          refine key_ok hlk hi hl hp he' ?_
          unfold readSet
          apply List.mem_append_right
          apply mem_walkPacks hmem hn
          unfold nodePacks
          simp only [hfile, hc, Option.getD_some]
          exact List.mem_append_left _ (List.mem_filterMap.mpr ⟨d, hdm, by simp [he']⟩)

/-- The executable restorability verdict the driver prints is sound for the specification. -/
theorem blobOkB_sound {r : Repo} {lk : Lookup} {t : BT} {id : Id} (h : blobOkB r lk t id = true) :
    BlobOk r lk t id := by
  unfold blobOkB at h
  unfold BlobOk
  cases hr : readBlob r lk t id with
  | none => simp [hr] at h
  | some hn =>
    obtain ⟨h', nodes⟩ := hn
    simp only [hr, beq_iff_eq] at h
    exact ⟨nodes, by rw [h]⟩

theorem restoreOk_sound {r : Repo} {lk : Lookup} {fuel : Nat} (h : restoreOk r lk fuel = true) :
    ∀ s ∈ r.snaps, s.authentic = true ∧ RestoresCorrectly r lk s.tree := by
  unfold restoreOk at h
  simp only [Bool.and_eq_true, List.all_eq_true] at h
  obtain ⟨⟨⟨_, _⟩, hauth⟩, hw⟩ := h
  split at hw
  · simp at hw
  · rename_i out hwalk
    simp only [List.all_eq_true] at hw
    intro s hs
    refine ⟨hauth s hs, ?_⟩
    intro t ht
    obtain ⟨nodes, hmem, hrd⟩ := reach_processed hwalk (mem_roots hs) ht
    have := hw (t, nodes) hmem
    unfold treeOkB at this
    simp only [Bool.and_eq_true, List.all_eq_true] at this
    refine ⟨blobOkB_sound this.1, nodes, hrd, ?_⟩
    intro n hn hfile
    have hn' := this.2 n hn
    simp only [hfile, bne_self_eq_false, Bool.false_or] at hn'
    cases hc : n.content with
    | none => simp [hc] at hn'
    | some ids =>
      simp only [hc, List.all_eq_true] at hn'
      exact ⟨ids, rfl, fun d hd => blobOkB_sound (hn' d hd)⟩


theorem blobOkB_complete {r : Repo} {lk : Lookup} {t : BT} {id : Id} (h : BlobOk r lk t id) :
    blobOkB r lk t id = true := by
  obtain ⟨nodes, hn⟩ := h
  unfold blobOkB
  simp [hn]

/-- The driver's lookup (first matching entry) satisfies the index specification. -/
theorem lkFirst_sound (r : Repo) : LkSound r (lkFirst r) := by
  intro t id e h
  unfold lkFirst lkOf at h
  obtain ⟨p, hp, hpe⟩ := List.exists_of_findSome?_eq_some h
  refine ⟨p, hp, ?_⟩
  split at hpe
  · rename_i hpt
    simp only [Option.map_eq_some_iff] at hpe
    obtain ⟨b, hb, rfl⟩ := hpe
    have hmem := List.mem_of_find?_eq_some hb
    have hid := List.find?_some hb
    simp only [beq_iff_eq] at hid
    exact ⟨rfl, hpt, b, hmem, hid, rfl, rfl, rfl⟩
  · cases hpe

theorem lkOf_sound (ps : List IPack) : LkSoundOn ps (lkOf ps) := by
  intro t id e h
  unfold lkOf at h
  obtain ⟨p, hp, hpe⟩ := List.exists_of_findSome?_eq_some h
  refine ⟨p, hp, ?_⟩
  split at hpe
  · rename_i hpt
    simp only [Option.map_eq_some_iff] at hpe
    obtain ⟨b, hb, rfl⟩ := hpe
    have hmem := List.mem_of_find?_eq_some hb
    have hid := List.find?_some hb
    simp only [beq_iff_eq] at hid
    exact ⟨rfl, hpt, b, hmem, hid, rfl, rfl, rfl⟩
  · cases hpe

/-- an index over the packs `check_packs` collects is an index over the readers' pack list, and vice versa -/
theorem lkSound_iff_checkIndex (r : Repo) (lk : Lookup) : LkSoundOn (checkIndexPacks false r) lk ↔ LkSound r lk := by
  rw [checkIndexPacks_false]; exact Iff.rfl

/-- decidable sufficient condition for `DirsOnly`: look at every indexed blob id -/
def dirsOnlyB (r : Repo) (lk : Lookup) : Bool :=
  (livePacks r).all fun p => p.blobs.all fun b =>
    match readTree r lk b.id with
    | none => true
    | some nodes => nodes.all (fun n => !n.subtree.isSome || n.kind == .dir)

theorem dirsOnly_of_check {r : Repo} {lk : Lookup} (hlk : LkSound r lk) (h : dirsOnlyB r lk = true) :
    DirsOnly r lk := by
  intro t nodes hrd n hn hs
  obtain ⟨e, he⟩ := lk_of_readTree hrd
  obtain ⟨p, hp, _, _, b, hb, hbid, _⟩ := hlk _ _ _ he
  unfold dirsOnlyB at h
  simp only [List.all_eq_true] at h
  have := h p hp b hb
  rw [hbid, hrd] at this
  simp only [List.all_eq_true] at this
  have := this n hn
  simp only [hs, Bool.not_true, Bool.false_or, beq_iff_eq] at this
  exact this

/-! ### delete marks: `Repository::check` walks every listed snapshot -/

theorem snapTrees_remark (f : Snap → DelMark) (r : Repo) : snapTrees (remark f r) = snapTrees r := by
  simp [snapTrees, remark, List.map_map, Function.comp_def]

theorem remark_trees (f : Snap → DelMark) (r : Repo) : (remark f r).snaps.map (·.tree) = r.snaps.map (·.tree) :=
  snapTrees_remark f r

theorem roots_remark (f : Snap → DelMark) (r : Repo) : roots (remark f r) = roots r := by
  unfold roots
  rw [remark_trees]

theorem rootPacks_remark (f : Snap → DelMark) (r : Repo) (lk : Lookup) : rootPacks (remark f r) lk = rootPacks r lk := by
  unfold rootPacks
  rw [remark_trees]

/-- nothing but the snapshot list differs between `r` and `remark f r`, and of that list check reads the trees only -/
theorem checkW_remark (f : Snap → DelMark) (w : Bool) (z : Sizes) (rootFix : Bool) (r : Repo) (lk : Lookup) (fuel : Nat) :
    checkW w z rootFix (remark f r) lk fuel = checkW w z rootFix r lk fuel := by
  have h1 : readTree (remark f r) lk = readTree r lk := rfl
  have h2 : indexErrs (remark f r) = indexErrs r := rfl
  have h3 : listErrs z (remark f r) = listErrs z r := rfl
  have h4 : checkIndexPacks w (remark f r) = checkIndexPacks w r := rfl
  have h5 : ∀ ps packs, packErrsOf z (remark f r) ps packs = packErrsOf z r ps packs := fun _ _ => rfl
  have h6 : (remark f r).snapsOk = r.snapsOk := rfl
  have h7 : (remark f r).indexOk = r.indexOk := rfl
  unfold checkW readSet
  rw [h1, h2, h3, h4, h6, h7, roots_remark, rootPacks_remark]
  simp only [h5]

theorem restoreOk_remark_trees (f : Snap → DelMark) (r : Repo) (lk : Lookup) (fuel : Nat) :
    walk (readTree (remark f r) lk) fuel (roots (remark f r)) (roots (remark f r)) =
      walk (readTree r lk) fuel (roots r) (roots r) := by
  have h1 : readTree (remark f r) lk = readTree r lk := rfl
  rw [h1, roots_remark]

theorem mem_dropExpired {now : Int} {r : Repo} {s : Snap} :
    s ∈ (dropExpired now r).snaps ↔ s ∈ r.snaps ∧ mustDelete now s = false := by
  simp [dropExpired, List.mem_filter]

end Rustic.Check
