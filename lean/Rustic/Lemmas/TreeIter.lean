/-
`TreeIterator` (`Model/Tree.lean TIter`) over the depth-first entry list of a source forest yields exactly the
bracketed item stream `Snapshot.itemsL` (C01), and for a forest whose sibling names are sorted that stream satisfies
`Parent.queriesOK` (C11).
-/
import Rustic.Model.Snapshot
import Rustic.Lemmas.Parent
namespace Rustic.Snapshot
open Rustic.Tree Rustic.RoundTrip

/-! ### running the iterator -/

/-- the iterator positioned on a stream of entries, in directory `path` -/
def mk (stream : List (Entry Bytes)) (path : List Name) : TIter Bytes :=
  match stream with
  | [] => { rest := [], path := path, item := none }
  | e :: es => { rest := es, path := path, item := some e }

theorem mk_new (es : List (Entry Bytes)) : TIter.new es = mk es [] := by cases es <;> rfl

theorem advance_mk (e : Entry Bytes) (es : List (Entry Bytes)) (p p' : List Name) :
    { (mk (e :: es) p).advance with path := p' } = mk es p' := by
  cases es <;> rfl

theorem advance_mk' (e : Entry Bytes) (es : List (Entry Bytes)) (p : List Name) :
    (mk (e :: es) p).advance = mk es p := by
  cases es <;> rfl

/-- from `t` the iterator yields exactly `out` and is then in state `t'` (for every fuel that suffices) -/
def Reaches (t : TIter Bytes) (out : List (Item Bytes)) (t' : TIter Bytes) : Prop :=
  ∀ f, TIter.run (out.length + f) t = out ++ TIter.run f t'

theorem Reaches.refl (t : TIter Bytes) : Reaches t [] t := fun f => by simp

theorem Reaches.step {t t1 t' : TIter Bytes} {it : Item Bytes} {out : List (Item Bytes)}
    (h : t.next = some (it, t1)) (hr : Reaches t1 out t') : Reaches t (it :: out) t' := by
  intro f
  have : (it :: out).length + f = (out.length + f) + 1 := by simp; omega
  rw [this, TIter.run, h]
  simp only [List.cons_append, hr f]

theorem Reaches.trans {t t1 t2 : TIter Bytes} {a b : List (Item Bytes)}
    (h1 : Reaches t a t1) (h2 : Reaches t1 b t2) : Reaches t (a ++ b) t2 := by
  intro f
  have : (a ++ b).length + f = a.length + (b.length + f) := by simp; omega
  rw [this, h1, h2, List.append_assoc]

/-! ### prefixes -/

theorem stripPrefix_self (p : List Name) : stripPrefix p p = some [] := by
  induction p with
  | nil => rfl
  | cons a as ih => simp [stripPrefix, ih]

theorem stripPrefix_append (p q : List Name) : stripPrefix p (p ++ q) = some q := by
  induction p with
  | nil => rfl
  | cons a as ih => simp [stripPrefix, ih]

theorem stripPrefix_shorter (p : List Name) (n : Name) : stripPrefix (p ++ [n]) p = none := by
  induction p with
  | nil => rfl
  | cons a as ih => simp [stripPrefix, ih]

theorem stripPrefix_sibling (p : List Name) (n m : Name) (h : m ≠ n) : stripPrefix (p ++ [n]) (p ++ [m]) = none := by
  induction p with
  | nil => simp [stripPrefix, Ne.symm h]
  | cons a as ih => simp [stripPrefix, ih]

theorem stripPrefix_none_append (p x : List Name) (n : Name) (h : stripPrefix p x = none) :
    stripPrefix (p ++ [n]) x = none := by
  induction p generalizing x with
  | nil => cases h
  | cons a as ih =>
    cases x with
    | nil => rfl
    | cons b bs =>
      simp only [List.cons_append, stripPrefix] at h ⊢
      split
      · rename_i hab; simp only [hab, if_true] at h; exact ih bs h
      · rfl

/-! ### what a source must satisfy for the walk to be the bracketed stream -/

mutual
/-- directories are directory nodes and no directory is directly followed by a sibling directory of the same name
(names in one directory are distinct on every file system) -/
def STree.Walkable : STree → Prop
  | .leaf _ _ => True
  | .dir n cs => n.isDir = true ∧ WalkableL cs
def WalkableL : List STree → Prop
  | [] => True
  | t :: ts => t.Walkable ∧ WalkableL ts ∧
    (match t, ts with
     | .dir n _, .dir m _ :: _ => m.name ≠ n.name
     | _, _ => True)
end

/-- the next entry (if any) does not lie below directory `p` -/
def Outside (p : List Name) (stream : List (Entry Bytes)) : Prop :=
  match stream with
  | [] => True
  | e :: _ => stripPrefix p e.path = none

theorem next_leaf (base : List Name) (n : Node) (d : Bytes) (tail : List (Entry Bytes)) :
    (mk (⟨base, n, d⟩ :: tail) base).next = some (.other n d, mk tail base) := by
  cases tail <;> simp [mk, TIter.next, stripPrefix_self, TIter.advance]

theorem next_dir (base : List Name) (n : Node) (x : Bytes) (tail : List (Entry Bytes)) (hd : n.isDir = true) :
    (mk (⟨base ++ [n.name], n, x⟩ :: tail) base).next = some (.newTree n n.name, mk tail (base ++ [n.name])) := by
  cases tail <;> simp [mk, TIter.next, stripPrefix_append, TIter.advance, hd]

theorem next_end (base : List Name) (nm : Name) (stream : List (Entry Bytes)) (ho : Outside (base ++ [nm]) stream) :
    (mk stream (base ++ [nm])).next = some (.endTree, mk stream base) := by
  cases stream with
  | nil => simp [mk, TIter.next]
  | cons e es =>
    simp only [Outside] at ho
    simp [mk, TIter.next, ho]

/-- after the children of directory `n` the stream continues with a sibling or with something outside -/
theorem outside_after_dir (base : List Name) (n : Node) (ts : List STree) (tail : List (Entry Bytes))
    (hsib : match ts with
      | .dir m _ :: _ => m.name ≠ n.name
      | _ => True)
    (ho : tail = [] ∨ Outside base tail) : Outside (base ++ [n.name]) (entriesL base ts ++ tail) := by
  cases ts with
  | nil =>
    simp only [entriesL, List.nil_append]
    cases tail with
    | nil => trivial
    | cons e es =>
      rcases ho with h | h
      · cases h
      · exact stripPrefix_none_append base e.path n.name h
  | cons t ts =>
    cases t with
    | leaf m d =>
      simp only [entriesL, STree.entries, List.cons_append, List.nil_append, Outside]
      exact stripPrefix_shorter base n.name
    | dir m cs =>
      simp only [entriesL, STree.entries, List.cons_append, Outside]
      exact stripPrefix_sibling base n.name m.name hsib

mutual
theorem iter_tree : ∀ (t : STree) (base : List Name) (tail : List (Entry Bytes)), t.Walkable →
    (∀ n cs, t = .dir n cs → Outside (base ++ [n.name]) tail) →
    Reaches (mk (t.entries base ++ tail) base) t.items (mk tail base)
  | .leaf n d, base, tail, _, _ => by
    simp only [STree.entries, STree.items, List.cons_append, List.nil_append]
    exact Reaches.step (next_leaf base n d tail) (Reaches.refl _)
  | .dir n cs, base, tail, hw, ho => by
    simp only [STree.Walkable] at hw
    simp only [STree.entries, STree.items, List.cons_append]
    have hout := ho n cs rfl
    have ih := iter_list cs (base ++ [n.name]) tail hw.2 (by
      cases tail with
      | nil => exact Or.inl rfl
      | cons e es => exact Or.inr hout)
    exact Reaches.step (next_dir base n [] _ hw.1)
      (Reaches.trans ih (Reaches.step (next_end base n.name tail hout) (Reaches.refl _)))
theorem iter_list : ∀ (ts : List STree) (base : List Name) (tail : List (Entry Bytes)), WalkableL ts →
    (tail = [] ∨ Outside base tail) →
    Reaches (mk (entriesL base ts ++ tail) base) (itemsL ts) (mk tail base)
  | [], base, tail, _, _ => by simpa [entriesL, itemsL] using Reaches.refl _
  | t :: ts, base, tail, hw, ho => by
    simp only [WalkableL] at hw
    simp only [entriesL, itemsL, List.append_assoc]
    have h2 := iter_list ts base tail hw.2.1 ho
    have h1 := iter_tree t base (entriesL base ts ++ tail) hw.1 (by
      intro n cs ht
      subst ht
      exact outside_after_dir base n ts tail (by
        have := hw.2.2
        cases ts with
        | nil => trivial
        | cons t' ts' => cases t' <;> simpa using this) ho)
    exact Reaches.trans h1 h2
end

theorem entriesFuel_ge (es : List (Entry Bytes)) (acc : Nat) :
    acc + 3 * es.length ≤ es.foldl (fun acc e => acc + 2 * e.path.length + 3) acc := by
  induction es generalizing acc with
  | nil => simp
  | cons e es ih =>
    simp only [List.foldl_cons, List.length_cons]
    have := ih (acc + 2 * e.path.length + 3)
    omega

mutual
theorem items_length_le_tree : ∀ (t : STree) (base : List Name),
    t.items.length ≤ 2 * (t.entries base).length
  | .leaf n d, base => by simp [STree.items, STree.entries]
  | .dir n cs, base => by
    have := (items_length_le cs (base ++ [n.name])).2
    simp only [STree.items, STree.entries, List.length_cons, List.length_append, List.length_nil]
    omega
theorem items_length_le : ∀ (ts : List STree) (base : List Name),
    True ∧ (itemsL ts).length ≤ 2 * (entriesL base ts).length
  | [], base => by simp [itemsL, entriesL]
  | t :: ts, base => by
    have h1 := items_length_le_tree t base
    have h2 := (items_length_le ts base).2
    simp only [itemsL, entriesL, List.length_append, true_and]
    omega
end

/-- **`TreeIterator` on a depth-first source.**  The items are exactly the bracketed stream of the forest: every
directory is opened (`NewTree`) before and closed (`EndTree`) after its entries, nothing is synthesised or dropped. -/
theorem tree_iterator_items (src : List STree) (hw : WalkableL src) : treeItems (entriesL [] src) = itemsL src := by
  have hr := iter_list src [] [] hw (Or.inl rfl)
  have hlen := entriesFuel_ge (entriesL [] src) 4
  have hitems := (items_length_le src []).2
  unfold treeItems
  rw [mk_new]
  have hf : entriesFuel (entriesL [] src) = (itemsL src).length + (entriesFuel (entriesL [] src) - (itemsL src).length) := by
    unfold entriesFuel; omega
  have h := hr (entriesFuel (entriesL [] src) - (itemsL src).length)
  rw [List.append_nil] at h
  rw [hf, h]
  have hstop : ∀ f, TIter.run f (mk [] []) = [] := by
    intro f; cases f <;> simp [TIter.run, mk, TIter.next]
  rw [hstop, List.append_nil]

/-! ### a name-sorted source gives `queriesOK` items (C11) -/

open Rustic.Parent

mutual
/-- the names in every directory, in walk order, never decrease (`g` = last name seen at this level) -/
def STree.SortedNames : STree → Prop
  | .leaf _ _ => True
  | .dir _ cs => SortedL none cs
def SortedL : Option Name → List STree → Prop
  | _, [] => True
  | g, t :: ts => okAfter g t.node.name ∧ t.SortedNames ∧ SortedL (some t.node.name) ts
end

def lastName : Option Name → List STree → Option Name
  | g, [] => g
  | _, t :: ts => lastName (some t.node.name) ts

mutual
theorem queriesOK_tree : ∀ (t : STree) (g0 : Option Name) (gs : List (Option Name)) (rest : List (Item Bytes)),
    okAfter g0 t.node.name → t.SortedNames → queriesOK (some t.node.name :: gs) rest →
    queriesOK (g0 :: gs) (t.items ++ rest)
  | .leaf n d, g0, gs, rest, h0, _, hr => by
    simp only [STree.items, List.cons_append, List.nil_append, queriesOK]
    exact ⟨h0, hr⟩
  | .dir n cs, g0, gs, rest, h0, hs, hr => by
    simp only [STree.SortedNames] at hs
    simp only [STree.items, List.cons_append, List.append_assoc, queriesOK]
    refine ⟨h0, ?_⟩
    apply queriesOK_list cs none (some n.name :: gs) (.endTree :: rest) hs
    simp only [List.cons_append, List.nil_append, queriesOK]
    exact hr
theorem queriesOK_list : ∀ (ts : List STree) (g : Option Name) (gs : List (Option Name)) (rest : List (Item Bytes)),
    SortedL g ts → queriesOK (lastName g ts :: gs) rest → queriesOK (g :: gs) (itemsL ts ++ rest)
  | [], g, gs, rest, _, hr => by simpa [itemsL, lastName] using hr
  | t :: ts, g, gs, rest, hs, hr => by
    simp only [SortedL] at hs
    simp only [itemsL, List.append_assoc]
    exact queriesOK_tree t g gs _ hs.1 hs.2.1 (queriesOK_list ts (some t.node.name) gs rest hs.2.2 hr)
end

/-- **`TreeIterator` over a name-sorted source yields `queriesOK` items.** -/
theorem sorted_source_queriesOK (src : List STree) (hw : WalkableL src) (hs : SortedL none src) :
    queriesOK [none] (treeItems (entriesL [] src)) := by
  rw [tree_iterator_items src hw]
  have := queriesOK_list src none [] [] hs (by simp [queriesOK])
  simpa using this

end Rustic.Snapshot
