/-
Lemmas for C13: `TreeStreamerOnce` under every delivery order, and the channel line.
-/
import Rustic.Model.Streamer
namespace Rustic.Streamer

/-! ### `pick` -/

theorem pick_spec {α : Type} : ∀ (l : List α) (i : Nat) (e : α) (r : List α), pick l i = some (e, r) →
    (∀ x, x ∈ l ↔ x = e ∨ x ∈ r) ∧ (∀ p : α → Bool, l.countP p = r.countP p + (if p e then 1 else 0)) ∧
    l.length = r.length + 1
  | [], _, _, _, h => by simp [pick] at h
  | x :: xs, 0, e, r, h => by
    simp only [pick, Option.some.injEq, Prod.mk.injEq] at h
    obtain ⟨rfl, rfl⟩ := h
    refine ⟨by simp, ?_, by simp⟩
    intro p; simp only [List.countP_cons]
  | x :: xs, i + 1, e, r, h => by
    simp only [pick, Option.map_eq_some_iff] at h
    obtain ⟨⟨e', r'⟩, h1, h2⟩ := h
    simp only [Prod.mk.injEq] at h2
    obtain ⟨rfl, rfl⟩ := h2
    obtain ⟨a, b, c⟩ := pick_spec xs i e' r' h1
    refine ⟨?_, ?_, by simp [c]⟩
    · intro y; simp only [List.mem_cons, a]; grind
    · intro p; simp only [List.countP_cons, b]; omega

theorem pick_some {α : Type} : ∀ (l : List α) (i : Nat), i < l.length → ∃ e r, pick l i = some (e, r)
  | [], _, h => by simp at h
  | x :: xs, 0, _ => ⟨x, xs, rfl⟩
  | x :: xs, i + 1, h => by
    obtain ⟨e, r, he⟩ := pick_some xs i (by simpa using h)
    exact ⟨e, x :: r, by simp [pick, he]⟩

theorem pick_nodup_map {α β : Type} (f : α → β) (l : List α) (i : Nat) (e : α) (r : List α)
    (h : pick l i = some (e, r)) (hn : (l.map f).Nodup) : (r.map f).Nodup ∧ f e ∉ r.map f := by
  induction l generalizing i e r with
  | nil => simp [pick] at h
  | cons x xs ih =>
    cases i with
    | zero =>
      simp only [pick, Option.some.injEq, Prod.mk.injEq] at h
      obtain ⟨rfl, rfl⟩ := h
      simp only [List.map_cons, List.nodup_cons] at hn
      exact ⟨hn.2, hn.1⟩
    | succ i =>
      simp only [pick, Option.map_eq_some_iff] at h
      obtain ⟨⟨e', r'⟩, h1, h2⟩ := h
      simp only [Prod.mk.injEq] at h2
      obtain ⟨rfl, rfl⟩ := h2
      simp only [List.map_cons, List.nodup_cons] at hn
      obtain ⟨i1, i2⟩ := ih i e' r' h1 hn.2
      have hmem := (pick_spec xs i e' r' h1).1
      refine ⟨?_, ?_⟩
      · simp only [List.map_cons, List.nodup_cons]
        refine ⟨?_, i1⟩
        intro hx
        apply hn.1
        obtain ⟨y, hy, hfy⟩ := List.mem_map.mp hx
        exact List.mem_map.mpr ⟨y, (hmem y).mpr (Or.inr hy), hfy⟩
      · simp only [List.map_cons, List.mem_cons, not_or]
        refine ⟨?_, i2⟩
        intro heq
        apply hn.1
        rw [← heq]
        exact List.mem_map.mpr ⟨e', (hmem e').mpr (Or.inl rfl), rfl⟩

/-! ### the invariant -/

def cnt (p : List (Id × Nat)) (r : Nat) : Nat := p.countP (fun e => e.2 == r)

/-- `off`: requests received but not yet accounted for in `counter`; `extra`: trees in the hands of `next`. -/
structure Inv (children : Id → List Id) (roots : List Id) (off : Nat → Nat) (extra : List Id) (s : St) : Prop where
  cntOK : ∀ r, s.counter r = cnt s.pending r + off r
  bound : ∀ e ∈ s.pending, e.2 < s.nroots
  nodup : (s.yielded ++ s.pending.map (·.1) ++ extra).Nodup
  vis : ∀ v, v ∈ s.visited ↔ v ∈ s.yielded ∨ v ∈ s.pending.map (·.1) ∨ v ∈ extra
  reach : ∀ v ∈ s.visited, Reach children roots v
  closed : ∀ y ∈ s.yielded, ∀ c ∈ children y, c ∈ s.visited

theorem addPending_fields (s : St) (id : Id) (c : Nat) :
    (addPending s id c).1.nroots = s.nroots ∧ (addPending s id c).1.finished = s.finished ∧
    (addPending s id c).1.yielded = s.yielded ∧ (∀ v ∈ s.visited, v ∈ (addPending s id c).1.visited) ∧
    id ∈ (addPending s id c).1.visited ∧ (∀ r, r ≠ c → (addPending s id c).1.counter r = s.counter r) ∧
    s.counter c ≤ (addPending s id c).1.counter c := by
  unfold addPending
  by_cases h : s.visited.contains id = true
  · rw [if_pos h]
    exact ⟨rfl, rfl, rfl, fun v hv => hv, by simpa using h, fun _ _ => rfl, Nat.le_refl _⟩
  · rw [if_neg h]
    refine ⟨rfl, rfl, rfl, fun v hv => List.mem_cons_of_mem _ hv, List.mem_cons_self, ?_, ?_⟩
    · intro r hr; simp [hr]
    · simp

theorem inv_addPending {children : Id → List Id} {roots : List Id} {off : Nat → Nat} {extra : List Id}
    {s : St} (id : Id) (c : Nat) (h : Inv children roots off extra s) (hc : c < s.nroots)
    (hr : Reach children roots id) : Inv children roots off extra (addPending s id c).1 := by
  unfold addPending
  by_cases hv : s.visited.contains id = true
  · rw [if_pos hv]; exact h
  · rw [if_neg hv]
    have hv' : id ∉ s.visited := by simpa using hv
    have hnot := (not_congr (h.vis id)).mp hv'
    refine ⟨?_, ?_, ?_, ?_, ?_, ?_⟩
    · intro r
      have := h.cntOK r
      show (if r = c then s.counter r + 1 else s.counter r) = cnt (s.pending ++ [(id, c)]) r + off r
      simp only [cnt, List.countP_append, List.countP_cons, List.countP_nil] at this ⊢
      by_cases hrc : r = c
      · subst hrc; simp [this]; omega
      · have hb : (c == r) = false := by simp; exact fun e => hrc e.symm
        simp [hrc, hb, this]
    · intro e he
      rcases List.mem_append.mp he with he | he
      · exact h.bound e he
      · simp only [List.mem_singleton] at he; subst he; exact hc
    · have := h.nodup
      simp only [List.map_append, List.map_cons, List.map_nil]
      rw [List.nodup_append] at this ⊢
      obtain ⟨n1, n2, n3⟩ := this
      rw [List.nodup_append] at n1
      obtain ⟨m1, m2, m3⟩ := n1
      refine ⟨?_, n2, ?_⟩
      · rw [List.nodup_append]
        refine ⟨m1, ?_, ?_⟩
        · rw [List.nodup_append]
          refine ⟨m2, by simp, ?_⟩
          intro a ha b hb
          simp only [List.mem_singleton] at hb; subst hb
          intro e; subst e; exact hnot (Or.inr (Or.inl ha))
        · intro a ha b hb
          rcases List.mem_append.mp hb with hb | hb
          · exact m3 a ha b hb
          · simp only [List.mem_singleton] at hb; subst hb
            intro e; subst e; exact hnot (Or.inl ha)
      · intro a ha b hb
        rcases List.mem_append.mp ha with ha | ha
        · exact n3 a (List.mem_append_left _ ha) b hb
        · rcases List.mem_append.mp ha with ha | ha
          · exact n3 a (List.mem_append_right _ ha) b hb
          · simp only [List.mem_singleton] at ha; subst ha
            intro e; subst e; exact hnot (Or.inr (Or.inr hb))
    · intro v
      show v ∈ id :: s.visited ↔ v ∈ s.yielded ∨ v ∈ (s.pending ++ [(id, c)]).map (·.1) ∨ v ∈ extra
      simp only [List.mem_cons, List.map_append, List.map_cons, List.map_nil, List.mem_append, List.mem_singleton, h.vis v]
      grind
    · intro v hvm
      rcases List.mem_cons.mp hvm with rfl | hvm
      · exact hr
      · exact h.reach v hvm
    · intro y hy c' hc'
      exact List.mem_cons_of_mem _ (h.closed y hy c' hc')

theorem inv_addChildren {children : Id → List Id} {roots : List Id} {off : Nat → Nat} {extra : List Id}
    (c : Nat) : ∀ (cs : List Id) (s : St), Inv children roots off extra s → c < s.nroots →
      (∀ x ∈ cs, Reach children roots x) →
      Inv children roots off extra (addChildren s cs c) ∧ (addChildren s cs c).nroots = s.nroots ∧
      (addChildren s cs c).finished = s.finished ∧ (addChildren s cs c).yielded = s.yielded ∧
      (∀ v ∈ s.visited, v ∈ (addChildren s cs c).visited) ∧ (∀ x ∈ cs, x ∈ (addChildren s cs c).visited) ∧
      (∀ r, r ≠ c → (addChildren s cs c).counter r = s.counter r)
  | [], s, h, _, _ => ⟨h, rfl, rfl, rfl, fun _ hv => hv, (fun _ hx => by cases hx), fun _ _ => rfl⟩
  | x :: cs, s, h, hc, hr => by
    obtain ⟨f1, f2, f3, f4, f5, f6, _⟩ := addPending_fields s x c
    have h1 := inv_addPending x c h hc (hr x List.mem_cons_self)
    obtain ⟨g0, g1, g2, g3, g4, g5, g6⟩ := inv_addChildren c cs (addPending s x c).1 h1 (by rw [f1]; exact hc)
      (fun y hy => hr y (List.mem_cons_of_mem _ hy))
    simp only [addChildren, List.foldl_cons] at g0 g1 g2 g3 g4 g5 g6 ⊢
    refine ⟨g0, by rw [g1, f1], by rw [g2, f2], by rw [g3, f3], fun v hv => g4 v (f4 v hv), ?_, ?_⟩
    · intro y hy
      rcases List.mem_cons.mp hy with rfl | hy
      · exact g4 _ f5
      · exact g5 y hy
    · intro r hrc; rw [g6 r hrc, f6 r hrc]

/-! ### `finished_ids` counts the roots whose counter is zero -/

def zeros (counter : Nat → Nat) : Nat → Nat
  | 0 => 0
  | n + 1 => zeros counter n + (if counter n = 0 then 1 else 0)

theorem zeros_le (f : Nat → Nat) : ∀ n, zeros f n ≤ n
  | 0 => Nat.le_refl _
  | n + 1 => by have := zeros_le f n; simp only [zeros]; split <;> omega

theorem zeros_eq_iff (f : Nat → Nat) : ∀ n, zeros f n = n ↔ ∀ r < n, f r = 0
  | 0 => by simp [zeros]
  | n + 1 => by
    have ih := zeros_eq_iff f n
    have hle := zeros_le f n
    simp only [zeros]
    constructor
    · intro h r hr
      by_cases hz : f n = 0
      · simp only [hz, if_true] at h
        rcases Nat.lt_succ_iff_lt_or_eq.mp hr with hr | rfl
        · exact ih.mp (by omega) r hr
        · exact hz
      · simp only [hz, if_false] at h; omega
    · intro h
      have hz := h n (Nat.lt_succ_self n)
      have := ih.mpr (fun r hr => h r (Nat.lt_succ_of_lt hr))
      simp [hz, this]

theorem zeros_congr (f g : Nat → Nat) : ∀ n, (∀ r < n, f r = g r) → zeros f n = zeros g n
  | 0, _ => rfl
  | n + 1, h => by
    simp only [zeros, zeros_congr f g n (fun r hr => h r (Nat.lt_succ_of_lt hr)), h n (Nat.lt_succ_self n)]

/-- changing one non-zero entry -/
theorem zeros_update (f g : Nat → Nat) (k : Nat) (hk : f k ≠ 0) (hg : ∀ r, r ≠ k → g r = f r) :
    ∀ n, k < n → zeros g n = zeros f n + (if g k = 0 then 1 else 0)
  | 0, h => by omega
  | n + 1, h => by
    simp only [zeros]
    by_cases hkn : k = n
    · subst hkn
      rw [zeros_congr g f k (fun r hr => hg r (by omega))]
      simp [hk]
    · rw [zeros_update f g k hk hg n (by omega), hg n (fun e => hkn e.symm)]
      omega

/-! ### reachable states of the streamer -/

structure Good (children : Id → List Id) (roots : List Id) (s : St) : Prop where
  inv : Inv children roots (fun _ => 0) [] s
  fin : s.finished = zeros s.counter s.nroots
  rootsIn : ∀ r ∈ roots, r ∈ s.visited

theorem cnt_pos {p : List (Id × Nat)} {e : Id × Nat} (h : e ∈ p) : 0 < cnt p e.2 := by
  unfold cnt
  exact List.countP_pos_iff.mpr ⟨e, h, by simp⟩

theorem deliver_good {children : Id → List Id} {roots : List Id} {s : St} (k : Nat)
    (h : Good children roots s) : Good children roots (deliver children s k) := by
  unfold deliver
  cases hp : pick s.pending (k % s.pending.length) with
  | none => exact h
  | some er =>
    obtain ⟨e, rest⟩ := er
    simp only
    obtain ⟨hmem, hcount, _⟩ := pick_spec _ _ _ _ hp
    have hin : e ∈ s.pending := (hmem e).mpr (Or.inl rfl)
    have hb : e.2 < s.nroots := h.inv.bound e hin
    have hnd := h.inv.nodup
    simp only [List.append_nil] at hnd
    rw [List.nodup_append] at hnd
    obtain ⟨nd1, nd2, nd3⟩ := hnd
    obtain ⟨nr1, nr2⟩ := pick_nodup_map (fun (x : Id × Nat) => x.1) _ _ _ _ hp nd2
    have hev : e.1 ∈ s.visited := (h.inv.vis e.1).mpr (Or.inr (Or.inl (List.mem_map.mpr ⟨e, hin, rfl⟩)))
    -- the state while `next` holds the received tree
    have h1 : Inv children roots (fun r => if r = e.2 then 1 else 0) [e.1] { s with pending := rest } := by
      refine ⟨?_, ?_, ?_, ?_, h.inv.reach, h.inv.closed⟩
      · intro r
        have := h.inv.cntOK r
        simp only [cnt, Nat.add_zero] at this ⊢
        rw [this, hcount]
        by_cases hr : r = e.2
        · subst hr; simp
        · have : (e.2 == r) = false := by simp; exact fun x => hr x.symm
          simp [hr, this]
      · intro x hx; exact h.inv.bound x ((hmem x).mpr (Or.inr hx))
      · show (s.yielded ++ rest.map (·.1) ++ [e.1]).Nodup
        rw [List.nodup_append]
        refine ⟨?_, by simp, ?_⟩
        · rw [List.nodup_append]
          refine ⟨nd1, nr1, ?_⟩
          intro a ha b hb'
          obtain ⟨y, hy, rfl⟩ := List.mem_map.mp hb'
          exact nd3 a ha _ (List.mem_map.mpr ⟨y, (hmem y).mpr (Or.inr hy), rfl⟩)
        · intro a ha b hb'
          simp only [List.mem_singleton] at hb'; subst hb'
          rcases List.mem_append.mp ha with ha | ha
          · exact nd3 a ha _ (List.mem_map.mpr ⟨e, hin, rfl⟩)
          · intro heq; subst heq; exact nr2 ha
      · intro v
        show v ∈ s.visited ↔ v ∈ s.yielded ∨ v ∈ rest.map (·.1) ∨ v ∈ [e.1]
        rw [h.inv.vis v]
        simp only [List.not_mem_nil, or_false, List.mem_singleton, List.mem_map]
        constructor
        · rintro (hv | ⟨y, hy, rfl⟩)
          · exact Or.inl hv
          · rcases (hmem y).mp hy with rfl | hy
            · exact Or.inr (Or.inr rfl)
            · exact Or.inr (Or.inl ⟨y, hy, rfl⟩)
        · rintro (hv | ⟨y, hy, rfl⟩ | rfl)
          · exact Or.inl hv
          · exact Or.inr ⟨y, (hmem y).mpr (Or.inr hy), rfl⟩
          · exact Or.inr ⟨e, hin, rfl⟩
    have hreach : ∀ x ∈ children e.1, Reach children roots x :=
      fun x hx => Reach.child (h.inv.reach e.1 hev) hx
    obtain ⟨g0, g1, g2, g3, g4, g5, g6⟩ := inv_addChildren e.2 (children e.1) { s with pending := rest } h1 hb hreach
    generalize addChildren { s with pending := rest } (children e.1) e.2 = s2 at g0 g1 g2 g3 g4 g5 g6
    simp only at g1 g2 g3 g4 g6
    refine ⟨⟨?_, ?_, ?_, ?_, ?_, ?_⟩, ?_, ?_⟩
    · intro r
      have := g0.cntOK r
      show (if r = e.2 then s2.counter e.2 - 1 else s2.counter r) = cnt s2.pending r + 0
      by_cases hr : r = e.2
      · subst hr; simp only [if_true] at this ⊢; omega
      · simp only [hr, if_false] at this ⊢; omega
    · exact g0.bound
    · show ((s2.yielded ++ [e.1]) ++ s2.pending.map (fun (x : Id × Nat) => x.1) ++ []).Nodup
      have := g0.nodup
      refine (List.Perm.nodup_iff ?_).mp this
      simp only [List.append_nil, List.append_assoc]
      exact List.perm_append_left_iff _ |>.mpr List.perm_append_comm
    · intro v
      show v ∈ s2.visited ↔ v ∈ s2.yielded ++ [e.1] ∨ v ∈ s2.pending.map (fun (x : Id × Nat) => x.1) ∨ v ∈ []
      rw [g0.vis v]; simp only [List.mem_append, List.mem_singleton, List.not_mem_nil, or_false]
      grind
    · exact g0.reach
    · intro y hy c hc
      show c ∈ s2.visited
      rcases List.mem_append.mp hy with hy | hy
      · exact g0.closed y (by simpa using hy) c hc
      · simp only [List.mem_singleton] at hy; subst hy; exact g5 c hc
    · show (if s2.counter e.2 - 1 = 0 then s2.finished + 1 else s2.finished) =
        zeros (fun r => if r = e.2 then s2.counter e.2 - 1 else s2.counter r) s2.nroots
      rw [g1, g2, h.fin]
      have hk : s.counter e.2 ≠ 0 := by
        have := h.inv.cntOK e.2
        have := cnt_pos hin
        omega
      rw [zeros_update s.counter (fun r => if r = e.2 then s2.counter e.2 - 1 else s2.counter r) e.2 hk
        (by intro r hr; simp only [hr, if_false]; exact g6 r hr) s.nroots hb]
      simp only [if_true]
      split <;> rfl
    · intro r hr; exact g4 r (h.rootsIn r hr)

theorem initGo_good (children : Id → List Id) (roots : List Id) :
    ∀ (ids : List Id) (c : Nat) (s : St) (done : List Id), (∀ x ∈ ids, x ∈ roots) → c + ids.length = s.nroots →
      Inv children roots (fun _ => 0) [] s → s.finished = zeros s.counter c → (∀ r, c ≤ r → s.counter r = 0) →
      (∀ x ∈ done, x ∈ s.visited) →
      Inv children roots (fun _ => 0) [] (initGo s ids c) ∧
      (initGo s ids c).finished = zeros (initGo s ids c).counter (initGo s ids c).nroots ∧
      (∀ x ∈ done ++ ids, x ∈ (initGo s ids c).visited)
  | [], c, s, done, _, hn, hi, hf, _, hv => by
    simp only [initGo, List.append_nil]
    simp only [List.length_nil, Nat.add_zero] at hn
    exact ⟨hi, by rw [hf, hn], hv⟩
  | id :: ids, c, s, done, hsub, hn, hi, hf, hz, hv => by
    simp only [initGo]
    have hc : c < s.nroots := by simp only [List.length_cons] at hn; omega
    obtain ⟨f1, f2, f3, f4, f5, f6, f7⟩ := addPending_fields s id c
    have hi' := inv_addPending id c hi hc (Reach.root (hsub id List.mem_cons_self))
    have hdone : ∀ x ∈ done ++ [id], x ∈ (addPending s id c).1.visited := by
      intro x hx
      rcases List.mem_append.mp hx with hx | hx
      · exact f4 x (hv x hx)
      · simp only [List.mem_singleton] at hx; subst hx; exact f5
    have hcnt0 : s.counter c = 0 := hz c (Nat.le_refl c)
    by_cases hadd : (addPending s id c).2 = true
    · -- a new root: counter[c] = 1
      simp only [hadd, if_true]
      have hcc : (addPending s id c).1.counter c = 1 := by
        unfold addPending at hadd ⊢
        by_cases hv' : s.visited.contains id = true
        · rw [if_pos hv'] at hadd; cases hadd
        · rw [if_neg hv']; simp [hcnt0]
      have := initGo_good children roots ids (c + 1) (addPending s id c).1 (done ++ [id])
        (fun x hx => hsub x (List.mem_cons_of_mem _ hx))
        (by rw [f1]; simp only [List.length_cons] at hn; omega) hi'
        (by
          rw [f2, hf]; simp only [zeros, hcc]
          rw [zeros_congr _ s.counter c (fun r hr => f6 r (by omega))]; simp)
        (fun r hr => by rw [f6 r (by omega)]; exact hz r (by omega)) hdone
      simpa [List.append_assoc] using this
    · -- a root that was already visited counts as finished
      have hadd' : (addPending s id c).2 = false := by simpa using hadd
      simp only [hadd', Bool.false_eq_true, if_false]
      have hsame : (addPending s id c).1 = s := by
        unfold addPending at hadd' ⊢
        by_cases hv' : s.visited.contains id = true
        · rw [if_pos hv']
        · rw [if_neg hv'] at hadd'; cases hadd'
      rw [hsame] at hdone hi' ⊢
      have hi2 : Inv children roots (fun _ => 0) [] { s with finished := s.finished + 1 } :=
        ⟨hi.cntOK, hi.bound, hi.nodup, hi.vis, hi.reach, hi.closed⟩
      have := initGo_good children roots ids (c + 1) { s with finished := s.finished + 1 } (done ++ [id])
        (fun x hx => hsub x (List.mem_cons_of_mem _ hx))
        (by simp only [List.length_cons] at hn ⊢; omega) hi2
        (by show s.finished + 1 = zeros s.counter (c + 1); simp only [zeros, hcnt0, if_true, hf])
        (fun r hr => hz r (by omega)) hdone
      simpa [List.append_assoc] using this

theorem init_good (children : Id → List Id) (roots : List Id) : Good children roots (init roots) := by
  have h0 : Inv children roots (fun _ => 0) [] ({ nroots := roots.length } : St) := by
    refine ⟨?_, ?_, ?_, ?_, ?_, ?_⟩
    · intro r; simp [cnt]
    · intro e he; cases he
    · simp
    · intro v; simp
    · intro v hv; cases hv
    · intro y hy; cases hy
  obtain ⟨a, b, c⟩ := initGo_good children roots roots 0 { nroots := roots.length } [] (fun x hx => hx)
    (by simp) h0 rfl (fun _ _ => rfl) (fun x hx => by cases hx)
  exact ⟨a, b, fun r hr => c r (by simpa using hr)⟩

theorem runSched_good {children : Id → List Id} {roots : List Id} :
    ∀ (ks : List Nat) (s : St), Good children roots s → Good children roots (runSched children s ks)
  | [], _, h => h
  | k :: ks, s, h => by
    simp only [runSched]
    split
    · exact h
    · exact runSched_good ks _ (deliver_good k h)

/-- `next` returns `None` exactly when no request is outstanding: it neither blocks forever on an empty
queue (no deadlock) nor stops while answers are still due. -/
theorem done_iff_no_pending {children : Id → List Id} {roots : List Id} {s : St}
    (h : Good children roots s) : isDone s = true ↔ s.pending = [] := by
  unfold isDone
  rw [beq_iff_eq, h.fin]
  constructor
  · intro he
    have hall := (zeros_eq_iff s.counter s.nroots).mp he.symm
    cases hp : s.pending with
    | nil => rfl
    | cons e t =>
      have hin : e ∈ s.pending := by rw [hp]; exact List.mem_cons_self
      have h0 := hall e.2 (h.inv.bound e hin)
      have h1 := h.inv.cntOK e.2
      have h2 := cnt_pos hin
      omega
  · intro hp
    symm
    apply (zeros_eq_iff s.counter s.nroots).mpr
    intro r _
    have := h.inv.cntOK r
    simp only [hp, cnt, List.countP_nil] at this
    omega

theorem yielded_complete {children : Id → List Id} {roots : List Id} {s : St}
    (h : Good children roots s) (hp : s.pending = []) : ∀ id, Reach children roots id → id ∈ s.yielded := by
  have hvy : ∀ v, v ∈ s.visited → v ∈ s.yielded := by
    intro v hv
    have := (h.inv.vis v).mp hv
    simpa [hp] using this
  intro id hr
  induction hr with
  | root hroot => exact hvy _ (h.rootsIn _ hroot)
  | child _ hc ih => exact hvy _ (h.inv.closed _ ih _ hc)

theorem yielded_sound {children : Id → List Id} {roots : List Id} {s : St}
    (h : Good children roots s) : s.yielded.Nodup ∧ ∀ id ∈ s.yielded, Reach children roots id := by
  have hn := h.inv.nodup
  simp only [List.append_nil] at hn
  exact ⟨(List.nodup_append.mp hn).1, fun id hid => h.inv.reach id ((h.inv.vis id).mpr (Or.inl hid))⟩

theorem addChildren_yielded (c : Nat) : ∀ (cs : List Id) (s : St), (addChildren s cs c).yielded = s.yielded
  | [], _ => rfl
  | x :: cs, s => by
    simp only [addChildren, List.foldl_cons]
    have := addChildren_yielded c cs (addPending s x c).1
    simp only [addChildren] at this
    rw [this, (addPending_fields s x c).2.2.1]

/-- every `next` that is not the last yields one more tree -/
theorem deliver_yields {children : Id → List Id} {roots : List Id} {s : St} (k : Nat)
    (h : Good children roots s) (hnd : isDone s = false) :
    (deliver children s k).yielded.length = s.yielded.length + 1 := by
  have hp : s.pending ≠ [] := by
    intro e; have := (done_iff_no_pending h).mpr e; rw [this] at hnd; cases hnd
  have hlen : 0 < s.pending.length := List.length_pos_iff.mpr hp
  obtain ⟨e, r, he⟩ := pick_some s.pending (k % s.pending.length) (Nat.mod_lt _ hlen)
  unfold deliver
  simp only [he, List.length_append, List.length_singleton, addChildren_yielded]

theorem nodup_subset_length : ∀ (a l : List Nat), a.Nodup → (∀ x ∈ a, x ∈ l) → a.length ≤ l.length
  | [], _, _, _ => Nat.zero_le _
  | x :: a, l, hn, hs => by
    have hx : x ∈ l := hs x List.mem_cons_self
    have hn' := List.nodup_cons.mp hn
    have ih := nodup_subset_length a (l.erase x) hn'.2 (by
      intro y hy
      have hne : y ≠ x := by intro e; subst e; exact hn'.1 hy
      exact (List.mem_erase_of_ne hne).mpr (hs y (List.mem_cons_of_mem _ hy)))
    rw [List.length_erase_of_mem hx] at ih
    have : 0 < l.length := List.length_pos_of_mem hx
    simp only [List.length_cons]; omega

/-- while the stream is not done every `next` yields; so after `ks.length` calls either it is done or it
has yielded that many trees -/
theorem runSched_count {children : Id → List Id} {roots : List Id} :
    ∀ (ks : List Nat) (s : St), Good children roots s →
      isDone (runSched children s ks) = true ∨
      (runSched children s ks).yielded.length = s.yielded.length + ks.length
  | [], s, _ => Or.inr (by simp [runSched])
  | k :: ks, s, h => by
    simp only [runSched]
    by_cases hd : isDone s = true
    · rw [if_pos hd]; exact Or.inl hd
    · have hd' : isDone s = false := by simpa using hd
      rw [if_neg hd]
      rcases runSched_count ks _ (deliver_good k h) with h1 | h1
      · exact Or.inl h1
      · right; rw [h1, deliver_yields k h hd']; simp only [List.length_cons]; omega

/-! ### the channel line -/

theorem move_length : ∀ (p : Pipe) (i : Nat) (d : Bool) (p' : Pipe), move p i d = some p' → p'.length = p.length
  | [], _, _, _, h => by simp [move] at h
  | [(b, c)], 0, _, p', h => by
    cases b with
    | nil => simp [move] at h
    | cons x t => simp only [move, Option.some.injEq] at h; subst h; rfl
  | [(b, c)], i + 1, d, p', h => by simp [move] at h
  | (b, c) :: (b', c') :: rest, 0, d, p', h => by
    cases b with
    | nil => simp [move] at h
    | cons x t =>
      simp only [move] at h
      split at h
      · injection h with h; subst h; rfl
      · split at h
        · injection h with h; subst h; rfl
        · cases h
  | st :: st' :: rest, i + 1, d, p', h => by
    simp only [move, Option.map_eq_some_iff] at h
    obtain ⟨q, hq, rfl⟩ := h
    simp [move_length (st' :: rest) i d q hq]

/-- every move strictly decreases the weighted number of hops left: the network cannot run forever -/
theorem move_measure : ∀ (p : Pipe) (i : Nat) (d : Bool) (p' : Pipe), move p i d = some p' → measure p' < measure p
  | [], _, _, _, h => by simp [move] at h
  | [(b, c)], 0, _, p', h => by
    cases b with
    | nil => simp [move] at h
    | cons x t => simp only [move, Option.some.injEq] at h; subst h; simp [measure]
  | [(b, c)], i + 1, d, p', h => by simp [move] at h
  | (b, c) :: (b', c') :: rest, 0, d, p', h => by
    cases b with
    | nil => simp [move] at h
    | cons x t =>
      simp only [move] at h
      split at h
      · injection h with h; subst h
        simp only [measure, List.length_cons]
        have : t.length * (rest.length + 1 + 1) < (t.length + 1) * (rest.length + 1 + 1) := by
          apply Nat.mul_lt_mul_of_pos_right <;> omega
        omega
      · split at h
        · injection h with h; subst h
          simp only [measure, List.length_cons, List.length_append, List.length_nil, Nat.zero_add]
          rw [Nat.add_mul (t.length) 1, Nat.add_mul (b'.length) 1]
          omega
        · cases h
  | st :: st' :: rest, i + 1, d, p', h => by
    simp only [move, Option.map_eq_some_iff] at h
    obtain ⟨q, hq, rfl⟩ := h
    have h1 := move_measure (st' :: rest) i d q hq
    have h2 := move_length (st' :: rest) i d q hq
    obtain ⟨b, c⟩ := st
    cases q with
    | nil => simp at h2
    | cons q0 qr =>
      simp only [List.length_cons] at h2
      have e1 : measure ((b, c) :: q0 :: qr) = b.length * (qr.length + 1 + 1) + measure (q0 :: qr) := by
        simp [measure]
      have e2 : measure ((b, c) :: st' :: rest) = b.length * (rest.length + 1 + 1) + measure (st' :: rest) := by
        simp [measure]
      rw [e1, e2, show qr.length = rest.length by omega]
      omega

def capsPos (p : Pipe) : Bool := p.all (fun s => decide (0 < s.2))

/-- no deadlock: if an item is anywhere in the line, some stage can hand its oldest item on (without
dropping it) or the sink can consume -/
theorem pipe_progress : ∀ (p : Pipe), capsPos p = true → allEmpty p = false → ∃ i, (move p i false).isSome
  | [], _, h => by simp [allEmpty] at h
  | [(b, c)], _, h => by
    cases b with
    | nil => simp [allEmpty] at h
    | cons x t => exact ⟨0, by simp [move]⟩
  | (b, c) :: (b', c') :: rest, hc, h => by
    have hc' : capsPos ((b', c') :: rest) = true := by
      simp only [capsPos, List.all_cons, Bool.and_eq_true] at hc ⊢; exact hc.2
    by_cases hd : allEmpty ((b', c') :: rest) = true
    · -- everything downstream is empty, so the first buffer holds the item and the next one has room
      have hb' : b' = [] := by
        simp only [allEmpty, List.all_cons, Bool.and_eq_true, List.isEmpty_iff] at hd; exact hd.1
      have hbne : b ≠ [] := by
        intro e; subst e
        simp only [allEmpty, List.all_cons, List.isEmpty_nil, Bool.true_and] at h hd
        rw [hd] at h; cases h
      have hcpos : 0 < c' := by
        simp only [capsPos, List.all_cons, Bool.and_eq_true, decide_eq_true_eq] at hc; exact hc.2.1
      cases b with
      | nil => exact absurd rfl hbne
      | cons x t => exact ⟨0, by simp [move, hb', hcpos]⟩
    · obtain ⟨i, hi⟩ := pipe_progress ((b', c') :: rest) hc' (by simpa using hd)
      exact ⟨i + 1, by simp only [move]; cases hm : move ((b', c') :: rest) i false <;> simp_all⟩

/-! ### networks of bounded buffers -/

theorem getBuf_set_ne (s : NSt) (i j : Nat) (t : List Nat) (h : i ≠ j) : getBuf (s.set i t) j = getBuf s j := by
  simp [getBuf, List.getElem?_set_ne h]

theorem getBuf_set_self (s : NSt) (i : Nat) (t : List Nat) (h : i < s.length) : getBuf (s.set i t) i = t := by
  simp [getBuf, h]

theorem getBuf_ge (s : NSt) (i : Nat) (h : s.length ≤ i) : getBuf s i = [] := by
  simp [getBuf, List.getElem?_eq_none h]

/-- the most downstream non-empty node -/
theorem last_nonempty : ∀ (s : NSt), (∃ i, getBuf s i ≠ []) →
    ∃ i, getBuf s i ≠ [] ∧ ∀ j, i < j → getBuf s j = []
  | [], ⟨i, hi⟩ => by simp [getBuf] at hi
  | b :: rest, ⟨i, hi⟩ => by
    by_cases hr : ∃ k, getBuf rest k ≠ []
    · obtain ⟨k, hk, hlast⟩ := last_nonempty rest hr
      refine ⟨k + 1, by simpa [getBuf] using hk, ?_⟩
      intro j hj
      cases j with
      | zero => omega
      | succ j => have := hlast j (by omega); simpa [getBuf] using this
    · have hall : ∀ k, getBuf rest k = [] := fun k => Classical.byContradiction fun h => hr ⟨k, h⟩
      cases i with
      | zero =>
        refine ⟨0, hi, ?_⟩
        intro j hj
        cases j with
        | zero => omega
        | succ j => have := hall j; simpa [getBuf] using this
      | succ i => exact absurd (by simpa [getBuf] using hall i) hi

/-- replacing the buffer of node `i`: the measure changes by the length difference times the node's weight -/
theorem measureN_set : ∀ (s : NSt) (i : Nat) (t : List Nat), i < s.length →
    measureN (s.set i t) + (getBuf s i).length * (s.length - i) = measureN s + t.length * (s.length - i)
  | [], i, t, h => by simp at h
  | b :: rest, 0, t, _ => by
    simp only [List.set_cons_zero, measureN, getBuf, List.getElem?_cons_zero, Option.getD_some, List.length_cons,
      Nat.sub_zero]
    omega
  | b :: rest, i + 1, t, h => by
    have ih := measureN_set rest i t (by simpa using h)
    simp only [List.set_cons_succ, measureN, List.length_set, List.length_cons]
    have hg : getBuf (b :: rest) (i + 1) = getBuf rest i := by simp [getBuf]
    rw [hg]
    have : rest.length + 1 - (i + 1) = rest.length - i := by omega
    rw [this]
    omega

/-- **Progress in a network of bounded buffers.**  If every hand-over goes downstream and every buffer can hold an item,
then in every state with an item anywhere some node is enabled, and its move strictly decreases the measure. -/
theorem net_progress (net : Net) (s : NSt) (hwf : net.WF s.length) (hne : ∃ i, getBuf s i ≠ []) :
    ∃ i s', moveN net s i = some s' ∧ s'.length = s.length ∧ measureN s' < measureN s := by
  obtain ⟨i, hi, hlast⟩ := last_nonempty s hne
  have hil : i < s.length := by
    apply Classical.byContradiction
    intro h
    exact hi (getBuf_ge s i (by omega))
  cases hb : getBuf s i with
  | nil => exact absurd hb hi
  | cons x t =>
    have hm1 := measureN_set s i t hil
    rw [hb] at hm1
    simp only [List.length_cons] at hm1
    have hpos : 0 < s.length - i := by omega
    cases hr : net.route i x with
    | none =>
      refine ⟨i, s.set i t, by simp [moveN, hb, hr], by simp, ?_⟩
      have : (t.length + 1) * (s.length - i) = t.length * (s.length - i) + (s.length - i) := by
        rw [Nat.add_mul, Nat.one_mul]
      omega
    | some j =>
      obtain ⟨hij, hjn⟩ := hwf.1 i x j hr
      have hje : getBuf s j = [] := hlast j hij
      have hcap := hwf.2 j hjn
      refine ⟨i, (s.set i t).set j [x], ?_, by simp, ?_⟩
      · have hcap' : ¬ net.caps[j]?.getD 0 = 0 := by
          have : net.caps.getD j 0 = net.caps[j]?.getD 0 := by simp [List.getD]
          omega
        simp [moveN, hb, hr, hje, hcap']
      · have hm2 := measureN_set (s.set i t) j [x] (by simpa using hjn)
        rw [getBuf_set_ne s i j t (by omega), hje] at hm2
        simp only [List.length_nil, Nat.zero_mul, Nat.add_zero, List.length_set, List.length_cons, Nat.one_mul] at hm2
        have : (t.length + 1) * (s.length - i) = t.length * (s.length - i) + (s.length - i) := by
          rw [Nat.add_mul, Nat.one_mul]
        omega

theorem archiverNet_wf : archiverNet.WF 16 := by
  constructor
  · intro i x j h
    simp only [archiverNet] at h
    split at h
    · cases h; omega
    split at h
    · split at h <;> (cases h; omega)
    split at h
    · cases h; omega
    split at h
    · split at h
      · cases h; omega
      · cases h
    split at h
    · cases h
    split at h
    · split at h
      · cases h
      · cases h; omega
    · cases h
  · intro j hj
    have : ∀ k : Fin 16, 0 < archiverNet.caps.getD k.val 0 := by decide
    exact this ⟨j, hj⟩

end Rustic.Streamer
