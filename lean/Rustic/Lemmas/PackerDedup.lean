/-
C07: de-duplication inside one run survives everything the pipeline does afterwards — in particular the indexer's
intermediate index-file flushes (`Indexer::add_with`: `save(); reset()` at `MAX_COUNT` blobs / `MAX_AGE`): `reset` replaces
the index FILE and the counters and keeps `Indexer.indexed` (in the model the file flush is not even an event of `PSt`: the
files are `Store.Ixr`, Props.C01 (12); `PSt.indexed` only ever grows — `indexed_mono`).  Once a blob's pack has been indexed
and no further copy of it is on its way (`Settled`), no schedule stores it again (`settled_never_stored_again`).
-/
import Rustic.Lemmas.Packer
namespace Rustic.Archive
open Rustic.Tree

/-- the blob is in `Indexer.indexed` (typed set) and no copy of it is waiting for `add_raw` or sits in the open pack -/
def Settled (s : PSt) (t : BT) (id : Id) : Prop :=
  s.typed = true ∧ (t, id) ∈ s.indexed ∧ id ∉ (s.pk t).pending ∧ id ∉ (s.pk t).cur

/-- copies of the blob in pack files written or handed to the file writer -/
def copies (s : PSt) (t : BT) (id : Id) : Nat :=
  (keysOf s.packs).count (t, id) + (s.pk t).inflight.flatten.count id

theorem count_map_key (u t : BT) (id : Id) (pack : List Id) :
    (pack.map (fun i => (u, i))).count (t, id) = if u = t then pack.count id else 0 := by
  induction pack with
  | nil => simp
  | cons x xs ih =>
    simp only [List.map_cons, List.count_cons, ih]
    by_cases hu : u = t
    · subst hu; simp [Prod.mk.injEq]
    · simp [hu, Prod.mk.injEq]

theorem keysOf_snoc (packs : List (BT × List Id)) (u : BT) (pack : List Id) :
    keysOf (packs ++ [(u, pack)]) = keysOf packs ++ pack.map (fun i => (u, i)) := by
  simp [keysOf]

theorem indexerHas_of_settled {s : PSt} {t : BT} {id : Id} (h : Settled s t id) : s.indexerHas t id = true := by
  obtain ⟨ht, hi, _, _⟩ := h
  simp [PSt.indexerHas, ikey, ht, hi]

/-! ### every function the pipeline is made of keeps `Settled` and `copies` -/

theorem commit_fields (s : PSt) (u : BT) :
    (commitOne s u).indexed = s.indexed ∧ (commitOne s u).packs = s.packs ∧ (commitOne s u).typed = s.typed := by
  unfold commitOne
  cases hp : (s.pk u).pending with
  | nil => simp [hp]
  | cons x rest =>
    simp only [hp]
    split
    · simp
    · split <;> simp

theorem flush_fields (s : PSt) (u : BT) :
    (flushOne s u).indexed = s.indexed ∧ (flushOne s u).packs = s.packs ∧ (flushOne s u).typed = s.typed := by
  unfold flushOne
  simp only
  split <;> simp

/-- what `commitOne` does to the open pack: at most the oldest pending id is appended -/
theorem commit_cur (s : PSt) (t : BT) (id : Id) (h : id ∈ ((commitOne s t).pk t).cur) :
    id ∈ (s.pk t).cur ∨ id ∈ (s.pk t).pending := by
  unfold commitOne at h
  cases hp : (s.pk t).pending with
  | nil => simp [hp] at h; exact Or.inl h
  | cons x rest =>
    simp only [hp] at h
    split at h
    · simp at h; exact Or.inl h
    · split at h
      · simp at h; exact Or.inl h
      · simp only [pk_setPk, if_true, List.mem_append, List.mem_singleton] at h
        rcases h with h | h
        · exact Or.inl h
        · exact Or.inr (by rw [h]; exact List.mem_cons_self)

theorem settled_commit {s : PSt} {t : BT} {id : Id} (h : Settled s t id) (u : BT) :
    Settled (commitOne s u) t id ∧ copies (commitOne s u) t id = copies s t id := by
  obtain ⟨ht, hi, hp, hc⟩ := h
  obtain ⟨f1, f2, f3⟩ := commit_fields s u
  by_cases hu : t = u
  · subst hu
    obtain ⟨c1, c3, _⟩ := commit_self s t
    refine ⟨⟨by rw [f3]; exact ht, by rw [f1]; exact hi, ?_, ?_⟩, by simp only [copies, f2, c3]⟩
    · rw [c1]; exact fun hm => hp (List.mem_of_mem_tail hm)
    · intro hm
      rcases commit_cur s t id hm with h1 | h1
      · exact hc h1
      · exact hp h1
  · have ho := commit_other s (t := u) (t' := t) hu
    exact ⟨⟨by rw [f3]; exact ht, by rw [f1]; exact hi, by rw [ho]; exact hp, by rw [ho]; exact hc⟩,
      by simp only [copies, f2, ho]⟩

theorem flush_inflight (s : PSt) (t : BT) :
    ((flushOne s t).pk t).inflight = (s.pk t).inflight ∨
      ((flushOne s t).pk t).inflight = (s.pk t).inflight ++ [(s.pk t).cur] := by
  unfold flushOne
  simp only
  split
  · exact Or.inl rfl
  · exact Or.inr (by simp)

theorem settled_flush {s : PSt} {t : BT} {id : Id} (h : Settled s t id) (u : BT) :
    Settled (flushOne s u) t id ∧ copies (flushOne s u) t id = copies s t id := by
  obtain ⟨ht, hi, hp, hc⟩ := h
  obtain ⟨f1, f2, f3⟩ := flush_fields s u
  by_cases hu : t = u
  · subst hu
    obtain ⟨g1, g2, _⟩ := flush_self s t
    refine ⟨⟨by rw [f3]; exact ht, by rw [f1]; exact hi, by rw [g1]; exact hp, by rw [g2]; simp⟩, ?_⟩
    simp only [copies, f2]
    rcases flush_inflight s t with e | e
    · rw [e]
    · rw [e]; simp [List.count_eq_zero_of_not_mem hc]
  · have ho := flush_other s (t := u) (t' := t) hu
    exact ⟨⟨by rw [f3]; exact ht, by rw [f1]; exact hi, by rw [ho]; exact hp, by rw [ho]; exact hc⟩,
      by simp only [copies, f2, ho]⟩

theorem settled_write {s : PSt} {t : BT} {id : Id} (h : Settled s t id) (u : BT) :
    Settled (writeOne s u) t id ∧ copies (writeOne s u) t id = copies s t id := by
  obtain ⟨ht, hi, hp, hc⟩ := h
  unfold writeOne
  cases hin : (s.pk u).inflight with
  | nil => simp only [hin]; exact ⟨⟨ht, hi, hp, hc⟩, trivial⟩
  | cons pack rest =>
    simp only [hin]
    by_cases hu : t = u
    · subst hu
      refine ⟨⟨by simp [ht], by simpa using hi, by simpa using hp, by simpa using hc⟩, ?_⟩
      simp only [copies, setPk_packs, keysOf_snoc, List.count_append, count_map_key, if_true, pk_setPk, hin,
        List.flatten_cons]
      omega
    · have hne : ¬ u = t := fun e => hu e.symm
      refine ⟨⟨by simp [ht], by simpa using hi, by simpa [hu] using hp, by simpa [hu] using hc⟩, ?_⟩
      simp only [copies, setPk_packs, keysOf_snoc, List.count_append, count_map_key, hne, if_false, pk_setPk, hu,
        pk_withPacks, Nat.add_zero]

theorem settled_idx {s : PSt} {t : BT} {id : Id} (h : Settled s t id) (u : BT) :
    Settled (idxOne s u) t id ∧ copies (idxOne s u) t id = copies s t id := by
  obtain ⟨ht, hi, hp, hc⟩ := h
  unfold idxOne
  cases hin : (s.pk u).unindexed with
  | nil => simp only [hin]; exact ⟨⟨ht, hi, hp, hc⟩, trivial⟩
  | cons pack rest =>
    simp only [hin]
    by_cases hu : t = u
    · subst hu
      exact ⟨⟨by simp [ht], by simp [hi], by simpa using hp, by simpa using hc⟩, by simp [copies]⟩
    · exact ⟨⟨by simp [ht], by simp [hi], by simpa [hu] using hp, by simpa [hu] using hc⟩, by simp [copies, hu]⟩

theorem settled_enter {s : PSt} {t : BT} {id : Id} (h : Settled s t id) (u : BT) (x : Id) :
    Settled (step s (.enter u x)) t id ∧ copies (step s (.enter u x)) t id = copies s t id := by
  obtain ⟨ht, hi, hp, hc⟩ := h
  simp only [step]
  by_cases hhas : s.indexerHas u x = true
  · rw [if_pos hhas]; exact ⟨⟨ht, hi, hp, hc⟩, rfl⟩
  · rw [if_neg hhas]
    by_cases hcur : (s.pk u).cur.contains x = true
    · rw [if_pos hcur]; exact ⟨⟨ht, hi, hp, hc⟩, rfl⟩
    · rw [if_neg hcur]
      by_cases hu : t = u
      · subst hu
        have hx : x ≠ id := by
          intro e; subst e
          exact hhas (indexerHas_of_settled ⟨ht, hi, hp, hc⟩)
        refine ⟨⟨by simp [ht], by simpa using hi, ?_, by simpa using hc⟩, by simp [copies]⟩
        simp only [pk_setPk, if_true, List.mem_append, List.mem_singleton, not_or]
        exact ⟨hp, fun e => hx e.symm⟩
      · exact ⟨⟨by simp [ht], by simpa using hi, by simpa [hu] using hp, by simpa [hu] using hc⟩, by simp [copies, hu]⟩

theorem settled_step {s : PSt} {t : BT} {id : Id} (h : Settled s t id) (ev : Ev) :
    Settled (step s ev) t id ∧ copies (step s ev) t id = copies s t id := by
  cases ev with
  | commit u => exact settled_commit h u
  | flush u => exact settled_flush h u
  | write u => exact settled_write h u
  | idx u => exact settled_idx h u
  | enter u x => exact settled_enter h u x

theorem settled_runEvs : ∀ (evs : List Ev) {s : PSt} {t : BT} {id : Id}, Settled s t id →
    Settled (runEvs s evs) t id ∧ copies (runEvs s evs) t id = copies s t id
  | [], _, _, _, h => ⟨h, rfl⟩
  | ev :: evs, s, t, id, h => by
    obtain ⟨h1, c1⟩ := settled_step h ev
    obtain ⟨h2, c2⟩ := settled_runEvs evs h1
    exact ⟨h2, by rw [show runEvs s (ev :: evs) = runEvs (step s ev) evs from rfl, c2, c1]⟩

theorem settled_iter (f : PSt → PSt) {t : BT} {id : Id}
    (hf : ∀ s, Settled s t id → Settled (f s) t id ∧ copies (f s) t id = copies s t id) :
    ∀ (n : Nat) (s : PSt), Settled s t id → Settled (iter f n s) t id ∧ copies (iter f n s) t id = copies s t id
  | 0, _, h => ⟨h, rfl⟩
  | n + 1, s, h => by
    obtain ⟨h1, c1⟩ := hf s h
    obtain ⟨h2, c2⟩ := settled_iter f hf n (f s) h1
    exact ⟨h2, by rw [show iter f (n + 1) s = iter f n (f s) from rfl, c2, c1]⟩

theorem settled_finalizePk {s : PSt} {t : BT} {id : Id} (h : Settled s t id) (u : BT) :
    Settled (finalizePk s u) t id ∧ copies (finalizePk s u) t id = copies s t id := by
  unfold finalizePk
  obtain ⟨h1, c1⟩ := settled_iter (commitOne · u) (fun s hs => settled_commit hs u) (s.pk u).pending.length s h
  obtain ⟨h2, c2⟩ := settled_flush h1 u
  obtain ⟨h3, c3⟩ := settled_iter (writeOne · u) (fun s hs => settled_write hs u) _ _ h2
  obtain ⟨h4, c4⟩ := settled_iter (idxOne · u) (fun s hs => settled_idx hs u) _ _ h3
  exact ⟨h4, by rw [c4, c3, c2, c1]⟩

theorem settled_finalizeAll {s : PSt} {t : BT} {id : Id} (h : Settled s t id) :
    Settled (finalizeAll s) t id ∧ copies (finalizeAll s) t id = copies s t id := by
  unfold finalizeAll
  obtain ⟨h1, c1⟩ := settled_finalizePk h .data
  obtain ⟨h2, c2⟩ := settled_finalizePk h1 .tree
  exact ⟨h2, by rw [c2, c1]⟩

/-- `Indexer.indexed` only ever grows: no event of the pipeline (nor an index-file flush, which is not one) removes a key -/
theorem indexed_mono (s : PSt) (ev : Ev) (k : Key) (h : k ∈ s.indexed) : k ∈ (step s ev).indexed := by
  cases ev with
  | enter u x =>
    simp only [step]
    split
    · exact h
    · split
      · exact h
      · simpa using h
  | commit u => simp only [step]; rw [(commit_fields s u).1]; exact h
  | flush u => simp only [step]; rw [(flush_fields s u).1]; exact h
  | write u =>
    simp only [step, writeOne]
    cases (s.pk u).inflight with
    | nil => exact h
    | cons p r => simpa using h
  | idx u =>
    simp only [step, idxOne]
    cases (s.pk u).unindexed with
    | nil => exact h
    | cons p r => simp [h]

end Rustic.Archive
