/-
Lemmas about the *shape* of a prune plan (`PrunePlan::new`, `filter_index_files`, `check_existing_packs`) and about
`prune_repository` seen as storage operations — the bridge from `Rustic.Prune.execute` to the abstract repository
protocol `Rustic.Repo` (used by Props/C02 `RepackRebuilt` derivation, `stats_no_underflow`, `prune_preserves_readable`).
-/
import Rustic.Lemmas.Prune
import Rustic.Lemmas.Repo
namespace Rustic.Prune
open Rustic.Repo (BlobType Key)

/-! ### what `decide_packs` / `decide_repack` never touch -/

/-- the fields of a plan pack that planning never changes. -/
def PPack.core (p : PPack) : Nat × Nat × Nat × Bool × List Blob × Option Int × Nat :=
  (p.pos, p.index, p.id, p.mark, p.blobs, p.time, p.size)

theorem pass_core (typed : Bool) (kc : Consts) (o : Opts) (m : Bool) : ∀ (ps : List PPack) (c : Counts),
    (pass typed kc o m c ps).1.map PPack.core = ps.map PPack.core
  | [], c => by simp [pass]
  | p :: ps, c => by
    unfold pass
    by_cases hm : p.mark = m
    · subst hm
      simp only [if_true, List.map_cons, pass_core typed kc o p.mark ps]
      rfl
    · simp only [hm, if_false, List.map_cons, pass_core typed kc o m ps]

theorem decidePacks_core (typed : Bool) (kc : Consts) (o : Opts) (c : Counts) (ps : List PPack) :
    (decidePacks typed kc o c ps).1.map PPack.core = ps.map PPack.core := by
  unfold decidePacks
  rw [pass_core, pass_core]

theorem decideRepack_core (kc : Consts) (o : Opts) (ps : List PPack) :
    (decideRepack kc o ps).map PPack.core = ps.map PPack.core := by
  unfold decideRepack
  rw [List.map_map]
  apply List.map_congr_left
  intro p _
  simp only [Function.comp]
  split <;> rfl

/-- an accepted plan, taken apart. -/
theorem plan_shape {typed : Bool} {kc : Consts} {o : Opts} {files : List IndexFile} {used : List Key}
    {existing : List (Nat × Nat)} {d : Decided} (h : plan typed kc o files used existing = some d) :
    d.indexes = (newPlan kc files).indexes ∧
    d.packs.map PPack.core = (newPlan kc files).packs.map PPack.core ∧
    d.rebuild = filterIndexes kc o.instantDelete d.indexes d.packs ∧
    d.usedKeys = used.map (normKey typed) ∧
    ∃ c, checkExisting typed d.packs existing c = some (d.unreferenced, d.usedLeft) := by
  unfold plan at h
  simp only at h
  split at h
  · simp at h
  · split at h
    · simp at h
    · rename_i ex c hce
      simp only [Option.some.injEq] at h
      subst h
      refine ⟨rfl, ?_, rfl, rfl, _, hce⟩
      simp only
      rw [decideRepack_core, decidePacks_core]

theorem mem_of_core_eq {l l' : List PPack} (h : l.map PPack.core = l'.map PPack.core) {p : PPack} (hp : p ∈ l) :
    ∃ p' ∈ l', p'.core = p.core := by
  have : p.core ∈ l'.map PPack.core := by rw [← h]; exact List.mem_map_of_mem hp
  obtain ⟨p', hp', e⟩ := List.mem_map.mp this
  exact ⟨p', hp', e⟩

/-! ### `enumFrom`, `filter_index_files` -/

theorem mem_enumFrom {α} : ∀ (l : List α) (m n : Nat) (a : α),
    (n, a) ∈ enumFrom m l ↔ m ≤ n ∧ l[n - m]? = some a
  | [], m, n, a => by simp [enumFrom]
  | x :: l, m, n, a => by
    simp only [enumFrom, List.mem_cons, Prod.mk.injEq, mem_enumFrom l (m + 1) n a]
    constructor
    · rintro (⟨rfl, rfl⟩ | ⟨h1, h2⟩)
      · simp
      · refine ⟨by omega, ?_⟩
        have : n - m = (n - (m + 1)) + 1 := by omega
        rw [this, List.getElem?_cons_succ]; exact h2
    · rintro ⟨h1, h2⟩
      by_cases e : n = m
      · subst e
        simp only [Nat.sub_self, List.getElem?_cons_zero, Option.some.injEq] at h2
        exact Or.inl ⟨rfl, h2.symm⟩
      · right
        refine ⟨by omega, ?_⟩
        have : n - m = (n - (m + 1)) + 1 := by omega
        rw [this, List.getElem?_cons_succ] at h2; exact h2

/-- an index file that must be modified is rebuilt. -/
theorem mem_filterIndexes_of_mustModify (k : Consts) (instant : Bool) (ixs : List PIndex) (ps : List PPack)
    (n : Nat) (ix : PIndex) (hn : ixs[n]? = some ix) (hm : mustModify instant ix (indexPacks ps n) = true) :
    n ∈ filterIndexes k instant ixs ps := by
  have hmem : (n, ix) ∈ enumFrom 0 ixs := (mem_enumFrom ixs 0 n ix).mpr ⟨by omega, by simpa using hn⟩
  unfold filterIndexes
  simp only
  have hany : (enumFrom 0 ixs).any (fun x => mustModify instant x.2 (indexPacks ps x.1)) = true :=
    List.any_eq_true.mpr ⟨(n, ix), hmem, hm⟩
  rw [hany]
  simp only [Bool.not_true, Bool.false_and, Bool.false_eq_true, if_false]
  exact List.mem_map.mpr ⟨(n, ix), List.mem_filter.mpr ⟨hmem, by simp [hm]⟩, rfl⟩

theorem filterIndexes_lt (k : Consts) (instant : Bool) (ixs : List PIndex) (ps : List PPack) (n : Nat)
    (h : n ∈ filterIndexes k instant ixs ps) : ∃ ix, ixs[n]? = some ix := by
  unfold filterIndexes at h
  simp only at h
  split at h
  · simp at h
  · obtain ⟨x, hx, rfl⟩ := List.mem_map.mp h
    have := (mem_enumFrom ixs 0 x.1 x.2).mp (List.mem_filter.mp hx).1
    exact ⟨x.2, by simpa using this.2⟩

theorem eq_of_nodup_map {α β} (f : α → β) : ∀ (l : List α), (l.map f).Nodup →
    ∀ a ∈ l, ∀ b ∈ l, f a = f b → a = b
  | [], _, a, ha, _, _, _ => by simp at ha
  | x :: l, h, a, ha, b, hb, e => by
    simp only [List.map_cons, List.nodup_cons] at h
    rcases List.mem_cons.mp ha with ea | ha'
    · rcases List.mem_cons.mp hb with eb | hb'
      · rw [ea, eb]
      · exact absurd (by rw [← ea, e]; exact List.mem_map_of_mem hb') h.1
    · rcases List.mem_cons.mp hb with eb | hb'
      · exact absurd (by rw [← eb, ← e]; exact List.mem_map_of_mem ha') h.1
      · exact eq_of_nodup_map f l h.2 a ha' b hb' e

/-! ### `PrunePlan::new` -/

theorem dedup_spec : ∀ (seen : List Nat) (l : List IndexPack),
    (∀ q ∈ (dedup seen l).1, q ∈ l ∧ q.id ∉ seen) ∧
    ((dedup seen l).1.map (·.id)).Nodup ∧
    (∀ x, x ∈ (dedup seen l).2.1 ↔ x ∈ seen ∨ x ∈ (dedup seen l).1.map (·.id)) ∧
    (∀ q ∈ l, q.id ∈ (dedup seen l).2.1) ∧
    ((dedup seen l).2.2 = false → (dedup seen l).1 = l)
  | seen, [] => by simp [dedup]
  | seen, p :: ps => by
    unfold dedup
    by_cases hc : seen.contains p.id = true
    · have ih := dedup_spec seen ps
      simp only [hc, if_true]
      have hmem : p.id ∈ seen := by simpa using hc
      refine ⟨fun q hq => ⟨List.mem_cons_of_mem _ (ih.1 q hq).1, (ih.1 q hq).2⟩, ih.2.1, ih.2.2.1, ?_, by simp⟩
      intro q hq
      rcases List.mem_cons.mp hq with rfl | hq
      · exact (ih.2.2.1 _).mpr (Or.inl hmem)
      · exact ih.2.2.2.1 q hq
    · have ih := dedup_spec (p.id :: seen) ps
      simp only [hc, Bool.false_eq_true, if_false]
      have hmem : p.id ∉ seen := by simpa using hc
      refine ⟨?_, ?_, ?_, ?_, ?_⟩
      · intro q hq
        rcases List.mem_cons.mp hq with rfl | hq
        · exact ⟨List.mem_cons_self, hmem⟩
        · have := ih.1 q hq
          exact ⟨List.mem_cons_of_mem _ this.1, fun h => this.2 (List.mem_cons_of_mem _ h)⟩
      · simp only [List.map_cons, List.nodup_cons]
        refine ⟨?_, ih.2.1⟩
        intro h
        obtain ⟨q, hq, e⟩ := List.mem_map.mp h
        exact (ih.1 q hq).2 (by rw [e]; exact List.mem_cons_self)
      · intro x
        rw [ih.2.2.1 x]
        simp only [List.mem_cons, List.map_cons]
        constructor
        · rintro ((h | h) | h)
          · exact Or.inr (Or.inl h)
          · exact Or.inl h
          · exact Or.inr (Or.inr h)
        · rintro (h | h | h)
          · exact Or.inl (Or.inr h)
          · exact Or.inl (Or.inl h)
          · exact Or.inr h
      · intro q hq
        rcases List.mem_cons.mp hq with rfl | hq
        · exact (ih.2.2.1 _).mpr (Or.inl List.mem_cons_self)
        · exact ih.2.2.2.1 q hq
      · intro h
        rw [ih.2.2.2.2 h]

def pairPacks (L : List (PIndex × List PPack)) : List PPack := L.flatMap (·.2)

/-- two packs of the same section never share an id -/
def SameSectionDistinct (a b : PPack) : Prop := a.mark = b.mark → a.id ≠ b.id

theorem newPass1_spec (c : Consts) : ∀ (fs : List IndexFile) (n : Nat) (seen seenDel : List Nat),
    (newPass1 c n seen seenDel fs).1.map (·.1.id) = fs.map (·.id) ∧
    (∀ j x, (newPass1 c n seen seenDel fs).1[j]? = some x → ∃ f, fs[j]? = some f ∧
      (∀ p ∈ x.2, p.index = n + j ∧ ∃ q ∈ (if p.mark then f.del else f.packs), q.id = p.id ∧ q.blobs = p.blobs) ∧
      (x.1.modified = false → ∀ q ∈ f.packs, ∃ p ∈ x.2, p.mark = false ∧ p.id = q.id)) ∧
    (∀ p ∈ pairPacks (newPass1 c n seen seenDel fs).1,
      (p.mark = false → p.id ∉ seen) ∧ (p.mark = true → p.id ∉ seenDel)) ∧
    (pairPacks (newPass1 c n seen seenDel fs).1).Pairwise SameSectionDistinct ∧
    (∀ x, x ∈ (newPass1 c n seen seenDel fs).2 ↔
      x ∈ seen ∨ ∃ p ∈ pairPacks (newPass1 c n seen seenDel fs).1, p.mark = false ∧ p.id = x) ∧
    (∀ f ∈ fs, ∀ q ∈ f.packs, q.id ∈ (newPass1 c n seen seenDel fs).2)
  | [], n, seen, seenDel => by simp [newPass1, pairPacks]
  | f :: fs, n, seen, seenDel => by
    have du := dedup_spec seen f.packs
    have dd := dedup_spec seenDel f.del
    have ih := newPass1_spec c fs (n + 1) (dedup seen f.packs).2.1 (dedup seenDel f.del).2.1
    unfold newPass1
    simp only
    generalize hR : newPass1 c (n + 1) (dedup seen f.packs).2.1 (dedup seenDel f.del).2.1 fs = R at ih ⊢
    obtain ⟨i1, i2, i3, i4, i5, i6⟩ := ih
    -- membership in the packs of this index file
    have hhead : ∀ p, p ∈ (dedup seen f.packs).1.map (mkPack c n false) ++ (dedup seenDel f.del).1.map (mkPack c n true) ↔
        (∃ q ∈ (dedup seen f.packs).1, p = mkPack c n false q) ∨ (∃ q ∈ (dedup seenDel f.del).1, p = mkPack c n true q) := by
      intro p
      simp only [List.mem_append, List.mem_map]
      constructor
      · rintro (⟨q, hq, rfl⟩ | ⟨q, hq, rfl⟩)
        · exact Or.inl ⟨q, hq, rfl⟩
        · exact Or.inr ⟨q, hq, rfl⟩
      · rintro (⟨q, hq, rfl⟩ | ⟨q, hq, rfl⟩)
        · exact Or.inl ⟨q, hq, rfl⟩
        · exact Or.inr ⟨q, hq, rfl⟩
    have hpp : ∀ p, p ∈ pairPacks (({ id := f.id, modified := (dedup seen f.packs).2.2 || (dedup seenDel f.del).2.2 },
        (dedup seen f.packs).1.map (mkPack c n false) ++ (dedup seenDel f.del).1.map (mkPack c n true)) :: R.1) ↔
        ((∃ q ∈ (dedup seen f.packs).1, p = mkPack c n false q) ∨ (∃ q ∈ (dedup seenDel f.del).1, p = mkPack c n true q)) ∨
          p ∈ pairPacks R.1 := by
      intro p
      simp only [pairPacks, List.flatMap_cons, List.mem_append]
      rw [← List.mem_append, hhead p]
    refine ⟨?_, ?_, ?_, ?_, ?_, ?_⟩
    · simp only [List.map_cons, i1]
    · intro j x hx
      cases j with
      | zero =>
        simp only [List.getElem?_cons_zero, Option.some.injEq] at hx
        subst hx
        refine ⟨f, by simp, ?_, ?_⟩
        · intro p hp
          rcases (hhead p).mp hp with ⟨q, hq, rfl⟩ | ⟨q, hq, rfl⟩
          · exact ⟨rfl, q, (du.1 q hq).1, rfl, rfl⟩
          · exact ⟨rfl, q, (dd.1 q hq).1, rfl, rfl⟩
        · intro hm q hq
          simp only [Bool.or_eq_false_iff] at hm
          have := du.2.2.2.2 hm.1
          refine ⟨mkPack c n false q, (hhead _).mpr (Or.inl ⟨q, by rw [this]; exact hq, rfl⟩), rfl, rfl⟩
      | succ j =>
        simp only [List.getElem?_cons_succ] at hx
        obtain ⟨f', hf', h1, h2⟩ := i2 j x hx
        refine ⟨f', by simpa using hf', ?_, h2⟩
        intro p hp
        obtain ⟨e, rest⟩ := h1 p hp
        exact ⟨by omega, rest⟩
    · intro p hp
      rcases (hpp p).mp hp with (⟨q, hq, rfl⟩ | ⟨q, hq, rfl⟩) | hp
      · exact ⟨fun _ => (du.1 q hq).2, fun h => by simp [mkPack] at h⟩
      · exact ⟨fun h => by simp [mkPack] at h, fun _ => (dd.1 q hq).2⟩
      · have := i3 p hp
        refine ⟨fun h hs => this.1 h ((du.2.2.1 _).mpr (Or.inl hs)), fun h hs => this.2 h ((dd.2.2.1 _).mpr (Or.inl hs))⟩
    · simp only [pairPacks, List.flatMap_cons]
      rw [List.pairwise_append]
      refine ⟨?_, i4, ?_⟩
      · rw [List.pairwise_append]
        refine ⟨?_, ?_, ?_⟩
        · rw [List.pairwise_map]
          have := List.nodup_iff_pairwise_ne.mp du.2.1
          rw [List.pairwise_map] at this
          exact List.Pairwise.imp (S := fun a b => SameSectionDistinct (mkPack c n false a) (mkPack c n false b))
            (fun h _ => h) this
        · rw [List.pairwise_map]
          have := List.nodup_iff_pairwise_ne.mp dd.2.1
          rw [List.pairwise_map] at this
          exact List.Pairwise.imp (S := fun a b => SameSectionDistinct (mkPack c n true a) (mkPack c n true b))
            (fun h _ => h) this
        · intro a ha b hb hm
          obtain ⟨q, _, rfl⟩ := List.mem_map.mp ha
          obtain ⟨q', _, rfl⟩ := List.mem_map.mp hb
          simp [mkPack] at hm
      · intro a ha b hb hm
        have hb' := i3 b hb
        rcases (hhead a).mp ha with ⟨q, hq, rfl⟩ | ⟨q, hq, rfl⟩
        · have : b.mark = false := by rw [← hm]; rfl
          intro e
          exact hb'.1 this ((du.2.2.1 _).mpr (Or.inr (by rw [← e]; exact List.mem_map_of_mem hq)))
        · have : b.mark = true := by rw [← hm]; rfl
          intro e
          exact hb'.2 this ((dd.2.2.1 _).mpr (Or.inr (by rw [← e]; exact List.mem_map_of_mem hq)))
    · intro x
      rw [i5 x, du.2.2.1 x]
      constructor
      · rintro ((h | h) | ⟨p, hp, hm, e⟩)
        · exact Or.inl h
        · obtain ⟨q, hq, rfl⟩ := List.mem_map.mp h
          exact Or.inr ⟨mkPack c n false q, (hpp _).mpr (Or.inl (Or.inl ⟨q, hq, rfl⟩)), rfl, rfl⟩
        · exact Or.inr ⟨p, (hpp p).mpr (Or.inr hp), hm, e⟩
      · rintro (h | ⟨p, hp, hm, e⟩)
        · exact Or.inl (Or.inl h)
        · rcases (hpp p).mp hp with (⟨q, hq, rfl⟩ | ⟨q, hq, rfl⟩) | hp
          · exact Or.inl (Or.inr (by rw [← e]; exact List.mem_map_of_mem hq))
          · simp [mkPack] at hm
          · exact Or.inr ⟨p, hp, hm, e⟩
    · intro f' hf' q hq
      rcases List.mem_cons.mp hf' with rfl | hf'
      · exact (i5 _).mpr (Or.inl (du.2.2.2.1 q hq))
      · exact i6 f' hf' q hq

def PPack.core2 (p : PPack) : Nat × Nat × Bool × List Blob := (p.index, p.id, p.mark, p.blobs)

theorem renumber_core2 : ∀ (l : List PPack) (n : Nat), (renumber n l).map PPack.core2 = l.map PPack.core2
  | [], _ => rfl
  | p :: l, n => by
    simp only [renumber, List.map_cons, renumber_core2 l (n + 1)]
    rfl

theorem mem_of_core2_eq {l l' : List PPack} (h : l.map PPack.core2 = l'.map PPack.core2) {p : PPack} (hp : p ∈ l) :
    ∃ p' ∈ l', p'.index = p.index ∧ p'.id = p.id ∧ p'.mark = p.mark ∧ p'.blobs = p.blobs := by
  have : p.core2 ∈ l'.map PPack.core2 := by rw [← h]; exact List.mem_map_of_mem hp
  obtain ⟨p', hp', e⟩ := List.mem_map.mp this
  simp only [PPack.core2, Prod.mk.injEq] at e
  exact ⟨p', hp', e.1, e.2.1, e.2.2.1, e.2.2.2⟩

theorem ids_of_core2_eq {l l' : List PPack} (h : l.map PPack.core2 = l'.map PPack.core2) :
    l.map (·.id) = l'.map (·.id) := by
  have := congrArg (List.map (fun x : Nat × Nat × Bool × List Blob => x.2.1)) h
  rw [List.map_map, List.map_map] at this
  exact this

/-- What `PrunePlan::new` guarantees: (1) no two packs of the plan share an id (a pack listed twice, or listed as used
*and* marked, is kept once); (2) every pack of the plan is an entry — same id, same blobs — of the section it claims
of the index file at its `index`; (3) every pack listed unmarked somewhere is a pack of the plan; (4) index files keep
their ids and order; (5) an index file not flagged `modified` has all its unmarked entries in the plan. -/
theorem newPlan_spec (kc : Consts) (files : List IndexFile) :
    ((newPlan kc files).packs.map (·.id)).Nodup ∧
    (∀ p ∈ (newPlan kc files).packs, ∃ f, files[p.index]? = some f ∧
      ∃ q ∈ (if p.mark then f.del else f.packs), q.id = p.id ∧ q.blobs = p.blobs) ∧
    (∀ f ∈ files, ∀ q ∈ f.packs, ∃ p ∈ (newPlan kc files).packs, p.id = q.id) ∧
    (newPlan kc files).indexes.map (·.id) = files.map (·.id) ∧
    (∀ n f ix, files[n]? = some f → (newPlan kc files).indexes[n]? = some ix → ix.modified = false →
      ∀ q ∈ f.packs, ∃ p ∈ (newPlan kc files).packs, p.index = n ∧ p.mark = false ∧ p.id = q.id) := by
  obtain ⟨s1, s2, s3, s4, s5, s6⟩ := newPass1_spec kc files 0 [] []
  generalize hR : newPass1 kc 0 [] [] files = R at s1 s2 s3 s4 s5 s6
  let g : PPack → Bool := fun p => !p.mark || !R.2.contains p.id
  have hflat : (R.1.map (newPass2 R.2)).flatMap (·.2) = (pairPacks R.1).filter g := by
    rw [pairPacks, List.filter_flatMap, List.flatMap_map]
    rfl
  have hpacks : (newPlan kc files).packs.map PPack.core2 = ((pairPacks R.1).filter g).map PPack.core2 := by
    unfold newPlan
    simp only [hR]
    rw [renumber_core2, hflat]
  have hto : ∀ p ∈ (newPlan kc files).packs, ∃ p' ∈ pairPacks R.1, g p' = true ∧
      p'.index = p.index ∧ p'.id = p.id ∧ p'.mark = p.mark ∧ p'.blobs = p.blobs := by
    intro p hp
    obtain ⟨p', hp', e⟩ := mem_of_core2_eq hpacks hp
    exact ⟨p', (List.mem_filter.mp hp').1, (List.mem_filter.mp hp').2, e⟩
  have hfrom : ∀ p' ∈ pairPacks R.1, g p' = true → ∃ p ∈ (newPlan kc files).packs,
      p.index = p'.index ∧ p.id = p'.id ∧ p.mark = p'.mark ∧ p.blobs = p'.blobs := by
    intro p' hp' hg
    exact mem_of_core2_eq hpacks.symm (List.mem_filter.mpr ⟨hp', hg⟩)
  -- position of a pack of `pairPacks`
  have hpos : ∀ p' ∈ pairPacks R.1, ∃ (j : Nat) (x : PIndex × List PPack), R.1[j]? = some x ∧ p' ∈ x.2 := by
    intro p' hp'
    have hp'' : p' ∈ R.1.flatMap (fun (x : PIndex × List PPack) => x.2) := hp'
    obtain ⟨x, hx, hpx⟩ := List.mem_flatMap.mp hp''
    obtain ⟨j, hj, e⟩ := List.getElem_of_mem hx
    exact ⟨j, x, by rw [List.getElem?_eq_getElem hj, e], hpx⟩
  refine ⟨?_, ?_, ?_, ?_, ?_⟩
  · rw [ids_of_core2_eq hpacks]
    rw [List.nodup_iff_pairwise_ne, List.pairwise_map]
    have hp := (s4.filter g)
    refine List.Pairwise.imp_of_mem ?_ hp
    intro a b ha hb hab
    by_cases hm : a.mark = b.mark
    · exact hab hm
    · intro e
      have ga := (List.mem_filter.mp ha).2
      have gb := (List.mem_filter.mp hb).2
      have ma := (List.mem_filter.mp ha).1
      have mb := (List.mem_filter.mp hb).1
      simp only [g, Bool.or_eq_true, Bool.not_eq_eq_eq_not, Bool.not_true] at ga gb
      cases hma : a.mark with
      | false =>
        have hmb : b.mark = true := by cases hb' : b.mark <;> simp_all
        have : a.id ∈ R.2 := (s5 _).mpr (Or.inr ⟨a, ma, hma, rfl⟩)
        rcases gb with h | h
        · simp [hmb] at h
        · rw [← e] at h
          exact absurd this (by simpa using h)
      | true =>
        have hmb : b.mark = false := by cases hb' : b.mark <;> simp_all
        have : b.id ∈ R.2 := (s5 _).mpr (Or.inr ⟨b, mb, hmb, rfl⟩)
        rcases ga with h | h
        · simp [hma] at h
        · rw [e] at h
          exact absurd this (by simpa using h)
  · intro p hp
    obtain ⟨p', hp', _, ei, eid, em, eb⟩ := hto p hp
    obtain ⟨j, x, hx, hpx⟩ := hpos p' hp'
    obtain ⟨f, hf, h1, _⟩ := s2 j x hx
    obtain ⟨hidx, q, hq, hqid, hqb⟩ := h1 p' hpx
    refine ⟨f, by rw [← ei, hidx]; simpa using hf, q, by rw [← em]; exact hq, by rw [hqid, eid], by rw [hqb, eb]⟩
  · intro f hf q hq
    have := (s5 _).mp (s6 f hf q hq)
    rcases this with h | ⟨p', hp', hm, e⟩
    · simp at h
    · obtain ⟨p, hp, _, eid, _, _⟩ := hfrom p' hp' (by simp [g, hm])
      exact ⟨p, hp, by rw [eid, e]⟩
  · unfold newPlan
    simp only [hR, List.map_map]
    rw [← s1]
    apply List.map_congr_left
    intro x _
    rfl
  · intro n f ix hf hix hmod q hq
    unfold newPlan at hix
    simp only [hR, List.map_map, List.getElem?_map, Option.map_eq_some_iff] at hix
    obtain ⟨x, hx, rfl⟩ := hix
    obtain ⟨f', hf', h1, h2⟩ := s2 n x hx
    rw [hf] at hf'
    cases hf'
    have hxm : x.1.modified = false := by
      simp only [Function.comp, newPass2, Bool.or_eq_false_iff] at hmod
      exact hmod.1
    obtain ⟨p', hp', hm, e⟩ := h2 hxm q hq
    have hidx := (h1 p' hp').1
    have hmem : p' ∈ pairPacks R.1 := List.mem_flatMap.mpr ⟨x, List.mem_of_getElem? hx, hp'⟩
    obtain ⟨p, hp, ei, eid, em, _⟩ := hfrom p' hmem (by simp [g, hm])
    exact ⟨p, hp, by rw [ei, hidx]; omega, by rw [em, hm], by rw [eid, e]⟩

/-- The second pass of `PrunePlan::new` ("filter out normally indexed packs from packs_to_delete"): a pack that SOME index
file lists normally is a plan pack of the unmarked section — whatever marked entries for it exist in this or other index
files (e.g. written by a prune that saw the pack before its index file existed). -/
theorem newPlan_normal_entry_unmarked (kc : Consts) (files : List IndexFile) :
    ∀ f ∈ files, ∀ q ∈ f.packs, ∃ p ∈ (newPlan kc files).packs, p.id = q.id ∧ p.mark = false := by
  obtain ⟨_, _, _, _, s5, s6⟩ := newPass1_spec kc files 0 [] []
  generalize hR : newPass1 kc 0 [] [] files = R at s5 s6
  let g : PPack → Bool := fun p => !p.mark || !R.2.contains p.id
  have hflat : (R.1.map (newPass2 R.2)).flatMap (·.2) = (pairPacks R.1).filter g := by
    rw [pairPacks, List.filter_flatMap, List.flatMap_map]
    rfl
  have hpacks : (newPlan kc files).packs.map PPack.core2 = ((pairPacks R.1).filter g).map PPack.core2 := by
    unfold newPlan
    simp only [hR]
    rw [renumber_core2, hflat]
  intro f hf q hq
  rcases (s5 _).mp (s6 f hf q hq) with h | ⟨p', hp', hm, e⟩
  · simp at h
  · obtain ⟨p, hp, _, eid, em, _⟩ :=
      mem_of_core2_eq hpacks.symm (List.mem_filter.mpr ⟨hp', by simp [g, hm]⟩)
    exact ⟨p, hp, by rw [eid, e], by rw [em, hm]⟩

/-- position `p.index` of a plan pack is a valid position of the plan's index-file list. -/
theorem plan_index_valid {typed : Bool} {kc : Consts} {o : Opts} {files : List IndexFile} {used : List Key}
    {existing : List (Nat × Nat)} {d : Decided} (h : plan typed kc o files used existing = some d)
    {p : PPack} (hp : p ∈ d.packs) :
    ∃ f ix, files[p.index]? = some f ∧ d.indexes[p.index]? = some ix ∧ ix.id = f.id ∧
      ∃ q ∈ (if p.mark then f.del else f.packs), q.id = p.id ∧ q.blobs = p.blobs := by
  obtain ⟨hi, hc, _, _, _⟩ := plan_shape h
  obtain ⟨_, g2, _, g4, _⟩ := newPlan_spec kc files
  obtain ⟨p0, hp0, e⟩ := mem_of_core_eq hc hp
  simp only [PPack.core, Prod.mk.injEq] at e
  obtain ⟨f, hf, q, hq, hqid, hqb⟩ := g2 p0 hp0
  rw [e.2.1] at hf
  rw [e.2.2.2.1] at hq
  have hlen : p.index < files.length := by
    rcases Nat.lt_or_ge p.index files.length with h' | h'
    · exact h'
    · rw [List.getElem?_eq_none h'] at hf; cases hf
  have hlen2 : p.index < d.indexes.length := by
    have := congrArg List.length g4
    simp only [List.length_map] at this
    rw [hi, this]; exact hlen
  refine ⟨f, d.indexes[p.index], hf, List.getElem?_eq_getElem hlen2, ?_, q, hq, by rw [hqid, e.2.2.1], by rw [hqb, e.2.2.2.2.1]⟩
  have h1 : (d.indexes.map (·.id))[p.index]? = (files.map (·.id))[p.index]? := by rw [hi, g4]
  simp only [List.getElem?_map, hf, List.getElem?_eq_getElem hlen2, Option.map_some, Option.some.injEq] at h1
  exact h1

/-- **`filter_index_files` keeps every index file that lists a pack which does not simply stay**: if a pack's
decision is neither `Keep` nor (without instant-delete) `KeepMarked`, its index file is rebuilt.  In particular the
index file of every pack to repack / mark / recover / delete is rebuilt. -/
theorem rebuilt_of_not_kept {typed : Bool} {kc : Consts} {o : Opts} {files : List IndexFile} {used : List Key}
    {existing : List (Nat × Nat)} {d : Decided} (h : plan typed kc o files used existing = some d)
    {p : PPack} (hp : p ∈ d.packs) (hk : p.todo ≠ .keep) (hm : o.instantDelete = true ∨ p.todo ≠ .keepMarked) :
    d.rebuild.contains p.index = true := by
  obtain ⟨f, ix, _, hix, _, _⟩ := plan_index_valid h hp
  obtain ⟨_, _, hr, _, _⟩ := plan_shape h
  rw [hr]
  simp only [List.contains_iff_mem]
  apply mem_filterIndexes_of_mustModify kc _ _ _ _ ix hix
  unfold mustModify
  simp only [Bool.or_eq_true, List.any_eq_true]
  right
  refine ⟨p, List.mem_filter.mpr ⟨hp, by simp⟩, ?_⟩
  simp only [Bool.and_eq_true, bne_iff_ne, ne_eq, Bool.or_eq_true]
  exact ⟨hk, hm⟩

/-! ### statistics -/

theorem sumBy_foldl (f : PPack → Nat) : ∀ (l : List PPack) (a : Nat),
    l.foldl (fun a p => a + f p) a = a + sumBy f l
  | [], a => by simp [sumBy]
  | p :: l, a => by
    simp only [sumBy, List.foldl_cons, Nat.zero_add]
    rw [sumBy_foldl f l (a + f p), sumBy_foldl f l (f p)]
    simp only [sumBy]
    omega

theorem sumBy_cons (f : PPack → Nat) (p : PPack) (l : List PPack) : sumBy f (p :: l) = f p + sumBy f l := by
  simp only [sumBy, List.foldl_cons, Nat.zero_add]
  rw [sumBy_foldl f l (f p)]
  rfl

theorem sumBy_add_le (f g h : PPack → Nat) (hle : ∀ p, f p + g p ≤ h p) :
    ∀ l : List PPack, sumBy f l + sumBy g l ≤ sumBy h l
  | [] => by simp [sumBy]
  | p :: l => by
    rw [sumBy_cons, sumBy_cons, sumBy_cons]
    have := sumBy_add_le f g h hle l
    have := hle p
    omega

end Rustic.Prune
