import Rustic.Lemmas.ForgetProps
import Rustic.Lemmas.Calendar
/-
C09: `PeriodContiguous` derived from the calendar.  A snapshot whose civil fields are the ones jiff reads off its
`Zoned` (`Snap.CivilOk`: they equal `Civil.ofInstant time off`) has period keys that are functions of its local
wall-clock second; those functions are convex (`Lemmas/Calendar.lean`), so in a list ordered by local wall-clock
time equal keys are adjacent.  With one zone offset for all snapshots the order by instant (what `apply` sorts
by) is an order by local time.
-/
namespace Rustic.Forget
open Rustic.Calendar

/-- local wall-clock second of the snapshot time -/
def Snap.localSecs (s : Snap) : Int := Calendar.localSecs s.time s.off

/-- the civil fields are those of the snapshot's `Zoned` (as the driver and jiff compute them) -/
def Snap.CivilOk (s : Snap) : Prop :=
  s.year = (Civil.ofInstant s.time s.off).year ∧ s.month = (Civil.ofInstant s.time s.off).month ∧
  s.doy = (Civil.ofInstant s.time s.off).doy ∧ s.hour = (Civil.ofInstant s.time s.off).hour ∧
  s.minute = (Civil.ofInstant s.time s.off).minute ∧ s.isoYear = (Civil.ofInstant s.time s.off).isoYear ∧
  s.isoWeek = (Civil.ofInstant s.time s.off).isoWeek

/-- newest-first by local wall-clock time -/
def LocalSortedDesc (l : List Snap) : Prop :=
  ∀ (i j : Nat) (_ : i < j) (hj : j < l.length), (l[j]).localSecs ≤ (l[i]'(by omega)).localSecs

theorem periodContiguous_of_convex {κ : Type} (key : Snap → κ) (K : Int → κ) (hK : Convex K) (l : List Snap)
    (hkey : ∀ s ∈ l, key s = K s.localSecs) (hs : LocalSortedDesc l) : PeriodContiguous key l := by
  intro i j k hij hjk hk h
  have hi : i < l.length := by omega
  have hj : j < l.length := by omega
  rw [hkey _ (List.getElem_mem hi), hkey _ (List.getElem_mem hk)] at h
  rw [hkey _ (List.getElem_mem hj), hkey _ (List.getElem_mem hk)]
  have h1 := hs j k hjk hk
  have h2 := hs i j hij hj
  have := hK _ _ _ h1 h2 h.symm
  rw [this, h]

theorem isSortedDesc_pairwise : ∀ (l : List Snap), isSortedDesc l = true →
    ∀ (i j : Nat) (_ : i < j) (hj : j < l.length), (l[j]).time ≤ (l[i]'(by omega)).time
  | [], _, _, _, _, hj => by simp at hj
  | [_], _, i, j, hij, hj => by simp at hj; omega
  | a :: b :: t, h, i, j, hij, hj => by
    simp only [isSortedDesc, Bool.and_eq_true, decide_eq_true_eq] at h
    have ih := isSortedDesc_pairwise (b :: t) h.2
    cases j with
    | zero => omega
    | succ j =>
      cases i with
      | zero =>
        simp only [List.getElem_cons_succ, List.getElem_cons_zero]
        have hj' : j < (b :: t).length := by simpa using hj
        cases j with
        | zero => simpa using h.1
        | succ j =>
          have := ih 0 (j + 1) (by omega) hj'
          simp only [List.getElem_cons_zero] at this
          have h1 := h.1
          omega
      | succ i =>
        simp only [List.getElem_cons_succ]
        exact ih i j (by omega) (by simpa using hj)

/-- one zone offset: the order by instant is an order by local wall-clock time -/
theorem localSorted_of_fixed_offset (l : List Snap) (off : Int) (hoff : ∀ s ∈ l, s.off = off)
    (hs : isSortedDesc l = true) : LocalSortedDesc l := by
  intro i j hij hj
  have hi : i < l.length := by omega
  have := isSortedDesc_pairwise l hs i j hij hj
  unfold Snap.localSecs Calendar.localSecs
  rw [hoff _ (List.getElem_mem hj), hoff _ (List.getElem_mem hi)]
  have hn : nsPerSec = 1000000000 := rfl
  rw [hn]
  omega

/-! the eight keys as functions of the local second -/
theorem keyYear_civil (s : Snap) (h : s.CivilOk) : keyYear s = (Civil.ofLocalSecs s.localSecs).year := h.1
theorem keyHalfYear_civil (s : Snap) (h : s.CivilOk) :
    keyHalfYear s = ((Civil.ofLocalSecs s.localSecs).year, ((Civil.ofLocalSecs s.localSecs).month - 1) / 6) := by
  unfold keyHalfYear; rw [h.1, h.2.1]; rfl
theorem keyQuarterYear_civil (s : Snap) (h : s.CivilOk) :
    keyQuarterYear s = ((Civil.ofLocalSecs s.localSecs).year, ((Civil.ofLocalSecs s.localSecs).month - 1) / 3) := by
  unfold keyQuarterYear; rw [h.1, h.2.1]; rfl
theorem keyMonth_civil (s : Snap) (h : s.CivilOk) :
    keyMonth s = ((Civil.ofLocalSecs s.localSecs).year, (Civil.ofLocalSecs s.localSecs).month) := by
  unfold keyMonth; rw [h.1, h.2.1]; rfl
theorem keyWeek_civil (s : Snap) (h : s.CivilOk) :
    keyWeek s = ((Civil.ofLocalSecs s.localSecs).isoYear, (Civil.ofLocalSecs s.localSecs).isoWeek) := by
  unfold keyWeek; rw [h.2.2.2.2.2.1, h.2.2.2.2.2.2]; rfl
theorem keyDay_civil (s : Snap) (h : s.CivilOk) :
    keyDay s = ((Civil.ofLocalSecs s.localSecs).year, (Civil.ofLocalSecs s.localSecs).doy) := by
  unfold keyDay; rw [h.1, h.2.2.1]; rfl
theorem keyHour_civil (s : Snap) (h : s.CivilOk) :
    keyHour s = ((Civil.ofLocalSecs s.localSecs).year, (Civil.ofLocalSecs s.localSecs).doy,
      (Civil.ofLocalSecs s.localSecs).hour) := by
  unfold keyHour; rw [h.1, h.2.2.1, h.2.2.2.1]; rfl
theorem keyMinute_civil (s : Snap) (h : s.CivilOk) :
    keyMinute s = ((Civil.ofLocalSecs s.localSecs).year, (Civil.ofLocalSecs s.localSecs).doy,
      (Civil.ofLocalSecs s.localSecs).hour, (Civil.ofLocalSecs s.localSecs).minute) := by
  unfold keyMinute; rw [h.1, h.2.2.1, h.2.2.2.1, h.2.2.2.2.1]; rfl

/-- **Equal period keys are adjacent** in every list ordered newest-first by local wall-clock time, for each
of the eight period rules. -/
theorem periodContiguous_all (l : List Snap) (hc : ∀ s ∈ l, s.CivilOk) (hs : LocalSortedDesc l) :
    PeriodContiguous keyYear l ∧ PeriodContiguous keyHalfYear l ∧ PeriodContiguous keyQuarterYear l ∧
    PeriodContiguous keyMonth l ∧ PeriodContiguous keyWeek l ∧ PeriodContiguous keyDay l ∧
    PeriodContiguous keyHour l ∧ PeriodContiguous keyMinute l :=
  ⟨periodContiguous_of_convex _ _ convex_year l (fun s hm => keyYear_civil s (hc s hm)) hs,
   periodContiguous_of_convex _ _ convex_half l (fun s hm => keyHalfYear_civil s (hc s hm)) hs,
   periodContiguous_of_convex _ _ convex_quarter l (fun s hm => keyQuarterYear_civil s (hc s hm)) hs,
   periodContiguous_of_convex _ _ convex_month l (fun s hm => keyMonth_civil s (hc s hm)) hs,
   periodContiguous_of_convex _ _ convex_week l (fun s hm => keyWeek_civil s (hc s hm)) hs,
   periodContiguous_of_convex _ _ convex_day l (fun s hm => keyDay_civil s (hc s hm)) hs,
   periodContiguous_of_convex _ _ convex_hour l (fun s hm => keyHour_civil s (hc s hm)) hs,
   periodContiguous_of_convex _ _ convex_minute l (fun s hm => keyMinute_civil s (hc s hm)) hs⟩

/-! ### runs of equal keys = distinct keys, when equal keys are adjacent -/

/-- number of first occurrences in `ks` of keys not in `seen`: with `seen = []` the number of distinct keys -/
def countNew {κ : Type} [DecidableEq κ] : List κ → List κ → Nat
  | _, [] => 0
  | seen, a :: t => (if a ∈ seen then 0 else 1) + countNew (seen ++ [a]) t

/-- the number of distinct period keys of a list of snapshots -/
def distinctPeriods {κ : Type} [DecidableEq κ] (key : Snap → κ) (l : List Snap) : Nat := countNew [] (l.map key)

def prevKey {κ : Type} (key : Snap → κ) (m : List Snap) (i : Nat) : Option κ :=
  if i = 0 then none else (m[i - 1]?).map key

theorem prev_iff_seen {κ : Type} [DecidableEq κ] (key : Snap → κ) (m : List Snap) (hc : PeriodContiguous key m)
    (i : Nat) (hi : i < m.length) :
    prevKey key m i = some (key m[i]) ↔ key m[i] ∈ (m.take i).map key := by
  constructor
  · intro h
    unfold prevKey at h
    split at h
    · cases h
    · rename_i h0
      have hlt : i - 1 < m.length := by omega
      rw [List.getElem?_eq_getElem hlt] at h
      simp only [Option.map_some, Option.some.injEq] at h
      rw [← h]
      apply List.mem_map_of_mem
      rw [List.mem_take_iff_getElem]
      exact ⟨i - 1, by omega, rfl⟩
  · intro h
    obtain ⟨s, hs, hk⟩ := List.mem_map.1 h
    rw [List.mem_take_iff_getElem] at hs
    obtain ⟨j, hj, rfl⟩ := hs
    have hji : j < i := by omega
    unfold prevKey
    have h0 : ¬ i = 0 := by omega
    simp only [h0, if_false]
    have hlt : i - 1 < m.length := by omega
    rw [List.getElem?_eq_getElem hlt]
    simp only [Option.map_some, Option.some.injEq]
    by_cases hj1 : j = i - 1
    · subst hj1; exact hk
    · have := hc j (i - 1) i (by omega) (by omega) hi hk
      exact this

theorem runs_eq_countNew_aux {κ : Type} [DecidableEq κ] (key : Snap → κ) (m : List Snap)
    (hc : PeriodContiguous key m) : ∀ (n i : Nat), i + n = m.length →
      runsFrom key (prevKey key m i) (m.drop i) = countNew ((m.take i).map key) ((m.drop i).map key) := by
  intro n
  induction n with
  | zero =>
    intro i hi
    have : m.drop i = [] := List.drop_eq_nil_of_le (by omega)
    simp [this, runsFrom, countNew]
  | succ n ih =>
    intro i hi
    have hlt : i < m.length := by omega
    rw [List.drop_eq_getElem_cons hlt]
    simp only [runsFrom, List.map_cons, countNew]
    have hp : prevKey key m (i + 1) = some (key m[i]) := by
      unfold prevKey
      simp [List.getElem?_eq_getElem hlt]
    have ht : (m.take (i + 1)).map key = (m.take i).map key ++ [key m[i]] := by
      rw [List.take_add_one, List.getElem?_eq_getElem hlt, List.map_append]; rfl
    have := ih (i + 1) (by omega)
    rw [hp, ht] at this
    rw [this]
    congr 1
    by_cases h : prevKey key m i = some (key m[i])
    · have := (prev_iff_seen key m hc i hlt).1 h
      rw [if_pos h, if_pos this]
    · have : ¬ key m[i] ∈ (m.take i).map key := fun hm => h ((prev_iff_seen key m hc i hlt).2 hm)
      rw [if_neg h, if_neg this]

/-- when equal keys are adjacent the number of runs is the number of distinct keys -/
theorem runs_eq_distinct {κ : Type} [DecidableEq κ] (key : Snap → κ) (m : List Snap)
    (hc : PeriodContiguous key m) : runsFrom key none m = distinctPeriods key m := by
  have := runs_eq_countNew_aux key m hc m.length 0 (by omega)
  simpa [prevKey, distinctPeriods] using this

theorem periodContiguous_take {κ : Type} (key : Snap → κ) (l : List Snap) (hc : PeriodContiguous key l) (n : Nat) :
    PeriodContiguous key (l.take n) := by
  intro i j k hij hjk hk h
  have hk' : k < l.length := by
    have := List.length_take_le' n l; omega
  simp only [List.getElem_take] at h ⊢
  exact hc i j k hij hjk hk' h

theorem ofInstant_civilOk (t off : Int) (id : String) (tree : Nat) (tags : List String) (del : DeleteOpt) :
    (Snap.ofInstant t off id tree tags del).CivilOk :=
  ⟨rfl, rfl, rfl, rfl, rfl, rfl, rfl⟩

/-- "an X-head that is not the oldest snapshot is the newest snapshot of its X-period" at position `i` -/
def HeadIsNewest {κ : Type} (key : Snap → κ) (eq : Snap → Snap → Bool) (l : List Snap) (i : Nat)
    (hlast : i + 1 < l.length) : Prop :=
  headOf eq ((ctxFrom none l)[i]'(by rw [ctxFrom_length]; omega)) = true
    ↔ ∀ (j : Nat) (hj : j < i), key (l[j]'(by omega)) ≠ key (l[i]'(by omega))

end Rustic.Forget
