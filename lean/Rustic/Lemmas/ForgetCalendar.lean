import Rustic.Lemmas.ForgetProps
import Rustic.Lemmas.Calendar
/-
C09: `PeriodContiguous` derived from the calendar.  A snapshot whose civil fields are the ones jiff reads off its
`Zoned` (`Snap.CivilOk`: they equal `Civil.ofInstant time off`) has period keys that are functions of its local
wall-clock second; those functions are convex (`Lemmas/Calendar.lean`), so in a list ordered by local wall-clock
time equal keys are adjacent.  With one zone offset for all snapshots the order by instant (what `apply` sorts
by) is an order by local time.
-/
namespace Rustic.Forget
open Rustic.Calendar

/-- local wall-clock second of the snapshot time -/
def Snap.localSecs (s : Snap) : Int := Calendar.localSecs s.time s.off

/-- the civil fields are those of the snapshot's `Zoned` (as the driver and jiff compute them) -/
def Snap.CivilOk (s : Snap) : Prop :=
  s.year = (Civil.ofInstant s.time s.off).year ∧ s.month = (Civil.ofInstant s.time s.off).month ∧
  s.doy = (Civil.ofInstant s.time s.off).doy ∧ s.hour = (Civil.ofInstant s.time s.off).hour ∧
  s.minute = (Civil.ofInstant s.time s.off).minute ∧ s.isoYear = (Civil.ofInstant s.time s.off).isoYear ∧
  s.isoWeek = (Civil.ofInstant s.time s.off).isoWeek

/-- newest-first by local wall-clock time -/
def LocalSortedDesc (l : List Snap) : Prop :=
  ∀ (i j : Nat) (_ : i < j) (hj : j < l.length), (l[j]).localSecs ≤ (l[i]'(by omega)).localSecs

theorem periodContiguous_of_convex {κ : Type} (key : Snap → κ) (K : Int → κ) (hK : Convex K) (l : List Snap)
    (hkey : ∀ s ∈ l, key s = K s.localSecs) (hs : LocalSortedDesc l) : PeriodContiguous key l := by
  intro i j k hij hjk hk h
  have hi : i < l.length := by omega
  have hj : j < l.length := by omega
  rw [hkey _ (List.getElem_mem hi), hkey _ (List.getElem_mem hk)] at h
  rw [hkey _ (List.getElem_mem hj), hkey _ (List.getElem_mem hk)]
  have h1 := hs j k hjk hk
  have h2 := hs i j hij hj
  have := hK _ _ _ h1 h2 h.symm
  rw [this, h]

theorem isSortedDesc_pairwise : ∀ (l : List Snap), isSortedDesc l = true →
    ∀ (i j : Nat) (_ : i < j) (hj : j < l.length), (l[j]).time ≤ (l[i]'(by omega)).time
  | [], _, _, _, _, hj => by simp at hj
  | [_], _, i, j, hij, hj => by simp at hj; omega
  | a :: b :: t, h, i, j, hij, hj => by
    simp only [isSortedDesc, Bool.and_eq_true, decide_eq_true_eq] at h
    have ih := isSortedDesc_pairwise (b :: t) h.2
    cases j with
    | zero => omega
    | succ j =>
      cases i with
      | zero =>
        simp only [List.getElem_cons_succ, List.getElem_cons_zero]
        have hj' : j < (b :: t).length := by simpa using hj
        cases j with
        | zero => simpa using h.1
        | succ j =>
          have := ih 0 (j + 1) (by omega) hj'
          simp only [List.getElem_cons_zero] at this
          have h1 := h.1
          omega
      | succ i =>
        simp only [List.getElem_cons_succ]
        exact ih i j (by omega) (by simpa using hj)

/-- one zone offset: the order by instant is an order by local wall-clock time -/
theorem localSorted_of_fixed_offset (l : List Snap) (off : Int) (hoff : ∀ s ∈ l, s.off = off)
    (hs : isSortedDesc l = true) : LocalSortedDesc l := by
  intro i j hij hj
  have hi : i < l.length := by omega
  have := isSortedDesc_pairwise l hs i j hij hj
  unfold Snap.localSecs Calendar.localSecs
  rw [hoff _ (List.getElem_mem hj), hoff _ (List.getElem_mem hi)]
  have hn : nsPerSec = 1000000000 := rfl
  rw [hn]
  omega

/-! the eight keys as functions of the local second -/
theorem keyYear_civil (s : Snap) (h : s.CivilOk) : keyYear s = (Civil.ofLocalSecs s.localSecs).year := h.1
theorem keyHalfYear_civil (s : Snap) (h : s.CivilOk) :
    keyHalfYear s = ((Civil.ofLocalSecs s.localSecs).year, ((Civil.ofLocalSecs s.localSecs).month - 1) / 6) := by
  unfold keyHalfYear; rw [h.1, h.2.1]; rfl
theorem keyQuarterYear_civil (s : Snap) (h : s.CivilOk) :
    keyQuarterYear s = ((Civil.ofLocalSecs s.localSecs).year, ((Civil.ofLocalSecs s.localSecs).month - 1) / 3) := by
  unfold keyQuarterYear; rw [h.1, h.2.1]; rfl
theorem keyMonth_civil (s : Snap) (h : s.CivilOk) :
    keyMonth s = ((Civil.ofLocalSecs s.localSecs).year, (Civil.ofLocalSecs s.localSecs).month) := by
  unfold keyMonth; rw [h.1, h.2.1]; rfl
theorem keyWeek_civil (s : Snap) (h : s.CivilOk) :
    keyWeek s = ((Civil.ofLocalSecs s.localSecs).isoYear, (Civil.ofLocalSecs s.localSecs).isoWeek) := by
  unfold keyWeek; rw [h.2.2.2.2.2.1, h.2.2.2.2.2.2]; rfl
theorem keyDay_civil (s : Snap) (h : s.CivilOk) :
    keyDay s = ((Civil.ofLocalSecs s.localSecs).year, (Civil.ofLocalSecs s.localSecs).doy) := by
  unfold keyDay; rw [h.1, h.2.2.1]; rfl
theorem keyHour_civil (s : Snap) (h : s.CivilOk) :
    keyHour s = ((Civil.ofLocalSecs s.localSecs).year, (Civil.ofLocalSecs s.localSecs).doy,
      (Civil.ofLocalSecs s.localSecs).hour) := by
  unfold keyHour; rw [h.1, h.2.2.1, h.2.2.2.1]; rfl
theorem keyMinute_civil (s : Snap) (h : s.CivilOk) :
    keyMinute s = ((Civil.ofLocalSecs s.localSecs).year, (Civil.ofLocalSecs s.localSecs).doy,
      (Civil.ofLocalSecs s.localSecs).hour, (Civil.ofLocalSecs s.localSecs).minute) := by
  unfold keyMinute; rw [h.1, h.2.2.1, h.2.2.2.1, h.2.2.2.2.1]; rfl

/-- **Equal period keys are adjacent** in every list ordered newest-first by local wall-clock time, for each
of the eight period rules. -/
theorem periodContiguous_all (l : List Snap) (hc : ∀ s ∈ l, s.CivilOk) (hs : LocalSortedDesc l) :
    PeriodContiguous keyYear l ∧ PeriodContiguous keyHalfYear l ∧ PeriodContiguous keyQuarterYear l ∧
    PeriodContiguous keyMonth l ∧ PeriodContiguous keyWeek l ∧ PeriodContiguous keyDay l ∧
    PeriodContiguous keyHour l ∧ PeriodContiguous keyMinute l :=
  ⟨periodContiguous_of_convex _ _ convex_year l (fun s hm => keyYear_civil s (hc s hm)) hs,
   periodContiguous_of_convex _ _ convex_half l (fun s hm => keyHalfYear_civil s (hc s hm)) hs,
   periodContiguous_of_convex _ _ convex_quarter l (fun s hm => keyQuarterYear_civil s (hc s hm)) hs,
   periodContiguous_of_convex _ _ convex_month l (fun s hm => keyMonth_civil s (hc s hm)) hs,
   periodContiguous_of_convex _ _ convex_week l (fun s hm => keyWeek_civil s (hc s hm)) hs,
   periodContiguous_of_convex _ _ convex_day l (fun s hm => keyDay_civil s (hc s hm)) hs,
   periodContiguous_of_convex _ _ convex_hour l (fun s hm => keyHour_civil s (hc s hm)) hs,
   periodContiguous_of_convex _ _ convex_minute l (fun s hm => keyMinute_civil s (hc s hm)) hs⟩

theorem ofInstant_civilOk (t off : Int) (id : String) (tree : Nat) (tags : List String) (del : DeleteOpt) :
    (Snap.ofInstant t off id tree tags del).CivilOk :=
  ⟨rfl, rfl, rfl, rfl, rfl, rfl, rfl⟩

/-- "an X-head that is not the oldest snapshot is the newest snapshot of its X-period" at position `i` -/
def HeadIsNewest {κ : Type} (key : Snap → κ) (eq : Snap → Snap → Bool) (l : List Snap) (i : Nat)
    (hlast : i + 1 < l.length) : Prop :=
  headOf eq ((ctxFrom none l)[i]'(by rw [ctxFrom_length]; omega)) = true
    ↔ ∀ (j : Nat) (hj : j < i), key (l[j]'(by omega)) ≠ key (l[i]'(by omega))

end Rustic.Forget
