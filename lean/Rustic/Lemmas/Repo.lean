/-
Lemmas about the abstract repository protocol `Rustic.Repo` (Model/Repo.lean): what each storage operation
preserves, and the step-wise safety engine used by the per-command protocol theorems of C03 / C02 / C10.
-/
import Rustic.Model.Repo
namespace Rustic.Repo

theorem stored_iff (r : Repo) (pid : Nat) (k : Key) :
    stored r pid k = true ↔ ∃ q ∈ r.packs, q.id = pid ∧ k ∈ q.blobs := by
  simp [stored, List.any_eq_true]

theorem indexed_iff (r : Repo) (k : Key) :
    indexed r k = true ↔ ∃ i ∈ r.indexes, ∃ p ∈ i.packs, k ∈ p.blobs := by
  simp [indexed, List.any_eq_true]

theorem indexSound_iff (r : Repo) :
    indexSound r = true ↔ ∀ i ∈ r.indexes, ∀ p ∈ i.packs, ∀ k ∈ p.blobs, stored r p.id k = true := by
  simp [indexSound, idxPackSound, List.all_eq_true]

theorem readable_iff (r : Repo) (s : Snap) : readable r s = true ↔ ∀ k ∈ s.needs, indexed r k = true := by
  simp [readable, List.all_eq_true]

theorem consistent_iff (r : Repo) :
    consistent r = true ↔ indexSound r = true ∧ ∀ s ∈ r.snaps, readable r s = true := by
  simp [consistent, List.all_eq_true]

/-- `stored` only depends on the pack files. -/
theorem stored_congr (r' r : Repo) (h : r'.packs = r.packs) (pid : Nat) (k : Key) : stored r' pid k = stored r pid k := by
  simp only [stored, h]

theorem indexed_congr (r' r : Repo) (h : r'.indexes = r.indexes) (k : Key) : indexed r' k = indexed r k := by
  simp only [indexed, h]

theorem readable_congr (r' r : Repo) (h : r'.indexes = r.indexes) (s : Snap) : readable r' s = readable r s := by
  have : indexed r' = indexed r := funext (indexed_congr r' r h)
  simp only [readable, this]

theorem indexSound_congr (r' r : Repo) (hp : r'.packs = r.packs) (hi : r'.indexes = r.indexes) :
    indexSound r' = indexSound r := by
  have : idxPackSound r' = idxPackSound r := by
    funext p; simp only [idxPackSound, stored, hp]
  simp only [indexSound, this, hi]

/-! ### single operations -/

theorem stored_writePack (r : Repo) (p : Pack) (pid : Nat) (k : Key) (h : stored r pid k = true) :
    stored (apply r (.writePack p)) pid k = true := by
  rw [stored_iff] at h ⊢
  obtain ⟨q, hq, h⟩ := h
  exact ⟨q, List.mem_cons_of_mem _ hq, h⟩

/-- (op lemma) writing a pack file never breaks anything. -/
theorem writePack_preserves (r : Repo) (p : Pack) (h : consistent r = true) :
    consistent (apply r (.writePack p)) = true := by
  rw [consistent_iff] at h ⊢
  constructor
  · rw [indexSound_iff] at h ⊢
    intro i hi q hq k hk
    exact stored_writePack r p q.id k (h.1 i hi q hq k hk)
  · intro s hs
    rw [readable_congr (apply r (.writePack p)) r rfl]; exact h.2 s hs

/-- (op lemma) writing an index file preserves consistency iff its unmarked entries point into stored packs —
the packer adds a pack to the indexer only after the pack file has been written. -/
theorem writeIndex_preserves (r : Repo) (i : IndexFile) (h : consistent r = true)
    (hs : i.packs.all (idxPackSound r) = true) : consistent (apply r (.writeIndex i)) = true := by
  rw [consistent_iff] at h ⊢
  constructor
  · rw [indexSound_iff] at h ⊢
    intro j hj q hq k hk
    rw [stored_congr (apply r (.writeIndex i)) r rfl]
    simp only [apply, List.mem_cons] at hj
    rcases hj with rfl | hj
    · simp only [List.all_eq_true, idxPackSound] at hs
      exact hs q hq k hk
    · exact h.1 j hj q hq k hk
  · intro s hs'
    have := h.2 s hs'
    rw [readable_iff] at this ⊢
    intro k hk
    have := this k hk
    rw [indexed_iff] at this ⊢
    obtain ⟨j, hj, x⟩ := this
    exact ⟨j, List.mem_cons_of_mem _ hj, x⟩

theorem writeIndex_needs_sound (r : Repo) (i : IndexFile) (h : consistent (apply r (.writeIndex i)) = true) :
    i.packs.all (idxPackSound r) = true := by
  rw [consistent_iff, indexSound_iff] at h
  simp only [List.all_eq_true, idxPackSound]
  intro q hq k hk
  have := h.1 i (by simp [apply]) q hq k hk
  rwa [stored_congr (apply r (.writeIndex i)) r rfl] at this

/-- (op lemma) writing a snapshot file preserves consistency **iff** its closure is indexed. -/
theorem writeSnap_iff (r : Repo) (s : Snap) (h : consistent r = true) :
    consistent (apply r (.writeSnap s)) = true ↔ readable r s = true := by
  rw [consistent_iff] at h
  rw [consistent_iff]
  have e1 : indexSound (apply r (.writeSnap s)) = indexSound r := indexSound_congr _ _ rfl rfl
  have e2 : ∀ t, readable (apply r (.writeSnap s)) t = readable r t := fun t => readable_congr _ _ rfl t
  constructor
  · intro h'
    have := h'.2 s (by simp [apply])
    rwa [e2] at this
  · intro hr
    refine ⟨by rw [e1]; exact h.1, ?_⟩
    intro t ht
    rw [e2]
    simp only [apply, List.mem_cons] at ht
    rcases ht with rfl | ht
    · exact hr
    · exact h.2 t ht

theorem removeSnap_preserves (r : Repo) (id : Nat) (h : consistent r = true) :
    consistent (apply r (.removeSnap id)) = true := by
  rw [consistent_iff] at h ⊢
  have e1 : indexSound (apply r (.removeSnap id)) = indexSound r := indexSound_congr _ _ rfl rfl
  refine ⟨by rw [e1]; exact h.1, ?_⟩
  intro t ht
  rw [readable_congr (apply r (.removeSnap id)) r rfl]
  simp only [apply, List.mem_filter] at ht
  exact h.2 t ht.1

theorem other_preserves (r : Repo) (h : consistent r = true) : consistent (apply r .other) = true := h

/-- (op lemma) removing an index file preserves consistency under the coverage premise. -/
theorem removeIndex_preserves (r : Repo) (id : Nat) (h : consistent r = true)
    (hc : r.snaps.all (readable (apply r (.removeIndex id))) = true) :
    consistent (apply r (.removeIndex id)) = true := by
  rw [consistent_iff] at h ⊢
  constructor
  · rw [indexSound_iff] at h ⊢
    intro j hj q hq k hk
    rw [stored_congr (apply r (.removeIndex id)) r rfl]
    simp only [apply, List.mem_filter] at hj
    exact h.1 j hj.1 q hq k hk
  · intro s hs
    simp only [List.all_eq_true] at hc
    exact hc s hs

/-- (op lemma) removing a pack file preserves consistency if no index file lists it unmarked. -/
theorem removePack_preserves (r : Repo) (id : Nat) (h : consistent r = true)
    (hc : r.indexes.all (fun i => i.packs.all (fun p => p.id != id)) = true) :
    consistent (apply r (.removePack id)) = true := by
  rw [consistent_iff] at h ⊢
  constructor
  · rw [indexSound_iff] at h ⊢
    intro j hj q hq k hk
    have := h.1 j hj q hq k hk
    rw [stored_iff] at this ⊢
    obtain ⟨x, hx, hxid, hxk⟩ := this
    simp only [List.all_eq_true] at hc
    have hne : q.id ≠ id := by simpa using hc j hj q hq
    refine ⟨x, ?_, hxid, hxk⟩
    simp only [apply, List.mem_filter]
    exact ⟨hx, by simp [hxid, hne]⟩
  · intro s hs
    rw [readable_congr (apply r (.removePack id)) r rfl]; exact h.2 s hs

/-! ### the engine -/

theorem safe_step (r : Repo) (o : Op) (h : consistent r = true) (hs : safeOp r o = true) :
    consistent (apply r o) = true := by
  cases o with
  | writePack p => exact writePack_preserves r p h
  | removePack id => exact removePack_preserves r id h hs
  | writeIndex i => exact writeIndex_preserves r i h hs
  | removeIndex id => exact removeIndex_preserves r id h hs
  | writeSnap s => exact (writeSnap_iff r s h).mpr hs
  | removeSnap id => exact removeSnap_preserves r id h
  | other => exact h

/-- every prefix of a step-wise safe run from a consistent repository is consistent. -/
theorem safe_run : ∀ (ops : List Op) (r : Repo), consistent r = true → allSafe r ops = true →
    ∀ r' ∈ prefixStates r ops, consistent r' = true
  | [], r, h, _ => by simp [prefixStates]; exact h
  | o :: ops, r, h, hs => by
    simp only [allSafe, Bool.and_eq_true] at hs
    intro r' hr'
    simp only [prefixStates, List.mem_cons] at hr'
    rcases hr' with rfl | hr'
    · exact h
    · exact safe_run ops (apply r o) (safe_step r o h hs.1) hs.2 r' hr'

theorem firstBad_go_none : ∀ (ops : List Op) (r : Repo) (k : Nat),
    firstBad.go r k ops = none ↔ ∀ r' ∈ prefixStates r ops, consistent r' = true
  | [], r, k => by simp [firstBad.go, prefixStates]
  | o :: ops, r, k => by
    simp only [firstBad.go, prefixStates, List.mem_cons, forall_eq_or_imp]
    by_cases hc : consistent r = true
    · simp [hc, firstBad_go_none ops (apply r o) (k + 1)]
    · simp [hc]

/-- the driver's monitor (`firstBad`) answers `none` exactly when every prefix state is consistent. -/
theorem firstBad_none (r : Repo) (ops : List Op) :
    firstBad r ops = none ↔ ∀ r' ∈ prefixStates r ops, consistent r' = true :=
  firstBad_go_none ops r 0

theorem applyAll_append (r : Repo) (a b : List Op) : applyAll r (a ++ b) = applyAll (applyAll r a) b := by
  simp [applyAll, List.foldl_append]

theorem allSafe_append : ∀ (a b : List Op) (r : Repo),
    allSafe r (a ++ b) = (allSafe r a && allSafe (applyAll r a) b)
  | [], b, r => by simp [allSafe, applyAll]
  | o :: a, b, r => by
    simp only [List.cons_append, allSafe, allSafe_append a b (apply r o), applyAll, List.foldl_cons, Bool.and_assoc]

/-! ### snapshot-replacing commands: presence of snapshot files along a run -/

theorem hasSnap_iff (r : Repo) (id : Nat) : hasSnap r id = true ↔ ∃ s ∈ r.snaps, s.id = id := by
  simp [hasSnap]

theorem hasSnap_apply_of_ne (r : Repo) (o : Op) (id : Nat) (ho : o ≠ .removeSnap id) (h : hasSnap r id = true) :
    hasSnap (apply r o) id = true := by
  rw [hasSnap_iff] at h ⊢
  obtain ⟨s, hs, hid⟩ := h
  cases o with
  | writeSnap t => exact ⟨s, by simp [apply, hs], hid⟩
  | removeSnap j =>
    refine ⟨s, ?_, hid⟩
    have hj : j ≠ id := fun e => ho (by rw [e])
    simp only [apply, List.mem_filter, bne_iff_ne, ne_eq]
    exact ⟨hs, by rw [hid]; exact fun e => hj e.symm⟩
  | writePack _ => exact ⟨s, hs, hid⟩
  | removePack _ => exact ⟨s, hs, hid⟩
  | writeIndex _ => exact ⟨s, hs, hid⟩
  | removeIndex _ => exact ⟨s, hs, hid⟩
  | other => exact ⟨s, hs, hid⟩

theorem hasSnap_applyAll (id : Nat) : ∀ (ops : List Op) (r : Repo), (∀ o ∈ ops, o ≠ .removeSnap id) →
    hasSnap r id = true → hasSnap (applyAll r ops) id = true
  | [], _, _, h => h
  | o :: ops, r, hne, h => by
    simp only [applyAll, List.foldl_cons]
    exact hasSnap_applyAll id ops (apply r o) (fun o' ho' => hne o' (List.mem_cons_of_mem _ ho'))
      (hasSnap_apply_of_ne r o id (hne o List.mem_cons_self) h)

theorem hasSnap_writeSnap (r : Repo) (s : Snap) : hasSnap (apply r (.writeSnap s)) s.id = true := by
  simp [hasSnap, apply]

/-- along a run that removes no snapshot `id`, a snapshot present at the start is present in every prefix state -/
theorem hasSnap_prefixStates (id : Nat) : ∀ (ops : List Op) (r : Repo), (∀ o ∈ ops, o ≠ .removeSnap id) →
    hasSnap r id = true → ∀ r' ∈ prefixStates r ops, hasSnap r' id = true
  | [], r, _, h, r', hr' => by
    simp only [prefixStates, List.mem_singleton] at hr'
    rw [hr']; exact h
  | o :: ops, r, hne, h, r', hr' => by
    simp only [prefixStates, List.mem_cons] at hr'
    rcases hr' with rfl | hr'
    · exact h
    · exact hasSnap_prefixStates id ops (apply r o) (fun o' ho' => hne o' (List.mem_cons_of_mem _ ho'))
        (hasSnap_apply_of_ne r o id (hne o List.mem_cons_self) h) r' hr'

theorem prefixStates_append : ∀ (a b : List Op) (r r' : Repo),
    r' ∈ prefixStates r (a ++ b) ↔ r' ∈ prefixStates r a ∨ r' ∈ prefixStates (applyAll r a) b
  | [], b, r, r' => by
    simp only [List.nil_append, prefixStates, List.mem_singleton, applyAll, List.foldl_nil]
    constructor
    · exact Or.inr
    · rintro (rfl | h)
      · cases b <;> simp [prefixStates]
      · exact h
  | o :: a, b, r, r' => by
    simp only [List.cons_append, prefixStates, List.mem_cons, applyAll, List.foldl_cons]
    rw [prefixStates_append a b (apply r o) r']
    simp only [applyAll, or_assoc]

theorem firstLost_go_none (succ : List (Nat × Nat)) (olds : List Nat) : ∀ (ops : List Op) (r : Repo) (k : Nat),
    firstLost.go succ olds r k ops = none ↔ ∀ r' ∈ prefixStates r ops, noneLost r' succ olds = true
  | [], r, k => by simp [firstLost.go, prefixStates]
  | o :: ops, r, k => by
    simp only [firstLost.go, prefixStates, List.mem_cons, forall_eq_or_imp]
    by_cases hc : noneLost r succ olds = true
    · simp [hc, firstLost_go_none succ olds ops (apply r o) (k + 1)]
    · simp [hc]

/-- the driver's loss monitor (`firstLost`) answers `none` exactly when no prefix state has lost a snapshot. -/
theorem firstLost_none (succ : List (Nat × Nat)) (olds : List Nat) (r : Repo) (ops : List Op) :
    firstLost succ olds r ops = none ↔ ∀ r' ∈ prefixStates r ops, noneLost r' succ olds = true :=
  firstLost_go_none succ olds ops r 0

end Rustic.Repo
