/-
Lemmas about the packer pipeline transition system (`Rustic.Archive` part 2): what is stored at
`finalize` is exactly what was entered (typed indexer set), every written pack is indexed.
-/
import Rustic.Model.Archive
namespace Rustic.Archive
open Rustic.Tree

@[simp] theorem pk_setPk (s : PSt) (t t' : BT) (p : Pk) :
    (s.setPk t p).pk t' = if t' = t then p else s.pk t' := by
  cases t <;> cases t' <;> simp [PSt.setPk, PSt.pk]

@[simp] theorem setPk_typed (s : PSt) (t : BT) (p : Pk) : (s.setPk t p).typed = s.typed := by cases t <;> rfl
@[simp] theorem setPk_indexed (s : PSt) (t : BT) (p : Pk) : (s.setPk t p).indexed = s.indexed := by cases t <;> rfl
@[simp] theorem setPk_packs (s : PSt) (t : BT) (p : Pk) : (s.setPk t p).packs = s.packs := by cases t <;> rfl
@[simp] theorem setPk_index (s : PSt) (t : BT) (p : Pk) : (s.setPk t p).index = s.index := by cases t <;> rfl

@[simp] theorem pk_withPacks (s : PSt) (q : List (BT × List Id)) (t : BT) :
    ({ s with packs := q } : PSt).pk t = s.pk t := by cases t <;> rfl
@[simp] theorem pk_withIdx (s : PSt) (q : List Key) (r : List (BT × List Id)) (t : BT) :
    ({ s with indexed := q, index := r } : PSt).pk t = s.pk t := by cases t <;> rfl

def Pk.all (p : Pk) : List Id := p.pending ++ p.cur ++ p.inflight.flatten ++ p.unindexed.flatten

theorem mem_keysOf {packs : List (BT × List Id)} {t : BT} {id : Id} :
    (t, id) ∈ keysOf packs ↔ ∃ p, (t, p) ∈ packs ∧ id ∈ p := by
  simp only [keysOf, List.mem_flatten, List.mem_map]
  constructor
  · rintro ⟨l, ⟨⟨t', p⟩, hp, rfl⟩, hl⟩
    simp only [List.mem_map] at hl
    obtain ⟨i, hi, he⟩ := hl
    injection he with h1 h2; subst h1; subst h2
    exact ⟨p, hp, hi⟩
  · rintro ⟨p, hp, hi⟩
    exact ⟨_, ⟨(t, p), hp, rfl⟩, by simp [hi]⟩

theorem keysOf_append (a b : List (BT × List Id)) : keysOf (a ++ b) = keysOf a ++ keysOf b := by
  simp [keysOf]

/-- Invariant of the typed pipeline w.r.t. the keys entered so far (`E`, as a predicate). -/
structure Inv (E : Key → Prop) (s : PSt) : Prop where
  typed : s.typed = true
  complete : ∀ t id, E (t, id) → id ∈ (s.pk t).all ∨ (t, id) ∈ keysOf s.packs
  sound : ∀ t id, (id ∈ (s.pk t).all ∨ (t, id) ∈ keysOf s.packs) → E (t, id)
  idxd : ∀ t id, (t, id) ∈ s.indexed → (t, id) ∈ keysOf s.packs
  unidx : ∀ t id, id ∈ (s.pk t).unindexed.flatten → (t, id) ∈ keysOf s.packs

theorem indexerHas_typed {s : PSt} (h : s.typed = true) (t : BT) (id : Id) :
    s.indexerHas t id = true ↔ (t, id) ∈ s.indexed := by
  simp [PSt.indexerHas, ikey, h]

/-- Replacing one packer's state keeps the invariant if no blob appears from nowhere and every blob that
disappears from the pipe is already in a written pack. -/
theorem inv_setPk {E : Key → Prop} {s : PSt} (t : BT) (p' : Pk) (h : Inv E s)
    (hsub : ∀ x, x ∈ p'.all → x ∈ (s.pk t).all)
    (hkeep : ∀ x, x ∈ (s.pk t).all → x ∈ p'.all ∨ (t, x) ∈ keysOf s.packs)
    (hun : ∀ x, x ∈ p'.unindexed.flatten → x ∈ (s.pk t).unindexed.flatten) :
    Inv E (s.setPk t p') := by
  refine ⟨by simp [h.typed], ?_, ?_, by simpa using h.idxd, ?_⟩
  · intro t' id' he
    rcases h.complete t' id' he with hc | hc
    · by_cases htt : t' = t
      · subst htt
        rcases hkeep id' hc with hk | hk
        · left; simpa using hk
        · right; simpa using hk
      · left; simpa [htt] using hc
    · right; simpa using hc
  · intro t' id' hc
    apply h.sound t' id'
    rcases hc with hc | hc
    · by_cases htt : t' = t
      · subst htt; left; exact hsub id' (by simpa using hc)
      · left; simpa [htt] using hc
    · right; simpa using hc
  · intro t' id' hc
    by_cases htt : t' = t
    · subst htt
      have := h.unidx t' id' (hun id' (by simpa using hc))
      simpa using this
    · have := h.unidx t' id' (by simpa [htt] using hc)
      simpa using this

theorem inv_commit {E : Key → Prop} {s : PSt} (t : BT) (h : Inv E s) : Inv E (commitOne s t) := by
  unfold commitOne
  cases hp : (s.pk t).pending with
  | nil => simpa [hp] using h
  | cons id rest =>
    simp only [hp]
    by_cases h1 : s.indexerHas t id = true
    · rw [if_pos h1]
      have hk := h.idxd t id ((indexerHas_typed h.typed t id).mp h1)
      apply inv_setPk t _ h
      · intro x hx; simp only [Pk.all, hp, List.mem_append, List.mem_cons] at hx ⊢; grind
      · intro x hx; simp only [Pk.all, hp, List.mem_append, List.mem_cons] at hx ⊢; grind
      · intro x hx; exact hx
    · rw [if_neg h1]
      by_cases h2 : (s.pk t).cur.contains id = true
      · rw [if_pos h2]
        have h2' : id ∈ (s.pk t).cur := by simpa using h2
        apply inv_setPk t _ h
        · intro x hx; simp only [Pk.all, hp, List.mem_append, List.mem_cons] at hx ⊢; grind
        · intro x hx; simp only [Pk.all, hp, List.mem_append, List.mem_cons] at hx ⊢; grind
        · intro x hx; exact hx
      · rw [if_neg h2]
        apply inv_setPk t _ h
        · intro x hx; simp only [Pk.all, hp, List.mem_append, List.mem_cons, List.mem_singleton] at hx ⊢; grind
        · intro x hx; simp only [Pk.all, hp, List.mem_append, List.mem_cons, List.mem_singleton] at hx ⊢; grind
        · intro x hx; exact hx

theorem inv_flush {E : Key → Prop} {s : PSt} (t : BT) (h : Inv E s) : Inv E (flushOne s t) := by
  unfold flushOne
  simp only
  split
  · exact h
  · apply inv_setPk t _ h
    · intro x hx; simp only [Pk.all, List.mem_append, List.flatten_append, List.flatten_cons, List.flatten_nil, List.append_nil, List.not_mem_nil] at hx ⊢; grind
    · intro x hx; simp only [Pk.all, List.mem_append, List.flatten_append, List.flatten_cons, List.flatten_nil, List.append_nil] at hx ⊢; grind
    · intro x hx; exact hx

/-- weakening the set of entered keys -/
theorem inv_enter_known {E : Key → Prop} {s : PSt} (t : BT) (id : Id) (h : Inv E s)
    (hk : id ∈ (s.pk t).all ∨ (t, id) ∈ keysOf s.packs) : Inv (fun k => k = (t, id) ∨ E k) s := by
  refine ⟨h.typed, ?_, ?_, h.idxd, h.unidx⟩
  · intro t' id' he
    rcases he with he | he
    · injection he with e1 e2; subst e1; subst e2; exact hk
    · exact h.complete t' id' he
  · intro t' id' hc; exact Or.inr (h.sound t' id' hc)

theorem inv_enter {E : Key → Prop} {s : PSt} (t : BT) (id : Id) (h : Inv E s) :
    Inv (fun k => k = (t, id) ∨ E k) (step s (.enter t id)) := by
  simp only [step]
  by_cases h1 : s.indexerHas t id = true
  · rw [if_pos h1]
    exact inv_enter_known t id h (Or.inr (h.idxd t id ((indexerHas_typed h.typed t id).mp h1)))
  · rw [if_neg h1]
    by_cases h2 : (s.pk t).cur.contains id = true
    · rw [if_pos h2]
      exact inv_enter_known t id h (Or.inl (by simp [Pk.all, (by simpa using h2 : id ∈ (s.pk t).cur)]))
    · rw [if_neg h2]
      refine ⟨by simp [h.typed], ?_, ?_, by simpa using h.idxd, ?_⟩
      · intro t' id' he
        rcases he with he | he
        · injection he with e1 e2; subst e1; subst e2; left; simp [Pk.all]
        · rcases h.complete t' id' he with hc | hc
          · left
            by_cases htt : t' = t
            · subst htt; simp only [pk_setPk, if_true, Pk.all, List.mem_append] at hc ⊢; grind
            · simpa [htt] using hc
          · right; simpa using hc
      · intro t' id' hc
        rcases hc with hc | hc
        · by_cases htt : t' = t
          · subst htt
            simp only [pk_setPk, if_true, Pk.all, List.mem_append, List.mem_singleton] at hc
            by_cases hid : id' = id
            · subst hid; exact Or.inl rfl
            · right; apply h.sound t' id'; left; simp only [Pk.all, List.mem_append]; grind
          · right; apply h.sound t' id'; left; simpa [htt] using hc
        · right; apply h.sound t' id'; right; simpa using hc
      · intro t' id' hc
        by_cases htt : t' = t
        · subst htt; have := h.unidx t' id' (by simpa using hc); simpa using this
        · have := h.unidx t' id' (by simpa [htt] using hc); simpa using this

theorem inv_write {E : Key → Prop} {s : PSt} (t : BT) (h : Inv E s) : Inv E (writeOne s t) := by
  unfold writeOne
  cases hp : (s.pk t).inflight with
  | nil => simpa [hp] using h
  | cons pack rest =>
    simp only [hp]
    refine ⟨by simp [h.typed], ?_, ?_, ?_, ?_⟩
    · intro t' id' he
      simp only [setPk_packs, keysOf_append, List.mem_append]
      rcases h.complete t' id' he with hc | hc
      · by_cases htt : t' = t
        · subst htt
          left
          simp only [Pk.all, hp, List.mem_append, List.flatten_cons] at hc
          simp only [pk_setPk, if_true, Pk.all, List.mem_append, List.flatten_append, List.flatten_cons, List.flatten_nil, List.append_nil]
          grind
        · left; simpa [htt] using hc
      · exact Or.inr (Or.inl hc)
    · intro t' id' hc
      apply h.sound t' id'
      simp only [setPk_packs, keysOf_append, List.mem_append] at hc
      rcases hc with hc | hc | hc
      · left
        by_cases htt : t' = t
        · subst htt
          simp only [pk_setPk, if_true, Pk.all, List.mem_append, List.flatten_append, List.flatten_cons, List.flatten_nil, List.append_nil] at hc
          simp only [Pk.all, hp, List.mem_append, List.flatten_cons]
          grind
        · simpa [htt] using hc
      · exact Or.inr hc
      · left
        obtain ⟨p, hp1, hp2⟩ := mem_keysOf.mp hc
        simp only [List.mem_singleton] at hp1
        injection hp1 with e1 e2; subst e1; subst e2
        simp only [Pk.all, hp, List.mem_append, List.flatten_cons]
        grind
    · intro t' id' hc
      simp only [setPk_indexed] at hc
      simp only [setPk_packs, keysOf_append, List.mem_append]
      exact Or.inl (h.idxd t' id' hc)
    · intro t' id' hc
      simp only [setPk_packs, keysOf_append, List.mem_append]
      by_cases htt : t' = t
      · subst htt
        simp only [pk_setPk, if_true, List.flatten_append, List.flatten_cons, List.flatten_nil, List.append_nil, List.mem_append] at hc
        rcases hc with hc | hc
        · exact Or.inl (h.unidx t' id' hc)
        · exact Or.inr (mem_keysOf.mpr ⟨pack, by simp, hc⟩)
      · exact Or.inl (h.unidx t' id' (by simpa [htt] using hc))

theorem inv_idx {E : Key → Prop} {s : PSt} (t : BT) (h : Inv E s) : Inv E (idxOne s t) := by
  unfold idxOne
  cases hp : (s.pk t).unindexed with
  | nil => simpa [hp] using h
  | cons pack rest =>
    simp only [hp]
    refine ⟨by simp [h.typed], ?_, ?_, ?_, ?_⟩
    · intro t' id' he
      simp only [setPk_packs]
      rcases h.complete t' id' he with hc | hc
      · by_cases htt : t' = t
        · subst htt
          simp only [Pk.all, hp, List.mem_append, List.flatten_cons] at hc
          by_cases hin : id' ∈ pack
          · right; exact h.unidx t' id' (by simp [hp, hin])
          · left
            simp only [pk_setPk, if_true, Pk.all, List.mem_append]
            grind
        · left; simpa [htt] using hc
      · exact Or.inr hc
    · intro t' id' hc
      apply h.sound t' id'
      simp only [setPk_packs] at hc
      rcases hc with hc | hc
      · left
        by_cases htt : t' = t
        · subst htt
          simp only [pk_setPk, if_true, Pk.all, List.mem_append] at hc
          simp only [Pk.all, hp, List.mem_append, List.flatten_cons]
          grind
        · simpa [htt] using hc
      · exact Or.inr hc
    · intro t' id' hc
      simp only [setPk_indexed, List.mem_append] at hc
      simp only [setPk_packs]
      rcases hc with hc | hc
      · exact h.idxd t' id' hc
      · simp only [ikey, h.typed, if_true, List.mem_map] at hc
        obtain ⟨i, hi, he⟩ := hc
        injection he with e1 e2; subst e1; subst e2
        exact h.unidx t i (by simp [hp, hi])
    · intro t' id' hc
      simp only [setPk_packs]
      by_cases htt : t' = t
      · subst htt
        simp only [pk_setPk, if_true] at hc
        exact h.unidx t' id' (by simp [hp, hc])
      · exact h.unidx t' id' (by simpa [htt] using hc)

/-! ### schedules and `finalize` -/

theorem inv_mono {E E' : Key → Prop} {s : PSt} (h : Inv E s) (hE : ∀ k, E k ↔ E' k) : Inv E' s :=
  ⟨h.typed, fun t id he => h.complete t id ((hE _).mpr he), fun t id hc => (hE _).mp (h.sound t id hc),
   h.idxd, h.unidx⟩

theorem inv_step {E : Key → Prop} {s : PSt} (ev : Ev) (h : Inv E s) :
    Inv (fun k => k ∈ entered [ev] ∨ E k) (step s ev) := by
  cases ev with
  | enter t id => exact inv_mono (inv_enter t id h) (by intro k; simp [entered])
  | commit t => exact inv_mono (inv_commit t h) (by intro k; simp [entered])
  | flush t => exact inv_mono (inv_flush t h) (by intro k; simp [entered])
  | write t => exact inv_mono (inv_write t h) (by intro k; simp [entered])
  | idx t => exact inv_mono (inv_idx t h) (by intro k; simp [entered])

theorem entered_cons (ev : Ev) (evs : List Ev) : entered (ev :: evs) = entered [ev] ++ entered evs := by
  cases ev <;> simp [entered]

theorem inv_runEvs {E : Key → Prop} : ∀ (evs : List Ev) (s : PSt), Inv E s →
    Inv (fun k => k ∈ entered evs ∨ E k) (runEvs s evs)
  | [], s, h => inv_mono h (by intro k; simp [entered])
  | ev :: evs, s, h => by
    have := inv_runEvs evs (step s ev) (inv_step ev h)
    simp only [runEvs, List.foldl_cons] at this ⊢
    refine inv_mono this ?_
    intro k
    show (k ∈ entered evs ∨ k ∈ entered [ev] ∨ E k) ↔ (k ∈ entered (ev :: evs) ∨ E k)
    rw [entered_cons ev evs]; simp only [List.mem_append]
    constructor
    · rintro (h | h | h)
      · exact Or.inl (Or.inr h)
      · exact Or.inl (Or.inl h)
      · exact Or.inr h
    · rintro ((h | h) | h)
      · exact Or.inr (Or.inl h)
      · exact Or.inl h
      · exact Or.inr (Or.inr h)

theorem inv_iter {E : Key → Prop} (f : PSt → PSt) (hf : ∀ s, Inv E s → Inv E (f s)) :
    ∀ (n : Nat) (s : PSt), Inv E s → Inv E (iter f n s)
  | 0, _, h => h
  | n + 1, s, h => inv_iter f hf n (f s) (hf s h)

theorem inv_finalizePk {E : Key → Prop} {s : PSt} (t : BT) (h : Inv E s) : Inv E (finalizePk s t) := by
  unfold finalizePk
  exact inv_iter _ (fun _ => inv_idx t) _ _
    (inv_iter _ (fun _ => inv_write t) _ _ (inv_flush t (inv_iter _ (fun _ => inv_commit t) _ _ h)))

theorem inv_finalizeAll {E : Key → Prop} {s : PSt} (h : Inv E s) : Inv E (finalizeAll s) :=
  inv_finalizePk .tree (inv_finalizePk .data h)

/-! effects of the four pipeline moves on the packers -/

theorem commit_other (s : PSt) {t t' : BT} (h : t' ≠ t) : (commitOne s t).pk t' = s.pk t' := by
  unfold commitOne
  cases hp : (s.pk t).pending with
  | nil => simp [hp]
  | cons id rest =>
    simp only [hp]
    split
    · simp [h]
    · split <;> simp [h]

theorem flush_other (s : PSt) {t t' : BT} (h : t' ≠ t) : (flushOne s t).pk t' = s.pk t' := by
  unfold flushOne; simp only; split <;> simp [h]

theorem write_other (s : PSt) {t t' : BT} (h : t' ≠ t) : (writeOne s t).pk t' = s.pk t' := by
  unfold writeOne
  cases hp : (s.pk t).inflight with
  | nil => simp [hp]
  | cons p r => simp [hp, h]

theorem idx_other (s : PSt) {t t' : BT} (h : t' ≠ t) : (idxOne s t).pk t' = s.pk t' := by
  unfold idxOne
  cases hp : (s.pk t).unindexed with
  | nil => simp [hp]
  | cons p r => simp [hp, h]

theorem commit_self (s : PSt) (t : BT) :
    ((commitOne s t).pk t).pending = (s.pk t).pending.tail ∧
    ((commitOne s t).pk t).inflight = (s.pk t).inflight ∧
    ((commitOne s t).pk t).unindexed = (s.pk t).unindexed := by
  unfold commitOne
  cases hp : (s.pk t).pending with
  | nil => simp [hp]
  | cons id rest =>
    simp only [hp]
    split
    · simp
    · split <;> simp

theorem flush_self (s : PSt) (t : BT) :
    ((flushOne s t).pk t).pending = (s.pk t).pending ∧ ((flushOne s t).pk t).cur = [] ∧
    ((flushOne s t).pk t).unindexed = (s.pk t).unindexed := by
  unfold flushOne; simp only
  split
  · rename_i h; simp [List.isEmpty_iff.mp h]
  · simp

theorem write_self (s : PSt) (t : BT) :
    ((writeOne s t).pk t).pending = (s.pk t).pending ∧ ((writeOne s t).pk t).cur = (s.pk t).cur ∧
    ((writeOne s t).pk t).inflight = (s.pk t).inflight.tail := by
  unfold writeOne
  cases hp : (s.pk t).inflight with
  | nil => simp [hp]
  | cons p r => simp [hp]

theorem idx_self (s : PSt) (t : BT) :
    ((idxOne s t).pk t).pending = (s.pk t).pending ∧ ((idxOne s t).pk t).cur = (s.pk t).cur ∧
    ((idxOne s t).pk t).inflight = (s.pk t).inflight ∧
    ((idxOne s t).pk t).unindexed = (s.pk t).unindexed.tail := by
  unfold idxOne
  cases hp : (s.pk t).unindexed with
  | nil => simp [hp]
  | cons p r => simp [hp]

theorem iter_keep {α : Type} (f : PSt → PSt) (proj : PSt → α) (hf : ∀ s, proj (f s) = proj s) :
    ∀ (n : Nat) (s : PSt), proj (iter f n s) = proj s
  | 0, _ => rfl
  | n + 1, s => by rw [iter, iter_keep f proj hf n (f s), hf]

theorem iter_drain {α : Type} (f : PSt → PSt) (proj : PSt → List α) (hf : ∀ s, proj (f s) = (proj s).tail) :
    ∀ (n : Nat) (s : PSt), (proj s).length ≤ n → proj (iter f n s) = []
  | 0, s, h => by simpa [iter] using h
  | n + 1, s, h => by
    rw [iter]
    apply iter_drain f proj hf n (f s)
    rw [hf]; simp only [List.length_tail]; omega

/-- `Packer::finalize` leaves nothing in that packer's pipeline. -/
theorem finalizePk_drained (s : PSt) (t : BT) :
    ((finalizePk s t).pk t).pending = [] ∧ ((finalizePk s t).pk t).cur = [] ∧
    ((finalizePk s t).pk t).inflight = [] ∧ ((finalizePk s t).pk t).unindexed = [] := by
  unfold finalizePk
  simp only
  generalize hs1 : iter (fun x => commitOne x t) (s.pk t).pending.length s = s1
  have p1 : (s1.pk t).pending = [] := by
    rw [← hs1]
    exact iter_drain _ (fun x => (x.pk t).pending) (fun x => (commit_self x t).1) _ s (Nat.le_refl _)
  generalize hs2 : flushOne s1 t = s2
  have p2 : (s2.pk t).pending = [] ∧ (s2.pk t).cur = [] := by
    rw [← hs2]; exact ⟨by rw [(flush_self s1 t).1, p1], (flush_self s1 t).2.1⟩
  generalize hs3 : iter (fun x => writeOne x t) (s2.pk t).inflight.length s2 = s3
  have p3 : (s3.pk t).pending = [] ∧ (s3.pk t).cur = [] ∧ (s3.pk t).inflight = [] := by
    rw [← hs3]
    refine ⟨?_, ?_, ?_⟩
    · rw [iter_keep _ (fun x => (x.pk t).pending) (fun x => (write_self x t).1)]; exact p2.1
    · rw [iter_keep _ (fun x => (x.pk t).cur) (fun x => (write_self x t).2.1)]; exact p2.2
    · exact iter_drain _ (fun x => (x.pk t).inflight) (fun x => (write_self x t).2.2) _ s2 (Nat.le_refl _)
  have q1 := iter_keep (fun x => idxOne x t) (fun x => (x.pk t).pending) (fun x => (idx_self x t).1) (s3.pk t).unindexed.length s3
  have q2 := iter_keep (fun x => idxOne x t) (fun x => (x.pk t).cur) (fun x => (idx_self x t).2.1) (s3.pk t).unindexed.length s3
  have q3 := iter_keep (fun x => idxOne x t) (fun x => (x.pk t).inflight) (fun x => (idx_self x t).2.2.1) (s3.pk t).unindexed.length s3
  have q4 := iter_drain (fun x => idxOne x t) (fun x => (x.pk t).unindexed) (fun x => (idx_self x t).2.2.2) (s3.pk t).unindexed.length s3 (Nat.le_refl _)
  exact ⟨by rw [q1]; exact p3.1, by rw [q2]; exact p3.2.1, by rw [q3]; exact p3.2.2, q4⟩

theorem finalizePk_empty (s : PSt) (t : BT) : ((finalizePk s t).pk t).all = [] := by
  obtain ⟨a, b, c, d⟩ := finalizePk_drained s t
  simp [Pk.all, a, b, c, d]

theorem finalizePk_other (s : PSt) {t t' : BT} (h : t' ≠ t) : (finalizePk s t).pk t' = s.pk t' := by
  unfold finalizePk
  simp only
  rw [iter_keep _ (fun x => x.pk t') (fun x => idx_other x h),
      iter_keep _ (fun x => x.pk t') (fun x => write_other x h), flush_other _ h,
      iter_keep _ (fun x => x.pk t') (fun x => commit_other x h)]

theorem finalizeAll_empty (s : PSt) (t : BT) : ((finalizeAll s).pk t).all = [] := by
  unfold finalizeAll
  cases t with
  | tree => exact finalizePk_empty _ .tree
  | data => rw [finalizePk_other _ (by decide)]; exact finalizePk_empty _ .data

theorem finalizeAll_unindexed (s : PSt) (t : BT) : ((finalizeAll s).pk t).unindexed = [] := by
  unfold finalizeAll
  cases t with
  | tree => exact (finalizePk_drained _ .tree).2.2.2
  | data => rw [finalizePk_other _ (by decide)]; exact (finalizePk_drained _ .data).2.2.2

/-! every written pack is indexed -/

/-- packs on the backend = packs listed by the indexer + packs written but not yet indexed -/
def PackInv (s : PSt) : Prop :=
  ∀ t p, (t, p) ∈ s.packs ↔ ((t, p) ∈ s.index ∨ p ∈ (s.pk t).unindexed)

theorem packInv_setPk {s : PSt} (t : BT) (p' : Pk) (h : PackInv s) (hu : p'.unindexed = (s.pk t).unindexed) :
    PackInv (s.setPk t p') := by
  intro t' p
  by_cases htt : t' = t
  · subst htt; simp [hu, h t' p]
  · simp [htt, h t' p]

theorem packInv_commit {s : PSt} (t : BT) (h : PackInv s) : PackInv (commitOne s t) := by
  unfold commitOne
  cases hp : (s.pk t).pending with
  | nil => simpa [hp] using h
  | cons id rest =>
    simp only [hp]
    split
    · exact packInv_setPk t _ h rfl
    · split <;> exact packInv_setPk t _ h rfl

theorem packInv_flush {s : PSt} (t : BT) (h : PackInv s) : PackInv (flushOne s t) := by
  unfold flushOne; simp only; split
  · exact h
  · exact packInv_setPk t _ h rfl

theorem packInv_write {s : PSt} (t : BT) (h : PackInv s) : PackInv (writeOne s t) := by
  unfold writeOne
  cases hp : (s.pk t).inflight with
  | nil => simpa [hp] using h
  | cons pack rest =>
    simp only [hp]
    intro t' p
    have := h t' p
    by_cases htt : t' = t
    · subst htt
      simp only [setPk_packs, setPk_index, pk_setPk, if_true, List.mem_append, List.mem_singleton,
        Prod.mk.injEq, true_and, this]
      grind
    · simp only [setPk_packs, setPk_index, pk_setPk, htt, if_false, List.mem_append, List.mem_singleton,
        Prod.mk.injEq, false_and, or_false, this, pk_withPacks]

theorem packInv_idx {s : PSt} (t : BT) (h : PackInv s) : PackInv (idxOne s t) := by
  unfold idxOne
  cases hp : (s.pk t).unindexed with
  | nil => simpa [hp] using h
  | cons pack rest =>
    simp only [hp]
    intro t' p
    have := h t' p
    by_cases htt : t' = t
    · subst htt
      rw [hp] at this
      simp only [setPk_packs, setPk_index, pk_setPk, if_true, List.mem_append, List.mem_singleton,
        Prod.mk.injEq, true_and, this, List.mem_cons]
      grind
    · simp only [setPk_packs, setPk_index, pk_setPk, htt, if_false, List.mem_append, List.mem_singleton,
        Prod.mk.injEq, false_and, or_false, this, pk_withIdx]

theorem packInv_step {s : PSt} (ev : Ev) (h : PackInv s) : PackInv (step s ev) := by
  cases ev with
  | enter t id =>
    simp only [step]
    split
    · exact h
    · split
      · exact h
      · exact packInv_setPk t _ h rfl
  | commit t => exact packInv_commit t h
  | flush t => exact packInv_flush t h
  | write t => exact packInv_write t h
  | idx t => exact packInv_idx t h

theorem packInv_runEvs : ∀ (evs : List Ev) (s : PSt), PackInv s → PackInv (runEvs s evs)
  | [], _, h => h
  | ev :: evs, s, h => by
    simp only [runEvs, List.foldl_cons]
    exact packInv_runEvs evs (step s ev) (packInv_step ev h)

theorem packInv_iter (f : PSt → PSt) (hf : ∀ s, PackInv s → PackInv (f s)) :
    ∀ (n : Nat) (s : PSt), PackInv s → PackInv (iter f n s)
  | 0, _, h => h
  | n + 1, s, h => packInv_iter f hf n (f s) (hf s h)

theorem packInv_finalizePk {s : PSt} (t : BT) (h : PackInv s) : PackInv (finalizePk s t) := by
  unfold finalizePk
  exact packInv_iter _ (fun _ => packInv_idx t) _ _
    (packInv_iter _ (fun _ => packInv_write t) _ _
      (packInv_flush t (packInv_iter _ (fun _ => packInv_commit t) _ _ h)))

theorem packInv_finalizeAll {s : PSt} (h : PackInv s) : PackInv (finalizeAll s) :=
  packInv_finalizePk .tree (packInv_finalizePk .data h)

end Rustic.Archive
