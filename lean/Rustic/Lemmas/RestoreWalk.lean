/-
Lemmas about `Model/RestoreWalk.lean`: the merge-walk disposes of every destination entry and every node exactly once
(projections of the event list are the input lists), the `removed` flag, and the pack bookkeeping of `RestorePlan`.
-/
import Rustic.Model.RestoreWalk
namespace Rustic.RestoreWalk

variable {P : Type}

/-! ### projections -/

theorem dstOf_append (a b : List (Ev P)) : dstOf (a ++ b) = dstOf a ++ dstOf b := by
  induction a with
  | nil => rfl
  | cons e a ih => cases e <;> simp [dstOf, ih]

theorem nodesOf_append (a b : List (Ev P)) : nodesOf (a ++ b) = nodesOf a ++ nodesOf b := by
  induction a with
  | nil => rfl
  | cons e a ih => cases e <;> simp [nodesOf, ih]

theorem dstOf_skipped (l : List (DEnt P)) : dstOf (l.map (fun e => Ev.skipped e.path)) = l.map (·.path) := by
  induction l with
  | nil => rfl
  | cons e l ih => simp [dstOf, ih]

theorem nodesOf_skipped (l : List (DEnt P)) : nodesOf (l.map (fun e => Ev.skipped e.path)) = [] := by
  induction l with
  | nil => rfl
  | cons e l ih => simp [nodesOf, ih]

theorem skipSplit_append (c : Cfg P) (d : DEnt P) (rest : List (DEnt P)) :
    (skipSplit c d rest).1 ++ (skipSplit c d rest).2 = rest := by
  unfold skipSplit
  split
  · exact List.takeWhile_append_dropWhile
  · rfl

theorem dstOf_existingEvs (c : Cfg P) (d : DEnt P) (rest : List (DEnt P)) :
    dstOf (existingEvs c d rest) = d.path :: (skipSplit c d rest).1.map (·.path) := by
  simp [existingEvs, dstOf, dstOf_skipped]

theorem nodesOf_existingEvs (c : Cfg P) (d : DEnt P) (rest : List (DEnt P)) :
    nodesOf (existingEvs c d rest) = [] := by
  simp [existingEvs, nodesOf, nodesOf_skipped]

theorem map_path_skipSplit (c : Cfg P) (d : DEnt P) (rest : List (DEnt P)) :
    (skipSplit c d rest).1.map (·.path) ++ (skipSplit c d rest).2.map (·.path) = rest.map (·.path) := by
  rw [← List.map_append, skipSplit_append]

/-- every destination entry is disposed of exactly once, in listing order -/
theorem walk_dst (c : Cfg P) (ds : List (DEnt P)) (ns : List (NEnt P)) :
    dstOf (walk c ds ns) = ds.map (·.path) := by
  fun_induction walk c ds ns with
  | case1 => rfl
  | case2 d ds ih =>
    rw [dstOf_append, dstOf_existingEvs, ih, List.map_cons, List.cons_append, map_path_skipSplit]
  | case3 n ns ih => simpa [dstOf] using ih
  | case4 d ds n ns hc ih =>
    rw [dstOf_append, dstOf_existingEvs, ih, List.map_cons, List.cons_append, map_path_skipSplit]
  | case5 d ds n ns hc hm ih =>
    rw [dstOf_append, dstOf_existingEvs]
    simp only [dstOf]
    rw [ih, List.map_cons, List.cons_append, map_path_skipSplit]
  | case6 d ds n ns hc hm ih => simp [dstOf, ih]
  | case7 d ds n ns hc ih => simpa [dstOf] using ih

/-- `process_node` is called exactly once per node, in stream order -/
theorem walk_nodes (c : Cfg P) (ds : List (DEnt P)) (ns : List (NEnt P)) :
    nodesOf (walk c ds ns) = ns.map (fun n => (n.path, n.kind)) := by
  fun_induction walk c ds ns with
  | case1 => rfl
  | case2 d ds ih => rw [nodesOf_append, nodesOf_existingEvs, ih]; rfl
  | case3 n ns ih => simp [nodesOf, ih]
  | case4 d ds n ns hc ih => rw [nodesOf_append, nodesOf_existingEvs, ih]; rfl
  | case5 d ds n ns hc hm ih =>
    rw [nodesOf_append, nodesOf_existingEvs]
    simp [nodesOf, ih]
  | case6 d ds n ns hc hm ih => simp [nodesOf, ih]
  | case7 d ds n ns hc ih => simp [nodesOf, ih]

theorem mem_existingEvs_additional {c : Cfg P} {d : DEnt P} {rest : List (DEnt P)} {p : P} {isDir r : Bool}
    (h : Ev.additional p isDir r ∈ existingEvs c d rest) :
    p = d.path ∧ isDir = decide (d.kind = .dir) ∧ r = (c.delete && !c.dryRun) := by
  simp only [existingEvs, List.mem_cons, List.mem_map] at h
  rcases h with h | ⟨e, _, he⟩
  · injection h with h1 h2 h3; exact ⟨h1, h2, h3⟩
  · cases he

/-- an additional entry is removed iff `delete` is set and this is no dry run -/
theorem walk_removed_flag (c : Cfg P) (ds : List (DEnt P)) (ns : List (NEnt P)) (p : P) (isDir r : Bool)
    (h : Ev.additional p isDir r ∈ walk c ds ns) : r = (c.delete && !c.dryRun) := by
  fun_induction walk c ds ns with
  | case1 => cases h
  | case2 d ds ih =>
    rcases List.mem_append.1 h with h | h
    · exact (mem_existingEvs_additional h).2.2
    · exact ih h
  | case3 n ns ih =>
    rcases List.mem_cons.1 h with h | h
    · cases h
    · exact ih h
  | case4 d ds n ns hc ih =>
    rcases List.mem_append.1 h with h | h
    · exact (mem_existingEvs_additional h).2.2
    · exact ih h
  | case5 d ds n ns hc hm ih =>
    rcases List.mem_append.1 h with h | h
    · exact (mem_existingEvs_additional h).2.2
    · rcases List.mem_cons.1 h with h | h
      · cases h
      · exact ih h
  | case6 d ds n ns hc hm ih =>
    rcases List.mem_cons.1 h with h | h
    · cases h
    · rcases List.mem_cons.1 h with h | h
      · cases h
      · exact ih h
  | case7 d ds n ns hc ih =>
    rcases List.mem_cons.1 h with h | h
    · cases h
    · exact ih h

/-- the paths classified `additional` -/
def additionalOf : List (Ev P) → List P
  | [] => []
  | .additional p _ _ :: l => p :: additionalOf l
  | _ :: l => additionalOf l

theorem removedOf_eq (evs : List (Ev P)) (b : Bool) (h : ∀ p d r, Ev.additional p d r ∈ evs → r = b) :
    removedOf evs = if b then additionalOf evs else [] := by
  induction evs with
  | nil => cases b <;> rfl
  | cons e evs ih =>
    have ih' := ih (fun p d r hm => h p d r (List.mem_cons_of_mem _ hm))
    cases e with
    | additional p d r =>
      have hr := h p d r List.mem_cons_self
      subst hr
      cases r <;> simp [removedOf, additionalOf, ih']
    | matched p => simpa [removedOf, additionalOf] using ih'
    | skipped p => simpa [removedOf, additionalOf] using ih'
    | node p k e => simpa [removedOf, additionalOf] using ih'

/-- a node is reported as existing only if the destination listing holds an entry comparing equal to its path -/
theorem walk_exist_sound (c : Cfg P) (ds : List (DEnt P)) (ns : List (NEnt P)) (p : P) (k : NKind)
    (h : Ev.node p k true ∈ walk c ds ns) : ∃ d ∈ ds, c.cmp d.path p = .eq := by
  fun_induction walk c ds ns with
  | case1 => cases h
  | case2 d ds ih =>
    rcases List.mem_append.1 h with h | h
    · simp [existingEvs] at h
    · obtain ⟨e, he, hq⟩ := ih h
      have : e ∈ (skipSplit c d ds).1 ++ (skipSplit c d ds).2 := List.mem_append_right _ he
      rw [skipSplit_append] at this
      exact ⟨e, List.mem_cons_of_mem _ this, hq⟩
  | case3 n ns ih =>
    rcases List.mem_cons.1 h with h | h
    · cases h
    · obtain ⟨d, hd, _⟩ := ih h; cases hd
  | case4 d ds n ns hc ih =>
    rcases List.mem_append.1 h with h | h
    · simp [existingEvs] at h
    · obtain ⟨e, he, hq⟩ := ih h
      have : e ∈ (skipSplit c d ds).1 ++ (skipSplit c d ds).2 := List.mem_append_right _ he
      rw [skipSplit_append] at this
      exact ⟨e, List.mem_cons_of_mem _ this, hq⟩
  | case5 d ds n ns hc hm ih =>
    rcases List.mem_append.1 h with h | h
    · simp [existingEvs] at h
    · rcases List.mem_cons.1 h with h | h
      · cases h
      · obtain ⟨e, he, hq⟩ := ih h
        have : e ∈ (skipSplit c d ds).1 ++ (skipSplit c d ds).2 := List.mem_append_right _ he
        rw [skipSplit_append] at this
        exact ⟨e, List.mem_cons_of_mem _ this, hq⟩
  | case6 d ds n ns hc hm ih =>
    rcases List.mem_cons.1 h with h | h
    · cases h
    · rcases List.mem_cons.1 h with h | h
      · injection h with h1 h2 h3
        subst h1
        exact ⟨d, List.mem_cons_self, hc⟩
      · obtain ⟨e, he, hq⟩ := ih h
        exact ⟨e, List.mem_cons_of_mem _ he, hq⟩
  | case7 d ds n ns hc ih =>
    rcases List.mem_cons.1 h with h | h
    · cases h
    · exact ih h

/-! ### what the classes mean when both streams are sorted by the comparison the walk uses -/

/-- `Path::cmp` is a strict total order (laws used by the semantic theorems only) -/
structure LawfulCmp (cmp : P → P → Ordering) : Prop where
  eq_iff : ∀ a b, cmp a b = .eq ↔ a = b
  lt_trans : ∀ a b c, cmp a b = .lt → cmp b c = .lt → cmp a c = .lt
  gt_iff : ∀ a b, cmp a b = .gt ↔ cmp b a = .lt

def SortedD (c : Cfg P) (ds : List (DEnt P)) : Prop := ds.Pairwise (fun a b => c.cmp a.path b.path = .lt)
def SortedN (c : Cfg P) (ns : List (NEnt P)) : Prop := ns.Pairwise (fun a b => c.cmp a.path b.path = .lt)

theorem LawfulCmp.lt_ne {cmp : P → P → Ordering} (L : LawfulCmp cmp) {a b : P} (h : cmp a b = .lt) : a ≠ b := by
  intro hab
  have := (L.eq_iff a b).2 hab
  rw [this] at h; cases h

theorem mem_skip2 {c : Cfg P} {d : DEnt P} {ds : List (DEnt P)} {e : DEnt P} (h : e ∈ (skipSplit c d ds).2) : e ∈ ds := by
  have : e ∈ (skipSplit c d ds).1 ++ (skipSplit c d ds).2 := List.mem_append_right _ h
  rwa [skipSplit_append] at this

theorem sortedD_skip {c : Cfg P} {d : DEnt P} {ds : List (DEnt P)} (h : SortedD c ds) : SortedD c (skipSplit c d ds).2 := by
  unfold skipSplit
  split
  · exact List.Pairwise.sublist (List.dropWhile_sublist _) h
  · exact h

theorem mem_additional_dst {evs : List (Ev P)} {p : P} {d r : Bool} (h : Ev.additional p d r ∈ evs) : p ∈ dstOf evs := by
  induction evs with
  | nil => cases h
  | cons e evs ih =>
    rcases List.mem_cons.1 h with h1 | h1
    · subst h1; simp [dstOf]
    · have := ih h1
      cases e <;> simp [dstOf, this]

theorem mem_node_nodesOf {evs : List (Ev P)} {p : P} {k : NKind} {e : Bool} (h : Ev.node p k e ∈ evs) :
    (p, k) ∈ nodesOf evs := by
  induction evs with
  | nil => cases h
  | cons x evs ih =>
    rcases List.mem_cons.1 h with h1 | h1
    · subst h1; simp [nodesOf]
    · have := ih h1
      cases x <;> simp [nodesOf, this]

theorem additional_path_mem {c : Cfg P} {ds : List (DEnt P)} {ns : List (NEnt P)} {p : P} {d r : Bool}
    (h : Ev.additional p d r ∈ walk c ds ns) : ∃ e ∈ ds, e.path = p := by
  have := mem_additional_dst h
  rw [walk_dst] at this
  simpa using this

theorem node_path_mem {c : Cfg P} {ds : List (DEnt P)} {ns : List (NEnt P)} {p : P} {k : NKind} {e : Bool}
    (h : Ev.node p k e ∈ walk c ds ns) : ∃ n ∈ ns, n.path = p := by
  have := mem_node_nodesOf h
  rw [walk_nodes] at this
  obtain ⟨n, hn, hq⟩ := List.mem_map.1 this
  exact ⟨n, hn, by injection hq⟩

/-- **additional = not in the snapshot.**  With both streams sorted, an entry is classified `additional` only if no node
has its path, or the node at its path has another type (then the code disposes of the entry first: the `Equal` arm). -/
theorem walk_additional_sound (c : Cfg P) (L : LawfulCmp c.cmp) (ds : List (DEnt P)) (ns : List (NEnt P))
    (hd : SortedD c ds) (hn : SortedN c ns) (p : P) (isDir r : Bool) (h : Ev.additional p isDir r ∈ walk c ds ns) :
    (∀ n ∈ ns, n.path ≠ p) ∨ (∃ n ∈ ns, ∃ d ∈ ds, n.path = p ∧ d.path = p ∧ mismatch n.kind d.kind = true) := by
  fun_induction walk c ds ns with
  | case1 => cases h
  | case2 d ds ih => exact Or.inl (fun n hn => by cases hn)
  | case3 n ns ih =>
    rcases List.mem_cons.1 h with h | h
    · cases h
    · obtain ⟨e, he, _⟩ := additional_path_mem h
      cases he
  | case4 d ds n ns hc ih =>
    have hdl : ∀ e ∈ ds, c.cmp d.path e.path = .lt := fun e he => List.rel_of_pairwise_cons hd he
    have hnl : ∀ e ∈ ns, c.cmp n.path e.path = .lt := fun e he => List.rel_of_pairwise_cons hn he
    rcases List.mem_append.1 h with h | h
    · obtain ⟨hp, _, _⟩ := mem_existingEvs_additional h
      subst hp
      refine Or.inl (fun n' hn' => ?_)
      rcases List.mem_cons.1 hn' with h1 | h1
      · subst h1; exact fun hq => L.lt_ne hc hq.symm
      · exact fun hq => L.lt_ne (L.lt_trans _ _ _ hc (hnl _ h1)) hq.symm
    · rcases ih (sortedD_skip (List.Pairwise.of_cons hd)) hn h with h1 | ⟨n', hn', e, he, hq⟩
      · exact Or.inl h1
      · exact Or.inr ⟨n', hn', e, List.mem_cons_of_mem _ (mem_skip2 he), hq⟩
  | case5 d ds n ns hc hm ih =>
    have hdl : ∀ e ∈ ds, c.cmp d.path e.path = .lt := fun e he => List.rel_of_pairwise_cons hd he
    have hpe := (L.eq_iff _ _).1 hc
    rcases List.mem_append.1 h with h | h
    · obtain ⟨hp, _, _⟩ := mem_existingEvs_additional h
      subst hp
      exact Or.inr ⟨n, List.mem_cons_self, d, List.mem_cons_self, hpe.symm, rfl, hm⟩
    · rcases List.mem_cons.1 h with h | h
      · cases h
      · obtain ⟨e, he, hep⟩ := additional_path_mem h
        have hlt : c.cmp n.path p = .lt := by rw [← hpe, ← hep]; exact hdl _ (mem_skip2 he)
        rcases ih (sortedD_skip (List.Pairwise.of_cons hd)) (List.Pairwise.of_cons hn) h with h1 | ⟨n', hn', e', he', hq⟩
        · refine Or.inl (fun n' hn' => ?_)
          rcases List.mem_cons.1 hn' with h2 | h2
          · subst h2; exact L.lt_ne hlt
          · exact h1 n' h2
        · exact Or.inr ⟨n', List.mem_cons_of_mem _ hn', e', List.mem_cons_of_mem _ (mem_skip2 he'), hq⟩
  | case6 d ds n ns hc hm ih =>
    have hdl : ∀ e ∈ ds, c.cmp d.path e.path = .lt := fun e he => List.rel_of_pairwise_cons hd he
    have hpe := (L.eq_iff _ _).1 hc
    rcases List.mem_cons.1 h with h | h
    · cases h
    · rcases List.mem_cons.1 h with h | h
      · cases h
      · obtain ⟨e, he, hep⟩ := additional_path_mem h
        have hlt : c.cmp n.path p = .lt := by rw [← hpe, ← hep]; exact hdl _ he
        rcases ih (List.Pairwise.of_cons hd) (List.Pairwise.of_cons hn) h with h1 | ⟨n', hn', e', he', hq⟩
        · refine Or.inl (fun n' hn' => ?_)
          rcases List.mem_cons.1 hn' with h2 | h2
          · subst h2; exact L.lt_ne hlt
          · exact h1 n' h2
        · exact Or.inr ⟨n', List.mem_cons_of_mem _ hn', e', List.mem_cons_of_mem _ he', hq⟩
  | case7 d ds n ns hc ih =>
    have hdl : ∀ e ∈ ds, c.cmp d.path e.path = .lt := fun e he => List.rel_of_pairwise_cons hd he
    have hnd : c.cmp n.path d.path = .lt := (L.gt_iff _ _).1 hc
    rcases List.mem_cons.1 h with h | h
    · cases h
    · obtain ⟨e, he, hep⟩ := additional_path_mem h
      have hlt : c.cmp n.path p = .lt := by
        rw [← hep]
        rcases List.mem_cons.1 he with h2 | h2
        · subst h2; exact hnd
        · exact L.lt_trans _ _ _ hnd (hdl _ h2)
      rcases ih hd (List.Pairwise.of_cons hn) h with h1 | ⟨n', hn', e', he', hq⟩
      · refine Or.inl (fun n' hn' => ?_)
        rcases List.mem_cons.1 hn' with h2 | h2
        · subst h2; exact L.lt_ne hlt
        · exact h1 n' h2
      · exact Or.inr ⟨n', List.mem_cons_of_mem _ hn', e', he', hq⟩

theorem skipped_mem_existingEvs {c : Cfg P} {d : DEnt P} {ds : List (DEnt P)} {e : DEnt P} (h : e ∈ (skipSplit c d ds).1) :
    Ev.skipped e.path ∈ existingEvs c d ds := by
  simp only [existingEvs, List.mem_cons, List.mem_map]
  exact Or.inr ⟨e, h, rfl⟩

theorem mem_takeWhile_true {α : Type} {p : α → Bool} {l : List α} {a : α} (h : a ∈ l.takeWhile p) : p a = true := by
  induction l with
  | nil => cases h
  | cons x rest ih =>
    simp only [List.takeWhile_cons] at h
    split at h
    · rename_i hx
      rcases List.mem_cons.1 h with h | h
      · rw [h]; exact hx
      · exact ih h
    · cases h

theorem mem_existingEvs_skipped {c : Cfg P} {d : DEnt P} {rest : List (DEnt P)} {q : P}
    (h : Ev.skipped q ∈ existingEvs c d rest) : d.kind = .dir ∧ c.under d.path q = true := by
  simp only [existingEvs, List.mem_cons, List.mem_map] at h
  rcases h with h | ⟨e, he, heq⟩
  · cases h
  · injection heq with hq
    subst hq
    unfold skipSplit at he
    split at he
    · rename_i hk
      exact ⟨hk, mem_takeWhile_true (p := fun e : DEnt P => c.under d.path e.path) (l := rest) he⟩
    · cases he

theorem additional_head_mem (c : Cfg P) (d : DEnt P) (rest : List (DEnt P)) (hk : d.kind = .dir) :
    Ev.additional d.path true (c.delete && !c.dryRun) ∈ existingEvs c d rest := by
  simp [existingEvs, hk]

/-- every entry the walk never visits (`skip_current_dir`) lies below a DIRECTORY entry that was disposed of as `additional` -/
theorem walk_skipped_origin (c : Cfg P) (ds : List (DEnt P)) (ns : List (NEnt P)) (q : P)
    (h : Ev.skipped q ∈ walk c ds ns) :
    ∃ d ∈ ds, d.kind = .dir ∧ c.under d.path q = true ∧ ∃ r, Ev.additional d.path true r ∈ walk c ds ns := by
  fun_induction walk c ds ns with
  | case1 => cases h
  | case2 d ds ih =>
    rcases List.mem_append.1 h with h | h
    · obtain ⟨hk, hu⟩ := mem_existingEvs_skipped h
      exact ⟨d, List.mem_cons_self, hk, hu, _, List.mem_append_left _ (additional_head_mem c d ds hk)⟩
    · obtain ⟨e, he, hk, hu, r, hr⟩ := ih h
      exact ⟨e, List.mem_cons_of_mem _ (mem_skip2 he), hk, hu, r, List.mem_append_right _ hr⟩
  | case3 n ns ih =>
    rcases List.mem_cons.1 h with h | h
    · cases h
    · obtain ⟨e, he, _⟩ := ih h
      cases he
  | case4 d ds n ns hc ih =>
    rcases List.mem_append.1 h with h | h
    · obtain ⟨hk, hu⟩ := mem_existingEvs_skipped h
      exact ⟨d, List.mem_cons_self, hk, hu, _, List.mem_append_left _ (additional_head_mem c d ds hk)⟩
    · obtain ⟨e, he, hk, hu, r, hr⟩ := ih h
      exact ⟨e, List.mem_cons_of_mem _ (mem_skip2 he), hk, hu, r, List.mem_append_right _ hr⟩
  | case5 d ds n ns hc hm ih =>
    rcases List.mem_append.1 h with h | h
    · obtain ⟨hk, hu⟩ := mem_existingEvs_skipped h
      exact ⟨d, List.mem_cons_self, hk, hu, _, List.mem_append_left _ (additional_head_mem c d ds hk)⟩
    · rcases List.mem_cons.1 h with h | h
      · cases h
      · obtain ⟨e, he, hk, hu, r, hr⟩ := ih h
        exact ⟨e, List.mem_cons_of_mem _ (mem_skip2 he), hk, hu, r, List.mem_append_right _ (List.mem_cons_of_mem _ hr)⟩
  | case6 d ds n ns hc hm ih =>
    rcases List.mem_cons.1 h with h | h
    · cases h
    · rcases List.mem_cons.1 h with h | h
      · cases h
      · obtain ⟨e, he, hk, hu, r, hr⟩ := ih h
        exact ⟨e, List.mem_cons_of_mem _ he, hk, hu, r, List.mem_cons_of_mem _ (List.mem_cons_of_mem _ hr)⟩
  | case7 d ds n ns hc ih =>
    rcases List.mem_cons.1 h with h | h
    · cases h
    · obtain ⟨e, he, hk, hu, r, hr⟩ := ih h
      exact ⟨e, he, hk, hu, r, List.mem_cons_of_mem _ hr⟩

/-- members of a sorted stream are determined by their path -/
theorem sorted_path_unique {α : Type} {cmp : P → P → Ordering} (L : LawfulCmp cmp) (f : α → P) {l : List α}
    (h : l.Pairwise (fun a b => cmp (f a) (f b) = .lt)) : ∀ a ∈ l, ∀ b ∈ l, f a = f b → a = b := by
  induction l with
  | nil => intro a ha; cases ha
  | cons x rest ih =>
    intro a ha b hb hab
    have hx : ∀ e ∈ rest, cmp (f x) (f e) = .lt := fun e he => List.rel_of_pairwise_cons h he
    rcases List.mem_cons.1 ha with ha1 | ha1
    · rcases List.mem_cons.1 hb with hb1 | hb1
      · rw [ha1, hb1]
      · rw [ha1] at hab; exact absurd hab (L.lt_ne (hx b hb1))
    · rcases List.mem_cons.1 hb with hb1 | hb1
      · rw [hb1] at hab; exact absurd hab.symm (L.lt_ne (hx a ha1))
      · exact ih (List.Pairwise.of_cons h) a ha1 b hb1 hab

theorem mem_skip_cases {c : Cfg P} {d : DEnt P} {ds : List (DEnt P)} {e : DEnt P} (h : e ∈ ds) :
    e ∈ (skipSplit c d ds).1 ∨ e ∈ (skipSplit c d ds).2 := by
  rw [← skipSplit_append c d ds] at h
  exact List.mem_append.1 h

/-- **to-create = not usable in the destination.**  With both streams sorted, a node is handed to `process_node` with
`exists = false` only if every destination entry at its path lies below an additional directory (never visited) or was
itself disposed of as `additional` (type mismatch). -/
theorem walk_tocreate_sound (c : Cfg P) (L : LawfulCmp c.cmp) (ds : List (DEnt P)) (ns : List (NEnt P))
    (hd : SortedD c ds) (hn : SortedN c ns) (p : P) (k : NKind) (h : Ev.node p k false ∈ walk c ds ns) :
    ∀ e ∈ ds, e.path = p → Ev.skipped p ∈ walk c ds ns ∨ ∃ isDir r, Ev.additional p isDir r ∈ walk c ds ns := by
  fun_induction walk c ds ns with
  | case1 => cases h
  | case2 d ds ih =>
    rcases List.mem_append.1 h with h | h
    · simp [existingEvs] at h
    · obtain ⟨n, hn', _⟩ := node_path_mem h; cases hn'
  | case3 n ns ih => intro e he; cases he
  | case4 d ds n ns hc ih =>
    have hnl : ∀ e ∈ ns, c.cmp n.path e.path = .lt := fun e he => List.rel_of_pairwise_cons hn he
    rcases List.mem_append.1 h with h | h
    · simp [existingEvs] at h
    · obtain ⟨n', hn', hnp⟩ := node_path_mem h
      have hlt : c.cmp d.path p = .lt := by
        rw [← hnp]
        rcases List.mem_cons.1 hn' with h2 | h2
        · subst h2; exact hc
        · exact L.lt_trans _ _ _ hc (hnl _ h2)
      intro e he hep
      rcases List.mem_cons.1 he with h2 | h2
      · subst h2; exact absurd hep (L.lt_ne hlt)
      · rcases mem_skip_cases (c := c) (d := d) h2 with h3 | h3
        · rw [← hep]; exact Or.inl (List.mem_append_left _ (skipped_mem_existingEvs h3))
        · rcases ih (sortedD_skip (List.Pairwise.of_cons hd)) hn h e h3 hep with h4 | ⟨i, r, h4⟩
          · exact Or.inl (List.mem_append_right _ h4)
          · exact Or.inr ⟨i, r, List.mem_append_right _ h4⟩
  | case5 d ds n ns hc hm ih =>
    have hnl : ∀ e ∈ ns, c.cmp n.path e.path = .lt := fun e he => List.rel_of_pairwise_cons hn he
    have hdl : ∀ e ∈ ds, c.cmp d.path e.path = .lt := fun e he => List.rel_of_pairwise_cons hd he
    have hpe := (L.eq_iff _ _).1 hc
    rcases List.mem_append.1 h with h | h
    · simp [existingEvs] at h
    · rcases List.mem_cons.1 h with h | h
      · -- the node of the `Equal` arm itself: its counterpart `d` was disposed of as additional
        injection h with h1 h2 h3
        subst h1
        intro e he hep
        rcases List.mem_cons.1 he with h2 | h2
        · refine Or.inr ⟨decide (d.kind = .dir), (c.delete && !c.dryRun), List.mem_append_left _ ?_⟩
          rw [← hpe]
          exact List.mem_cons_self
        · exact absurd (hep.trans hpe.symm).symm (L.lt_ne (hdl _ h2))
      · obtain ⟨n', hn', hnp⟩ := node_path_mem h
        have hlt : c.cmp d.path p = .lt := by rw [← hnp, hpe]; exact hnl _ hn'
        intro e he hep
        rcases List.mem_cons.1 he with h2 | h2
        · subst h2; exact absurd hep (L.lt_ne hlt)
        · rcases mem_skip_cases (c := c) (d := d) h2 with h3 | h3
          · rw [← hep]; exact Or.inl (List.mem_append_left _ (skipped_mem_existingEvs h3))
          · rcases ih (sortedD_skip (List.Pairwise.of_cons hd)) (List.Pairwise.of_cons hn) h e h3 hep with h4 | ⟨i, r, h4⟩
            · exact Or.inl (List.mem_append_right _ (List.mem_cons_of_mem _ h4))
            · exact Or.inr ⟨i, r, List.mem_append_right _ (List.mem_cons_of_mem _ h4)⟩
  | case6 d ds n ns hc hm ih =>
    have hnl : ∀ e ∈ ns, c.cmp n.path e.path = .lt := fun e he => List.rel_of_pairwise_cons hn he
    have hpe := (L.eq_iff _ _).1 hc
    rcases List.mem_cons.1 h with h | h
    · cases h
    · rcases List.mem_cons.1 h with h | h
      · cases h
      · obtain ⟨n', hn', hnp⟩ := node_path_mem h
        have hlt : c.cmp d.path p = .lt := by rw [← hnp, hpe]; exact hnl _ hn'
        intro e he hep
        rcases List.mem_cons.1 he with h2 | h2
        · subst h2; exact absurd hep (L.lt_ne hlt)
        · rcases ih (List.Pairwise.of_cons hd) (List.Pairwise.of_cons hn) h e h2 hep with h4 | ⟨i, r, h4⟩
          · exact Or.inl (List.mem_cons_of_mem _ (List.mem_cons_of_mem _ h4))
          · exact Or.inr ⟨i, r, List.mem_cons_of_mem _ (List.mem_cons_of_mem _ h4)⟩
  | case7 d ds n ns hc ih =>
    have hdl : ∀ e ∈ ds, c.cmp d.path e.path = .lt := fun e he => List.rel_of_pairwise_cons hd he
    have hnd : c.cmp n.path d.path = .lt := (L.gt_iff _ _).1 hc
    have hall : ∀ e ∈ d :: ds, c.cmp n.path e.path = .lt := by
      intro e he
      rcases List.mem_cons.1 he with h2 | h2
      · subst h2; exact hnd
      · exact L.lt_trans _ _ _ hnd (hdl _ h2)
    rcases List.mem_cons.1 h with h | h
    · injection h with h1 h2 h3
      subst h1
      intro e he hep
      exact absurd hep.symm (L.lt_ne (hall e he))
    · intro e he hep
      rcases ih hd (List.Pairwise.of_cons hn) h e he hep with h4 | ⟨i, r, h4⟩
      · exact Or.inl (List.mem_cons_of_mem _ h4)
      · exact Or.inr ⟨i, r, List.mem_cons_of_mem _ h4⟩

/-- a destination entry is consumed as `matched` only for a node with an equal path and a compatible type -/
theorem walk_matched_sound (c : Cfg P) (ds : List (DEnt P)) (ns : List (NEnt P)) (p : P)
    (h : Ev.matched p ∈ walk c ds ns) :
    ∃ d ∈ ds, ∃ n ∈ ns, d.path = p ∧ c.cmp d.path n.path = .eq ∧ mismatch n.kind d.kind = false := by
  fun_induction walk c ds ns with
  | case1 => cases h
  | case2 d ds ih =>
    rcases List.mem_append.1 h with h | h
    · simp [existingEvs] at h
    · obtain ⟨e, he, n, hn, _⟩ := ih h; cases hn
  | case3 n ns ih =>
    rcases List.mem_cons.1 h with h | h
    · cases h
    · obtain ⟨e, he, _⟩ := ih h; cases he
  | case4 d ds n ns hc ih =>
    rcases List.mem_append.1 h with h | h
    · simp [existingEvs] at h
    · obtain ⟨e, he, n', hn', hq⟩ := ih h
      exact ⟨e, List.mem_cons_of_mem _ (mem_skip2 he), n', hn', hq⟩
  | case5 d ds n ns hc hm ih =>
    rcases List.mem_append.1 h with h | h
    · simp [existingEvs] at h
    · rcases List.mem_cons.1 h with h | h
      · cases h
      · obtain ⟨e, he, n', hn', hq⟩ := ih h
        exact ⟨e, List.mem_cons_of_mem _ (mem_skip2 he), n', List.mem_cons_of_mem _ hn', hq⟩
  | case6 d ds n ns hc hm ih =>
    rcases List.mem_cons.1 h with h | h
    · injection h with h1
      subst h1
      exact ⟨d, List.mem_cons_self, n, List.mem_cons_self, rfl, hc, by simpa using hm⟩
    · rcases List.mem_cons.1 h with h | h
      · cases h
      · obtain ⟨e, he, n', hn', hq⟩ := ih h
        exact ⟨e, List.mem_cons_of_mem _ he, n', List.mem_cons_of_mem _ hn', hq⟩
  | case7 d ds n ns hc ih =>
    rcases List.mem_cons.1 h with h | h
    · cases h
    · obtain ⟨e, he, n', hn', hq⟩ := ih h
      exact ⟨e, he, n', List.mem_cons_of_mem _ hn', hq⟩

/-! ### RestorePlan: the warm-up list covers the pack reads -/

theorem mem_dedup (a : Nat) (l : List Nat) : a ∈ dedup l ↔ a ∈ l := by
  fun_induction dedup l with
  | case1 => simp
  | case2 x => simp
  | case3 x l ih => rw [ih]; simp
  | case4 x y l h ih => rw [List.mem_cons, ih]; simp

theorem packInfoOf_fromFile_none (e : REntry) : (packInfoOf e).fromFile = none ↔ needsPack e = true := by
  simp [packInfoOf, needsPack, List.find?_eq_none, List.all_eq_true]

/-- a coalesced group carries the pack id and the `from_file` of its first member -/
theorem coalesceFrom_origin (hole limit : Nat) (cur : PackInfo) (l : List PackInfo) :
    ∀ pi ∈ coalesceFrom hole limit cur l, ∃ q ∈ cur :: l, q.pack = pi.pack ∧ q.fromFile = pi.fromFile := by
  induction l generalizing cur with
  | nil => intro pi h; simp [coalesceFrom] at h; exact ⟨cur, List.mem_cons_self, by rw [h], by rw [h]⟩
  | cons o l ih =>
    intro pi h
    simp only [coalesceFrom] at h
    split at h
    · obtain ⟨q, hq, h1, h2⟩ := ih (merge cur o) pi h
      rcases List.mem_cons.1 hq with hq | hq
      · subst hq; exact ⟨cur, List.mem_cons_self, h1, h2⟩
      · exact ⟨q, List.mem_cons_of_mem _ (List.mem_cons_of_mem _ hq), h1, h2⟩
    · rcases List.mem_cons.1 h with h | h
      · exact ⟨cur, List.mem_cons_self, by rw [h], by rw [h]⟩
      · obtain ⟨q, hq, h1, h2⟩ := ih o pi h
        exact ⟨q, List.mem_cons_of_mem _ hq, h1, h2⟩

theorem coalesceAll_origin (hole limit : Nat) (l : List PackInfo) :
    ∀ pi ∈ coalesceAll hole limit l, ∃ q ∈ l, q.pack = pi.pack ∧ q.fromFile = pi.fromFile := by
  cases l with
  | nil => intro pi h; cases h
  | cons o l => exact coalesceFrom_origin hole limit o l

theorem mem_packReads {hole limit : Nat} {r : RInfo} {p : Nat} (h : p ∈ packReads hole limit r) :
    ∃ pi ∈ packInfos hole limit r, pi.pack = p ∧ pi.fromFile = none := by
  simp only [packReads, readsOf, List.mem_filterMap] at h
  obtain ⟨rd, ⟨pi, hpi, hrd⟩, hp⟩ := h
  refine ⟨pi, hpi, ?_⟩
  unfold readOf at hrd
  split at hrd
  · cases hrd
  · split at hrd
    · injection hrd with hrd; subst hrd; cases hp
    · rename_i hn
      injection hrd with hrd; subst hrd
      injection hp with hp
      exact ⟨hp, hn⟩

/-- **every pack `restore_contents` reads is in `to_packs()`** — for every plan (every sequence of `add_file` calls, every
matching pattern) and every coalescing limit -/
theorem packReads_subset_toPacks (hole limit : Nat) (r : RInfo) : ∀ p ∈ packReads hole limit r, p ∈ toPacks r := by
  intro p h
  obtain ⟨pi, hpi, hp, hf⟩ := mem_packReads h
  obtain ⟨q, hq, hq1, hq2⟩ := coalesceAll_origin hole limit _ pi hpi
  obtain ⟨e, he, heq⟩ := List.mem_map.1 hq
  subst heq
  rw [hf] at hq2
  have hneed := (packInfoOf_fromFile_none e).1 hq2
  unfold toPacks
  rw [mem_dedup]
  refine List.mem_map.2 ⟨e, List.mem_filter.2 ⟨he, hneed⟩, ?_⟩
  rw [← hp, ← hq1]; rfl

/-! the converse: the warm-up list names only packs that are read -/

theorem coalesceFrom_blobs_ne (hole limit : Nat) (cur : PackInfo) (l : List PackInfo)
    (hc : cur.blobs ≠ []) (hl : ∀ q ∈ l, q.blobs ≠ []) : ∀ pi ∈ coalesceFrom hole limit cur l, pi.blobs ≠ [] := by
  induction l generalizing cur with
  | nil => intro pi h; simp [coalesceFrom] at h; rw [h]; exact hc
  | cons o l ih =>
    intro pi h
    simp only [coalesceFrom] at h
    split at h
    · exact ih (merge cur o) (by simp [merge, hc]) (fun q hq => hl q (List.mem_cons_of_mem _ hq)) pi h
    · rcases List.mem_cons.1 h with h | h
      · rw [h]; exact hc
      · exact ih o (hl o List.mem_cons_self) (fun q hq => hl q (List.mem_cons_of_mem _ hq)) pi h

/-- every input member ends in a group of its pack; if it has no `from_file`, so has the group -/
theorem coalesceFrom_covers (hole limit : Nat) (cur : PackInfo) (l : List PackInfo) :
    ∀ q ∈ cur :: l, q.fromFile = none →
      ∃ pi ∈ coalesceFrom hole limit cur l, pi.pack = q.pack ∧ pi.fromFile = none := by
  induction l generalizing cur with
  | nil =>
    intro q hq hf
    simp only [List.mem_cons, List.not_mem_nil, or_false] at hq
    subst hq
    exact ⟨q, by simp [coalesceFrom], rfl, hf⟩
  | cons o l ih =>
    intro q hq hf
    simp only [coalesceFrom]
    split
    · rename_i hcc
      have hcc' := hcc
      simp only [canCoalesce, Bool.and_eq_true, beq_iff_eq, Option.isNone_iff_eq_none] at hcc'
      rcases List.mem_cons.1 hq with hq | hq
      · subst hq
        obtain ⟨pi, hpi, h1, h2⟩ := ih (merge q o) (merge q o) List.mem_cons_self (by simp [merge, hf])
        exact ⟨pi, hpi, h1, h2⟩
      · rcases List.mem_cons.1 hq with hq | hq
        · subst hq
          obtain ⟨pi, hpi, h1, h2⟩ := ih (merge cur q) (merge cur q) List.mem_cons_self (by simp [merge, hcc'.1.2])
          exact ⟨pi, hpi, by rw [h1]; simp [merge, hcc'.1.1], h2⟩
        · exact ih (merge cur o) q (List.mem_cons_of_mem _ hq) hf
    · rcases List.mem_cons.1 hq with hq | hq
      · subst hq; exact ⟨q, List.mem_cons_self, rfl, hf⟩
      · obtain ⟨pi, hpi, h1, h2⟩ := ih o q hq hf
        exact ⟨pi, List.mem_cons_of_mem _ hpi, h1, h2⟩

/-- **`to_packs()` names only packs that are read** -/
theorem toPacks_subset_packReads (hole limit : Nat) (r : RInfo) : ∀ p ∈ toPacks r, p ∈ packReads hole limit r := by
  intro p h
  unfold toPacks at h
  rw [mem_dedup] at h
  obtain ⟨e, he, hp⟩ := List.mem_map.1 h
  obtain ⟨her, hneed⟩ := List.mem_filter.1 he
  have hf := (packInfoOf_fromFile_none e).2 hneed
  have hmem : packInfoOf e ∈ r.map packInfoOf := List.mem_map.2 ⟨e, her, rfl⟩
  have hall : ∀ q ∈ r.map packInfoOf, q.blobs ≠ [] := by
    intro q hq
    obtain ⟨e', _, rfl⟩ := List.mem_map.1 hq
    simp [packInfoOf]
  cases hr : r.map packInfoOf with
  | nil => rw [hr] at hmem; cases hmem
  | cons o l =>
    rw [hr] at hmem hall
    obtain ⟨pi, hpi, h1, h2⟩ := coalesceFrom_covers hole limit o l _ hmem hf
    have hb := coalesceFrom_blobs_ne hole limit o l (hall o List.mem_cons_self)
      (fun q hq => hall q (List.mem_cons_of_mem _ hq)) pi hpi
    simp only [packReads, readsOf, List.mem_filterMap]
    refine ⟨Read.pack pi.pack pi.offset pi.length, ⟨pi, ?_, ?_⟩, ?_⟩
    · simp only [packInfos, hr, coalesceAll]; exact hpi
    · unfold readOf
      have : pi.blobs.isEmpty = false := by cases hbb : pi.blobs with | nil => exact absurd hbb hb | cons _ _ => rfl
      simp [this, h2]
    · simp only [h1]; rw [← hp]; rfl

end Rustic.RestoreWalk
