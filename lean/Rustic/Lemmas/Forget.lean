import Rustic.Model.Forget
/-
The declarative retention specification `keepSpec` (written from the property statement, independent of
the counter loop) and the lemmas that tie `Model/Forget.lean`'s loop to it.
-/
namespace Rustic.Forget
open Rustic.Calendar

/-! ### the specification -/

inductive Kind where
  | prot        -- delete-never, or delete-after in the future
  | expd        -- delete-after time has passed
  | unch        -- delete-unchanged is set and the next-older snapshot has the same tree
  | ord
  deriving Repr, DecidableEq

/-- a snapshot with its neighbours in the newest-first list. -/
structure Ctx where
  prev : Option Snap   -- the next-newer snapshot
  sn : Snap
  next : Option Snap   -- the next-older snapshot

def ctxFrom (prev : Option Snap) : List Snap → List Ctx
  | [] => []
  | sn :: rest => ⟨prev, sn, rest.head?⟩ :: ctxFrom (some sn) rest

def kind (o : KeepOptions) (now : Int) (c : Ctx) : Kind :=
  if mustKeep c.sn now then .prot
  else if mustDelete c.sn now then .expd
  else if o.deleteUnchanged && (match c.next with
      | some nx => nx.tree == c.sn.tree
      | none => false) then .unch
  else .ord

/-- X-head: the oldest snapshot of all, or the newest of all, or its newer neighbour lies in another
X-period. -/
def headOf (eq : Snap → Snap → Bool) (c : Ctx) : Bool :=
  c.next.isNone || match c.prev with
    | none => true
    | some p => !eq c.sn p

def ordHead (o : KeepOptions) (now : Int) (eq : Snap → Snap → Bool) (c : Ctx) : Bool :=
  kind o now c == .ord && headOf eq c

/-- rank among the ordinary X-heads = number of ordinary X-heads among the newer snapshots `seen`. -/
def rank (o : KeepOptions) (now : Int) (eq : Snap → Snap → Bool) (seen : List Ctx) : Nat :=
  seen.countP (ordHead o now eq)

/-- the count rule: `N = -1` (any negative) keeps all heads, otherwise the first `N` ordinary heads. -/
def countKeeps (N : Option Int) (rank : Nat) : Bool :=
  match N with
  | none => false
  | some n => n < 0 || (rank : Int) < n

def specSlot (o : KeepOptions) (now latest : Int) (seen : List Ctx) (c : Ctx) (rs : Rule × Slot) : List String :=
  if headOf rs.1.eq c then
    (if countKeeps rs.2.count (rank o now rs.1.eq seen) then [rs.1.reason1] else [])
      ++ (if withinHit rs.2.within c.sn latest then [rs.1.reason2] else [])
  else []

def specReasons (o : KeepOptions) (now latest : Int) (seen : List Ctx) (c : Ctx) : List String :=
  (if idHit o c.sn then ["id"] else []) ++ (if tagHit o c.sn then ["tags"] else [])
    ++ (rules.zip o.slots).flatMap (specSlot o now latest seen c)

def specOne (o : KeepOptions) (now latest : Int) (seen : List Ctx) (c : Ctx) : Out :=
  match kind o now c with
  | .prot => ⟨c.sn, true, ["snapshot"]⟩
  | .expd => ⟨c.sn, false, ["snapshot"]⟩
  | .unch => ⟨c.sn, false, ["unchanged"]⟩
  | .ord => ⟨c.sn, !(specReasons o now latest seen c).isEmpty, specReasons o now latest seen c⟩

/-- The specification: the decision for the `i`-th newest snapshot is a function of its neighbours and
of the snapshots newer than it (`cs.take i`) only. -/
def keepSpec (o : KeepOptions) (sorted : List Snap) (now : Int) : List Out :=
  match sorted with
  | [] => []
  | first :: _ =>
    let cs := ctxFrom none sorted
    cs.mapIdx (fun i c => specOne o now first.time (cs.take i) c)

/-- accumulator form of `keepSpec` used in the refinement proof. -/
def specFrom (o : KeepOptions) (now latest : Int) (seen : List Ctx) : List Ctx → List Out
  | [] => []
  | c :: cs => specOne o now latest seen c :: specFrom o now latest (seen ++ [c]) cs

theorem specFrom_eq_mapIdx (o : KeepOptions) (now latest : Int) (cs seen : List Ctx) :
    specFrom o now latest seen cs = cs.mapIdx (fun i c => specOne o now latest (seen ++ cs.take i) c) := by
  induction cs generalizing seen with
  | nil => simp [specFrom]
  | cons c cs ih =>
    simp only [specFrom, List.mapIdx_cons, List.take_zero, List.append_nil, List.take_succ_cons]
    rw [ih]
    simp

theorem keepSpec_eq_specFrom (o : KeepOptions) (sorted : List Snap) (now : Int) :
    keepSpec o sorted now = match sorted with
      | [] => []
      | first :: _ => specFrom o now first.time [] (ctxFrom none sorted) := by
  cases sorted with
  | nil => rfl
  | cons a t => simp [keepSpec, specFrom_eq_mapIdx]

/-! ### the loop invariant -/

/-- value of a counter that started at `N` after `r` ordinary heads. -/
def cnt (N : Option Int) (r : Nat) : Option Int :=
  N.map (fun n => if n < 0 then n else max 0 (n - r))

theorem cnt_zero (N : Option Int) : cnt N 0 = N := by
  cases N with
  | none => rfl
  | some n =>
    simp only [cnt, Option.map_some, Option.some.injEq]
    split <;> omega

theorem stepCount_cnt (N : Option Int) (r : Nat) :
    stepCount (cnt N r) = (countKeeps N r, cnt N (r + 1)) := by
  cases N with
  | none => rfl
  | some n =>
    simp only [cnt, Option.map_some, stepCount, countKeeps]
    by_cases h : n < 0
    · have h0 : n ≠ 0 := by omega
      have h1 : ¬ n > 0 := by omega
      simp [h, h0, h1]
    · simp only [h, if_false, decide_false, Bool.false_or]
      by_cases h2 : (r : Int) < n
      · have : max 0 (n - (r : Int)) ≠ 0 := by omega
        have h3 : max 0 (n - (r : Int)) > 0 := by omega
        simp only [bne_iff_ne, ne_eq, this, not_false_eq_true, if_true, h3, h2, decide_true, Prod.mk.injEq,
          Option.some.injEq, true_and]
        push_cast
        omega
      · have : max 0 (n - (r : Int)) = 0 := by omega
        simp only [this, bne_self_eq_false, Bool.false_eq_true, if_false, h2, decide_false, Prod.mk.injEq,
          Option.some.injEq, true_and]
        push_cast
        omega

def slotAfter (o : KeepOptions) (now : Int) (seen : List Ctx) (rs : Rule × Slot) : Slot :=
  { rs.2 with count := cnt rs.2.count (rank o now rs.1.eq seen) }

def slotsAfter (o : KeepOptions) (now : Int) (seen : List Ctx) (rules : List Rule) (slots : List Slot) : List Slot :=
  (rules.zip slots).map (slotAfter o now seen)

theorem isHead_eq_headOf (eq : Snap → Snap → Bool) (sn : Snap) (last : Option Snap) (rest : List Snap) :
    isHead eq sn last (!rest.isEmpty) = headOf eq ⟨last, sn, rest.head?⟩ := by
  cases rest <;> simp [isHead, headOf] <;> rfl

theorem rank_snoc (o : KeepOptions) (now : Int) (eq : Snap → Snap → Bool) (seen : List Ctx) (c : Ctx) :
    rank o now eq (seen ++ [c]) = rank o now eq seen + (if ordHead o now eq c then 1 else 0) := by
  simp [rank, List.countP_append, List.countP_cons]

theorem stepSlot_spec (o : KeepOptions) (now latest : Int) (seen : List Ctx) (sn : Snap) (last : Option Snap)
    (rest : List Snap) (r : Rule) (s : Slot)
    (hk : kind o now ⟨last, sn, rest.head?⟩ = .ord) :
    stepSlot r (slotAfter o now seen (r, s)) sn last (!rest.isEmpty) latest
      = (specSlot o now latest seen ⟨last, sn, rest.head?⟩ (r, s),
         slotAfter o now (seen ++ [⟨last, sn, rest.head?⟩]) (r, s)) := by
  simp only [stepSlot, isHead_eq_headOf, specSlot, slotAfter, rank_snoc, ordHead, hk, beq_self_eq_true, Bool.true_and]
  by_cases hh : headOf r.eq ⟨last, sn, rest.head?⟩
  · simp [hh, stepCount_cnt]
    rfl
  · simp [hh]

theorem matchSlots_spec (o : KeepOptions) (now latest : Int) (seen : List Ctx) (sn : Snap) (last : Option Snap)
    (rest : List Snap) (hk : kind o now ⟨last, sn, rest.head?⟩ = .ord) (rs : List Rule) (ss : List Slot) :
    matchSlots rs (slotsAfter o now seen rs ss) sn last (!rest.isEmpty) latest
      = ((rs.zip ss).flatMap (specSlot o now latest seen ⟨last, sn, rest.head?⟩),
         slotsAfter o now (seen ++ [⟨last, sn, rest.head?⟩]) rs ss) := by
  induction rs generalizing ss with
  | nil => simp [matchSlots, slotsAfter]
  | cons r rs ih =>
    cases ss with
    | nil => simp [matchSlots, slotsAfter]
    | cons s ss =>
      have ih' := ih ss
      simp only [slotsAfter] at ih' ⊢
      simp only [List.zip_cons_cons, List.map_cons, matchSlots, stepSlot_spec _ _ _ _ _ _ _ _ _ hk, ih',
        List.flatMap_cons]

theorem slotsAfter_nonordinary (o : KeepOptions) (now : Int) (seen : List Ctx) (c : Ctx)
    (hk : kind o now c ≠ .ord) (rs : List Rule) (ss : List Slot) :
    slotsAfter o now (seen ++ [c]) rs ss = slotsAfter o now seen rs ss := by
  have : ∀ eq, rank o now eq (seen ++ [c]) = rank o now eq seen := by
    intro eq
    simp [rank_snoc, ordHead, hk]
  simp [slotsAfter, slotAfter, this]

theorem slotsAfter_nil (o : KeepOptions) (now : Int) (rs : List Rule) (ss : List Slot)
    (h : ss.length ≤ rs.length) : slotsAfter o now [] rs ss = ss := by
  induction rs generalizing ss with
  | nil => cases ss <;> simp_all [slotsAfter]
  | cons r rs ih =>
    cases ss with
    | nil => simp [slotsAfter]
    | cons s ss =>
      have := ih ss (by simpa using h)
      simp only [slotsAfter] at this ⊢
      simp [this, slotAfter, rank, cnt_zero]

/-- inputs the real structure can hold: exactly one (counter, within) pair per entry of `keep_checks`. -/
def WF (o : KeepOptions) : Prop := o.slots.length = rules.length

instance (o : KeepOptions) : Decidable (WF o) := by unfold WF; infer_instance

theorem loop_eq_specFrom (self : KeepOptions) (now latest : Int) (rest : List Snap) :
    ∀ (seen : List Ctx) (last : Option Snap),
      loop self now latest { self with slots := slotsAfter self now seen rules self.slots } last rest
        = specFrom self now latest seen (ctxFrom last rest) := by
  induction rest with
  | nil => intro seen last; simp [loop, ctxFrom, specFrom]
  | cons sn rest ih =>
    intro seen last
    have ihn := ih (seen ++ [⟨last, sn, rest.head?⟩]) (some sn)
    simp only [ctxFrom, specFrom, specOne]
    unfold loop
    by_cases h1 : mustKeep sn now
    · have hk : kind self now ⟨last, sn, rest.head?⟩ = .prot := by simp [kind, h1]
      have hne : kind self now ⟨last, sn, rest.head?⟩ ≠ .ord := by simp [hk]
      rw [slotsAfter_nonordinary _ _ _ _ hne] at ihn
      simp only [h1, if_true, hk, ihn]
    · by_cases h2 : mustDelete sn now
      · have hk : kind self now ⟨last, sn, rest.head?⟩ = .expd := by simp [kind, h1, h2]
        have hne : kind self now ⟨last, sn, rest.head?⟩ ≠ .ord := by simp [hk]
        rw [slotsAfter_nonordinary _ _ _ _ hne] at ihn
        simp only [h1, h2, if_true, hk, ihn]
        simp
      · have hu : unchanged self sn rest = (self.deleteUnchanged && (match rest.head? with
            | some nx => nx.tree == sn.tree
            | none => false)) := by
          cases rest <;> simp [unchanged]
        by_cases h3 : unchanged self sn rest
        · have hk : kind self now ⟨last, sn, rest.head?⟩ = .unch := by
            rw [hu] at h3
            simp [kind, h1, h2, h3]
          have hne : kind self now ⟨last, sn, rest.head?⟩ ≠ .ord := by simp [hk]
          rw [slotsAfter_nonordinary _ _ _ _ hne] at ihn
          simp only [h1, h2, h3, if_true, hk, ihn]
          simp
        · have hk : kind self now ⟨last, sn, rest.head?⟩ = .ord := by
            rw [hu] at h3
            simp [kind, h1, h2, h3]
          simp only [h1, h2, h3, hk, keepMatches, matchSlots_spec _ _ _ _ _ _ _ hk, ihn, specReasons, idHit, tagHit]
          simp

theorem applySorted_eq_keepSpec (o : KeepOptions) (h : WF o) (sorted : List Snap) (now : Int) :
    applySorted o sorted now = keepSpec o sorted now := by
  rw [keepSpec_eq_specFrom]
  cases sorted with
  | nil => rfl
  | cons first t =>
    have := loop_eq_specFrom o now first.time (first :: t) [] none
    rw [slotsAfter_nil _ _ _ _ (by rw [h]; exact Nat.le_refl _)] at this
    simpa [applySorted] using this

end Rustic.Forget
