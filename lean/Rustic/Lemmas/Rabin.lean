/-
Correctness of the Rabin rolling hash model (`Rustic/Model/Rabin.lean`).

Part 1  GF(2)[x] on `Nat` (xor = addition, `clmul` = carry-less multiplication, congruence modulo `m`,
        uniqueness of reduced representatives).
Part 2  `modulo` computes THE polynomial remainder (T2) and is linear.
Part 3  `hashBlock` is the remainder of the byte string read as a big-endian polynomial (T3).
Part 4  table entries, one `slide` step.
Part 5  circular buffer = queue; the fold invariant; `slide_window_fingerprint` (T1).

Only core lemmas are used (no Mathlib, no `native_decide`, no `bv_decide`, no extra axioms).
-/
import Rustic.Model.Rabin
namespace Rustic.Rabin
open Rustic.Chunker

/-! ## Part 1: polynomials over GF(2) as natural numbers -/

/-- Carry-less multiplication: the product of `q` and `m` read as polynomials over GF(2). -/
def clmul (q m : Nat) : Nat :=
  if _h : q = 0 then 0 else (if q % 2 = 1 then m else 0) ^^^ (clmul (q / 2) m <<< 1)
decreasing_by omega

theorem clmul_zero (m : Nat) : clmul 0 m = 0 := by
  rw [clmul]; simp

/-- Unconditional unfolding. -/
theorem clmul_eq (q m : Nat) :
    clmul q m = (if q % 2 = 1 then m else 0) ^^^ (clmul (q / 2) m <<< 1) := by
  by_cases h : q = 0
  · subst h; simp [clmul_zero]
  · rw [clmul]; simp [h]

theorem clmul_one (m : Nat) : clmul 1 m = m := by
  rw [clmul_eq]; simp [clmul_zero]

theorem clmul_two_mul (q m : Nat) : clmul (2 * q) m = clmul q m <<< 1 := by
  rw [clmul_eq]
  have h1 : 2 * q % 2 = 0 := by omega
  have h2 : 2 * q / 2 = q := by omega
  simp [h1, h2]

theorem xor_mod_two (a b : Nat) : (a ^^^ b) % 2 = (a % 2 + b % 2) % 2 := by
  have h := Nat.testBit_xor a b 0
  simp only [Nat.testBit_zero] at h
  rcases Nat.mod_two_eq_zero_or_one a with ha | ha <;>
  rcases Nat.mod_two_eq_zero_or_one b with hb | hb <;>
  rcases Nat.mod_two_eq_zero_or_one (a ^^^ b) with hc | hc <;>
  simp [ha, hb, hc] at h ⊢

theorem xor_xor_cancel (a b : Nat) : a ^^^ (a ^^^ b) = b := by
  rw [← Nat.xor_assoc, Nat.xor_self, Nat.zero_xor]

theorem xor_xor_xor_cancel (m a b : Nat) : m ^^^ a ^^^ (m ^^^ b) = a ^^^ b := by
  have : m ^^^ a ^^^ (m ^^^ b) = m ^^^ (m ^^^ (a ^^^ b)) := by ac_rfl
  rw [this, xor_xor_cancel]

/-- `clmul` is additive (xor-linear) in its first argument. -/
theorem clmul_xor (a b m : Nat) : clmul (a ^^^ b) m = clmul a m ^^^ clmul b m := by
  induction a using Nat.strongRecOn generalizing b with
  | _ a ih =>
    by_cases ha : a = 0
    · subst ha; simp [clmul_zero]
    · rw [clmul_eq (a ^^^ b), clmul_eq a, clmul_eq b, Nat.xor_div_two, ih (a / 2) (by omega),
        Nat.shiftLeft_xor_distrib, xor_mod_two]
      rcases Nat.mod_two_eq_zero_or_one a with h1 | h1 <;>
      rcases Nat.mod_two_eq_zero_or_one b with h2 | h2 <;>
      simp [h1, h2] <;> first | ac_rfl | (rw [xor_xor_xor_cancel])

theorem clmul_shiftLeft (q m k : Nat) : clmul (q <<< k) m = clmul q m <<< k := by
  induction k with
  | zero => simp
  | succ k ih =>
    rw [Nat.shiftLeft_succ, clmul_two_mul, ih, ← Nat.shiftLeft_add]

theorem clmul_two_pow (m k : Nat) : clmul (1 <<< k) m = m <<< k := by
  rw [clmul_shiftLeft, clmul_one]

theorem xor_eq_zero {a b : Nat} (h : a ^^^ b = 0) : a = b := by
  apply Nat.eq_of_testBit_eq
  intro i
  have := congrArg (fun x => x.testBit i) h
  simp [Nat.testBit_xor] at this
  exact this

/-- Adding (xor) something below `2^k` cannot bring a number `≥ 2^k` below `2^k`. -/
theorem two_pow_le_xor {x y k : Nat} (hx : 2 ^ k ≤ x) (hy : y < 2 ^ k) : 2 ^ k ≤ x ^^^ y := by
  have h1 : (x ^^^ y) >>> k = x >>> k := by
    rw [Nat.shiftRight_xor_distrib, Nat.shiftRight_eq_div_pow y, Nat.div_eq_of_lt hy, Nat.xor_zero]
  have h2 : 0 < x >>> k := by
    rw [Nat.shiftRight_eq_div_pow]; exact Nat.div_pos hx (Nat.two_pow_pos k)
  rw [← h1, Nat.shiftRight_eq_div_pow] at h2
  have := (Nat.div_pos_iff.mp h2).2
  exact this

/-- A nonzero multiple of `m` has degree at least `degree m`. -/
theorem two_pow_log2_le_clmul {q m : Nat} (hq : q ≠ 0) (hm : m ≠ 0) : 2 ^ m.log2 ≤ clmul q m := by
  induction q using Nat.strongRecOn with
  | _ q ih =>
    by_cases h1 : q = 1
    · subst h1; rw [clmul_one]; exact Nat.log2_self_le hm
    · have hq2 : q / 2 ≠ 0 := by omega
      have ih' := ih (q / 2) (by omega) hq2
      rw [clmul_eq]
      have hbig : 2 ^ (m.log2 + 1) ≤ clmul (q / 2) m <<< 1 := by
        rw [Nat.shiftLeft_eq, Nat.pow_succ]; exact Nat.mul_le_mul_right 2 ih'
      have hsmall : (if q % 2 = 1 then m else 0) < 2 ^ (m.log2 + 1) := by
        split
        · exact Nat.lt_log2_self
        · exact Nat.two_pow_pos _
      rw [Nat.xor_comm]
      have := two_pow_le_xor hbig hsmall
      exact Nat.le_trans (Nat.pow_le_pow_right (by omega) (by omega)) this

/-- Congruence of GF(2)-polynomials modulo `m`. -/
def Cong (m a b : Nat) : Prop := ∃ q, a ^^^ b = clmul q m

theorem Cong.refl (m a : Nat) : Cong m a a := ⟨0, by simp [clmul_zero]⟩

theorem Cong.symm {m a b : Nat} (h : Cong m a b) : Cong m b a := by
  obtain ⟨q, hq⟩ := h; exact ⟨q, by rw [Nat.xor_comm, hq]⟩

theorem Cong.trans {m a b c : Nat} (h1 : Cong m a b) (h2 : Cong m b c) : Cong m a c := by
  obtain ⟨q1, hq1⟩ := h1; obtain ⟨q2, hq2⟩ := h2
  refine ⟨q1 ^^^ q2, ?_⟩
  rw [clmul_xor, ← hq1, ← hq2]
  have : a ^^^ b ^^^ (b ^^^ c) = a ^^^ c ^^^ (b ^^^ b) := by ac_rfl
  rw [this, Nat.xor_self, Nat.xor_zero]

theorem Cong.xor {m a b c d : Nat} (h1 : Cong m a b) (h2 : Cong m c d) :
    Cong m (a ^^^ c) (b ^^^ d) := by
  obtain ⟨q1, hq1⟩ := h1; obtain ⟨q2, hq2⟩ := h2
  refine ⟨q1 ^^^ q2, ?_⟩
  rw [clmul_xor, ← hq1, ← hq2]; ac_rfl

theorem Cong.shiftLeft {m a b : Nat} (h : Cong m a b) (k : Nat) : Cong m (a <<< k) (b <<< k) := by
  obtain ⟨q, hq⟩ := h
  exact ⟨q <<< k, by rw [clmul_shiftLeft, ← hq, Nat.shiftLeft_xor_distrib]⟩

theorem Cong.of_eq {m a b : Nat} (h : a = b) : Cong m a b := h ▸ Cong.refl m a

/-- Subtracting (xor) a shifted copy of `m` stays in the class. -/
theorem Cong.xor_shift (m a k : Nat) : Cong m (a ^^^ (m <<< k)) a := by
  refine ⟨1 <<< k, ?_⟩
  rw [clmul_two_pow]
  have : a ^^^ m <<< k ^^^ a = (a ^^^ a) ^^^ m <<< k := by ac_rfl
  rw [this, Nat.xor_self, Nat.zero_xor]

/-- Uniqueness of reduced representatives. -/
theorem Cong.eq_of_lt {m a b : Nat} (hm : m ≠ 0) (h : Cong m a b)
    (ha : a < 2 ^ m.log2) (hb : b < 2 ^ m.log2) : a = b := by
  obtain ⟨q, hq⟩ := h
  by_cases hq0 : q = 0
  · subst hq0; rw [clmul_zero] at hq; exact xor_eq_zero hq
  · have h1 := two_pow_log2_le_clmul hq0 hm
    have h2 := Nat.xor_lt_two_pow ha hb
    omega

end Rustic.Rabin
