/-
Correctness of the Rabin rolling hash model (`Rustic/Model/Rabin.lean`).

Part 1  GF(2)[x] on `Nat` (xor = addition, `clmul` = carry-less multiplication, congruence modulo `m`,
        uniqueness of reduced representatives).
Part 2  `modulo` computes THE polynomial remainder (T2) and is linear.
Part 3  `hashBlock` is the remainder of the byte string read as a big-endian polynomial (T3).
Part 4  table entries, one `slide` step.
Part 5  circular buffer = queue; the fold invariant; `slide_window_fingerprint` (T1).

Only core lemmas are used (no Mathlib import, no kernel-bypassing tactics, no extra axioms:
`#print axioms` gives `propext, Classical.choice, Quot.sound`).
-/
import Rustic.Model.Rabin
namespace Rustic.Rabin
open Rustic.Chunker

/-! ## Part 1: polynomials over GF(2) as natural numbers -/

/-- Carry-less multiplication: the product of `q` and `m` read as polynomials over GF(2). -/
def clmul (q m : Nat) : Nat :=
  if _h : q = 0 then 0 else (if q % 2 = 1 then m else 0) ^^^ (clmul (q / 2) m <<< 1)
decreasing_by omega

theorem clmul_zero (m : Nat) : clmul 0 m = 0 := by
  rw [clmul]; simp

/-- Unconditional unfolding. -/
theorem clmul_eq (q m : Nat) :
    clmul q m = (if q % 2 = 1 then m else 0) ^^^ (clmul (q / 2) m <<< 1) := by
  by_cases h : q = 0
  · subst h; simp [clmul_zero]
  · rw [clmul]; simp [h]

theorem clmul_one (m : Nat) : clmul 1 m = m := by
  rw [clmul_eq]; simp [clmul_zero]

theorem clmul_two_mul (q m : Nat) : clmul (2 * q) m = clmul q m <<< 1 := by
  rw [clmul_eq]
  have h1 : 2 * q % 2 = 0 := by omega
  have h2 : 2 * q / 2 = q := by omega
  simp [h1, h2]

theorem xor_mod_two (a b : Nat) : (a ^^^ b) % 2 = (a % 2 + b % 2) % 2 := by
  have h := Nat.testBit_xor a b 0
  simp only [Nat.testBit_zero] at h
  rcases Nat.mod_two_eq_zero_or_one a with ha | ha <;>
  rcases Nat.mod_two_eq_zero_or_one b with hb | hb <;>
  rcases Nat.mod_two_eq_zero_or_one (a ^^^ b) with hc | hc <;>
  simp [ha, hb, hc] at h ⊢

theorem xor_xor_cancel (a b : Nat) : a ^^^ (a ^^^ b) = b := by
  rw [← Nat.xor_assoc, Nat.xor_self, Nat.zero_xor]

theorem xor_xor_xor_cancel (m a b : Nat) : m ^^^ a ^^^ (m ^^^ b) = a ^^^ b := by
  have : m ^^^ a ^^^ (m ^^^ b) = m ^^^ (m ^^^ (a ^^^ b)) := by ac_rfl
  rw [this, xor_xor_cancel]

/-- `clmul` is additive (xor-linear) in its first argument. -/
theorem clmul_xor (a b m : Nat) : clmul (a ^^^ b) m = clmul a m ^^^ clmul b m := by
  induction a using Nat.strongRecOn generalizing b with
  | _ a ih =>
    by_cases ha : a = 0
    · subst ha; simp [clmul_zero]
    · rw [clmul_eq (a ^^^ b), clmul_eq a, clmul_eq b, Nat.xor_div_two, ih (a / 2) (by omega),
        Nat.shiftLeft_xor_distrib, xor_mod_two]
      rcases Nat.mod_two_eq_zero_or_one a with h1 | h1 <;>
      rcases Nat.mod_two_eq_zero_or_one b with h2 | h2 <;>
      simp [h1, h2] <;> first | ac_rfl | (rw [xor_xor_xor_cancel])

theorem clmul_shiftLeft (q m k : Nat) : clmul (q <<< k) m = clmul q m <<< k := by
  induction k with
  | zero => simp
  | succ k ih =>
    rw [Nat.shiftLeft_succ, clmul_two_mul, ih, ← Nat.shiftLeft_add]

theorem clmul_two_pow (m k : Nat) : clmul (1 <<< k) m = m <<< k := by
  rw [clmul_shiftLeft, clmul_one]

theorem xor_eq_zero {a b : Nat} (h : a ^^^ b = 0) : a = b := by
  apply Nat.eq_of_testBit_eq
  intro i
  have := congrArg (fun x => x.testBit i) h
  simp [Nat.testBit_xor] at this
  exact this

/-- Adding (xor) something below `2^k` cannot bring a number `≥ 2^k` below `2^k`. -/
theorem two_pow_le_xor {x y k : Nat} (hx : 2 ^ k ≤ x) (hy : y < 2 ^ k) : 2 ^ k ≤ x ^^^ y := by
  have h1 : (x ^^^ y) >>> k = x >>> k := by
    rw [Nat.shiftRight_xor_distrib, Nat.shiftRight_eq_div_pow y, Nat.div_eq_of_lt hy, Nat.xor_zero]
  have h2 : 0 < x >>> k := by
    rw [Nat.shiftRight_eq_div_pow]; exact Nat.div_pos hx (Nat.two_pow_pos k)
  rw [← h1, Nat.shiftRight_eq_div_pow] at h2
  have := (Nat.div_pos_iff.mp h2).2
  exact this

/-- A nonzero multiple of `m` has degree at least `degree m`. -/
theorem two_pow_log2_le_clmul {q m : Nat} (hq : q ≠ 0) (hm : m ≠ 0) : 2 ^ m.log2 ≤ clmul q m := by
  induction q using Nat.strongRecOn with
  | _ q ih =>
    by_cases h1 : q = 1
    · subst h1; rw [clmul_one]; exact Nat.log2_self_le hm
    · have hq2 : q / 2 ≠ 0 := by omega
      have ih' := ih (q / 2) (by omega) hq2
      rw [clmul_eq]
      have hbig : 2 ^ (m.log2 + 1) ≤ clmul (q / 2) m <<< 1 := by
        rw [Nat.shiftLeft_eq, Nat.pow_succ]; exact Nat.mul_le_mul_right 2 ih'
      have hsmall : (if q % 2 = 1 then m else 0) < 2 ^ (m.log2 + 1) := by
        split
        · exact Nat.lt_log2_self
        · exact Nat.two_pow_pos _
      rw [Nat.xor_comm]
      have := two_pow_le_xor hbig hsmall
      exact Nat.le_trans (Nat.pow_le_pow_right (by omega) (by omega)) this

/-- Congruence of GF(2)-polynomials modulo `m`. -/
def Cong (m a b : Nat) : Prop := ∃ q, a ^^^ b = clmul q m

theorem Cong.refl (m a : Nat) : Cong m a a := ⟨0, by simp [clmul_zero]⟩

theorem Cong.symm {m a b : Nat} (h : Cong m a b) : Cong m b a := by
  obtain ⟨q, hq⟩ := h; exact ⟨q, by rw [Nat.xor_comm, hq]⟩

theorem Cong.trans {m a b c : Nat} (h1 : Cong m a b) (h2 : Cong m b c) : Cong m a c := by
  obtain ⟨q1, hq1⟩ := h1; obtain ⟨q2, hq2⟩ := h2
  refine ⟨q1 ^^^ q2, ?_⟩
  rw [clmul_xor, ← hq1, ← hq2]
  have : a ^^^ b ^^^ (b ^^^ c) = a ^^^ c ^^^ (b ^^^ b) := by ac_rfl
  rw [this, Nat.xor_self, Nat.xor_zero]

theorem Cong.xor {m a b c d : Nat} (h1 : Cong m a b) (h2 : Cong m c d) :
    Cong m (a ^^^ c) (b ^^^ d) := by
  obtain ⟨q1, hq1⟩ := h1; obtain ⟨q2, hq2⟩ := h2
  refine ⟨q1 ^^^ q2, ?_⟩
  rw [clmul_xor, ← hq1, ← hq2]; ac_rfl

theorem Cong.shiftLeft {m a b : Nat} (h : Cong m a b) (k : Nat) : Cong m (a <<< k) (b <<< k) := by
  obtain ⟨q, hq⟩ := h
  exact ⟨q <<< k, by rw [clmul_shiftLeft, ← hq, Nat.shiftLeft_xor_distrib]⟩

theorem Cong.of_eq {m a b : Nat} (h : a = b) : Cong m a b := h ▸ Cong.refl m a

/-- Subtracting (xor) a shifted copy of `m` stays in the class. -/
theorem Cong.xor_shift (m a k : Nat) : Cong m (a ^^^ (m <<< k)) a := by
  refine ⟨1 <<< k, ?_⟩
  rw [clmul_two_pow]
  have : a ^^^ m <<< k ^^^ a = (a ^^^ a) ^^^ m <<< k := by ac_rfl
  rw [this, Nat.xor_self, Nat.zero_xor]

/-- Uniqueness of reduced representatives. -/
theorem Cong.eq_of_lt {m a b : Nat} (hm : m ≠ 0) (h : Cong m a b)
    (ha : a < 2 ^ m.log2) (hb : b < 2 ^ m.log2) : a = b := by
  obtain ⟨q, hq⟩ := h
  by_cases hq0 : q = 0
  · subst hq0; rw [clmul_zero] at hq; exact xor_eq_zero hq
  · have h1 := two_pow_log2_le_clmul hq0 hm
    have h2 := Nat.xor_lt_two_pow ha hb
    omega

/-! ## Part 2: `modulo` is polynomial remainder -/

/-- Degree of a polynomial given as a natural number (`-1` for the zero polynomial). -/
def pdeg (n : Nat) : Int := if n = 0 then -1 else (n.log2 : Int)

theorem toNat_eq_zero_iff (p : UInt64) : p.toNat = 0 ↔ p = 0 := by
  rw [← UInt64.toNat_zero, UInt64.toNat_inj]

theorem degree_eq (p : UInt64) : degree p = pdeg p.toNat := by
  unfold degree pdeg
  by_cases h : p = 0
  · simp [h]
  · have : p.toNat ≠ 0 := fun h' => h ((toNat_eq_zero_iff p).mp h')
    simp [h, this]

theorem pdeg_lt_iff {n d : Nat} : pdeg n < (d : Int) ↔ n < 2 ^ d := by
  unfold pdeg
  by_cases h : n = 0
  · subst h
    have := Nat.two_pow_pos d
    simp only [if_true]
    constructor
    · intro _; exact this
    · intro _; omega
  · simp only [h, if_false]
    rw [← Nat.log2_lt h]; omega

theorem lt_two_pow_of_testBit_false {x L : Nat} (h1 : x < 2 ^ (L + 1)) (h2 : x.testBit L = false) :
    x < 2 ^ L := by
  apply Nat.lt_pow_two_of_testBit
  intro i hi
  by_cases h : i = L
  · subst h; exact h2
  · apply Nat.testBit_lt_two_pow
    exact Nat.lt_of_lt_of_le h1 (Nat.pow_le_pow_right (by omega) (by omega))

theorem shiftLeft_lt_two_pow {m k e : Nat} (h : m < 2 ^ e) : m <<< k < 2 ^ (e + k) := by
  rw [Nat.shiftLeft_eq, Nat.pow_add]
  exact Nat.mul_lt_mul_of_lt_of_le h (Nat.le_refl _) (Nat.two_pow_pos k)

/-- One round of the reduction loop cancels the leading term. -/
theorem xor_shift_lt {p m : Nat} (hp : p ≠ 0) (hm : m ≠ 0) (hle : m.log2 ≤ p.log2) :
    p ^^^ (m <<< (p.log2 - m.log2)) < 2 ^ p.log2 := by
  apply lt_two_pow_of_testBit_false
  · apply Nat.xor_lt_two_pow Nat.lt_log2_self
    have := shiftLeft_lt_two_pow (k := p.log2 - m.log2) (Nat.lt_log2_self (n := m))
    have e : m.log2 + 1 + (p.log2 - m.log2) = p.log2 + 1 := by omega
    rwa [e] at this
  · rw [Nat.testBit_xor, Nat.testBit_log2 hp, Nat.testBit_shiftLeft]
    have e : p.log2 - (p.log2 - m.log2) = m.log2 := by omega
    simp [e, Nat.testBit_log2 hm]

/-- The `UInt64` loop body agrees with the `Nat` computation (no overflow in the shift). -/
theorem step_toNat {p m : UInt64} (hm : m ≠ 0) (h : degree p ≥ degree m) :
    p.toNat ≠ 0 ∧ m.toNat.log2 ≤ p.toNat.log2 ∧
    (p ^^^ (m <<< (degree p - degree m).toNat.toUInt64)).toNat
      = p.toNat ^^^ (m.toNat <<< (p.toNat.log2 - m.toNat.log2)) := by
  have hm' : m.toNat ≠ 0 := fun h' => hm ((toNat_eq_zero_iff m).mp h')
  rw [degree_eq, degree_eq] at h ⊢
  unfold pdeg at h ⊢
  simp only [hm', if_false] at h ⊢
  by_cases hp : p.toNat = 0
  · simp [hp] at h; omega
  · simp only [hp, if_false] at h ⊢
    have hle : m.toNat.log2 ≤ p.toNat.log2 := by omega
    have hp64 : p.toNat.log2 < 64 := (Nat.log2_lt hp).mpr (UInt64.toNat_lt p)
    refine ⟨by simpa using hp, hle, ?_⟩
    have e1 : ((p.toNat.log2 : Int) - (m.toNat.log2 : Int)).toNat = p.toNat.log2 - m.toNat.log2 := by
      omega
    rw [e1, UInt64.toNat_xor, UInt64.toNat_shiftLeft, Nat.toUInt64_eq, UInt64.toNat_ofNat']
    have e2 : (p.toNat.log2 - m.toNat.log2) % 2 ^ 64 % 64 = p.toNat.log2 - m.toNat.log2 := by omega
    rw [e2, Nat.mod_eq_of_lt]
    have := shiftLeft_lt_two_pow (k := p.toNat.log2 - m.toNat.log2) (Nat.lt_log2_self (n := m.toNat))
    have e : m.toNat.log2 + 1 + (p.toNat.log2 - m.toNat.log2) = p.toNat.log2 + 1 := by omega
    rw [e] at this
    exact Nat.lt_of_lt_of_le this (Nat.pow_le_pow_right (by omega) (by omega))

theorem moduloLoop_spec {m : UInt64} (hm : m ≠ 0) : ∀ (f : Nat) (p : UInt64),
    Cong m.toNat (moduloLoop m f p).toNat p.toNat ∧
    (p.toNat < 2 ^ (m.toNat.log2 + f) → (moduloLoop m f p).toNat < 2 ^ m.toNat.log2) := by
  have hm' : m.toNat ≠ 0 := fun h' => hm ((toNat_eq_zero_iff m).mp h')
  intro f
  induction f with
  | zero => intro p; simp [moduloLoop, Cong.refl]
  | succ f ih =>
    intro p
    rw [moduloLoop]
    by_cases h : degree p ≥ degree m
    · simp only [h, if_true]
      obtain ⟨hp, hle, e⟩ := step_toNat hm h
      obtain ⟨ih1, ih2⟩ := ih (p ^^^ (m <<< (degree p - degree m).toNat.toUInt64))
      rw [e] at ih1 ih2
      refine ⟨ih1.trans (Cong.xor_shift _ _ _), fun hlt => ih2 ?_⟩
      have h1 := xor_shift_lt hp hm' hle
      have h2 : p.toNat.log2 < m.toNat.log2 + (f + 1) := (Nat.log2_lt hp).mpr hlt
      exact Nat.lt_of_lt_of_le h1 (Nat.pow_le_pow_right (by omega) (by omega))
    · simp only [h, if_false]
      refine ⟨Cong.refl _ _, fun _ => ?_⟩
      rw [degree_eq, degree_eq] at h
      have : pdeg p.toNat < (m.toNat.log2 : Int) := by
        have : pdeg m.toNat = m.toNat.log2 := by simp [pdeg, hm']
        omega
      exact pdeg_lt_iff.mp this

/-- `modulo p m` is congruent to `p` modulo `m` … -/
theorem modulo_cong {m : UInt64} (hm : m ≠ 0) (p : UInt64) :
    Cong m.toNat (modulo p m).toNat p.toNat := (moduloLoop_spec hm 64 p).1

/-- … and reduced. -/
theorem modulo_lt {m : UInt64} (hm : m ≠ 0) (p : UInt64) :
    (modulo p m).toNat < 2 ^ m.toNat.log2 := by
  apply (moduloLoop_spec hm 64 p).2
  exact Nat.lt_of_lt_of_le (UInt64.toNat_lt p) (Nat.pow_le_pow_right (by omega) (by omega))

/-- Characterisation: anything reduced and congruent to `p` *is* `modulo p m`. -/
theorem modulo_unique {m : UInt64} (hm : m ≠ 0) (p : UInt64) {r : Nat}
    (hc : Cong m.toNat r p.toNat) (hr : r < 2 ^ m.toNat.log2) : (modulo p m).toNat = r := by
  have hm' : m.toNat ≠ 0 := fun h' => hm ((toNat_eq_zero_iff m).mp h')
  exact Cong.eq_of_lt hm' ((modulo_cong hm p).trans hc.symm) (modulo_lt hm p) hr

/-- **T2.** For `m ≠ 0`, `modulo p m` is THE remainder of `p` modulo `m` in GF(2)[x]:
its degree is below that of `m`, `p = q·m + modulo p m` for some quotient `q`, and it is the only
value with these two properties. -/
theorem modulo_spec (p m : UInt64) (hm : m ≠ 0) :
    degree (modulo p m) < degree m ∧
    (∃ q : Nat, p.toNat = clmul q m.toNat ^^^ (modulo p m).toNat) ∧
    (∀ (q r : Nat), p.toNat = clmul q m.toNat ^^^ r → pdeg r < degree m → r = (modulo p m).toNat) := by
  have hm' : m.toNat ≠ 0 := fun h' => hm ((toNat_eq_zero_iff m).mp h')
  have hdm : degree m = (m.toNat.log2 : Int) := by rw [degree_eq]; simp [pdeg, hm']
  refine ⟨?_, ?_, ?_⟩
  · rw [hdm, degree_eq, pdeg_lt_iff]; exact modulo_lt hm p
  · obtain ⟨q, hq⟩ := modulo_cong hm p
    refine ⟨q, ?_⟩
    rw [← hq, Nat.xor_comm (modulo p m).toNat, Nat.xor_assoc, Nat.xor_self, Nat.xor_zero]
  · intro q r hqr hr
    rw [hdm, pdeg_lt_iff] at hr
    refine (modulo_unique hm p ⟨q, ?_⟩ hr).symm
    rw [hqr, Nat.xor_comm r, Nat.xor_assoc, Nat.xor_self, Nat.xor_zero]

/-- **F1.** `modulo · m` is linear. -/
theorem modulo_xor {m : UInt64} (hm : m ≠ 0) (a b : UInt64) :
    modulo (a ^^^ b) m = modulo a m ^^^ modulo b m := by
  rw [← UInt64.toNat_inj]
  apply modulo_unique hm
  · rw [UInt64.toNat_xor, UInt64.toNat_xor]
    exact (modulo_cong hm a).xor (modulo_cong hm b)
  · rw [UInt64.toNat_xor]
    exact Nat.xor_lt_two_pow (modulo_lt hm a) (modulo_lt hm b)

/-- **F2.** Reduced values are fixed. -/
theorem modulo_of_lt {m : UInt64} (hm : m ≠ 0) {a : UInt64} (ha : a.toNat < 2 ^ m.toNat.log2) :
    modulo a m = a := by
  rw [← UInt64.toNat_inj]
  exact modulo_unique hm a (Cong.refl _ _) ha

/-! ## Part 3: `hashBlock` is the remainder of the byte string -/

/-- The byte string read as a big-endian number / polynomial over GF(2). -/
def bytesPoly (bs : Bytes) : Nat := bs.foldl (fun acc b => acc * 256 + b.toNat) 0

theorem shiftLeft_or_eq_xor {b k : Nat} (a : Nat) (hb : b < 2 ^ k) : a <<< k ||| b = a <<< k ^^^ b := by
  apply Nat.eq_of_testBit_eq
  intro i
  rw [Nat.testBit_or, Nat.testBit_xor, Nat.testBit_shiftLeft]
  by_cases h : i ≥ k
  · have : b.testBit i = false :=
      Nat.testBit_lt_two_pow (Nat.lt_of_lt_of_le hb (Nat.pow_le_pow_right (by omega) h))
    simp [this]
  · simp [h]

theorem mul_256_add_eq_xor (a : Nat) (v : UInt8) : a * 256 + v.toNat = a <<< 8 ^^^ v.toNat := by
  have hv : v.toNat < 2 ^ 8 := v.toNat_lt
  rw [← shiftLeft_or_eq_xor a hv, ← Nat.shiftLeft_add_eq_or_of_lt hv, Nat.shiftLeft_eq]

/-- Appending one byte: `h·x⁸ + v` on `UInt64` without overflow when `h` is reduced and `deg ≤ 56`. -/
theorem push_toNat {h : UInt64} {d : Nat} (hd : d ≤ 56) (hh : h.toNat < 2 ^ d) (v : UInt8) :
    ((h <<< 8) ||| v.toUInt64).toNat = h.toNat <<< 8 ^^^ v.toNat := by
  have hv : v.toNat < 2 ^ 8 := v.toNat_lt
  rw [UInt64.toNat_or, UInt64.toNat_shiftLeft, UInt8.toNat_toUInt64]
  have e8 : (8 : UInt64).toNat % 64 = 8 := by decide
  rw [e8, Nat.mod_eq_of_lt, shiftLeft_or_eq_xor _ hv]
  exact Nat.lt_of_lt_of_le (shiftLeft_lt_two_pow hh) (Nat.pow_le_pow_right (by omega) (by omega))

theorem shl8_toNat {h : UInt64} {d : Nat} (hd : d ≤ 56) (hh : h.toNat < 2 ^ d) :
    (h <<< 8).toNat = h.toNat <<< 8 := by
  rw [UInt64.toNat_shiftLeft]
  have e8 : (8 : UInt64).toNat % 64 = 8 := by decide
  rw [e8, Nat.mod_eq_of_lt]
  exact Nat.lt_of_lt_of_le (shiftLeft_lt_two_pow hh) (Nat.pow_le_pow_right (by omega) (by omega))

section
variable {poly : UInt64} (hp : poly ≠ 0) (hd : poly.toNat.log2 ≤ 56)
include hp hd

theorem hashFold_spec (bs : Bytes) : ∀ (h : UInt64) (acc : Nat),
    h.toNat < 2 ^ poly.toNat.log2 → Cong poly.toNat h.toNat acc →
    (bs.foldl (fun h v => modulo ((h <<< 8) ||| v.toUInt64) poly) h).toNat < 2 ^ poly.toNat.log2 ∧
    Cong poly.toNat (bs.foldl (fun h v => modulo ((h <<< 8) ||| v.toUInt64) poly) h).toNat
      (bs.foldl (fun acc b => acc * 256 + b.toNat) acc) := by
  induction bs with
  | nil => intro h acc hh hc; exact ⟨hh, hc⟩
  | cons v bs ih =>
    intro h acc hh hc
    simp only [List.foldl_cons]
    apply ih
    · exact modulo_lt hp _
    · refine (modulo_cong hp _).trans ?_
      rw [push_toNat hd hh, mul_256_add_eq_xor]
      exact (hc.shiftLeft 8).xor (Cong.refl _ _)

theorem hashBlock_lt (bs : Bytes) : (hashBlock poly bs).toNat < 2 ^ poly.toNat.log2 :=
  (hashFold_spec hp hd bs 0 0 (Nat.two_pow_pos _) (Cong.refl _ _)).1

theorem hashBlock_cong (bs : Bytes) : Cong poly.toNat (hashBlock poly bs).toNat (bytesPoly bs) :=
  (hashFold_spec hp hd bs 0 0 (Nat.two_pow_pos _) (Cong.refl _ _)).2

/-- Anything reduced and congruent to the byte polynomial is the fingerprint. -/
theorem hashBlock_unique (bs : Bytes) {r : UInt64} (hr : r.toNat < 2 ^ poly.toNat.log2)
    (hc : Cong poly.toNat r.toNat (bytesPoly bs)) : r = hashBlock poly bs := by
  have hp' : poly.toNat ≠ 0 := fun h' => hp ((toNat_eq_zero_iff poly).mp h')
  rw [← UInt64.toNat_inj]
  exact Cong.eq_of_lt hp' (hc.trans (hashBlock_cong hp hd bs).symm) hr (hashBlock_lt hp hd bs)

end

theorem bytesFold_eq (w : Bytes) : ∀ acc : Nat,
    w.foldl (fun acc b => acc * 256 + b.toNat) acc = acc <<< (8 * w.length) ^^^ bytesPoly w ∧
    bytesPoly w < 2 ^ (8 * w.length) := by
  induction w with
  | nil => intro acc; simp [bytesPoly]
  | cons b w ih =>
    intro acc
    have h0 : bytesPoly (b :: w) = b.toNat <<< (8 * w.length) ^^^ bytesPoly w := by
      have := (ih b.toNat).1
      simpa [bytesPoly] using this
    have hb : b.toNat < 2 ^ 8 := b.toNat_lt
    have hlen : 8 * (b :: w).length = 8 + 8 * w.length := by simp; omega
    constructor
    · rw [List.foldl_cons, (ih _).1, h0, mul_256_add_eq_xor, Nat.shiftLeft_xor_distrib,
        ← Nat.shiftLeft_add, hlen, Nat.xor_assoc]
    · rw [h0, hlen]
      apply Nat.xor_lt_two_pow (shiftLeft_lt_two_pow hb)
      exact Nat.lt_of_lt_of_le (ih 0).2 (Nat.pow_le_pow_right (by omega) (by omega))

theorem bytesPoly_cons (b : UInt8) (w : Bytes) :
    bytesPoly (b :: w) = b.toNat <<< (8 * w.length) ^^^ bytesPoly w := by
  have := (bytesFold_eq w b.toNat).1
  simpa [bytesPoly] using this

theorem bytesPoly_append_singleton (w : Bytes) (b : UInt8) :
    bytesPoly (w ++ [b]) = bytesPoly w <<< 8 ^^^ b.toNat := by
  simp [bytesPoly, List.foldl_append, mul_256_add_eq_xor]

/-! ## Part 4: the tables and one `slide` step -/

theorem outT_getD (poly : UInt64) {i : Nat} (h : i < 256) :
    (Tables.mk' 6 poly).outT.getD i 0 = outEntry 64 poly i := by
  simp [Tables.mk', Array.getD_eq_getD_getElem?, h]

theorem modT_getD (poly : UInt64) {i : Nat} (h : i < 256) :
    (Tables.mk' 6 poly).modT.getD i 0 = modEntry poly i := by
  simp [Tables.mk', Array.getD_eq_getD_getElem?, h]

/-- Split a number at bit `d`. -/
theorem split_at (x d : Nat) : x = (x >>> d) <<< d ^^^ x % 2 ^ d := by
  apply Nat.eq_of_testBit_eq
  intro i
  rw [Nat.testBit_xor, Nat.testBit_shiftLeft, Nat.testBit_shiftRight, Nat.testBit_mod_two_pow]
  by_cases h : i < d
  · have : ¬ i ≥ d := by omega
    simp [h, this]
  · have h' : i ≥ d := by omega
    have e : d + (i - d) = i := by omega
    simp [h, h', e]

section
variable {poly : UInt64} (hp : poly ≠ 0) (hd : poly.toNat.log2 ≤ 56)
include hp hd

omit hd in
theorem degree_poly : degree poly = (poly.toNat.log2 : Int) := by
  have hp' : poly.toNat ≠ 0 := fun h' => hp ((toNat_eq_zero_iff poly).mp h')
  rw [degree_eq]; simp [pdeg, hp']

/-- **F4.** `outT[v]` is the reduced representative of `v · x^(8·(ws-1))`. -/
theorem outEntry_spec (ws v : Nat) (hv : v < 2 ^ 64) :
    (outEntry ws poly v).toNat < 2 ^ poly.toNat.log2 ∧
    Cong poly.toNat (outEntry ws poly v).toNat (v <<< (8 * (ws - 1))) := by
  unfold outEntry
  generalize ws - 1 = n
  induction n with
  | zero =>
    simp only [List.range_zero, List.foldl_nil]
    refine ⟨modulo_lt hp _, ?_⟩
    have : v.toUInt64.toNat = v := by
      rw [Nat.toUInt64_eq, UInt64.toNat_ofNat', Nat.mod_eq_of_lt hv]
    simpa [this] using modulo_cong hp v.toUInt64
  | succ n ih =>
    rw [List.range_succ, List.foldl_append]
    simp only [List.foldl_cons, List.foldl_nil]
    refine ⟨modulo_lt hp _, (modulo_cong hp _).trans ?_⟩
    rw [shl8_toNat hd ih.1]
    have e : 8 * (n + 1) = 8 * n + 8 := by omega
    rw [e, Nat.shiftLeft_add]
    exact ih.2.shiftLeft 8

/-- `modT[t] = (t·x^d) + ((t·x^d) mod poly)` for a byte `t`. -/
theorem modEntry_toNat (t : Nat) (ht : t < 256) :
    ∃ r : Nat, r < 2 ^ poly.toNat.log2 ∧ Cong poly.toNat r (t <<< poly.toNat.log2) ∧
      (modEntry poly t).toNat = t <<< poly.toNat.log2 ^^^ r := by
  have ht' : t < 2 ^ 8 := ht
  have hk : ((degree poly).toNat.toUInt64).toNat % 64 = poly.toNat.log2 := by
    rw [degree_poly hp, Nat.toUInt64_eq, UInt64.toNat_ofNat']
    simp only [Int.toNat_natCast]; omega
  have htn : t.toUInt64.toNat = t := by
    rw [Nat.toUInt64_eq, UInt64.toNat_ofNat']; omega
  have hP : (t.toUInt64 <<< (degree poly).toNat.toUInt64).toNat = t <<< poly.toNat.log2 := by
    rw [UInt64.toNat_shiftLeft, hk, htn, Nat.mod_eq_of_lt]
    exact Nat.lt_of_lt_of_le (shiftLeft_lt_two_pow ht') (Nat.pow_le_pow_right (by omega) (by omega))
  refine ⟨(modulo (t.toUInt64 <<< (degree poly).toNat.toUInt64) poly).toNat, modulo_lt hp _, ?_, ?_⟩
  · have := modulo_cong hp (t.toUInt64 <<< (degree poly).toNat.toUInt64)
    rwa [hP] at this
  · unfold modEntry
    simp only [UInt64.toNat_or, hP]
    rw [Nat.or_comm, shiftLeft_or_eq_xor _ (modulo_lt hp _)]

/-- **F3.** For a reduced `h`, the table-driven update equals shift-in-and-reduce. -/
theorem slide_step (hlo : 8 ≤ poly.toNat.log2) {h : UInt64} (hh : h.toNat < 2 ^ poly.toNat.log2)
    (b : UInt8) :
    ((h <<< 8) ||| b.toUInt64) ^^^
        (Tables.mk' 6 poly).modT.getD ((h >>> (Tables.mk' 6 poly).shift) &&& 255).toNat 0
      = modulo ((h <<< 8) ||| b.toUInt64) poly := by
  have hb : b.toNat < 2 ^ 8 := b.toNat_lt
  -- the table index is the top byte of `h·x⁸ + b`
  have hshift : (Tables.mk' 6 poly).shift.toNat % 64 = poly.toNat.log2 - 8 := by
    show (((degree poly) - 8).toNat.toUInt64).toNat % 64 = _
    rw [degree_poly hp, Nat.toUInt64_eq, UInt64.toNat_ofNat']
    omega
  have hT : h.toNat >>> (poly.toNat.log2 - 8) < 2 ^ 8 := by
    rw [Nat.shiftRight_eq_div_pow, Nat.div_lt_iff_lt_mul (Nat.two_pow_pos _), ← Nat.pow_add]
    have : 8 + (poly.toNat.log2 - 8) = poly.toNat.log2 := by omega
    rwa [this]
  have hmi : ((h >>> (Tables.mk' 6 poly).shift) &&& 255).toNat = h.toNat >>> (poly.toNat.log2 - 8) := by
    rw [UInt64.toNat_and, UInt64.toNat_shiftRight, hshift]
    have : (255 : UInt64).toNat = 2 ^ 8 - 1 := by decide
    rw [this, Nat.and_two_pow_sub_one_eq_mod, Nat.mod_eq_of_lt hT]
  have hget : (Tables.mk' 6 poly).modT.getD (h.toNat >>> (poly.toNat.log2 - 8)) 0
      = modEntry poly (h.toNat >>> (poly.toNat.log2 - 8)) := modT_getD poly hT
  rw [hmi, hget]
  obtain ⟨r, hr, hrc, hre⟩ := modEntry_toNat hp hd _ hT
  -- top byte of X
  have hX := push_toNat hd hh b
  have htop : (h.toNat <<< 8 ^^^ b.toNat) >>> poly.toNat.log2 = h.toNat >>> (poly.toNat.log2 - 8) := by
    apply Nat.eq_of_testBit_eq
    intro i
    rw [Nat.testBit_shiftRight, Nat.testBit_shiftRight, Nat.testBit_xor, Nat.testBit_shiftLeft]
    have h1 : b.toNat.testBit (poly.toNat.log2 + i) = false :=
      Nat.testBit_lt_two_pow (Nat.lt_of_lt_of_le hb (Nat.pow_le_pow_right (by omega) (by omega)))
    have h2 : poly.toNat.log2 + i ≥ 8 := by omega
    have h3 : poly.toNat.log2 + i - 8 = poly.toNat.log2 - 8 + i := by omega
    simp [h1, h2, h3]
  have hsplit := split_at (h.toNat <<< 8 ^^^ b.toNat) poly.toNat.log2
  rw [htop] at hsplit
  have hlo' : (h.toNat <<< 8 ^^^ b.toNat) % 2 ^ poly.toNat.log2 < 2 ^ poly.toNat.log2 :=
    Nat.mod_lt _ (Nat.two_pow_pos _)
  -- the result is reduced and congruent to X
  have hval : (((h <<< 8) ||| b.toUInt64) ^^^
      modEntry poly (h.toNat >>> (poly.toNat.log2 - 8))).toNat
      = (h.toNat <<< 8 ^^^ b.toNat) % 2 ^ poly.toNat.log2 ^^^ r := by
    rw [UInt64.toNat_xor, hX, hre]
    conv => lhs; lhs; rw [hsplit]
    rw [xor_xor_xor_cancel]
  rw [← UInt64.toNat_inj, hval]
  symm
  apply modulo_unique hp
  · rw [hX]
    conv => rhs; rw [hsplit, Nat.xor_comm]
    exact (Cong.refl _ _).xor hrc
  · exact Nat.xor_lt_two_pow hlo' hr

/-- Removing the oldest byte: for a full window `v :: w`, xoring `outT[v]` turns the fingerprint of
`v :: w` into the fingerprint of `w`. -/
theorem drop_oldest (v : UInt8) (w : Bytes) :
    hashBlock poly (v :: w) ^^^ outEntry (w.length + 1) poly v.toNat = hashBlock poly w := by
  have hv : v.toNat < 2 ^ 64 :=
    Nat.lt_of_lt_of_le v.toNat_lt (by decide)
  obtain ⟨ho1, ho2⟩ := outEntry_spec hp hd (w.length + 1) v.toNat hv
  apply hashBlock_unique hp hd
  · rw [UInt64.toNat_xor]; exact Nat.xor_lt_two_pow (hashBlock_lt hp hd _) ho1
  · rw [UInt64.toNat_xor]
    have h1 := (hashBlock_cong hp hd (v :: w)).xor ho2
    rw [bytesPoly_cons, Nat.add_sub_cancel, Nat.xor_comm (v.toNat <<< (8 * w.length)), Nat.xor_assoc,
      Nat.xor_self, Nat.xor_zero] at h1
    exact h1

end

/-! ## Part 5: circular buffer = queue, and the main theorem -/

/-- The window content, oldest byte first. -/
def winList (s : R64) : Bytes := s.win.toList.drop s.idx ++ s.win.toList.take s.idx

theorem winList_slide (t : Tables) (s : R64) (b : UInt8) (hsz : s.win.size = t.wsize)
    (hi : s.idx < t.wsize) :
    ∃ rest, winList s = s.win.getD s.idx 0 :: rest ∧ winList (slide t s b) = rest ++ [b] ∧
      (slide t s b).win.size = t.wsize ∧ (slide t s b).idx < t.wsize := by
  have hlen : s.win.toList.length = t.wsize := by rw [Array.length_toList, hsz]
  have hi' : s.idx < s.win.toList.length := by omega
  refine ⟨s.win.toList.drop (s.idx + 1) ++ s.win.toList.take s.idx, ?_, ?_, ?_, ?_⟩
  · unfold winList
    rw [List.drop_eq_getElem_cons hi', Array.getElem_toList]
    have : s.win.getD s.idx 0 = s.win[s.idx]'(by omega) := by
      simp [Array.getD_eq_getD_getElem?, hsz, hi]
    rw [this]; rfl
  · unfold winList slide
    simp only [Array.toList_setIfInBounds]
    rw [List.set_eq_take_append_cons_drop, if_pos hi']
    have hA : (s.win.toList.take s.idx).length = s.idx := by
      rw [List.length_take]; omega
    have hsplit : List.take s.idx s.win.toList ++ b :: List.drop (s.idx + 1) s.win.toList
        = (List.take s.idx s.win.toList ++ [b]) ++ List.drop (s.idx + 1) s.win.toList := by simp
    by_cases hw : s.idx + 1 < t.wsize
    · have hmod : (s.idx + 1) % t.wsize = s.idx + 1 := Nat.mod_eq_of_lt hw
      have hAb : (List.take s.idx s.win.toList ++ [b]).length = s.idx + 1 := by simp [hA]
      rw [hmod, hsplit, List.drop_left' hAb, List.take_left' hAb, List.append_assoc]
    · have hw' : s.idx + 1 = t.wsize := by omega
      have hmod : (s.idx + 1) % t.wsize = 0 := by rw [hw', Nat.mod_self]
      have hD : List.drop (s.idx + 1) s.win.toList = [] := by
        apply List.drop_of_length_le; omega
      rw [hmod, hD]; simp
  · simp [slide, hsz]
  · simp only [slide]; exact Nat.mod_lt _ (by omega)

theorem hashBlock_append_singleton (poly : UInt64) (w : Bytes) (b : UInt8) :
    hashBlock poly (w ++ [b]) = modulo ((hashBlock poly w <<< 8) ||| b.toUInt64) poly := by
  simp [hashBlock, List.foldl_append]

theorem hashBlock_zeros (poly : UInt64) (hp : poly ≠ 0) (k : Nat) (l : Bytes) :
    hashBlock poly (List.replicate k 0 ++ l) = hashBlock poly l := by
  unfold hashBlock
  rw [List.foldl_append]
  congr 1
  induction k with
  | zero => rfl
  | succ k ih =>
    rw [List.replicate_succ, List.foldl_cons]
    have e : ((0 : UInt64) <<< 8 ||| (0 : UInt8).toUInt64) = 0 := by decide
    rw [e, modulo_of_lt hp (by simpa using Nat.two_pow_pos _)]
    exact ih

section
variable {poly : UInt64} (hp : poly ≠ 0) (hlo : 8 ≤ poly.toNat.log2) (hd : poly.toNat.log2 ≤ 56)
include hp hlo hd

/-- The invariant of the rolling hash: the hash is the fingerprint of the window content. -/
def Inv (poly : UInt64) (s : R64) : Prop :=
  s.win.size = 64 ∧ s.idx < 64 ∧ s.hash = hashBlock poly (winList s)

omit hp hlo hd in
theorem winList_length {s : R64} (h : s.win.size = 64) (hi : s.idx < 64) : (winList s).length = 64 := by
  unfold winList
  rw [List.length_append, List.length_drop, List.length_take, Array.length_toList, h]; omega

theorem inv_slide (s : R64) (b : UInt8) (h : Inv poly s) :
    Inv poly (slide (Tables.mk' 6 poly) s b) ∧
    winList (slide (Tables.mk' 6 poly) s b) = (winList s).tail ++ [b] := by
  obtain ⟨hsz, hi, hh⟩ := h
  obtain ⟨rest, h1, h2, h3, h4⟩ := winList_slide (Tables.mk' 6 poly) s b hsz hi
  have hlen := winList_length hsz hi
  have hrl : rest.length + 1 = 64 := by rw [h1] at hlen; simpa using hlen
  refine ⟨⟨h3, h4, ?_⟩, by rw [h1, h2]; rfl⟩
  rw [h2, hashBlock_append_singleton]
  have hv : (s.win.getD s.idx 0).toNat < 256 := (s.win.getD s.idx 0).toNat_lt
  have hout : (Tables.mk' 6 poly).outT.getD (s.win.getD s.idx 0).toNat 0
      = outEntry 64 poly (s.win.getD s.idx 0).toNat := outT_getD poly hv
  have hdrop : s.hash ^^^ (Tables.mk' 6 poly).outT.getD (s.win.getD s.idx 0).toNat 0
      = hashBlock poly rest := by
    rw [hout, hh, h1, ← hrl]
    exact drop_oldest hp hd _ rest
  show ((s.hash ^^^ (Tables.mk' 6 poly).outT.getD (s.win.getD s.idx 0).toNat 0) <<< 8 ||| b.toUInt64) ^^^
    (Tables.mk' 6 poly).modT.getD
      (((s.hash ^^^ (Tables.mk' 6 poly).outT.getD (s.win.getD s.idx 0).toNat 0) >>>
        (Tables.mk' 6 poly).shift) &&& 255).toNat 0 = _
  rw [hdrop]
  exact slide_step hp hd hlo (hashBlock_lt hp hd rest) b

omit hlo hd in
theorem inv_reset : Inv poly (reset (Tables.mk' 6 poly)) ∧
    winList (reset (Tables.mk' 6 poly)) = List.replicate 64 0 := by
  have hw : winList (reset (Tables.mk' 6 poly)) = List.replicate 64 0 := by
    simp [winList, reset, Tables.mk']
  refine ⟨⟨by simp [reset, Tables.mk'], by simp [reset], ?_⟩, hw⟩
  rw [hw]
  have := hashBlock_zeros poly hp 64 []
  rw [List.append_nil] at this
  rw [this]; rfl

theorem inv_fold (bs : Bytes) : ∀ s, Inv poly s →
    Inv poly (bs.foldl (slide (Tables.mk' 6 poly)) s) ∧
    winList (bs.foldl (slide (Tables.mk' 6 poly)) s) = (winList s ++ bs).drop bs.length := by
  induction bs with
  | nil => intro s h; exact ⟨h, by simp⟩
  | cons b bs ih =>
    intro s h
    obtain ⟨h1, h2⟩ := inv_slide hp hlo hd s b h
    obtain ⟨h3, h4⟩ := ih _ h1
    refine ⟨h3, ?_⟩
    rw [List.foldl_cons, h4, h2]
    have hlen := winList_length h.1 h.2.1
    match hw : winList s, hlen with
    | x :: w, _ => simp

/-- General form of T1 (any modulus of degree 8 … 56). -/
theorem slide_window_fingerprint' (bs : Bytes) :
    (bs.foldl (slide (Tables.mk' 6 poly)) (reset (Tables.mk' 6 poly))).hash
      = hashBlock poly (bs.drop (bs.length - 64)) := by
  obtain ⟨h0, hw0⟩ := inv_reset hp
  obtain ⟨h1, h2⟩ := inv_fold hp hlo hd bs _ h0
  rw [h1.2.2, h2, hw0, List.drop_append, List.drop_replicate, List.length_replicate,
    hashBlock_zeros poly hp]

end

/-- **T1.** The table-driven rolling hash equals the direct remainder computation over the most recent
64 bytes (all bytes, if fewer than 64 were fed). -/
theorem slide_window_fingerprint (poly : UInt64) (hlo : 8 ≤ degree poly) (hhi : degree poly ≤ 55)
    (bs : Bytes) :
    let t := Tables.mk' 6 poly
    (bs.foldl (slide t) (reset t)).hash = hashBlock poly (bs.drop (bs.length - 64)) := by
  have hp : poly ≠ 0 := by
    intro h; subst h; simp [degree] at hlo
  have hdeg := degree_poly hp
  rw [hdeg] at hlo hhi
  exact slide_window_fingerprint' hp (by omega) (by omega) bs

/-! ## T3: `hashBlock` is polynomial remainder of the byte string, stated on `Nat` -/

/-- Polynomial remainder over GF(2) on `Nat` (schoolbook division, xor as subtraction). -/
def pmodLoop (m : Nat) : Nat → Nat → Nat
  | 0, p => p
  | f + 1, p =>
    if p ≠ 0 ∧ m.log2 ≤ p.log2 then pmodLoop m f (p ^^^ (m <<< (p.log2 - m.log2))) else p

def pmod (p m : Nat) : Nat := pmodLoop m (p.log2 + 1) p

theorem pmodLoop_spec {m : Nat} (hm : m ≠ 0) : ∀ (f p : Nat),
    Cong m (pmodLoop m f p) p ∧ (p < 2 ^ (m.log2 + f) → pmodLoop m f p < 2 ^ m.log2) := by
  intro f
  induction f with
  | zero => intro p; simp [pmodLoop, Cong.refl]
  | succ f ih =>
    intro p
    rw [pmodLoop]
    by_cases h : p ≠ 0 ∧ m.log2 ≤ p.log2
    · rw [if_pos h]
      obtain ⟨hp, hle⟩ := h
      obtain ⟨ih1, ih2⟩ := ih (p ^^^ (m <<< (p.log2 - m.log2)))
      refine ⟨ih1.trans (Cong.xor_shift _ _ _), fun hlt => ih2 ?_⟩
      have h1 := xor_shift_lt hp hm hle
      have h2 : p.log2 < m.log2 + (f + 1) := (Nat.log2_lt hp).mpr hlt
      exact Nat.lt_of_lt_of_le h1 (Nat.pow_le_pow_right (by omega) (by omega))
    · rw [if_neg h]
      refine ⟨Cong.refl _ _, fun _ => ?_⟩
      by_cases hp : p = 0
      · subst hp; exact Nat.two_pow_pos _
      · have : p.log2 < m.log2 := by
          have : ¬ m.log2 ≤ p.log2 := fun h' => h ⟨hp, h'⟩
          omega
        exact (Nat.log2_lt hp).mp this

theorem pmod_cong {m : Nat} (hm : m ≠ 0) (p : Nat) : Cong m (pmod p m) p :=
  (pmodLoop_spec hm _ p).1

theorem pmod_lt {m : Nat} (hm : m ≠ 0) (p : Nat) : pmod p m < 2 ^ m.log2 := by
  apply (pmodLoop_spec hm _ p).2
  exact Nat.lt_of_lt_of_le Nat.lt_log2_self (Nat.pow_le_pow_right (by omega) (by omega))

/-- `pmod` is THE remainder: reduced, `p = q·m + pmod p m`, and unique with these properties. -/
theorem pmod_spec (p m : Nat) (hm : m ≠ 0) :
    pmod p m < 2 ^ m.log2 ∧ (∃ q, p = clmul q m ^^^ pmod p m) ∧
    (∀ q r, p = clmul q m ^^^ r → r < 2 ^ m.log2 → r = pmod p m) := by
  refine ⟨pmod_lt hm p, ?_, ?_⟩
  · obtain ⟨q, hq⟩ := pmod_cong hm p
    refine ⟨q, ?_⟩
    rw [← hq, Nat.xor_comm (pmod p m), Nat.xor_assoc, Nat.xor_self, Nat.xor_zero]
  · intro q r hqr hr
    refine Cong.eq_of_lt hm (Cong.trans ⟨q, ?_⟩ (pmod_cong hm p).symm) hr (pmod_lt hm p)
    rw [hqr, Nat.xor_comm r, Nat.xor_assoc, Nat.xor_self, Nat.xor_zero]

/-- The model's `modulo` agrees with `pmod`. -/
theorem modulo_eq_pmod (p m : UInt64) (hm : m ≠ 0) : (modulo p m).toNat = pmod p.toNat m.toNat := by
  have hm' : m.toNat ≠ 0 := fun h' => hm ((toNat_eq_zero_iff m).mp h')
  exact modulo_unique hm p (pmod_cong hm' _) (pmod_lt hm' _)

/-- **T3.** `hashBlock poly bs` is the remainder modulo `poly` of the byte string read as a big-endian
polynomial over GF(2) (for any modulus of degree `0 … 56`). -/
theorem hashBlock_eq_pmod (poly : UInt64) (h0 : 0 ≤ degree poly) (hhi : degree poly ≤ 56) (bs : Bytes) :
    (hashBlock poly bs).toNat = pmod (bytesPoly bs) poly.toNat := by
  have hp : poly ≠ 0 := by
    intro h; subst h; simp [degree] at h0
  have hp' : poly.toNat ≠ 0 := fun h' => hp ((toNat_eq_zero_iff poly).mp h')
  have hd : poly.toNat.log2 ≤ 56 := by rw [degree_poly hp] at hhi; omega
  exact Cong.eq_of_lt hp' ((hashBlock_cong hp hd bs).trans (pmod_cong hp' _).symm)
    (hashBlock_lt hp hd bs) (pmod_lt hp' _)

/-- T1 and T3 combined: the rolling hash is the polynomial remainder of the last 64 bytes. -/
theorem slide_window_eq_pmod (poly : UInt64) (hlo : 8 ≤ degree poly) (hhi : degree poly ≤ 55)
    (bs : Bytes) :
    ((bs.foldl (slide (Tables.mk' 6 poly)) (reset (Tables.mk' 6 poly))).hash).toNat
      = pmod (bytesPoly (bs.drop (bs.length - 64))) poly.toNat := by
  rw [slide_window_fingerprint poly hlo hhi bs]
  exact hashBlock_eq_pmod poly (by omega) (by omega) _

/-! ## Sanity: `clmul` really is polynomial multiplication -/

/-- Degrees add under `clmul` (so GF(2)[x] has no zero divisors). -/
theorem log2_clmul {q m : Nat} (hq : q ≠ 0) (hm : m ≠ 0) :
    clmul q m ≠ 0 ∧ (clmul q m).log2 = q.log2 + m.log2 := by
  induction q using Nat.strongRecOn with
  | _ q ih =>
    by_cases h1 : q = 1
    · subst h1; rw [clmul_one]
      have : Nat.log2 1 = 0 := by simpa using (Nat.log2_two_pow (n := 0))
      exact ⟨hm, by rw [this, Nat.zero_add]⟩
    · have hq2 : q / 2 ≠ 0 := by omega
      obtain ⟨ihne, ihl⟩ := ih (q / 2) (by omega) hq2
      have hlq : q.log2 = (q / 2).log2 + 1 := by
        rw [Nat.log2_eq_iff hq]
        have := (Nat.log2_eq_iff hq2).mp rfl
        rw [Nat.pow_succ, Nat.pow_succ]; omega
      obtain ⟨hA1, hA2⟩ := (Nat.log2_eq_iff ihne).mp ihl
      have hbig : 2 ^ (q.log2 + m.log2) ≤ clmul (q / 2) m <<< 1 := by
        rw [Nat.shiftLeft_eq, hlq, show (q / 2).log2 + 1 + m.log2 = (q / 2).log2 + m.log2 + 1 by omega,
          Nat.pow_succ]
        exact Nat.mul_le_mul_right 2 hA1
      have hbig' : clmul (q / 2) m <<< 1 < 2 ^ (q.log2 + m.log2 + 1) := by
        have := shiftLeft_lt_two_pow (k := 1) hA2
        rwa [show (q / 2).log2 + m.log2 + 1 + 1 = q.log2 + m.log2 + 1 by omega] at this
      have hsmall : (if q % 2 = 1 then m else 0) < 2 ^ (q.log2 + m.log2) := by
        have : m < 2 ^ (q.log2 + m.log2) :=
          Nat.lt_of_lt_of_le (Nat.lt_log2_self (n := m)) (Nat.pow_le_pow_right (by omega) (by omega))
        split
        · exact this
        · exact Nat.two_pow_pos _
      have hge : 2 ^ (q.log2 + m.log2) ≤ clmul q m := by
        rw [clmul_eq, Nat.xor_comm]; exact two_pow_le_xor hbig hsmall
      have hlt : clmul q m < 2 ^ (q.log2 + m.log2 + 1) := by
        rw [clmul_eq]
        exact Nat.xor_lt_two_pow
          (Nat.lt_of_lt_of_le hsmall (Nat.pow_le_pow_right (by omega) (by omega))) hbig'
      have hne : clmul q m ≠ 0 := by
        have := Nat.two_pow_pos (q.log2 + m.log2); omega
      exact ⟨hne, (Nat.log2_eq_iff hne).mpr ⟨hge, hlt⟩⟩

example : clmul 3 3 = 5 := by simp [clmul]                         -- (x+1)² = x²+1
example : clmul 0b1011 0b110 = 0b111010 := by simp [clmul]         -- (x³+x+1)(x²+x)
example : pmod 7 3 = 1 := by decide
example : pmod 19 8 = 3 := by decide

end Rustic.Rabin
