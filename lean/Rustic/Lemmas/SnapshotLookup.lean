/-
Lemmas for C01, reading BY PATH (`Model/Snapshot.lean`: `lookupPath` = `Tree::node_from_path`): whatever the restore walk
reads below a tree id, the path lookup finds — component by component the FIRST node of that (un-escaped) name, which is the
node the walk restored the entry from — and, when sibling names are pairwise different, every listed path names its own entry.
-/
import Rustic.Lemmas.Snapshot
namespace Rustic.Snapshot
open Rustic.Tree Rustic.RoundTrip

/-- the restore of a node keeps its name -/
theorem restoreNode_name (getData : Id → Option Bytes) (order : List Write → List Write) (rec : Id → Option (List STree))
    (n : Node) (t : STree) (h : restoreNode getData order rec n = some t) : t.node.name = n.name := by
  unfold restoreNode at h
  split at h
  · split at h
    · cases h
    · cases hr : rec _ with
      | none => rw [hr] at h; cases h
      | some cs => rw [hr] at h; cases h; rfl
  · split at h
    · cases h
    · cases hr : restoreFile getData _ order with
      | none => rw [hr] at h; cases h
      | some f => rw [hr] at h; cases h; rfl
  · cases h; rfl

/-- the children of a restored entry are the restore of its node's subtree -/
theorem restoreNode_children (getData : Id → Option Bytes) (order : List Write → List Write) (rec : Id → Option (List STree))
    (n : Node) (t : STree) (h : restoreNode getData order rec n = some t) (hne : t.children ≠ []) :
    ∃ sub, n.subtree = some sub ∧ rec sub = some t.children := by
  unfold restoreNode at h
  split at h
  · split at h
    · cases h
    · rename_i sub hsub
      cases hr : rec sub with
      | none => rw [hr] at h; cases h
      | some cs => rw [hr] at h; cases h; exact ⟨sub, hsub, hr⟩
  · split at h
    · cases h
    · cases hr : restoreFile getData _ order with
      | none => rw [hr] at h; cases h
      | some f => rw [hr] at h; cases h; exact absurd rfl hne
  · cases h; exact absurd rfl hne

/-- `mapM` keeps positions and `f` keeps names, so the first entry of a name comes from the first node of that name -/
theorem mapM_find (f : Node → Option STree) (hname : ∀ n t, f n = some t → t.node.name = n.name) (p : Name) :
    ∀ (nodes : List Node) (forest : List STree), nodes.mapM f = some forest →
      ∀ t, forest.find? (fun t => t.node.name == p) = some t →
        ∃ n, nodes.find? (fun n => n.name == p) = some n ∧ f n = some t
  | [], forest, h, t, hf => by
    simp only [List.mapM_nil] at h
    cases h
    simp at hf
  | n :: nodes, forest, h, t, hf => by
    simp only [List.mapM_cons] at h
    cases hn : f n with
    | none => simp [hn] at h
    | some t0 =>
      cases hr : nodes.mapM f with
      | none => simp [hn, hr] at h
      | some rest =>
        simp only [hn, hr] at h
        cases h
        have hnm := hname n t0 hn
        by_cases hp : (t0.node.name == p) = true
        · simp only [List.find?_cons, hp] at hf
          cases hf
          refine ⟨n, ?_, hn⟩
          simp only [List.find?_cons, ← hnm, hp]
        · have hp' : (t0.node.name == p) = false := by simpa using hp
          simp only [List.find?_cons, hp'] at hf
          obtain ⟨n', h1, h2⟩ := mapM_find f hname p nodes rest hr t hf
          refine ⟨n', ?_, h2⟩
          simp only [List.find?_cons, ← hnm, hp', h1]

theorem findL_nil : ∀ (path : List Name), findL [] path = none
  | [] => rfl
  | [_] => rfl
  | _ :: _ :: _ => rfl

/-- **By-path access agrees with the restore walk.**  If the walk below tree `id` reads the forest `forest`, then for every path
that names an entry `t` of it (`findL`), `Tree::node_from_path` started at any node with that subtree finds a node — no
"not found", no "not a directory" — and that node is the one the walk restores `t` from (its name, type, link target and
metadata are `t`'s; its content ids give `t`'s bytes; its subtree `t`'s children). -/
theorem lookup_of_restore (s : Str) (j : Ser) (getTree getData : Id → Option Bytes) (order : List Write → List Write) :
    ∀ (path : List Name) (fuel : Nat) (id : Id) (forest : List STree) (start : Node) (t : STree),
      start.subtree = some id → restoreTrees s j getTree getData order fuel id = some forest →
      findL forest path = some t →
      ∃ n k, lookupFrom s j getTree start path = some n ∧
        restoreNode getData order (restoreTrees s j getTree getData order k) n = some t
  | [], _, _, _, _, _, _, _, hf => by simp [findL] at hf
  | p :: ps, 0, _, _, _, _, _, hr, _ => by simp [restoreTrees] at hr
  | p :: ps, fuel + 1, id, forest, start, t, hs, hr, hf => by
    simp only [restoreTrees] at hr
    cases hl : loadTree s j getTree id with
    | none => simp [hl] at hr
    | some nodes =>
      simp only [hl] at hr
      have hname := fun n t => restoreNode_name getData order (restoreTrees s j getTree getData order fuel) n t
      cases ps with
      | nil =>
        simp only [findL] at hf
        obtain ⟨n, h1, h2⟩ := mapM_find _ hname p nodes forest hr t hf
        exact ⟨n, fuel, by simp [lookupFrom, lookupStep, findNode, hs, hl, h1], h2⟩
      | cons q qs =>
        simp only [findL] at hf
        cases hfd : forest.find? (fun t => t.node.name == p) with
        | none => simp [hfd] at hf
        | some t1 =>
          simp only [hfd] at hf
          obtain ⟨n1, h1, h2⟩ := mapM_find _ hname p nodes forest hr t1 hfd
          have hne : t1.children ≠ [] := by
            intro he
            rw [he, findL_nil] at hf
            cases hf
          obtain ⟨sub, hsub, hrec⟩ := restoreNode_children _ _ _ n1 t1 h2 hne
          obtain ⟨n, k, h3, h4⟩ := lookup_of_restore s j getTree getData order (q :: qs) fuel sub t1.children n1 t hsub hrec hf
          refine ⟨n, k, ?_, h4⟩
          simp only [lookupFrom, lookupStep, findNode, hs, hl, h1]
          exact h3

/-! ### every listed path names its own entry when sibling names are pairwise different -/

mutual
/-- sibling names are pairwise different (every file system) -/
def STree.Distinct : STree → Prop
  | .leaf _ _ => True
  | .dir _ cs => DistinctL cs
def DistinctL : List STree → Prop
  | [] => True
  | t :: ts => t.Distinct ∧ (∀ u ∈ ts, u.node.name ≠ t.node.name) ∧ DistinctL ts
end

mutual
theorem STree.paths_ne_nil : ∀ (t : STree) (pt : List Name × STree), pt ∈ t.paths → pt.1 ≠ []
  | .leaf n d, pt, h => by
    simp only [STree.paths, List.mem_singleton] at h
    subst h; simp
  | .dir n cs, pt, h => by
    simp only [STree.paths, List.mem_cons, List.mem_map] at h
    rcases h with h | ⟨q, _, h⟩
    · subst h; simp
    · subst h; simp
theorem pathsL_ne_nil : ∀ (ts : List STree) (pt : List Name × STree), pt ∈ pathsL ts → pt.1 ≠ []
  | [], pt, h => by simp [pathsL] at h
  | t :: ts, pt, h => by
    simp only [pathsL, List.mem_append] at h
    rcases h with h | h
    · exact t.paths_ne_nil pt h
    · exact pathsL_ne_nil ts pt h
end

/-- every path listed below a tree starts with the tree's name -/
theorem STree.paths_head (t : STree) (pt : List Name × STree) (h : pt ∈ t.paths) : ∃ rest, pt.1 = t.node.name :: rest := by
  cases t with
  | leaf n d =>
    simp only [STree.paths, List.mem_singleton] at h
    subst h; exact ⟨[], rfl⟩
  | dir n cs =>
    simp only [STree.paths, List.mem_cons, List.mem_map] at h
    rcases h with h | ⟨q, _, h⟩
    · subst h; exact ⟨[], rfl⟩
    · subst h; exact ⟨q.1, rfl⟩

/-- a path listed below the first tree is resolved in the first tree -/
theorem findL_cons_hit (t : STree) (ts : List STree) (rest : List Name) :
    findL (t :: ts) (t.node.name :: rest) = findL [t] (t.node.name :: rest) := by
  cases rest with
  | nil => simp [findL]
  | cons q qs => simp [findL]

/-- a path that does not start with the first tree's name is resolved among the others -/
theorem findL_cons_miss (t : STree) (ts : List STree) (p : Name) (rest : List Name) (h : t.node.name ≠ p) :
    findL (t :: ts) (p :: rest) = findL ts (p :: rest) := by
  have hb : (t.node.name == p) = false := by simpa using h
  cases rest with
  | nil => simp [findL, hb]
  | cons q qs => simp [findL, hb]

mutual
theorem STree.listed_found : ∀ (t : STree), t.Distinct → ∀ pt ∈ t.paths, findL [t] pt.1 = some pt.2
  | .leaf n d, _, pt, h => by
    simp only [STree.paths, List.mem_singleton] at h
    subst h
    simp [findL, STree.node]
  | .dir n cs, hd, pt, h => by
    simp only [STree.Distinct] at hd
    simp only [STree.paths, List.mem_cons, List.mem_map] at h
    rcases h with h | ⟨q, hq, h⟩
    · subst h
      simp [findL, STree.node]
    · subst h
      have ih := listed_foundL cs hd q hq
      have hne := pathsL_ne_nil cs q hq
      cases hq1 : q.1 with
      | nil => exact absurd hq1 hne
      | cons a as =>
        rw [hq1] at ih
        simp only [findL, List.find?_cons, STree.node, beq_self_eq_true, STree.children]
        exact ih
theorem listed_foundL : ∀ (ts : List STree), DistinctL ts → ∀ pt ∈ pathsL ts, findL ts pt.1 = some pt.2
  | [], _, pt, h => by simp [pathsL] at h
  | t :: ts, hd, pt, h => by
    simp only [DistinctL] at hd
    simp only [pathsL, List.mem_append] at h
    rcases h with h | h
    · obtain ⟨rest, hr⟩ := t.paths_head pt h
      have := t.listed_found hd.1 pt h
      rw [hr] at this ⊢
      rw [findL_cons_hit]
      exact this
    · have ih := listed_foundL ts hd.2.2 pt h
      -- the path starts with the name of a tree of `ts`, which differs from `t`'s
      have hhead : ∃ u ∈ ts, ∃ rest, pt.1 = u.node.name :: rest := pathsL_head ts pt h
      obtain ⟨u, hu, rest, hr⟩ := hhead
      rw [hr] at ih ⊢
      rw [findL_cons_miss t ts _ rest (fun he => hd.2.1 u hu he.symm)]
      exact ih
theorem pathsL_head : ∀ (ts : List STree) (pt : List Name × STree), pt ∈ pathsL ts →
    ∃ u ∈ ts, ∃ rest, pt.1 = u.node.name :: rest
  | [], pt, h => by simp [pathsL] at h
  | t :: ts, pt, h => by
    simp only [pathsL, List.mem_append] at h
    rcases h with h | h
    · obtain ⟨rest, hr⟩ := t.paths_head pt h
      exact ⟨t, List.mem_cons_self, rest, hr⟩
    · obtain ⟨u, hu, rest, hr⟩ := pathsL_head ts pt h
      exact ⟨u, List.mem_cons_of_mem _ hu, rest, hr⟩
end

end Rustic.Snapshot
