/- Connects the structural chunker theorems (any rolling hash) with the concrete Rabin64 proofs:
which bytes the fingerprint at a cut position is computed over. -/
import Rustic.Lemmas.Chunker
import Rustic.Lemmas.Rabin
namespace Rustic.Chunker
open Rustic.Rabin

/-- The byte sequence slid through the (reset) rolling hash when the chunk has length `L ≥ min`:
at most 63 bytes of the 64-byte slice before `min`, then the bytes `min .. L`. -/
def codeWindowInput (p : Params) (bs : Bytes) (L : Nat) : Bytes :=
  (((bs.take p.min).drop ((bs.take p.min).length - p.win)).take (p.win - 1)) ++ (bs.take L).drop p.min

theorem fpState_rabin (t : Tables) (p : Params) (bs : Bytes) (L : Nat) :
    fpState (roll t) p bs L = (codeWindowInput p bs L).foldl (slide t) (reset t) := by
  unfold fpState codeWindowInput Roll.prefill
  rw [List.foldl_append]
  rfl

/-- The value compared with the split mask at chunk length `L` is the Rabin fingerprint (remainder modulo
the repository polynomial) of the last 64 bytes of `codeWindowInput`. -/
theorem cut_hash_is_fingerprint (poly : UInt64) (hlo : 8 ≤ degree poly) (hhi : degree poly ≤ 55)
    (p : Params) (bs : Bytes) (L : Nat) :
    ((roll (Tables.mk' 6 poly)).hash (fpState (roll (Tables.mk' 6 poly)) p bs L)).toNat =
      pmod (bytesPoly ((codeWindowInput p bs L).drop ((codeWindowInput p bs L).length - 64))) poly.toNat := by
  rw [fpState_rabin]
  exact slide_window_eq_pmod poly hlo hhi _

/-- From 64 bytes after `min` on, that window is literally the most recent 64 bytes of the chunk. -/
theorem codeWindow_literal (p : Params) (bs : Bytes) (L : Nat) (hL : L ≤ bs.length) (h64 : p.min + 64 ≤ L) :
    (codeWindowInput p bs L).drop ((codeWindowInput p bs L).length - 64) = (bs.take L).drop (L - 64) := by
  unfold codeWindowInput
  generalize hpre : (((bs.take p.min).drop ((bs.take p.min).length - p.win)).take (p.win - 1)) = pre
  have hmid : ((bs.take L).drop p.min).length = L - p.min := by
    simp only [List.length_drop, List.length_take]; omega
  rw [List.length_append, hmid, List.drop_append]
  have h1 : pre.length + (L - p.min) - 64 - pre.length = L - p.min - 64 := by omega
  have h2 : pre.drop (pre.length + (L - p.min) - 64) = [] := List.drop_of_length_le (by omega)
  rw [h1, h2, List.nil_append, List.drop_drop]
  congr 1
  omega

end Rustic.Chunker
