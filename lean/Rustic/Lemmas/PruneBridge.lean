/-
Bridge from the prune model (`Rustic.Prune.plan` / `execute`) to the abstract repository protocol: what the executed
operation list of an accepted plan looks like in terms of the plan's packs, and why it satisfies the premises of
`Rustic.Repo.prune_run_safe` (the generalised form of C03's `prune_protocol_safe`).
-/
import Rustic.Lemmas.PruneExec
import Rustic.Lemmas.PruneProtocol
namespace Rustic.Prune
open Rustic.Repo (BlobType Key)

theorem idx_eq_of_nodup_map {α β} (g : α → β) : ∀ (l : List α), (l.map g).Nodup →
    ∀ (i j : Nat) (a b : α), l[i]? = some a → l[j]? = some b → g a = g b → i = j
  | [], _, i, j, a, b, ha, _, _ => by simp at ha
  | x :: l, h, i, j, a, b, ha, hb, e => by
    simp only [List.map_cons, List.nodup_cons] at h
    cases i with
    | zero =>
      cases j with
      | zero => rfl
      | succ j =>
        simp only [List.getElem?_cons_zero, Option.some.injEq] at ha
        simp only [List.getElem?_cons_succ] at hb
        exact absurd (by rw [ha, e]; exact List.mem_map_of_mem (List.mem_of_getElem? hb)) h.1
    | succ i =>
      cases j with
      | zero =>
        simp only [List.getElem?_cons_zero, Option.some.injEq] at hb
        simp only [List.getElem?_cons_succ] at ha
        exact absurd (by rw [hb, ← e]; exact List.mem_map_of_mem (List.mem_of_getElem? ha)) h.1
      | succ j =>
        simp only [List.getElem?_cons_succ] at ha hb
        rw [idx_eq_of_nodup_map g l h.2 i j a b ha hb e]

/-! ### the repository a plan was computed from -/

def toIdxPack (q : IndexPack) : Repo.IdxPack := { id := q.id, blobs := q.blobs.map blobKey, time := q.time }

def toRepoIndex (f : IndexFile) : Repo.IndexFile :=
  { id := f.id, packs := f.packs.map toIdxPack, del := f.del.map toIdxPack }

/-- `files`, `used`, `existing` are what `PrunePlan::from_prune_options` reads off the repository `r`. -/
structure Reads (r : Repo.Repo) (files : List IndexFile) (used : List Key) (existing : List (Nat × Nat)) : Prop where
  /-- the index files are the stored ones -/
  indexes : r.indexes = files.map toRepoIndex
  /-- index files are stored under distinct ids -/
  indexIds : (files.map (·.id)).Nodup
  /-- `find_used_blobs`: everything a snapshot needs is a used key -/
  used : ∀ s ∈ r.snaps, ∀ k ∈ s.needs, k ∈ used
  /-- `list_with_size(Pack)`: listed packs are stored -/
  existing : ∀ x ∈ existing, Repo.hasPack r x.1 = true
  /-- the index is truthful about packs marked for deletion too: a marked pack that is still stored holds the blobs its
  entry lists (for unmarked entries this is part of `consistent r`) -/
  markedTruthful : ∀ f ∈ files, ∀ q ∈ f.del, Repo.hasPack r q.id = true →
    ∀ b ∈ q.blobs, Repo.stored r q.id (blobKey b) = true
  /-- ids of the files prune writes are fresh (they are hashes of content encrypted under random nonces) -/
  freshIndex : newIndexId ∉ files.map (·.id)
  freshPacks : ∀ t, ∀ f ∈ files, ∀ q ∈ f.packs ++ f.del, q.id ≠ newPackId t

/-! ### more about accepted plans -/

/-- `check_existing_packs`: the packs left over as "unreferenced" are existing packs that are no pack of the plan. -/
theorem checkExisting_left (typed : Bool) : ∀ (ps : List PPack) (ex : List (Nat × Nat)) (c : Counts)
    (ex' : List (Nat × Nat)) (c' : Counts), checkExisting typed ps ex c = some (ex', c') →
    ∀ x ∈ ex', x ∈ ex ∧ ∀ p ∈ ps, p.id ≠ x.1
  | [], ex, c, ex', c', h => by
    simp only [checkExisting, Option.some.injEq, Prod.mk.injEq] at h
    obtain ⟨rfl, rfl⟩ := h
    exact fun x hx => ⟨hx, by simp⟩
  | p :: ps, ex, c, ex', c', h => by
    have key : ∀ c2, checkExisting typed ps (ex.filter (fun x => x.1 != p.id)) c2 = some (ex', c') →
        ∀ x ∈ ex', x ∈ ex ∧ ∀ q ∈ p :: ps, q.id ≠ x.1 := by
      intro c2 h2 x hx
      obtain ⟨h3, h4⟩ := checkExisting_left typed ps _ c2 ex' c' h2 x hx
      have h5 := List.mem_filter.mp h3
      refine ⟨h5.1, ?_⟩
      intro q hq
      rcases List.mem_cons.mp hq with rfl | hq
      · have := h5.2
        simp only [bne_iff_ne, ne_eq] at this
        exact fun e => this e.symm
      · exact h4 q hq
    unfold checkExisting at h
    simp only at h
    split at h
    · simp at h
    · split at h
      · exact key _ h
      · simp at h
    · split at h
      · exact key _ h
      · simp at h
    · split at h
      · exact key _ h
      · simp at h
    · exact key _ h

theorem decideOne_marked_ne_keep (kc : Consts) (o : Opts) (p : PPack) (pi : PackInfo) (hm : p.mark = true) :
    (decideOne kc o p pi).1 ≠ .keep := by
  unfold decideOne
  generalize tooYoung o p.time = young
  generalize (o.repackCacheableOnly && !isCacheable p.blobType) = ku
  generalize (o.repackUncompressed && !p.blobs.all (·.compressed)) = tc
  generalize (!(o.sizer p.blobType).sizeOk kc p.size) = sm
  rw [hm]
  cases pi.usedBlobs with
  | zero =>
    cases p.time with
    | none => simp
    | some t =>
      simp only
      split <;> simp
  | succ u => simp

/-- a marked pack is never decided `Keep` / `Repack` / `MarkDelete`; an unmarked one never `KeepMarked*` / `Recover` /
`Delete`. -/
theorem todo_vs_mark {typed : Bool} {kc : Consts} {o : Opts} {files : List IndexFile} {used : List Key}
    {existing : List (Nat × Nat)} {d : Decided} (h : plan typed kc o files used existing = some d)
    {q : PPack} (hq : q ∈ d.packs) :
    (q.todo = .keep → q.mark = false) ∧ (q.todo = .recover → q.mark = true) ∧
    (q.todo = .keepMarked → q.mark = true) := by
  unfold plan at h
  simp only at h
  split at h
  · simp at h
  · split at h
    · simp at h
    · rename_i ex c hce
      simp only [Option.some.injEq] at h
      subst h
      simp only at hq ⊢
      obtain ⟨p, hp, _, hmk, hi, _, _, _, hcand, htodo⟩ := decideRepack_mem kc o _ q hq
      have hproc := decidePacks_all typed kc o _ _ p hp
      have tab := decideOne_table kc o p p.info
      unfold Processed at hproc
      rw [← hproc] at tab
      simp only at tab
      rw [hmk]
      constructor
      · intro ht
        rcases htodo with ⟨hc, e⟩ | ⟨hc, _⟩
        · cases hm : p.mark with
          | false => rfl
          | true =>
            exfalso
            have hne := decideOne_marked_ne_keep kc o p p.info hm
            rw [← hproc] at hne
            exact hne (by rw [← e]; exact ht)
        · exact (tab.2.2.2.2.2.2.1 hc).2.1
      refine ⟨?_, ?_⟩
      · intro ht
        rcases htodo with ⟨_, e⟩ | ⟨_, e⟩
        · exact (tab.2.2.2.2.2.2.2 (by rw [← e]; exact ht)).1
        · rcases e with e | e <;> rw [e] at ht <;> simp at ht
      · intro ht
        rcases htodo with ⟨_, e⟩ | ⟨_, e⟩
        · exact (tab.2.2.1 (Or.inl (by rw [← e]; exact ht))).1
        · rcases e with e | e <;> rw [e] at ht <;> simp at ht

/-! ### what `execute` produces, in terms of the plan's packs -/

theorem execute_nothing (typed : Bool) (o : Opts) (d : Decided) (h : d.rebuild.isEmpty = true) :
    (execute typed o d).nothing = true ∧ (execute typed o d).newUnmarked = [] ∧ (execute typed o d).newMarked = [] ∧
    (execute typed o d).removeIndexes = [] ∧ (execute typed o d).removePacks = [] ∧ (execute typed o d).repacked = [] := by
  simp [execute, h]

theorem execute_removeFirst (typed : Bool) (o : Opts) (d : Decided) :
    ∀ id ∈ (execute typed o d).removeFirst, ∃ x ∈ d.unreferenced, x.1 = id := by
  intro id hid
  have : (execute typed o d).removeFirst = if o.instantDelete then d.unreferenced.map (·.1) else [] := by
    by_cases hne : d.rebuild.isEmpty = true <;> simp [execute, hne]
  rw [this] at hid
  split at hid
  · exact List.mem_map.mp hid
  · simp at hid

/-- a removed pack is a pack of a rebuilt index file whose decision is neither `Keep` nor `Recover`. -/
theorem execute_removePacks (typed : Bool) (o : Opts) (d : Decided) :
    ∀ id ∈ (execute typed o d).removePacks, ∃ p ∈ d.packs, p.id = id ∧ p.todo ≠ .keep ∧ p.todo ≠ .recover := by
  intro id hid
  by_cases hne : d.rebuild.isEmpty = true
  · rw [(execute_nothing typed o d hne).2.2.2.2.1] at hid; simp at hid
  · simp only [execute, hne] at hid
    simp only [Bool.false_eq_true, if_false, List.mem_filterMap] at hid
    obtain ⟨p, hp, hpid⟩ := hid
    have hp' := (List.mem_filter.mp hp).1
    cases ht : p.todo <;> rw [ht] at hpid <;> simp at hpid <;>
      first
        | exact ⟨p, hp', hpid, by rw [ht]; decide, by rw [ht]; decide⟩
        | exact ⟨p, hp', hpid.2, by rw [ht]; decide, by rw [ht]; decide⟩

theorem execute_removeIndexes (typed : Bool) (o : Opts) (d : Decided) :
    ∀ id ∈ (execute typed o d).removeIndexes, ∃ n ix, d.indexes[n]? = some ix ∧ d.rebuild.contains n = true ∧ ix.id = id := by
  intro id hid
  by_cases hne : d.rebuild.isEmpty = true
  · rw [(execute_nothing typed o d hne).2.2.2.1] at hid; simp at hid
  · simp only [execute, hne] at hid
    simp only [Bool.false_eq_true, if_false, List.mem_filterMap] at hid
    obtain ⟨x, hx, hxid⟩ := hid
    have := (mem_enumFrom d.indexes 0 x.1 x.2).mp hx
    split at hxid
    · rename_i hc
      simp only [Option.some.injEq] at hxid
      exact ⟨x.1, x.2, by simpa using this.2, hc, hxid⟩
    · cases hxid

/-- an unmarked entry of the new index file is a kept / recovered pack of a rebuilt index file, with all its blobs —
or one of the (at most two) new packs holding the repacked blobs of one type. -/
theorem execute_newUnmarked (typed : Bool) (o : Opts) (d : Decided) :
    ∀ x ∈ (execute typed o d).newUnmarked,
      (∃ p ∈ d.packs, (p.todo = .keep ∨ p.todo = .recover) ∧ x.id = p.id ∧ x.blobs = p.blobs.map blobKey) ∨
      (∃ t, x.id = newPackId t ∧
        x.blobs = (((execute typed o d).repacked).filter (fun b => b.tpe == t)).map blobKey) := by
  intro x hx
  by_cases hne : d.rebuild.isEmpty = true
  · rw [(execute_nothing typed o d hne).2.1] at hx; simp at hx
  · simp only [execute, hne] at hx ⊢
    simp only [Bool.false_eq_true, if_false, List.mem_append, List.mem_filterMap] at hx ⊢
    rcases hx with ⟨p, hp, hpx⟩ | ⟨t, _, htx⟩
    · left
      have hp' := (List.mem_filter.mp hp).1
      cases ht : p.todo <;> rw [ht] at hpx <;> simp at hpx
      · exact ⟨p, hp', Or.inl ht, by rw [← hpx]; rfl, by rw [← hpx]; rfl⟩
      · exact ⟨p, hp', Or.inr ht, by rw [← hpx]; rfl, by rw [← hpx]; rfl⟩
    · right
      split at htx
      · cases htx
      · simp only [Option.some.injEq] at htx
        exact ⟨t, by rw [← htx], by rw [← htx]⟩

/-- a kept / recovered pack of a rebuilt index file is listed unmarked in the new index file. -/
theorem execute_lists_kept (typed : Bool) (o : Opts) (d : Decided) (p : PPack) (hp : p ∈ d.packs)
    (ht : p.todo = .keep ∨ p.todo = .recover) (hreb : d.rebuild.contains p.index = true) :
    ∃ x ∈ (execute typed o d).newUnmarked, x.id = p.id ∧ x.blobs = p.blobs.map blobKey := by
  have hne : ¬ d.rebuild.isEmpty = true := by
    intro he; rw [List.isEmpty_iff] at he; rw [he] at hreb; simp at hreb
  simp only [execute, hne]
  simp only [Bool.false_eq_true, if_false]
  rcases ht with ht | ht
  · refine ⟨toIdx p (some (p.time.getD o.now)), List.mem_append_left _ ?_, rfl, rfl⟩
    exact List.mem_filterMap.mpr ⟨p, List.mem_filter.mpr ⟨hp, hreb⟩, by rw [ht]⟩
  · refine ⟨toIdx p (some o.now), List.mem_append_left _ ?_, rfl, rfl⟩
    exact List.mem_filterMap.mpr ⟨p, List.mem_filter.mpr ⟨hp, hreb⟩, by rw [ht]⟩

/-- every repacked blob is in one of the new packs listed unmarked in the new index file. -/
theorem execute_lists_repacked (typed : Bool) (o : Opts) (d : Decided) (b : Blob)
    (hb : b ∈ (execute typed o d).repacked) :
    ∃ x ∈ (execute typed o d).newUnmarked, x.id = newPackId b.tpe ∧ blobKey b ∈ x.blobs := by
  by_cases hne : d.rebuild.isEmpty = true
  · rw [(execute_nothing typed o d hne).2.2.2.2.2] at hb; simp at hb
  · simp only [execute, hne] at hb ⊢
    simp only [Bool.false_eq_true, if_false] at hb ⊢
    generalize retainRepack typed (List.filter (fun p => d.rebuild.contains p.index) d.packs) d.usedLeft = rp at hb ⊢
    have hmem : b ∈ rp.filter (fun b' => b'.tpe == b.tpe) := List.mem_filter.mpr ⟨hb, by simp⟩
    refine ⟨{ id := newPackId b.tpe, blobs := (rp.filter (fun b' => b'.tpe == b.tpe)).map blobKey, time := some o.now },
      List.mem_append_right _ ?_, rfl, List.mem_map_of_mem hmem⟩
    apply List.mem_filterMap.mpr
    refine ⟨b.tpe, by cases b.tpe <;> simp, ?_⟩
    have : (rp.filter (fun b' => b'.tpe == b.tpe)).isEmpty = false := by
      cases hl : rp.filter (fun b' => b'.tpe == b.tpe) with
      | nil => rw [hl] at hmem; simp at hmem
      | cons _ _ => rfl
    simp [this]

theorem execute_removeIndexes_mem (typed : Bool) (o : Opts) (d : Decided) (n : Nat) (ix : PIndex)
    (hn : d.indexes[n]? = some ix) (hc : d.rebuild.contains n = true) : ix.id ∈ (execute typed o d).removeIndexes := by
  have hne : ¬ d.rebuild.isEmpty = true := by
    intro he; rw [List.isEmpty_iff] at he; rw [he] at hc; simp at hc
  simp only [execute, hne]
  simp only [Bool.false_eq_true, if_false, List.mem_filterMap]
  exact ⟨(n, ix), (mem_enumFrom d.indexes 0 n ix).mpr ⟨by omega, by simpa using hn⟩, by simpa using hc⟩

theorem ids_of_core_eq {l l' : List PPack} (h : l.map PPack.core = l'.map PPack.core) :
    l.map (·.id) = l'.map (·.id) := by
  have := congrArg (List.map (fun x : Nat × Nat × Nat × Bool × List Blob × Option Int × Nat => x.2.2.1)) h
  rw [List.map_map, List.map_map] at this
  exact this

/-- an index file that is not rebuilt was not modified by `PrunePlan::new`, and all its packs simply stay. -/
theorem not_rebuilt_all_kept (k : Consts) (instant : Bool) (ixs : List PIndex) (ps : List PPack) (n : Nat) (ix : PIndex)
    (hn : ixs[n]? = some ix) (hnot : n ∉ filterIndexes k instant ixs ps) :
    ix.modified = false ∧ ∀ p ∈ ps, p.index = n → p.todo = .keep ∨ p.todo = .keepMarked := by
  have hm : mustModify instant ix (indexPacks ps n) = false := by
    cases hmm : mustModify instant ix (indexPacks ps n) with
    | false => rfl
    | true => exact absurd (mem_filterIndexes_of_mustModify k instant ixs ps n ix hn hmm) hnot
  unfold mustModify at hm
  simp only [Bool.or_eq_false_iff] at hm
  refine ⟨hm.1, fun p hp hpi => ?_⟩
  have hall := hm.2
  rw [List.any_eq_false] at hall
  have := hall p (List.mem_filter.mpr ⟨hp, by simp [hpi]⟩)
  simp only [Bool.and_eq_true, bne_iff_ne, ne_eq, Bool.or_eq_true, not_and, not_or] at this
  by_cases hk : p.todo = .keep
  · exact Or.inl hk
  · right
    have := (this hk).2
    simpa using this

/-! ### the operation list of `execute` is a prune run -/

def execNewPacks (e : Exec) : List Repo.Pack :=
  if e.nothing then [] else
    (e.newUnmarked.filter (fun p => p.id == newPackId .tree || p.id == newPackId .data)).map
      (fun p => ({ id := p.id, blobs := p.blobs } : Repo.Pack))

def execIndex (e : Exec) : Option Repo.IndexFile :=
  if e.nothing || (e.newUnmarked.isEmpty && e.newMarked.isEmpty) then none
  else some { id := newIndexId, packs := e.newUnmarked, del := e.newMarked }

theorem ops_eq_pruneRunOps (o : Opts) (e : Exec) (hearly : (o.earlyDeleteIndex && o.instantDelete) = false) :
    e.ops o = Repo.pruneRunOps e.removeFirst (execNewPacks e) (execIndex e) e.removeIndexes e.removePacks := by
  unfold Exec.ops Repo.pruneRunOps execNewPacks execIndex
  simp only [hearly, Bool.false_eq_true, if_false, List.append_nil]
  by_cases hn : e.nothing = true
  · simp [hn]
  · by_cases hb : (e.newUnmarked.isEmpty && e.newMarked.isEmpty) = true
    · simp [hn, hb]
    · simp [hn, hb, List.map_map, Function.comp]

/-- **The bridge**: the operation list executed for an accepted plan (typed keys, not `early_delete_index`) satisfies
the premises of `Repo.prune_run_safe`; hence every prefix of it leaves the repository consistent.  `hcov` and `hex` are
the C02 theorems `prune_covers_used_keys` and `needed_packs_exist` for this plan. -/
theorem execute_prefix_consistent (kc : Consts) (o : Opts) (r : Repo.Repo) (files : List IndexFile) (used : List Key)
    (existing : List (Nat × Nat)) (d : Decided)
    (hr : Reads r files used existing) (hc : Repo.consistent r = true)
    (h : plan true kc o files used existing = some d)
    (hearly : (o.earlyDeleteIndex && o.instantDelete) = false)
    (hcov : ∀ k ∈ d.usedKeys,
      (∃ p ∈ d.packs, (p.todo = .keep ∨ p.todo = .recover) ∧ k ∈ p.blobs.map (keyOf true)) ∨
      (∃ b ∈ (execute true o d).repacked, keyOf true b = k))
    (hex : ∀ p ∈ d.packs, (p.todo = .keep ∨ p.todo = .recover ∨ p.todo = .repack) → (p.id, p.size) ∈ existing) :
    ∀ r' ∈ Repo.prefixStates r ((execute true o d).ops o), Repo.consistent r' = true := by
  obtain ⟨hi, hcore, hreb, hkeys, cE, hce⟩ := plan_shape h
  obtain ⟨g1, g2, g3, g4, g5⟩ := newPlan_spec kc files
  have hleft := checkExisting_left true d.packs existing cE d.unreferenced d.usedLeft hce
  have hnodup : (d.packs.map (·.id)).Nodup := by rw [ids_of_core_eq hcore]; exact g1
  have hsound := ((Repo.consistent_iff r).mp hc).1
  rw [Repo.indexSound_iff] at hsound
  -- index files of `r`
  have hidxmem : ∀ i ∈ r.indexes, ∃ f ∈ files, i = toRepoIndex f := by
    intro i hi'
    rw [hr.indexes] at hi'
    obtain ⟨f, hf, e⟩ := List.mem_map.mp hi'
    exact ⟨f, hf, e.symm⟩
  have hmemidx : ∀ f ∈ files, toRepoIndex f ∈ r.indexes := by
    intro f hf; rw [hr.indexes]; exact List.mem_map_of_mem hf
  -- (H1) every unmarked entry is a pack of the plan
  have H1 : ∀ f ∈ files, ∀ q ∈ f.packs, ∃ p ∈ d.packs, p.id = q.id := by
    intro f hf q hq
    obtain ⟨p0, hp0, e0⟩ := g3 f hf q hq
    obtain ⟨p, hp, e⟩ := mem_of_core_eq hcore.symm hp0
    simp only [PPack.core, Prod.mk.injEq] at e
    exact ⟨p, hp, by rw [e.2.2.1, e0]⟩
  -- (H2) plan packs are not removed first
  have H2 : ∀ p ∈ d.packs, p.id ∉ (execute true o d).removeFirst := by
    intro p hp hmem
    obtain ⟨x, hx, e⟩ := execute_removeFirst true o d p.id hmem
    exact (hleft x hx).2 p hp e.symm
  -- (H5) ids identify plan packs
  have H5 : ∀ p ∈ d.packs, ∀ p' ∈ d.packs, p.id = p'.id → p = p' :=
    fun p hp p' hp' e => eq_of_nodup_map (·.id) d.packs hnodup p hp p' hp' e
  -- (H3) kept / recovered packs are stored with their blobs
  have H3 : ∀ p ∈ d.packs, (p.todo = .keep ∨ p.todo = .recover) → ∀ b ∈ p.blobs,
      Repo.stored r p.id (blobKey b) = true := by
    intro p hp ht b hb
    obtain ⟨f, ix, hf, _, _, q, hq, hqid, hqb⟩ := plan_index_valid h hp
    have hfm : f ∈ files := List.mem_of_getElem? hf
    cases hm : p.mark with
    | false =>
      simp only [hm, Bool.false_eq_true, if_false] at hq
      have := hsound (toRepoIndex f) (hmemidx f hfm) (toIdxPack q) (List.mem_map_of_mem hq) (blobKey b)
        (by simp only [toIdxPack]; rw [hqb]; exact List.mem_map_of_mem hb)
      simpa [toIdxPack, hqid] using this
    | true =>
      simp only [hm, if_true] at hq
      have hrec : p.todo = .recover := by
        rcases ht with ht | ht
        · have := (todo_vs_mark h hp).1 ht; rw [hm] at this; cases this
        · exact ht
      have hexi := hex p hp (Or.inr (Or.inl hrec))
      have hhas := hr.existing _ hexi
      have := hr.markedTruthful f hfm q hq (by rw [hqid]; exact hhas) b (by rw [hqb]; exact hb)
      rw [hqid] at this; exact this
  -- (H4) an index file among the removed ones sits at a rebuilt position
  have hidlen : ∀ (n : Nat) (ix : PIndex), d.indexes[n]? = some ix → ∃ f : IndexFile, files[n]? = some f ∧ f.id = ix.id := by
    intro n ix hn
    have h1 : (d.indexes.map (·.id))[n]? = (files.map (·.id))[n]? := by rw [hi, g4]
    simp only [List.getElem?_map, hn, Option.map_some] at h1
    cases hf : files[n]? with
    | none => rw [hf] at h1; simp at h1
    | some f => rw [hf] at h1; simp at h1; exact ⟨f, rfl, h1.symm⟩
  have H4 : ∀ (n : Nat) (f : IndexFile), files[n]? = some f → f.id ∈ (execute true o d).removeIndexes → d.rebuild.contains n = true := by
    intro n f hf hmem
    obtain ⟨n', ix, hn', hc', e⟩ := execute_removeIndexes true o d f.id hmem
    obtain ⟨f', hf', e'⟩ := hidlen n' ix hn'
    have := idx_eq_of_nodup_map (·.id) files hr.indexIds n' n f' f hf' hf (by show f'.id = f.id; rw [e', e])
    rw [← this]; exact hc'
  have hnot : ∀ n : Nat, d.rebuild.contains n = false → n ∉ filterIndexes kc o.instantDelete d.indexes d.packs := by
    intro n hn hmem
    rw [← hreb] at hmem
    have : d.rebuild.contains n = true := by simpa using hmem
    rw [hn] at this; cases this
  -- the new index file
  have hidxsome : ∀ i, execIndex (execute true o d) = some i →
      (execute true o d).nothing = false ∧ i.id = newIndexId ∧ i.packs = (execute true o d).newUnmarked := by
    intro i hi'
    unfold execIndex at hi'
    split at hi'
    · cases hi'
    · rename_i hcnd
      simp only [Option.some.injEq] at hi'
      subst hi'
      simp only [Bool.or_eq_true, not_or, Bool.not_eq_true] at hcnd
      exact ⟨hcnd.1, rfl, rfl⟩
  have hidxex : ∀ x ∈ (execute true o d).newUnmarked, ∃ i, execIndex (execute true o d) = some i ∧
      i.packs = (execute true o d).newUnmarked := by
    intro x hx
    have hnn : (execute true o d).nothing = false := by
      by_cases hne : d.rebuild.isEmpty = true
      · rw [(execute_nothing true o d hne).2.1] at hx; simp at hx
      · simp [execute, hne]
    have hne' : (execute true o d).newUnmarked.isEmpty = false := by
      cases hl : (execute true o d).newUnmarked with
      | nil => rw [hl] at hx; simp at hx
      | cons _ _ => rfl
    refine ⟨{ id := newIndexId, packs := (execute true o d).newUnmarked, del := (execute true o d).newMarked }, ?_, rfl⟩
    unfold execIndex
    simp [hnn, hne']
  rw [ops_eq_pruneRunOps o _ hearly]
  apply Repo.prune_run_safe r _ _ _ _ _ hc
  · -- hfirst
    intro i hi' pk hpk hmem
    obtain ⟨f, hf, rfl⟩ := hidxmem i hi'
    obtain ⟨q, hq, rfl⟩ := List.mem_map.mp hpk
    obtain ⟨p, hp, e⟩ := H1 f hf q hq
    exact H2 p hp (by rw [e]; exact hmem)
  · -- hidx
    intro i hi' pk hpk k hk
    obtain ⟨hnn, _, hpacks⟩ := hidxsome i hi'
    rw [hpacks] at hpk
    rcases execute_newUnmarked true o d pk hpk with ⟨p, hp, ht, eid, ebl⟩ | ⟨t, eid, ebl⟩
    · left
      rw [ebl] at hk
      obtain ⟨b, hb, rfl⟩ := List.mem_map.mp hk
      rw [eid]
      exact ⟨H2 p hp, H3 p hp ht b hb⟩
    · right
      refine ⟨{ id := pk.id, blobs := pk.blobs }, ?_, rfl, hk⟩
      unfold execNewPacks
      simp only [hnn, Bool.false_eq_true, if_false]
      apply List.mem_map.mpr
      refine ⟨pk, List.mem_filter.mpr ⟨hpk, ?_⟩, rfl⟩
      rw [eid]; cases t <;> simp
  · -- hfresh
    intro i hi' hmem
    obtain ⟨_, eid, _⟩ := hidxsome i hi'
    rw [eid] at hmem
    obtain ⟨n, ix, hn, _, e⟩ := execute_removeIndexes true o d _ hmem
    obtain ⟨f, hf, e'⟩ := hidlen n ix hn
    exact hr.freshIndex (List.mem_map.mpr ⟨f, List.mem_of_getElem? hf, by rw [e', e]⟩)
  · -- hcover
    intro s hs k hk
    have hku : k ∈ d.usedKeys := by
      rw [hkeys]
      exact List.mem_map.mpr ⟨k, hr.used s hs k hk, rfl⟩
    rcases hcov k hku with ⟨p, hp, ht, hmem⟩ | ⟨b, hb, rfl⟩
    · have hmem' : k ∈ p.blobs.map blobKey := hmem
      cases hrb : d.rebuild.contains p.index with
      | true =>
        obtain ⟨x, hx, _, ebl⟩ := execute_lists_kept true o d p hp ht hrb
        obtain ⟨i, hi', hpacks⟩ := hidxex x hx
        exact Or.inl ⟨i, hi', x, by rw [hpacks]; exact hx, by rw [ebl]; exact hmem'⟩
      | false =>
        have hkeep : p.todo = .keep := by
          rcases ht with ht | ht
          · exact ht
          · have := rebuilt_of_not_kept h hp (by rw [ht]; decide) (Or.inr (by rw [ht]; decide))
            rw [hrb] at this; cases this
        have hm := (todo_vs_mark h hp).1 hkeep
        obtain ⟨f, ix, hf, _, _, q, hq, hqid, hqb⟩ := plan_index_valid h hp
        simp only [hm, Bool.false_eq_true, if_false] at hq
        have hfm : f ∈ files := List.mem_of_getElem? hf
        refine Or.inr ⟨toRepoIndex f, hmemidx f hfm, ?_, toIdxPack q, List.mem_map_of_mem hq, ?_⟩
        · intro hmemr
          have := H4 p.index f hf hmemr
          rw [hrb] at this; cases this
        · simp only [toIdxPack]; rw [hqb]; exact hmem'
    · obtain ⟨x, hx, _, hbx⟩ := execute_lists_repacked true o d b hb
      obtain ⟨i, hi', hpacks⟩ := hidxex x hx
      exact Or.inl ⟨i, hi', x, by rw [hpacks]; exact hx, hbx⟩
  · -- hunlNew
    intro i hi' pk hpk hmem
    obtain ⟨_, _, hpacks⟩ := hidxsome i hi'
    rw [hpacks] at hpk
    obtain ⟨p', hp', eid', hnk, hnr⟩ := execute_removePacks true o d pk.id hmem
    rcases execute_newUnmarked true o d pk hpk with ⟨p, hp, ht, eid, _⟩ | ⟨t, eid, _⟩
    · have := H5 p hp p' hp' (by rw [← eid, eid'])
      subst this
      rcases ht with ht | ht
      · exact hnk ht
      · exact hnr ht
    · obtain ⟨f, ix, hf, _, _, q, hq, hqid, _⟩ := plan_index_valid h hp'
      have hfm : f ∈ files := List.mem_of_getElem? hf
      have hq' : q ∈ f.packs ++ f.del := by
        cases hm : p'.mark <;> simp only [hm, Bool.false_eq_true, if_false, if_true] at hq
        · exact List.mem_append_left _ hq
        · exact List.mem_append_right _ hq
      exact hr.freshPacks t f hfm q hq' (by rw [hqid, eid', eid])
  · -- hunlOld
    intro i hi' hni pk hpk hmem
    obtain ⟨f, hf, rfl⟩ := hidxmem i hi'
    obtain ⟨q, hq, rfl⟩ := List.mem_map.mp hpk
    obtain ⟨n, hnlt, hfn⟩ := List.getElem_of_mem hf
    have hfn' : files[n]? = some f := by rw [List.getElem?_eq_getElem hnlt, hfn]
    have hlen : n < d.indexes.length := by
      have := congrArg List.length g4
      simp only [List.length_map] at this
      rw [hi, this]; exact hnlt
    have hixn : d.indexes[n]? = some d.indexes[n] := List.getElem?_eq_getElem hlen
    obtain ⟨f', hf', e'⟩ := hidlen n _ hixn
    rw [hfn'] at hf'
    cases hf'
    have hrb : d.rebuild.contains n = false := by
      cases hc' : d.rebuild.contains n with
      | false => rfl
      | true =>
        exfalso
        apply hni
        have := execute_removeIndexes_mem true o d n _ hixn hc'
        rw [← e'] at this
        exact this
    obtain ⟨hmod, hall⟩ := not_rebuilt_all_kept kc o.instantDelete d.indexes d.packs n _ hixn (hnot n hrb)
    obtain ⟨p0, hp0, e0i, e0m, e0id⟩ := g5 n f d.indexes[n] hfn' (by rw [← hi]; exact hixn) hmod q hq
    obtain ⟨p, hp, e⟩ := mem_of_core_eq hcore.symm hp0
    simp only [PPack.core, Prod.mk.injEq] at e
    have hpidx : p.index = n := by rw [e.2.1, e0i]
    have hpm : p.mark = false := by rw [e.2.2.2.1, e0m]
    have hpid : p.id = q.id := by rw [e.2.2.1, e0id]
    have hkeep : p.todo = .keep := by
      rcases hall p hp hpidx with hk | hk
      · exact hk
      · have := (todo_vs_mark h hp).2.2 hk
        rw [hpm] at this; cases this
    obtain ⟨p', hp', eid', hnk, _⟩ := execute_removePacks true o d _ hmem
    have := H5 p hp p' hp' (by rw [hpid, eid']; rfl)
    subst this
    exact hnk hkeep

end Rustic.Prune
