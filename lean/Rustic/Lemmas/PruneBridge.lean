/-
Bridge from the prune model (`Rustic.Prune.plan` / `execute`) to the abstract repository protocol: what the executed
operation list of an accepted plan looks like in terms of the plan's packs, and why it satisfies the premises of
`Rustic.Repo.prune_run_safe` (the generalised form of C03's `prune_protocol_safe`).
-/
import Rustic.Lemmas.PruneExec
import Rustic.Lemmas.PruneProtocol
namespace Rustic.Prune
open Rustic.Repo (BlobType Key)

theorem idx_eq_of_nodup_map {α β} (g : α → β) : ∀ (l : List α), (l.map g).Nodup →
    ∀ (i j : Nat) (a b : α), l[i]? = some a → l[j]? = some b → g a = g b → i = j
  | [], _, i, j, a, b, ha, _, _ => by simp at ha
  | x :: l, h, i, j, a, b, ha, hb, e => by
    simp only [List.map_cons, List.nodup_cons] at h
    cases i with
    | zero =>
      cases j with
      | zero => rfl
      | succ j =>
        simp only [List.getElem?_cons_zero, Option.some.injEq] at ha
        simp only [List.getElem?_cons_succ] at hb
        exact absurd (by rw [ha, e]; exact List.mem_map_of_mem (List.mem_of_getElem? hb)) h.1
    | succ i =>
      cases j with
      | zero =>
        simp only [List.getElem?_cons_zero, Option.some.injEq] at hb
        simp only [List.getElem?_cons_succ] at ha
        exact absurd (by rw [hb, ← e]; exact List.mem_map_of_mem (List.mem_of_getElem? ha)) h.1
      | succ j =>
        simp only [List.getElem?_cons_succ] at ha hb
        rw [idx_eq_of_nodup_map g l h.2 i j a b ha hb e]

/-! ### the repository a plan was computed from -/

def toIdxPack (q : IndexPack) : Repo.IdxPack := { id := q.id, blobs := q.blobs.map blobKey, time := q.time }

def toRepoIndex (f : IndexFile) : Repo.IndexFile :=
  { id := f.id, packs := f.packs.map toIdxPack, del := f.del.map toIdxPack }

/-- `files`, `used`, `existing` are what `PrunePlan::from_prune_options` reads off the repository `r`. -/
structure Reads (r : Repo.Repo) (files : List IndexFile) (used : List Key) (existing : List (Nat × Nat)) : Prop where
  /-- the index files are the stored ones -/
  indexes : r.indexes = files.map toRepoIndex
  /-- index files are stored under distinct ids -/
  indexIds : (files.map (·.id)).Nodup
  /-- `find_used_blobs`: everything a snapshot needs is a used key -/
  used : ∀ s ∈ r.snaps, ∀ k ∈ s.needs, k ∈ used
  /-- `list_with_size(Pack)`: listed packs are stored -/
  existing : ∀ x ∈ existing, Repo.hasPack r x.1 = true
  /-- the index is truthful about packs marked for deletion too: a marked pack that is still stored holds the blobs its
  entry lists (for unmarked entries this is part of `consistent r`) -/
  markedTruthful : ∀ f ∈ files, ∀ q ∈ f.del, Repo.hasPack r q.id = true →
    ∀ b ∈ q.blobs, Repo.stored r q.id (blobKey b) = true
  /-- ids of the files prune writes are fresh (they are hashes of content encrypted under random nonces) -/
  freshIndex : newIndexId ∉ files.map (·.id)
  freshPacks : ∀ t, ∀ f ∈ files, ∀ q ∈ f.packs ++ f.del, q.id ≠ newPackId t

/-! ### more about accepted plans -/

/-- `check_existing_packs`: the packs left over as "unreferenced" are existing packs that are no pack of the plan. -/
theorem checkExisting_left (typed : Bool) : ∀ (ps : List PPack) (ex : List (Nat × Nat)) (c : Counts)
    (ex' : List (Nat × Nat)) (c' : Counts), checkExisting typed ps ex c = some (ex', c') →
    ∀ x ∈ ex', x ∈ ex ∧ ∀ p ∈ ps, p.id ≠ x.1
  | [], ex, c, ex', c', h => by
    simp only [checkExisting, Option.some.injEq, Prod.mk.injEq] at h
    obtain ⟨rfl, rfl⟩ := h
    exact fun x hx => ⟨hx, by simp⟩
  | p :: ps, ex, c, ex', c', h => by
    have key : ∀ c2, checkExisting typed ps (ex.filter (fun x => x.1 != p.id)) c2 = some (ex', c') →
        ∀ x ∈ ex', x ∈ ex ∧ ∀ q ∈ p :: ps, q.id ≠ x.1 := by
      intro c2 h2 x hx
      obtain ⟨h3, h4⟩ := checkExisting_left typed ps _ c2 ex' c' h2 x hx
      have h5 := List.mem_filter.mp h3
      refine ⟨h5.1, ?_⟩
      intro q hq
      rcases List.mem_cons.mp hq with rfl | hq
      · have := h5.2
        simp only [bne_iff_ne, ne_eq] at this
        exact fun e => this e.symm
      · exact h4 q hq
    unfold checkExisting at h
    simp only at h
    split at h
    · simp at h
    · split at h
      · exact key _ h
      · simp at h
    · split at h
      · exact key _ h
      · simp at h
    · split at h
      · exact key _ h
      · simp at h
    · exact key _ h

theorem decideOne_marked_ne_keep (kc : Consts) (o : Opts) (p : PPack) (pi : PackInfo) (hm : p.mark = true) :
    (decideOne kc o p pi).1 ≠ .keep := by
  unfold decideOne
  generalize tooYoung o p.time = young
  generalize (o.repackCacheableOnly && !isCacheable p.blobType) = ku
  generalize (o.repackUncompressed && !p.blobs.all (·.compressed)) = tc
  generalize (!(o.sizer p.blobType).sizeOk kc p.size) = sm
  rw [hm]
  cases pi.usedBlobs with
  | zero =>
    cases p.time with
    | none => simp
    | some t =>
      simp only
      split <;> simp
  | succ u => simp

/-- a marked pack is never decided `Keep` / `Repack` / `MarkDelete`; an unmarked one never `KeepMarked*` / `Recover` /
`Delete`. -/
theorem todo_vs_mark {typed : Bool} {kc : Consts} {o : Opts} {files : List IndexFile} {used : List Key}
    {existing : List (Nat × Nat)} {d : Decided} (h : plan typed kc o files used existing = some d)
    {q : PPack} (hq : q ∈ d.packs) :
    (q.todo = .keep → q.mark = false) ∧ (q.todo = .recover → q.mark = true) := by
  unfold plan at h
  simp only at h
  split at h
  · simp at h
  · split at h
    · simp at h
    · rename_i ex c hce
      simp only [Option.some.injEq] at h
      subst h
      simp only at hq ⊢
      obtain ⟨p, hp, _, hmk, hi, _, _, _, hcand, htodo⟩ := decideRepack_mem kc o _ q hq
      have hproc := decidePacks_all typed kc o _ _ p hp
      have tab := decideOne_table kc o p p.info
      unfold Processed at hproc
      rw [← hproc] at tab
      simp only at tab
      rw [hmk]
      constructor
      · intro ht
        rcases htodo with ⟨hc, e⟩ | ⟨hc, _⟩
        · cases hm : p.mark with
          | false => rfl
          | true =>
            exfalso
            have hne := decideOne_marked_ne_keep kc o p p.info hm
            rw [← hproc] at hne
            exact hne (by rw [← e]; exact ht)
        · exact (tab.2.2.2.2.2.2.1 hc).2.1
      · intro ht
        rcases htodo with ⟨_, e⟩ | ⟨_, e⟩
        · exact (tab.2.2.2.2.2.2.2 (by rw [← e]; exact ht)).1
        · rcases e with e | e <;> rw [e] at ht <;> simp at ht

/-! ### what `execute` produces, in terms of the plan's packs -/

theorem execute_nothing (typed : Bool) (o : Opts) (d : Decided) (h : d.rebuild.isEmpty = true) :
    (execute typed o d).nothing = true ∧ (execute typed o d).newUnmarked = [] ∧ (execute typed o d).newMarked = [] ∧
    (execute typed o d).removeIndexes = [] ∧ (execute typed o d).removePacks = [] ∧ (execute typed o d).repacked = [] := by
  simp [execute, h]

theorem execute_removeFirst (typed : Bool) (o : Opts) (d : Decided) :
    ∀ id ∈ (execute typed o d).removeFirst, ∃ x ∈ d.unreferenced, x.1 = id := by
  intro id hid
  have : (execute typed o d).removeFirst = if o.instantDelete then d.unreferenced.map (·.1) else [] := by
    by_cases hne : d.rebuild.isEmpty = true <;> simp [execute, hne]
  rw [this] at hid
  split at hid
  · exact List.mem_map.mp hid
  · simp at hid

/-- a removed pack is a pack of a rebuilt index file whose decision is neither `Keep` nor `Recover`. -/
theorem execute_removePacks (typed : Bool) (o : Opts) (d : Decided) :
    ∀ id ∈ (execute typed o d).removePacks, ∃ p ∈ d.packs, p.id = id ∧ p.todo ≠ .keep ∧ p.todo ≠ .recover := by
  intro id hid
  by_cases hne : d.rebuild.isEmpty = true
  · rw [(execute_nothing typed o d hne).2.2.2.2.1] at hid; simp at hid
  · simp only [execute, hne] at hid
    simp only [Bool.false_eq_true, if_false, List.mem_filterMap] at hid
    obtain ⟨p, hp, hpid⟩ := hid
    have hp' := (List.mem_filter.mp hp).1
    cases ht : p.todo <;> rw [ht] at hpid <;> simp at hpid <;>
      first
        | exact ⟨p, hp', hpid, by rw [ht]; decide, by rw [ht]; decide⟩
        | exact ⟨p, hp', hpid.2, by rw [ht]; decide, by rw [ht]; decide⟩

theorem execute_removeIndexes (typed : Bool) (o : Opts) (d : Decided) :
    ∀ id ∈ (execute typed o d).removeIndexes, ∃ n ix, d.indexes[n]? = some ix ∧ d.rebuild.contains n = true ∧ ix.id = id := by
  intro id hid
  by_cases hne : d.rebuild.isEmpty = true
  · rw [(execute_nothing typed o d hne).2.2.2.1] at hid; simp at hid
  · simp only [execute, hne] at hid
    simp only [Bool.false_eq_true, if_false, List.mem_filterMap] at hid
    obtain ⟨x, hx, hxid⟩ := hid
    have := (mem_enumFrom d.indexes 0 x.1 x.2).mp hx
    split at hxid
    · rename_i hc
      simp only [Option.some.injEq] at hxid
      exact ⟨x.1, x.2, by simpa using this.2, hc, hxid⟩
    · cases hxid

/-- an unmarked entry of the new index file is a kept / recovered pack of a rebuilt index file, with all its blobs —
or one of the (at most two) new packs holding the repacked blobs of one type. -/
theorem execute_newUnmarked (typed : Bool) (o : Opts) (d : Decided) :
    ∀ x ∈ (execute typed o d).newUnmarked,
      (∃ p ∈ d.packs, (p.todo = .keep ∨ p.todo = .recover) ∧ x.id = p.id ∧ x.blobs = p.blobs.map blobKey) ∨
      (∃ t, x.id = newPackId t ∧
        x.blobs = (((execute typed o d).repacked).filter (fun b => b.tpe == t)).map blobKey) := by
  intro x hx
  by_cases hne : d.rebuild.isEmpty = true
  · rw [(execute_nothing typed o d hne).2.1] at hx; simp at hx
  · simp only [execute, hne] at hx ⊢
    simp only [Bool.false_eq_true, if_false, List.mem_append, List.mem_filterMap] at hx ⊢
    rcases hx with ⟨p, hp, hpx⟩ | ⟨t, _, htx⟩
    · left
      have hp' := (List.mem_filter.mp hp).1
      cases ht : p.todo <;> rw [ht] at hpx <;> simp at hpx
      · exact ⟨p, hp', Or.inl ht, by rw [← hpx]; rfl, by rw [← hpx]; rfl⟩
      · exact ⟨p, hp', Or.inr ht, by rw [← hpx]; rfl, by rw [← hpx]; rfl⟩
    · right
      split at htx
      · cases htx
      · simp only [Option.some.injEq] at htx
        exact ⟨t, by rw [← htx], by rw [← htx]⟩

/-- a kept / recovered pack of a rebuilt index file is listed unmarked in the new index file. -/
theorem execute_lists_kept (typed : Bool) (o : Opts) (d : Decided) (p : PPack) (hp : p ∈ d.packs)
    (ht : p.todo = .keep ∨ p.todo = .recover) (hreb : d.rebuild.contains p.index = true) :
    ∃ x ∈ (execute typed o d).newUnmarked, x.id = p.id ∧ x.blobs = p.blobs.map blobKey := by
  have hne : ¬ d.rebuild.isEmpty = true := by
    intro he; rw [List.isEmpty_iff] at he; rw [he] at hreb; simp at hreb
  simp only [execute, hne]
  simp only [Bool.false_eq_true, if_false]
  rcases ht with ht | ht
  · refine ⟨toIdx p (some (p.time.getD o.now)), List.mem_append_left _ ?_, rfl, rfl⟩
    exact List.mem_filterMap.mpr ⟨p, List.mem_filter.mpr ⟨hp, hreb⟩, by rw [ht]⟩
  · refine ⟨toIdx p (some o.now), List.mem_append_left _ ?_, rfl, rfl⟩
    exact List.mem_filterMap.mpr ⟨p, List.mem_filter.mpr ⟨hp, hreb⟩, by rw [ht]⟩

/-- every repacked blob is in one of the new packs listed unmarked in the new index file. -/
theorem execute_lists_repacked (typed : Bool) (o : Opts) (d : Decided) (b : Blob)
    (hb : b ∈ (execute typed o d).repacked) :
    ∃ x ∈ (execute typed o d).newUnmarked, x.id = newPackId b.tpe ∧ blobKey b ∈ x.blobs := by
  by_cases hne : d.rebuild.isEmpty = true
  · rw [(execute_nothing typed o d hne).2.2.2.2.2] at hb; simp at hb
  · simp only [execute, hne] at hb ⊢
    simp only [Bool.false_eq_true, if_false] at hb ⊢
    generalize retainRepack typed (List.filter (fun p => d.rebuild.contains p.index) d.packs) d.usedLeft = rp at hb ⊢
    have hmem : b ∈ rp.filter (fun b' => b'.tpe == b.tpe) := List.mem_filter.mpr ⟨hb, by simp⟩
    refine ⟨{ id := newPackId b.tpe, blobs := (rp.filter (fun b' => b'.tpe == b.tpe)).map blobKey, time := some o.now },
      List.mem_append_right _ ?_, rfl, List.mem_map_of_mem hmem⟩
    apply List.mem_filterMap.mpr
    refine ⟨b.tpe, by cases b.tpe <;> simp, ?_⟩
    have : (rp.filter (fun b' => b'.tpe == b.tpe)).isEmpty = false := by
      cases hl : rp.filter (fun b' => b'.tpe == b.tpe) with
      | nil => rw [hl] at hmem; simp at hmem
      | cons _ _ => rfl
    simp [this]

end Rustic.Prune
