/-
Lemma for C11: a completed backup references only blobs that the index has or that the run handed to
the packers — for every parent forest (also one whose blobs were partly removed from the index).
-/
import Rustic.Lemmas.ArchiveDedup
namespace Rustic.Archive
open Rustic.Tree Rustic.Parent

/-- every blob a node points to is indexed or among the blobs handed to the packers (`dA` data, `tA` trees) -/
def NodeOK (hasData hasTree : Id → Bool) (dA tA : List Id) (n : Node) : Prop :=
  (∀ t, n.subtree = some t → hasTree t = true ∨ t ∈ tA) ∧
  (∀ c ∈ n.content.getD [], hasData c = true ∨ c ∈ dA)

theorem NodeOK.mono {hasData hasTree : Id → Bool} {dA tA tA' : List Id} {n : Node}
    (h : NodeOK hasData hasTree dA tA n) (hsub : ∀ x ∈ tA, x ∈ tA') : NodeOK hasData hasTree dA tA' n :=
  ⟨fun t ht => (h.1 t ht).imp id (hsub t), h.2⟩

def ItemOK (hasData hasTree : Id → Bool) (dA : List Id) : TItem → Prop
  | .newTree n _ => n.subtree = none ∧ NodeOK hasData hasTree dA [] n
  | .endTree => True
  | .other n _ _ => NodeOK hasData hasTree dA [] n

structure TAOK (hasData hasTree : Id → Bool) (dA : List Id) (s : TA) : Prop where
  tree : ∀ n ∈ s.tree, NodeOK hasData hasTree dA (s.adds.map (·.1)) n
  stack : ∀ e ∈ s.stack, (∀ c ∈ e.1.content.getD [], hasData c = true ∨ c ∈ dA) ∧
    ∀ n ∈ e.2.2, NodeOK hasData hasTree dA (s.adds.map (·.1)) n
  adds : ∀ a ∈ s.adds, ∀ n ∈ a.2, NodeOK hasData hasTree dA (s.adds.map (·.1)) n

theorem taok_add (H : List Node → Id) (hasData hasTree : Id → Bool) (dA : List Id) (s s' : TA) (it : TItem)
    (h : TAOK hasData hasTree dA s) (hit : ItemOK hasData hasTree dA it) (he : s.add H hasTree it = some s') :
    TAOK hasData hasTree dA s' := by
  cases it with
  | newTree n r =>
    simp only [TA.add] at he; injection he with he; subst he
    refine ⟨(by intro n hn; cases hn), ?_, h.adds⟩
    intro e hem
    rcases List.mem_cons.mp hem with rfl | hem
    · exact ⟨hit.2.2, h.tree⟩
    · exact h.stack e hem
  | other n r sz =>
    simp only [TA.add, TA.addFile] at he; injection he with he; subst he
    refine ⟨?_, h.stack, h.adds⟩
    intro m hm
    rcases List.mem_append.mp hm with hm | hm
    · exact h.tree m hm
    · simp only [List.mem_singleton] at hm; subst hm
      exact hit.mono (by intro x hx; cases hx)
  | endTree =>
    simp only [TA.add] at he
    cases hst : s.stack with
    | nil => simp [hst] at he
    | cons x xs =>
      obtain ⟨n, p, tr⟩ := x
      simp only [hst] at he
      injection he with he; subst he
      have hadds := backupTree_adds H hasTree s p
      obtain ⟨hid, htree, hstack⟩ := backupTree_id H hasTree s p
      have hmono : ∀ y ∈ s.adds.map (·.1), y ∈ (s.backupTree H hasTree p).1.adds.map (·.1) := by
        intro y hy; rw [hadds]; split
        · exact hy
        · simp only [List.map_append, List.mem_append]; exact Or.inl hy
      have hx := h.stack (n, p, tr) (by rw [hst]; exact List.mem_cons_self)
      refine ⟨?_, ?_, ?_⟩
      · intro m hm
        rcases List.mem_append.mp hm with hm | hm
        · exact (hx.2 m hm).mono hmono
        · simp only [List.mem_singleton] at hm; subst hm
          refine ⟨?_, hx.1⟩
          intro t ht
          simp only [Option.some.injEq] at ht; subst ht
          rw [hid, hadds]
          by_cases hh : hasTree (H s.tree) = true
          · exact Or.inl hh
          · right; simp [hh]
      · intro e hem
        have := h.stack e (by rw [hst]; exact List.mem_cons_of_mem _ hem)
        exact ⟨this.1, fun m hm => (this.2 m hm).mono hmono⟩
      · intro a ha m hm
        rw [hadds] at ha
        split at ha
        · exact (h.adds a ha m hm).mono hmono
        · rcases List.mem_append.mp ha with ha | ha
          · exact (h.adds a ha m hm).mono hmono
          · simp only [List.mem_singleton] at ha; subst ha
            exact (h.tree m hm).mono hmono

theorem taok_addAll (H : List Node → Id) (hasData hasTree : Id → Bool) (dA : List Id) :
    ∀ (items : List TItem) (s f : TA), TAOK hasData hasTree dA s →
      (∀ it ∈ items, ItemOK hasData hasTree dA it) → TA.addAll H hasTree s items = some f →
      TAOK hasData hasTree dA f
  | [], s, f, h, _, he => by simp only [TA.addAll] at he; injection he with he; subst he; exact h
  | it :: its, s, f, h, hit, he => by
    simp only [TA.addAll] at he
    cases ha : s.add H hasTree it with
    | none => simp [ha] at he
    | some s' =>
      simp only [ha] at he
      exact taok_addAll H hasData hasTree dA its s' f
        (taok_add H hasData hasTree dA s s' it h (hit it List.mem_cons_self) ha)
        (fun x hx => hit x (List.mem_cons_of_mem _ hx)) he

/-- what `Parent::process` + `FileArchiver::process` hand to the tree archiver is fine -/
theorem fileStep_itemOK {γ} (o : Opts) (load : Id → Option (List Node)) (chunk : γ → List Id) (len : γ → Nat)
    (hasData hasTree : Id → Bool) (st : PState) (it : Item γ) (s : TItem × List Id × Option Node) (dA : List Id)
    (hsrc : match it with
      | .newTree n _ => n.subtree = none ∧ n.content = none
      | .other n _ => n.subtree = none ∧ n.content = none
      | .endTree => True)
    (hs : fileStep chunk len hasData (process o load hasData st it).2 = some s)
    (hd : ∀ x ∈ s.2.1, x ∈ dA) : ItemOK hasData hasTree dA s.1 := by
  cases it with
  | newTree n name =>
    simp only [process] at hs
    have hn : NodeOK hasData hasTree dA [] n := ⟨by simp [hsrc.1], by simp [hsrc.2]⟩
    cases hr : (isParent o st n name).2 with
    | matched p =>
      simp only [hr] at hs
      cases hsub : p.subtree with
      | none => simp [hsub, fileStep] at hs
      | some t =>
        simp only [hsub, fileStep] at hs; injection hs with hs; subst hs
        exact ⟨hsrc.1, hn⟩
    | notFound => simp only [hr, fileStep] at hs; injection hs with hs; subst hs; exact ⟨hsrc.1, hn⟩
    | notMatched => simp only [hr, fileStep] at hs; injection hs with hs; subst hs; exact ⟨hsrc.1, hn⟩
  | endTree =>
    simp only [process] at hs
    cases hf : finishDir st with
    | none => simp [hf, fileStep] at hs
    | some st' => simp only [hf, fileStep] at hs; injection hs with hs; subst hs; trivial
  | other n x =>
    have hn : NodeOK hasData hasTree dA [] n := ⟨by simp [hsrc.1], by simp [hsrc.2]⟩
    have hread : ∀ (r : PRes Unit), r.isMatched = false →
        fileStep chunk len hasData (Out.other n x r) = some s → ItemOK hasData hasTree dA s.1 := by
      intro r hr hs'
      by_cases hk : n.kind = .file
      · simp only [fileStep, hr, Bool.false_eq_true, if_false, hk, if_true] at hs'
        injection hs' with hs'; subst hs'
        refine ⟨by simp [hsrc.1], ?_⟩
        intro c hc
        simp only [Option.getD_some] at hc
        by_cases hh : hasData c = true
        · exact Or.inl hh
        · exact Or.inr (hd c (List.mem_filter.mpr ⟨hc, by simpa using hh⟩))
      · simp only [fileStep, hr, Bool.false_eq_true, if_false, hk] at hs'
        injection hs' with hs'; subst hs'; exact hn
    simp only [process] at hs
    cases hr : (isParent o st n n.name).2 with
    | matched p =>
      simp only [hr] at hs
      by_cases hall : (p.content.getD []).all hasData = true
      · simp only [hall, if_true, fileStep, PRes.isMatched] at hs
        injection hs with hs; subst hs
        refine ⟨by simp [hsrc.1], ?_⟩
        intro c hc
        exact Or.inl (List.all_eq_true.mp hall c hc)
      · have hall' : (p.content.getD []).all hasData = false := by simpa using hall
        simp only [hall'] at hs
        exact hread .notFound rfl hs
    | notFound => simp only [hr] at hs; exact hread .notFound rfl hs
    | notMatched => simp only [hr] at hs; exact hread .notMatched rfl hs

theorem run_mem {γ} (o : Opts) (load : Id → Option (List Node)) (hd : Id → Bool) :
    ∀ (items : List (Item γ)) (st : PState) (out : Out γ), out ∈ run o load hd st items →
      ∃ st' it, it ∈ items ∧ out = (process o load hd st' it).2
  | [], _, _, h => by simp [run] at h
  | it :: its, st, out, h => by
    simp only [run, List.mem_cons] at h
    rcases h with rfl | h
    · exact ⟨st, it, List.mem_cons_self, rfl⟩
    · obtain ⟨st', it', hm, he⟩ := run_mem o load hd its _ out h
      exact ⟨st', it', List.mem_cons_of_mem _ hm, he⟩

/-- items as a source produces them: nodes carry neither content nor subtree yet -/
def SrcItems {γ} (items : List (Item γ)) : Prop :=
  ∀ it ∈ items, match it with
    | .newTree n _ => n.subtree = none ∧ n.content = none
    | .other n _ => n.subtree = none ∧ n.content = none
    | .endTree => True

theorem finalize_complete (H : List Node → Id) (hasData hasTree : Id → Bool) (dA : List Id) (ta : TA)
    (par : PRes Id) (hf : TAOK hasData hasTree dA ta) :
    (hasTree (ta.backupTree H hasTree par).2 = true ∨
      (ta.backupTree H hasTree par).2 ∈ (ta.backupTree H hasTree par).1.adds.map (·.1)) ∧
    ∀ t ∈ (ta.backupTree H hasTree par).1.adds, ∀ n ∈ t.2,
      NodeOK hasData hasTree dA ((ta.backupTree H hasTree par).1.adds.map (·.1)) n := by
  have hadds := backupTree_adds H hasTree ta par
  have hid := (backupTree_id H hasTree ta par).1
  refine ⟨?_, ?_⟩
  · rw [hid, hadds]
    by_cases hh : hasTree (H ta.tree) = true
    · exact Or.inl hh
    · right; simp [hh]
  · have hmono : ∀ y ∈ ta.adds.map (·.1), y ∈ (ta.backupTree H hasTree par).1.adds.map (·.1) := by
      intro y hy; rw [hadds]; split
      · exact hy
      · simp only [List.map_append, List.mem_append]; exact Or.inl hy
    intro t ht n hn
    rw [hadds] at ht
    split at ht
    · exact (hf.adds t ht n hn).mono hmono
    · rcases List.mem_append.mp ht with ht | ht
      · exact (hf.adds t ht n hn).mono hmono
      · simp only [List.mem_singleton] at ht; subst ht
        exact (hf.tree n hn).mono hmono

theorem archive_complete {γ} (H : List Node → Id) (chunk : γ → List Id) (len : γ → Nat)
    (load : Id → Option (List Node)) (hasData hasTree : Id → Bool) (o : Opts) (roots : List Id)
    (items : List (Item γ)) (hsrc : SrcItems items) (a : ArchOut)
    (ha : archive H chunk len load hasData hasTree o roots items = some a) :
    (hasTree a.root = true ∨ a.root ∈ a.treeAdds.map (·.1)) ∧
    ∀ t ∈ a.treeAdds, ∀ n ∈ t.2, NodeOK hasData hasTree a.dataAdds (a.treeAdds.map (·.1)) n := by
  simp only [archive] at ha
  split at ha
  · cases ha
  · split at ha
    · cases ha
    · rename_i ta hadd
      injection ha with ha; subst ha
      simp only
      -- every step handed to the tree archiver is fine w.r.t. the final list of data adds
      have hitems : ∀ it ∈ List.map (fun x => x.1) (List.filterMap (fileStep chunk len hasData)
          (run o load hasData (PState.init load roots) items)),
          ItemOK hasData hasTree (List.map (fun x => x.2.1) (List.filterMap (fileStep chunk len hasData)
            (run o load hasData (PState.init load roots) items))).flatten it := by
        intro it hit
        obtain ⟨s, hs, rfl⟩ := List.mem_map.mp hit
        obtain ⟨out, hout, hstep⟩ := List.mem_filterMap.mp hs
        obtain ⟨st', item, hitem, rfl⟩ := run_mem o load hasData items _ out hout
        refine fileStep_itemOK o load chunk len hasData hasTree st' item s _ ?_ hstep ?_
        · have := hsrc item hitem
          cases item <;> simpa using this
        · intro x hx
          exact List.mem_flatten.mpr ⟨s.2.1, List.mem_map.mpr ⟨s, hs, rfl⟩, hx⟩
      have h0 : TAOK hasData hasTree (List.map (fun x => x.2.1) (List.filterMap (fileStep chunk len hasData)
            (run o load hasData (PState.init load roots) items))).flatten ({} : TA) :=
        ⟨(fun n hn => by cases hn), (fun e he => by cases he), (fun a ha => by cases ha)⟩
      have hf := taok_addAll H hasData hasTree _ _ {} ta h0 hitems hadd
      simp only [TA.finalize]
      exact finalize_complete H hasData hasTree _ ta _ hf

end Rustic.Archive
