import Rustic.Lemmas.Forget
/-
Consequences of the specification: "kept exactly when a rule applies", period keys, heads = newest of
their period, monotonicity in the counts, sort facts.
-/
namespace Rustic.Forget
open Rustic.Calendar

/-! ### neighbours -/

theorem ctxFrom_length (p : Option Snap) (l : List Snap) : (ctxFrom p l).length = l.length := by
  induction l generalizing p with
  | nil => rfl
  | cons a t ih => simp [ctxFrom, ih]

theorem ctxFrom_getElem (p : Option Snap) (l : List Snap) (i : Nat) (h : i < l.length) :
    (ctxFrom p l)[i]'(by rw [ctxFrom_length]; exact h)
      = ⟨if i = 0 then p else l[i - 1]?, l[i], l[i + 1]?⟩ := by
  induction l generalizing p i with
  | nil => simp at h
  | cons a t ih =>
    cases i with
    | zero => cases t <;> simp [ctxFrom]
    | succ i =>
      have hi : i < t.length := by simpa using h
      simp only [ctxFrom, List.getElem_cons_succ, ih (some a) i hi]
      cases i with
      | zero => simp
      | succ j => simp

/-! ### kept exactly when a rule applies -/

/-- some period/count/within rule of the table applies to `c` given the newer snapshots `seen`. -/
def ruleApplies (o : KeepOptions) (now latest : Int) (seen : List Ctx) (c : Ctx) : Prop :=
  ∃ rs ∈ rules.zip o.slots, headOf rs.1.eq c = true ∧
    (countKeeps rs.2.count (rank o now rs.1.eq seen) = true ∨ withinHit rs.2.within c.sn latest = true)

theorem specSlot_ne_nil (o : KeepOptions) (now latest : Int) (seen : List Ctx) (c : Ctx) (rs : Rule × Slot) :
    specSlot o now latest seen c rs ≠ [] ↔ headOf rs.1.eq c = true ∧
      (countKeeps rs.2.count (rank o now rs.1.eq seen) = true ∨ withinHit rs.2.within c.sn latest = true) := by
  unfold specSlot
  by_cases h : headOf rs.1.eq c = true
  · by_cases h1 : countKeeps rs.2.count (rank o now rs.1.eq seen) = true
    · simp [h, h1]
    · by_cases h2 : withinHit rs.2.within c.sn latest = true <;> simp [h, h1, h2]
  · simp [h]

theorem flatMap_ne_nil {α β : Type} (l : List α) (f : α → List β) :
    l.flatMap f ≠ [] ↔ ∃ x ∈ l, f x ≠ [] := by
  induction l with
  | nil => simp
  | cons a t ih =>
    simp only [List.flatMap_cons, ne_eq, List.append_eq_nil_iff, List.mem_cons, exists_eq_or_imp] at ih ⊢
    rw [← ih]
    by_cases h : f a = [] <;> simp [h]

theorem specReasons_ne_nil (o : KeepOptions) (now latest : Int) (seen : List Ctx) (c : Ctx) :
    specReasons o now latest seen c ≠ [] ↔
      (idHit o c.sn = true ∨ tagHit o c.sn = true ∨ ruleApplies o now latest seen c) := by
  unfold specReasons ruleApplies
  constructor
  · intro h
    by_cases h1 : idHit o c.sn = true
    · exact Or.inl h1
    · by_cases h2 : tagHit o c.sn = true
      · exact Or.inr (Or.inl h2)
      · right; right
        simp only [h1, h2, Bool.false_eq_true, if_false, List.nil_append] at h
        obtain ⟨rs, hm, hne⟩ := (flatMap_ne_nil _ _).1 h
        exact ⟨rs, hm, (specSlot_ne_nil o now latest seen c rs).1 hne⟩
  · intro h
    rcases h with h | h | ⟨rs, hm, hh⟩
    · simp [h]
    · simp [h]
    · have := (specSlot_ne_nil o now latest seen c rs).2 hh
      have hf := (flatMap_ne_nil (rules.zip o.slots) (specSlot o now latest seen c)).2 ⟨rs, hm, this⟩
      simp only [ne_eq, List.append_eq_nil_iff, not_and]
      intro _
      exact hf

theorem specOne_keep_iff (o : KeepOptions) (now latest : Int) (seen : List Ctx) (c : Ctx) :
    (specOne o now latest seen c).keep = true ↔
      kind o now c = .prot ∨ (kind o now c = .ord ∧
        (idHit o c.sn = true ∨ tagHit o c.sn = true ∨ ruleApplies o now latest seen c)) := by
  unfold specOne
  cases hk : kind o now c with
  | prot => simp
  | expd => simp
  | unch => simp
  | ord =>
    simp only [Bool.not_eq_true', List.isEmpty_eq_false_iff, reduceCtorEq, false_or, true_and]
    exact specReasons_ne_nil o now latest seen c

theorem specOne_snap (o : KeepOptions) (now latest : Int) (seen : List Ctx) (c : Ctx) :
    (specOne o now latest seen c).snap = c.sn := by
  unfold specOne; cases kind o now c <;> rfl

theorem keepSpec_length (o : KeepOptions) (sorted : List Snap) (now : Int) :
    (keepSpec o sorted now).length = sorted.length := by
  cases sorted with
  | nil => rfl
  | cons a t => simp [keepSpec, ctxFrom_length]

theorem keepSpec_getElem (o : KeepOptions) (first : Snap) (t : List Snap) (now : Int) (i : Nat)
    (h : i < (first :: t).length) :
    (keepSpec o (first :: t) now)[i]'(by rw [keepSpec_length]; exact h)
      = specOne o now first.time ((ctxFrom none (first :: t)).take i)
          ((ctxFrom none (first :: t))[i]'(by rw [ctxFrom_length]; exact h)) := by
  simp [keepSpec]

/-! ### expired removed, protected kept -/

theorem specOne_protected (o : KeepOptions) (now latest : Int) (seen : List Ctx) (c : Ctx)
    (h : mustKeep c.sn now = true) : (specOne o now latest seen c).keep = true := by
  have : kind o now c = .prot := by simp [kind, h]
  simp [specOne, this]

theorem mustKeep_mustDelete_exclusive (sn : Snap) (now : Int) : ¬ (mustKeep sn now = true ∧ mustDelete sn now = true) := by
  unfold mustKeep mustDelete
  cases sn.delete <;> simp

theorem specOne_expired (o : KeepOptions) (now latest : Int) (seen : List Ctx) (c : Ctx)
    (h : mustDelete c.sn now = true) : (specOne o now latest seen c).keep = false := by
  have hk : mustKeep c.sn now = false := by
    cases hm : mustKeep c.sn now with
    | false => rfl
    | true => exact absurd ⟨hm, h⟩ (mustKeep_mustDelete_exclusive c.sn now)
  have : kind o now c = .expd := by simp [kind, h, hk]
  simp [specOne, this]

/-! ### period keys -/

def keyYear (a : Snap) : Int := a.year
def keyHalfYear (a : Snap) : Int × Nat := (a.year, (a.month - 1) / 6)
def keyQuarterYear (a : Snap) : Int × Nat := (a.year, (a.month - 1) / 3)
def keyMonth (a : Snap) : Int × Nat := (a.year, a.month)
/-- ISO 8601 week: (ISO week-year, ISO week number). -/
def keyWeek (a : Snap) : Int × Nat := (a.isoYear, a.isoWeek)
def keyDay (a : Snap) : Int × Nat := (a.year, a.doy)
def keyHour (a : Snap) : Int × Nat × Nat := (a.year, a.doy, a.hour)
def keyMinute (a : Snap) : Int × Nat × Nat × Nat := (a.year, a.doy, a.hour, a.minute)

theorem equalYear_iff (a b : Snap) : equalYear a b = true ↔ keyYear a = keyYear b := by
  simp [equalYear, keyYear]
theorem equalHalfYear_iff (a b : Snap) : equalHalfYear a b = true ↔ keyHalfYear a = keyHalfYear b := by
  simp [equalHalfYear, equalYear, keyHalfYear]
theorem equalQuarterYear_iff (a b : Snap) : equalQuarterYear a b = true ↔ keyQuarterYear a = keyQuarterYear b := by
  simp [equalQuarterYear, equalYear, keyQuarterYear]
theorem equalMonth_iff (a b : Snap) : equalMonth a b = true ↔ keyMonth a = keyMonth b := by
  simp [equalMonth, equalYear, keyMonth]
theorem equalWeek_iff (a b : Snap) : equalWeek a b = true ↔ keyWeek a = keyWeek b := by
  simp [equalWeek, keyWeek]
theorem equalDay_iff (a b : Snap) : equalDay a b = true ↔ keyDay a = keyDay b := by
  simp [equalDay, equalYear, keyDay]
theorem equalHour_iff (a b : Snap) : equalHour a b = true ↔ keyHour a = keyHour b := by
  simp [equalHour, equalDay, equalYear, keyHour, and_assoc]
theorem equalMinute_iff (a b : Snap) : equalMinute a b = true ↔ keyMinute a = keyMinute b := by
  simp [equalMinute, equalHour, equalDay, equalYear, keyMinute, and_assoc]

/-! ### heads are the newest snapshots of their period -/

/-- snapshots of one period are adjacent in the newest-first list. -/
def PeriodContiguous {κ : Type} (key : Snap → κ) (l : List Snap) : Prop :=
  ∀ (i j k : Nat) (hij : i < j) (hjk : j < k) (hk : k < l.length),
    key (l[i]'(by omega)) = key (l[k]) → key (l[j]'(by omega)) = key (l[k])

theorem head_iff_newest_of_period {κ : Type} (key : Snap → κ) (eq : Snap → Snap → Bool)
    (heq : ∀ a b, eq a b = true ↔ key a = key b) (l : List Snap) (hc : PeriodContiguous key l)
    (i : Nat) (hlast : i + 1 < l.length) :
    headOf eq ((ctxFrom none l)[i]'(by rw [ctxFrom_length]; omega)) = true
      ↔ ∀ (j : Nat) (hj : j < i), key (l[j]'(by omega)) ≠ key (l[i]'(by omega)) := by
  rw [ctxFrom_getElem none l i (by omega)]
  have hnext : l[i + 1]? = some (l[i + 1]) := List.getElem?_eq_getElem hlast
  cases i with
  | zero => simp [headOf]
  | succ i =>
    have hprev : l[i]? = some (l[i]'(by omega)) := List.getElem?_eq_getElem (by omega)
    simp only [headOf, hnext, Option.isNone_some, Bool.false_or, Nat.add_one_ne_zero, if_false,
      Nat.add_sub_cancel, hprev, Bool.not_eq_true', ← Bool.not_eq_true, heq]
    constructor
    · intro hne j hj heqk
      apply hne
      by_cases hji : j = i
      · subst hji; exact heqk.symm
      · have := hc j i (i + 1) (by omega) (by omega) (by omega) heqk
        exact this.symm
    · intro h hk
      exact h i (by omega) hk.symm

theorem oldest_is_head (eq : Snap → Snap → Bool) (l : List Snap) (i : Nat) (hlast : i + 1 = l.length) :
    headOf eq ((ctxFrom none l)[i]'(by rw [ctxFrom_length]; omega)) = true := by
  rw [ctxFrom_getElem none l i (by omega)]
  have : l[i + 1]? = none := List.getElem?_eq_none (by omega)
  simp [headOf, this]

/-! ### monotonicity in the counts -/

/-- `N ≤ N'` for keep counts: unset and `0` are the bottom, negative (`-1`) is the top. -/
def CountLe : Option Int → Option Int → Prop
  | none, _ => True
  | some n, none => n = 0
  | some n, some n' => n = 0 ∨ n' < 0 ∨ (0 ≤ n ∧ n ≤ n')

theorem countKeeps_mono {N N' : Option Int} (h : CountLe N N') (r : Nat) :
    countKeeps N r = true → countKeeps N' r = true := by
  cases N with
  | none => simp [countKeeps]
  | some n =>
    cases N' with
    | none =>
      simp only [CountLe] at h
      subst h
      simp [countKeeps]
    | some n' =>
      simp only [CountLe] at h
      simp only [countKeeps, Bool.or_eq_true, decide_eq_true_eq]
      omega

/-- `o ≤ o'`: the same options except that each keep count may be raised. -/
inductive SlotsLe : List Slot → List Slot → Prop where
  | nil : SlotsLe [] []
  | cons {s s' : Slot} {l l' : List Slot} : s.within = s'.within → CountLe s.count s'.count → SlotsLe l l' →
      SlotsLe (s :: l) (s' :: l')

theorem SlotsLe.length_eq {l l' : List Slot} (h : SlotsLe l l') : l.length = l'.length := by
  induction h with
  | nil => rfl
  | cons _ _ _ ih => simp [ih]

def OptsLe (o o' : KeepOptions) : Prop :=
  o.keepTags = o'.keepTags ∧ o.keepIds = o'.keepIds ∧ o.deleteUnchanged = o'.deleteUnchanged ∧
    SlotsLe o.slots o'.slots

theorem kind_congr {o o' : KeepOptions} (h : o.deleteUnchanged = o'.deleteUnchanged) (now : Int) (c : Ctx) :
    kind o now c = kind o' now c := by
  simp [kind, h]

theorem rank_congr {o o' : KeepOptions} (h : o.deleteUnchanged = o'.deleteUnchanged) (now : Int)
    (eq : Snap → Snap → Bool) (seen : List Ctx) : rank o now eq seen = rank o' now eq seen := by
  have : ordHead o now eq = ordHead o' now eq := by
    funext c; simp [ordHead, kind_congr h]
  simp [rank, this]

theorem zip_slotsLe (rs : List Rule) (ss ss' : List Slot) (h : SlotsLe ss ss')
    (r : Rule) (s : Slot) (hm : (r, s) ∈ rs.zip ss) :
    ∃ s', (r, s') ∈ rs.zip ss' ∧ s.within = s'.within ∧ CountLe s.count s'.count := by
  induction h generalizing rs with
  | nil => simp at hm
  | @cons a b l l' hw hc _ ih =>
    cases rs with
    | nil => simp at hm
    | cons r0 rs =>
      simp only [List.zip_cons_cons, List.mem_cons, Prod.mk.injEq] at hm ⊢
      rcases hm with ⟨h1, h2⟩ | hm
      · subst h1; subst h2
        exact ⟨b, Or.inl ⟨rfl, rfl⟩, hw, hc⟩
      · obtain ⟨s', hs', hr⟩ := ih rs hm
        exact ⟨s', Or.inr hs', hr⟩

theorem specOne_mono {o o' : KeepOptions} (h : OptsLe o o') (now latest : Int) (seen : List Ctx) (c : Ctx) :
    (specOne o now latest seen c).keep = true → (specOne o' now latest seen c).keep = true := by
  obtain ⟨ht, hi, hu, hs⟩ := h
  rw [specOne_keep_iff, specOne_keep_iff, kind_congr hu]
  intro hk
  rcases hk with hk | ⟨hk, hr⟩
  · exact Or.inl hk
  · refine Or.inr ⟨hk, ?_⟩
    rcases hr with hr | hr | ⟨⟨r, s⟩, hm, hh, hc⟩
    · left; simpa [idHit, hi] using hr
    · right; left; simpa [tagHit, ht] using hr
    · right; right
      obtain ⟨s', hm', hw, hcl⟩ := zip_slotsLe rules o.slots o'.slots hs r s hm
      refine ⟨(r, s'), hm', hh, ?_⟩
      rcases hc with hc | hc
      · left
        have := countKeeps_mono hcl _ hc
        simpa [rank_congr hu] using this
      · right; simpa [← hw] using hc

theorem OptsLe.wf {o o' : KeepOptions} (h : OptsLe o o') (hw : WF o) : WF o' := by
  unfold WF at *
  rw [← h.2.2.2.length_eq, hw]

/-! ### the sort -/

theorem insertDesc_perm (x : Snap) (l : List Snap) : (insertDesc x l).Perm (x :: l) := by
  induction l with
  | nil => exact List.Perm.refl _
  | cons y t ih =>
    unfold insertDesc
    split
    · exact (List.Perm.cons y ih).trans (List.Perm.swap x y t)
    · exact List.Perm.refl _

theorem sortDesc_perm (l : List Snap) : (sortDesc l).Perm l := by
  induction l with
  | nil => exact List.Perm.refl _
  | cons x t ih =>
    have : sortDesc (x :: t) = insertDesc x (sortDesc t) := rfl
    rw [this]
    exact (insertDesc_perm x _).trans (List.Perm.cons x ih)

theorem insertDesc_sorted (x : Snap) (l : List Snap) (h : isSortedDesc l = true) :
    isSortedDesc (insertDesc x l) = true := by
  induction l with
  | nil => simp [insertDesc, isSortedDesc]
  | cons y t ih =>
    unfold insertDesc
    split
    · rename_i hyx
      cases t with
      | nil => simp [insertDesc, isSortedDesc, hyx]
      | cons z t' =>
        simp only [isSortedDesc, Bool.and_eq_true, decide_eq_true_eq] at h
        have ih' := ih h.2
        unfold insertDesc at ih' ⊢
        split
        · rename_i hzx
          simp only [hzx, if_true] at ih'
          simp only [isSortedDesc, Bool.and_eq_true, decide_eq_true_eq]
          exact ⟨h.1, ih'⟩
        · rename_i hzx
          simp only [isSortedDesc, Bool.and_eq_true, decide_eq_true_eq]
          refine ⟨hyx, ?_, h.2⟩
          omega
    · rename_i hyx
      simp only [isSortedDesc, Bool.and_eq_true, decide_eq_true_eq]
      exact ⟨by omega, h⟩

theorem sortDesc_sorted (l : List Snap) : isSortedDesc (sortDesc l) = true := by
  induction l with
  | nil => rfl
  | cons x t ih => exact insertDesc_sorted x _ ih

end Rustic.Forget

namespace Rustic.Forget

/-! ### the rank counts the distinct newer periods -/

/-- number of maximal runs of equal period keys in a newest-first list (`prev` = key of the snapshot before the
list); when equal keys are adjacent (`PeriodContiguous`) this is the number of distinct periods. -/
def runsFrom {κ : Type} [DecidableEq κ] (key : Snap → κ) : Option κ → List Snap → Nat
  | _, [] => 0
  | prev, a :: t => (if prev = some (key a) then 0 else 1) + runsFrom key (some (key a)) t

theorem rank_eq_runs {κ : Type} [DecidableEq κ] (key : Snap → κ) (eq : Snap → Snap → Bool)
    (heq : ∀ a b, eq a b = true ↔ key a = key b) (o : KeepOptions) (now : Int) (l : List Snap) :
    ∀ (p : Option Snap) (i : Nat), i < l.length →
      (∀ c ∈ (ctxFrom p l).take i, kind o now c = .ord) →
      rank o now eq ((ctxFrom p l).take i) = runsFrom key (p.map key) (l.take i) := by
  induction l with
  | nil => intro p i hi; simp at hi
  | cons a t ih =>
    intro p i hi hord
    cases i with
    | zero => simp [rank, runsFrom]
    | succ i =>
      have hi' : i < t.length := by simpa using hi
      cases t with
      | nil => simp at hi'
      | cons b t' =>
        simp only [ctxFrom, List.take_succ_cons, List.head?_cons] at hord ⊢
        have hc : kind o now ⟨p, a, some b⟩ = .ord := hord _ (by simp)
        have hrest : ∀ c ∈ (ctxFrom (some a) (b :: t')).take i, kind o now c = .ord := by
          intro c hc'
          apply hord c
          simp only [ctxFrom, List.head?_cons] at hc'
          simp [hc']
        have ih' := ih (some a) i hi' hrest
        simp only [ctxFrom, List.head?_cons] at ih'
        have hh : ordHead o now eq ⟨p, a, some b⟩ = !(decide (p.map key = some (key a))) := by
          simp only [ordHead, hc, beq_self_eq_true, Bool.true_and, headOf, Option.isNone_some, Bool.false_or]
          cases p with
          | none => simp
          | some q =>
            simp only [Option.map_some, Option.some.injEq]
            by_cases hk : key a = key q
            · have : eq a q = true := (heq a q).2 hk
              simp [this, hk]
            · have : eq a q = false := by
                cases he : eq a q with
                | false => rfl
                | true => exact absurd ((heq a q).1 he) hk
              have hk' : ¬ key q = key a := fun h => hk h.symm
              simp [this, hk']
        simp only [rank, List.countP_cons, runsFrom, Option.map_some] at ih' ⊢
        rw [ih', hh]
        by_cases hp : p.map key = some (key a)
        · simp [hp]
        · simp [hp]; omega

end Rustic.Forget
