/- Helper lemmas for C19 (`Model/Cache.lean`).  `dirs` (directories planted in the cache directory) is arbitrary everywhere. -/
import Rustic.Model.Cache
import Rustic.Lemmas.Backends
namespace Rustic.Cache
open Rustic.Backends

theorem dirname_inj {t t' : FileType} (h : t.dirname = t'.dirname) : t = t' := by
  cases t <;> cases t' <;> simp [FileType.dirname, nIndex, nKeys, nSnapshots, nData, nConfig] at h ⊢

theorem cpath_inj {t t' : FileType} {id id' : Name} (h : cpath t id = cpath t' id') : t = t' ∧ id = id' := by
  simp [cpath] at h
  exact ⟨dirname_inj h.1, h.2.2⟩

theorem cpath_ne_ctmp {t t' : FileType} {id id' : Name} (hl : id.length = id'.length) : cpath t id ≠ ctmp t' id' := by
  intro e
  simp [cpath, ctmp] at e
  exact ne_append_tmpSuffix hl e.2.2

theorem fget_fdel_some {c : FS} {p q : Path} {d : Bytes} (h : fget (fdel c p) q = some d) : fget c q = some d := by
  by_cases e : q = p
  · subst e; rw [fget_fdel_same] at h; cases h
  · rwa [fget_fdel_ne c e] at h

theorem fget_fdel_none {c : FS} {q : Path} (p : Path) (h : fget c q = none) : fget (fdel c p) q = none := by
  by_cases e : q = p
  · subst e; exact fget_fdel_same c q
  · rwa [fget_fdel_ne c e]

/-! ### dangling symlinks -/

theorem hasLink_iff (c : CD) (p : Path) : hasLink c p = true ↔ p ∈ c.links := by
  simp [hasLink]

theorem hasLink_unlink_same (c : CD) (p : Path) : hasLink (unlink c p) p = false := by
  cases h : hasLink (unlink c p) p with
  | false => rfl
  | true => rw [hasLink_iff] at h; simp [unlink] at h

theorem hasLink_unlink_ne (c : CD) {p q : Path} (h : q ≠ p) : hasLink (unlink c p) q = hasLink c q := by
  rw [Bool.eq_iff_iff, hasLink_iff, hasLink_iff]
  simp [unlink, h]

/-- links only disappear -/
theorem hasLink_unlink_of {c : CD} {p q : Path} (h : hasLink (unlink c p) q = true) : hasLink c q = true := by
  rw [hasLink_iff] at h ⊢
  simp [unlink] at h
  exact h.1

/-! ### cache reads in terms of `cHit` -/

theorem cHit_of_dir {dirs : List Path} (c : CD) {t : FileType} {id : Name} (h : hasDir dirs (cpath t id) = true) :
    cHit dirs c t id = none := by
  simp [cHit, h]

theorem cHit_of_link (dirs : List Path) {c : CD} {t : FileType} {id : Name} (h : hasLink c (cpath t id) = true) :
    cHit dirs c t id = none := by
  simp [cHit, h]

theorem cHit_some {dirs : List Path} {c : CD} {t : FileType} {id : Name} {d : Bytes} (h : cHit dirs c t id = some d) :
    hasDir dirs (cpath t id) = false ∧ hasLink c (cpath t id) = false ∧ fget c.files (cpath t id) = some d := by
  unfold cHit at h
  by_cases hd : (hasDir dirs (cpath t id) || hasLink c (cpath t id)) = true
  · simp [hd] at h
  · simp only [hd, Bool.false_eq_true, if_false] at h
    simp only [Bool.or_eq_true, not_or, Bool.not_eq_true] at hd
    exact ⟨hd.1, hd.2, h⟩

theorem cHit_eq_fget {dirs : List Path} {c : CD} {t : FileType} {id : Name} (hd : hasDir dirs (cpath t id) = false)
    (hk : hasLink c (cpath t id) = false) : cHit dirs c t id = fget c.files (cpath t id) := by
  simp [cHit, hd, hk]

/-- `Cache::read_full` answers `Ok(Some(d))` exactly when a regular file with bytes `d` is at the entry path. -/
theorem cReadFull_hit_iff (dirs : List Path) (c : CD) (t : FileType) (id : Name) (d : Bytes) :
    cReadFull dirs c t id = .hit d ↔ cHit dirs c t id = some d := by
  unfold cReadFull cHit
  by_cases hd : hasDir dirs (cpath t id) = true
  · simp [hd]
  · by_cases hk : hasLink c (cpath t id) = true
    · simp [hd, hk]
    · simp only [hd, hk, Bool.false_eq_true, if_false, Bool.or_self]
      cases fget c.files (cpath t id) <;> simp

theorem cReadFull_dir {dirs : List Path} (c : CD) {t : FileType} {id : Name} (h : hasDir dirs (cpath t id) = true) :
    cReadFull dirs c t id = .error := by
  simp [cReadFull, h]

theorem cReadPartial_dir {dirs : List Path} (c : CD) {t : FileType} {id : Name} (h : hasDir dirs (cpath t id) = true)
    (off : Nat) {len : Nat} (hlen : 0 < len) : cReadPartial dirs c t id off len = .error := by
  have : len ≠ 0 := by omega
  simp [cReadPartial, h, this]

/-- a ranged cache read in terms of `cHit` (non-empty range) -/
theorem cReadPartial_eq (dirs : List Path) (c : CD) (t : FileType) (id : Name) (off : Nat) {len : Nat} (hlen : 0 < len) :
    cReadPartial dirs c t id off len =
      match cHit dirs c t id with
      | some d => if off + len ≤ d.length then .hit ((d.drop off).take len) else .error
      | none => if hasDir dirs (cpath t id) then .error else .miss := by
  have hne : len ≠ 0 := by omega
  unfold cReadPartial cHit
  by_cases hd : hasDir dirs (cpath t id) = true
  · simp [hd, hne]
  · by_cases hk : hasLink c (cpath t id) = true
    · simp [hd, hk]
    · simp only [hd, hk, Bool.false_eq_true, if_false, Bool.or_self]
      cases fget c.files (cpath t id) <;> simp [hne]

/-! ### cache writes and removals -/

/-- the cache write of `(t, id)` reaches the entry path: no directory or dangling symlink at the temp path, no directory at
the entry path -/
def writes (dirs : List Path) (c : CD) (t : FileType) (id : Name) : Bool :=
  !hasDir dirs (ctmp t id) && !hasLink c (ctmp t id) && !hasDir dirs (cpath t id)

/-- the cache write of `(t, id)` cannot even start: a directory or a dangling symlink at the temp path -/
def tmpBlocked (dirs : List Path) (c : CD) (t : FileType) (id : Name) : Bool :=
  hasDir dirs (ctmp t id) || hasLink c (ctmp t id)

/-- After `Cache::write_bytes` every entry is as before, except the written one, which holds the new bytes — if the
write got through (otherwise it is as before too). -/
theorem cHit_cWrite {L : Nat} (dirs : List Path) (c : CD) {t t' : FileType} {id id' : Name} (hl : id.length = L)
    (hl' : id'.length = L) (d : Bytes) :
    cHit dirs (cWrite dirs c t id d) t' id' =
      if (t' = t ∧ id' = id) ∧ writes dirs c t id = true then some d else cHit dirs c t' id' := by
  have hnt : cpath t' id' ≠ ctmp t id := cpath_ne_ctmp (by rw [hl, hl'])
  unfold cWrite
  by_cases h1 : hasDir dirs (ctmp t id) = true
  · simp [h1, writes]
  · by_cases h1' : hasLink c (ctmp t id) = true
    · simp only [h1, h1', Bool.false_eq_true, if_false, if_true, writes, Bool.not_true, Bool.and_false, Bool.false_and,
        and_false]
      unfold cHit
      rw [hasLink_unlink_ne c hnt]; rfl
    · by_cases h2 : hasDir dirs (cpath t id) = true
      · simp only [h1, h1', h2, Bool.false_eq_true, if_false, if_true, writes, Bool.not_true, Bool.and_false, and_false]
        unfold cHit hasLink
        simp only
        rw [fget_fput_ne _ d hnt]
      · simp only [h1, h1', h2, Bool.false_eq_true, if_false, writes, Bool.not_false, Bool.and_self, and_true]
        by_cases e : t' = t ∧ id' = id
        · obtain ⟨e1, e2⟩ := e; subst e1; subst e2
          have hk : cpath t' id' ∉ (unlink c (cpath t' id')).links := by
            intro hm
            have := (hasLink_iff _ _).2 hm
            rw [hasLink_unlink_same] at this; cases this
          simp [cHit, h2, hasLink, hk, cWriteFile, fget_fput_same]
        · have hne : cpath t' id' ≠ cpath t id := fun h => e (cpath_inj h)
          have hk := hasLink_unlink_ne c hne
          simp only [hasLink] at hk
          simp only [e, if_false]
          unfold cHit cWriteFile hasLink
          simp only
          rw [hk, fget_fput_ne _ d hne, fget_fdel_ne _ hnt, fget_fput_ne _ d hnt]

theorem cHit_cRemove (dirs : List Path) (c : CD) (t t' : FileType) (id id' : Name) :
    cHit dirs (cRemove dirs c t id) t' id' = if t' = t ∧ id' = id then none else cHit dirs c t' id' := by
  unfold cRemove
  by_cases e : t' = t ∧ id' = id
  · obtain ⟨e1, e2⟩ := e; subst e1; subst e2
    by_cases h : hasDir dirs (cpath t' id') = true
    · simp [h, cHit]
    · simp [h, cHit, fget_fdel_same]
  · have hne : cpath t' id' ≠ cpath t id := fun h => e (cpath_inj h)
    by_cases h : hasDir dirs (cpath t id) = true
    · simp [h, e]
    · have hk := hasLink_unlink_ne c hne
      simp only [hasLink] at hk
      simp only [h, Bool.false_eq_true, if_false, e]
      unfold cHit hasLink
      simp only
      rw [hk, fget_fdel_ne _ hne]

/-- `Cache::remove` only deletes. -/
theorem cHit_cRemove_some {dirs : List Path} {c : CD} {t t' : FileType} {id id' : Name} {d : Bytes}
    (h : cHit dirs (cRemove dirs c t id) t' id' = some d) : cHit dirs c t' id' = some d := by
  rw [cHit_cRemove] at h
  by_cases e : t' = t ∧ id' = id
  · simp [e] at h
  · simpa [e] using h

theorem cHit_removeAll_some {dirs : List Path} {c : CD} {t t' : FileType} {id' : Name} {d : Bytes} (es : List (Name × Nat))
    (h : cHit dirs (removeAll dirs c t es) t' id' = some d) : cHit dirs c t' id' = some d := by
  induction es generalizing c with
  | nil => exact h
  | cons e rest ih => exact cHit_cRemove_some (ih (c := cRemove dirs c t e.1) h)

theorem cHit_removeAll_none_of_none {dirs : List Path} {c : CD} {t t' : FileType} {id' : Name} (es : List (Name × Nat))
    (h : cHit dirs c t' id' = none) : cHit dirs (removeAll dirs c t es) t' id' = none := by
  cases h' : cHit dirs (removeAll dirs c t es) t' id' with
  | none => rfl
  | some d => rw [cHit_removeAll_some es h'] at h; cases h

theorem removeAll_removes {dirs : List Path} {c : CD} {t : FileType} {es : List (Name × Nat)} {e : Name × Nat} (he : e ∈ es) :
    cHit dirs (removeAll dirs c t es) t e.1 = none := by
  induction es generalizing c with
  | nil => cases he
  | cons x rest ih =>
    rcases List.mem_cons.1 he with h | h
    · subst h
      show cHit dirs (removeAll dirs (cRemove dirs c t e.1) t rest) t e.1 = none
      apply cHit_removeAll_none_of_none
      rw [cHit_cRemove]; simp
    · exact ih h

/-! ### links only disappear -/

theorem cWrite_links {dirs : List Path} {c : CD} {t : FileType} {id : Name} {d : Bytes} {p : Path}
    (h : hasLink (cWrite dirs c t id d) p = true) : hasLink c p = true := by
  unfold cWrite at h
  split at h
  · exact h
  · split at h
    · exact hasLink_unlink_of h
    · split at h
      · exact h
      · exact hasLink_unlink_of (c := c) (p := cpath t id) h

theorem cRemove_links {dirs : List Path} {c : CD} {t : FileType} {id : Name} {p : Path}
    (h : hasLink (cRemove dirs c t id) p = true) : hasLink c p = true := by
  unfold cRemove at h
  split at h
  · exact h
  · exact hasLink_unlink_of (c := c) (p := cpath t id) h

theorem removeAll_links {dirs : List Path} {c : CD} {t : FileType} (es : List (Name × Nat)) {p : Path}
    (h : hasLink (removeAll dirs c t es) p = true) : hasLink c p = true := by
  induction es generalizing c with
  | nil => exact h
  | cons e rest ih => exact cRemove_links (ih (c := cRemove dirs c t e.1) h)

/-! ### the cache listing -/

theorem cEntry_cpath {L : Nat} {dirs : List Path} {c : CD} (t : FileType) {id : Name} (hn : isCacheName L id = true) (d : Bytes)
    (hd : hasDir dirs (cpath t id) = false) (hk : hasLink c (cpath t id) = false) :
    cEntry L dirs c t (cpath t id, d) = some (id, d.length) := by
  have hd' : hasDir dirs [t.dirname, List.take 2 id, id] = false := hd
  have hk' : hasLink c [t.dirname, List.take 2 id, id] = false := hk
  simp [cEntry, cpath, hn, hd', hk']

/-- a directory is never a cache entry (`is_file`) -/
theorem cEntry_dir {L : Nat} {dirs : List Path} {c : CD} (t : FileType) {p : Path} (d : Bytes) (hd : hasDir dirs p = true) :
    cEntry L dirs c t (p, d) = none := by
  unfold cEntry
  split
  · simp [hd]
  · rfl

theorem mem_cList {L : Nat} {dirs : List Path} {c : CD} {t : FileType} {id : Name} {d : Bytes}
    (hn : isCacheName L id = true) (h : cHit dirs c t id = some d) : (id, d.length) ∈ cList L dirs c t := by
  obtain ⟨hd, hk, hf⟩ := cHit_some h
  unfold cList
  rw [List.mem_filterMap]
  exact ⟨(cpath t id, d), mem_of_fget hf, cEntry_cpath t hn d hd hk⟩

/-- What survives a clean-up has the size the listing reports for that id. -/
theorem removeNotInList_survivor {L : Nat} {dirs : List Path} {c : CD} {t : FileType} {list : List (Name × Nat)} {id : Name}
    {d : Bytes} (hn : isCacheName L id = true) (h : cHit dirs (removeNotInList L dirs c t list) t id = some d) :
    sizeOf? list id = some d.length := by
  unfold removeNotInList at h
  have h0 := cHit_removeAll_some _ h
  have hm := mem_cList hn h0
  by_cases hk : keepEntry list (id, d.length) = true
  · simpa [keepEntry] using hk
  · have : (id, d.length) ∈ (cList L dirs c t).filter (fun e => !keepEntry list e) := by
      rw [List.mem_filter]; exact ⟨hm, by simp [hk]⟩
    have := removeAll_removes (dirs := dirs) (c := c) (t := t) this
    simp only at this
    rw [this] at h; cases h

/-- The clean-up only deletes. -/
theorem removeNotInList_sub {L : Nat} {dirs : List Path} {c : CD} {t t' : FileType} {list : List (Name × Nat)} {id : Name}
    {d : Bytes} (h : cHit dirs (removeNotInList L dirs c t list) t' id = some d) : cHit dirs c t' id = some d :=
  cHit_removeAll_some _ h

theorem removeNotInList_links {L : Nat} {dirs : List Path} {c : CD} {t : FileType} {list : List (Name × Nat)} {p : Path}
    (h : hasLink (removeNotInList L dirs c t list) p = true) : hasLink c p = true :=
  removeAll_links _ h

theorem isCacheName_length {L : Nat} {id : Name} (h : isCacheName L id = true) : id.length = L := by
  simp [isCacheName] at h; exact h.1

end Rustic.Cache
