/- Helper lemmas for C19 (`Model/Cache.lean`).  `dirs` (directories planted in the cache directory) is arbitrary everywhere. -/
import Rustic.Model.Cache
import Rustic.Lemmas.Backends
namespace Rustic.Cache
open Rustic.Backends

theorem dirname_inj {t t' : FileType} (h : t.dirname = t'.dirname) : t = t' := by
  cases t <;> cases t' <;> simp [FileType.dirname, nIndex, nKeys, nSnapshots, nData, nConfig] at h ⊢

theorem cpath_inj {t t' : FileType} {id id' : Name} (h : cpath t id = cpath t' id') : t = t' ∧ id = id' := by
  simp [cpath] at h
  exact ⟨dirname_inj h.1, h.2.2⟩

theorem cpath_ne_ctmp {t t' : FileType} {id id' : Name} (hl : id.length = id'.length) : cpath t id ≠ ctmp t' id' := by
  intro e
  simp [cpath, ctmp] at e
  exact ne_append_tmpSuffix hl e.2.2

theorem fget_fdel_some {c : FS} {p q : Path} {d : Bytes} (h : fget (fdel c p) q = some d) : fget c q = some d := by
  by_cases e : q = p
  · subst e; rw [fget_fdel_same] at h; cases h
  · rwa [fget_fdel_ne c e] at h

theorem fget_fdel_none {c : FS} {q : Path} (p : Path) (h : fget c q = none) : fget (fdel c p) q = none := by
  by_cases e : q = p
  · subst e; exact fget_fdel_same c q
  · rwa [fget_fdel_ne c e]

/-! ### symlinks -/

theorem lget_ldel_same (l : List (Path × Option Bytes)) (p : Path) : lget (ldel l p) p = none := by
  induction l with
  | nil => rfl
  | cons e rest ih =>
    obtain ⟨q, v⟩ := e
    by_cases h : q = p
    · simp [ldel, h, ih]
    · simp [ldel, lget, h, ih]

theorem lget_ldel_ne (l : List (Path × Option Bytes)) {p q : Path} (h : q ≠ p) : lget (ldel l p) q = lget l q := by
  induction l with
  | nil => rfl
  | cons e rest ih =>
    obtain ⟨r, v⟩ := e
    by_cases h1 : r = p
    · have h2 : r ≠ q := fun e => h (e ▸ h1)
      simp [ldel, lget, h1, ih]
      intro e; exact absurd e.symm h
    · by_cases h2 : r = q
      · subst h2; simp [ldel, lget, h1]
      · simp [ldel, lget, h1, h2, ih]

/-- `ldel` only removes -/
theorem lget_ldel_of {l : List (Path × Option Bytes)} {p q : Path} {v : Option Bytes} (h : lget (ldel l p) q = some v) :
    lget l q = some v := by
  by_cases e : q = p
  · subst e; rw [lget_ldel_same] at h; cases h
  · rwa [lget_ldel_ne l e] at h

theorem lget_cons_same (l : List (Path × Option Bytes)) (p : Path) (v : Option Bytes) : lget ((p, v) :: l) p = some v := by
  simp [lget]

theorem lget_cons_ne (l : List (Path × Option Bytes)) {p q : Path} (v : Option Bytes) (h : q ≠ p) :
    lget ((p, v) :: l) q = lget l q := by
  have : p ≠ q := fun e => h e.symm
  simp [lget, this]

theorem mem_of_lget {l : List (Path × Option Bytes)} {p : Path} {v : Option Bytes} (h : lget l p = some v) : (p, v) ∈ l := by
  induction l with
  | nil => simp [lget] at h
  | cons e rest ih =>
    obtain ⟨q, w⟩ := e
    by_cases e1 : q = p
    · simp [lget, e1] at h; subst e1; subst h; exact List.mem_cons_self
    · simp [lget, e1] at h; exact List.mem_cons_of_mem _ (ih h)

theorem entryBytes_of_nolink {c : CD} {p : Path} (h : lget c.links p = none) : entryBytes c p = fget c.files p := by
  simp [entryBytes, h]

/-! ### cache reads in terms of `cHit` -/

theorem cHit_of_dir {dirs : List Path} (c : CD) {t : FileType} {id : Name} (h : hasDir dirs (cpath t id) = true) :
    cHit dirs c t id = none := by
  simp [cHit, h]

/-- a dangling symlink at the entry path: nothing to serve -/
theorem cHit_of_link (dirs : List Path) {c : CD} {t : FileType} {id : Name} (h : lget c.links (cpath t id) = some none) :
    cHit dirs c t id = none := by
  unfold cHit
  split
  · rfl
  · simp [entryBytes, h]

theorem cHit_of_parent (dirs : List Path) {c : CD} {t : FileType} {id : Name} (h : (parentObj c t id).isSome = true) :
    cHit dirs c t id = none := by
  simp [cHit, h]

theorem cHit_some {dirs : List Path} {c : CD} {t : FileType} {id : Name} {d : Bytes} (h : cHit dirs c t id = some d) :
    parentObj c t id = none ∧ hasDir dirs (cpath t id) = false ∧ entryBytes c (cpath t id) = some d := by
  unfold cHit at h
  by_cases hd : ((parentObj c t id).isSome || hasDir dirs (cpath t id)) = true
  · simp [hd] at h
  · simp only [hd, Bool.false_eq_true, if_false] at h
    simp only [Bool.or_eq_true, not_or, Bool.not_eq_true, Option.isSome_eq_false_iff, Option.isNone_iff_eq_none] at hd
    exact ⟨hd.1, hd.2, h⟩

/-- `Cache::read_full` answers `Ok(Some(d))` exactly when a regular file with bytes `d` is at (or linked from) the entry
path. -/
theorem cReadFull_hit_iff (dirs : List Path) (c : CD) (t : FileType) (id : Name) (d : Bytes) :
    cReadFull dirs c t id = .hit d ↔ cHit dirs c t id = some d := by
  unfold cReadFull cHit
  cases hp : parentObj c t id with
  | some b => cases b <;> simp
  | none =>
    by_cases hd : hasDir dirs (cpath t id) = true
    · simp [hd]
    · simp only [hd, Bool.false_eq_true, if_false, Bool.or_self, Option.isSome_none, reduceCtorEq]
      cases entryBytes c (cpath t id) <;> simp

theorem cReadFull_dir {dirs : List Path} (c : CD) {t : FileType} {id : Name} (hp : parentObj c t id = none)
    (h : hasDir dirs (cpath t id) = true) : cReadFull dirs c t id = .error := by
  simp [cReadFull, h, hp]

/-- a ranged cache read in terms of `cHit` (non-empty range): served from the entry, or an error past its end -/
theorem cReadPartial_of_hit {dirs : List Path} {c : CD} {t : FileType} {id : Name} {d : Bytes}
    (h : cHit dirs c t id = some d) (off : Nat) {len : Nat} (hlen : 0 < len) :
    cReadPartial dirs c t id off len = if off + len ≤ d.length then .hit ((d.drop off).take len) else .error := by
  have hne : len ≠ 0 := by omega
  obtain ⟨hp, hd, hf⟩ := cHit_some h
  simp [cReadPartial, hp, hd, hf, hne]

/-- no entry (nothing, a directory, a dangling symlink, a blocked parent): a miss or an error — never a hit -/
theorem cReadPartial_of_none {dirs : List Path} {c : CD} {t : FileType} {id : Name}
    (h : cHit dirs c t id = none) (off : Nat) {len : Nat} (hlen : 0 < len) :
    cReadPartial dirs c t id off len = .miss ∨ cReadPartial dirs c t id off len = .error := by
  have hne : len ≠ 0 := by omega
  unfold cReadPartial
  unfold cHit at h
  cases hp : parentObj c t id with
  | some b => cases b <;> simp
  | none =>
    by_cases hd : hasDir dirs (cpath t id) = true
    · simp [hd, hne]
    · simp only [hp, hd, Bool.false_eq_true, if_false, Bool.or_self, Option.isSome_none] at h
      simp [hd, h]

/-! ### cache writes and removals -/

/-- the cache write of `(t, id)` reaches the entry path: the parent directories can be made, no directory or dangling
symlink at the temp path, no directory at the entry path -/
def writes (dirs : List Path) (c : CD) (t : FileType) (id : Name) : Bool :=
  (parentObj c t id).isNone && !hasDir dirs (ctmp t id) && !(lget c.links (ctmp t id) == some none) &&
    !hasDir dirs (cpath t id)

/-- the cache write of `(t, id)` fails at the temp file: a directory or a dangling symlink at the temp path -/
def tmpBlocked (dirs : List Path) (c : CD) (t : FileType) (id : Name) : Bool :=
  hasDir dirs (ctmp t id) || (lget c.links (ctmp t id) == some none)

theorem short_ne_cpath {q : Path} (hq : q.length ≤ 2) (t : FileType) (id : Name) : q ≠ cpath t id := by
  intro e; rw [e] at hq; simp [cpath] at hq

theorem short_ne_ctmp {q : Path} (hq : q.length ≤ 2) (t : FileType) (id : Name) : q ≠ ctmp t id := by
  intro e; rw [e] at hq; simp [ctmp] at hq

/-- What `open(q)` finds after a cache write, for every path but the temp path: as before, except at the entry path when
the write got through. -/
theorem entryBytes_cWrite (dirs : List Path) (c : CD) (t : FileType) (id : Name) (d : Bytes) {q : Path}
    (hq : q ≠ ctmp t id) :
    entryBytes (cWrite dirs c t id d) q =
      if q = cpath t id ∧ writes dirs c t id = true then some d else entryBytes c q := by
  have hpt : cpath t id ≠ ctmp t id := cpath_ne_ctmp rfl
  unfold cWrite
  by_cases h0 : (parentObj c t id).isSome = true
  · have hw : writes dirs c t id = false := by
      cases h : parentObj c t id with
      | none => rw [h] at h0; simp at h0
      | some b => simp [writes, h]
    simp [h0, hw]
  · have h0n : (parentObj c t id).isNone = true := by
      cases h : parentObj c t id with
      | none => rfl
      | some b => rw [h] at h0; simp at h0
    by_cases h1 : hasDir dirs (ctmp t id) = true
    · simp [h0, h1, writes]
    · simp only [h0, h1, Bool.false_eq_true, if_false]
      cases hl : lget c.links (ctmp t id) with
      | none =>
        by_cases h2 : hasDir dirs (cpath t id) = true
        · simp only [h2, if_true, writes, hl, Bool.not_true, Bool.and_false, Bool.false_eq_true, and_false, if_false]
          unfold entryBytes
          simp only
          rw [fget_fput_ne _ d hq]
        · simp only [h2, Bool.false_eq_true, if_false]
          have hw : writes dirs c t id = true := by simp [writes, h0n, h1, hl, h2]
          by_cases e : q = cpath t id
          · subst e
            simp [hw, entryBytes, lget_ldel_same, cWriteFile, fget_fput_same]
          · simp only [e, false_and, if_false]
            unfold entryBytes cWriteFile
            simp only
            rw [lget_ldel_ne _ e, fget_fput_ne _ d e, fget_fdel_ne _ hq, fget_fput_ne _ d hq]
      | some v =>
        cases v with
        | none =>
          simp only [writes, hl, beq_self_eq_true, Bool.not_true, Bool.and_false, Bool.false_and, Bool.false_eq_true,
            and_false, if_false]
          unfold entryBytes unlink
          simp only
          rw [lget_ldel_ne _ hq]
        | some b =>
          by_cases h2 : hasDir dirs (cpath t id) = true
          · simp only [h2, if_true, writes, Bool.not_true, Bool.and_false, Bool.false_eq_true, and_false, if_false]
            unfold entryBytes
            simp only
            rw [lget_cons_ne _ _ hq, lget_ldel_ne _ hq]
          · simp only [h2, Bool.false_eq_true, if_false]
            have hw : writes dirs c t id = true := by simp [writes, h0n, h1, hl, h2]
            by_cases e : q = cpath t id
            · subst e
              simp [hw, entryBytes, lget_cons_same]
            · simp only [e, false_and, if_false]
              unfold entryBytes
              simp only
              rw [lget_cons_ne _ _ e, lget_ldel_ne _ e, lget_ldel_ne _ hq, fget_fdel_ne _ e]

/-- cache writes and removals touch entry and temp paths only: what sits where the parent directories belong stays -/
theorem lget_cWrite_short (dirs : List Path) (c : CD) (t : FileType) (id : Name) (d : Bytes) {q : Path} (hq : q.length ≤ 2) :
    lget (cWrite dirs c t id d).links q = lget c.links q := by
  have h1 := short_ne_cpath hq t id
  have h2 := short_ne_ctmp hq t id
  unfold cWrite
  split
  · rfl
  · split
    · rfl
    · split
      · exact lget_ldel_ne _ h2
      · split
        · show lget ((ctmp t id, some d) :: ldel c.links (ctmp t id)) q = _
          rw [lget_cons_ne _ _ h2, lget_ldel_ne _ h2]
        · show lget ((cpath t id, some d) :: ldel (ldel c.links (ctmp t id)) (cpath t id)) q = _
          rw [lget_cons_ne _ _ h1, lget_ldel_ne _ h1, lget_ldel_ne _ h2]
      · split
        · rfl
        · exact lget_ldel_ne _ h1

theorem fget_cWrite_short (dirs : List Path) (c : CD) (t : FileType) (id : Name) (d : Bytes) {q : Path} (hq : q.length ≤ 2) :
    fget (cWrite dirs c t id d).files q = fget c.files q := by
  have h1 := short_ne_cpath hq t id
  have h2 := short_ne_ctmp hq t id
  unfold cWrite
  split
  · rfl
  · split
    · rfl
    · split
      · rfl
      · split
        · rfl
        · exact fget_fdel_ne _ h1
      · split
        · exact fget_fput_ne _ d h2
        · show fget (cWriteFile c.files t id d) q = _
          unfold cWriteFile
          rw [fget_fput_ne _ d h1, fget_fdel_ne _ h2, fget_fput_ne _ d h2]

theorem parentAt_congr {c c' : CD} {q : Path} (h1 : lget c'.links q = lget c.links q) (h2 : fget c'.files q = fget c.files q) :
    parentAt c' q = parentAt c q := by
  unfold parentAt; rw [h1, h2]

theorem parentObj_cWrite (dirs : List Path) (c : CD) (t t' : FileType) (id id' : Name) (d : Bytes) :
    parentObj (cWrite dirs c t id d) t' id' = parentObj c t' id' := by
  unfold parentObj
  rw [parentAt_congr (lget_cWrite_short dirs c t id d (q := [t'.dirname]) (by simp))
        (fget_cWrite_short dirs c t id d (q := [t'.dirname]) (by simp)),
      parentAt_congr (lget_cWrite_short dirs c t id d (q := [t'.dirname, id'.take 2]) (by simp))
        (fget_cWrite_short dirs c t id d (q := [t'.dirname, id'.take 2]) (by simp))]

theorem lget_cRemove_short (dirs : List Path) (c : CD) (t : FileType) (id : Name) {q : Path} (hq : q.length ≤ 2) :
    lget (cRemove dirs c t id).links q = lget c.links q := by
  unfold cRemove
  split
  · rfl
  · exact lget_ldel_ne _ (short_ne_cpath hq t id)

theorem fget_cRemove_short (dirs : List Path) (c : CD) (t : FileType) (id : Name) {q : Path} (hq : q.length ≤ 2) :
    fget (cRemove dirs c t id).files q = fget c.files q := by
  unfold cRemove
  split
  · rfl
  · exact fget_fdel_ne _ (short_ne_cpath hq t id)

theorem parentObj_cRemove (dirs : List Path) (c : CD) (t t' : FileType) (id id' : Name) :
    parentObj (cRemove dirs c t id) t' id' = parentObj c t' id' := by
  unfold parentObj
  rw [parentAt_congr (lget_cRemove_short dirs c t id (q := [t'.dirname]) (by simp))
        (fget_cRemove_short dirs c t id (q := [t'.dirname]) (by simp)),
      parentAt_congr (lget_cRemove_short dirs c t id (q := [t'.dirname, id'.take 2]) (by simp))
        (fget_cRemove_short dirs c t id (q := [t'.dirname, id'.take 2]) (by simp))]

/-- After `Cache::write_bytes` every entry is as before, except the written one, which holds the new bytes — if the
write got through (otherwise it is as before too). -/
theorem cHit_cWrite {L : Nat} (dirs : List Path) (c : CD) {t t' : FileType} {id id' : Name} (hl : id.length = L)
    (hl' : id'.length = L) (d : Bytes) :
    cHit dirs (cWrite dirs c t id d) t' id' =
      if (t' = t ∧ id' = id) ∧ writes dirs c t id = true then some d else cHit dirs c t' id' := by
  have hnt : cpath t' id' ≠ ctmp t id := cpath_ne_ctmp (by rw [hl, hl'])
  unfold cHit
  rw [parentObj_cWrite, entryBytes_cWrite dirs c t id d hnt]
  by_cases hb : ((parentObj c t' id').isSome || hasDir dirs (cpath t' id')) = true
  · -- no entry there, before and after; if it is the written file itself, the write does not get through
    have : ¬((t' = t ∧ id' = id) ∧ writes dirs c t id = true) := by
      rintro ⟨⟨e1, e2⟩, hw⟩
      subst e1; subst e2
      simp only [writes, Bool.and_eq_true, Bool.not_eq_eq_eq_not, Bool.not_true, Option.isNone_iff_eq_none] at hw
      simp [hw.1.1.1, hw.2] at hb
    simp [hb, this]
  · simp only [hb, Bool.false_eq_true, if_false]
    by_cases e : t' = t ∧ id' = id
    · obtain ⟨e1, e2⟩ := e; subst e1; subst e2; simp
    · have hne : cpath t' id' ≠ cpath t id := fun h => e (cpath_inj h)
      simp [e, hne]

theorem entryBytes_cRemove (dirs : List Path) (c : CD) (t : FileType) (id : Name) (q : Path) :
    entryBytes (cRemove dirs c t id) q =
      if q = cpath t id ∧ ((parentObj c t id).isSome || hasDir dirs (cpath t id)) = false then none else entryBytes c q := by
  unfold cRemove
  by_cases h : ((parentObj c t id).isSome || hasDir dirs (cpath t id)) = true
  · simp [h]
  · simp only [h, Bool.false_eq_true, if_false]
    by_cases e : q = cpath t id
    · subst e; simp [entryBytes, lget_ldel_same, fget_fdel_same]
    · simp only [e, false_and, if_false]
      unfold entryBytes
      simp only
      rw [lget_ldel_ne _ e, fget_fdel_ne _ e]

theorem cHit_cRemove (dirs : List Path) (c : CD) (t t' : FileType) (id id' : Name) :
    cHit dirs (cRemove dirs c t id) t' id' = if t' = t ∧ id' = id then none else cHit dirs c t' id' := by
  unfold cHit
  rw [parentObj_cRemove, entryBytes_cRemove]
  by_cases hb : ((parentObj c t' id').isSome || hasDir dirs (cpath t' id')) = true
  · simp [hb]
  · simp only [hb, Bool.false_eq_true, if_false]
    by_cases e : t' = t ∧ id' = id
    · obtain ⟨e1, e2⟩ := e; subst e1; subst e2
      have hb' : ((parentObj c t' id').isSome || hasDir dirs (cpath t' id')) = false := by simpa using hb
      simp [hb']
    · have hne : cpath t' id' ≠ cpath t id := fun h => e (cpath_inj h)
      simp [e, hne]

/-- `Cache::remove` only deletes. -/
theorem cHit_cRemove_some {dirs : List Path} {c : CD} {t t' : FileType} {id id' : Name} {d : Bytes}
    (h : cHit dirs (cRemove dirs c t id) t' id' = some d) : cHit dirs c t' id' = some d := by
  rw [cHit_cRemove] at h
  by_cases e : t' = t ∧ id' = id
  · simp [e] at h
  · simpa [e] using h

theorem cHit_removeAll_some {dirs : List Path} {c : CD} {t t' : FileType} {id' : Name} {d : Bytes} (es : List (Name × Nat))
    (h : cHit dirs (removeAll dirs c t es) t' id' = some d) : cHit dirs c t' id' = some d := by
  induction es generalizing c with
  | nil => exact h
  | cons e rest ih => exact cHit_cRemove_some (ih (c := cRemove dirs c t e.1) h)

theorem cHit_removeAll_none_of_none {dirs : List Path} {c : CD} {t t' : FileType} {id' : Name} (es : List (Name × Nat))
    (h : cHit dirs c t' id' = none) : cHit dirs (removeAll dirs c t es) t' id' = none := by
  cases h' : cHit dirs (removeAll dirs c t es) t' id' with
  | none => rfl
  | some d => rw [cHit_removeAll_some es h'] at h; cases h

theorem removeAll_removes {dirs : List Path} {c : CD} {t : FileType} {es : List (Name × Nat)} {e : Name × Nat} (he : e ∈ es) :
    cHit dirs (removeAll dirs c t es) t e.1 = none := by
  induction es generalizing c with
  | nil => cases he
  | cons x rest ih =>
    rcases List.mem_cons.1 he with h | h
    · subst h
      show cHit dirs (removeAll dirs (cRemove dirs c t e.1) t rest) t e.1 = none
      apply cHit_removeAll_none_of_none
      rw [cHit_cRemove]; simp
    · exact ih h

/-! ### dangling symlinks only disappear (no operation creates one) -/

theorem cWrite_dangling {dirs : List Path} {c : CD} {t : FileType} {id : Name} {d : Bytes} {p : Path}
    (h : lget (cWrite dirs c t id d).links p = some none) : lget c.links p = some none := by
  unfold cWrite at h
  split at h
  · exact h
  · split at h
    · exact h
    · split at h
      · exact lget_ldel_of h
      · split at h
        · by_cases e : p = ctmp t id
          · subst e; rw [lget_cons_same] at h; cases h
          · rw [lget_cons_ne _ _ e] at h; exact lget_ldel_of h
        · by_cases e : p = cpath t id
          · subst e; rw [lget_cons_same] at h; cases h
          · rw [lget_cons_ne _ _ e] at h; exact lget_ldel_of (lget_ldel_of h)
      · split at h
        · exact h
        · exact lget_ldel_of h

theorem cRemove_dangling {dirs : List Path} {c : CD} {t : FileType} {id : Name} {p : Path}
    (h : lget (cRemove dirs c t id).links p = some none) : lget c.links p = some none := by
  unfold cRemove at h
  split at h
  · exact h
  · exact lget_ldel_of h

theorem removeAll_dangling {dirs : List Path} {c : CD} {t : FileType} (es : List (Name × Nat)) {p : Path}
    (h : lget (removeAll dirs c t es).links p = some none) : lget c.links p = some none := by
  induction es generalizing c with
  | nil => exact h
  | cons e rest ih => exact cRemove_dangling (ih (c := cRemove dirs c t e.1) h)

/-! ### the cache listing -/

theorem cEntry_cpath {L : Nat} {dirs : List Path} {c : CD} (t : FileType) {id : Name} (hn : isCacheName L id = true) (d : Bytes)
    (hp : parentObj c t id = none) (hd : hasDir dirs (cpath t id) = false) (hk : hasLink c (cpath t id) = false) :
    cEntry L dirs c t (cpath t id, d) = some (id, d.length) := by
  have hd' : hasDir dirs [t.dirname, List.take 2 id, id] = false := hd
  have hk' : hasLink c [t.dirname, List.take 2 id, id] = false := hk
  simp [cEntry, cpath, hn, hd', hk', hp]

theorem cLinkEntry_cpath {L : Nat} {dirs : List Path} {c : CD} (t : FileType) {id : Name} (hn : isCacheName L id = true) (d : Bytes)
    (hp : parentObj c t id = none) (hd : hasDir dirs (cpath t id) = false) (hk : lget c.links (cpath t id) = some (some d)) :
    cLinkEntry L dirs c t (cpath t id, some d) = some (id, d.length) := by
  have hd' : hasDir dirs [t.dirname, List.take 2 id, id] = false := hd
  have hk' : lget c.links [t.dirname, List.take 2 id, id] = some (some d) := hk
  simp [cLinkEntry, cpath, hn, hd', hk', hp]

/-- a directory is never a cache entry (`is_file`) -/
theorem cEntry_dir {L : Nat} {dirs : List Path} {c : CD} (t : FileType) {p : Path} (d : Bytes) (hd : hasDir dirs p = true) :
    cEntry L dirs c t (p, d) = none := by
  unfold cEntry
  split
  · simp [hd]
  · rfl

/-- whatever a read can serve — a regular file or a symlink to one — is listed -/
theorem mem_cList {L : Nat} {dirs : List Path} {c : CD} {t : FileType} {id : Name} {d : Bytes}
    (hn : isCacheName L id = true) (h : cHit dirs c t id = some d) : (id, d.length) ∈ cList L dirs c t := by
  obtain ⟨hp, hd, hf⟩ := cHit_some h
  unfold cList
  rw [List.mem_append]
  unfold entryBytes at hf
  cases hl : lget c.links (cpath t id) with
  | none =>
    rw [hl] at hf
    left
    rw [List.mem_filterMap]
    exact ⟨(cpath t id, d), mem_of_fget hf, cEntry_cpath t hn d hp hd (by simp [hasLink, hl])⟩
  | some v =>
    rw [hl] at hf
    simp only at hf
    subst hf
    right
    rw [List.mem_filterMap]
    exact ⟨(cpath t id, some d), mem_of_lget hl, cLinkEntry_cpath t hn d hp hd hl⟩

theorem fget_isSome_of_mem {fs : FS} {p : Path} {b : Bytes} (h : (p, b) ∈ fs) : (fget fs p).isSome = true := by
  induction fs with
  | nil => cases h
  | cons e rest ih =>
    obtain ⟨q, b'⟩ := e
    unfold fget
    by_cases hq : q = p
    · simp [hq]
    · simp only [hq, if_false]
      rcases List.mem_cons.1 h with h' | h'
      · cases h'; exact absurd rfl hq
      · exact ih h'

/-- converse of `mem_cList`: every listed entry has an id-shaped name and is something a read can serve -/
theorem cList_hit {L : Nat} {dirs : List Path} {c : CD} {t : FileType} {e : Name × Nat} (h : e ∈ cList L dirs c t) :
    isCacheName L e.1 = true ∧ (cHit dirs c t e.1).isSome = true := by
  unfold cList at h
  rw [List.mem_append] at h
  rcases h with h | h
  · rw [List.mem_filterMap] at h
    obtain ⟨⟨p, b⟩, hm, he⟩ := h
    unfold cEntry at he
    split at he
    · next d sub n hp =>
      simp only at hp
      subst hp
      split at he
      · next hc =>
        obtain ⟨h1, h2, h3, h4, h5, h6⟩ := hc
        cases he
        subst h1; subst h3
        refine ⟨h2, ?_⟩
        have hd : hasDir dirs (cpath t n) = false := h4
        have hk : lget c.links (cpath t n) = none := by
          have : hasLink c (cpath t n) = false := h5
          simpa [hasLink] using this
        simp only [cHit, h6, hd, Option.isSome_none, Bool.or_self, Bool.false_eq_true, if_false, entryBytes, hk]
        exact fget_isSome_of_mem hm
      · cases he
    · cases he
  · rw [List.mem_filterMap] at h
    obtain ⟨⟨p, v⟩, _, he⟩ := h
    unfold cLinkEntry at he
    split at he
    · next d sub n b hp hv =>
      simp only at hp hv
      subst hp; subst hv
      split at he
      · next hc =>
        obtain ⟨h1, h2, h3, h4, h5, h6⟩ := hc
        cases he
        subst h1; subst h3
        refine ⟨h2, ?_⟩
        have hd : hasDir dirs (cpath t n) = false := h4
        have hk : lget c.links (cpath t n) = some (some b) := h5
        simp [cHit, h6, hd, entryBytes, hk]
      · cases he
    · cases he

/-- What survives a clean-up has the size the listing reports for that id. -/
theorem removeNotInList_survivor {L : Nat} {dirs : List Path} {c : CD} {t : FileType} {list : List (Name × Nat)} {id : Name}
    {d : Bytes} (hn : isCacheName L id = true) (h : cHit dirs (removeNotInList L dirs c t list) t id = some d) :
    sizeOf? list id = some d.length := by
  unfold removeNotInList at h
  have h0 := cHit_removeAll_some _ h
  have hm := mem_cList hn h0
  by_cases hk : keepEntry list (id, d.length) = true
  · simpa [keepEntry] using hk
  · have : (id, d.length) ∈ (cList L dirs c t).filter (fun e => !keepEntry list e) := by
      rw [List.mem_filter]; exact ⟨hm, by simp [hk]⟩
    have := removeAll_removes (dirs := dirs) (c := c) (t := t) this
    simp only at this
    rw [this] at h; cases h

/-- The clean-up only deletes. -/
theorem removeNotInList_sub {L : Nat} {dirs : List Path} {c : CD} {t t' : FileType} {list : List (Name × Nat)} {id : Name}
    {d : Bytes} (h : cHit dirs (removeNotInList L dirs c t list) t' id = some d) : cHit dirs c t' id = some d :=
  cHit_removeAll_some _ h

theorem removeNotInList_dangling {L : Nat} {dirs : List Path} {c : CD} {t : FileType} {list : List (Name × Nat)} {p : Path}
    (h : lget (removeNotInList L dirs c t list).links p = some none) : lget c.links p = some none :=
  removeAll_dangling _ h

theorem isCacheName_length {L : Nat} {id : Name} (h : isCacheName L id = true) : id.length = L := by
  simp [isCacheName] at h; exact h.1

end Rustic.Cache
