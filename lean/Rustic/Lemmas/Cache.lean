/- Helper lemmas for C19 (`Model/Cache.lean`).  `dirs` (directories planted in the cache directory) is arbitrary everywhere. -/
import Rustic.Model.Cache
import Rustic.Lemmas.Backends
namespace Rustic.Cache
open Rustic.Backends

theorem dirname_inj {t t' : FileType} (h : t.dirname = t'.dirname) : t = t' := by
  cases t <;> cases t' <;> simp [FileType.dirname, nIndex, nKeys, nSnapshots, nData, nConfig] at h ⊢

theorem cpath_inj {t t' : FileType} {id id' : Name} (h : cpath t id = cpath t' id') : t = t' ∧ id = id' := by
  simp [cpath] at h
  exact ⟨dirname_inj h.1, h.2.2⟩

theorem cpath_ne_ctmp {t t' : FileType} {id id' : Name} (hl : id.length = id'.length) : cpath t id ≠ ctmp t' id' := by
  intro e
  simp [cpath, ctmp] at e
  exact ne_append_tmpSuffix hl e.2.2

theorem fget_fdel_some {c : FS} {p q : Path} {d : Bytes} (h : fget (fdel c p) q = some d) : fget c q = some d := by
  by_cases e : q = p
  · subst e; rw [fget_fdel_same] at h; cases h
  · rwa [fget_fdel_ne c e] at h

theorem fget_fdel_none {c : FS} {q : Path} (p : Path) (h : fget c q = none) : fget (fdel c p) q = none := by
  by_cases e : q = p
  · subst e; exact fget_fdel_same c q
  · rwa [fget_fdel_ne c e]

/-! ### dangling symlinks -/

theorem hasLink_iff (c : CD) (p : Path) : hasLink c p = true ↔ p ∈ c.links := by
  simp [hasLink]

theorem hasLink_unlink_same (c : CD) (p : Path) : hasLink (unlink c p) p = false := by
  cases h : hasLink (unlink c p) p with
  | false => rfl
  | true => rw [hasLink_iff] at h; simp [unlink] at h

theorem hasLink_unlink_ne (c : CD) {p q : Path} (h : q ≠ p) : hasLink (unlink c p) q = hasLink c q := by
  rw [Bool.eq_iff_iff, hasLink_iff, hasLink_iff]
  simp [unlink, h]

/-- links only disappear -/
theorem hasLink_unlink_of {c : CD} {p q : Path} (h : hasLink (unlink c p) q = true) : hasLink c q = true := by
  rw [hasLink_iff] at h ⊢
  simp [unlink] at h
  exact h.1

/-! ### cache reads in terms of `cHit` -/

theorem cHit_of_dir {dirs : List Path} (c : CD) {t : FileType} {id : Name} (h : hasDir dirs (cpath t id) = true) :
    cHit dirs c t id = none := by
  simp [cHit, h]

theorem cHit_of_link (dirs : List Path) {c : CD} {t : FileType} {id : Name} (h : hasLink c (cpath t id) = true) :
    cHit dirs c t id = none := by
  simp [cHit, h]

theorem cHit_of_parent (dirs : List Path) {c : CD} {t : FileType} {id : Name} (h : (parentObj c t id).isSome = true) :
    cHit dirs c t id = none := by
  simp [cHit, h]

theorem cHit_some {dirs : List Path} {c : CD} {t : FileType} {id : Name} {d : Bytes} (h : cHit dirs c t id = some d) :
    parentObj c t id = none ∧ hasDir dirs (cpath t id) = false ∧ hasLink c (cpath t id) = false ∧
    fget c.files (cpath t id) = some d := by
  unfold cHit at h
  by_cases hd : ((parentObj c t id).isSome || hasDir dirs (cpath t id) || hasLink c (cpath t id)) = true
  · simp [hd] at h
  · simp only [hd, Bool.false_eq_true, if_false] at h
    simp only [Bool.or_eq_true, not_or, Bool.not_eq_true, Option.isSome_eq_false_iff, Option.isNone_iff_eq_none] at hd
    exact ⟨hd.1.1, hd.1.2, hd.2, h⟩

/-- `Cache::read_full` answers `Ok(Some(d))` exactly when a regular file with bytes `d` is at the entry path. -/
theorem cReadFull_hit_iff (dirs : List Path) (c : CD) (t : FileType) (id : Name) (d : Bytes) :
    cReadFull dirs c t id = .hit d ↔ cHit dirs c t id = some d := by
  unfold cReadFull cHit
  cases hp : parentObj c t id with
  | some b => cases b <;> simp
  | none =>
    by_cases hd : hasDir dirs (cpath t id) = true
    · simp [hd]
    · by_cases hk : hasLink c (cpath t id) = true
      · simp [hd, hk]
      · simp only [hd, hk, Bool.false_eq_true, if_false, Bool.or_self, Option.isSome_none, reduceCtorEq]
        cases fget c.files (cpath t id) <;> simp

theorem cReadFull_dir {dirs : List Path} (c : CD) {t : FileType} {id : Name} (hp : parentObj c t id = none)
    (h : hasDir dirs (cpath t id) = true) : cReadFull dirs c t id = .error := by
  simp [cReadFull, h, hp]

/-- a ranged cache read in terms of `cHit` (non-empty range): served from the entry, or an error past its end -/
theorem cReadPartial_of_hit {dirs : List Path} {c : CD} {t : FileType} {id : Name} {d : Bytes}
    (h : cHit dirs c t id = some d) (off : Nat) {len : Nat} (hlen : 0 < len) :
    cReadPartial dirs c t id off len = if off + len ≤ d.length then .hit ((d.drop off).take len) else .error := by
  have hne : len ≠ 0 := by omega
  obtain ⟨hp, hd, hk, hf⟩ := cHit_some h
  simp [cReadPartial, hp, hd, hk, hf, hne]

/-- no entry (nothing, a directory, a dangling symlink, a blocked parent): a miss or an error — never a hit -/
theorem cReadPartial_of_none {dirs : List Path} {c : CD} {t : FileType} {id : Name}
    (h : cHit dirs c t id = none) (off : Nat) {len : Nat} (hlen : 0 < len) :
    cReadPartial dirs c t id off len = .miss ∨ cReadPartial dirs c t id off len = .error := by
  have hne : len ≠ 0 := by omega
  unfold cReadPartial
  unfold cHit at h
  cases hp : parentObj c t id with
  | some b => cases b <;> simp
  | none =>
    by_cases hd : hasDir dirs (cpath t id) = true
    · simp [hd, hne]
    · by_cases hk : hasLink c (cpath t id) = true
      · simp [hd, hk]
      · simp only [hp, hd, hk, Bool.false_eq_true, if_false, Bool.or_self, Option.isSome_none] at h
        simp [hd, hk, h]

/-! ### cache writes and removals -/

/-- the cache write of `(t, id)` reaches the entry path: the parent directories can be made, no directory or dangling
symlink at the temp path, no directory at the entry path -/
def writes (dirs : List Path) (c : CD) (t : FileType) (id : Name) : Bool :=
  (parentObj c t id).isNone && !hasDir dirs (ctmp t id) && !hasLink c (ctmp t id) && !hasDir dirs (cpath t id)

/-- the cache write of `(t, id)` fails at the temp file: a directory or a dangling symlink at the temp path -/
def tmpBlocked (dirs : List Path) (c : CD) (t : FileType) (id : Name) : Bool :=
  hasDir dirs (ctmp t id) || hasLink c (ctmp t id)

theorem short_ne_cpath {q : Path} (hq : q.length ≤ 2) (t : FileType) (id : Name) : q ≠ cpath t id := by
  intro e; rw [e] at hq; simp [cpath] at hq

theorem short_ne_ctmp {q : Path} (hq : q.length ≤ 2) (t : FileType) (id : Name) : q ≠ ctmp t id := by
  intro e; rw [e] at hq; simp [ctmp] at hq

/-- cache writes and removals touch entry and temp paths only: what sits where the parent directories belong stays -/
theorem fget_cWrite_short (dirs : List Path) (c : CD) (t : FileType) (id : Name) (d : Bytes) {q : Path} (hq : q.length ≤ 2) :
    fget (cWrite dirs c t id d).files q = fget c.files q := by
  have h1 := short_ne_cpath hq t id
  have h2 := short_ne_ctmp hq t id
  unfold cWrite
  split
  · rfl
  · split
    · rfl
    · split
      · rfl
      · split
        · exact fget_fput_ne _ d h2
        · show fget (cWriteFile c.files t id d) q = _
          unfold cWriteFile
          rw [fget_fput_ne _ d h1, fget_fdel_ne _ h2, fget_fput_ne _ d h2]

theorem hasLink_cWrite_short (dirs : List Path) (c : CD) (t : FileType) (id : Name) (d : Bytes) {q : Path} (hq : q.length ≤ 2) :
    hasLink (cWrite dirs c t id d) q = hasLink c q := by
  have h1 := short_ne_cpath hq t id
  have h2 := short_ne_ctmp hq t id
  unfold cWrite
  split
  · rfl
  · split
    · rfl
    · split
      · exact hasLink_unlink_ne c h2
      · split
        · rfl
        · exact hasLink_unlink_ne c h1

theorem parentObj_cWrite (dirs : List Path) (c : CD) (t t' : FileType) (id id' : Name) (d : Bytes) :
    parentObj (cWrite dirs c t id d) t' id' = parentObj c t' id' := by
  unfold parentObj
  rw [fget_cWrite_short dirs c t id d (q := [t'.dirname]) (by simp),
      fget_cWrite_short dirs c t id d (q := [t'.dirname, id'.take 2]) (by simp),
      hasLink_cWrite_short dirs c t id d (q := [t'.dirname]) (by simp),
      hasLink_cWrite_short dirs c t id d (q := [t'.dirname, id'.take 2]) (by simp)]

theorem fget_cRemove_short (dirs : List Path) (c : CD) (t : FileType) (id : Name) {q : Path} (hq : q.length ≤ 2) :
    fget (cRemove dirs c t id).files q = fget c.files q := by
  unfold cRemove
  split
  · rfl
  · exact fget_fdel_ne _ (short_ne_cpath hq t id)

theorem hasLink_cRemove_short (dirs : List Path) (c : CD) (t : FileType) (id : Name) {q : Path} (hq : q.length ≤ 2) :
    hasLink (cRemove dirs c t id) q = hasLink c q := by
  unfold cRemove
  split
  · rfl
  · exact hasLink_unlink_ne c (short_ne_cpath hq t id)

theorem parentObj_cRemove (dirs : List Path) (c : CD) (t t' : FileType) (id id' : Name) :
    parentObj (cRemove dirs c t id) t' id' = parentObj c t' id' := by
  unfold parentObj
  rw [fget_cRemove_short dirs c t id (q := [t'.dirname]) (by simp),
      fget_cRemove_short dirs c t id (q := [t'.dirname, id'.take 2]) (by simp),
      hasLink_cRemove_short dirs c t id (q := [t'.dirname]) (by simp),
      hasLink_cRemove_short dirs c t id (q := [t'.dirname, id'.take 2]) (by simp)]

/-- `cHit` with the parent check taken out (it is the same before and after a cache write / removal) -/
theorem cHit_unfold (dirs : List Path) (c : CD) (t : FileType) (id : Name) :
    cHit dirs c t id = if (parentObj c t id).isSome then none
      else if hasDir dirs (cpath t id) || hasLink c (cpath t id) then none else fget c.files (cpath t id) := by
  unfold cHit
  cases (parentObj c t id).isSome <;> simp

/-- After `Cache::write_bytes` every entry is as before, except the written one, which holds the new bytes — if the
write got through (otherwise it is as before too). -/
theorem cHit_cWrite {L : Nat} (dirs : List Path) (c : CD) {t t' : FileType} {id id' : Name} (hl : id.length = L)
    (hl' : id'.length = L) (d : Bytes) :
    cHit dirs (cWrite dirs c t id d) t' id' =
      if (t' = t ∧ id' = id) ∧ writes dirs c t id = true then some d else cHit dirs c t' id' := by
  have hnt : cpath t' id' ≠ ctmp t id := cpath_ne_ctmp (by rw [hl, hl'])
  rw [cHit_unfold, cHit_unfold dirs c, parentObj_cWrite]
  by_cases hp' : (parentObj c t' id').isSome = true
  · -- nothing can be below a non-directory; if it is the written file itself, the write does not get through
    have : ¬((t' = t ∧ id' = id) ∧ writes dirs c t id = true) := by
      rintro ⟨⟨e1, e2⟩, hw⟩
      subst e1; subst e2
      simp [writes] at hw
      rw [hw.1.1.1] at hp'; cases hp'
    simp [hp', this]
  · simp only [hp', Bool.false_eq_true, if_false]
    unfold cWrite
    by_cases h0 : (parentObj c t id).isSome = true
    · have hw : writes dirs c t id = false := by
        cases h : parentObj c t id with
        | none => rw [h] at h0; simp at h0
        | some b => simp [writes, h]
      simp [h0, hw]
    · have h0n : (parentObj c t id).isNone = true := by
        cases h : parentObj c t id with
        | none => rfl
        | some b => rw [h] at h0; simp at h0
      by_cases h1 : hasDir dirs (ctmp t id) = true
      · simp [h0, h1, writes]
      · by_cases h1' : hasLink c (ctmp t id) = true
        · simp only [h0, h1, h1', Bool.false_eq_true, if_false, if_true, writes, Bool.not_true, Bool.and_false,
            Bool.false_and, and_false]
          rw [hasLink_unlink_ne c hnt]
          rfl
        · by_cases h2 : hasDir dirs (cpath t id) = true
          · simp only [h0, h1, h1', h2, Bool.false_eq_true, if_false, if_true, writes, Bool.not_true, Bool.and_false,
              and_false]
            unfold hasLink
            simp only
            rw [fget_fput_ne _ d hnt]
          · simp only [h0, h0n, h1, h1', h2, Bool.false_eq_true, if_false, writes, Bool.not_false, Bool.and_self, and_true]
            by_cases e : t' = t ∧ id' = id
            · obtain ⟨e1, e2⟩ := e; subst e1; subst e2
              have hk : cpath t' id' ∉ (unlink c (cpath t' id')).links := by
                intro hm
                have := (hasLink_iff _ _).2 hm
                rw [hasLink_unlink_same] at this; cases this
              simp [h2, hasLink, hk, cWriteFile, fget_fput_same]
            · have hne : cpath t' id' ≠ cpath t id := fun h => e (cpath_inj h)
              have hk := hasLink_unlink_ne c hne
              simp only [hasLink] at hk
              simp only [e, if_false]
              unfold cWriteFile hasLink
              simp only
              rw [hk, fget_fput_ne _ d hne, fget_fdel_ne _ hnt, fget_fput_ne _ d hnt]

theorem cHit_cRemove (dirs : List Path) (c : CD) (t t' : FileType) (id id' : Name) :
    cHit dirs (cRemove dirs c t id) t' id' = if t' = t ∧ id' = id then none else cHit dirs c t' id' := by
  rw [cHit_unfold, cHit_unfold dirs c, parentObj_cRemove]
  by_cases hp' : (parentObj c t' id').isSome = true
  · simp [hp']
  · simp only [hp', Bool.false_eq_true, if_false]
    unfold cRemove
    by_cases e : t' = t ∧ id' = id
    · obtain ⟨e1, e2⟩ := e; subst e1; subst e2
      by_cases h : hasDir dirs (cpath t' id') = true
      · simp [h]
      · have hk : cpath t' id' ∉ (unlink c (cpath t' id')).links := by
          intro hm
          have := (hasLink_iff _ _).2 hm
          rw [hasLink_unlink_same] at this; cases this
        simp [hp', h, hasLink, hk, fget_fdel_same]
    · have hne : cpath t' id' ≠ cpath t id := fun h => e (cpath_inj h)
      by_cases h : ((parentObj c t id).isSome || hasDir dirs (cpath t id)) = true
      · simp [h, e]
      · have hk := hasLink_unlink_ne c hne
        simp only [hasLink] at hk
        simp only [h, Bool.false_eq_true, if_false, e]
        unfold hasLink
        simp only
        rw [hk, fget_fdel_ne _ hne]

/-- `Cache::remove` only deletes. -/
theorem cHit_cRemove_some {dirs : List Path} {c : CD} {t t' : FileType} {id id' : Name} {d : Bytes}
    (h : cHit dirs (cRemove dirs c t id) t' id' = some d) : cHit dirs c t' id' = some d := by
  rw [cHit_cRemove] at h
  by_cases e : t' = t ∧ id' = id
  · simp [e] at h
  · simpa [e] using h

theorem cHit_removeAll_some {dirs : List Path} {c : CD} {t t' : FileType} {id' : Name} {d : Bytes} (es : List (Name × Nat))
    (h : cHit dirs (removeAll dirs c t es) t' id' = some d) : cHit dirs c t' id' = some d := by
  induction es generalizing c with
  | nil => exact h
  | cons e rest ih => exact cHit_cRemove_some (ih (c := cRemove dirs c t e.1) h)

theorem cHit_removeAll_none_of_none {dirs : List Path} {c : CD} {t t' : FileType} {id' : Name} (es : List (Name × Nat))
    (h : cHit dirs c t' id' = none) : cHit dirs (removeAll dirs c t es) t' id' = none := by
  cases h' : cHit dirs (removeAll dirs c t es) t' id' with
  | none => rfl
  | some d => rw [cHit_removeAll_some es h'] at h; cases h

theorem removeAll_removes {dirs : List Path} {c : CD} {t : FileType} {es : List (Name × Nat)} {e : Name × Nat} (he : e ∈ es) :
    cHit dirs (removeAll dirs c t es) t e.1 = none := by
  induction es generalizing c with
  | nil => cases he
  | cons x rest ih =>
    rcases List.mem_cons.1 he with h | h
    · subst h
      show cHit dirs (removeAll dirs (cRemove dirs c t e.1) t rest) t e.1 = none
      apply cHit_removeAll_none_of_none
      rw [cHit_cRemove]; simp
    · exact ih h

/-! ### links only disappear -/

theorem cWrite_links {dirs : List Path} {c : CD} {t : FileType} {id : Name} {d : Bytes} {p : Path}
    (h : hasLink (cWrite dirs c t id d) p = true) : hasLink c p = true := by
  unfold cWrite at h
  split at h
  · exact h
  · split at h
    · exact h
    · split at h
      · exact hasLink_unlink_of h
      · split at h
        · exact h
        · exact hasLink_unlink_of (c := c) (p := cpath t id) h

theorem cRemove_links {dirs : List Path} {c : CD} {t : FileType} {id : Name} {p : Path}
    (h : hasLink (cRemove dirs c t id) p = true) : hasLink c p = true := by
  unfold cRemove at h
  split at h
  · exact h
  · exact hasLink_unlink_of (c := c) (p := cpath t id) h

theorem removeAll_links {dirs : List Path} {c : CD} {t : FileType} (es : List (Name × Nat)) {p : Path}
    (h : hasLink (removeAll dirs c t es) p = true) : hasLink c p = true := by
  induction es generalizing c with
  | nil => exact h
  | cons e rest ih => exact cRemove_links (ih (c := cRemove dirs c t e.1) h)

/-! ### the cache listing -/

theorem cEntry_cpath {L : Nat} {dirs : List Path} {c : CD} (t : FileType) {id : Name} (hn : isCacheName L id = true) (d : Bytes)
    (hp : parentObj c t id = none) (hd : hasDir dirs (cpath t id) = false) (hk : hasLink c (cpath t id) = false) :
    cEntry L dirs c t (cpath t id, d) = some (id, d.length) := by
  have hd' : hasDir dirs [t.dirname, List.take 2 id, id] = false := hd
  have hk' : hasLink c [t.dirname, List.take 2 id, id] = false := hk
  simp [cEntry, cpath, hn, hd', hk', hp]

/-- a directory is never a cache entry (`is_file`) -/
theorem cEntry_dir {L : Nat} {dirs : List Path} {c : CD} (t : FileType) {p : Path} (d : Bytes) (hd : hasDir dirs p = true) :
    cEntry L dirs c t (p, d) = none := by
  unfold cEntry
  split
  · simp [hd]
  · rfl

theorem mem_cList {L : Nat} {dirs : List Path} {c : CD} {t : FileType} {id : Name} {d : Bytes}
    (hn : isCacheName L id = true) (h : cHit dirs c t id = some d) : (id, d.length) ∈ cList L dirs c t := by
  obtain ⟨hp, hd, hk, hf⟩ := cHit_some h
  unfold cList
  rw [List.mem_filterMap]
  exact ⟨(cpath t id, d), mem_of_fget hf, cEntry_cpath t hn d hp hd hk⟩

/-- What survives a clean-up has the size the listing reports for that id. -/
theorem removeNotInList_survivor {L : Nat} {dirs : List Path} {c : CD} {t : FileType} {list : List (Name × Nat)} {id : Name}
    {d : Bytes} (hn : isCacheName L id = true) (h : cHit dirs (removeNotInList L dirs c t list) t id = some d) :
    sizeOf? list id = some d.length := by
  unfold removeNotInList at h
  have h0 := cHit_removeAll_some _ h
  have hm := mem_cList hn h0
  by_cases hk : keepEntry list (id, d.length) = true
  · simpa [keepEntry] using hk
  · have : (id, d.length) ∈ (cList L dirs c t).filter (fun e => !keepEntry list e) := by
      rw [List.mem_filter]; exact ⟨hm, by simp [hk]⟩
    have := removeAll_removes (dirs := dirs) (c := c) (t := t) this
    simp only at this
    rw [this] at h; cases h

/-- The clean-up only deletes. -/
theorem removeNotInList_sub {L : Nat} {dirs : List Path} {c : CD} {t t' : FileType} {list : List (Name × Nat)} {id : Name}
    {d : Bytes} (h : cHit dirs (removeNotInList L dirs c t list) t' id = some d) : cHit dirs c t' id = some d :=
  cHit_removeAll_some _ h

theorem removeNotInList_links {L : Nat} {dirs : List Path} {c : CD} {t : FileType} {list : List (Name × Nat)} {p : Path}
    (h : hasLink (removeNotInList L dirs c t list) p = true) : hasLink c p = true :=
  removeAll_links _ h

theorem isCacheName_length {L : Nat} {id : Name} (h : isCacheName L id = true) : id.length = L := by
  simp [isCacheName] at h; exact h.1

end Rustic.Cache
