/- Helper lemmas for C19 (`Model/Cache.lean`). -/
import Rustic.Model.Cache
import Rustic.Lemmas.Backends
namespace Rustic.Cache
open Rustic.Backends

theorem dirname_inj {t t' : FileType} (h : t.dirname = t'.dirname) : t = t' := by
  cases t <;> cases t' <;> simp [FileType.dirname, nIndex, nKeys, nSnapshots, nData, nConfig] at h ⊢

theorem cpath_inj {t t' : FileType} {id id' : Name} (h : cpath t id = cpath t' id') : t = t' ∧ id = id' := by
  simp [cpath] at h
  exact ⟨dirname_inj h.1, h.2.2⟩

theorem cpath_ne_ctmp {t t' : FileType} {id id' : Name} (hl : id.length = id'.length) : cpath t id ≠ ctmp t' id' := by
  intro e
  simp [cpath, ctmp] at e
  exact ne_append_tmpSuffix hl e.2.2

theorem fget_fdel_some {c : FS} {p q : Path} {d : Bytes} (h : fget (fdel c p) q = some d) : fget c q = some d := by
  by_cases e : q = p
  · subst e; rw [fget_fdel_same] at h; cases h
  · rwa [fget_fdel_ne c e] at h

theorem fget_fdel_none {c : FS} {q : Path} (p : Path) (h : fget c q = none) : fget (fdel c p) q = none := by
  by_cases e : q = p
  · subst e; exact fget_fdel_same c q
  · rwa [fget_fdel_ne c e]

theorem cReadFull_cWrite {L : Nat} (c : FS) {t t' : FileType} {id id' : Name} (hl : id.length = L) (hl' : id'.length = L)
    (d : Bytes) :
    cReadFull (cWrite c t id d) t' id' = if t' = t ∧ id' = id then some d else cReadFull c t' id' := by
  unfold cReadFull cWrite
  by_cases e : t' = t ∧ id' = id
  · obtain ⟨e1, e2⟩ := e; subst e1; subst e2; simp [fget_fput_same]
  · have hne : cpath t' id' ≠ cpath t id := fun h => e (cpath_inj h)
    have hnt : cpath t' id' ≠ ctmp t id := cpath_ne_ctmp (by rw [hl, hl'])
    rw [fget_fput_ne _ d hne, fget_fdel_ne _ hnt, fget_fput_ne _ d hnt]
    simp [e]

theorem cReadFull_cRemove (c : FS) (t t' : FileType) (id id' : Name) :
    cReadFull (cRemove c t id) t' id' = if t' = t ∧ id' = id then none else cReadFull c t' id' := by
  unfold cReadFull cRemove
  by_cases e : t' = t ∧ id' = id
  · obtain ⟨e1, e2⟩ := e; subst e1; subst e2; simp [fget_fdel_same]
  · have hne : cpath t' id' ≠ cpath t id := fun h => e (cpath_inj h)
    rw [fget_fdel_ne _ hne]; simp [e]

theorem cReadFull_removeAll_some {c : FS} {t t' : FileType} {id' : Name} {d : Bytes} (es : List (Name × Nat))
    (h : cReadFull (removeAll c t es) t' id' = some d) : cReadFull c t' id' = some d := by
  induction es generalizing c with
  | nil => exact h
  | cons e rest ih =>
    have := ih (c := cRemove c t e.1) h
    unfold cReadFull cRemove at this
    exact fget_fdel_some this

theorem cReadFull_removeAll_none_of_none {c : FS} {t t' : FileType} {id' : Name} (es : List (Name × Nat))
    (h : cReadFull c t' id' = none) : cReadFull (removeAll c t es) t' id' = none := by
  induction es generalizing c with
  | nil => exact h
  | cons e rest ih =>
    apply ih
    unfold cReadFull at h ⊢
    unfold cRemove
    exact fget_fdel_none _ h

theorem removeAll_removes {c : FS} {t : FileType} {es : List (Name × Nat)} {e : Name × Nat} (he : e ∈ es) :
    cReadFull (removeAll c t es) t e.1 = none := by
  induction es generalizing c with
  | nil => cases he
  | cons x rest ih =>
    rcases List.mem_cons.1 he with h | h
    · subst h
      show cReadFull (removeAll (cRemove c t e.1) t rest) t e.1 = none
      apply cReadFull_removeAll_none_of_none
      unfold cReadFull cRemove
      exact fget_fdel_same _ _
    · exact ih h

theorem cEntry_cpath {L : Nat} (t : FileType) {id : Name} (hn : isCacheName L id = true) (d : Bytes) :
    cEntry L t (cpath t id, d) = some (id, d.length) := by
  simp [cEntry, cpath, hn]

theorem mem_cList {L : Nat} {c : FS} {t : FileType} {id : Name} {d : Bytes} (hn : isCacheName L id = true)
    (h : cReadFull c t id = some d) : (id, d.length) ∈ cList L c t := by
  unfold cList
  rw [List.mem_filterMap]
  exact ⟨(cpath t id, d), mem_of_fget h, cEntry_cpath t hn d⟩

/-- What survives a clean-up has the size the listing reports for that id. -/
theorem removeNotInList_survivor {L : Nat} {c : FS} {t : FileType} {list : List (Name × Nat)} {id : Name} {d : Bytes}
    (hn : isCacheName L id = true) (h : cReadFull (removeNotInList L c t list) t id = some d) :
    sizeOf? list id = some d.length := by
  unfold removeNotInList at h
  have h0 := cReadFull_removeAll_some _ h
  have hm := mem_cList hn h0
  by_cases hk : keepEntry list (id, d.length) = true
  · simpa [keepEntry] using hk
  · have : (id, d.length) ∈ (cList L c t).filter (fun e => !keepEntry list e) := by
      rw [List.mem_filter]; exact ⟨hm, by simp [hk]⟩
    have := removeAll_removes (c := c) (t := t) this
    simp only at this
    rw [this] at h; cases h

/-- The clean-up only deletes. -/
theorem removeNotInList_sub {L : Nat} {c : FS} {t t' : FileType} {list : List (Name × Nat)} {id : Name} {d : Bytes}
    (h : cReadFull (removeNotInList L c t list) t' id = some d) : cReadFull c t' id = some d :=
  cReadFull_removeAll_some _ h

theorem isCacheName_length {L : Nat} {id : Name} (h : isCacheName L id = true) : id.length = L := by
  simp [isCacheName] at h; exact h.1

end Rustic.Cache
