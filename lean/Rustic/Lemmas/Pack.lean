/-
Lemmas for C08 (model `Rustic/Model/Pack.lean`): little/big-endian field codecs, header entry decode∘encode,
header round trip, size formulas, the `BasicPacker` invariant, building a pack and re-reading its header
with `from_file` for every size hint.
-/
import Rustic.Model.Pack
namespace Rustic.Pack

theorem le32_length (n : Nat) : (le32 n).length = 4 := rfl

theorem le32Val_le32 (n : Nat) (h : n < 4294967296) (rest : Bytes) : le32Val (le32 n ++ rest) = n := by
  simp only [le32, le32Val, List.cons_append, List.nil_append, UInt8.toNat_ofNat']
  omega

theorem beBytes_length (k n : Nat) : (beBytes k n).length = k := by
  induction k generalizing n with
  | zero => rfl
  | succ k ih => simp [beBytes, ih]

theorem beVal_append_single (xs : Bytes) (b : UInt8) : beVal (xs ++ [b]) = beVal xs * 256 + b.toNat := by
  simp [beVal, List.foldl_append]

theorem beVal_beBytes (k n : Nat) : beVal (beBytes k n) = n % 256 ^ k := by
  induction k generalizing n with
  | zero => simp [beBytes, beVal, Nat.mod_one]
  | succ k ih =>
    rw [beBytes, beVal_append_single, ih, UInt8.toNat_ofNat']
    have h1 : 256 ^ (k + 1) = 256 * 256 ^ k := by rw [Nat.pow_succ, Nat.mul_comm]
    rw [h1, Nat.mod_mul]
    have h2 : (2 : Nat) ^ 8 = 256 := rfl
    rw [h2]
    omega


/-- what the format can represent: `u32` lengths, 32-byte ids, `NonZeroU32` uncompressed lengths -/
structure WFBlob (b : IndexBlob) : Prop where
  len : b.loc.length < 4294967296
  id : b.id < 256 ^ 32
  ulen : ∀ u, b.loc.ulen = some u → 0 < u ∧ u < 4294967296

theorem take_beBytes (id : Nat) (rest : Bytes) : (beBytes ID_LEN id ++ rest).take ID_LEN = beBytes ID_LEN id := by
  rw [List.take_left' (beBytes_length _ _)]

theorem drop_beBytes (id : Nat) (rest : Bytes) : (beBytes ID_LEN id ++ rest).drop ID_LEN = rest := by
  rw [List.drop_left' (beBytes_length _ _)]

theorem decode_encode (b : IndexBlob) (h : WFBlob b) (rest : Bytes) :
    decodeEntry (encodeEntry b ++ rest) = .entry b.tpe b.loc.length b.loc.ulen b.id rest := by
  have hid : beVal (beBytes ID_LEN b.id) = b.id := by
    rw [beVal_beBytes]; exact Nat.mod_eq_of_lt h.id
  have hlen : ∀ r : Bytes, le32Val (le32 b.loc.length ++ r) = b.loc.length := le32Val_le32 _ h.len
  cases hu : b.loc.ulen with
  | none =>
    cases ht : b.tpe <;>
    · simp only [encodeEntry, hu, ht, decodeEntry, List.cons_append, List.append_assoc]
      have hl : ¬ shorterThan (le32 b.loc.length ++ (beBytes ID_LEN b.id ++ rest)) (4 + ID_LEN) = true := by
        rw [shorterThan_iff]; simp [le32_length, beBytes_length]
      have hd4 : (le32 b.loc.length ++ (beBytes ID_LEN b.id ++ rest)).drop 4 = beBytes ID_LEN b.id ++ rest :=
        List.drop_left' (le32_length _)
      have hd36 : (le32 b.loc.length ++ (beBytes ID_LEN b.id ++ rest)).drop (4 + ID_LEN) = rest := by
        rw [← List.drop_drop, hd4, drop_beBytes]
      rw [if_neg hl]
      simp [hd4, hd36, hlen, take_beBytes, hid]
  | some u =>
    obtain ⟨hu0, hu1⟩ := h.ulen u hu
    have hul : ∀ r : Bytes, le32Val (le32 u ++ r) = u := le32Val_le32 _ hu1
    have hnz : nonZero u = some u := by simp [nonZero]; omega
    cases ht : b.tpe <;>
    · simp only [encodeEntry, hu, ht, decodeEntry, List.cons_append, List.append_assoc]
      have hl : ¬ shorterThan (le32 b.loc.length ++ (le32 u ++ (beBytes ID_LEN b.id ++ rest))) (8 + ID_LEN) = true := by
        rw [shorterThan_iff]; simp [le32_length, beBytes_length]; omega
      have hd4 : (le32 b.loc.length ++ (le32 u ++ (beBytes ID_LEN b.id ++ rest))).drop 4 =
          le32 u ++ (beBytes ID_LEN b.id ++ rest) := List.drop_left' (le32_length _)
      have hd8 : (le32 b.loc.length ++ (le32 u ++ (beBytes ID_LEN b.id ++ rest))).drop 8 =
          beBytes ID_LEN b.id ++ rest := by
        have : (8 : Nat) = 4 + 4 := rfl
        rw [this, ← List.drop_drop, hd4, List.drop_left' (le32_length _)]
      have hd40 : (le32 b.loc.length ++ (le32 u ++ (beBytes ID_LEN b.id ++ rest))).drop (8 + ID_LEN) = rest := by
        rw [← List.drop_drop, hd8, drop_beBytes]
      rw [if_neg hl]
      simp [hd4, hd8, hd40, hlen, hul, hnz, take_beBytes, hid]

theorem encodeEntry_length (b : IndexBlob) : (encodeEntry b).length = entryLen b := by
  cases hu : b.loc.ulen <;> cases ht : b.tpe <;>
    simp [encodeEntry, entryLen, hu, ht, le32_length, beBytes_length, ID_LEN,
      Rustic.Gen.PACK_ENTRY_LEN, Rustic.Gen.PACK_ENTRY_LEN_COMPRESSED]

theorem entryLen_pos (b : IndexBlob) : 0 < entryLen b := by
  unfold entryLen; split <;> decide


theorem reoffset_length (off : Nat) (bs : List IndexBlob) : (reoffset off bs).length = bs.length := by
  induction bs generalizing off with
  | nil => rfl
  | cons b bs ih => simp [reoffset, ih]

theorem toBinary_cons (b : IndexBlob) (bs : List IndexBlob) : toBinary (b :: bs) = encodeEntry b ++ toBinary bs := by
  simp [toBinary]

theorem fromBinaryAux_toBinary (bs : List IndexBlob) (h : ∀ b ∈ bs, WFBlob b) (fuel off : Nat)
    (hf : bs.length < fuel) : fromBinaryAux fuel (toBinary bs) off = some (reoffset off bs) := by
  induction bs generalizing fuel off with
  | nil =>
    cases fuel with
    | zero => omega
    | succ f => simp [toBinary, fromBinaryAux, decodeEntry, reoffset]
  | cons b bs ih =>
    cases fuel with
    | zero => simp at hf
    | succ f =>
      rw [toBinary_cons, fromBinaryAux, decode_encode b (h b (List.mem_cons_self ..))]
      simp only
      rw [ih (fun b' hb' => h b' (List.mem_cons_of_mem _ hb')) f _ (by simpa using hf)]
      simp [reoffset]

theorem sum_entryLen_le (bs : List IndexBlob) : bs.length ≤ (toBinary bs).length := by
  induction bs with
  | nil => simp [toBinary]
  | cons b bs ih =>
    rw [toBinary_cons, List.length_append, encodeEntry_length]
    have := entryLen_pos b
    simp only [List.length_cons]; omega

/-- header round trip: parsing the written header returns the entries with offsets recomputed cumulatively -/
theorem fromBinary_toBinary (bs : List IndexBlob) (h : ∀ b ∈ bs, WFBlob b) :
    fromBinary (toBinary bs) = some (reoffset 0 bs) :=
  fromBinaryAux_toBinary bs h _ 0 (by have := sum_entryLen_le bs; omega)

theorem toBinary_length (bs : List IndexBlob) : (toBinary bs).length = (bs.map entryLen).sum := by
  induction bs with
  | nil => simp [toBinary]
  | cons b bs ih => rw [toBinary_cons, List.length_append, encodeEntry_length, ih]; simp

theorem foldl_add_sum {α : Type} (f : α → Nat) (l : List α) (a : Nat) :
    l.foldl (fun acc x => acc + f x) a = a + (l.map f).sum := by
  induction l generalizing a with
  | nil => simp
  | cons x xs ih => simp [List.foldl_cons, ih, Nat.add_assoc]

theorem headerSize_eq (bs : List IndexBlob) :
    headerSize bs = Rustic.Gen.PACK_COMP_OVERHEAD + (bs.map entryLen).sum := foldl_add_sum _ _ _

theorem packSize_eq (bs : List IndexBlob) :
    packSize bs = Rustic.Gen.PACK_COMP_OVERHEAD + Rustic.Gen.PACK_LENGTH_LEN +
      ((bs.map (·.loc.length)).sum + (bs.map entryLen).sum) := by
  unfold packSize
  have : (fun acc (b : IndexBlob) => acc + b.loc.length + entryLen b) =
      (fun acc b => acc + (b.loc.length + entryLen b)) := by funext a b; omega
  rw [this, foldl_add_sum]
  congr 1
  induction bs with
  | nil => rfl
  | cons b bs ih => simp only [List.map_cons, List.sum_cons, ih]; omega


/-! ### packer invariant -/

def lens (bs : List IndexBlob) : List Nat := bs.map (·.loc.length)

theorem reoffset_append (off : Nat) (bs : List IndexBlob) (b : IndexBlob) :
    reoffset off (bs ++ [b]) = reoffset off bs ++ [{ b with loc := { b.loc with offset := off + (lens bs).sum } }] := by
  induction bs generalizing off with
  | nil => simp [reoffset, lens]
  | cons x xs ih => simp [reoffset, ih, lens, Nat.add_assoc]

/-- What every reachable `BasicPacker` state satisfies. -/
structure Packer.Inv (p : Packer) : Prop where
  /-- offsets are cumulative: each blob starts where the previous one ended, the first at 0 -/
  offsets : reoffset 0 p.blobs = p.blobs
  /-- `size` is the sum of the blob lengths -/
  size : p.size = (lens p.blobs).sum
  /-- the file holds exactly one chunk per blob, of the recorded length -/
  chunks : p.file.map List.length = lens p.blobs
  count : p.count = p.blobs.length
  types : ∀ b ∈ p.blobs, b.tpe = p.blobType
  /-- no id twice in one pack -/
  nodup : (p.blobs.map (·.id)).Nodup

theorem Packer.new_inv (t : BlobType) : (Packer.new t).Inv :=
  ⟨rfl, rfl, rfl, rfl, by simp [Packer.new], by simp [Packer.new]⟩

theorem Packer.has_iff (p : Packer) (id : Nat) : p.has id = true ↔ id ∈ p.blobs.map (·.id) := by
  simp only [Packer.has, List.any_eq_true, List.mem_map, beq_iff_eq]

theorem Packer.addRaw_inv (p : Packer) (h : p.Inv) (data : Bytes) (id : Nat) (ulen : Option Nat) :
    (p.addRaw data id ulen).Inv := by
  unfold Packer.addRaw
  split
  · exact h
  · rename_i hhas
    have hnot : id ∉ p.blobs.map (·.id) := by rw [← Packer.has_iff]; simpa using hhas
    refine ⟨?_, ?_, ?_, ?_, ?_, ?_⟩
    · simp only [Packer.writeData]
      rw [reoffset_append, h.offsets, h.size]
      simp
    · simp [Packer.writeData, lens, h.size]
    · simp [Packer.writeData, lens]; exact h.chunks
    · simp [Packer.writeData, h.count]
    · intro b hb
      simp only [Packer.writeData, List.mem_append, List.mem_singleton] at hb
      rcases hb with hb | rfl
      · exact h.types b hb
      · rfl
    · simp only [Packer.writeData, List.map_append, List.map_cons, List.map_nil]
      rw [List.nodup_append]
      refine ⟨h.nodup, by simp, ?_⟩
      intro a ha b hb
      simp at hb; subst hb
      intro hab; subst hab; exact hnot ha

theorem Packer.run_inv (p : Packer) (h : p.Inv) (adds : List (Bytes × Nat × Option Nat)) : (p.run adds).Inv := by
  induction adds generalizing p with
  | nil => exact h
  | cons a as ih => exact ih _ (Packer.addRaw_inv p h _ _ _)

theorem flatten_length_eq_sum (l : List Bytes) : l.flatten.length = (l.map List.length).sum := by
  induction l with
  | nil => rfl
  | cons x xs ih => simp [ih]


/-! ### building and re-reading a pack -/

/-- The only two facts about `encrypt_data`/`decrypt_data` the pack layer uses. -/
structure AE (enc : Bytes → Bytes) (dec : Bytes → Option Bytes) : Prop where
  len : ∀ x, (enc x).length = x.length + Rustic.Gen.PACK_COMP_OVERHEAD
  inv : ∀ x, dec (enc x) = some x

theorem finish_file (enc : Bytes → Bytes) (p : Packer) :
    (p.finish enc).1 = p.file.flatten ++ (enc p.headerBytes ++ le32 (enc p.headerBytes).length) := by
  simp [Packer.finish, Packer.writeHeader, Packer.writeData]

theorem finish_blobs (enc : Bytes → Bytes) (p : Packer) : (p.finish enc).2 = p.blobs := rfl

theorem file_length (p : Packer) (h : p.Inv) : p.file.flatten.length = (lens p.blobs).sum := by
  rw [flatten_length_eq_sum, h.chunks]

theorem finish_length (enc : Bytes → Bytes) (hlen : ∀ x, (enc x).length = x.length + Rustic.Gen.PACK_COMP_OVERHEAD)
    (p : Packer) (h : p.Inv) : (p.finish enc).1.length = packSize p.blobs := by
  rw [finish_file, packSize_eq]
  simp only [List.length_append, file_length p h, hlen, Packer.headerBytes, toBinary_length, le32_length, lens]
  simp only [Rustic.Gen.PACK_LENGTH_LEN]
  omega

theorem le32Val_le32' (n : Nat) (h : n < 4294967296) : le32Val (le32 n) = n := by
  have := le32Val_le32 n h []
  simpa using this

theorem drop_take_tail {α : Type} (A B : List α) : ((A ++ B).drop A.length).take B.length = B := by
  rw [List.drop_left]; simp

/-- `parse(build) = blobs`, for every size hint and the true pack size -/
theorem fromFile_finish (enc : Bytes → Bytes) (dec : Bytes → Option Bytes) (ae : AE enc dec) (p : Packer)
    (h : p.Inv) (hwf : ∀ b ∈ p.blobs, WFBlob b) (hfit : packSize p.blobs < 4294967296) (hint : Option Nat) :
    fromFile dec (p.finish enc).1 hint (packSize p.blobs) = .ok p.blobs := by
  have hN := finish_length enc ae.len p h
  rw [finish_file] at hN ⊢
  generalize hD : p.file.flatten = D at hN ⊢
  generalize hE : enc p.headerBytes = E at hN ⊢
  have hEl : E.length = (toBinary p.blobs).length + Rustic.Gen.PACK_COMP_OVERHEAD := by
    rw [← hE, ae.len]; rfl
  have hLl : (le32 E.length).length = 4 := rfl
  simp only [List.length_append, hLl] at hN
  have hE32 : E.length < 4294967296 := by omega
  have c4 : Rustic.Gen.PACK_LENGTH_LEN = 4 := rfl
  unfold fromFile
  rw [if_neg (by rw [c4]; omega)]
  simp only [c4]
  generalize hg : min (hint.getD 0) (packSize p.blobs - 4) = g
  have hgle : g ≤ packSize p.blobs - 4 := by rw [← hg]; exact Nat.min_le_right _ _
  have hfl : (D ++ (E ++ le32 E.length)).length = packSize p.blobs := by simp [List.length_append, hLl]; omega
  -- the first read: the last g + 4 bytes
  have hrp : readPartial (D ++ (E ++ le32 E.length)) (packSize p.blobs - (g + 4)) (g + 4) =
      some ((D ++ (E ++ le32 E.length)).drop (packSize p.blobs - (g + 4))) := by
    unfold readPartial
    rw [if_pos (by rw [hfl]; omega)]
    congr 1
    apply List.take_of_length_le
    rw [List.length_drop, hfl]; omega
  rw [hrp]
  simp only
  -- the length field
  have hdropL : ((D ++ (E ++ le32 E.length)).drop (packSize p.blobs - (g + 4))).drop g = le32 E.length := by
    rw [List.drop_drop]
    have : packSize p.blobs - (g + 4) + g = (D ++ E).length := by simp [List.length_append]; omega
    rw [this, ← List.append_assoc, List.drop_left]
  rw [hdropL, le32Val_le32' _ hE32]
  rw [if_neg (by omega)]
  -- the header bytes, either from the first read or from a second one
  have hhdr : (if E.length ≤ g then
        some ((((D ++ (E ++ le32 E.length)).drop (packSize p.blobs - (g + 4))).take g).drop (g - E.length))
      else readPartial (D ++ (E ++ le32 E.length)) (packSize p.blobs - E.length - 4) E.length) = some E := by
    have hDE : (D ++ (E ++ le32 E.length)).drop D.length = E ++ le32 E.length := List.drop_left
    split
    · rename_i hle
      congr 1
      rw [List.drop_take, List.drop_drop]
      have e1 : packSize p.blobs - (g + 4) + (g - E.length) = D.length := by omega
      have e2 : g - (g - E.length) = E.length := by omega
      rw [e1, e2, hDE, List.take_left]
    · unfold readPartial
      have e1 : packSize p.blobs - E.length - 4 = D.length := by omega
      rw [e1, if_pos (by rw [hfl]; omega), hDE, List.take_left]
  rw [hhdr]
  simp only
  rw [← hE, ae.inv]
  simp only [Packer.headerBytes]
  rw [fromBinary_toBinary _ hwf, h.offsets]
  simp only
  have hs : headerSize p.blobs = (enc (toBinary p.blobs)).length := by
    rw [headerSize_eq, ae.len, toBinary_length]; omega
  have hne1 : ¬ (headerSize p.blobs ≠ (enc (toBinary p.blobs)).length) := fun hne => hne hs
  simp only [hne1, if_false, ne_eq, not_true_eq_false]

/-- `from_file` on ANY file that ends in the encrypted header of `bs` followed by its length field — whatever bytes `D` come
before it — read with the file's own length `N` as pack size: the header is found for every size hint, and the verdict is the
size comparison alone.  (`D` = the blob area of the pack the header belongs to: `fromFile_finish`; `D` = prefix ++ blob area:
the pack extended at its front.) -/
theorem fromFile_layout (enc : Bytes → Bytes) (dec : Bytes → Option Bytes) (ae : AE enc dec) (bs : List IndexBlob)
    (hwf : ∀ b ∈ bs, WFBlob b) (hoff : reoffset 0 bs = bs) (D : Bytes) (N : Nat)
    (hN : N = D.length + (enc (toBinary bs)).length + 4) (hfit : N < 4294967296) (hint : Option Nat) :
    fromFile dec (D ++ (enc (toBinary bs) ++ le32 (enc (toBinary bs)).length)) hint N
      = if packSize bs ≠ N then .error .packSize else .ok bs := by
  generalize hE : enc (toBinary bs) = E at hN ⊢
  have hEl : E.length = (toBinary bs).length + Rustic.Gen.PACK_COMP_OVERHEAD := by
    rw [← hE, ae.len]
  have hLl : (le32 E.length).length = 4 := rfl
  have hE32 : E.length < 4294967296 := by omega
  have c4 : Rustic.Gen.PACK_LENGTH_LEN = 4 := rfl
  unfold fromFile
  rw [if_neg (by rw [c4]; omega)]
  simp only [c4]
  generalize hg : min (hint.getD 0) (N - 4) = g
  have hgle : g ≤ N - 4 := by rw [← hg]; exact Nat.min_le_right _ _
  have hfl : (D ++ (E ++ le32 E.length)).length = N := by simp [List.length_append, hLl]; omega
  have hrp : readPartial (D ++ (E ++ le32 E.length)) (N - (g + 4)) (g + 4) =
      some ((D ++ (E ++ le32 E.length)).drop (N - (g + 4))) := by
    unfold readPartial
    rw [if_pos (by rw [hfl]; omega)]
    congr 1
    apply List.take_of_length_le
    rw [List.length_drop, hfl]; omega
  rw [hrp]
  simp only
  have hdropL : ((D ++ (E ++ le32 E.length)).drop (N - (g + 4))).drop g = le32 E.length := by
    rw [List.drop_drop]
    have : N - (g + 4) + g = (D ++ E).length := by simp [List.length_append]; omega
    rw [this, ← List.append_assoc, List.drop_left]
  rw [hdropL, le32Val_le32' _ hE32]
  rw [if_neg (by omega)]
  have hhdr : (if E.length ≤ g then
        some ((((D ++ (E ++ le32 E.length)).drop (N - (g + 4))).take g).drop (g - E.length))
      else readPartial (D ++ (E ++ le32 E.length)) (N - E.length - 4) E.length) = some E := by
    have hDE : (D ++ (E ++ le32 E.length)).drop D.length = E ++ le32 E.length := List.drop_left
    split
    · rename_i hle
      congr 1
      rw [List.drop_take, List.drop_drop]
      have e1 : N - (g + 4) + (g - E.length) = D.length := by omega
      have e2 : g - (g - E.length) = E.length := by omega
      rw [e1, e2, hDE, List.take_left]
    · unfold readPartial
      have e1 : N - E.length - 4 = D.length := by omega
      rw [e1, if_pos (by rw [hfl]; omega), hDE, List.take_left]
  rw [hhdr]
  simp only
  rw [← hE, ae.inv]
  simp only
  rw [fromBinary_toBinary _ hwf, hoff]
  simp only
  have hs : headerSize bs = (enc (toBinary bs)).length := by
    rw [headerSize_eq, ae.len, toBinary_length]; omega
  have hne1 : ¬ (headerSize bs ≠ (enc (toBinary bs)).length) := fun hne => hne hs
  rw [if_neg hne1]

/-- a pack EXTENDED AT ITS FRONT by any non-empty prefix is refused by `from_file` for every size hint, with the pack-size
error: the header (still intact at the end) describes a file that is shorter than the one it is read from -/
theorem fromFile_front_extended (enc : Bytes → Bytes) (dec : Bytes → Option Bytes) (ae : AE enc dec) (p : Packer)
    (h : p.Inv) (hwf : ∀ b ∈ p.blobs, WFBlob b) (pre : Bytes) (hpre : pre ≠ [])
    (hfit : pre.length + packSize p.blobs < 4294967296) (hint : Option Nat) :
    fromFile dec (pre ++ (p.finish enc).1) hint (pre.length + packSize p.blobs) = .error .packSize := by
  have hlen := finish_length enc ae.len p h
  rw [finish_file] at hlen ⊢
  have hpos : 0 < pre.length := List.length_pos_iff.mpr hpre
  have hN : pre.length + packSize p.blobs = (pre ++ p.file.flatten).length + (enc (toBinary p.blobs)).length + 4 := by
    simp only [List.length_append, Packer.headerBytes, le32_length] at hlen ⊢
    omega
  have := fromFile_layout enc dec ae p.blobs hwf h.offsets (pre ++ p.file.flatten) (pre.length + packSize p.blobs) hN hfit hint
  simp only [Packer.headerBytes, List.append_assoc] at this ⊢
  rw [this, if_pos (by omega)]

theorem find_by_fst {α : Type} (l : List (Nat × α)) (hn : (l.map (·.1)).Nodup) (q : Nat × α) (hq : q ∈ l) :
    l.find? (fun x => x.1 == q.1) = some q := by
  induction l with
  | nil => cases hq
  | cons x xs ih =>
    rw [List.map_cons, List.nodup_cons] at hn
    rcases List.mem_cons.mp hq with rfl | hq'
    · simp
    · have hne : (x.1 == q.1) = false := by
        rw [beq_eq_false_iff_ne]
        intro h
        exact hn.1 (h ▸ List.mem_map.mpr ⟨q, hq', rfl⟩)
      rw [List.find?_cons, hne]
      exact ih hn.2 hq'


theorem chunk_slice (cs : List Bytes) (i : Nat) (c : Bytes) (h : cs[i]? = some c) :
    (cs.flatten.drop (((cs.take i).map List.length).sum)).take c.length = c := by
  induction cs generalizing i with
  | nil => simp at h
  | cons x xs ih =>
    cases i with
    | zero =>
      simp only [List.getElem?_cons_zero, Option.some.injEq] at h
      subst h
      simp
    | succ i =>
      simp only [List.getElem?_cons_succ] at h
      simp only [List.take_succ_cons, List.map_cons, List.sum_cons, List.flatten_cons]
      rw [List.drop_append]
      have : x.length + ((xs.take i).map List.length).sum - x.length = ((xs.take i).map List.length).sum := by omega
      rw [List.drop_eq_nil_of_le (by omega), List.nil_append, this]
      exact ih i h

theorem reoffset_getElem? (off : Nat) (bs : List IndexBlob) (i : Nat) :
    (reoffset off bs)[i]? = bs[i]?.map (fun b => { b with loc := { b.loc with offset := off + ((lens bs).take i).sum } }) := by
  induction bs generalizing off i with
  | nil => simp [reoffset]
  | cons b bs ih =>
    cases i with
    | zero => simp [reoffset, lens]
    | succ i =>
      simp only [reoffset, List.getElem?_cons_succ, ih, lens, List.map_cons, List.take_succ_cons, List.sum_cons]
      cases bs[i]? <;> simp [Nat.add_assoc]

/-- the byte range the index records for the `i`-th blob holds exactly the `i`-th chunk written -/
theorem Packer.Inv.blob_bytes {p : Packer} (h : p.Inv) (i : Nat) (b : IndexBlob) (c : Bytes)
    (hb : p.blobs[i]? = some b) (hc : p.file[i]? = some c) :
    (p.file.flatten.drop b.loc.offset).take b.loc.length = c := by
  have hoff : b.loc.offset = ((p.file.take i).map List.length).sum := by
    have := reoffset_getElem? 0 p.blobs i
    rw [h.offsets, hb] at this
    simp only [Option.map_some, Option.some.injEq, Nat.zero_add] at this
    have h2 := congrArg (fun x => x.loc.offset) this
    simp only at h2
    rw [h2, ← h.chunks, List.map_take]
  have hlen : b.loc.length = c.length := by
    have h1 : (p.file.map List.length)[i]? = some c.length := by simp [hc]
    rw [h.chunks] at h1
    simp only [lens, List.getElem?_map, hb, Option.map_some, Option.some.injEq] at h1
    exact h1
  rw [hoff, hlen]
  exact chunk_slice p.file i c hc

/-- every chunk in the packer's file is the data of some `add_raw` call -/
theorem Packer.run_file_subset (p : Packer) (adds : List (Bytes × Nat × Option Nat)) :
    ∀ c ∈ (p.run adds).file, c ∈ p.file ∨ ∃ a ∈ adds, c = a.1 := by
  induction adds generalizing p with
  | nil => intro c hc; exact Or.inl hc
  | cons a as ih =>
    intro c hc
    simp only [Packer.run, List.foldl_cons] at hc
    rcases ih (p.addRaw a.1 a.2.1 a.2.2) c hc with h | ⟨b, hb, rfl⟩
    · unfold Packer.addRaw at h
      split at h
      · exact Or.inl h
      · simp only [Packer.writeData, List.mem_append, List.mem_singleton] at h
        rcases h with h | rfl
        · exact Or.inl h
        · exact Or.inr ⟨a, List.mem_cons_self .., rfl⟩
    · exact Or.inr ⟨b, List.mem_cons_of_mem _ hb, rfl⟩

end Rustic.Pack
