/- Helper lemmas for C06: the iterator model refines the declarative chunk specification. -/
import Rustic.Model.Chunker
namespace Rustic.Chunker
variable {σ : Type}

/-! ### `scan` / `cut` arithmetic -/

theorem scan_le_length (r : Roll σ) (p : Params) (len : Nat) (h : σ) (bs : Bytes) :
    scan r p len h bs ≤ bs.length := by
  induction bs generalizing len h with
  | nil => simp [scan]
  | cons b bs ih =>
    simp only [scan]
    split
    · omega
    · split
      · omega
      · have := ih (len + 1) (r.slide h b); simp only [List.length_cons]; omega

theorem scan_le_max (r : Roll σ) (p : Params) (len : Nat) (h : σ) (bs : Bytes) (hl : len ≤ p.max) :
    len + scan r p len h bs ≤ p.max := by
  induction bs generalizing len h with
  | nil => simp [scan]; exact hl
  | cons b bs ih =>
    simp only [scan]
    split
    · omega
    · split
      · omega
      · have := ih (len + 1) (r.slide h b) (by omega); omega

theorem cut_le_length (r : Roll σ) (p : Params) (bs : Bytes) : cut r p bs ≤ bs.length := by
  unfold cut
  split
  · exact Nat.le_refl _
  · rename_i h
    have := scan_le_length r p p.min
      (r.prefill (p.win - 1) ((bs.take p.min).drop ((bs.take p.min).length - p.win))) (bs.drop p.min)
    simp only [List.length_drop] at this
    simp only; omega

theorem cut_ge_min (r : Roll σ) (p : Params) (bs : Bytes) (h : p.min ≤ bs.length) : p.min ≤ cut r p bs := by
  unfold cut
  split
  · omega
  · simp only; omega

theorem cut_le_max (r : Roll σ) (p : Params) (bs : Bytes) (hmm : p.min ≤ p.max) : cut r p bs ≤ p.max := by
  unfold cut
  split
  · omega
  · exact scan_le_max r p p.min _ _ hmm

theorem cut_pos (r : Roll σ) (p : Params) (bs : Bytes) (hne : bs ≠ []) (hmin : 0 < p.min) : 0 < cut r p bs := by
  have hl : 0 < bs.length := List.length_pos_iff.mpr hne
  unfold cut
  split
  · exact hl
  · simp only; omega

/-! ### the hash loop -/

theorem slideLoop_spec (r : Roll σ) (p : Params) (s : Src) (len : Nat) (h : σ) (acc : Bytes)
    (hc : 0 < s.cap) :
    let res := slideLoop r p s len h acc
    let n := scan r p len h s.pending
    res.1 = (s.pending.take n).reverse ++ acc ∧ res.2.1.pending = s.pending.drop n ∧
      0 < res.2.1.cap ∧ (res.2.2 = true → res.2.1.pending = []) := by
  fun_induction slideLoop r p s len h acc with
  | case1 s len h acc hmax =>
    have : scan r p len h s.pending = 0 := by
      cases s.pending with
      | nil => simp [scan]
      | cons b bs => simp [scan, hmax]
    simp [this, hc]
  | case2 s len h acc hmax hcut =>
    have : scan r p len h s.pending = 0 := by
      cases s.pending with
      | nil => simp [scan]
      | cons b bs => simp [scan, hmax, hcut]
    simp [this, hc]
  | case3 s len h acc hmax hcut hnb =>
    have hp := Src.nextByte_none hc hnb
    simp [hp, scan, hc]
  | case4 s len h acc hmax hcut b s' hnb ih =>
    have ⟨hp, hcap⟩ := Src.nextByte_some hnb
    have ih := ih (hcap hc)
    simp only [hp, scan, hmax, hcut, if_false] at ih ⊢
    obtain ⟨h1, h2, h3, h4⟩ := ih
    refine ⟨?_, ?_, h3, h4⟩
    · rw [h1]; simp [Nat.add_comm 1]
    · rw [h2]; simp [Nat.add_comm 1]

/-! ### one `next` call -/

theorem take_append_min (o r : Bytes) (m : Nat) :
    o.take (min o.length m) ++ r.take (m - min o.length m) = (o ++ r).take m := by
  rw [List.take_append]
  rcases Nat.le_total o.length m with h | h
  · rw [Nat.min_eq_left h, List.take_of_length_le (Nat.le_refl _), List.take_of_length_le h]
  · rw [Nat.min_eq_right h]
    have : m - o.length = 0 := by omega
    simp [this]

theorem drop_append_min (o r : Bytes) (m : Nat) :
    o.drop (min o.length m) ++ r.drop (m - min o.length m) = (o ++ r).drop m := by
  rw [List.drop_append]
  rcases Nat.le_total o.length m with h | h
  · rw [Nat.min_eq_left h, List.drop_of_length_le (Nat.le_refl _), List.drop_of_length_le h]
  · rw [Nat.min_eq_right h]
    have : m - o.length = 0 := by omega
    simp [this]

/-- Invariant of the iterator state between calls. -/
def St.Inv (st : St) : Prop := 0 < st.src.cap ∧ (st.finished = true → st.src.pending = [])

theorem firstPhase_spec (p : Params) (s : Src) :
    (firstPhase p s).1 = s.pending.take p.min ∧ (firstPhase p s).2.pending = s.pending.drop p.min ∧
    (firstPhase p s).2.cap = s.cap :=
  ⟨take_append_min _ _ _, drop_append_min _ _ _, rfl⟩

theorem next_finished (r : Roll σ) (p : Params) (st : St) (hf : st.finished = true) :
    next r p st = (none, st) := by
  unfold next; simp [hf]

theorem next_short (r : Roll σ) (p : Params) (st : St) (hf : st.finished = false)
    (hs : st.src.pending.length < p.min) :
    (next r p st).1 = (if st.src.pending = [] then none else some st.src.pending) ∧
    (next r p st).2.finished = true ∧ (next r p st).2.src.pending = [] := by
  obtain ⟨h1, h2, _⟩ := firstPhase_spec p st.src
  have htake : st.src.pending.take p.min = st.src.pending := List.take_of_length_le (by omega)
  have hdrop : st.src.pending.drop p.min = [] := List.drop_of_length_le (by omega)
  rw [htake] at h1
  rw [hdrop] at h2
  have hlt : (firstPhase p st.src).1.length < p.min := by rw [h1]; exact hs
  unfold next
  simp only [hf, Bool.false_eq_true, if_false, hlt, hs, if_true, h1, h2, List.isEmpty_iff, and_self, and_true]

theorem next_long (r : Roll σ) (p : Params) (st : St) (hf : st.finished = false) (hi : st.Inv)
    (hs : p.min ≤ st.src.pending.length) :
    (next r p st).1 = some (st.src.pending.take (cut r p st.src.pending)) ∧
    (next r p st).2.src.pending = st.src.pending.drop (cut r p st.src.pending) ∧
    (next r p st).2.Inv := by
  obtain ⟨h1, h2, h3⟩ := firstPhase_spec p st.src
  have hveclen : (st.src.pending.take p.min).length = p.min := by
    simp only [List.length_take]; omega
  have hnlt : ¬ (firstPhase p st.src).1.length < p.min := by rw [h1, hveclen]; omega
  have hcap' : 0 < (firstPhase p st.src).2.cap := by rw [h3]; exact hi.1
  have hloop := slideLoop_spec r p (firstPhase p st.src).2 (firstPhase p st.src).1.length
    (r.prefill (p.win - 1) ((firstPhase p st.src).1.drop ((firstPhase p st.src).1.length - p.win)))
    [] hcap'
  simp only [List.append_nil] at hloop
  have hcut : cut r p st.src.pending = p.min + scan r p p.min
      (r.prefill (p.win - 1) ((st.src.pending.take p.min).drop ((st.src.pending.take p.min).length - p.win)))
      (st.src.pending.drop p.min) := by
    unfold cut
    simp only [show ¬ st.src.pending.length < p.min from by omega, if_false]
  rw [hveclen] at hcut
  unfold next
  simp only [hf, Bool.false_eq_true, if_false, hnlt]
  generalize firstPhase p st.src = fp at h1 h2 h3 hloop hcap' hnlt ⊢
  obtain ⟨fp1, fp2⟩ := fp
  simp only at h1 h2 h3 hloop ⊢
  subst h1
  rw [h2, hveclen] at hloop
  obtain ⟨l1, l2, l3, l4⟩ := hloop
  rw [hveclen]
  refine ⟨?_, ?_, ?_, ?_⟩
  · rw [l1, List.reverse_reverse, hcut, List.take_add]
  · rw [l2, hcut, List.drop_drop]
  · exact l3
  · exact l4

/-! ### the whole stream -/

theorem chunksSpec_nil (r : Roll σ) (p : Params) : chunksSpec r p [] = [] := by
  rw [chunksSpec]; simp

theorem chunksSpec_cons (r : Roll σ) (p : Params) (bs : Bytes) (hne : bs ≠ []) (hmin : 0 < p.min) :
    chunksSpec r p bs = bs.take (cut r p bs) :: chunksSpec r p (bs.drop (cut r p bs)) := by
  rw [chunksSpec]
  have : ¬ (bs = [] ∨ p.min = 0) := by
    intro h; rcases h with h | h
    · exact hne h
    · omega
  simp only [this, dite_false]

theorem cut_short (r : Roll σ) (p : Params) (bs : Bytes) (h : bs.length < p.min) : cut r p bs = bs.length := by
  unfold cut; simp [h]

theorem run_eq_spec (r : Roll σ) (p : Params) (hmin : 0 < p.min) :
    ∀ (fuel : Nat) (st : St), st.Inv → st.src.pending.length + 1 < fuel →
      run r p fuel st = chunksSpec r p st.src.pending := by
  intro fuel
  induction fuel with
  | zero => intro st _ h; omega
  | succ fuel ih =>
    intro st hi hfuel
    simp only [run]
    cases hf : st.finished with
    | true =>
      have hp := hi.2 hf
      have : next r p st = (none, st) := by unfold next; simp [hf]
      rw [this, hp, chunksSpec_nil]
    | false =>
      rcases Nat.lt_or_ge st.src.pending.length p.min with hs | hs
      · obtain ⟨h1, h2, h3⟩ := next_short r p st hf hs
        by_cases hp : st.src.pending = []
        · rw [if_pos hp] at h1
          have : next r p st = (none, (next r p st).2) := by rw [← h1]
          rw [this, hp, chunksSpec_nil]
        · rw [if_neg hp] at h1
          have : next r p st = (some st.src.pending, (next r p st).2) := by rw [← h1]
          rw [this]
          simp only
          have hfin : run r p fuel (next r p st).2 = [] := by
            cases fuel with
            | zero => rfl
            | succ f =>
              simp only [run]
              rw [next_finished r p _ h2]
          rw [hfin, chunksSpec_cons r p _ hp hmin, cut_short r p _ hs]
          simp [chunksSpec_nil]
      · obtain ⟨h1, h2, h3⟩ := next_long r p st hf hi hs
        have hne : st.src.pending ≠ [] := by
          intro e; rw [e] at hs; simp at hs; omega
        have : next r p st = (some (st.src.pending.take (cut r p st.src.pending)), (next r p st).2) := by
          rw [← h1]
        rw [this]
        simp only
        have hcp := cut_pos r p _ hne hmin
        rw [ih (next r p st).2 h3 (by rw [h2]; simp only [List.length_drop]; omega), h2,
          ← chunksSpec_cons r p _ hne hmin]

/-! ### properties of the specification -/

theorem chunksSpec_flatten (r : Roll σ) (p : Params) (hmin : 0 < p.min) (bs : Bytes) :
    (chunksSpec r p bs).flatten = bs := by
  generalize hn : bs.length = n
  induction n using Nat.strongRecOn generalizing bs with
  | ind n ih =>
    by_cases hne : bs = []
    · subst hne; simp [chunksSpec_nil]
    · rw [chunksSpec_cons r p bs hne hmin, List.flatten_cons]
      have hcp := cut_pos r p bs hne hmin
      have hl : 0 < bs.length := List.length_pos_iff.mpr hne
      rw [ih (bs.drop (cut r p bs)).length (by simp only [List.length_drop]; omega) _ rfl]
      exact List.take_append_drop _ _

/-- Every chunk is non-empty, at most `max` long; every chunk but the last is at least `min` long. -/
theorem chunksSpec_bounds (r : Roll σ) (p : Params) (hmin : 0 < p.min) (hmm : p.min ≤ p.max) (bs : Bytes) :
    (∀ c ∈ chunksSpec r p bs, c ≠ [] ∧ c.length ≤ p.max) ∧
    (∀ i, i + 1 < (chunksSpec r p bs).length → p.min ≤ ((chunksSpec r p bs)[i]?.getD []).length) := by
  generalize hn : bs.length = n
  induction n using Nat.strongRecOn generalizing bs with
  | ind n ih =>
    by_cases hne : bs = []
    · subst hne; simp [chunksSpec_nil]
    · have hcp := cut_pos r p bs hne hmin
      have hl : 0 < bs.length := List.length_pos_iff.mpr hne
      have hcl := cut_le_length r p bs
      have ih' := ih (bs.drop (cut r p bs)).length (by simp only [List.length_drop]; omega) _ rfl
      rw [chunksSpec_cons r p bs hne hmin]
      refine ⟨?_, ?_⟩
      · intro c hc
        rcases List.mem_cons.mp hc with rfl | hc
        · refine ⟨?_, ?_⟩
          · intro e
            have : (bs.take (cut r p bs)).length = 0 := by rw [e]; rfl
            simp only [List.length_take] at this; omega
          · simp only [List.length_take]
            have := cut_le_max r p bs hmm; omega
        · exact ih'.1 c hc
      · intro i hi
        cases i with
        | zero =>
          simp only [List.getElem?_cons_zero, Option.getD_some, List.length_take]
          -- there is a further chunk, so the rest is non-empty, so the stream was at least `min` long
          have hrest : chunksSpec r p (bs.drop (cut r p bs)) ≠ [] := by
            intro e; rw [e] at hi; simp at hi
          have hdne : bs.drop (cut r p bs) ≠ [] := by
            intro e; rw [e, chunksSpec_nil] at hrest; exact hrest rfl
          have hdl : 0 < (bs.drop (cut r p bs)).length := List.length_pos_iff.mpr hdne
          simp only [List.length_drop] at hdl
          have : p.min ≤ bs.length := by
            rcases Nat.lt_or_ge bs.length p.min with h | h
            · rw [cut_short r p bs h] at hdl; omega
            · exact h
          have := cut_ge_min r p bs this
          omega
        | succ i =>
          simp only [List.getElem?_cons_succ]
          apply ih'.2 i
          simp only [List.length_cons] at hi; omega

/-- Locality: after any number of chunks, the remaining chunks are the chunking of the remaining bytes
— the cut points depend only on the bytes since the previous cut. -/
theorem chunksSpec_suffix (r : Roll σ) (p : Params) (hmin : 0 < p.min) (bs : Bytes) (j : Nat) :
    chunksSpec r p bs =
      (chunksSpec r p bs).take j ++ chunksSpec r p (bs.drop ((chunksSpec r p bs).take j).flatten.length) := by
  induction j generalizing bs with
  | zero => simp
  | succ j ih =>
    by_cases hne : bs = []
    · subst hne; simp [chunksSpec_nil]
    · have hc := chunksSpec_cons r p bs hne hmin
      have hcl := cut_le_length r p bs
      rw [hc, List.take_succ_cons, List.flatten_cons, List.length_append, List.cons_append,
        ← List.drop_drop]
      congr 1
      have : (bs.take (cut r p bs)).length = cut r p bs := by simp only [List.length_take]; omega
      rw [this]
      exact ih _

/-! ### prefix stability of a cut -/

theorem scan_append (r : Roll σ) (p : Params) (len : Nat) (h : σ) (bs t : Bytes)
    (hlt : scan r p len h bs < bs.length) : scan r p len h (bs ++ t) = scan r p len h bs := by
  induction bs generalizing len h with
  | nil => simp at hlt
  | cons b bs ih =>
    simp only [List.cons_append, scan] at hlt ⊢
    split
    · rfl
    · split
      · rfl
      · rename_i h1 h2
        simp only [h1, h2, if_false, List.length_cons] at hlt
        rw [ih (len + 1) (r.slide h b) (by omega)]

/-- A chunk that was not ended by the end of the input is unaffected by whatever follows it. -/
theorem cut_append (r : Roll σ) (p : Params) (bs t : Bytes) (hlt : cut r p bs < bs.length) :
    cut r p (bs ++ t) = cut r p bs := by
  have hmin : ¬ bs.length < p.min := by
    intro h; rw [cut_short r p bs h] at hlt; omega
  have hmin' : ¬ (bs ++ t).length < p.min := by simp only [List.length_append]; omega
  unfold cut at hlt ⊢
  simp only [hmin, hmin', if_false] at hlt ⊢
  have htake : (bs ++ t).take p.min = bs.take p.min := by
    rw [List.take_append]
    have : p.min - bs.length = 0 := by omega
    simp [this]
  have hdrop : (bs ++ t).drop p.min = bs.drop p.min ++ t := by
    rw [List.drop_append]
    have : p.min - bs.length = 0 := by omega
    simp [this]
  rw [htake, hdrop, scan_append]
  simp only [List.length_drop]; omega

/-- Appending data changes only the last chunk: all earlier chunks of `a` are chunks of `a ++ t`, and
chunking continues from the start of `a`'s last chunk. -/
theorem chunksSpec_append (r : Roll σ) (p : Params) (hmin : 0 < p.min) (a t : Bytes) :
    chunksSpec r p (a ++ t) =
      (chunksSpec r p a).dropLast ++ chunksSpec r p ((chunksSpec r p a).getLast?.getD [] ++ t) := by
  generalize hn : a.length = n
  induction n using Nat.strongRecOn generalizing a with
  | ind n ih =>
    by_cases hne : a = []
    · subst hne; simp [chunksSpec_nil]
    · have hl : 0 < a.length := List.length_pos_iff.mpr hne
      have hcp := cut_pos r p a hne hmin
      have hcl := cut_le_length r p a
      rw [chunksSpec_cons r p a hne hmin]
      rcases Nat.lt_or_ge (cut r p a) a.length with hlt | hge
      · -- the first chunk is not the last one
        have hdne : a.drop (cut r p a) ≠ [] := by
          intro e
          have : (a.drop (cut r p a)).length = 0 := by rw [e]; rfl
          simp only [List.length_drop] at this; omega
        have hrest : chunksSpec r p (a.drop (cut r p a)) ≠ [] := by
          rw [chunksSpec_cons r p _ hdne hmin]; simp
        have hane : a ++ t ≠ [] := by simp [hne]
        rw [chunksSpec_cons r p (a ++ t) hane hmin, cut_append r p a t hlt, List.dropLast_cons_of_ne_nil hrest,
          List.getLast?_cons_of_ne_nil hrest, List.cons_append]
        have htake : (a ++ t).take (cut r p a) = a.take (cut r p a) := by
          rw [List.take_append]
          have : cut r p a - a.length = 0 := by omega
          simp [this]
        have hdrop : (a ++ t).drop (cut r p a) = a.drop (cut r p a) ++ t := by
          rw [List.drop_append]
          have : cut r p a - a.length = 0 := by omega
          simp [this]
        rw [htake, hdrop, ih (a.drop (cut r p a)).length (by simp only [List.length_drop]; omega) _ rfl]
      · have hc : cut r p a = a.length := by omega
        rw [hc, List.take_length, List.drop_length, chunksSpec_nil]
        simp

/-! ### which positions are cuts -/

/-- The rolling-hash state after the first `L` bytes of a chunk (`min ≤ L`): prefill from the window
slice of the first `min` bytes, then one `slide` per further byte — exactly what the code computes. -/
def fpState (r : Roll σ) (p : Params) (bs : Bytes) (L : Nat) : σ :=
  ((bs.take L).drop p.min).foldl r.slide
    (r.prefill (p.win - 1) ((bs.take p.min).drop ((bs.take p.min).length - p.win)))

theorem scan_char (r : Roll σ) (p : Params) (len : Nat) (h : σ) (bs : Bytes) :
    (∀ k, k < scan r p len h bs →
        len + k < p.max ∧ r.hash ((bs.take k).foldl r.slide h) &&& p.mask ≠ 0) ∧
    (scan r p len h bs = bs.length ∨ len + scan r p len h bs ≥ p.max ∨
        r.hash ((bs.take (scan r p len h bs)).foldl r.slide h) &&& p.mask = 0) := by
  induction bs generalizing len h with
  | nil => simp [scan]
  | cons b bs ih =>
    simp only [scan]
    split
    · rename_i h1; simp; omega
    · split
      · rename_i h1 h2; simp [h2]
      · rename_i h1 h2
        obtain ⟨iha, ihb⟩ := ih (len + 1) (r.slide h b)
        refine ⟨?_, ?_⟩
        · intro k hk
          cases k with
          | zero => simp; exact ⟨by omega, h2⟩
          | succ k =>
            have := iha k (by omega)
            simp only [List.take_succ_cons, List.foldl_cons]
            exact ⟨by omega, this.2⟩
        · rcases ihb with h3 | h3 | h3
          · left; simp only [List.length_cons]; omega
          · right; left; omega
          · right; right
            rw [Nat.add_comm 1, List.take_succ_cons, List.foldl_cons]; exact h3

theorem fpState_eq (r : Roll σ) (p : Params) (bs : Bytes) (k : Nat) :
    fpState r p bs (p.min + k) =
      ((bs.drop p.min).take k).foldl r.slide
        (r.prefill (p.win - 1) ((bs.take p.min).drop ((bs.take p.min).length - p.win))) := by
  unfold fpState
  congr 1
  rw [List.drop_take]
  congr 1
  omega

/-- The cut is the *first* length `L ≥ min` at which the chunk reaches `max` or the rolling hash of the
chunk's window has zero low bits — or the end of the input. -/
theorem cut_char (r : Roll σ) (p : Params) (bs : Bytes) (hlen : p.min ≤ bs.length) :
    (∀ L, p.min ≤ L → L < cut r p bs → L < p.max ∧ r.hash (fpState r p bs L) &&& p.mask ≠ 0) ∧
    (cut r p bs = bs.length ∨ cut r p bs ≥ p.max ∨
      r.hash (fpState r p bs (cut r p bs)) &&& p.mask = 0) := by
  have hcut : cut r p bs = p.min + scan r p p.min
      (r.prefill (p.win - 1) ((bs.take p.min).drop ((bs.take p.min).length - p.win))) (bs.drop p.min) := by
    unfold cut
    simp only [show ¬ bs.length < p.min from by omega, if_false]
  obtain ⟨ha, hb⟩ := scan_char r p p.min
    (r.prefill (p.win - 1) ((bs.take p.min).drop ((bs.take p.min).length - p.win))) (bs.drop p.min)
  refine ⟨?_, ?_⟩
  · intro L h1 h2
    obtain ⟨k, rfl⟩ : ∃ k, L = p.min + k := ⟨L - p.min, by omega⟩
    rw [fpState_eq]
    exact ha k (by omega)
  · rw [hcut, fpState_eq]
    rcases hb with h | h | h
    · left; rw [h, List.length_drop]; omega
    · right; left; exact h
    · right; right; exact h

/-! ### fixed-size chunker -/

theorem fixedSpec_nil (size : Nat) : fixedSpec size [] = [] := by rw [fixedSpec]; simp

theorem fixedSpec_cons (size : Nat) (bs : Bytes) (hne : bs ≠ []) (hs : 0 < size) :
    fixedSpec size bs = bs.take size :: fixedSpec size (bs.drop size) := by
  rw [fixedSpec]
  have : ¬ (bs = [] ∨ size = 0) := by
    intro h; rcases h with h | h
    · exact hne h
    · omega
  simp only [this, dite_false]

def FSt.Inv (st : FSt) : Prop := st.finished = true → st.rest = []

theorem fixedRun_eq_spec (size : Nat) (hs : 0 < size) :
    ∀ (fuel : Nat) (st : FSt), st.Inv → st.rest.length + 1 < fuel →
      fixedRun size fuel st = fixedSpec size st.rest := by
  intro fuel
  induction fuel with
  | zero => intro st _ h; omega
  | succ fuel ih =>
    intro st hi hfuel
    simp only [fixedRun]
    cases hf : st.finished with
    | true =>
      have : fixedNext size st = (none, st) := by unfold fixedNext; simp [hf]
      rw [this, hi hf, fixedSpec_nil]
    | false =>
      by_cases hne : st.rest = []
      · have : fixedNext size st = (none, { rest := [], finished := true }) := by
          unfold fixedNext; simp [hf, hne, hs]
        rw [this, hne, fixedSpec_nil]
      · have hl : 0 < st.rest.length := List.length_pos_iff.mpr hne
        have hte : (st.rest.take size).isEmpty = false := by
          cases hr : st.rest with
          | nil => exact absurd hr hne
          | cons a l =>
            obtain ⟨c, rfl⟩ : ∃ c, size = c + 1 := ⟨size - 1, by omega⟩
            simp
        have : fixedNext size st = (some (st.rest.take size),
            { rest := st.rest.drop size, finished := decide ((st.rest.take size).length < size) }) := by
          unfold fixedNext; simp [hf, hte]
        rw [this]
        simp only
        rw [ih _ ?_ (by simp only [List.length_drop]; omega), ← fixedSpec_cons size _ hne hs]
        intro hfin
        simp only [decide_eq_true_eq, List.length_take] at hfin
        exact List.drop_of_length_le (by omega)

theorem fixedSpec_flatten (size : Nat) (hs : 0 < size) (bs : Bytes) : (fixedSpec size bs).flatten = bs := by
  generalize hn : bs.length = n
  induction n using Nat.strongRecOn generalizing bs with
  | ind n ih =>
    by_cases hne : bs = []
    · subst hne; simp [fixedSpec_nil]
    · rw [fixedSpec_cons size bs hne hs, List.flatten_cons]
      have hl : 0 < bs.length := List.length_pos_iff.mpr hne
      rw [ih (bs.drop size).length (by simp only [List.length_drop]; omega) _ rfl]
      exact List.take_append_drop _ _

theorem fixedSpec_sizes (size : Nat) (hs : 0 < size) (bs : Bytes) :
    (∀ c ∈ fixedSpec size bs, c ≠ [] ∧ c.length ≤ size) ∧
    (∀ i, i + 1 < (fixedSpec size bs).length → ((fixedSpec size bs)[i]?.getD []).length = size) := by
  generalize hn : bs.length = n
  induction n using Nat.strongRecOn generalizing bs with
  | ind n ih =>
    by_cases hne : bs = []
    · subst hne; simp [fixedSpec_nil]
    · have hl : 0 < bs.length := List.length_pos_iff.mpr hne
      have ih' := ih (bs.drop size).length (by simp only [List.length_drop]; omega) _ rfl
      rw [fixedSpec_cons size bs hne hs]
      refine ⟨?_, ?_⟩
      · intro c hc
        rcases List.mem_cons.mp hc with rfl | hc
        · refine ⟨?_, ?_⟩
          · intro e
            have : (bs.take size).length = 0 := by rw [e]; rfl
            simp only [List.length_take] at this; omega
          · simp only [List.length_take]; omega
        · exact ih'.1 c hc
      · intro i hi
        cases i with
        | zero =>
          simp only [List.getElem?_cons_zero, Option.getD_some, List.length_take]
          have hrest : fixedSpec size (bs.drop size) ≠ [] := by
            intro e; rw [e] at hi; simp at hi
          have hdne : bs.drop size ≠ [] := by
            intro e; rw [e, fixedSpec_nil] at hrest; exact hrest rfl
          have hdl : 0 < (bs.drop size).length := List.length_pos_iff.mpr hdne
          simp only [List.length_drop] at hdl
          omega
        | succ i =>
          simp only [List.getElem?_cons_succ]
          apply ih'.2 i
          simp only [List.length_cons] at hi; omega

end Rustic.Chunker
