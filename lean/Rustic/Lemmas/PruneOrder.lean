/-
`PrunePlan::new` (model `Rustic.Prune.newPlan`, two passes) and the ARRIVAL ORDER of the index files (C13).

`stream_all::<IndexFile>` hands the planner the index files in whatever order the parallel reads finish.  The two-pass
de-duplication makes the set of packs of the plan, each with its delete mark, a function of the SET of index files:
* a pack id is in the plan unmarked  iff some index file lists it regularly,
* a pack id is in the plan marked    iff some index file lists it as pack-to-delete and NO index file lists it regularly,
* no pack id is in the plan twice (`newPlan_spec`).
The single-pass variant (`singlePassPlan`, counter-model) drops a marked entry only if the regular one arrived EARLIER: with the
state an interrupted prune leaves (a pack regular in one index file, to-delete in another) the plan lists the pack twice when the
to-delete file arrives first, and `check_existing_packs` fails ("Pack does not exist").
-/
import Rustic.Lemmas.PruneExec
namespace Rustic.Prune
open Rustic.Repo (BlobType Key)

/-- some index file lists pack id `x` regularly / as pack-to-delete -/
def ListedReg (files : List IndexFile) (x : Nat) : Prop := ∃ f ∈ files, ∃ q ∈ f.packs, q.id = x
def ListedDel (files : List IndexFile) (x : Nat) : Prop := ∃ f ∈ files, ∃ q ∈ f.del, q.id = x

theorem pairPacks_cons (x : PIndex × List PPack) (R : List (PIndex × List PPack)) :
    pairPacks (x :: R) = x.2 ++ pairPacks R := by
  simp [pairPacks]

/-- pass 1 never loses a to-delete entry: its id was seen as to-delete before, or a marked pack with that id is produced -/
theorem newPass1_del (c : Consts) : ∀ (fs : List IndexFile) (n : Nat) (seen seenDel : List Nat),
    ∀ f ∈ fs, ∀ q ∈ f.del, q.id ∈ seenDel ∨ ∃ p ∈ pairPacks (newPass1 c n seen seenDel fs).1, p.mark = true ∧ p.id = q.id
  | [], _, _, _ => by simp
  | f :: fs, n, seen, seenDel => by
    intro f' hf' q hq
    have dd := dedup_spec seenDel f.del
    have ih := newPass1_del c fs (n + 1) (dedup seen f.packs).2.1 (dedup seenDel f.del).2.1
    unfold newPass1
    simp only [pairPacks_cons]
    have hsplit : ∀ x, x ∈ (dedup seenDel f.del).2.1 → x ∈ seenDel ∨
        ∃ p ∈ (dedup seen f.packs).1.map (mkPack c n false) ++ (dedup seenDel f.del).1.map (mkPack c n true),
          p.mark = true ∧ p.id = x := by
      intro x hx
      rcases (dd.2.2.1 x).mp hx with h | h
      · exact Or.inl h
      · obtain ⟨q', hq', e⟩ := List.mem_map.mp h
        exact Or.inr ⟨mkPack c n true q', List.mem_append_right _ (List.mem_map_of_mem hq'), rfl, e⟩
    rcases List.mem_cons.mp hf' with rfl | hf'
    · rcases hsplit _ (dd.2.2.2.1 q hq) with h | ⟨p, hp, hm, e⟩
      · exact Or.inl h
      · exact Or.inr ⟨p, List.mem_append_left _ hp, hm, e⟩
    · rcases ih f' hf' q hq with h | ⟨p, hp, hm, e⟩
      · rcases hsplit _ h with h | ⟨p, hp, hm, e⟩
        · exact Or.inl h
        · exact Or.inr ⟨p, List.mem_append_left _ hp, hm, e⟩
      · exact Or.inr ⟨p, List.mem_append_right _ hp, hm, e⟩

/-- **What `PrunePlan::new` keeps, by pack id and mark** — stated with membership in the list of index files only. -/
theorem newPlan_marks (kc : Consts) (files : List IndexFile) (x : Nat) :
    ((∃ p ∈ (newPlan kc files).packs, p.id = x ∧ p.mark = false) ↔ ListedReg files x) ∧
    ((∃ p ∈ (newPlan kc files).packs, p.id = x ∧ p.mark = true) ↔ ListedDel files x ∧ ¬ ListedReg files x) := by
  obtain ⟨_, g2, _, _, _⟩ := newPlan_spec kc files
  obtain ⟨_, s2, _, _, s5, s6⟩ := newPass1_spec kc files 0 [] []
  have sdel := newPass1_del kc files 0 [] []
  generalize hR : newPass1 kc 0 [] [] files = R at s2 s5 s6 sdel
  let g : PPack → Bool := fun p => !p.mark || !R.2.contains p.id
  have hflat : (R.1.map (newPass2 R.2)).flatMap (·.2) = (pairPacks R.1).filter g := by
    rw [pairPacks, List.filter_flatMap, List.flatMap_map]
    rfl
  have hpacks : (newPlan kc files).packs.map PPack.core2 = ((pairPacks R.1).filter g).map PPack.core2 := by
    unfold newPlan
    simp only [hR]
    rw [renumber_core2, hflat]
  have hto : ∀ p ∈ (newPlan kc files).packs, ∃ p' ∈ pairPacks R.1, g p' = true ∧ p'.id = p.id ∧ p'.mark = p.mark := by
    intro p hp
    obtain ⟨p', hp', e⟩ := mem_of_core2_eq hpacks hp
    exact ⟨p', (List.mem_filter.mp hp').1, (List.mem_filter.mp hp').2, e.2.1, e.2.2.1⟩
  have hfrom : ∀ p' ∈ pairPacks R.1, g p' = true → ∃ p ∈ (newPlan kc files).packs, p.id = p'.id ∧ p.mark = p'.mark := by
    intro p' hp' hg
    obtain ⟨p, hp, e⟩ := mem_of_core2_eq hpacks.symm (List.mem_filter.mpr ⟨hp', hg⟩)
    exact ⟨p, hp, e.2.1, e.2.2.1⟩
  -- an unmarked pack of pass 1 comes from the regular section of some index file
  have hreg_of : ∀ p' ∈ pairPacks R.1, p'.mark = false → ListedReg files p'.id := by
    intro p' hp' hm
    have hp'' : p' ∈ R.1.flatMap (fun (x : PIndex × List PPack) => x.2) := hp'
    obtain ⟨y, hy, hpy⟩ := List.mem_flatMap.mp hp''
    obtain ⟨j, hj, e⟩ := List.getElem_of_mem hy
    obtain ⟨f, hf, h1, _⟩ := s2 j y (by rw [List.getElem?_eq_getElem hj, e])
    obtain ⟨_, q, hq, hqid, _⟩ := h1 p' hpy
    rw [hm] at hq
    exact ⟨f, List.mem_of_getElem? hf, q, by simpa using hq, hqid⟩
  have hin : ListedReg files x → x ∈ R.2 := by
    rintro ⟨f, hf, q, hq, rfl⟩
    exact s6 f hf q hq
  have hout : x ∈ R.2 → ListedReg files x := by
    intro h
    rcases (s5 x).mp h with h | ⟨p', hp', hm, e⟩
    · cases h
    · rw [← e]; exact hreg_of p' hp' hm
  constructor
  · constructor
    · rintro ⟨p, hp, rfl, hm⟩
      obtain ⟨f, hf, q, hq, hqid, _⟩ := g2 p hp
      rw [hm] at hq
      exact ⟨f, List.mem_of_getElem? hf, q, by simpa using hq, hqid⟩
    · intro h
      rcases (s5 x).mp (hin h) with h' | ⟨p', hp', hm, e⟩
      · cases h'
      · obtain ⟨p, hp, eid, em⟩ := hfrom p' hp' (by simp [g, hm])
        exact ⟨p, hp, by rw [eid, e], by rw [em, hm]⟩
  · constructor
    · rintro ⟨p, hp, rfl, hm⟩
      constructor
      · obtain ⟨f, hf, q, hq, hqid, _⟩ := g2 p hp
        rw [hm] at hq
        exact ⟨f, List.mem_of_getElem? hf, q, by simpa using hq, hqid⟩
      · intro hreg
        obtain ⟨p', _, hg, eid, em⟩ := hto p hp
        have hx : p'.id ∈ R.2 := by rw [eid]; exact hin hreg
        simp only [g, em, hm, Bool.not_true, Bool.false_or, Bool.not_eq_true', List.contains_eq_mem, decide_eq_false_iff_not] at hg
        exact hg hx
    · rintro ⟨⟨f, hf, q, hq, rfl⟩, hnreg⟩
      rcases sdel f hf q hq with h | ⟨p', hp', hm, e⟩
      · cases h
      · have hx : ¬ p'.id ∈ R.2 := by rw [e]; exact fun h => hnreg (hout h)
        obtain ⟨p, hp, eid, em⟩ := hfrom p' hp' (by simp [g, hx])
        exact ⟨p, hp, by rw [eid, e], by rw [em, hm]⟩

theorem listedReg_perm {files files' : List IndexFile} (h : files.Perm files') (x : Nat) :
    ListedReg files x ↔ ListedReg files' x := by
  unfold ListedReg
  constructor
  · rintro ⟨f, hf, r⟩; exact ⟨f, h.mem_iff.mp hf, r⟩
  · rintro ⟨f, hf, r⟩; exact ⟨f, h.mem_iff.mpr hf, r⟩

theorem listedDel_perm {files files' : List IndexFile} (h : files.Perm files') (x : Nat) :
    ListedDel files x ↔ ListedDel files' x := by
  unfold ListedDel
  constructor
  · rintro ⟨f, hf, r⟩; exact ⟨f, h.mem_iff.mp hf, r⟩
  · rintro ⟨f, hf, r⟩; exact ⟨f, h.mem_iff.mpr hf, r⟩

/-- the plan lists pack `x` with mark `m` -/
def InPlan (pl : Plan) (x : Nat) (m : Bool) : Prop := ∃ p ∈ pl.packs, p.id = x ∧ p.mark = m

/-- **Arrival order of the index files is irrelevant** for which packs the plan holds and with which mark. -/
theorem newPlan_perm (kc : Consts) {files files' : List IndexFile} (h : files.Perm files') (x : Nat) (m : Bool) :
    InPlan (newPlan kc files) x m ↔ InPlan (newPlan kc files') x m := by
  unfold InPlan
  cases m with
  | false => rw [(newPlan_marks kc files x).1, (newPlan_marks kc files' x).1, listedReg_perm h]
  | true => rw [(newPlan_marks kc files x).2, (newPlan_marks kc files' x).2, listedReg_perm h, listedDel_perm h]

/-- every entry of pack id `x` anywhere in the index files lists the same blobs (pack ids are content hashes) -/
def Coherent (files : List IndexFile) : Prop :=
  ∀ f ∈ files, ∀ f' ∈ files, ∀ q ∈ f.packs ++ f.del, ∀ q' ∈ f'.packs ++ f'.del, q.id = q'.id → q.blobs = q'.blobs

/-- … and for coherent index files the blobs of each plan pack do not depend on the order either. -/
theorem newPlan_perm_blobs (kc : Consts) {files files' : List IndexFile} (h : files.Perm files') (hc : Coherent files)
    (p : PPack) (hp : p ∈ (newPlan kc files).packs) :
    ∃ p' ∈ (newPlan kc files').packs, p'.id = p.id ∧ p'.mark = p.mark ∧ p'.blobs = p.blobs := by
  obtain ⟨p', hp', eid, em⟩ := (newPlan_perm kc h p.id p.mark).mp ⟨p, hp, rfl, rfl⟩
  refine ⟨p', hp', eid, em, ?_⟩
  obtain ⟨f, hf, q, hq, hqid, hqb⟩ := (newPlan_spec kc files).2.1 p hp
  obtain ⟨f', hf', q', hq', hqid', hqb'⟩ := (newPlan_spec kc files').2.1 p' hp'
  have hfm : f ∈ files := List.mem_of_getElem? hf
  have hfm' : f' ∈ files := h.mem_iff.mpr (List.mem_of_getElem? hf')
  have hqm : q ∈ f.packs ++ f.del := by
    cases hm : p.mark <;> simp [hm] at hq <;> simp [hq]
  have hqm' : q' ∈ f'.packs ++ f'.del := by
    cases hm : p'.mark <;> simp [hm] at hq' <;> simp [hq']
  rw [← hqb, ← hqb']
  exact (hc f hfm f' hfm' q hqm q' hqm' (by rw [hqid, hqid', eid])).symm

/-! ### counter-model: the de-duplication folded into ONE pass -/

/-- a to-delete entry is dropped when its pack was seen regularly in an index file delivered earlier (or in the same file), or
seen as to-delete before — `!processed_packs.contains(&p.id) && processed_packs_delete.insert(p.id)` -/
def newPass1Single (c : Consts) : Nat → List Nat → List Nat → List IndexFile → List (List PPack)
  | _, _, _, [] => []
  | n, seen, seenDel, f :: fs =>
    let u := dedup seen f.packs
    let d := dedup seenDel (f.del.filter (fun q => !u.2.1.contains q.id))
    (u.1.map (mkPack c n false) ++ d.1.map (mkPack c n true)) :: newPass1Single c (n + 1) u.2.1 d.2.1 fs

def singlePassPlan (c : Consts) (files : List IndexFile) : List PPack :=
  renumber 0 ((newPass1Single c 0 [] [] files).flatMap id)

namespace OrderWitness
def kc : Consts := { compOverhead := 0, lengthLen := 4, entryLen := 37, entryLenComp := 41, minIndexLen := 0, maxPackSize := 4000000 }
def pk : IndexPack := { id := 7, time := some 100, size := some 41, blobs := [{ tpe := .data, id := 1, offset := 0, length := 4, compressed := false }] }
/-- the state an interrupted prune leaves: the old index file still lists pack 7 as pack-to-delete … -/
def fOld : IndexFile := { id := 1, packs := [], del := [pk] }
/-- … and the new one, written by the prune that recovered the pack, lists it regularly -/
def fNew : IndexFile := { id := 2, packs := [pk], del := [] }
end OrderWitness

end Rustic.Prune
