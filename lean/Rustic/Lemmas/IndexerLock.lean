/-
Lemmas about `Model/IndexerLock.lean`: under the locked add-and-save protocol (`Indexer::add_with` saves and resets with the write
lock held) every pack handed to the indexer by any writer is, at every point of every schedule, in the indexer's current file or in a
saved index file.
-/
import Rustic.Model.IndexerLock
namespace Rustic.IndexerLock

structure Inv (s : St) : Prop where
  /-- nothing is ever dropped -/
  kept : ∀ p ∈ s.added, p ∈ s.file ∨ ∃ f ∈ s.saved, p ∈ f
  /-- a writer inside its save holds the lock, and what it saves is the indexer's file (nobody else can have touched it) -/
  sav : ∀ w c, s.pc w = .saving c → s.lock = some w ∧ c = s.file
  noreset : ∀ w, s.pc w ≠ .resetting

theorem inv_init : Inv {} :=
  ⟨fun _ h => (by cases h), fun _ _ h => (by cases h), fun _ h => (by cases h)⟩

theorem upd_same (f : Nat → PC) (w : Nat) (x : PC) : upd f w x w = x := by simp [upd]
theorem upd_other (f : Nat → PC) {w v : Nat} (x : PC) (h : v ≠ w) : upd f w x v = f v := by simp [upd, h]

theorem inv_step (maxCount : Nat) (s : St) (e : Ev) (h : Inv s) : Inv (step true maxCount s e) := by
  cases e with
  | add w p n age =>
    simp only [step]
    by_cases hen : (s.lock.isSome || s.pc w != .idle) = true
    · simp only [hen, if_true]; exact h
    · simp only [hen]
      have hl : s.lock = none := by
        cases hls : s.lock with
        | none => rfl
        | some v => simp [hls] at hen
      have hnosav : ∀ w' c, s.pc w' ≠ .saving c := by
        intro w' c hc
        have := (h.sav w' c hc).1
        rw [hl] at this; cases this
      have hkept : ∀ q ∈ p :: s.added, q ∈ s.file ++ [p] ∨ ∃ f ∈ s.saved, q ∈ f := by
        intro q hq
        rcases List.mem_cons.mp hq with rfl | hq
        · exact Or.inl (by simp)
        · rcases h.kept q hq with hf | hs
          · exact Or.inl (by simp [hf])
          · exact Or.inr hs
      by_cases hdue : (decide (s.count + n ≥ maxCount) || age) = true
      · simp only [hdue, if_true, Bool.false_eq_true, if_false]
        refine ⟨hkept, ?_, ?_⟩
        · intro w' c hc
          by_cases hw : w' = w
          · subst hw
            simp only [upd_same] at hc
            cases hc
            exact ⟨rfl, rfl⟩
          · simp only [upd_other _ _ hw] at hc
            exact absurd hc (hnosav w' c)
        · intro w' hc
          by_cases hw : w' = w
          · subst hw
            simp only [upd_same] at hc
            cases hc
          · simp only [upd_other _ _ hw] at hc
            exact h.noreset w' hc
      · simp only [hdue, Bool.false_eq_true, if_false]
        exact ⟨hkept, fun w' c hc => absurd hc (hnosav w' c), h.noreset⟩
  | saved w =>
    simp only [step]
    cases hpc : s.pc w with
    | idle => exact h
    | resetting => exact h
    | saving c =>
      simp only [if_true]
      obtain ⟨hlk, hc⟩ := h.sav w c hpc
      refine ⟨?_, ?_, ?_⟩
      · intro q hq
        rcases h.kept q hq with hf | ⟨f, hf, hqf⟩
        · exact Or.inr ⟨c, List.mem_cons_self, by rw [hc]; exact hf⟩
        · exact Or.inr ⟨f, List.mem_cons_of_mem _ hf, hqf⟩
      · intro w' c' hc'
        by_cases hw : w' = w
        · subst hw
          simp only [upd_same] at hc'
          cases hc'
        · simp only [upd_other _ _ hw] at hc'
          have := (h.sav w' c' hc').1
          rw [hlk] at this
          exact absurd (Option.some.inj this).symm hw
      · intro w' hc'
        by_cases hw : w' = w
        · subst hw
          simp only [upd_same] at hc'
          cases hc'
        · simp only [upd_other _ _ hw] at hc'
          exact h.noreset w' hc'
  | reset w =>
    simp only [step]
    cases hpc : s.pc w with
    | idle => exact h
    | saving c => exact h
    | resetting => exact absurd hpc (h.noreset w)

theorem inv_run (maxCount : Nat) : ∀ (evs : List Ev) (s : St), Inv s → Inv (run true maxCount s evs)
  | [], _, h => h
  | e :: evs, s, h => inv_run maxCount evs (step true maxCount s e) (inv_step maxCount s e h)

theorem listed_iff (fs : List (List Nat)) (p : Nat) : listed fs p = true ↔ ∃ f ∈ fs, p ∈ f := by
  simp [listed]

theorem listed_finalize_of_inv {s : St} (h : Inv s) : ∀ p ∈ s.added, listed (finalize s) p = true := by
  intro p hp
  rw [listed_iff]
  unfold finalize
  rcases h.kept p hp with hf | ⟨f, hf, hpf⟩
  · have : s.file.isEmpty = false := by
      cases hfile : s.file with
      | nil => rw [hfile] at hf; cases hf
      | cons a l => rfl
    simp only [this, Bool.false_eq_true, if_false]
    exact ⟨s.file, List.mem_cons_self, hf⟩
  · split
    · exact ⟨f, hf, hpf⟩
    · exact ⟨f, List.mem_cons_of_mem _ hf, hpf⟩

end Rustic.IndexerLock
