/-
Lemmas for C01's composed blob store (`Model/Store.lean`): what the packer recorded for a blob is the codec
output of an add with that id; the bytes the index points to are that output; decoding gives the plaintext.
-/
import Rustic.Model.Store
import Rustic.Lemmas.Pack
import Rustic.Lemmas.Codec
import Rustic.Props.C04
import Rustic.Props.C17
namespace Rustic.Store
open Rustic.Pack Rustic.Index

/-! ### the packer remembers which add produced which blob -/

/-- blob `i` of the packer is chunk `i` of its file and both come from one of the adds in `S` -/
structure Traced (p : Packer) (S : List (Bytes × Nat × Option Nat)) : Prop where
  len : p.file.length = p.blobs.length
  src : ∀ (i : Nat) (b : IndexBlob) (c : Bytes), p.blobs[i]? = some b → p.file[i]? = some c →
    ∃ a ∈ S, a.1 = c ∧ a.2.1 = b.id ∧ a.2.2 = b.loc.ulen

theorem traced_new (t : BlobType) (S : List (Bytes × Nat × Option Nat)) : Traced (Packer.new t) S :=
  ⟨rfl, fun i b c hb _ => by simp [Packer.new] at hb⟩

theorem traced_addRaw (p : Packer) (S : List (Bytes × Nat × Option Nat)) (h : Traced p S)
    (a : Bytes × Nat × Option Nat) (ha : a ∈ S) : Traced (p.addRaw a.1 a.2.1 a.2.2) S := by
  unfold Packer.addRaw
  split
  · exact h
  · refine ⟨by simp [Packer.writeData, h.len], ?_⟩
    intro i b c hb hc
    simp only [Packer.writeData] at hb hc
    by_cases hi : i < p.blobs.length
    · rw [List.getElem?_append_left hi] at hb
      rw [List.getElem?_append_left (by rw [h.len]; exact hi)] at hc
      exact h.src i b c hb hc
    · have hi' : p.blobs.length ≤ i := Nat.le_of_not_lt hi
      rw [List.getElem?_append_right hi'] at hb
      rw [List.getElem?_append_right (by rw [h.len]; exact hi')] at hc
      have h0 : i - p.blobs.length = 0 := by
        cases hk : i - p.blobs.length with
        | zero => rfl
        | succ k => rw [hk] at hb; simp at hb
      rw [h0] at hb
      rw [h.len, h0] at hc
      simp only [List.getElem?_cons_zero, Option.some.injEq] at hb hc
      subst hb; subst hc
      exact ⟨a, ha, rfl, rfl, rfl⟩

theorem traced_run (p : Packer) (S adds : List (Bytes × Nat × Option Nat)) (h : Traced p S)
    (hsub : ∀ a ∈ adds, a ∈ S) : Traced (p.run adds) S := by
  induction adds generalizing p with
  | nil => exact h
  | cons a as ih =>
    simp only [Packer.run, List.foldl_cons]
    exact ih _ (traced_addRaw p S h a (hsub a List.mem_cons_self)) (fun x hx => hsub x (List.mem_cons_of_mem _ hx))

theorem addRaw_ids_mono (p : Packer) (data : Bytes) (id : Nat) (ulen : Option Nat) (x : Nat)
    (hx : x ∈ p.blobs.map (·.id)) : x ∈ (p.addRaw data id ulen).blobs.map (·.id) := by
  unfold Packer.addRaw
  split
  · exact hx
  · simp only [Packer.writeData, List.map_append, List.mem_append]; exact Or.inl hx

theorem addRaw_id_mem (p : Packer) (data : Bytes) (id : Nat) (ulen : Option Nat) :
    id ∈ (p.addRaw data id ulen).blobs.map (·.id) := by
  unfold Packer.addRaw
  split
  · rename_i h; exact (Packer.has_iff p id).mp h
  · simp [Packer.writeData]

theorem run_ids_mono (p : Packer) (adds : List (Bytes × Nat × Option Nat)) (x : Nat)
    (hx : x ∈ p.blobs.map (·.id)) : x ∈ (p.run adds).blobs.map (·.id) := by
  induction adds generalizing p with
  | nil => exact hx
  | cons a as ih => simp only [Packer.run, List.foldl_cons]; exact ih _ (addRaw_ids_mono p _ _ _ x hx)

/-- every id handed to `add_raw` is in the pack (the first add with that id won) -/
theorem run_complete (p : Packer) (adds : List (Bytes × Nat × Option Nat)) :
    ∀ a ∈ adds, a.2.1 ∈ (p.run adds).blobs.map (·.id) := by
  induction adds generalizing p with
  | nil => intro a ha; cases ha
  | cons a as ih =>
    intro x hx
    simp only [Packer.run, List.foldl_cons]
    rcases List.mem_cons.mp hx with rfl | hx
    · exact run_ids_mono _ as _ (addRaw_id_mem p _ _ _)
    · exact ih _ x hx

/-! ### reading a blob's byte range out of the finished pack file -/

theorem readPartial_prefix (A B : Bytes) (off len : Nat) (h : off + len ≤ A.length) :
    readPartial (A ++ B) off len = some ((A.drop off).take len) := by
  unfold readPartial
  rw [if_pos (by rw [List.length_append]; omega)]
  congr 1
  rw [List.drop_append_of_le_length (by omega), List.take_append_of_le_length (by rw [List.length_drop]; omega)]

/-- The byte range the index records for a blob of a pack, read from the pack FILE, is the codec output of an add
of that pack with the blob's id and uncompressed length. -/
theorem pack_blob_read (c : Cfg) (q : BuiltPack) (b : IndexBlob) (hb : b ∈ (q.packer c).blobs) :
    ∃ a ∈ q.adds, c.hash a.data = b.id ∧ (c.raw a).2.2 = b.loc.ulen ∧
      readPartial (q.file c) b.loc.offset b.loc.length = some (c.raw a).1 := by
  have hinv : (q.packer c).Inv := Packer.run_inv _ (Packer.new_inv q.tpe) _
  have htr : Traced (q.packer c) (q.adds.map c.raw) :=
    traced_run _ _ _ (traced_new q.tpe _) (fun a ha => ha)
  obtain ⟨i, hi, hbi⟩ := List.getElem_of_mem hb
  have hbi' : (q.packer c).blobs[i]? = some b := by rw [List.getElem?_eq_getElem hi, hbi]
  have hif : i < (q.packer c).file.length := by rw [htr.len]; exact hi
  have hci : (q.packer c).file[i]? = some ((q.packer c).file[i]) := List.getElem?_eq_getElem hif
  obtain ⟨r, hr, h1, h2, h3⟩ := htr.src i b _ hbi' hci
  obtain ⟨a, ha, rfl⟩ := List.mem_map.mp hr
  refine ⟨a, ha, h2, h3, ?_⟩
  have hbytes := hinv.blob_bytes i b _ hbi' hci
  have hlen : b.loc.offset + b.loc.length ≤ (q.packer c).file.flatten.length := by
    -- the chunk is non-empty or not: in both cases the range lies inside, by the cumulative offsets
    have hoff := reoffset_getElem? 0 (q.packer c).blobs i
    rw [hinv.offsets, hbi'] at hoff
    simp only [Option.map_some, Option.some.injEq, Nat.zero_add] at hoff
    have ho : b.loc.offset = ((lens (q.packer c).blobs).take i).sum := by
      have := congrArg (fun x => x.loc.offset) hoff; simpa using this
    rw [file_length _ hinv, ho]
    have hsplit : lens (q.packer c).blobs = (lens (q.packer c).blobs).take i ++ (lens (q.packer c).blobs).drop i :=
      (List.take_append_drop i _).symm
    have hd : (lens (q.packer c).blobs).drop i = b.loc.length :: (lens (q.packer c).blobs).drop (i + 1) := by
      have hil : i < (lens (q.packer c).blobs).length := by simp [lens, hi]
      rw [List.drop_eq_getElem_cons hil]
      congr 1
      simp [lens, hbi]
    conv => rhs; rw [hsplit, List.sum_append, hd, List.sum_cons]
    omega
  unfold BuiltPack.file
  rw [finish_file, readPartial_prefix _ _ _ _ hlen, hbytes, ← h1]

/-! ### decode ∘ encode through `Cfg.raw` -/

theorem decode_raw (c : Cfg) (a : Add) (hn : a.nonce.length = 16) (hne : a.data ≠ [] ∨ c.zstdOn = false) :
    Rustic.Codec.decodeBlob c.ae c.z c.key (c.raw a).1 (c.raw a).2.2 = .ok a.data :=
  (Rustic.Props.C04.blob_codec_roundtrip_partial c.ae c.z c.zstdOn c.key a.nonce a.data hn hne).1

/-! ### the backend as a map -/

theorem backendGet_mem (c : Cfg) (packs : List BuiltPack)
    (huniq : ∀ q ∈ packs, ∀ q' ∈ packs, q.id = q'.id → q.file c = q'.file c) (q : BuiltPack) (hq : q ∈ packs) :
    backendGet c packs q.id = some (q.file c) := by
  unfold backendGet
  cases hf : packs.find? (fun x => x.id == q.id) with
  | none =>
    have := List.find?_eq_none.mp hf q hq
    simp at this
  | some q' =>
    have h1 := List.mem_of_find?_eq_some hf
    have h2 := List.find?_some hf
    simp only [beq_iff_eq] at h2
    simp only [Option.map_some]
    rw [huniq q' h1 q hq h2]

/-! ### the composition: lookup → partial read → decode gives the plaintext back -/

/-- the repository invariant a restore relies on: pack files are packer output under the ids the index uses, the index
lists every pack and nothing else, and equal ids of one type mean equal plaintext (hash injectivity on what was added) -/
structure RepoOK (c : Cfg) (packs : List BuiltPack) (ips : List IndexPack) : Prop where
  /-- a pack id names one file -/
  uniq : ∀ q ∈ packs, ∀ q' ∈ packs, q.id = q'.id → q.file c = q'.file c
  nonce : ∀ q ∈ packs, ∀ a ∈ q.adds, a.nonce.length = 16
  /-- `NonZeroU32::new(0)`: an empty plaintext cannot be stored compressed (chunks and trees are never empty) -/
  nonempty : ∀ q ∈ packs, ∀ a ∈ q.adds, a.data ≠ [] ∨ c.zstdOn = false
  /-- hash injectivity on the plaintexts of one type actually stored -/
  inj : ∀ q ∈ packs, ∀ q' ∈ packs, q.tpe = q'.tpe → ∀ a ∈ q.adds, ∀ a' ∈ q'.adds,
    c.hash a.data = c.hash a'.data → a.data = a'.data
  /-- every listed pack is a stored pack with the blobs its packer recorded -/
  cons : ∀ p ∈ ips, ∃ q ∈ packs, p.id = q.id ∧ p.blobs = (q.packer c).blobs
  /-- every stored pack is listed -/
  cover : ∀ q ∈ packs, ∃ p ∈ ips, p.id = q.id ∧ p.blobs = (q.packer c).blobs

theorem packer_types (c : Cfg) (q : BuiltPack) : ∀ b ∈ (q.packer c).blobs, b.tpe = q.tpe := by
  have hinv : (q.packer c).Inv := Packer.run_inv _ (Packer.new_inv q.tpe) _
  have hbt : ∀ (p : Packer) (adds : List (Bytes × Nat × Option Nat)), (p.run adds).blobType = p.blobType := by
    intro p adds
    induction adds generalizing p with
    | nil => rfl
    | cons a as ih =>
      simp only [Packer.run, List.foldl_cons]
      rw [show List.foldl (fun p a => p.addRaw a.1 a.2.1 a.2.2) (p.addRaw a.1 a.2.1 a.2.2) as
        = (p.addRaw a.1 a.2.1 a.2.2).run as from rfl, ih]
      unfold Packer.addRaw
      split <;> rfl
  intro b hb
  rw [hinv.types b hb]
  exact hbt _ _

theorem homogeneous_of_cons (c : Cfg) (packs : List BuiltPack) (p : IndexPack)
    (h : ∃ q ∈ packs, p.id = q.id ∧ p.blobs = (q.packer c).blobs) : p.Homogeneous := by
  obtain ⟨q, _, _, hb⟩ := h
  intro b hbm
  have ht : ∀ b ∈ p.blobs, b.tpe = q.tpe := by rw [hb]; exact packer_types c q
  rw [ht b hbm]
  unfold IndexPack.blobType
  cases hp : p.blobs with
  | nil => rw [hp] at hbm; cases hbm
  | cons x xs => exact (ht x (by rw [hp]; exact List.mem_cons_self)).symm

/-- **Blob round trip through the real formats.**  In a repository satisfying `RepoOK`, for ANY index value the
load may produce (`Loaded .full`, any sorted permutation), every blob that was handed to a packer — also one
skipped as a duplicate, also one stored in several packs — is read back exactly by `blob_from_backend`. -/
theorem blob_read_back (c : Cfg) (packs : List BuiltPack) (files : List IndexFile)
    (hok : RepoOK c packs (unmarked files)) (idx : Index) (hl : Rustic.Props.C17.Loaded .full files idx)
    (q : BuiltPack) (hq : q ∈ packs) (a : Add) (ha : a ∈ q.adds) :
    readBlob c idx (backendGet c packs) q.tpe (c.hash a.data) = some a.data := by
  have hwf : Rustic.Props.C17.WF files := fun p hp => homogeneous_of_cons c packs p (hok.cons p hp)
  -- the blob is listed
  have hlisted : Rustic.Props.C17.ListedUnmarked files q.tpe (c.hash a.data) := by
    rw [Rustic.Props.C17.listedUnmarked_iff]
    obtain ⟨p, hp, _, hpb⟩ := hok.cover q hq
    have hid := run_complete (Packer.new q.tpe) (q.adds.map c.raw) (c.raw a) (List.mem_map.mpr ⟨a, ha, rfl⟩)
    obtain ⟨b, hb, hbid⟩ := List.mem_map.mp hid
    exact ⟨p, hp, b, by rw [hpb]; exact hb, packer_types c q b hb, hbid⟩
  have hsome := (Rustic.Props.C17.get_succeeds_iff .full files hwf idx hl q.tpe (c.hash a.data)).mpr ⟨rfl, hlisted⟩
  obtain ⟨e, he⟩ := Option.isSome_iff_exists.mp hsome
  -- whichever listing the lookup returns, it is a blob of a stored pack of this type
  have hlist := Rustic.Props.C17.get_returns_a_listing .full files hwf idx hl q.tpe (c.hash a.data) e he
  obtain ⟨p, hp, b, hb, hbt, hbid, rfl⟩ := mem_listed.mp hlist
  obtain ⟨q', hq', hpid, hpb⟩ := hok.cons p hp
  rw [hpb] at hb
  obtain ⟨a', ha', hh, hu, hread⟩ := pack_blob_read c q' b hb
  have hty : q'.tpe = q.tpe := by rw [← packer_types c q' b hb, hbt]
  have hdata : a'.data = a.data := hok.inj q' hq' q hq hty a' ha' a ha (by rw [hh, hbid])
  unfold readBlob
  rw [he]
  simp only
  rw [hpid, backendGet_mem c packs hok.uniq q' hq']
  simp only
  rw [hread]
  simp only
  rw [← hu, decode_raw c a' (hok.nonce q' hq' a' ha') (hok.nonempty q' hq' a' ha'), hdata]

/-! ### the index may equally be the one rebuilt from the pack headers -/

theorem decHeader_ae (c : Cfg) (q : BuiltPack) (hn : q.hdrNonce.length = 16) :
    Rustic.Pack.AE (Rustic.Codec.encrypt c.ae c.key q.hdrNonce) c.decHeader :=
  ⟨fun x => by
      rw [Rustic.Codec.encrypt_length c.ae c.key q.hdrNonce x, hn]
      simp only [Rustic.Gen.PACK_COMP_OVERHEAD]; omega,
   fun x => by unfold Cfg.decHeader; rw [Rustic.Codec.decrypt_encrypt c.ae c.key q.hdrNonce x hn]⟩

/-- `PackHeader::from_file` on a pack the packer wrote — with any size hint — reads back exactly the blob list the
indexer was given: the rebuilt index entry IS the written one. -/
theorem rebuilt_eq_written (c : Cfg) (q : BuiltPack) (hn : q.hdrNonce.length = 16)
    (hwf : ∀ b ∈ (q.packer c).blobs, WFBlob b) (hfit : packSize (q.packer c).blobs < 4294967296)
    (hint : Option Nat) : q.rebuiltIndexPack c hint = q.indexPack c := by
  have hae := decHeader_ae c q hn
  have hinv : (q.packer c).Inv := Packer.run_inv _ (Packer.new_inv q.tpe) _
  have h := fromFile_finish _ _ hae (q.packer c) hinv hwf hfit hint
  unfold BuiltPack.rebuiltIndexPack BuiltPack.indexPack BuiltPack.file
  rw [finish_length _ hae.len _ hinv, h]

/-! ### the indexer's files list every pack it was given -/

theorem unmarked_append (a b : List IndexFile) : unmarked (a ++ b) = unmarked a ++ unmarked b := by
  simp [unmarked]

theorem ixr_save_inv (s : Ixr) : unmarked s.save.reset.saved ++ s.save.reset.file = unmarked s.saved ++ s.file := by
  unfold Ixr.save
  split
  · rename_i h
    simp [Ixr.reset, List.isEmpty_iff.mp h]
  · simp [Ixr.reset, unmarked_append, unmarked]

theorem ixr_add_inv (mc : Nat) (s : Ixr) (p : IndexPack) (aged : Bool) :
    unmarked (s.add mc p aged).saved ++ (s.add mc p aged).file = unmarked s.saved ++ s.file ++ [p] := by
  unfold Ixr.add
  simp only
  split
  · rw [ixr_save_inv]; simp
  · simp

theorem ixr_fold_inv (mc : Nat) (adds : List (IndexPack × Bool)) (s : Ixr) :
    unmarked (adds.foldl (fun (s : Ixr) a => s.add mc a.1 a.2) s).saved ++ (adds.foldl (fun (s : Ixr) a => s.add mc a.1 a.2) s).file =
      unmarked s.saved ++ s.file ++ adds.map (·.1) := by
  induction adds generalizing s with
  | nil => simp
  | cons a as ih => simp only [List.foldl_cons, List.map_cons]; rw [ih, ixr_add_inv]; simp

/-- **The index files of a run list exactly the packs handed to the indexer, in order** — for every flush threshold and
every schedule of age-triggered flushes. -/
theorem ixr_run_unmarked (mc : Nat) (adds : List (IndexPack × Bool)) :
    unmarked (Ixr.run mc adds).saved = adds.map (·.1) := by
  unfold Ixr.run
  have h := ixr_fold_inv mc adds {}
  have h2 := ixr_save_inv (adds.foldl (fun (s : Ixr) a => s.add mc a.1 a.2) {})
  simp only [Ixr.reset, List.append_nil] at h2
  rw [h2, h]
  simp [unmarked]

end Rustic.Store
