/-
Lemmas for C13: the threads of `TreeStreamerOnce` (`Model/StreamerQueue.lean`) — progress with the unbounded request
queue, the only way to get stuck (a send on a full bounded queue), and the deadlock every bounded queue has.
-/
import Rustic.Model.StreamerQueue
import Rustic.Lemmas.Streamer
namespace Rustic.StreamerQ
open Rustic.Streamer (pick pick_spec pick_some)

theorem pick_none {α : Type} : ∀ (l : List α) (i : Nat), l.length ≤ i → pick l i = none
  | [], _, _ => rfl
  | _ :: _, 0, h => by simp at h
  | x :: xs, i + 1, h => by
    simp only [pick, pick_none xs i (by simpa using h), Option.map_none]

/-! ### progress -/

/-- Whenever something is outstanding and the consumer's send (if it has one to make) is not blocked, some thread can
move: the consumer sends, or receives; else a loader hands over its tree (the result queue is empty); else an idle loader
takes a request (no loader holds anything). -/
theorem progress_of_room (c : Cfg) (children : Nat → List Nat) (s : TSt) (hl : 0 < c.loaders) (ho : 0 < c.out)
    (hnf : finished s = false) (hroom : s.todo ≠ [] → room c s = true) :
    ∃ a s', step c children s a = some s' := by
  cases htodo : s.todo with
  | cons id rest =>
    have hr := hroom (by simp [htodo])
    exact ⟨.send, _, by simp only [step, htodo, hr, if_true] <;> rfl⟩
  | nil =>
    cases hout : s.outq with
    | cons id rest => exact ⟨.recv, _, by simp only [step, htodo, hout] <;> rfl⟩
    | nil =>
      cases hheld : s.held with
      | cons id rest =>
        exact ⟨.put 0, _, by simp only [step, hheld, pick, hout, List.length_nil, ho, if_true] <;> rfl⟩
      | nil =>
        cases hin : s.inq with
        | cons id rest => exact ⟨.load, _, by simp only [step, hin, hheld, List.length_nil, hl, if_true] <;> rfl⟩
        | nil => simp [finished, htodo, hout, hheld, hin] at hnf

/-- no livelock between two `recv`s: every other step decreases `measure` -/
theorem step_measure (c : Cfg) (children : Nat → List Nat) (s s' : TSt) (a : Act) (ha : a ≠ .recv)
    (h : step c children s a = some s') : measure s' < measure s := by
  cases a with
  | recv => exact absurd rfl ha
  | send =>
    simp only [step] at h
    split at h
    · cases h
    · rename_i id rest htodo
      split at h
      · cases h; simp only [measure, htodo, List.length_append, List.length_cons, List.length_nil]; omega
      · cases h
  | load =>
    simp only [step] at h
    split at h
    · cases h
    · rename_i id rest hin
      split at h
      · cases h; simp only [measure, hin, List.length_append, List.length_cons, List.length_nil]; omega
      · cases h
  | put k =>
    simp only [step] at h
    split at h
    · cases h
    · rename_i id rest hp
      have hlen := (pick_spec _ _ _ _ hp).2.2
      split at h
      · cases h; simp only [measure, hlen]; omega
      · cases h

/-! ### the lengths follow the counter machine -/

theorem step_shape (c : Cfg) (children : Nat → List Nat) (s : TSt) (a : Act) (ha : a ≠ .recv) :
    (step c children s a).map shape = cstep c (shape s) a := by
  cases a with
  | recv => exact absurd rfl ha
  | send =>
    cases htodo : s.todo with
    | nil => simp [step, shape, cstep, htodo]
    | cons id rest =>
      cases hc : c.cap with
      | none => simp [step, shape, cstep, htodo, room, croom, hc]
      | some n =>
        by_cases hr : s.inq.length < n <;> simp [step, shape, cstep, htodo, room, croom, hc, hr]
  | load =>
    cases hin : s.inq with
    | nil => simp [step, shape, cstep, hin]
    | cons id rest =>
      by_cases hr : s.held.length < c.loaders <;> simp [step, shape, cstep, hin, hr]
  | put k =>
    by_cases hk : k < s.held.length
    · obtain ⟨e, r, hp⟩ := pick_some s.held k hk
      have hlen := (pick_spec _ _ _ _ hp).2.2
      by_cases hr : s.outq.length < c.out <;> simp [step, shape, cstep, hp, hr, hlen] <;> omega
    · have hp := pick_none s.held k (by omega)
      simp [step, shape, cstep, hp, hk]

theorem runActs_shape (c : Cfg) (children : Nat → List Nat) : ∀ (acts : List Act) (s : TSt),
    (∀ a ∈ acts, a ≠ Act.recv) → shape (runActs c children s acts) = crun c (shape s) acts
  | [], _, _ => rfl
  | a :: as, s, h => by
    have ha := h a (by simp)
    have has : ∀ b ∈ as, b ≠ Act.recv := fun b hb => h b (by simp [hb])
    have hs := step_shape c children s a ha
    simp only [runActs, crun]
    cases hst : step c children s a with
    | none =>
      rw [hst] at hs
      simp only [Option.map_none] at hs
      rw [← hs]
      exact runActs_shape c children as s has
    | some s' =>
      rw [hst] at hs
      simp only [Option.map_some] at hs
      rw [← hs]
      exact runActs_shape c children as s' has

theorem crun_append (c : Cfg) : ∀ (a b : List Act) (sh : Shape), crun c sh (a ++ b) = crun c (crun c sh a) b
  | [], _, _ => rfl
  | x :: xs, b, sh => by
    simp only [List.cons_append, crun]
    cases cstep c sh x with
    | none => exact crun_append c xs b sh
    | some sh' => exact crun_append c xs b sh'

theorem cstep_send (n l o t i h q : Nat) (ht : 0 < t) (hi : i < n) :
    cstep ⟨some n, l, o⟩ (t, i, h, q) .send = some (t - 1, i + 1, h, q) := by
  simp [cstep, croom, ht, hi]

theorem cstep_load (c : Cfg) (t i h q : Nat) (hi : 0 < i) (hh : h < c.loaders) :
    cstep c (t, i, h, q) .load = some (t, i - 1, h + 1, q) := by
  simp [cstep, hi, hh]

theorem cstep_put (c : Cfg) (t i h q k : Nat) (hk : k < h) (hq : q < c.out) :
    cstep c (t, i, h, q) (.put k) = some (t, i, h - 1, q + 1) := by
  simp [cstep, hk, hq]

/-- `k` trees go through a loader into the result queue -/
theorem crun_phase1 (n l o : Nat) (hn : 0 < n) (hl : 0 < l) : ∀ (k t q : Nat), k ≤ t → q + k ≤ o →
    crun ⟨some n, l, o⟩ (t, 0, 0, q) (List.replicate k [Act.send, .load, .put 0]).flatten = (t - k, 0, 0, q + k)
  | 0, _, _, _, _ => by simp [crun]
  | k + 1, t, q, hk, hq => by
    have h1 : cstep ⟨some n, l, o⟩ (t, 0, 0, q) .send = some (t - 1, 1, 0, q) := cstep_send n l o t 0 0 q (by omega) hn
    have h2 : cstep ⟨some n, l, o⟩ (t - 1, 1, 0, q) .load = some (t - 1, 0, 1, q) :=
      cstep_load ⟨some n, l, o⟩ (t - 1) 1 0 q (by omega) hl
    have h3 : cstep ⟨some n, l, o⟩ (t - 1, 0, 1, q) (.put 0) = some (t - 1, 0, 0, q + 1) :=
      cstep_put ⟨some n, l, o⟩ (t - 1) 0 1 q 0 (by omega) (by show q < o; omega)
    simp only [List.replicate_succ, List.flatten_cons, List.cons_append, List.nil_append, crun, h1, h2, h3]
    rw [crun_phase1 n l o hn hl k (t - 1) (q + 1) (by omega) (by omega)]
    simp only [Prod.mk.injEq, true_and, and_true]; omega

/-- `k` trees end in the hands of `k` more loaders -/
theorem crun_phase2 (n l o : Nat) (hn : 0 < n) : ∀ (k t h q : Nat), k ≤ t → h + k ≤ l →
    crun ⟨some n, l, o⟩ (t, 0, h, q) (List.replicate k [Act.send, .load]).flatten = (t - k, 0, h + k, q)
  | 0, _, _, _, _, _ => by simp [crun]
  | k + 1, t, h, q, hk, hh => by
    have h1 : cstep ⟨some n, l, o⟩ (t, 0, h, q) .send = some (t - 1, 1, h, q) := cstep_send n l o t 0 h q (by omega) hn
    have h2 : cstep ⟨some n, l, o⟩ (t - 1, 1, h, q) .load = some (t - 1, 0, h + 1, q) :=
      cstep_load ⟨some n, l, o⟩ (t - 1) 1 h q (by omega) (by show h < l; omega)
    simp only [List.replicate_succ, List.flatten_cons, List.cons_append, List.nil_append, crun, h1, h2]
    rw [crun_phase2 n l o hn k (t - 1) (h + 1) q (by omega) (by omega)]
    simp only [Prod.mk.injEq, true_and, and_true]; omega

/-- `k` requests go into the request queue -/
theorem crun_phase3 (n l o : Nat) : ∀ (k t i h q : Nat), k ≤ t → i + k ≤ n →
    crun ⟨some n, l, o⟩ (t, i, h, q) (List.replicate k Act.send) = (t - k, i + k, h, q)
  | 0, _, _, _, _, _, _ => by simp [crun]
  | k + 1, t, i, h, q, hk, hi => by
    have h1 : cstep ⟨some n, l, o⟩ (t, i, h, q) .send = some (t - 1, i + 1, h, q) :=
      cstep_send n l o t i h q (by omega) (by omega)
    simp only [List.replicate_succ, crun, h1]
    rw [crun_phase3 n l o k (t - 1) (i + 1) h q (by omega) (by omega)]
    simp only [Prod.mk.injEq, true_and, and_true]; omega

/-- from "m ids to send, everything else empty" the filling schedule leaves `m - (n + l + o)` ids unsent with the request
queue, every loader and the result queue full -/
theorem crun_fill (n l o m : Nat) (hn : 0 < n) (hl : 0 < l) (hm : n + l + o ≤ m) :
    crun ⟨some n, l, o⟩ (m, 0, 0, 0) (fillSchedule n l o) = (m - (n + l + o), n, l, o) := by
  simp only [fillSchedule, crun_append]
  rw [crun_phase1 n l o hn hl o m 0 (by omega) (by omega)]
  rw [crun_phase2 n l o hn l (m - o) 0 (0 + o) (by omega) (by omega)]
  rw [crun_phase3 n l o n (m - o - l) 0 (0 + l) (0 + o) (by omega) (by omega)]
  simp only [Prod.mk.injEq, true_and, and_true]; omega

theorem fillSchedule_no_recv (n l o : Nat) : ∀ a ∈ fillSchedule n l o, a ≠ Act.recv := by
  intro a ha
  simp only [fillSchedule, List.mem_append, List.mem_flatten, List.mem_replicate] at ha
  rcases ha with (⟨x, ⟨_, rfl⟩, hx⟩ | ⟨x, ⟨_, rfl⟩, hx⟩) | ⟨_, rfl⟩
  · simp only [List.mem_cons, List.not_mem_nil, or_false] at hx
    rcases hx with rfl | rfl | rfl <;> simp
  · simp only [List.mem_cons, List.not_mem_nil, or_false] at hx
    rcases hx with rfl | rfl <;> simp
  · simp

/-! ### stuck states -/

/-- The consumer still has an id to send, the bounded request queue is full, every loader holds a loaded tree and the
result queue is full: nobody can move (the consumer is not in `recv`, so the result queue never drains). -/
theorem stuck_of_full (n l o : Nat) (children : Nat → List Nat) (s : TSt) (ht : s.todo ≠ [])
    (hi : n ≤ s.inq.length) (hh : l ≤ s.held.length) (hq : o ≤ s.outq.length) :
    ∀ a, step ⟨some n, l, o⟩ children s a = none := by
  intro a
  cases a with
  | send =>
    cases htodo : s.todo with
    | nil => exact absurd htodo ht
    | cons id rest => simp [step, htodo, room]; omega
  | load =>
    cases hin : s.inq with
    | nil => simp only [step, hin]
    | cons id rest => simp [step, hin]; omega
  | put k =>
    cases hp : pick s.held k with
    | none => simp only [step, hp]
    | some er => simp [step, hp]; omega
  | recv =>
    cases htodo : s.todo with
    | nil => exact absurd htodo ht
    | cons id rest => simp only [step, htodo]

/-- The only way to be stuck with something outstanding is a consumer blocked in `queue_in.send` on a full queue. -/
theorem stuck_only_on_full_queue (c : Cfg) (children : Nat → List Nat) (s : TSt) (hl : 0 < c.loaders) (ho : 0 < c.out)
    (hnf : finished s = false) (hstuck : ∀ a, step c children s a = none) : s.todo ≠ [] ∧ room c s = false := by
  cases hr : room c s with
  | true =>
    obtain ⟨a, s', h⟩ := progress_of_room c children s hl ho hnf (fun _ => hr)
    rw [hstuck a] at h; cases h
  | false =>
    refine ⟨?_, rfl⟩
    intro htodo
    obtain ⟨a, s', h⟩ := progress_of_room c children s hl ho hnf (fun h => absurd htodo h)
    rw [hstuck a] at h; cases h

/-! ### reaching the stuck state -/

theorem fresh_eq_self : ∀ (cs vis : List Nat), cs.Nodup → (∀ c ∈ cs, c ∉ vis) → fresh vis cs = cs
  | [], _, _, _ => rfl
  | c :: cs, vis, hn, hv => by
    have hc : vis.contains c = false := by
      simpa using hv c (by simp)
    simp only [fresh, hc, Bool.false_eq_true, if_false]
    rw [fresh_eq_self cs (c :: vis) (List.nodup_cons.mp hn).2]
    intro d hd
    simp only [List.mem_cons, not_or]
    exact ⟨fun e => (List.nodup_cons.mp hn).1 (e ▸ hd), hv d (by simp [hd])⟩

/-- From any state in which the consumer has more ids to send than the request queue, the loaders and the result queue
hold together (and these are empty), the filling schedule ends in a deadlock. -/
theorem deadlock_from_wide (n l o : Nat) (hn : 0 < n) (hl : 0 < l) (children : Nat → List Nat) (s : TSt)
    (hs : shape s = (s.todo.length, 0, 0, 0)) (hwide : n + l + o < s.todo.length) :
    let s' := runActs ⟨some n, l, o⟩ children s (fillSchedule n l o)
    finished s' = false ∧ ∀ a, step ⟨some n, l, o⟩ children s' a = none := by
  intro s'
  have hsh : shape s' = (s.todo.length - (n + l + o), n, l, o) := by
    have := runActs_shape ⟨some n, l, o⟩ children (fillSchedule n l o) s (fillSchedule_no_recv n l o)
    rw [this, hs, crun_fill n l o _ hn hl (by omega)]
  simp only [shape, Prod.mk.injEq] at hsh
  obtain ⟨h1, h2, h3, h4⟩ := hsh
  have htodo : s'.todo ≠ [] := by
    intro e; rw [e] at h1; simp only [List.length_nil] at h1; omega
  refine ⟨?_, stuck_of_full n l o children s' htodo (by omega) (by omega) (by omega)⟩
  cases hx : s'.todo with
  | nil => exact absurd hx htodo
  | cons a b => simp [finished, hx]

theorem runActs_append (c : Cfg) (children : Nat → List Nat) : ∀ (a b : List Act) (s : TSt),
    runActs c children s (a ++ b) = runActs c children (runActs c children s a) b
  | [], _, _ => rfl
  | x :: xs, b, s => by
    simp only [List.cons_append, runActs]
    cases step c children s x with
    | none => exact runActs_append c children xs b s
    | some s' => exact runActs_append c children xs b s'

/-- (a) more root trees (snapshots) than the queues hold: the loop over the roots in `new` never ends -/
theorem deadlock_roots (n l o : Nat) (hn : 0 < n) (hl : 0 < l) (children : Nat → List Nat) :
    let s' := runActs ⟨some n, l, o⟩ children (init (List.range (n + l + o + 1))) (fillSchedule n l o)
    finished s' = false ∧ ∀ a, step ⟨some n, l, o⟩ children s' a = none := by
  have hf : fresh [] (List.range (n + l + o + 1)) = List.range (n + l + o + 1) :=
    fresh_eq_self _ [] List.nodup_range (by simp)
  apply deadlock_from_wide n l o hn hl children
  · simp [shape, init, hf]
  · simp [init, hf]

/-- the forest of (b): tree 0 has the sub-trees 1 … m, which are leaves -/
def wideDir (m : Nat) : Nat → List Nat := fun id => if id = 0 then List.range' 1 m else []

/-- state after the root directory has been requested, loaded and received: all its m sub-directories are to be sent -/
theorem wideDir_received (n l o m : Nat) (hn : 0 < n) (hl : 0 < l) (ho : 0 < o) :
    runActs ⟨some n, l, o⟩ (wideDir m) (init [0]) [.send, .load, .put 0, .recv] =
      { todo := List.range' 1 m, visited := (List.range' 1 m).reverse ++ [0], yielded := [0] } := by
  have hf : fresh [0] (List.range' 1 m) = List.range' 1 m :=
    fresh_eq_self _ [0] (List.nodup_range' (step := 1) (by omega)) (by intro c hc; simp [List.mem_range'] at hc ⊢; omega)
  simp [runActs, step, init, fresh, room, pick, hn, hl, ho, wideDir, hf]

/-- (b) one directory with more sub-directories than the queues hold: `next` never returns after receiving it -/
theorem deadlock_one_directory (n l o : Nat) (hn : 0 < n) (hl : 0 < l) (ho : 0 < o) :
    let c : Cfg := ⟨some n, l, o⟩
    let s' := runActs c (wideDir (n + l + o + 1)) (init [0]) ([.send, .load, .put 0, .recv] ++ fillSchedule n l o)
    finished s' = false ∧ ∀ a, step c (wideDir (n + l + o + 1)) s' a = none := by
  intro c s'
  have hs' : s' = runActs c (wideDir (n + l + o + 1))
      { todo := List.range' 1 (n + l + o + 1), visited := (List.range' 1 (n + l + o + 1)).reverse ++ [0], yielded := [0] }
      (fillSchedule n l o) := by
    show runActs c _ _ (_ ++ _) = _
    rw [runActs_append, wideDir_received n l o _ hn hl ho]
  rw [hs']
  apply deadlock_from_wide n l o hn hl
  · simp [shape]
  · simp

end Rustic.StreamerQ
