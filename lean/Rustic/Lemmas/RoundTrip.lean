/-
Lemmas about the round-trip component models (`Rustic/Model/RoundTrip.lean`).
-/
import Rustic.Model.RoundTrip
namespace Rustic.RoundTrip

/-! ### file names -/

/-- what is assumed of the character encoder: ASCII characters are their own byte (true of UTF-8) -/
structure EncAscii (enc : Char → Bytes) : Prop where
  ascii : ∀ c : Char, c.toNat < 128 → enc c = [UInt8.ofNat c.toNat]

theorem hexDigit_facts : ∀ n : Fin 16, hexDigit n.val ≠ '+' ∧ hexVal (hexDigit n.val) = some n.val := by decide

theorem run_bad (enc : Char → Bytes) (b : UInt8) (out : Bytes) :
    ('\\' :: 'x' :: hex2 b).foldl (step enc) (St.norm, out) = (St.norm, out ++ [b]) := by
  have hhi : b.toNat / 16 < 16 := by have := b.toNat_lt; omega
  have hlo : b.toNat % 16 < 16 := Nat.mod_lt _ (by decide)
  obtain ⟨h1, h2⟩ := hexDigit_facts ⟨b.toNat / 16, hhi⟩
  obtain ⟨_, h4⟩ := hexDigit_facts ⟨b.toNat % 16, hlo⟩
  simp only at h1 h2 h4
  have hx : escByte? 'x' = none := by decide
  have hb : UInt8.ofNat (b.toNat / 16 * 16 + b.toNat % 16) = b := by
    have : b.toNat / 16 * 16 + b.toNat % 16 = b.toNat := by omega
    rw [this]; simp
  simp [hex2, step, hx, finishHex, parseRadix16, digits16, h1, h2, h4, hb]

theorem run_char (enc : Char → Bytes) (he : EncAscii enc) (c : Char) (out : Bytes) :
    (escChar c).foldl (step enc) (St.norm, out) = (St.norm, out ++ enc c) := by
  unfold escChar
  split
  · rename_i h; subst h
    simp [step, escByte?, he.ascii '\\' (by decide)]
  split
  · rename_i h; subst h
    simp [step, escByte?, he.ascii '"' (by decide)]
  split
  · rename_i h; subst h
    simp [step, escByte?, he.ascii (Char.ofNat 7) (by decide)]
  split
  · rename_i h; subst h
    simp [step, escByte?, he.ascii (Char.ofNat 8) (by decide)]
  split
  · rename_i h; subst h
    simp [step, escByte?, he.ascii (Char.ofNat 12) (by decide)]
  split
  · rename_i h; subst h
    simp [step, escByte?, he.ascii (Char.ofNat 10) (by decide)]
  split
  · rename_i h; subst h
    simp [step, escByte?, he.ascii (Char.ofNat 13) (by decide)]
  split
  · rename_i h; subst h
    simp [step, escByte?, he.ascii (Char.ofNat 9) (by decide)]
  split
  · rename_i h; subst h
    simp [step, escByte?, he.ascii (Char.ofNat 11) (by decide)]
  · rename_i h _ _ _ _ _ _ _ _
    simp [step, h]

theorem run_item (enc : Char → Bytes) (he : EncAscii enc) (it : Item) (out : Bytes) :
    (escItem it).foldl (step enc) (St.norm, out) = (St.norm, out ++ itemBytes enc it) := by
  cases it with
  | ch c => exact run_char enc he c out
  | bad b => exact run_bad enc b out

theorem run_escape (enc : Char → Bytes) (he : EncAscii enc) : ∀ (items : List Item) (out : Bytes),
    (escape items).foldl (step enc) (St.norm, out) = (St.norm, out ++ items.flatMap (itemBytes enc))
  | [], out => by simp [escape]
  | it :: l, out => by
    have ih := run_escape enc he l (out ++ itemBytes enc it)
    simp only [escape, List.flatMap_cons, List.foldl_append] at ih ⊢
    rw [run_item enc he it out, ih, List.append_assoc]

theorem unescape_escape' (enc : Char → Bytes) (he : EncAscii enc) (items : List Item) :
    unescape enc (escape items) = some (items.flatMap (itemBytes enc)) := by
  unfold unescape
  rw [run_escape enc he items []]
  simp

/-! ### coalesced reads -/

def Group.Inv (g : Group) : Prop :=
  ∀ bl ∈ g.blobs, g.offset ≤ bl.offset ∧ bl.offset + bl.length ≤ g.offset + g.length

theorem inv_single (o : Loc) : (Group.single o).Inv := by
  intro bl hbl
  simp only [Group.single, List.mem_singleton] at hbl
  subst hbl
  simp [Group.single]

theorem inv_append {hole limit : Nat} {g : Group} {o : Loc} (hg : g.Inv) (hc : canCoalesce hole limit g o = true) :
    (g.append o).Inv := by
  simp only [canCoalesce, Bool.and_eq_true, decide_eq_true_eq] at hc
  obtain ⟨⟨_, h2⟩, _⟩ := hc
  intro bl hbl
  simp only [Group.append, List.mem_append, List.mem_singleton] at hbl ⊢
  rcases hbl with hbl | rfl
  · have := hg bl hbl
    omega
  · omega

theorem coalesceFrom_inv (hole limit : Nat) : ∀ (l : List Loc) (cur : Group), cur.Inv →
    ∀ g ∈ coalesceFrom hole limit cur l, g.Inv
  | [], cur, hc, g, hg => by
    simp only [coalesceFrom, List.mem_singleton] at hg
    subst hg; exact hc
  | o :: l, cur, hc, g, hg => by
    simp only [coalesceFrom] at hg
    split at hg
    · rename_i hcc
      exact coalesceFrom_inv hole limit l _ (inv_append hc hcc) g hg
    · rcases List.mem_cons.mp hg with rfl | hg'
      · exact hc
      · exact coalesceFrom_inv hole limit l _ (inv_single o) g hg'

theorem coalesceFrom_blobs (hole limit : Nat) : ∀ (l : List Loc) (cur : Group),
    (coalesceFrom hole limit cur l).flatMap (·.blobs) = cur.blobs ++ l
  | [], cur => by simp [coalesceFrom]
  | o :: l, cur => by
    simp only [coalesceFrom]
    split
    · rw [coalesceFrom_blobs hole limit l]
      simp [Group.append]
    · simp only [List.flatMap_cons]
      rw [coalesceFrom_blobs hole limit l]
      simp [Group.single]

theorem slice_eq {pack : Bytes} {g : Group} {bl : Loc}
    (h1 : g.offset ≤ bl.offset) (h2 : bl.offset + bl.length ≤ g.offset + g.length) :
    sliceOf pack g bl = (pack.drop bl.offset).take bl.length := by
  unfold sliceOf
  simp only
  rw [List.drop_take, List.drop_drop, List.take_take]
  have e1 : g.offset + (bl.offset - g.offset) = bl.offset := by omega
  have e2 : min (bl.offset + bl.length - g.offset - (bl.offset - g.offset)) (g.length - (bl.offset - g.offset)) = bl.length := by omega
  rw [e1, e2]

/-! ### positional writes -/

def covers (p : Nat) (w : Write) : Bool := decide (w.start ≤ p ∧ p < w.start + w.data.length)

/-- the byte at `p` after a sequence of writes: that of the last write covering `p`, else the old one -/
theorem applyWrites_byte : ∀ (ws : List Write) (f : File) (p : Nat),
    (applyWrites f ws).byte p =
      match ws.reverse.find? (covers p) with
      | some w => w.data.getD (p - w.start) 0
      | none => f.byte p
  | [], f, p => by simp [applyWrites]
  | w :: ws, f, p => by
    have ih := applyWrites_byte ws (writeAt f w) p
    simp only [applyWrites, List.foldl_cons] at ih ⊢
    rw [ih, List.reverse_cons, List.find?_append]
    cases hfind : ws.reverse.find? (covers p) with
    | some w' => simp
    | none =>
      simp only [Option.none_or, List.find?_cons, List.find?_nil]
      by_cases hc : covers p w = true
      · simp only [hc]
        simp only [covers, decide_eq_true_eq] at hc
        simp [writeAt, hc]
      · have hc' : covers p w = false := by simpa using hc
        simp only [hc']
        simp only [covers, decide_eq_false_iff_not] at hc'
        simp [writeAt, hc']

theorem applyWrites_len : ∀ (ws : List Write) (f : File) (n : Nat), f.len = n →
    (∀ w ∈ ws, w.start + w.data.length ≤ n) → (applyWrites f ws).len = n
  | [], f, n, hf, _ => by simpa [applyWrites] using hf
  | w :: ws, f, n, hf, hw => by
    simp only [applyWrites, List.foldl_cons]
    apply applyWrites_len ws (writeAt f w) n
    · have := hw w List.mem_cons_self
      simp only [writeAt]
      omega
    · exact fun w' hw' => hw w' (List.mem_cons_of_mem _ hw')

def totalLen (cs : List Bytes) : Nat := (cs.map List.length).sum

theorem flatten_length (cs : List Bytes) : cs.flatten.length = totalLen cs := by
  simp [totalLen, List.length_flatten]

theorem getD_of_lt {α} {l : List α} {p : Nat} {d : α} (h : p < l.length) : l.getD p d = l[p] := by
  simp [List.getD_eq_getElem?_getD, List.getElem?_eq_getElem h]

theorem getD_append_left' {α} {a b : List α} {p : Nat} {d : α} (h : p < a.length) :
    (a ++ b).getD p d = a.getD p d := by
  simp [List.getD_eq_getElem?_getD, List.getElem?_append_left h]

theorem getD_append_right' {α} {a b : List α} {p : Nat} {d : α} (h : a.length ≤ p) :
    (a ++ b).getD p d = b.getD (p - a.length) d := by
  simp [List.getD_eq_getElem?_getD, List.getElem?_append_right h]

/-- every write of `positions` writes the bytes the concatenation has there, and together they cover it -/
theorem positions_spec : ∀ (cs : List Bytes) (start : Nat),
    (∀ w ∈ positions start cs, start ≤ w.start ∧ w.start + w.data.length ≤ start + totalLen cs ∧
      ∀ p, covers p w = true → w.data.getD (p - w.start) 0 = cs.flatten.getD (p - start) 0) ∧
    (∀ p, start ≤ p → p < start + totalLen cs → ∃ w ∈ positions start cs, covers p w = true)
  | [], start => by simp [positions, totalLen]
  | c :: l, start => by
    obtain ⟨ih1, ih2⟩ := positions_spec l (start + c.length)
    have htl : totalLen (c :: l) = c.length + totalLen l := by simp [totalLen]
    refine ⟨?_, ?_⟩
    · intro w hw
      simp only [positions, List.mem_cons] at hw
      rcases hw with rfl | hw
      · refine ⟨Nat.le_refl _, by simp only [htl]; omega, ?_⟩
        intro p hp
        simp only [covers, decide_eq_true_eq] at hp
        simp only [List.flatten_cons]
        rw [getD_append_left' (by omega)]
      · obtain ⟨h1, h2, h3⟩ := ih1 w hw
        refine ⟨by omega, by simp only [htl]; omega, ?_⟩
        intro p hp
        rw [h3 p hp]
        have hp' := hp
        simp only [covers, decide_eq_true_eq] at hp'
        simp only [List.flatten_cons]
        rw [getD_append_right' (by omega)]
        congr 1
        omega
    · intro p hp1 hp2
      by_cases hlt : p < start + c.length
      · exact ⟨{ start := start, data := c }, by simp [positions], by simp [covers]; omega⟩
      · obtain ⟨w, hw, hc⟩ := ih2 p (by omega) (by simp only [htl] at hp2; omega)
        exact ⟨w, by simp [positions, hw], hc⟩

/-- Whatever order (and however often) the writes of `positions 0 cs` are performed on the zero-filled file of
the right length, the file ends up as the concatenation. -/
theorem writes_any_order (cs : List Bytes) (ws : List Write) (hmem : ∀ w, w ∈ ws ↔ w ∈ positions 0 cs) :
    (applyWrites (zeros (totalLen cs)) ws).bytes = cs.flatten := by
  obtain ⟨h1, h2⟩ := positions_spec cs 0
  have hlen : (applyWrites (zeros (totalLen cs)) ws).len = totalLen cs := by
    apply applyWrites_len ws _ (totalLen cs) rfl
    intro w hw
    have := (h1 w ((hmem w).mp hw)).2.1
    omega
  apply List.ext_getElem
  · simp only [File.bytes, List.length_map, List.length_range, hlen, flatten_length]
  · intro p hp1 hp2
    simp only [File.bytes, List.getElem_map, List.getElem_range]
    have hp : p < totalLen cs := by rw [← flatten_length]; exact hp2
    rw [applyWrites_byte]
    obtain ⟨w, hw, hc⟩ := h2 p (Nat.zero_le _) (by omega)
    have hw' : w ∈ ws.reverse := List.mem_reverse.mpr ((hmem w).mpr hw)
    cases hfind : ws.reverse.find? (covers p) with
    | none =>
      have := List.find?_eq_none.mp hfind w hw'
      simp [hc] at this
    | some w' =>
      have hmem' := List.mem_of_find?_eq_some hfind
      have hc' := List.find?_some hfind
      have := (h1 w' ((hmem w').mp (List.mem_reverse.mp hmem'))).2.2 p hc'
      simp only
      rw [this, Nat.sub_zero, getD_of_lt hp2]

/-! ### content path of one file -/

theorem mapM_store {store : Nat → Option Bytes} {hash : Bytes → Nat} : ∀ (chunks : List Bytes),
    (∀ c ∈ chunks, store (hash c) = some c) → (chunks.map hash).mapM store = some chunks
  | [], _ => rfl
  | c :: l, h => by
    have ih := mapM_store l (fun c' hc' => h c' (List.mem_cons_of_mem _ hc'))
    simp only [List.map_cons, List.mapM_cons, h c List.mem_cons_self, ih]
    rfl

theorem archive_store_get {hash : Bytes → Nat} {chunks : List Bytes} {store : Nat → Option Bytes}
    (hinj : ∀ a ∈ chunks, ∀ b ∈ chunks, hash a = hash b → a = b) :
    ∀ c ∈ chunks, (archiveFile hash chunks store).2 (hash c) = some c := by
  intro c hc
  simp only [archiveFile]
  cases hf : chunks.find? (fun c' => hash c' == hash c) with
  | none =>
    have := List.find?_eq_none.mp hf c hc
    simp at this
  | some c' =>
    have h1 := List.mem_of_find?_eq_some hf
    have h2 := List.find?_some hf
    simp only [beq_iff_eq] at h2
    simp [hinj c' h1 c hc h2]


/-! ### ranged reads -/

theorem drop_append_ge {α} : ∀ (a b : List α) (n : Nat), a.length ≤ n → (a ++ b).drop n = b.drop (n - a.length)
  | [], b, n, _ => by simp
  | x :: a, b, 0, h => by simp at h
  | x :: a, b, n + 1, h => by
    simp only [List.cons_append, List.drop_succ_cons, List.length_cons]
    rw [drop_append_ge a b n (by simpa using h)]
    congr 1
    omega

theorem take_min_length {α} (l : List α) (n : Nat) : l.take (min l.length n) = l.take n := by
  by_cases h : l.length ≤ n
  · rw [Nat.min_eq_left h, List.take_of_length_le (Nat.le_refl _), List.take_of_length_le h]
  · rw [Nat.min_eq_right (by omega)]

/-- the read loop started inside (or at the end of) its first blob returns the requested range -/
theorem readLoop_spec : ∀ (bs : List Bytes) (off len : Nat), (∀ d rest, bs = d :: rest → off ≤ d.length) →
    readLoop bs off len = (bs.flatten.drop off).take len
  | [], off, len, _ => by simp [readLoop]
  | d :: rest, off, len, h => by
    have hoff := h d rest rfl
    simp only [readLoop]
    by_cases hl : len = 0
    · simp [hl]
    · rw [if_neg hl, if_neg (by omega)]
      have ih := readLoop_spec rest 0 (len - min (d.length - off) len) (fun _ _ _ => Nat.zero_le _)
      rw [ih, List.flatten_cons, List.drop_append_of_le_length hoff, List.take_append, List.drop_zero,
        List.length_drop]
      congr 1
      · have := take_min_length (d.drop off) len
        rwa [List.length_drop] at this
      · congr 1
        omega

theorem readLoop_past_end (d : Bytes) (off len : Nat) (h : d.length < off) : readLoop [d] off len = [] := by
  simp only [readLoop]
  by_cases hl : len = 0
  · simp [hl]
  · rw [if_neg hl, if_pos h]

/-- `compute_start` + read loop on the start points beginning at `s`: the range `[offset, offset+len)` of the
concatenation, for every offset (also past the end) -/
theorem locate_read (maxv len : Nat) : ∀ (blobs : List Bytes) (s offset : Nat), blobs ≠ [] → s ≤ offset →
    offset < maxv →
    readLoop (blobs.drop (partitionLe offset (startsFrom s (blobs.map List.length) ++ [maxv]) - 1))
      (offset - (startsFrom s (blobs.map List.length) ++ [maxv]).getD
        (partitionLe offset (startsFrom s (blobs.map List.length) ++ [maxv]) - 1) 0) len
    = (blobs.flatten.drop (offset - s)).take len
  | [], _, _, h, _, _ => absurd rfl h
  | [d], s, offset, _, hs, hm => by
    have hp : partitionLe offset (startsFrom s ([d].map List.length) ++ [maxv]) = 1 := by
      simp [startsFrom, partitionLe, hs]; omega
    rw [hp]
    simp only [startsFrom, List.map_cons, List.map_nil, Nat.sub_self, List.drop_zero, List.cons_append,
      List.nil_append, List.getD_cons_zero, List.flatten_cons, List.flatten_nil, List.append_nil]
    by_cases hoff : offset - s ≤ d.length
    · have := readLoop_spec [d] (offset - s) len (by intro d' r h; cases h; exact hoff)
      simpa using this
    · rw [readLoop_past_end d _ len (by omega), List.drop_of_length_le (by omega)]
      simp
  | d :: d2 :: rest, s, offset, _, hs, hm => by
    have ih := locate_read maxv len (d2 :: rest) (s + d.length) offset (by simp)
    simp only [List.map_cons, startsFrom, List.cons_append, partitionLe, hs, if_true] at ih ⊢
    by_cases hnext : s + d.length ≤ offset
    · have ih' := ih hnext hm
      simp only [hnext, if_true] at ih' ⊢
      have e1 : 1 + (1 + partitionLe offset (startsFrom (s + d.length + d2.length) (rest.map List.length) ++ [maxv])) - 1
          = (1 + partitionLe offset (startsFrom (s + d.length + d2.length) (rest.map List.length) ++ [maxv]) - 1) + 1 := by omega
      have hR : ((d :: d2 :: rest).flatten.drop (offset - s)).take len
          = ((d2 :: rest).flatten.drop (offset - (s + d.length))).take len := by
        rw [List.flatten_cons, drop_append_ge d _ (offset - s) (by omega)]
        congr 2
        omega
      rw [e1, List.drop_succ_cons, List.getD_cons_succ, hR]
      exact ih'
    · simp only [hnext, if_false, Nat.add_zero, Nat.sub_self, List.drop_zero, List.getD_cons_zero]
      exact readLoop_spec _ _ _ (by intro d' r h; cases h; omega)

/-- `OpenFile::read_at` = drop/take of the concatenation, when the index reports the blobs' real lengths -/
theorem readAt_eq (maxv : Nat) (blobs : List Bytes) (offset len : Nat) (hm : offset < maxv) :
    readAt maxv (blobs.map List.length) blobs offset len = (blobs.flatten.drop offset).take len := by
  cases blobs with
  | nil => simp [readAt, computeStart, startpoints, readLoop]
  | cons d rest =>
    have := locate_read maxv len (d :: rest) 0 offset (by simp) (Nat.zero_le _) hm
    simp only [readAt, computeStart, startpoints, List.map_cons, List.isEmpty_cons, Bool.false_eq_true, if_false,
      startsFrom, List.cons_append] at this ⊢
    simpa using this

end Rustic.RoundTrip
