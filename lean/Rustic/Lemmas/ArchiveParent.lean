/-
Lemmas for C11 about the archiver pipeline: the root tree id depends only on the nodes handed to the
tree archiver; a parent-based run and a run without parent hand it the same nodes when the parent is
faithful (every parent entry with equal type/size/mtime/ctime has the content a fresh read gives).
-/
import Rustic.Lemmas.Parent
import Rustic.Model.Archive
namespace Rustic.Archive
open Rustic.Tree Rustic.Parent

/-! ### the tree archiver: ids depend on nodes only -/

/-- pointwise relation of two lists (core has no `Forall₂`) -/
inductive Rel2 {α β : Type} (R : α → β → Prop) : List α → List β → Prop
  | nil : Rel2 R [] []
  | cons {a b l1 l2} : R a b → Rel2 R l1 l2 → Rel2 R (a :: l1) (b :: l2)

def sameNode : TItem → TItem → Prop
  | .newTree n _, .newTree n' _ => n = n'
  | .endTree, .endTree => True
  | .other n _ _, .other n' _ _ => n = n'
  | _, _ => False

def TASame (s1 s2 : TA) : Prop :=
  s1.tree = s2.tree ∧ Rel2 (fun a b => a.1 = b.1 ∧ a.2.2 = b.2.2) s1.stack s2.stack

theorem backupTree_id (H : List Node → Id) (hasTree : Id → Bool) (s : TA) (p : PRes Id) :
    (s.backupTree H hasTree p).2 = H s.tree ∧ (s.backupTree H hasTree p).1.tree = s.tree ∧
      (s.backupTree H hasTree p).1.stack = s.stack := by
  unfold TA.backupTree
  simp only []
  split <;> simp

theorem add_same (H : List Node → Id) (h1 h2 : Id → Bool) (s1 s2 : TA) (a b : TItem)
    (hs : TASame s1 s2) (hab : sameNode a b) :
    (s1.add H h1 a = none ∧ s2.add H h2 b = none) ∨
    ∃ t1 t2, s1.add H h1 a = some t1 ∧ s2.add H h2 b = some t2 ∧ TASame t1 t2 := by
  obtain ⟨ht, hst⟩ := hs
  cases a with
  | newTree n r =>
    cases b with
    | newTree n' r' =>
      simp only [sameNode] at hab; subst hab
      right
      exact ⟨_, _, rfl, rfl, rfl, Rel2.cons ⟨rfl, ht⟩ hst⟩
    | endTree => simp [sameNode] at hab
    | other _ _ _ => simp [sameNode] at hab
  | endTree =>
    cases b with
    | endTree =>
      cases e1 : s1.stack with
      | nil =>
        cases e2 : s2.stack with
        | nil => left; simp [TA.add, e1, e2]
        | cons y ys => rw [e1, e2] at hst; cases hst
      | cons x xs =>
        cases e2 : s2.stack with
        | nil => rw [e1, e2] at hst; cases hst
        | cons y ys =>
          rw [e1, e2] at hst
          cases hst with
          | cons hxy hrest =>
          right
          obtain ⟨n1, p1, tr1⟩ := x
          obtain ⟨n2, p2, tr2⟩ := y
          simp only at hxy
          obtain ⟨hn, htr⟩ := hxy
          subst hn; subst htr
          obtain ⟨i1, i2, i3⟩ := backupTree_id H h1 s1 p1
          obtain ⟨j1, j2, j3⟩ := backupTree_id H h2 s2 p2
          refine ⟨_, _, by simp only [TA.add, e1]; rfl, by simp only [TA.add, e2]; rfl, ?_, ?_⟩
          · simp only [i1, j1, ht]
          · simpa using hrest
    | newTree _ _ => simp [sameNode] at hab
    | other _ _ _ => simp [sameNode] at hab
  | other n r sz =>
    cases b with
    | other n' r' sz' =>
      simp only [sameNode] at hab; subst hab
      right
      refine ⟨_, _, rfl, rfl, ?_, ?_⟩
      · simp [TA.addFile, ht]
      · simpa [TA.addFile] using hst
    | newTree _ _ => simp [sameNode] at hab
    | endTree => simp [sameNode] at hab

theorem addAll_same (H : List Node → Id) (h1 h2 : Id → Bool) (l1 l2 : List TItem)
    (hl : Rel2 sameNode l1 l2) : ∀ (s1 s2 : TA), TASame s1 s2 →
      (TA.addAll H h1 s1 l1 = none ∧ TA.addAll H h2 s2 l2 = none) ∨
      ∃ t1 t2, TA.addAll H h1 s1 l1 = some t1 ∧ TA.addAll H h2 s2 l2 = some t2 ∧ TASame t1 t2 := by
  induction hl with
  | nil => intro s1 s2 hs; exact Or.inr ⟨s1, s2, rfl, rfl, hs⟩
  | cons hab _ ih =>
    intro s1 s2 hs
    rcases add_same H h1 h2 s1 s2 _ _ hs hab with ⟨e1, e2⟩ | ⟨t1, t2, e1, e2, ht⟩
    · left; simp [TA.addAll, e1, e2]
    · simp only [TA.addAll, e1, e2]
      exact ih t1 t2 ht

/-! ### parent-based vs. parent-less run -/

/-- type, size, mtime and (unless ignored) ctime agree — the comparison named in the property. -/
def sameStat (o : Opts) (p node : Node) : Bool :=
  decide (p.kind = node.kind) && p.md.size == node.md.size && decide (p.md.mtime = node.md.mtime)
    && matchCtime o p.md node.md

theorem sameStat_of_metaMatch {o : Opts} {p node : Node} (h : metaMatch o p node = true) :
    sameStat o p node = true := by
  unfold metaMatch at h; unfold sameStat
  simp only [Bool.and_eq_true] at h ⊢
  exact h.1

/-- What a fresh read stores as the node's content. -/
def fullContent {γ} (chunk : γ → List Id) (node : Node) (x : γ) : Option (List Id) :=
  if node.kind = .file then some (chunk x) else node.content

/-- The premise of the property: along the walk, every parent entry at the path of a non-directory item
whose type, size, mtime and (unless ignored) ctime equal the item's carries the content a fresh read of the
item yields (i.e. every file that changed also changed its size, mtime or ctime). -/
def Faithful {γ} (o : Opts) (load : Id → Option (List Node)) (hasData : Id → Bool) (chunk : γ → List Id) :
    SState → List (Item γ) → Prop
  | _, [] => True
  | ss, it :: its =>
    (match it with
     | .other node x => ∀ p ∈ specPNode node.name ss.trees, sameStat o p node = true →
         p.content = fullContent chunk node x
     | _ => True) ∧
    Faithful o load hasData chunk (specProcess o load hasData ss it).1 its

def EmptyLike (ss : SState) : Prop := ss.trees = [] ∧ ∀ t ∈ ss.stack, t = []

theorem specIsParent_mem {o : Opts} {ss : SState} {node : Node} {name : Name} {p : Node}
    (h : specIsParent o ss node name = .matched p) :
    p ∈ specPNode name ss.trees ∧ metaMatch o p node = true := by
  unfold specIsParent at h
  split at h
  · cases h
  · split at h
    · rename_i hf
      injection h with h; subst h
      exact ⟨List.mem_of_find?_eq_some hf, by simpa using List.find?_some hf⟩
    · cases h

/-- both `none`, or both `some` with the same node for the tree archiver -/
def StepRel (a b : Option (TItem × List Id × Option Node)) : Prop :=
  match a, b with
  | none, none => True
  | some x, some y => sameNode x.1 y.1
  | _, _ => False

theorem step_pair {γ} (o : Opts) (load : Id → Option (List Node)) (hasData : Id → Bool)
    (chunk : γ → List Id) (len : γ → Nat) (ss ss0 : SState) (it : Item γ)
    (hE : EmptyLike ss0) (hlen : ss.stack.length = ss0.stack.length)
    (hf : match it with
      | .other node x => ∀ p ∈ specPNode node.name ss.trees, sameStat o p node = true →
          p.content = fullContent chunk node x
      | _ => True)
    (hnp : ∀ n, (specProcess o load hasData ss it).2 ≠ .panicNoSubtree ∨ n = 0) :
    EmptyLike (specProcess o load hasData ss0 it).1 ∧
    (specProcess o load hasData ss it).1.stack.length = (specProcess o load hasData ss0 it).1.stack.length ∧
    (specProcess o load hasData ss0 it).2 ≠ .panicNoSubtree ∧
    StepRel (fileStep chunk len hasData (specProcess o load hasData ss it).2)
      (fileStep chunk len hasData (specProcess o load hasData ss0 it).2) := by
  have hnp' : (specProcess o load hasData ss it).2 ≠ .panicNoSubtree := by
    rcases hnp 1 with h | h
    · exact h
    · cases h
  obtain ⟨hE1, hE2⟩ := hE
  have h0 : ∀ node name, specIsParent o ss0 node name = .notFound := by
    intro node name; simp [specIsParent, specPNode, hE1]
  cases it with
  | newTree node name =>
    have hset : EmptyLike (specSetDir load ss0 name) := by
      refine ⟨by simp [specSetDir, specPNode, hE1, sortDedup, dedupAdj], ?_⟩
      intro t ht
      simp only [specSetDir, List.mem_cons] at ht
      rcases ht with rfl | ht
      · exact hE1
      · exact hE2 t ht
    simp only [specProcess, h0] at hnp' ⊢
    cases hr : specIsParent o ss node name with
    | matched p =>
      simp only [hr] at hnp' ⊢
      cases hsub : p.subtree with
      | none => simp [hsub] at hnp'
      | some t =>
        refine ⟨hset, by simp [specSetDir, hlen], by simp, ?_⟩
        simp [StepRel, fileStep, sameNode]
    | notFound =>
      refine ⟨hset, by simp [specSetDir, hlen], by simp, ?_⟩
      simp [StepRel, fileStep, sameNode]
    | notMatched =>
      refine ⟨hset, by simp [specSetDir, hlen], by simp, ?_⟩
      simp [StepRel, fileStep, sameNode]
  | endTree =>
    cases hs : ss.stack with
    | nil =>
      have : ss0.stack = [] := by
        rw [hs] at hlen; exact List.length_eq_zero_iff.mp hlen.symm
      simp [specProcess, hs, this, hE1, hE2, EmptyLike, StepRel, fileStep]
    | cons t rest =>
      cases hs0 : ss0.stack with
      | nil => rw [hs, hs0] at hlen; simp at hlen
      | cons t0 rest0 =>
        rw [hs, hs0] at hlen
        have ht0 : t0 = [] := hE2 t0 (by rw [hs0]; exact List.mem_cons_self)
        refine ⟨⟨by simp [specProcess, hs0, ht0], ?_⟩, by simpa [specProcess, hs, hs0] using hlen, by simp [specProcess, hs0], ?_⟩
        · intro t' ht'
          simp only [specProcess, hs0] at ht'
          exact hE2 t' (by rw [hs0]; exact List.mem_cons_of_mem _ ht')
        · simp [specProcess, hs, hs0, StepRel, fileStep, sameNode]
  | other node x =>
    simp only [specProcess, h0]
    refine ⟨⟨hE1, hE2⟩, ?_, by simp, ?_⟩
    · cases specIsParent o ss node node.name with
      | matched p => by_cases hall : (p.content.getD []).all hasData = true <;> simp [hall, hlen]
      | notFound => exact hlen
      | notMatched => exact hlen
    · cases hr : specIsParent o ss node node.name with
      | matched p =>
        obtain ⟨hmem, hmm⟩ := specIsParent_mem hr
        have hc := hf p hmem (sameStat_of_metaMatch hmm)
        by_cases hall : (p.content.getD []).all hasData = true
        · simp only [hall, if_true]
          by_cases hk : node.kind = .file
          · simp [StepRel, fileStep, PRes.isMatched, hk, sameNode, hc, fullContent]
          · simp [StepRel, fileStep, PRes.isMatched, hk, sameNode, hc, fullContent]
        · have hall' : (p.content.getD []).all hasData = false := by simpa using hall
          simp only [hall']
          by_cases hk : node.kind = .file <;> simp [StepRel, fileStep, PRes.isMatched, hk, sameNode]
      | notFound =>
        by_cases hk : node.kind = .file <;> simp [StepRel, fileStep, PRes.isMatched, hk, sameNode]
      | notMatched =>
        by_cases hk : node.kind = .file <;> simp [StepRel, fileStep, PRes.isMatched, hk, sameNode]

theorem hasPanic_cons {γ} (a : Out γ) (l : List (Out γ)) (h : hasPanic (a :: l) = false) :
    a ≠ .panicNoSubtree ∧ hasPanic l = false := by
  cases a <;> simp_all [hasPanic]

theorem hasPanic_cons_of {γ} (a : Out γ) (l : List (Out γ)) (h1 : a ≠ .panicNoSubtree)
    (h2 : hasPanic l = false) : hasPanic (a :: l) = false := by
  cases a <;> simp_all [hasPanic]

theorem filterMap_rel {γ} (o : Opts) (load : Id → Option (List Node)) (hasData : Id → Bool)
    (chunk : γ → List Id) (len : γ → Nat) :
    ∀ (items : List (Item γ)) (ss ss0 : SState), EmptyLike ss0 → ss.stack.length = ss0.stack.length →
      Faithful o load hasData chunk ss items → hasPanic (specRun o load hasData ss items) = false →
      hasPanic (specRun o load hasData ss0 items) = false ∧
      Rel2 sameNode
        (((specRun o load hasData ss items).filterMap (fileStep chunk len hasData)).map (·.1))
        (((specRun o load hasData ss0 items).filterMap (fileStep chunk len hasData)).map (·.1))
  | [], _, _, _, _, _, _ => ⟨rfl, Rel2.nil⟩
  | it :: its, ss, ss0, hE, hlen, hf, hp => by
    simp only [specRun] at hp ⊢
    obtain ⟨hp1, hp2⟩ := hasPanic_cons _ _ hp
    obtain ⟨hf1, hf2⟩ := hf
    obtain ⟨a1, a2, a3, a4⟩ := step_pair o load hasData chunk len ss ss0 it hE hlen hf1 (fun _ => Or.inl hp1)
    obtain ⟨b1, b2⟩ := filterMap_rel o load hasData chunk len its _ _ a1 a2 hf2 hp2
    refine ⟨hasPanic_cons_of _ _ a3 b1, ?_⟩
    simp only [List.filterMap_cons]
    revert a4
    cases fileStep chunk len hasData (specProcess o load hasData ss it).2 <;>
      cases fileStep chunk len hasData (specProcess o load hasData ss0 it).2 <;>
      simp only [StepRel] <;> intro a4
    · exact b2
    · exact a4.elim
    · exact a4.elim
    · exact Rel2.cons a4 b2

end Rustic.Archive
