/-
Lemmas about the lock / queue net of concurrent `Packer::add_raw` calls (`Model/LockNet.lean`), for every number of
workers, every queue capacity ≥ 1 and every schedule:
* `progress_of_noLockWhileBlocked` — a state in which every holder of the indexer READ guard is in a phase whose next
                                     step is never blocked is final or has an enabled step (no deadlock);
* `step_measure`, `step_wf`        — every step decreases `measure` (no livelock), well-formedness is kept;
* `rdOnlyChk_invariant`, `runActs_noLock` — the code as it is (`keep = false`) keeps that discipline;
* `addRaw_progress`                — hence every reachable non-final state of the code as it is can step, towards the end;
* `lock_held_across_send_can_deadlock` — the variant that keeps the READ guard until `add_raw` returns reaches a state
                                     that is not final and has no enabled step.
-/
import Rustic.Model.LockNet
namespace Rustic.LockNet

/-! ### invariants -/

/-- a worker inside `add_raw` still has its current blob to add -/
def WF (s : LSt) : Prop := ∀ w ∈ s.ws, w.pc ≠ PC.out → 0 < w.left

/-- a worker that holds the READ guard is in a phase whose next step (`checked` / `added`) is never blocked -/
def NoLockWhileBlocked (s : LSt) : Prop := ∀ w ∈ s.ws, w.rd = true → w.pc = PC.chk ∨ w.pc = PC.inPk

/-- the READ guard is held during the `has` check only (what the code as it is does; inductive, implies the above) -/
def RdOnlyChk (s : LSt) : Prop := ∀ w ∈ s.ws, w.rd = true → w.pc = PC.chk

theorem RdOnlyChk.noLock {s : LSt} (h : RdOnlyChk s) : NoLockWhileBlocked s :=
  fun w hw hr => Or.inl (h w hw hr)

/-! ### list facts -/

theorem sumCost_set {ws : List W} {i : Nat} {w : W} (w' : W) (h : ws[i]? = some w) :
    sumCost (ws.set i w') + cost w = sumCost ws + cost w' := by
  induction ws generalizing i with
  | nil => simp at h
  | cons x xs ih =>
    cases i with
    | zero =>
      simp only [List.getElem?_cons_zero, Option.some.injEq] at h
      subst h
      simp only [List.set_cons_zero, sumCost]
      omega
    | succ j =>
      simp only [List.getElem?_cons_succ] at h
      have := ih h
      simp only [List.set_cons_succ, sumCost]
      omega

/-- a property of all workers survives the update of one worker to a worker that has it -/
theorem forall_upd {P : W → Prop} {s : LSt} {i : Nat} {w' : W} (h : ∀ w ∈ s.ws, P w) (h' : P w') :
    ∀ w ∈ (upd s i w').ws, P w := by
  intro w hw
  rcases List.mem_or_eq_of_mem_set hw with hm | rfl
  · exact h w hm
  · exact h'

theorem readers_eq_zero {s : LSt} : readers s = 0 ↔ ∀ w ∈ s.ws, w.rd = false := by
  simp [readers, List.countP_eq_zero]

theorem pkHeld_eq_false {s : LSt} : pkHeld s = false ↔ ∀ w ∈ s.ws, w.pc ≠ PC.inPk ∧ w.pc ≠ PC.send := by
  simp [pkHeld, holdsPk]

theorem final_iff {s : LSt} :
    final s = true ↔ s.queue = 0 ∧ s.idx = false ∧ ∀ w ∈ s.ws, w.pc = PC.out ∧ w.left = 0 := by
  simp [final, isDone, and_assoc]

/-! ### when an action is enabled -/

theorem step_begin {keep cap s i w} (h : s.ws[i]? = some w) (h1 : w.pc = PC.out) (h2 : 0 < w.left) (h3 : s.idx = false) :
    ∃ s', step keep cap s (.begin i) = some s' := by
  simp [step, h, h1, h2, h3]

theorem step_checked {keep cap s i w} (h : s.ws[i]? = some w) (h1 : w.pc = PC.chk) :
    ∃ s', step keep cap s (.checked i) = some s' := by
  simp [step, h, h1]

theorem step_lockPk {keep cap s i w} (h : s.ws[i]? = some w) (h1 : w.pc = PC.wantPk) (h2 : pkHeld s = false) :
    ∃ s', step keep cap s (.lockPk i) = some s' := by
  simp [step, h, h1, h2]

theorem step_added {keep cap s i w} (full : Bool) (h : s.ws[i]? = some w) (h1 : w.pc = PC.inPk) :
    ∃ s', step keep cap s (.added i full) = some s' := by
  simp [step, h, h1]

theorem step_sent {keep cap s i w} (h : s.ws[i]? = some w) (h1 : w.pc = PC.send) (h2 : s.queue < cap) :
    ∃ s', step keep cap s (.sent i) = some s' := by
  simp [step, h, h1, h2]

theorem step_take {keep cap s} (h1 : 0 < s.queue) (h2 : s.idx = false) :
    ∃ s', step keep cap s .take = some s' := by
  simp [step, h1, h2]

theorem step_index {keep cap s} (h1 : s.idx = true) (h2 : readers s = 0) :
    ∃ s', step keep cap s .index = some s' := by
  simp [step, h1, h2]

/-! ### 2. progress: no deadlock while no READ guard is held across a blocking step -/

theorem progress_of_noLockWhileBlocked {keep : Bool} {cap : Nat} {s : LSt}
    (hcap : 0 < cap) (hnl : NoLockWhileBlocked s) (hnf : ¬ final s) :
    ∃ a s', step keep cap s a = some s' := by
  cases hidx : s.idx with
  | true =>
    -- the actor's index stage wants the write lock
    by_cases hr : readers s = 0
    · exact ⟨.index, step_index hidx hr⟩
    · rw [readers_eq_zero] at hr
      simp only [Classical.not_forall, Bool.not_eq_false] at hr
      obtain ⟨w, hw, hrd⟩ := hr
      obtain ⟨i, hi⟩ := List.getElem?_of_mem hw
      rcases hnl w hw hrd with hpc | hpc
      · exact ⟨.checked i, step_checked hi hpc⟩
      · exact ⟨.added i false, step_added false hi hpc⟩
  | false =>
    by_cases hq : 0 < s.queue
    · exact ⟨.take, step_take hq hidx⟩
    · have hq0 : s.queue = 0 := by omega
      cases hpk : pkHeld s with
      | true =>
        -- the holder of the raw_packer lock can go on: the queue is empty
        simp only [pkHeld, holdsPk, List.any_eq_true, Bool.or_eq_true, beq_iff_eq] at hpk
        obtain ⟨w, hw, hpc⟩ := hpk
        obtain ⟨i, hi⟩ := List.getElem?_of_mem hw
        rcases hpc with hpc | hpc
        · exact ⟨.added i false, step_added false hi hpc⟩
        · exact ⟨.sent i, step_sent hi hpc (by omega)⟩
      | false =>
        have hnd : ∃ w ∈ s.ws, ¬ (w.pc = PC.out ∧ w.left = 0) := by
          apply Classical.byContradiction
          intro hall
          apply hnf
          rw [final_iff]
          refine ⟨hq0, hidx, fun w hw => ?_⟩
          apply Classical.byContradiction
          intro hc
          exact hall ⟨w, hw, hc⟩
        obtain ⟨w, hw, hnd⟩ := hnd
        obtain ⟨i, hi⟩ := List.getElem?_of_mem hw
        have hfree := (pkHeld_eq_false.mp hpk) w hw
        cases hpc : w.pc with
        | out => exact ⟨.begin i, step_begin hi hpc (by simp only [hpc, true_and] at hnd; omega) hidx⟩
        | chk => exact ⟨.checked i, step_checked hi hpc⟩
        | wantPk => exact ⟨.lockPk i, step_lockPk hi hpc hpk⟩
        | inPk => exact absurd hpc hfree.1
        | send => exact absurd hpc hfree.2

/-! ### 3. every step decreases the measure and keeps well-formedness -/

theorem measure_upd {s : LSt} {i : Nat} {w : W} (w' : W) (q : Nat) (h : s.ws[i]? = some w) :
    measure { upd s i w' with queue := q } + 3 * cost w + 2 * s.queue = measure s + 3 * cost w' + 2 * q := by
  have := sumCost_set w' h
  simp only [measure, upd]
  omega

theorem step_measure {keep : Bool} {cap : Nat} {s s' : LSt} {a : Act}
    (hwf : WF s) (h : step keep cap s a = some s') : measure s' < measure s := by
  cases a with
  | begin i =>
    simp only [step] at h
    split at h
    · next w hi =>
      split at h
      · next hc =>
        simp only [Option.some.injEq] at h; subst h
        have := measure_upd { w with pc := .chk, rd := true } s.queue hi
        simp only [cost, off, hc.1] at this
        simp only [upd] at this ⊢
        omega
      · simp at h
    · simp at h
  | checked i =>
    simp only [step] at h
    split at h
    · next w hi =>
      split at h
      · next hc =>
        simp only [Option.some.injEq] at h; subst h
        have := measure_upd { w with pc := .wantPk, rd := keep } s.queue hi
        have := hwf w (List.mem_of_getElem? hi) (by simp [hc])
        simp only [cost, off, hc] at *
        simp only [upd] at *
        omega
      · simp at h
    · simp at h
  | lockPk i =>
    simp only [step] at h
    split at h
    · next w hi =>
      split at h
      · next hc =>
        simp only [Option.some.injEq] at h; subst h
        have := measure_upd { w with pc := .inPk } s.queue hi
        have := hwf w (List.mem_of_getElem? hi) (by simp [hc.1])
        simp only [cost, off, hc.1] at *
        simp only [upd] at *
        omega
      · simp at h
    · simp at h
  | added i full =>
    simp only [step] at h
    split at h
    · next w hi =>
      split at h
      · next hc =>
        simp only [Option.some.injEq] at h; subst h
        have hl := hwf w (List.mem_of_getElem? hi) (by simp [hc])
        cases full with
        | true =>
          have := measure_upd { w with pc := .send } s.queue hi
          simp only [cost, off, hc] at *
          simp only [upd, if_true] at *
          omega
        | false =>
          have := measure_upd (done w) s.queue hi
          simp only [cost, off, hc, done] at *
          simp only [upd, Bool.false_eq_true, if_false] at *
          omega
      · simp at h
    · simp at h
  | sent i =>
    simp only [step] at h
    split at h
    · next w hi =>
      split at h
      · next hc =>
        simp only [Option.some.injEq] at h; subst h
        have := measure_upd (done w) (s.queue + 1) hi
        have hl := hwf w (List.mem_of_getElem? hi) (by simp [hc.1])
        simp only [cost, off, hc.1, done] at *
        omega
      · simp at h
    · simp at h
  | take =>
    simp only [step] at h
    split at h
    · next hc =>
      simp only [Option.some.injEq] at h; subst h
      simp only [measure, hc.2]
      simp
      omega
    · simp at h
  | index =>
    simp only [step] at h
    split at h
    · next hc =>
      simp only [Option.some.injEq] at h; subst h
      simp only [measure, hc.1]
      simp
    · simp at h

theorem step_wf {keep : Bool} {cap : Nat} {s s' : LSt} {a : Act}
    (hwf : WF s) (h : step keep cap s a = some s') : WF s' := by
  cases a with
  | begin i =>
    simp only [step] at h
    split at h
    · next w hi =>
      split at h
      · next hc =>
        simp only [Option.some.injEq] at h; subst h
        exact forall_upd hwf (fun _ => hc.2.1)
      · simp at h
    · simp at h
  | checked i =>
    simp only [step] at h
    split at h
    · next w hi =>
      split at h
      · next hc =>
        simp only [Option.some.injEq] at h; subst h
        exact forall_upd hwf (fun _ => hwf w (List.mem_of_getElem? hi) (by simp [hc]))
      · simp at h
    · simp at h
  | lockPk i =>
    simp only [step] at h
    split at h
    · next w hi =>
      split at h
      · next hc =>
        simp only [Option.some.injEq] at h; subst h
        exact forall_upd hwf (fun _ => hwf w (List.mem_of_getElem? hi) (by simp [hc.1]))
      · simp at h
    · simp at h
  | added i full =>
    simp only [step] at h
    split at h
    · next w hi =>
      split at h
      · next hc =>
        simp only [Option.some.injEq] at h; subst h
        refine forall_upd hwf ?_
        cases full with
        | true => exact fun _ => hwf w (List.mem_of_getElem? hi) (by simp [hc])
        | false => simp [done]
      · simp at h
    · simp at h
  | sent i =>
    simp only [step] at h
    split at h
    · next w hi =>
      split at h
      · next hc =>
        simp only [Option.some.injEq] at h; subst h
        exact forall_upd (s := s) (i := i) hwf (by simp [done])
      · simp at h
    · simp at h
  | take =>
    simp only [step] at h
    split at h
    · simp only [Option.some.injEq] at h; subst h; exact hwf
    · simp at h
  | index =>
    simp only [step] at h
    split at h
    · simp only [Option.some.injEq] at h; subst h; exact hwf
    · simp at h

/-! ### 4. the code as it is keeps the discipline -/

theorem rdOnlyChk_invariant {cap : Nat} {s s' : LSt} {a : Act}
    (hinv : RdOnlyChk s) (h : step false cap s a = some s') : RdOnlyChk s' := by
  cases a with
  | begin i =>
    simp only [step] at h
    split at h
    · split at h
      · simp only [Option.some.injEq] at h; subst h
        exact forall_upd hinv (fun _ => rfl)
      · simp at h
    · simp at h
  | checked i =>
    simp only [step] at h
    split at h
    · split at h
      · simp only [Option.some.injEq] at h; subst h
        exact forall_upd hinv (by simp)
      · simp at h
    · simp at h
  | lockPk i =>
    simp only [step] at h
    split at h
    · next w hi =>
      split at h
      · next hc =>
        simp only [Option.some.injEq] at h; subst h
        refine forall_upd hinv (fun hr => ?_)
        have := hinv w (List.mem_of_getElem? hi) hr
        simp [hc.1] at this
      · simp at h
    · simp at h
  | added i full =>
    simp only [step] at h
    split at h
    · next w hi =>
      split at h
      · next hc =>
        simp only [Option.some.injEq] at h; subst h
        refine forall_upd hinv ?_
        cases full with
        | true =>
          intro hr
          have := hinv w (List.mem_of_getElem? hi) hr
          simp [hc] at this
        | false => simp [done]
      · simp at h
    · simp at h
  | sent i =>
    simp only [step] at h
    split at h
    · split at h
      · simp only [Option.some.injEq] at h; subst h
        exact forall_upd (s := s) (i := i) hinv (by simp [done])
      · simp at h
    · simp at h
  | take =>
    simp only [step] at h
    split at h
    · simp only [Option.some.injEq] at h; subst h; exact hinv
    · simp at h
  | index =>
    simp only [step] at h
    split at h
    · simp only [Option.some.injEq] at h; subst h; exact hinv
    · simp at h

/-- `NoLockWhileBlocked` itself is kept by every step of the code as it is, from states in which the READ guard is
    held during the check only (alone it is not inductive: it allows a reader in `inPk`, whose `added _ true` leads to
    `send`) -/
theorem noLock_invariant {cap : Nat} {s s' : LSt} {a : Act}
    (hinv : RdOnlyChk s) (h : step false cap s a = some s') : NoLockWhileBlocked s' :=
  (rdOnlyChk_invariant hinv h).noLock

theorem init_wf (lefts : List Nat) : WF (init lefts) := by
  intro w hw
  simp only [init, List.mem_map] at hw
  obtain ⟨n, _, rfl⟩ := hw
  simp

theorem init_rdOnlyChk (lefts : List Nat) : RdOnlyChk (init lefts) := by
  intro w hw
  simp only [init, List.mem_map] at hw
  obtain ⟨n, _, rfl⟩ := hw
  simp

theorem init_noLock (lefts : List Nat) : NoLockWhileBlocked (init lefts) := (init_rdOnlyChk lefts).noLock

theorem runActs_wf {keep : Bool} {cap : Nat} {s : LSt} (acts : List Act) (h : WF s) : WF (runActs keep cap s acts) := by
  induction acts generalizing s with
  | nil => exact h
  | cons a as ih =>
    simp only [runActs]
    split
    · next s' hs => exact ih (step_wf h hs)
    · exact ih h

theorem runActs_rdOnlyChk {cap : Nat} {s : LSt} (acts : List Act) (h : RdOnlyChk s) :
    RdOnlyChk (runActs false cap s acts) := by
  induction acts generalizing s with
  | nil => exact h
  | cons a as ih =>
    simp only [runActs]
    split
    · next s' hs => exact ih (rdOnlyChk_invariant h hs)
    · exact ih h

theorem runActs_noLock {cap : Nat} {s : LSt} (acts : List Act) (h : RdOnlyChk s) :
    NoLockWhileBlocked (runActs false cap s acts) := (runActs_rdOnlyChk acts h).noLock

/-! ### 5. the code as it is: every reachable state is final or can step, and every step leads towards the end -/

theorem addRaw_progress {cap : Nat} (hcap : 0 < cap) (lefts : List Nat) (acts : List Act) :
    let s := runActs false cap (init lefts) acts
    ¬ final s → ∃ a s', step false cap s a = some s' ∧ measure s' < measure s := by
  intro s hnf
  have hwf : WF s := runActs_wf acts (init_wf lefts)
  obtain ⟨a, s', hs⟩ := progress_of_noLockWhileBlocked (keep := false) hcap (runActs_noLock acts (init_rdOnlyChk lefts)) hnf
  exact ⟨a, s', hs, step_measure hwf hs⟩

/-- so the number of steps of any run of the code as it is is bounded by the initial measure -/
theorem measure_init (lefts : List Nat) : measure (init lefts) = 15 * lefts.sum := by
  have : ∀ l : List Nat, sumCost (l.map fun n => ({ left := n } : W)) = 5 * l.sum := by
    intro l
    induction l with
    | nil => rfl
    | cons n l ih => simp only [List.map_cons, sumCost, ih, List.sum_cons, cost, off]; omega
  simp only [measure, init, this, Bool.toNat_false]
  omega

/-! ### 6. the variant that keeps the READ guard until `add_raw` returns can deadlock -/

/-- an action of a worker that does not exist is not enabled -/
theorem step_none_of_ge {keep : Bool} {cap : Nat} {s : LSt} {i : Nat} (h : s.ws.length ≤ i) :
    step keep cap s (.begin i) = none ∧ step keep cap s (.checked i) = none ∧ step keep cap s (.lockPk i) = none ∧
    (∀ full, step keep cap s (.added i full) = none) ∧ step keep cap s (.sent i) = none := by
  have hi : s.ws[i]? = none := List.getElem?_eq_none h
  simp [step, hi]

/-- no action at all is enabled, given that `stuck` (which tries the actions of the existing workers) says so -/
theorem stuck_spec {keep : Bool} {cap : Nat} {s : LSt} (h : stuck keep cap s = true) (a : Act) :
    step keep cap s a = none := by
  simp only [stuck, Bool.and_eq_true, List.all_eq_true, List.mem_range, Option.isNone_iff_eq_none] at h
  obtain ⟨⟨hw, ht⟩, hx⟩ := h
  have hlt : ∀ i, i < s.ws.length → ∀ b ∈ [Act.begin i, .checked i, .lockPk i, .added i true, .added i false, .sent i],
      step keep cap s b = none := hw
  have hge := @step_none_of_ge keep cap s
  cases a with
  | begin i =>
    by_cases hi : i < s.ws.length
    · exact hlt i hi _ (by simp)
    · exact (hge (Nat.le_of_not_lt hi)).1
  | checked i =>
    by_cases hi : i < s.ws.length
    · exact hlt i hi _ (by simp)
    · exact (hge (Nat.le_of_not_lt hi)).2.1
  | lockPk i =>
    by_cases hi : i < s.ws.length
    · exact hlt i hi _ (by simp)
    · exact (hge (Nat.le_of_not_lt hi)).2.2.1
  | added i full =>
    by_cases hi : i < s.ws.length
    · cases full
      · exact hlt i hi _ (by simp)
      · exact hlt i hi _ (by simp)
    · exact (hge (Nat.le_of_not_lt hi)).2.2.2.1 full
  | sent i =>
    by_cases hi : i < s.ws.length
    · exact hlt i hi _ (by simp)
    · exact (hge (Nat.le_of_not_lt hi)).2.2.2.2
  | take => exact ht
  | index => exact hx

/-- queue capacity 1, three workers.  Worker 0 sends a first pack; all three enter `add_raw` and keep the READ guard;
    the actor writes the first pack and now wants `indexer.write()`; worker 0 fills the queue again and leaves;
    worker 1 gets the raw_packer lock, fills its pack and blocks in `send` -/
def deadlockSchedule : List Act :=
  [.begin 0, .checked 0, .lockPk 0, .added 0 true, .sent 0,
   .begin 0, .begin 1, .begin 2, .checked 0, .checked 1, .checked 2,
   .take, .lockPk 0, .added 0 true, .sent 0, .lockPk 1, .added 1 true]

/-- the state it ends in: worker 1 holds READ + raw_packer and is blocked in `send` (queue full), worker 2 holds READ and
    waits for raw_packer, the index stage waits for the write lock, worker 0 cannot enter (a writer waits) -/
theorem deadlockSchedule_end :
    runActs true 1 (init [2, 1, 1]) deadlockSchedule =
      { ws := [{ left := 0, pc := .out, rd := false }, { left := 1, pc := .send, rd := true },
               { left := 1, pc := .wantPk, rd := true }],
        queue := 1, idx := true } := by
  decide

theorem lock_held_across_send_can_deadlock :
    ∃ acts, let s := runActs true 1 (init [2, 1, 1]) acts
      final s = false ∧ ∀ a, step true 1 s a = none := by
  refine ⟨deadlockSchedule, ?_⟩
  simp only [deadlockSchedule_end]
  exact ⟨by decide, stuck_spec (by decide)⟩

/-- two workers are enough for a stuck state (one reader, blocked in `send`) -/
theorem lock_held_across_send_can_deadlock_two :
    ∃ acts, let s := runActs true 1 (init [2, 1]) acts
      final s = false ∧ ∀ a, step true 1 s a = none := by
  refine ⟨[.begin 0, .checked 0, .lockPk 0, .added 0 true, .sent 0, .begin 0, .begin 1, .checked 0, .checked 1,
           .take, .lockPk 0, .added 0 true, .sent 0, .lockPk 1, .added 1 true], ?_⟩
  exact ⟨by decide, stuck_spec (by decide)⟩

/-- a larger writer queue does not help: capacity 4 (the `bounded(1)` channel plus three read-ahead stages), six workers -/
theorem lock_held_across_send_can_deadlock_cap4 :
    ∃ acts, let s := runActs true 4 (init [2, 1, 1, 1, 1, 1]) acts
      final s = false ∧ ∀ a, step true 4 s a = none := by
  refine ⟨[.begin 0, .checked 0, .lockPk 0, .added 0 true, .sent 0,
           .begin 0, .begin 1, .begin 2, .begin 3, .begin 4, .begin 5,
           .checked 0, .checked 1, .checked 2, .checked 3, .checked 4, .checked 5, .take,
           .lockPk 0, .added 0 true, .sent 0, .lockPk 1, .added 1 true, .sent 1, .lockPk 2, .added 2 true, .sent 2,
           .lockPk 3, .added 3 true, .sent 3, .lockPk 4, .added 4 true], ?_⟩
  exact ⟨by decide, stuck_spec (by decide)⟩

/-- the deadlocked state violates the discipline of `progress_of_noLockWhileBlocked` (it has to) -/
example : ¬ NoLockWhileBlocked (runActs true 1 (init [2, 1, 1]) deadlockSchedule) := by
  rw [deadlockSchedule_end]
  intro h
  have := h { left := 1, pc := .send, rd := true } (by simp) rfl
  simp at this

/-! ### 7. the same schedule with the code as it is does not get stuck -/

example : let s := runActs false 1 (init [2, 1, 1]) deadlockSchedule
    final s = true ∨ ∃ a, (step false 1 s a).isSome = true := by
  exact Or.inr ⟨.index, by decide⟩

example : stuck false 1 (runActs false 1 (init [2, 1, 1]) deadlockSchedule) = false := by decide

/-! ### the general shape of the deadlock (any capacity, any number of workers) -/

/-- The index stage waits for the write lock, the writer queue is full, some worker is inside the blocking `send` (so it
holds the raw_packer lock), some worker holds the READ guard, and every worker is outside `add_raw`, in `send`, or waiting for
the raw_packer lock: nothing is enabled — whatever `cap` and however many workers. -/
theorem stuck_of_blocked_readers {keep : Bool} {cap : Nat} {s : LSt} (hidx : s.idx = true) (hq : cap ≤ s.queue)
    (hpc : ∀ w ∈ s.ws, w.pc = PC.out ∨ w.pc = PC.send ∨ w.pc = PC.wantPk) (hsend : ∃ w ∈ s.ws, w.pc = PC.send)
    (hrd : ∃ w ∈ s.ws, w.rd = true) : ∀ a, step keep cap s a = none := by
  have hheld : pkHeld s = true := by
    obtain ⟨w, hw, hp⟩ := hsend
    simp only [pkHeld, List.any_eq_true]
    exact ⟨w, hw, by simp [holdsPk, hp]⟩
  have hreaders : readers s ≠ 0 := by
    intro h0
    obtain ⟨w, hw, hr⟩ := hrd
    have := readers_eq_zero.mp h0 w hw
    rw [hr] at this; cases this
  intro a
  cases a with
  | take => simp [step, hidx]
  | index => simp [step, hreaders]
  | begin i =>
    cases hi : s.ws[i]? with
    | none => simp [step, hi]
    | some w => simp [step, hi, hidx]
  | checked i =>
    cases hi : s.ws[i]? with
    | none => simp [step, hi]
    | some w =>
      have := hpc w (List.mem_of_getElem? hi)
      have hne : w.pc ≠ PC.chk := by rcases this with h | h | h <;> simp [h]
      simp [step, hi, hne]
  | lockPk i =>
    cases hi : s.ws[i]? with
    | none => simp [step, hi]
    | some w => simp [step, hi, hheld]
  | added i full =>
    cases hi : s.ws[i]? with
    | none => simp [step, hi]
    | some w =>
      have := hpc w (List.mem_of_getElem? hi)
      have hne : w.pc ≠ PC.inPk := by rcases this with h | h | h <;> simp [h]
      simp [step, hi, hne]
  | sent i =>
    cases hi : s.ws[i]? with
    | none => simp [step, hi]
    | some w => simp [step, hi]; intro _; omega

/-! ### a step bound: every executed step costs at least one unit of `measure` -/

theorem executed_le_measure {keep : Bool} {cap : Nat} : ∀ (acts : List Act) (s : LSt), WF s →
    measure (runActs keep cap s acts) + executed keep cap s acts ≤ measure s
  | [], _, _ => by simp [runActs, executed]
  | a :: as, s, hwf => by
    simp only [runActs, executed]
    cases hst : step keep cap s a with
    | none => exact executed_le_measure as s hwf
    | some s' =>
      simp only []
      have h1 := step_measure hwf hst
      have h2 := executed_le_measure (keep := keep) (cap := cap) as s' (step_wf hwf hst)
      omega

end Rustic.LockNet
