/-
Lemmas about the pack-writer transition system (`Model/PackWriter.lean`): the invariant behind the C08 ORDER theorem.
-/
import Rustic.Model.PackWriter
import Rustic.Lemmas.Pack
namespace Rustic.PackWriter
open Rustic.Pack
open Rustic.Index (IndexPack)

/-! ### logs -/

theorem WrittenIn.mono {log : List Log} {p : IndexPack} (log' : List Log) (h : WrittenIn log p) :
    WrittenIn (log ++ log') p := by
  obtain ⟨f, hf, hl⟩ := h
  exact ⟨f, List.mem_append_left _ hf, hl⟩

/-- `After`/`Ordered` with an arbitrary "is backed by a write" predicate (the invariant carries a stronger one) -/
def AfterBy (W : List Log → IndexPack → Prop) (pre : List Log) : Log → Prop
  | .packWrite _ _ _ => True
  | .indexAdd p => W pre p
  | .indexWrite packs _ => ∀ p ∈ packs, W pre p

def OrderedBy (W : List Log → IndexPack → Prop) (log : List Log) : Prop :=
  ∀ pre e post, log = pre ++ e :: post → AfterBy W pre e

theorem after_iff (pre : List Log) (e : Log) : After pre e ↔ AfterBy WrittenIn pre e := by cases e <;> rfl

theorem ordered_iff (log : List Log) : Ordered log ↔ OrderedBy WrittenIn log := by
  simp only [Ordered, OrderedBy, after_iff]

theorem AfterBy.imp {W W' : List Log → IndexPack → Prop} (h : ∀ l p, W l p → W' l p) {pre : List Log} {e : Log}
    (ha : AfterBy W pre e) : AfterBy W' pre e := by
  cases e with
  | packWrite _ _ _ => trivial
  | indexAdd p => exact h _ _ ha
  | indexWrite packs _ => exact fun p hp => h _ _ (ha p hp)

theorem OrderedBy.imp {W W' : List Log → IndexPack → Prop} (h : ∀ l p, W l p → W' l p) {log : List Log}
    (ho : OrderedBy W log) : OrderedBy W' log := fun pre e post heq => (ho pre e post heq).imp h

theorem orderedBy_nil (W : List Log → IndexPack → Prop) : OrderedBy W [] := by
  intro pre e post h
  cases pre <;> cases h

theorem orderedBy_snoc {W : List Log → IndexPack → Prop} {log : List Log} {e : Log}
    (h : OrderedBy W log) (he : AfterBy W log e) : OrderedBy W (log ++ [e]) := by
  intro pre e' post heq
  rcases List.eq_nil_or_concat post with hp | ⟨post', x, hp⟩
  · subst hp
    have := List.append_inj' heq (by simp)
    obtain ⟨h1, h2⟩ := this
    cases h2
    subst h1
    exact he
  · subst hp
    have heq' : log ++ [e] = (pre ++ e' :: post') ++ [x] := by simpa using heq
    have := List.append_inj' heq' (by simp)
    exact h pre e' post' this.1

/-- the executable check decides `Ordered` -/
theorem orderedFrom_iff (pre l : List Log) :
    orderedFrom pre l = true ↔ ∀ a e b, l = a ++ e :: b → After (pre ++ a) e := by
  induction l generalizing pre with
  | nil =>
    simp only [orderedFrom, true_iff]
    intro a e b h
    cases a <;> cases h
  | cons x xs ih =>
    simp only [orderedFrom, Bool.and_eq_true, decide_eq_true_eq, ih]
    constructor
    · rintro ⟨h1, h2⟩ a e b heq
      cases a with
      | nil =>
        simp only [List.nil_append, List.cons.injEq] at heq
        obtain ⟨rfl, _⟩ := heq
        simpa using h1
      | cons y ys =>
        simp only [List.cons_append, List.cons.injEq] at heq
        obtain ⟨rfl, heq⟩ := heq
        have := h2 ys e b heq
        simpa using this
    · intro h
      refine ⟨by simpa using h [] x xs rfl, ?_⟩
      intro a e b heq
      have := h (x :: a) e b (by simp [heq])
      simpa using this

theorem ordered_iff_check (log : List Log) : Ordered log ↔ orderedFrom [] log = true := by
  rw [orderedFrom_iff]; simp [Ordered]

/-! ### the invariant -/

/-- `file`/`blobs` are what `RawPacker::save` takes out of a reachable `BasicPacker` -/
def Built (enc : Bytes → Bytes) (file : Bytes) (blobs : List IndexBlob) : Prop :=
  ∃ q : Packer, q.Inv ∧ file = (q.finish enc).1 ∧ blobs = q.blobs

/-- `p` names a file that was successfully written before: the very bytes the packer built for `p.blobs`, stored under
their hash, and `p` carries no explicit `size` -/
def Backed (enc : Bytes → Bytes) (hash : Bytes → Nat) (log : List Log) (p : IndexPack) : Prop :=
  ∃ file, Built enc file p.blobs ∧ Log.packWrite p.id file true ∈ log ∧ p.id = hash file ∧ p.size = none

theorem Backed.mono {enc : Bytes → Bytes} {hash : Bytes → Nat} {log : List Log} {p : IndexPack} (log' : List Log)
    (h : Backed enc hash log p) : Backed enc hash (log ++ log') p := by
  obtain ⟨f, hb, hm, hi, hs⟩ := h
  exact ⟨f, hb, List.mem_append_left _ hm, hi, hs⟩

theorem Built.length {enc : Bytes → Bytes} (hlen : ∀ x, (enc x).length = x.length + Rustic.Gen.PACK_COMP_OVERHEAD)
    {file : Bytes} {blobs : List IndexBlob} (h : Built enc file blobs) : file.length = packSize blobs := by
  obtain ⟨q, hq, rfl, rfl⟩ := h
  exact finish_length enc hlen q hq

theorem Backed.written {enc : Bytes → Bytes} {hash : Bytes → Nat}
    (hlen : ∀ x, (enc x).length = x.length + Rustic.Gen.PACK_COMP_OVERHEAD) {log : List Log} {p : IndexPack}
    (h : Backed enc hash log p) : WrittenIn log p := by
  obtain ⟨f, hb, hm, _, hs⟩ := h
  refine ⟨f, hm, ?_⟩
  rw [hb.length hlen, IndexPack.packSize, hs]

structure LaneInv (enc : Bytes → Bytes) (hash : Bytes → Nat) (log : List Log) (t : BlobType) (l : Lane) : Prop where
  basic : l.basic.Inv
  tpe : l.basic.blobType = t
  chan : ∀ x ∈ l.chan, Built enc x.1 x.2
  done : ∀ p, some p ∈ l.done → Backed enc hash log p

structure Inv (enc : Bytes → Bytes) (hash : Bytes → Nat) (s : St) : Prop where
  lane : ∀ t, LaneInv enc hash s.log t (s.lane t)
  indexer : ∀ p ∈ s.indexer.packs, Backed enc hash s.log p
  ordered : OrderedBy (Backed enc hash) s.log

theorem LaneInv.mono {enc : Bytes → Bytes} {hash : Bytes → Nat} {log : List Log} {t : BlobType} {l : Lane}
    (log' : List Log) (h : LaneInv enc hash log t l) : LaneInv enc hash (log ++ log') t l :=
  ⟨h.basic, h.tpe, h.chan, fun p hp => (h.done p hp).mono log'⟩

@[simp] theorem lane_setLane (s : St) (t t' : BlobType) (l : Lane) :
    (s.setLane t l).lane t' = if t' = t then l else s.lane t' := by
  cases t <;> cases t' <;> simp [St.setLane, St.lane]

@[simp] theorem setLane_log (s : St) (t : BlobType) (l : Lane) : (s.setLane t l).log = s.log := by cases t <;> rfl
@[simp] theorem setLane_indexer (s : St) (t : BlobType) (l : Lane) : (s.setLane t l).indexer = s.indexer := by
  cases t <;> rfl
@[simp] theorem lane_withLog (s : St) (ix : Indexer) (lg : List Log) (t : BlobType) :
    ({ s with indexer := ix, log := lg } : St).lane t = s.lane t := by cases t <;> rfl
@[simp] theorem lane_withLog' (s : St) (lg : List Log) (t : BlobType) :
    ({ s with log := lg } : St).lane t = s.lane t := by cases t <;> rfl

theorem init_inv (enc : Bytes → Bytes) (hash : Bytes → Nat) : Inv enc hash St.init := by
  refine ⟨?_, by simp [St.init], orderedBy_nil _⟩
  intro t
  cases t
  · exact ⟨Packer.new_inv _, rfl, by simp [St.init, St.lane], by simp [St.init, St.lane]⟩
  · exact ⟨Packer.new_inv _, rfl, by simp [St.init, St.lane], by simp [St.init, St.lane]⟩

/-- replacing one lane, log unchanged -/
theorem inv_setLane {enc : Bytes → Bytes} {hash : Bytes → Nat} {s : St} (h : Inv enc hash s) (t : BlobType) (l : Lane)
    (hl : LaneInv enc hash s.log t l) : Inv enc hash (s.setLane t l) := by
  refine ⟨?_, by simpa using h.indexer, by simpa using h.ordered⟩
  intro t'
  simp only [lane_setLane, setLane_log]
  split
  · rename_i heq; subst heq; exact hl
  · exact h.lane t'

theorem save_laneInv {enc : Bytes → Bytes} {hash : Bytes → Nat} {log : List Log} {t : BlobType} {l : Lane}
    (h : LaneInv enc hash log t l) : LaneInv enc hash log t (save enc l) := by
  refine ⟨Packer.new_inv _, h.tpe, ?_, h.done⟩
  intro x hx
  simp only [save, List.mem_append, List.mem_singleton] at hx
  rcases hx with hx | rfl
  · exact h.chan x hx
  · exact ⟨l.basic, h.basic, rfl, rfl⟩

theorem add_spec {enc : Bytes → Bytes} {hash : Bytes → Nat} {log : List Log} (ix : Indexer) (p : IndexPack)
    (aged fail : Bool) (hix : ∀ q ∈ ix.packs, Backed enc hash log q) (hp : Backed enc hash log p)
    (ho : OrderedBy (Backed enc hash) log) :
    OrderedBy (Backed enc hash) (log ++ (ix.add p aged fail).2.1) ∧
      ∀ q ∈ (ix.add p aged fail).1.packs, Backed enc hash (log ++ (ix.add p aged fail).2.1) q := by
  have hall : ∀ q ∈ ix.packs ++ [p], Backed enc hash log q := by
    intro q hq
    simp only [List.mem_append, List.mem_singleton] at hq
    rcases hq with hq | rfl
    · exact hix q hq
    · exact hp
  have h1 : OrderedBy (Backed enc hash) (log ++ [Log.indexAdd p]) := orderedBy_snoc ho hp
  unfold Indexer.add
  dsimp only
  split
  · split
    · refine ⟨?_, fun q hq => (hall q hq).mono _⟩
      have := orderedBy_snoc (e := Log.indexWrite (ix.packs ++ [p]) false) h1 (fun q hq => (hall q hq).mono _)
      simpa using this
    · refine ⟨?_, by simp⟩
      have := orderedBy_snoc (e := Log.indexWrite (ix.packs ++ [p]) true) h1 (fun q hq => (hall q hq).mono _)
      simpa using this
  · exact ⟨h1, fun q hq => (hall q hq).mono _⟩

theorem inv_step {enc : Bytes → Bytes} {hash : Bytes → Nat} {s : St} (h : Inv enc hash s) (ev : Ev) :
    Inv enc hash (step enc hash s ev) := by
  cases ev with
  | add t data id ulen limit aged =>
    simp only [step]
    apply inv_setLane h
    have hl := h.lane t
    have hl1 : LaneInv enc hash s.log t { s.lane t with basic := (s.lane t).basic.addRaw data id ulen } :=
      ⟨Packer.addRaw_inv _ hl.basic _ _ _, by
        simp only [Packer.addRaw]; split
        · exact hl.tpe
        · exact hl.tpe, hl.chan, hl.done⟩
    split
    · exact save_laneInv hl1
    · exact hl1
  | flush t =>
    simp only [step]
    split
    · exact h
    · exact inv_setLane h t _ (save_laneInv (h.lane t))
  | write t fail =>
    simp only [step]
    have hl := h.lane t
    split
    · exact h
    · rename_i file blobs rest hch
      have hb : Built enc file blobs := hl.chan (file, blobs) (by rw [hch]; simp)
      have hrest : ∀ x ∈ rest, Built enc x.1 x.2 := fun x hx => hl.chan x (by rw [hch]; simp [hx])
      split
      · -- failed write: nothing becomes visible
        refine ⟨?_, fun p hp => (h.indexer p (by simpa using hp)).mono _, ?_⟩
        · intro t'
          simp only [lane_withLog', lane_setLane]
          split
          · rename_i heq; subst heq
            refine ⟨hl.basic, hl.tpe, hrest, ?_⟩
            intro p hp
            simp only [List.mem_append, List.mem_singleton] at hp
            rcases hp with hp | hp
            · exact (hl.done p hp).mono _
            · cases hp
          · exact (h.lane t').mono _
        · exact orderedBy_snoc h.ordered trivial
      · refine ⟨?_, fun p hp => (h.indexer p (by simpa using hp)).mono _, ?_⟩
        · intro t'
          simp only [lane_withLog', lane_setLane]
          split
          · rename_i heq; subst heq
            refine ⟨hl.basic, hl.tpe, hrest, ?_⟩
            intro p hp
            simp only [List.mem_append, List.mem_singleton, Option.some.injEq] at hp
            rcases hp with hp | hp
            · exact (hl.done p hp).mono _
            · subst hp
              exact ⟨file, hb, by simp, rfl, rfl⟩
          · exact (h.lane t').mono _
        · exact orderedBy_snoc h.ordered trivial
  | index t aged fail =>
    simp only [step]
    have hl := h.lane t
    split
    · exact h
    · split
      · exact h
      · rename_i rest hd
        apply inv_setLane h
        exact ⟨hl.basic, hl.tpe, hl.chan, fun p hp => hl.done p (by rw [hd]; simp [hp])⟩
      · rename_i p rest hd
        have hp : Backed enc hash s.log p := hl.done p (by rw [hd]; simp)
        obtain ⟨ho, hix⟩ := add_spec s.indexer p aged fail h.indexer hp h.ordered
        refine ⟨?_, by simpa using hix, by simpa using ho⟩
        intro t'
        simp only [lane_withLog, lane_setLane]
        split
        · rename_i heq; subst heq
          exact ⟨hl.basic, hl.tpe, hl.chan, fun q hq => (hl.done q (by rw [hd]; simp [hq])).mono _⟩
        · exact (h.lane t').mono _
  | finalizeIndexer fail =>
    simp only [step]
    split
    · exact h
    · refine ⟨fun t => ?_, fun p hp => (h.indexer p hp).mono _, ?_⟩
      · simp only [lane_withLog']
        exact (h.lane t).mono _
      · exact orderedBy_snoc h.ordered (fun p hp => h.indexer p hp)

theorem inv_run {enc : Bytes → Bytes} {hash : Bytes → Nat} (evs : List Ev) (s : St) (h : Inv enc hash s) :
    Inv enc hash (run enc hash s evs) := by
  induction evs generalizing s with
  | nil => exact h
  | cons e es ih => exact ih _ (inv_step h e)

end Rustic.PackWriter

namespace Rustic.PackWriter
open Rustic.Pack
open Rustic.Index (IndexPack)

/-! ### completeness without faults: every written pack ends up in an index file -/

/-- where a successfully written pack is accounted for -/
def Accounted (s : St) (id : Nat) : Prop :=
  (∃ t p, some p ∈ (s.lane t).done ∧ p.id = id) ∨ (∃ p ∈ s.indexer.packs, p.id = id) ∨
    (∃ packs, Log.indexWrite packs true ∈ s.log ∧ ∃ p ∈ packs, p.id = id)

structure Live (s : St) : Prop where
  notFailed : ∀ t, (s.lane t).failed = false
  doneSome : ∀ t, none ∉ (s.lane t).done
  noFault : ∀ e ∈ s.log, (∀ id f, e ≠ .packWrite id f false) ∧ (∀ ps, e ≠ .indexWrite ps false)
  acc : ∀ id file, Log.packWrite id file true ∈ s.log → Accounted s id

theorem init_live : Live St.init :=
  ⟨fun t => by cases t <;> rfl, fun t => by cases t <;> simp [St.init, St.lane], by simp [St.init], by simp [St.init]⟩

/-- replacing a lane by one with the same `done`/`failed` (packer or queue changes only) -/
theorem live_setLane {s : St} (h : Live s) (t : BlobType) (l : Lane) (hd : l.done = (s.lane t).done)
    (hf : l.failed = (s.lane t).failed) : Live (s.setLane t l) := by
  have hlane : ∀ t', ((s.setLane t l).lane t').done = (s.lane t').done ∧ ((s.setLane t l).lane t').failed = (s.lane t').failed := by
    intro t'
    simp only [lane_setLane]
    split
    · rename_i heq; subst heq; exact ⟨hd, hf⟩
    · exact ⟨rfl, rfl⟩
  refine ⟨fun t' => by rw [(hlane t').2]; exact h.notFailed t', fun t' => by rw [(hlane t').1]; exact h.doneSome t',
    by simpa using h.noFault, ?_⟩
  intro id file hm
  rcases h.acc id file (by simpa using hm) with ⟨t', p, hp, hid⟩ | h2 | h3
  · exact Or.inl ⟨t', p, by rw [(hlane t').1]; exact hp, hid⟩
  · exact Or.inr (Or.inl (by simpa using h2))
  · exact Or.inr (Or.inr (by simpa using h3))

theorem live_step {enc : Bytes → Bytes} {hash : Bytes → Nat} {s : St} (h : Live s) (ev : Ev) (hev : ev.faultFree = true) :
    Live (step enc hash s ev) := by
  cases ev with
  | add t data id ulen limit aged =>
    simp only [step]
    apply live_setLane h
    · split <;> rfl
    · split <;> rfl
  | flush t =>
    simp only [step]
    split
    · exact h
    · exact live_setLane h t _ rfl rfl
  | write t fail =>
    have hfl : fail = false := by simpa [Ev.faultFree] using hev
    subst hfl
    simp only [step]
    split
    · exact h
    · rename_i file blobs rest hch
      simp only [Bool.false_eq_true, if_false]
      refine ⟨?_, ?_, ?_, ?_⟩
      · intro t'
        simp only [lane_withLog', lane_setLane]
        split
        · rename_i heq; subst heq; exact h.notFailed t'
        · exact h.notFailed t'
      · intro t'
        simp only [lane_withLog', lane_setLane]
        split
        · rename_i heq; subst heq
          simp only [List.mem_append, List.mem_singleton, not_or]
          exact ⟨h.doneSome t', by simp⟩
        · exact h.doneSome t'
      · intro e he
        simp only [List.mem_append, List.mem_singleton] at he
        rcases he with he | rfl
        · exact h.noFault e he
        · exact ⟨by simp, by simp⟩
      · intro id f hm
        simp only [List.mem_append, List.mem_singleton] at hm
        rcases hm with hm | hm
        · rcases h.acc id f hm with ⟨t', p, hp, hid⟩ | h2 | ⟨packs, hpk, hq⟩
          · refine Or.inl ⟨t', p, ?_, hid⟩
            simp only [lane_withLog', lane_setLane]
            split
            · rename_i heq; subst heq; simp [hp]
            · exact hp
          · exact Or.inr (Or.inl (by simpa using h2))
          · exact Or.inr (Or.inr ⟨packs, by simp [hpk], hq⟩)
        · simp only [Log.packWrite.injEq] at hm
          obtain ⟨hid, _, _⟩ := hm
          refine Or.inl ⟨t, { id := hash file, blobs := blobs, size := none }, ?_, hid.symm⟩
          simp [lane_setLane]
  | index t aged fail =>
    have hfl : fail = false := by simpa [Ev.faultFree] using hev
    subst hfl
    simp only [step]
    have hnf := h.notFailed t
    simp only [hnf, Bool.false_eq_true, if_false]
    split
    · exact h
    · rename_i rest hd
      exact absurd (by rw [hd]; simp) (h.doneSome t)
    · rename_i p rest hd
      -- what `Indexer::add` does without a fault
      have hadd : (s.indexer.add p aged false).2.2 = false ∧
          ((s.indexer.add p aged false).2.1 = [.indexAdd p] ∧ (s.indexer.add p aged false).1.packs = s.indexer.packs ++ [p] ∨
           (s.indexer.add p aged false).2.1 = [.indexAdd p, .indexWrite (s.indexer.packs ++ [p]) true] ∧
             (s.indexer.add p aged false).1.packs = []) := by
        unfold Indexer.add
        simp only [Bool.false_eq_true, if_false]
        split
        · exact ⟨rfl, Or.inr ⟨rfl, rfl⟩⟩
        · exact ⟨rfl, Or.inl ⟨rfl, rfl⟩⟩
      obtain ⟨hfail, hcases⟩ := hadd
      have hlog : ∀ e ∈ (s.indexer.add p aged false).2.1,
          (∀ id f, e ≠ .packWrite id f false) ∧ (∀ ps, e ≠ .indexWrite ps false) := by
        intro e he
        rcases hcases with ⟨hl, _⟩ | ⟨hl, _⟩ <;> rw [hl] at he <;> simp at he <;> rcases he with rfl | rfl <;> simp
      -- every pack that was in the indexer or is `p` is in the new indexer or in a new index file
      have hmoved : ∀ q, (q ∈ s.indexer.packs ∨ q = p) →
          q ∈ (s.indexer.add p aged false).1.packs ∨
          ∃ packs, Log.indexWrite packs true ∈ (s.indexer.add p aged false).2.1 ∧ q ∈ packs := by
        intro q hq
        have hq' : q ∈ s.indexer.packs ++ [p] := by simpa using hq
        rcases hcases with ⟨_, hp⟩ | ⟨hl, _⟩
        · exact Or.inl (by rw [hp]; exact hq')
        · exact Or.inr ⟨_, by rw [hl]; simp, hq'⟩
      refine ⟨?_, ?_, ?_, ?_⟩
      · intro t'
        simp only [lane_withLog, lane_setLane]
        split
        · exact hfail
        · exact h.notFailed t'
      · intro t'
        simp only [lane_withLog, lane_setLane]
        split
        · rename_i heq; subst heq
          have := h.doneSome t'
          rw [hd] at this
          simpa using this
        · exact h.doneSome t'
      · intro e he
        simp only [List.mem_append] at he
        rcases he with he | he
        · exact h.noFault e he
        · exact hlog e he
      · intro id f hm
        simp only [List.mem_append] at hm
        have hm' : Log.packWrite id f true ∈ s.log := by
          rcases hm with hm | hm
          · exact hm
          · rcases hcases with ⟨hl, _⟩ | ⟨hl, _⟩ <;> rw [hl] at hm <;> simp at hm
        have toIdx : ∀ q, (q ∈ s.indexer.packs ∨ q = p) → q.id = id →
            Accounted { s.setLane t { s.lane t with done := rest, failed := (s.indexer.add p aged false).2.2 } with
              indexer := (s.indexer.add p aged false).1, log := s.log ++ (s.indexer.add p aged false).2.1 } id := by
          intro q hq hid
          rcases hmoved q hq with h1 | ⟨packs, hpk, hqp⟩
          · exact Or.inr (Or.inl ⟨q, h1, hid⟩)
          · exact Or.inr (Or.inr ⟨packs, by simp [hpk], q, hqp, hid⟩)
        rcases h.acc id f hm' with ⟨t', q, hq, hid⟩ | ⟨q, hq, hid⟩ | ⟨packs, hpk, hq⟩
        · by_cases ht : t' = t
          · subst ht
            rw [hd] at hq
            simp only [List.mem_cons, Option.some.injEq] at hq
            rcases hq with rfl | hq
            · exact toIdx q (Or.inr rfl) hid
            · refine Or.inl ⟨t', q, ?_, hid⟩
              simp [lane_withLog, lane_setLane, hq]
          · refine Or.inl ⟨t', q, ?_, hid⟩
            simp only [lane_withLog, lane_setLane, if_neg ht]
            exact hq
        · exact toIdx q (Or.inl hq) hid
        · exact Or.inr (Or.inr ⟨packs, by simp [hpk], hq⟩)
  | finalizeIndexer fail =>
    have hfl : fail = false := by simpa [Ev.faultFree] using hev
    subst hfl
    simp only [step]
    split
    · exact h
    · refine ⟨fun t => by simpa using h.notFailed t, fun t => by simpa using h.doneSome t, ?_, ?_⟩
      · intro e he
        simp only [List.mem_append, List.mem_singleton] at he
        rcases he with he | rfl
        · exact h.noFault e he
        · exact ⟨by simp, by simp⟩
      · intro id f hm
        simp only [List.mem_append, List.mem_singleton] at hm
        rcases hm with hm | hm
        · rcases h.acc id f hm with ⟨t', q, hq, hid⟩ | h2 | ⟨packs, hpk, hq⟩
          · exact Or.inl ⟨t', q, by simpa using hq, hid⟩
          · exact Or.inr (Or.inl h2)
          · exact Or.inr (Or.inr ⟨packs, by simp [hpk], hq⟩)
        · cases hm

theorem live_run {enc : Bytes → Bytes} {hash : Bytes → Nat} (evs : List Ev) (hev : ∀ e ∈ evs, e.faultFree = true)
    (s : St) (h : Live s) : Live (run enc hash s evs) := by
  induction evs generalizing s with
  | nil => exact h
  | cons e es ih =>
    exact ih (fun e' he' => hev e' (List.mem_cons_of_mem _ he')) _ (live_step h e (hev e (List.mem_cons_self ..)))


theorem write_queue {enc : Bytes → Bytes} {hash : Bytes → Nat} (s : St) (t : BlobType) :
    ((step enc hash s (.write t false)).lane t).chan = (s.lane t).chan.tail ∧
    ((step enc hash s (.write t false)).lane t).done.length =
      (s.lane t).done.length + (if (s.lane t).chan = [] then 0 else 1) := by
  simp only [step]
  split
  · rename_i hch; simp [hch]
  · rename_i file blobs rest hch
    simp [hch, lane_setLane]

theorem index_queue {enc : Bytes → Bytes} {hash : Bytes → Nat} {s : St} (h : Live s) (t : BlobType) :
    ((step enc hash s (.index t false false)).lane t).chan = (s.lane t).chan ∧
    ((step enc hash s (.index t false false)).lane t).done = (s.lane t).done.tail := by
  simp only [step]
  simp only [h.notFailed t, Bool.false_eq_true, if_false]
  split
  · rename_i hd; simp [hd]
  · rename_i rest hd
    exact absurd (by rw [hd]; simp) (h.doneSome t)
  · rename_i p rest hd
    simp [hd, lane_setLane]

/-- after enough rounds the actor's queues are empty (nothing failing) -/
theorem drainLane_empties {enc : Bytes → Bytes} {hash : Bytes → Nat} (t : BlobType) :
    ∀ (n : Nat) (s : St), Live s → (s.lane t).chan.length + (s.lane t).done.length ≤ n →
      Live (drainLane enc hash t n s) ∧ ((drainLane enc hash t n s).lane t).chan = [] ∧
        ((drainLane enc hash t n s).lane t).done = [] := by
  intro n
  induction n with
  | zero =>
    intro s h hn
    simp only [drainLane]
    refine ⟨h, ?_, ?_⟩ <;> apply List.eq_nil_of_length_eq_zero <;> omega
  | succ n ih =>
    intro s h hn
    simp only [drainLane]
    have h1 : Live (step enc hash s (.write t false)) := live_step h _ rfl
    have h2 : Live (step enc hash (step enc hash s (.write t false)) (.index t false false)) := live_step h1 _ rfl
    apply ih _ h2
    obtain ⟨w1, w2⟩ := write_queue (enc := enc) (hash := hash) s t
    obtain ⟨i1, i2⟩ := index_queue (enc := enc) (hash := hash) h1 t
    rw [i1, i2, w1, List.length_tail, List.length_tail, w2]
    by_cases hc : (s.lane t).chan = []
    · simp only [hc, if_true, List.length_nil] at hn ⊢
      omega
    · have : 0 < (s.lane t).chan.length := List.length_pos_iff.mpr hc
      simp only [hc, if_false]
      omega

theorem flush_other {enc : Bytes → Bytes} {hash : Bytes → Nat} (s : St) {t t' : BlobType} (h : t' ≠ t) :
    (step enc hash s (.flush t)).lane t' = s.lane t' := by
  simp only [step]; split <;> simp [lane_setLane, h]

theorem write_other {enc : Bytes → Bytes} {hash : Bytes → Nat} (s : St) {t t' : BlobType} (h : t' ≠ t) (f : Bool) :
    (step enc hash s (.write t f)).lane t' = s.lane t' := by
  simp only [step]
  split
  · rfl
  · split <;> simp [lane_setLane, h]

theorem index_other {enc : Bytes → Bytes} {hash : Bytes → Nat} (s : St) {t t' : BlobType} (h : t' ≠ t) (a f : Bool) :
    (step enc hash s (.index t a f)).lane t' = s.lane t' := by
  simp only [step]
  split
  · rfl
  · split <;> simp [lane_setLane, h]

theorem drainLane_other {enc : Bytes → Bytes} {hash : Bytes → Nat} {t t' : BlobType} (h : t' ≠ t) :
    ∀ (n : Nat) (s : St), (drainLane enc hash t n s).lane t' = s.lane t' := by
  intro n
  induction n with
  | zero => intro s; rfl
  | succ n ih => intro s; simp only [drainLane]; rw [ih, index_other _ h, write_other _ h]

theorem finalizeIndexer_lane {enc : Bytes → Bytes} {hash : Bytes → Nat} (s : St) (f : Bool) (t : BlobType) :
    (step enc hash s (.finalizeIndexer f)).lane t = s.lane t := by
  simp only [step]; split <;> simp

theorem finalizeAll_live {enc : Bytes → Bytes} {hash : Bytes → Nat} {s : St} (h : Live s) :
    Live (finalizeAll enc hash s) ∧ ∀ t, ((finalizeAll enc hash s).lane t).done = [] := by
  unfold finalizeAll
  simp only
  have h1 : Live (step enc hash s (.flush .data)) := live_step h _ rfl
  obtain ⟨h2, _, d2⟩ := drainLane_empties (enc := enc) (hash := hash) .data _ _ h1 (Nat.le_refl _)
  have h3 := live_step (enc := enc) (hash := hash) h2 (.flush .tree) rfl
  obtain ⟨h4, _, d4⟩ := drainLane_empties (enc := enc) (hash := hash) .tree _ _ h3 (Nat.le_refl _)
  refine ⟨live_step h4 _ rfl, ?_⟩
  intro t
  rw [finalizeIndexer_lane]
  cases t with
  | tree => exact d4
  | data =>
    -- the data lane is untouched by the tree lane's steps
    rw [drainLane_other (by decide), flush_other _ (by decide)]
    exact d2

theorem finalizeIndexer_covers {enc : Bytes → Bytes} {hash : Bytes → Nat} (s : St) :
    ∀ p ∈ (step enc hash s (.finalizeIndexer false)).indexer.packs,
      ∃ packs, Log.indexWrite packs true ∈ (step enc hash s (.finalizeIndexer false)).log ∧ p ∈ packs := by
  intro p hp
  simp only [step] at hp ⊢
  split at hp
  · rename_i he
    rw [List.isEmpty_iff] at he
    rw [he] at hp; cases hp
  · rename_i he
    simp only [he, Bool.false_eq_true, if_false]
    exact ⟨s.indexer.packs, by simp, hp⟩

end Rustic.PackWriter
