/-
Lemmas about the pack-writer transition system (`Model/PackWriter.lean`): the invariant behind the C08 ORDER theorem.
-/
import Rustic.Model.PackWriter
import Rustic.Lemmas.Pack
namespace Rustic.PackWriter
open Rustic.Pack
open Rustic.Index (IndexPack)

/-! ### logs -/

theorem WrittenIn.mono {log : List Log} {p : IndexPack} (log' : List Log) (h : WrittenIn log p) :
    WrittenIn (log ++ log') p := by
  obtain ⟨f, hf, hl⟩ := h
  exact ⟨f, List.mem_append_left _ hf, hl⟩

/-- `After`/`Ordered` with an arbitrary "is backed by a write" predicate (the invariant carries a stronger one) -/
def AfterBy (W : List Log → IndexPack → Prop) (pre : List Log) : Log → Prop
  | .packWrite _ _ _ => True
  | .indexAdd p => W pre p
  | .indexWrite packs _ => ∀ p ∈ packs, W pre p

def OrderedBy (W : List Log → IndexPack → Prop) (log : List Log) : Prop :=
  ∀ pre e post, log = pre ++ e :: post → AfterBy W pre e

theorem after_iff (pre : List Log) (e : Log) : After pre e ↔ AfterBy WrittenIn pre e := by cases e <;> rfl

theorem ordered_iff (log : List Log) : Ordered log ↔ OrderedBy WrittenIn log := by
  simp only [Ordered, OrderedBy, after_iff]

theorem AfterBy.imp {W W' : List Log → IndexPack → Prop} (h : ∀ l p, W l p → W' l p) {pre : List Log} {e : Log}
    (ha : AfterBy W pre e) : AfterBy W' pre e := by
  cases e with
  | packWrite _ _ _ => trivial
  | indexAdd p => exact h _ _ ha
  | indexWrite packs _ => exact fun p hp => h _ _ (ha p hp)

theorem OrderedBy.imp {W W' : List Log → IndexPack → Prop} (h : ∀ l p, W l p → W' l p) {log : List Log}
    (ho : OrderedBy W log) : OrderedBy W' log := fun pre e post heq => (ho pre e post heq).imp h

theorem orderedBy_nil (W : List Log → IndexPack → Prop) : OrderedBy W [] := by
  intro pre e post h
  cases pre <;> cases h

theorem orderedBy_snoc {W : List Log → IndexPack → Prop} {log : List Log} {e : Log}
    (h : OrderedBy W log) (he : AfterBy W log e) : OrderedBy W (log ++ [e]) := by
  intro pre e' post heq
  rcases List.eq_nil_or_concat post with hp | ⟨post', x, hp⟩
  · subst hp
    have := List.append_inj' heq (by simp)
    obtain ⟨h1, h2⟩ := this
    cases h2
    subst h1
    exact he
  · subst hp
    have heq' : log ++ [e] = (pre ++ e' :: post') ++ [x] := by simpa using heq
    have := List.append_inj' heq' (by simp)
    exact h pre e' post' this.1

/-- the executable check decides `Ordered` -/
theorem orderedFrom_iff (pre l : List Log) :
    orderedFrom pre l = true ↔ ∀ a e b, l = a ++ e :: b → After (pre ++ a) e := by
  induction l generalizing pre with
  | nil =>
    simp only [orderedFrom, true_iff]
    intro a e b h
    cases a <;> cases h
  | cons x xs ih =>
    simp only [orderedFrom, Bool.and_eq_true, decide_eq_true_eq, ih]
    constructor
    · rintro ⟨h1, h2⟩ a e b heq
      cases a with
      | nil =>
        simp only [List.nil_append, List.cons.injEq] at heq
        obtain ⟨rfl, _⟩ := heq
        simpa using h1
      | cons y ys =>
        simp only [List.cons_append, List.cons.injEq] at heq
        obtain ⟨rfl, heq⟩ := heq
        have := h2 ys e b heq
        simpa using this
    · intro h
      refine ⟨by simpa using h [] x xs rfl, ?_⟩
      intro a e b heq
      have := h (x :: a) e b (by simp [heq])
      simpa using this

theorem ordered_iff_check (log : List Log) : Ordered log ↔ orderedFrom [] log = true := by
  rw [orderedFrom_iff]; simp [Ordered]

/-! ### the invariant -/

/-- `file`/`blobs` are what `RawPacker::save` takes out of a reachable `BasicPacker` -/
def Built (enc : Bytes → Bytes) (file : Bytes) (blobs : List IndexBlob) : Prop :=
  ∃ q : Packer, q.Inv ∧ file = (q.finish enc).1 ∧ blobs = q.blobs

/-- `p` names a file that was successfully written before: the very bytes the packer built for `p.blobs`, stored under
their hash, and `p` carries no explicit `size` -/
def Backed (enc : Bytes → Bytes) (hash : Bytes → Nat) (log : List Log) (p : IndexPack) : Prop :=
  ∃ file, Built enc file p.blobs ∧ Log.packWrite p.id file true ∈ log ∧ p.id = hash file ∧ p.size = none

theorem Backed.mono {enc : Bytes → Bytes} {hash : Bytes → Nat} {log : List Log} {p : IndexPack} (log' : List Log)
    (h : Backed enc hash log p) : Backed enc hash (log ++ log') p := by
  obtain ⟨f, hb, hm, hi, hs⟩ := h
  exact ⟨f, hb, List.mem_append_left _ hm, hi, hs⟩

theorem Built.length {enc : Bytes → Bytes} (hlen : ∀ x, (enc x).length = x.length + Rustic.Gen.PACK_COMP_OVERHEAD)
    {file : Bytes} {blobs : List IndexBlob} (h : Built enc file blobs) : file.length = packSize blobs := by
  obtain ⟨q, hq, rfl, rfl⟩ := h
  exact finish_length enc hlen q hq

theorem Backed.written {enc : Bytes → Bytes} {hash : Bytes → Nat}
    (hlen : ∀ x, (enc x).length = x.length + Rustic.Gen.PACK_COMP_OVERHEAD) {log : List Log} {p : IndexPack}
    (h : Backed enc hash log p) : WrittenIn log p := by
  obtain ⟨f, hb, hm, _, hs⟩ := h
  refine ⟨f, hm, ?_⟩
  rw [hb.length hlen, IndexPack.packSize, hs]

structure LaneInv (enc : Bytes → Bytes) (hash : Bytes → Nat) (log : List Log) (t : BlobType) (l : Lane) : Prop where
  basic : l.basic.Inv
  tpe : l.basic.blobType = t
  chan : ∀ x ∈ l.chan, Built enc x.1 x.2
  done : ∀ p, some p ∈ l.done → Backed enc hash log p

structure Inv (enc : Bytes → Bytes) (hash : Bytes → Nat) (s : St) : Prop where
  lane : ∀ t, LaneInv enc hash s.log t (s.lane t)
  indexer : ∀ p ∈ s.indexer.packs, Backed enc hash s.log p
  ordered : OrderedBy (Backed enc hash) s.log

theorem LaneInv.mono {enc : Bytes → Bytes} {hash : Bytes → Nat} {log : List Log} {t : BlobType} {l : Lane}
    (log' : List Log) (h : LaneInv enc hash log t l) : LaneInv enc hash (log ++ log') t l :=
  ⟨h.basic, h.tpe, h.chan, fun p hp => (h.done p hp).mono log'⟩

@[simp] theorem lane_setLane (s : St) (t t' : BlobType) (l : Lane) :
    (s.setLane t l).lane t' = if t' = t then l else s.lane t' := by
  cases t <;> cases t' <;> simp [St.setLane, St.lane]

@[simp] theorem setLane_log (s : St) (t : BlobType) (l : Lane) : (s.setLane t l).log = s.log := by cases t <;> rfl
@[simp] theorem setLane_indexer (s : St) (t : BlobType) (l : Lane) : (s.setLane t l).indexer = s.indexer := by
  cases t <;> rfl
@[simp] theorem lane_withLog (s : St) (ix : Indexer) (lg : List Log) (t : BlobType) :
    ({ s with indexer := ix, log := lg } : St).lane t = s.lane t := by cases t <;> rfl
@[simp] theorem lane_withLog' (s : St) (lg : List Log) (t : BlobType) :
    ({ s with log := lg } : St).lane t = s.lane t := by cases t <;> rfl

theorem init_inv (enc : Bytes → Bytes) (hash : Bytes → Nat) : Inv enc hash St.init := by
  refine ⟨?_, by simp [St.init], orderedBy_nil _⟩
  intro t
  cases t
  · exact ⟨Packer.new_inv _, rfl, by simp [St.init, St.lane], by simp [St.init, St.lane]⟩
  · exact ⟨Packer.new_inv _, rfl, by simp [St.init, St.lane], by simp [St.init, St.lane]⟩

/-- replacing one lane, log unchanged -/
theorem inv_setLane {enc : Bytes → Bytes} {hash : Bytes → Nat} {s : St} (h : Inv enc hash s) (t : BlobType) (l : Lane)
    (hl : LaneInv enc hash s.log t l) : Inv enc hash (s.setLane t l) := by
  refine ⟨?_, by simpa using h.indexer, by simpa using h.ordered⟩
  intro t'
  simp only [lane_setLane, setLane_log]
  split
  · rename_i heq; subst heq; exact hl
  · exact h.lane t'

theorem save_laneInv {enc : Bytes → Bytes} {hash : Bytes → Nat} {log : List Log} {t : BlobType} {l : Lane}
    (h : LaneInv enc hash log t l) : LaneInv enc hash log t (save enc l) := by
  refine ⟨Packer.new_inv _, h.tpe, ?_, h.done⟩
  intro x hx
  simp only [save, List.mem_append, List.mem_singleton] at hx
  rcases hx with hx | rfl
  · exact h.chan x hx
  · exact ⟨l.basic, h.basic, rfl, rfl⟩

theorem add_spec {enc : Bytes → Bytes} {hash : Bytes → Nat} {log : List Log} (ix : Indexer) (p : IndexPack)
    (aged fail : Bool) (hix : ∀ q ∈ ix.packs, Backed enc hash log q) (hp : Backed enc hash log p)
    (ho : OrderedBy (Backed enc hash) log) :
    OrderedBy (Backed enc hash) (log ++ (ix.add p aged fail).2.1) ∧
      ∀ q ∈ (ix.add p aged fail).1.packs, Backed enc hash (log ++ (ix.add p aged fail).2.1) q := by
  have hall : ∀ q ∈ ix.packs ++ [p], Backed enc hash log q := by
    intro q hq
    simp only [List.mem_append, List.mem_singleton] at hq
    rcases hq with hq | rfl
    · exact hix q hq
    · exact hp
  have h1 : OrderedBy (Backed enc hash) (log ++ [Log.indexAdd p]) := orderedBy_snoc ho hp
  unfold Indexer.add
  dsimp only
  split
  · split
    · refine ⟨?_, fun q hq => (hall q hq).mono _⟩
      have := orderedBy_snoc (e := Log.indexWrite (ix.packs ++ [p]) false) h1 (fun q hq => (hall q hq).mono _)
      simpa using this
    · refine ⟨?_, by simp⟩
      have := orderedBy_snoc (e := Log.indexWrite (ix.packs ++ [p]) true) h1 (fun q hq => (hall q hq).mono _)
      simpa using this
  · exact ⟨h1, fun q hq => (hall q hq).mono _⟩

theorem inv_step {enc : Bytes → Bytes} {hash : Bytes → Nat} {s : St} (h : Inv enc hash s) (ev : Ev) :
    Inv enc hash (step enc hash s ev) := by
  cases ev with
  | add t data id ulen limit aged =>
    simp only [step]
    apply inv_setLane h
    have hl := h.lane t
    have hl1 : LaneInv enc hash s.log t { s.lane t with basic := (s.lane t).basic.addRaw data id ulen } :=
      ⟨Packer.addRaw_inv _ hl.basic _ _ _, by
        simp only [Packer.addRaw]; split
        · exact hl.tpe
        · exact hl.tpe, hl.chan, hl.done⟩
    split
    · exact save_laneInv hl1
    · exact hl1
  | flush t =>
    simp only [step]
    split
    · exact h
    · exact inv_setLane h t _ (save_laneInv (h.lane t))
  | write t fail =>
    simp only [step]
    have hl := h.lane t
    split
    · exact h
    · rename_i file blobs rest hch
      have hb : Built enc file blobs := hl.chan (file, blobs) (by rw [hch]; simp)
      have hrest : ∀ x ∈ rest, Built enc x.1 x.2 := fun x hx => hl.chan x (by rw [hch]; simp [hx])
      split
      · -- failed write: nothing becomes visible
        refine ⟨?_, fun p hp => (h.indexer p (by simpa using hp)).mono _, ?_⟩
        · intro t'
          simp only [lane_withLog', lane_setLane]
          split
          · rename_i heq; subst heq
            refine ⟨hl.basic, hl.tpe, hrest, ?_⟩
            intro p hp
            simp only [List.mem_append, List.mem_singleton] at hp
            rcases hp with hp | hp
            · exact (hl.done p hp).mono _
            · cases hp
          · exact (h.lane t').mono _
        · exact orderedBy_snoc h.ordered trivial
      · refine ⟨?_, fun p hp => (h.indexer p (by simpa using hp)).mono _, ?_⟩
        · intro t'
          simp only [lane_withLog', lane_setLane]
          split
          · rename_i heq; subst heq
            refine ⟨hl.basic, hl.tpe, hrest, ?_⟩
            intro p hp
            simp only [List.mem_append, List.mem_singleton, Option.some.injEq] at hp
            rcases hp with hp | hp
            · exact (hl.done p hp).mono _
            · subst hp
              exact ⟨file, hb, by simp, rfl, rfl⟩
          · exact (h.lane t').mono _
        · exact orderedBy_snoc h.ordered trivial
  | index t aged fail =>
    simp only [step]
    have hl := h.lane t
    split
    · exact h
    · split
      · exact h
      · rename_i rest hd
        apply inv_setLane h
        exact ⟨hl.basic, hl.tpe, hl.chan, fun p hp => hl.done p (by rw [hd]; simp [hp])⟩
      · rename_i p rest hd
        have hp : Backed enc hash s.log p := hl.done p (by rw [hd]; simp)
        obtain ⟨ho, hix⟩ := add_spec s.indexer p aged fail h.indexer hp h.ordered
        refine ⟨?_, by simpa using hix, by simpa using ho⟩
        intro t'
        simp only [lane_withLog, lane_setLane]
        split
        · rename_i heq; subst heq
          exact ⟨hl.basic, hl.tpe, hl.chan, fun q hq => (hl.done q (by rw [hd]; simp [hq])).mono _⟩
        · exact (h.lane t').mono _
  | finalizeIndexer fail =>
    simp only [step]
    split
    · exact h
    · refine ⟨fun t => ?_, fun p hp => (h.indexer p hp).mono _, ?_⟩
      · simp only [lane_withLog']
        exact (h.lane t).mono _
      · exact orderedBy_snoc h.ordered (fun p hp => h.indexer p hp)

theorem inv_run {enc : Bytes → Bytes} {hash : Bytes → Nat} (evs : List Ev) (s : St) (h : Inv enc hash s) :
    Inv enc hash (run enc hash s evs) := by
  induction evs generalizing s with
  | nil => exact h
  | cons e es ih => exact ih _ (inv_step h e)

end Rustic.PackWriter
