/-
C01, tree level: the archiver pipeline of `Model/Archive.lean` (`Parent` without parent trees → `fileStep` → the
`TreeArchiver` stack machine) computes, on the item stream of a source forest, exactly the recursion
`Snapshot.saveL`: root id, the `tree_packer.add` calls, the `data_packer.add` calls.
-/
import Rustic.Lemmas.Snapshot
import Rustic.Lemmas.ArchiveDedup
import Rustic.Lemmas.ArchiveComplete
namespace Rustic.Snapshot
open Rustic.Tree Rustic.Parent Rustic.Archive Rustic.RoundTrip

mutual
/-- what `Parent::process` (no parent) + `FileArchiver::process` hand on for a forest -/
def STree.steps (chunk : Bytes → List Id) (hasData : Id → Bool) : STree → List (TItem × List Id × Option Node)
  | .leaf n d =>
    if n.kind = .file then
      [(.other { n with content := some (chunk d) } .notFound d.length, (chunk d).filter (fun i => !hasData i), some n)]
    else [(.other n .notFound 0, [], none)]
  | .dir n cs => (.newTree n .notFound, [], none) :: (stepsL chunk hasData cs ++ [(.endTree, [], none)])
def stepsL (chunk : Bytes → List Id) (hasData : Id → Bool) : List STree → List (TItem × List Id × Option Node)
  | [] => []
  | t :: ts => t.steps chunk hasData ++ stepsL chunk hasData ts
end

theorem isParent_empty (o : Opts) (st : PState) (ht : st.trees = []) (node : Node) (name : Name) :
    isParent o st node name = (st, .notFound) := by
  cases st with
  | mk trees stack => simp only at ht; subst ht; simp [isParent, isParentGo]

theorem hasPanic_append {γ} (a b : List (Out γ)) : hasPanic (a ++ b) = (hasPanic a || hasPanic b) := by
  induction a with
  | nil => rfl
  | cons x xs ih => cases x <;> simp [hasPanic, ih]

/-- `run` over the items of a forest, no parent trees: the state comes back, nothing panics, the steps are `stepsL` -/
structure RunsTo {γ} (o : Opts) (load : Id → Option (List Node)) (hd : Id → Bool) (st : PState)
    (items : List (Item γ)) (F : Out γ → Option (TItem × List Id × Option Node))
    (steps : List (TItem × List Id × Option Node)) : Prop where
  app : ∀ rest, run o load hd st (items ++ rest) =
    run o load hd st items ++ run o load hd st rest
  panic : hasPanic (run o load hd st items) = false
  steps : (run o load hd st items).filterMap F = steps

mutual
theorem run_tree (o : Opts) (load : Id → Option (List Node)) (hd : Id → Bool) (chunk : Bytes → List Id) :
    ∀ (t : STree) (st : PState), st.trees = [] →
      RunsTo o load hd st t.items (fileStep chunk List.length hd) (t.steps chunk hd)
  | .leaf n d, st, ht => by
    have hp := isParent_empty o st ht n n.name
    refine ⟨?_, ?_, ?_⟩
    · intro rest
      simp only [STree.items, List.cons_append, List.nil_append, run, process, hp]
    · simp only [STree.items, run, process, hp, hasPanic]
    · by_cases hk : n.kind = .file <;>
        simp [STree.items, run, process, hp, fileStep, PRes.isMatched, hk, STree.steps]
  | .dir n cs, st, ht => by
    have hp := isParent_empty o st ht n n.name
    have hset : setDir load st n.name = { trees := [], stack := [] :: st.stack } := by
      simp [setDir, ht, pNodeAll, sortDedup, dedupAdj]
    have ih := run_list o load hd chunk cs { trees := [], stack := [] :: st.stack } rfl
    have hfin : finishDir { trees := [], stack := [] :: st.stack } = some st := by
      cases st with
      | mk trees stack => simp only at ht; subst ht; rfl
    have hrun : ∀ rest, run o load hd st ((STree.dir n cs).items ++ rest) =
        Out.newTree n .notFound :: (run o load hd { trees := [], stack := [] :: st.stack } (itemsL cs) ++
          Out.endTree :: run o load hd st rest) := by
      intro rest
      simp only [STree.items, List.cons_append, List.append_assoc, run, process, hp, hset]
      rw [ih.app]
      simp only [List.cons_append, List.nil_append, run, process, hfin]
    refine ⟨?_, ?_, ?_⟩
    · intro rest
      have h0 := hrun []
      simp only [List.append_nil, run] at h0
      rw [hrun rest, h0]
      simp
    · have h0 := hrun []
      simp only [List.append_nil, run] at h0
      rw [h0]
      simp only [hasPanic, hasPanic_append, ih.panic, Bool.false_or]
    · have h0 := hrun []
      simp only [List.append_nil, run] at h0
      rw [h0]
      simp only [List.filterMap_cons, fileStep, List.filterMap_append, ih.steps, List.filterMap_nil, STree.steps]
theorem run_list (o : Opts) (load : Id → Option (List Node)) (hd : Id → Bool) (chunk : Bytes → List Id) :
    ∀ (ts : List STree) (st : PState), st.trees = [] →
      RunsTo o load hd st (itemsL ts) (fileStep chunk List.length hd) (stepsL chunk hd ts)
  | [], st, _ => ⟨fun rest => by simp [itemsL, run], by simp [itemsL, run, hasPanic], by simp [itemsL, run, stepsL]⟩
  | t :: ts, st, ht => by
    have h1 := run_tree o load hd chunk t st ht
    have h2 := run_list o load hd chunk ts st ht
    refine ⟨?_, ?_, ?_⟩
    · intro rest
      simp only [itemsL, List.append_assoc]
      rw [h1.app, h1.app, h2.app, List.append_assoc]
    · simp only [itemsL]
      rw [h1.app, hasPanic_append, h1.panic, h2.panic]; rfl
    · simp only [itemsL, stepsL]
      rw [h1.app, List.filterMap_append, h1.steps, h2.steps]
end

/-! ### the tree archiver's stack machine computes `saveL` -/

theorem addAll_append (H : List Node → Id) (hasTree : Id → Bool) : ∀ (a b : List TItem) (s : TA),
    TA.addAll H hasTree s (a ++ b) = (TA.addAll H hasTree s a).bind (fun s' => TA.addAll H hasTree s' b)
  | [], _, _ => rfl
  | x :: xs, b, s => by
    simp only [List.cons_append, TA.addAll]
    cases s.add H hasTree x with
    | none => rfl
    | some s' => exact addAll_append H hasTree xs b s'

/-- the machine reaches a state that differs from `s` by the new nodes and the new tree blobs (and the counters) -/
def TAReaches (H : List Node → Id) (hasTree : Id → Bool) (s : TA) (items : List TItem) (nodes : List Node)
    (trees : List (Id × List Node)) : Prop :=
  ∃ s', TA.addAll H hasTree s items = some s' ∧ s'.tree = s.tree ++ nodes ∧ s'.stack = s.stack ∧
    s'.adds = s.adds ++ trees

mutual
theorem ta_tree (H : List Node → Id) (hash : Bytes → Id) (chunks : Bytes → List Bytes) (hasData hasTree : Id → Bool) :
    ∀ (t : STree) (s : TA),
      TAReaches H hasTree s ((t.steps (fun d => (chunks d).map hash) hasData).map (·.1))
        (save H hash chunks hasTree t).nodes (save H hash chunks hasTree t).trees
  | .leaf n d, s => by
    by_cases hk : n.kind = .file
    · simp only [STree.steps, hk, if_true, save, List.map_cons, List.map_nil, TAReaches, TA.addAll, TA.add]
      exact ⟨_, rfl, rfl, rfl, by simp [TA.addFile]⟩
    · simp only [STree.steps, hk, if_false, save, List.map_cons, List.map_nil, TAReaches, TA.addAll, TA.add]
      exact ⟨_, rfl, rfl, rfl, by simp [TA.addFile]⟩
  | .dir n cs, s => by
    obtain ⟨s2, h2, ht2, hs2, ha2⟩ := ta_list H hash chunks hasData hasTree cs
      { s with tree := [], stack := (n, .notFound, s.tree) :: s.stack }
    simp only [List.nil_append] at ht2
    simp only at hs2 ha2
    unfold TAReaches
    simp only [STree.steps, List.map_cons, List.map_append, List.map_nil, TA.addAll, TA.add]
    rw [addAll_append, h2]
    simp only [Option.bind_some, TA.addAll, TA.add, hs2]
    have hid := backupTree_id H hasTree s2 .notFound
    have hadds := backupTree_adds H hasTree s2 .notFound
    refine ⟨_, rfl, ?_, rfl, ?_⟩
    · simp only [save, hid.1, ht2]
    · simp only [save, hadds, ht2, ha2]
      split <;> simp
theorem ta_list (H : List Node → Id) (hash : Bytes → Id) (chunks : Bytes → List Bytes) (hasData hasTree : Id → Bool) :
    ∀ (ts : List STree) (s : TA),
      TAReaches H hasTree s ((stepsL (fun d => (chunks d).map hash) hasData ts).map (·.1))
        (saveL H hash chunks hasTree ts).nodes (saveL H hash chunks hasTree ts).trees
  | [], s => ⟨s, rfl, by simp [saveL], rfl, by simp [saveL]⟩
  | t :: ts, s => by
    obtain ⟨s1, h1, ht1, hs1, ha1⟩ := ta_tree H hash chunks hasData hasTree t s
    obtain ⟨s2, h2, ht2, hs2, ha2⟩ := ta_list H hash chunks hasData hasTree ts s1
    refine ⟨s2, ?_, ?_, ?_, ?_⟩
    · simp only [stepsL, List.map_append]
      rw [addAll_append, h1]; exact h2
    · rw [ht2, ht1]; simp [saveL]
    · rw [hs2, hs1]
    · rw [ha2, ha1]; simp [saveL]
end

mutual
theorem steps_data_tree (hash : Bytes → Id) (chunks : Bytes → List Bytes) (hasData : Id → Bool)
    (H : List Node → Id) (hasTree : Id → Bool) : ∀ (t : STree),
    ((t.steps (fun d => (chunks d).map hash) hasData).map (·.2.1)).flatten =
      ((save H hash chunks hasTree t).chunks.map hash).filter (fun i => !hasData i)
  | .leaf n d => by
    by_cases hk : n.kind = .file <;> simp [STree.steps, save, hk]
  | .dir n cs => by
    have ih := steps_data_list hash chunks hasData H hasTree cs
    simp only [STree.steps, save, List.map_cons, List.map_append, List.map_nil, List.flatten_cons,
      List.flatten_append, List.flatten_nil, List.nil_append, List.append_nil, ih]
theorem steps_data_list (hash : Bytes → Id) (chunks : Bytes → List Bytes) (hasData : Id → Bool)
    (H : List Node → Id) (hasTree : Id → Bool) : ∀ (ts : List STree),
    ((stepsL (fun d => (chunks d).map hash) hasData ts).map (·.2.1)).flatten =
      ((saveL H hash chunks hasTree ts).chunks.map hash).filter (fun i => !hasData i)
  | [] => by simp [stepsL, saveL]
  | t :: ts => by
    simp only [stepsL, saveL, List.map_append, List.flatten_append, List.filter_append,
      steps_data_tree hash chunks hasData H hasTree t, steps_data_list hash chunks hasData H hasTree ts]
end

/-- **The archiver computes `saveL`.**  A backup without parent of the item stream of a source forest: the root id
is the id of the forest's node list; the tree packer receives the directories' trees (post-order; only those the index
lacks) and the root tree; the data packer receives the chunks the index lacks, in order. -/
theorem archive_eq_save (H : List Node → Id) (hash : Bytes → Id) (chunks : Bytes → List Bytes)
    (load : Id → Option (List Node)) (hasData hasTree : Id → Bool) (o : Opts) (src : List STree) :
    ∃ a, archive H (fun d => (chunks d).map hash) List.length load hasData hasTree o [] (itemsL src) = some a ∧
      a.root = H (saveL H hash chunks hasTree src).nodes ∧
      a.treeAdds = (saveL H hash chunks hasTree src).trees ++
        (if hasTree (H (saveL H hash chunks hasTree src).nodes) then []
         else [(H (saveL H hash chunks hasTree src).nodes, (saveL H hash chunks hasTree src).nodes)]) ∧
      a.dataAdds = ((saveL H hash chunks hasTree src).chunks.map hash).filter (fun i => !hasData i) := by
  have hr := run_list o load hasData (fun d => (chunks d).map hash) src (PState.init load []) rfl
  obtain ⟨s', h1, ht, _, ha⟩ := ta_list H hash chunks hasData hasTree src {}
  simp only [archive, hr.panic, Bool.false_eq_true, if_false, hr.steps, h1, List.filter_nil, List.head?_nil]
  have hid := backupTree_id H hasTree s' .notFound
  have hadds := backupTree_adds H hasTree s' .notFound
  simp only [List.nil_append] at ht ha
  refine ⟨_, rfl, ?_, ?_, ?_⟩
  · simp only [TA.finalize, hid.1, ht]
  · simp only [TA.finalize, hadds, ht, ha]
    split <;> simp
  · exact steps_data_list hash chunks hasData H hasTree src

end Rustic.Snapshot

namespace Rustic.Snapshot
open Rustic.Tree Rustic.Parent Rustic.Archive Rustic.RoundTrip

mutual
/-- the items of a well-formed source are `SrcItems` (nodes carry neither content nor subtree ids yet) -/
theorem srcItems_tree : ∀ (t : STree), t.WF → SrcItems t.items
  | .leaf n d, h => by
    simp only [STree.WF] at h
    intro it hit
    simp only [STree.items, List.mem_singleton] at hit
    subst hit
    exact ⟨h.2.2.1, h.2.1⟩
  | .dir n cs, h => by
    simp only [STree.WF] at h
    have ih := srcItems_list cs h.2.2.2
    intro it hit
    simp only [STree.items, List.mem_cons, List.mem_append, List.not_mem_nil, or_false] at hit
    rcases hit with rfl | hit | rfl
    · exact ⟨h.2.2.1, h.2.1⟩
    · exact ih it hit
    · trivial
theorem srcItems_list : ∀ (ts : List STree), WFL ts → SrcItems (itemsL ts)
  | [], _ => by intro it hit; simp [itemsL] at hit
  | t :: ts, h => by
    simp only [WFL] at h
    intro it hit
    simp only [itemsL, List.mem_append] at hit
    rcases hit with hit | hit
    · exact srcItems_tree t h.1 it hit
    · exact srcItems_list ts h.2 it hit
end

end Rustic.Snapshot
