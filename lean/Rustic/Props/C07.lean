/-
C07 — Identical content is stored once; unchanged data adds nothing.

Property theorems only (lemmas: `Lemmas/Packer.lean`, `Lemmas/ArchiveDedup.lean`, `Lemmas/Chunker.lean`).
Models: `Rustic.Archive.archive` (archiver pipeline: `index.has_data / has_tree` guards, chunk ids, tree ids),
`Rustic.Archive.step / finalizeAll` (packer pipeline with its three de-dup filters as a transition system;
`typed = true` is the code after the C07 repair of `index/indexer.rs`, `typed = false` the code as found),
`Rustic.Chunker.chunksSpec` (C06).  Statements quantify over every hash, every chunking, every index state,
every item stream and **every schedule** of the pipeline (all pack boundaries, all delays of the file writer).
-/
import Rustic.Lemmas.Packer
import Rustic.Lemmas.ArchiveDedup
import Rustic.Lemmas.PackerDedup
import Rustic.Props.C06
import Rustic.Props.C17
namespace Rustic.Props.C07
open Rustic.Tree Rustic.Parent Rustic.Archive

/-- the pipeline of a fresh `Archiver` (empty `Indexer`), typed indexer set -/
def init : PSt := { typed := true }

theorem inv_init : Inv (fun _ => False) init :=
  ⟨rfl, fun _ _ h => h.elim, fun t id h => by cases t <;> simp [init, PSt.pk, Pk.all, keysOf] at h,
   fun _ _ h => by simp [init] at h, fun t id h => by cases t <;> simp [init, PSt.pk] at h⟩

/-- (1) **Uploaded = handed to the packers**, as typed key sets, for every schedule: whatever the
interleaving of `add`s, late filters, pack flushes (any pack size), pack writes and index updates, at
`finalize` the pack files hold exactly the keys that were handed to `Packer::add` — nothing is lost (in
particular not a tree whose id equals that of a data blob) and nothing else is stored. -/
theorem uploaded_exactly_added (evs : List Ev) (t : BT) (id : Id) :
    (t, id) ∈ keysOf (finalizeAll (runEvs init evs)).packs ↔ (t, id) ∈ entered evs := by
  have h := inv_finalizeAll (inv_runEvs evs init inv_init)
  constructor
  · intro hk
    have := h.sound t id (Or.inr hk)
    simpa using this
  · intro he
    rcases h.complete t id (Or.inl he) with hc | hc
    · rw [finalizeAll_empty] at hc; cases hc
    · exact hc

/-- (2) What the archiver hands to the packers is exactly what the index lacks: no chunk and no tree that
`index.has_data` / `index.has_tree` knows is added … -/
theorem added_blobs_are_not_indexed {γ} (H : List Node → Id) (chunk : γ → List Id) (len : γ → Nat)
    (load : Id → Option (List Node)) (hasData hasTree : Id → Bool) (o : Opts) (roots : List Id)
    (items : List (Item γ)) (a : ArchOut)
    (ha : archive H chunk len load hasData hasTree o roots items = some a) :
    ∀ id ∈ a.dataAdds, hasData id = false := by
  simp only [archive] at ha
  split at ha
  · cases ha
  · split at ha
    · cases ha
    · injection ha with ha; subst ha
      intro id hid
      simp only [List.mem_flatten, List.mem_map] at hid
      obtain ⟨l, ⟨s, hs, rfl⟩, hid⟩ := hid
      obtain ⟨out, _, hout⟩ := List.mem_filterMap.mp hs
      exact fileStep_adds chunk len hasData out s hout id hid

/-- (2') … and a backup without parent hands over every chunk of every file that the index lacks. -/
theorem full_backup_adds_every_new_chunk {γ} (H : List Node → Id) (chunk : γ → List Id) (len : γ → Nat)
    (load : Id → Option (List Node)) (hasData hasTree : Id → Bool) (o : Opts)
    (items : List (Item γ)) (a : ArchOut)
    (ha : archive H chunk len load hasData hasTree o [] items = some a)
    (node : Node) (x : γ) (hit : Item.other node x ∈ items) (hfile : node.kind = .file)
    (id : Id) (hid : id ∈ chunk x) (hnew : hasData id = false) : id ∈ a.dataAdds := by
  have hout : ∀ (its : List (Item γ)) (st : PState), EmptyP st → Item.other node x ∈ its →
      Out.other node x .notFound ∈ run o load hasData st its := by
    intro its
    induction its with
    | nil => intro st _ h; cases h
    | cons it its ih =>
      intro st hE hm
      obtain ⟨_, hE'⟩ := process_emptyP o load hasData hasData st it hE
      simp only [run]
      rcases List.mem_cons.mp hm with rfl | hm
      · have hip : isParent o st node node.name = (st, .notFound) := by
          obtain ⟨ht, _⟩ := hE
          cases st with
          | mk trees stack => simp only at ht; subst ht; simp [isParent, isParentGo]
        have : (process o load hasData st (Item.other node x)).2 = Out.other node x .notFound := by
          simp [process, hip]
        rw [this]; exact List.mem_cons_self
      · exact List.mem_cons_of_mem _ (ih _ hE' hm)
  have hE0 : EmptyP (PState.init load []) := ⟨rfl, by intro t h; cases h⟩
  have hmem := hout items _ hE0 hit
  simp only [archive] at ha
  split at ha
  · cases ha
  · split at ha
    · cases ha
    · injection ha with ha; subst ha
      simp only [List.mem_flatten, List.mem_map]
      have hstep : fileStep chunk len hasData (Out.other node x .notFound) =
          some (.other { node with content := some (chunk x) } .notFound (len x),
                (chunk x).filter (fun i => !hasData i), some node) := by
        simp [fileStep, PRes.isMatched, hfile]
      exact ⟨(chunk x).filter (fun i => !hasData i),
        ⟨_, List.mem_filterMap.mpr ⟨_, hmem, hstep⟩, rfl⟩, List.mem_filter.mpr ⟨hid, by simp [hnew]⟩⟩

/-- (3) **Unchanged data adds nothing.**  Back the same items up again (no parent, every file is read) once
the index has been reloaded — i.e. with any index that contains what the first index had plus what the
first run added: no data blob and no tree blob is handed to the packers, and the root tree id is the same. -/
theorem rebackup_adds_nothing {γ} (H : List Node → Id) (chunk : γ → List Id) (len : γ → Nat)
    (load : Id → Option (List Node)) (hd0 ht0 hd1 ht1 : Id → Bool) (o : Opts)
    (items : List (Item γ)) (a0 : ArchOut)
    (h0 : archive H chunk len load hd0 ht0 o [] items = some a0)
    (hd : ∀ id, (hd0 id = true ∨ id ∈ a0.dataAdds) → hd1 id = true)
    (ht : ∀ id, (ht0 id = true ∨ id ∈ a0.treeAdds.map (·.1)) → ht1 id = true) :
    ∃ a1, archive H chunk len load hd1 ht1 o [] items = some a1 ∧
      a1.dataAdds = [] ∧ a1.treeAdds = [] ∧ a1.root = a0.root := by
  have hE0 : EmptyP (PState.init load []) := ⟨rfl, by intro t h; cases h⟩
  have hrun := run_emptyP o load hd1 hd0 items _ hE0
  simp only [archive] at h0 ⊢
  rw [hrun]
  by_cases hp : hasPanic (run o load hd0 (PState.init load []) items) = true
  · simp [hp] at h0
  · have hp' : hasPanic (run o load hd0 (PState.init load []) items) = false := by simpa using hp
    simp only [hp', Bool.false_eq_true, if_false] at h0 ⊢
    cases hadd : TA.addAll H ht0 {} (List.map (fun x => x.1)
        (List.filterMap (fileStep chunk len hd0) (run o load hd0 (PState.init load []) items))) with
    | none => simp [hadd] at h0
    | some f0 =>
      simp only [hadd] at h0
      injection h0 with h0; subst h0
      simp only [List.filter_nil, List.head?_nil] at hd ht ⊢
      have hsteps := steps_reindexed chunk len hd0 hd1 (run o load hd0 (PState.init load []) items) hd
      have hmap : List.map (fun x => x.1) (List.filterMap (fileStep chunk len hd1)
            (run o load hd0 (PState.init load []) items)) =
          List.map (fun x => x.1) (List.filterMap (fileStep chunk len hd0)
            (run o load hd0 (PState.init load []) items)) := by
        rw [hsteps, List.map_map]; rfl
      have hfin := backupTree_adds H ht0 f0 .notFound
      obtain ⟨f1, e1, hsame, hadds⟩ := addAll_rerun H ht0 ht1 _ {} {} f0 hadd ⟨rfl, Rel2.nil⟩ rfl (by
        intro id h
        apply ht id
        rcases h with h | h
        · exact Or.inl h
        · right
          simp only [TA.finalize, hfin]
          split
          · exact h
          · simp only [List.map_append, List.mem_append]; exact Or.inl h)
      rw [hmap, e1]
      refine ⟨_, rfl, ?_, ?_, ?_⟩
      · simp only [hsteps, List.map_map]
        apply List.flatten_eq_nil_iff.mpr
        intro l hl
        obtain ⟨_, _, rfl⟩ := List.mem_map.mp hl
        rfl
      · simp only [TA.finalize]
        rw [backupTree_adds, hadds, ← hsame.1]
        have : ht1 (H f0.tree) = true := by
          apply ht
          by_cases hh : ht0 (H f0.tree) = true
          · exact Or.inl hh
          · right
            simp only [TA.finalize, hfin, hh]
            simp
        simp [this]
      · simp only [TA.finalize]
        rw [(backupTree_id H ht1 f1 _).1, (backupTree_id H ht0 f0 _).1, hsame.1]

/-- (4) **Edit locality.**  Old content `x ++ s`, new content `y ++ s` (prepend / insert / delete / overwrite
anywhere before the shared suffix `s`).  If both chunkings have a cut `k` bytes into `s` (after `i` resp. `j`
chunks) and the chunks of the old content are indexed, every chunk of the new content from the `j`-th on is
indexed — so `backup_reader` hands only (some of) the first `j` chunks to the packer. -/
theorem edit_reuploads_only_disturbed_chunks {σ : Type} (r : Chunker.Roll σ) (p : Chunker.Params)
    (hp : C06.WFp p) (hash : Chunker.Bytes → Id) (hasData : Id → Bool) (x y s : Chunker.Bytes) (i j k : Nat)
    (hx : ((Chunker.chunksSpec r p (x ++ s)).take i).flatten.length = x.length + k)
    (hy : ((Chunker.chunksSpec r p (y ++ s)).take j).flatten.length = y.length + k)
    (hold : ∀ c ∈ Chunker.chunksSpec r p (x ++ s), hasData (hash c) = true) :
    ((Chunker.chunksSpec r p (y ++ s)).map hash).filter (fun id => !hasData id) =
      (((Chunker.chunksSpec r p (y ++ s)).take j).map hash).filter (fun id => !hasData id) := by
  have hre := C06.shared_suffix_resync r p hp x y s i j k hx hy
  have hsplit : Chunker.chunksSpec r p (y ++ s) =
      (Chunker.chunksSpec r p (y ++ s)).take j ++ (Chunker.chunksSpec r p (y ++ s)).drop j :=
    (List.take_append_drop j _).symm
  conv => lhs; rw [hsplit]
  rw [List.map_append, List.filter_append]
  have : List.filter (fun id => !hasData id) (List.map hash (List.drop j (Chunker.chunksSpec r p (y ++ s)))) = [] := by
    rw [List.filter_eq_nil_iff]
    intro id hid
    obtain ⟨c, hc, rfl⟩ := List.mem_map.mp hid
    rw [← hre] at hc
    have := hold c (List.mem_of_mem_drop hc)
    simp [this]
  rw [this, List.append_nil]

/-- (4') Appending to a file: only the chunks of (last old chunk ++ appended bytes) can be new. -/
theorem append_reuploads_only_last_chunk {σ : Type} (r : Chunker.Roll σ) (p : Chunker.Params)
    (hp : C06.WFp p) (hash : Chunker.Bytes → Id) (hasData : Id → Bool) (a t : Chunker.Bytes)
    (hold : ∀ c ∈ Chunker.chunksSpec r p a, hasData (hash c) = true) :
    ((Chunker.chunksSpec r p (a ++ t)).map hash).filter (fun id => !hasData id) =
      ((Chunker.chunksSpec r p ((Chunker.chunksSpec r p a).getLast?.getD [] ++ t)).map hash).filter
        (fun id => !hasData id) := by
  rw [C06.append_changes_only_last_chunk r p hp a t, List.map_append, List.filter_append]
  have : List.filter (fun id => !hasData id) (List.map hash (Chunker.chunksSpec r p a).dropLast) = [] := by
    rw [List.filter_eq_nil_iff]
    intro id hid
    obtain ⟨c, hc, rfl⟩ := List.mem_map.mp hid
    have := hold c (List.dropLast_subset _ hc)
    simp [this]
  rw [this, List.nil_append]

/-- (5) **Typed identity.** A tree and a file chunk with the same id (equal bytes) are both stored, in
whatever order and at whatever time they reach their packers. -/
theorem tree_and_data_with_equal_id_both_stored (evs : List Ev) (id : Id)
    (hd : (BT.data, id) ∈ entered evs) (ht : (BT.tree, id) ∈ entered evs) :
    (BT.data, id) ∈ keysOf (finalizeAll (runEvs init evs)).packs ∧
    (BT.tree, id) ∈ keysOf (finalizeAll (runEvs init evs)).packs :=
  ⟨(uploaded_exactly_added evs _ _).mpr hd, (uploaded_exactly_added evs _ _).mpr ht⟩

/-- (6) **De-duplication inside a run survives everything that happens later — in particular the indexer's intermediate
index-file flushes.**  `Settled s t id`: the blob's pack has been indexed (`(t, id) ∈ Indexer.indexed`, typed set) and no
further copy of it is pending or in the open pack.  From such a state, for EVERY continuation `evs` (more adds of the same
blob, any late-filter / flush / write / index interleaving) and through `finalize`, the number of copies of the blob in
pack files does not change: it is never stored again.  The index-FILE flush of `Indexer::add_with` (`save(); reset()` after
`MAX_COUNT` blobs or `MAX_AGE`) is not an event of the pipeline state at all: `reset` replaces the file and the counters
and keeps `Indexer.indexed` (the files are `Store.Ixr`, Props.C01 `indexer_files_list_every_pack`), and no event ever
removes a key from `indexed` (`indexed_never_shrinks`).  A `reset` that also emptied `indexed` would break exactly this
(replayed on the real code by `c07 many`: > `MAX_COUNT` blobs in one run with chunks recurring after the flush). -/
theorem settled_blob_is_never_stored_again (s : PSt) (t : BT) (id : Id) (h : Settled s t id) (evs : List Ev) :
    (keysOf (finalizeAll (runEvs s evs)).packs).count (t, id) = copies s t id := by
  obtain ⟨h1, c1⟩ := settled_runEvs evs h
  obtain ⟨_, c2⟩ := settled_finalizeAll h1
  have hall := finalizeAll_empty (runEvs s evs) t
  have hin : ((finalizeAll (runEvs s evs)).pk t).inflight.flatten = [] := by
    have : ∀ x, x ∉ ((finalizeAll (runEvs s evs)).pk t).inflight.flatten := by
      intro x hx
      have : x ∈ ((finalizeAll (runEvs s evs)).pk t).all := by
        simp only [Pk.all, List.mem_append]; exact Or.inl (Or.inr hx)
      rw [hall] at this; cases this
    exact List.eq_nil_iff_forall_not_mem.mpr this
  rw [← c1, ← c2]
  simp [copies, hin]

/-- (6') no event of the pipeline removes a key from `Indexer.indexed` -/
theorem indexed_never_shrinks (s : PSt) (evs : List Ev) (k : Key) (h : k ∈ s.indexed) : k ∈ (runEvs s evs).indexed := by
  induction evs generalizing s with
  | nil => exact h
  | cons ev evs ih => exact ih (step s ev) (indexed_mono s ev k h)

/-! ### The chunks of a file are those of its CONTENT — whatever size its node records

`FileArchiver::backup_reader` hands `node.meta.size` to the chunker only as an allocation hint (`ChunkIter::from_config(.., size_hint)`:
`Vec::with_capacity(size_hint.min(min_size))`); the chunk list is `chunksSpec` (C06) of the bytes the reader delivers.  Nodes whose
recorded size is not the content length are ordinary: `backup -` / `--stdin-command` (`Metadata::default()`: size 0), block devices
saved as files, files that grow or shrink between `stat` and read. -/

/-- (7) **What a backup without parent uploads is a function of the item contents**: the `data_packer.add` sequence is, item by item,
the chunks of the content that the index lacks (`itemAdds`) — no term of it mentions the node's metadata. -/
theorem full_backup_adds_are_content_chunks {γ} (H : List Node → Id) (chunk : γ → List Id) (len : γ → Nat)
    (load : Id → Option (List Node)) (hasData hasTree : Id → Bool) (o : Opts) (items : List (Item γ)) (a : ArchOut)
    (ha : archive H chunk len load hasData hasTree o [] items = some a) :
    a.dataAdds = (items.map (itemAdds chunk hasData)).flatten := by
  have hE0 : EmptyP (PState.init load []) := ⟨rfl, by intro t h; cases h⟩
  simp only [archive] at ha
  split at ha
  · cases ha
  · split at ha
    · cases ha
    · injection ha with ha; subst ha
      exact adds_of_full_run chunk len o load hasData items _ hE0

/-- whether `Archiver::archive` succeeds does not depend on recorded sizes: the only failure of a backup without parent is
"Tree stack is empty", decided by the bracket structure of the item stream -/
theorem archive_succeeds_whatever_the_recorded_sizes {γ} (H : List Node → Id) (chunk : γ → List Id) (len : γ → Nat)
    (load : Id → Option (List Node)) (hasData hasTree : Id → Bool) (o : Opts) (items : List (Item γ)) (f : Node → Nat) :
    (archive H chunk len load hasData hasTree o [] (items.map (resizeItem f))).isSome =
      (archive H chunk len load hasData hasTree o [] items).isSome := by
  have hE0 : EmptyP (PState.init load []) := ⟨rfl, by intro t h; cases h⟩
  simp only [archive]
  rw [run_resize o load hasData f items _ hE0, hasPanic_resize]
  by_cases hp : hasPanic (run o load hasData (PState.init load []) items) = true
  · simp [hp]
  · simp only [hp, Bool.false_eq_true, if_false]
    have hshape : (List.map (fun x => x.1) (List.filterMap (fileStep chunk len hasData)
          (List.map (resizeOut f) (run o load hasData (PState.init load []) items)))).map tshape =
        (List.map (fun x => x.1) (List.filterMap (fileStep chunk len hasData)
          (run o load hasData (PState.init load []) items))).map tshape := by
      rw [List.map_map, List.map_map, List.filterMap_map, List.map_filterMap, List.map_filterMap]
      congr 1
      funext out
      exact fileStep_resize_shape chunk len hasData f out
    have hs := addAll_isSome_shape H H hasTree hasTree _ _ ({} : TA) ({} : TA) hshape rfl
    revert hs
    cases TA.addAll H hasTree {} (List.map (fun x => x.1) (List.filterMap (fileStep chunk len hasData)
        (List.map (resizeOut f) (run o load hasData (PState.init load []) items)))) <;>
      cases TA.addAll H hasTree {} (List.map (fun x => x.1) (List.filterMap (fileStep chunk len hasData)
        (run o load hasData (PState.init load []) items))) <;> simp

/-- (7') **… independent of the recorded size.**  Give every non-directory node ANY other recorded size (`f`; e.g. 0 for all: the
same tree read from streams): the backup succeeds as well and hands the same blobs to the data packer, in the same order. -/
theorem chunks_independent_of_recorded_size {γ} (H : List Node → Id) (chunk : γ → List Id) (len : γ → Nat)
    (load : Id → Option (List Node)) (hasData hasTree : Id → Bool) (o : Opts) (items : List (Item γ)) (f : Node → Nat)
    (a : ArchOut) (ha : archive H chunk len load hasData hasTree o [] items = some a) :
    ∃ a', archive H chunk len load hasData hasTree o [] (items.map (resizeItem f)) = some a' ∧ a'.dataAdds = a.dataAdds := by
  have hs := archive_succeeds_whatever_the_recorded_sizes H chunk len load hasData hasTree o items f
  rw [ha] at hs
  obtain ⟨a', ha'⟩ := Option.isSome_iff_exists.mp hs
  refine ⟨a', ha', ?_⟩
  rw [full_backup_adds_are_content_chunks H chunk len load hasData hasTree o _ a' ha',
    full_backup_adds_are_content_chunks H chunk len load hasData hasTree o _ a ha, List.map_map]
  congr 1
  apply List.map_congr_left
  intro it _
  exact itemAdds_resize chunk hasData f it

/-- (7'') With the C06 chunker as `chunk`: once the chunks of a content are indexed (it was backed up from a FILE, say), a node of
any recorded size delivering the same bytes (the same content from a STREAM) hands nothing to the data packer. -/
theorem stored_content_adds_nothing_whatever_the_node {σ : Type} (r : Chunker.Roll σ) (p : Chunker.Params)
    (hash : Chunker.Bytes → Id) (hasData : Id → Bool) (x : Chunker.Bytes)
    (hold : ∀ c ∈ Chunker.chunksSpec r p x, hasData (hash c) = true) (node : Node) :
    itemAdds (fun bs => (Chunker.chunksSpec r p bs).map hash) hasData (Item.other node x) = [] := by
  simp only [itemAdds]
  split
  · rw [List.filter_eq_nil_iff]
    intro id hid
    obtain ⟨c, hc, rfl⟩ := List.mem_map.mp hid
    simp [hold c hc]
  · rfl

/-! ### "… once the index has been reloaded": a reload never hands out a partial index

`Repository::to_indexed_ids` = `GlobalIndex::new_from_collector` (model `IndexLoad.loadRepo`, proved for C17): the `?` on every
streamed index file.  (3) `rebackup_adds_nothing` asks for an index containing what the first index had plus what the first run
added; these two theorems say that a reload either delivers that or fails. -/

/-- (8) a backend read error of ANY index file makes the reload fail — no index is handed to the backup -/
theorem reload_with_unreadable_index_file_fails (m : Index.IndexType) (stream : List IndexLoad.RepoFile)
    (h : ∃ f ∈ stream, f.readFails = true) : ∃ e, IndexLoad.loadRepo m stream = .error e := by
  obtain ⟨f, hf, hr⟩ := h
  have hmem : Except.error IndexLoad.LoadErr.backend ∈ stream.map IndexLoad.getFile :=
    List.mem_map.mpr ⟨f, hf, by simp [IndexLoad.getFile, hr]⟩
  obtain ⟨e, he, _⟩ := C17.load_fails_if_any_file_fails m _ _ (C17.loadResults_is_outcome m _) ⟨_, hmem⟩
  exact ⟨e, he⟩

/-- (8') a reload that succeeds has read EVERY index file, and `has` answers true for every blob any of them lists in a pack not
marked for deletion (`to_indexed_ids`: data and tree ids) — the hypothesis of (3). -/
theorem reloaded_index_has_every_listed_blob (stream : List IndexLoad.RepoFile) (idx : Index.Index)
    (h : IndexLoad.loadRepo .dataIds stream = .ok idx) :
    ∃ files, stream.map IndexLoad.getFile = files.map Except.ok ∧
      (C17.WF files → ∀ t id, C17.ListedUnmarked files t id → idx.has t id = true) := by
  have ho := C17.loadResults_is_outcome .dataIds (stream.map IndexLoad.getFile)
  rw [show IndexLoad.loadResults .dataIds (stream.map IndexLoad.getFile) = .ok idx from h] at ho
  obtain ⟨files, hfiles, hl⟩ := C17.load_ok_means_every_file_loaded _ _ _ ho
  refine ⟨files, hfiles, fun hwf t id hli => ?_⟩
  exact (C17.has_iff .dataIds files hwf idx hl t id).mpr ⟨by cases t <;> rfl, hli⟩

/-! ### Witnesses -/

/-- The code as found (`typed = false`: one `BTreeSet<BlobId>` for both packers) loses the tree: the data
chunk 5 is packed, written and indexed; the tree with the same id is then filtered out and never stored
(DESIGN §7 #7; replayed on the real code by `corpus/C07/tree_equals_chunk.ops`). -/
example : (BT.tree, 5) ∉ keysOf (finalizeAll (runEvs { typed := false }
    [.enter .data 5, .commit .data, .flush .data, .write .data, .idx .data, .enter .tree 5])).packs := by decide

/-- … the repaired code keeps both, under the same schedule. -/
example : keysOf (finalizeAll (runEvs init
    [.enter .data 5, .commit .data, .flush .data, .write .data, .idx .data, .enter .tree 5])).packs =
    [(.data, 5), (.tree, 5)] := by decide

/-- Non-vacuity of (1): a schedule with duplicates inside one pack, across a flushed pack and across types. -/
example : keysOf (finalizeAll (runEvs init
    [.enter .data 1, .enter .data 1, .commit .data, .commit .data, .enter .data 2, .flush .data, .commit .data,
     .enter .tree 1, .write .data, .idx .data, .enter .data 1, .commit .data])).packs =
    [(.data, 1), (.data, 2), (.tree, 1)] := by decide

/-- Without the index reload the same blob can be stored twice in one run (pack flushed, not yet indexed —
the `TODO` in `packer.rs`): the statement is about key *sets*. -/
example : keysOf (finalizeAll (runEvs init
    [.enter .data 1, .commit .data, .flush .data, .enter .data 1, .commit .data])).packs =
    [(.data, 1), (.data, 1)] := by decide

/-- Non-vacuity of (6): blob 1 is packed, written and indexed (`Settled`); it is then added three more times around
another pack boundary — exactly one copy is stored. -/
example :
    let s := runEvs init [.enter .data 1, .commit .data, .flush .data, .write .data, .idx .data]
    (s.typed = true ∧ (BT.data, 1) ∈ s.indexed ∧ 1 ∉ (s.pk .data).pending ∧ 1 ∉ (s.pk .data).cur) ∧
    copies s .data 1 = 1 ∧
    (keysOf (finalizeAll (runEvs s [.enter .data 1, .enter .data 2, .commit .data, .commit .data, .flush .data,
      .enter .data 1, .commit .data])).packs).count (.data, 1) = 1 := by decide

/-- Non-vacuity of (7)/(7'): the chunks a file node and a stdin-style node (recorded size 0) of the same content hand over are the
same three ids; with chunk 2 indexed only 1 and 3 go to the packer — and a node of another kind hands over nothing. -/
example :
    let chunk : List Nat → List Id := fun bs => bs
    let file : Node := { name := [102], kind := .file, md := { size := 3, mtime := some 1, ctime := some 1, inode := 0 } }
    itemAdds chunk (fun _ => false) (Item.other file [1, 2, 3]) = [1, 2, 3] ∧
    itemAdds chunk (fun _ => false) (resizeItem (fun _ => 0) (Item.other file [1, 2, 3])) = [1, 2, 3] ∧
    itemAdds chunk (· == 2) (resizeItem (fun _ => 0) (Item.other file [1, 2, 3])) = [1, 3] ∧
    itemAdds chunk (fun _ => false) (Item.other { file with kind := .symlink [] } [1, 2, 3]) = [] := by decide

/-- Non-vacuity of (8)/(8'): two index files, the read of the second fails ⇒ the reload fails with the backend's error; without
the fault the reload succeeds. -/
example :
    let f1 : Index.IndexFile := { packs := [{ id := 1, blobs := [], size := none }], packsToDelete := [] }
    let f2 : Index.IndexFile := { packs := [{ id := 2, blobs := [], size := none }], packsToDelete := [] }
    (∃ e, IndexLoad.loadRepo .dataIds [⟨false, .sealed (.file f1)⟩, ⟨true, .sealed (.file f2)⟩] = .error e) ∧
    (∃ idx, IndexLoad.loadRepo .dataIds [⟨false, .sealed (.file f1)⟩, ⟨false, .sealed (.file f2)⟩] = .ok idx) :=
  ⟨reload_with_unreadable_index_file_fails _ _ ⟨_, List.mem_cons_of_mem _ List.mem_cons_self, rfl⟩, ⟨_, rfl⟩⟩

end Rustic.Props.C07
