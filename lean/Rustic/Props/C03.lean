/-
C03 — Every crash point or failed write leaves only fully readable snapshots.

Theorems about the abstract repository protocol `Rustic.Repo` (Model/Repo.lean).  A *crash point* is a prefix of the
sequence of storage operations of a command; the statements quantify over every consistent repository, every
operation content and every prefix — no bound.  `consistent r` = every unmarked index entry points into a stored
pack that holds the blob, and every snapshot's closure is indexed (so every visible snapshot can be read completely).
Helper lemmas: `Rustic/Lemmas/Repo.lean`.
-/
import Rustic.Lemmas.Repo
import Rustic.Lemmas.PackerActor
namespace Rustic.Props.C03
open Rustic.Repo

/-! ### (1) operation lemmas -/

theorem writePack_always_safe (r : Repo) (p : Pack) (h : consistent r = true) :
    consistent (apply r (.writePack p)) = true := writePack_preserves r p h

/-- an index file may be written once the packs it lists are stored — and only then. -/
theorem writeIndex_safe_iff (r : Repo) (i : IndexFile) (h : consistent r = true) :
    consistent (apply r (.writeIndex i)) = true ↔ i.packs.all (idxPackSound r) = true :=
  ⟨writeIndex_needs_sound r i, writeIndex_preserves r i h⟩

/-- a snapshot file may be written **iff** its closure is indexed (packs → index → snapshot). -/
theorem writeSnapshot_safe_iff (r : Repo) (s : Snap) (h : consistent r = true) :
    consistent (apply r (.writeSnap s)) = true ↔ readable r s = true := writeSnap_iff r s h

theorem removeIndex_safe_if_covered (r : Repo) (id : Nat) (h : consistent r = true)
    (hc : r.snaps.all (readable (apply r (.removeIndex id))) = true) :
    consistent (apply r (.removeIndex id)) = true := removeIndex_preserves r id h hc

theorem removePack_safe_if_unlisted (r : Repo) (id : Nat) (h : consistent r = true)
    (hc : r.indexes.all (fun i => i.packs.all (fun p => p.id != id)) = true) :
    consistent (apply r (.removePack id)) = true := removePack_preserves r id h hc

/-! ### (2) crash points: every prefix of a step-wise safe run -/

/-- **Every crash point**: if each operation of a command is safe in the state it is applied to, the repository is
consistent after every prefix of the command's operations. -/
theorem every_prefix_consistent (r : Repo) (ops : List Op) (h : consistent r = true) (hs : allSafe r ops = true) :
    ∀ r' ∈ prefixStates r ops, consistent r' = true := safe_run ops r h hs

/-- … hence every snapshot visible after the crash — old or new — is completely readable. -/
theorem every_visible_snapshot_readable (r : Repo) (ops : List Op) (h : consistent r = true)
    (hs : allSafe r ops = true) : ∀ r' ∈ prefixStates r ops, ∀ s ∈ r'.snaps, readable r' s = true := by
  intro r' hr' s hs'
  have := safe_run ops r h hs r' hr'
  rw [consistent_iff] at this
  exact this.2 s hs'

/-- the run-time monitor of the driver decides exactly the statement of `every_prefix_consistent`. -/
theorem monitor_sound (r : Repo) (ops : List Op) :
    firstBad r ops = none ↔ ∀ r' ∈ prefixStates r ops, consistent r' = true := firstBad_none r ops

/-! ### (2a) protocol of backup / copy / merge / rewrite / repair-snapshots (after `fix:`):
packs, then the index that lists them, then snapshot files, then removal of superseded snapshot files -/

theorem allSafe_writePacks : ∀ (ps : List Pack) (r : Repo), allSafe r (ps.map Op.writePack) = true
  | [], _ => rfl
  | p :: ps, r => by simp [allSafe, safeOp, allSafe_writePacks ps]

theorem indexes_writeSnaps : ∀ (ss : List Snap) (r : Repo), (applyAll r (ss.map Op.writeSnap)).indexes = r.indexes
  | [], _ => rfl
  | s :: ss, r => by
    simp only [List.map_cons, applyAll, List.foldl_cons]
    exact indexes_writeSnaps ss (apply r (.writeSnap s))

theorem allSafe_writeSnaps : ∀ (ss : List Snap) (r : Repo), (∀ s ∈ ss, readable r s = true) →
    allSafe r (ss.map Op.writeSnap) = true
  | [], _, _ => rfl
  | s :: ss, r, h => by
    simp only [List.map_cons, allSafe, safeOp, Bool.and_eq_true]
    refine ⟨h s List.mem_cons_self, allSafe_writeSnaps ss _ (fun t ht => ?_)⟩
    rw [readable_congr (apply r (.writeSnap s)) r rfl]
    exact h t (List.mem_cons_of_mem _ ht)

theorem allSafe_removeSnaps : ∀ (ids : List Nat) (r : Repo), allSafe r (ids.map Op.removeSnap) = true
  | [], _ => rfl
  | i :: ids, r => by simp [allSafe, safeOp, allSafe_removeSnaps ids]

/-- the storage operations of a command that adds data: new packs, one index file listing (a subset of) them,
new snapshot files, removal of old snapshot files. -/
def publishOps (ps : List Pack) (idx : IndexFile) (ss : List Snap) (rm : List Nat) : List Op :=
  ps.map Op.writePack ++ [Op.writeIndex idx] ++ ss.map Op.writeSnap ++ rm.map Op.removeSnap

/-- **backup, copy, merge, rewrite, repair-snapshots**: when the index file lists only packs written before it and
every new snapshot's closure is indexed by then, *every* prefix of the operation sequence leaves a consistent
repository — for all repositories, packs, index contents and snapshots. -/
theorem publish_protocol_safe (r : Repo) (ps : List Pack) (idx : IndexFile) (ss : List Snap) (rm : List Nat)
    (h : consistent r = true)
    (hidx : idx.packs.all (idxPackSound (applyAll r (ps.map Op.writePack))) = true)
    (hss : ∀ s ∈ ss, readable (applyAll r (ps.map Op.writePack ++ [Op.writeIndex idx])) s = true) :
    ∀ r' ∈ prefixStates r (publishOps ps idx ss rm), consistent r' = true := by
  apply safe_run _ r h
  unfold publishOps
  rw [allSafe_append, allSafe_append, allSafe_append]
  simp only [Bool.and_eq_true]
  refine ⟨⟨⟨allSafe_writePacks ps r, ?_⟩, ?_⟩, allSafe_removeSnaps rm _⟩
  · simp only [allSafe, safeOp, Bool.and_true]; exact hidx
  · apply allSafe_writeSnaps
    intro s hs
    exact hss s hs

/-! ### (2b) snapshot-REPLACING commands (`rewrite --forget`, `repair snapshots --delete`): no previously existing snapshot
is lost — at every crash point every snapshot that existed before is present as itself or as its rewritten successor -/

theorem hasSnap_after_write (s : Snap) (ops : List Op) (r : Repo) (hm : Op.writeSnap s ∈ ops)
    (hne : ∀ o ∈ ops, o ≠ .removeSnap s.id) : hasSnap (applyAll r ops) s.id = true := by
  obtain ⟨a, b, rfl⟩ := List.append_of_mem hm
  rw [applyAll_append]
  simp only [applyAll, List.foldl_cons]
  exact hasSnap_applyAll s.id b _ (fun o ho => hne o (by simp [ho])) (hasSnap_writeSnap _ s)

/-- **No snapshot is lost by a replacing command.**  `writes` = any pack / index / key / config / snapshot writes and
pack / index removals (everything but snapshot removals), then the new snapshot files `pairs.map (·.2)`, then the removal
of the snapshots `pairs.map (·.1)` they replace (`Repo.replaceOps`; `process_snapshots` in `commands/rewrite.rs`, the tail of
`repair_snapshots`).  A changed snapshot has another id than every removed one (`hfresh`: ids are content hashes).  Then after
EVERY prefix of the operations every snapshot `id` that existed before is still stored or its successor is — for all
repositories, all writes, any number of replaced snapshots. -/
theorem replace_protocol_loses_no_snapshot (r : Repo) (writes : List Op) (pairs : List (Nat × Snap))
    (hw : ∀ o ∈ writes, o.isRemoveSnap = false) (hfresh : ∀ p ∈ pairs, ∀ q ∈ pairs, p.2.id ≠ q.1)
    (id : Nat) (h : hasSnap r id = true) :
    ∀ r' ∈ prefixStates r (replaceOps writes pairs), kept r' (pairs.map (fun p => (p.1, p.2.id))) id = true := by
  intro r' hr'
  have hpub : ∀ j, ∀ o ∈ writes ++ pairs.map (fun p => Op.writeSnap p.2), o ≠ .removeSnap j := by
    intro j o ho e
    rw [List.mem_append] at ho
    rcases ho with ho | ho
    · have := hw o ho; rw [e] at this; simp [Op.isRemoveSnap] at this
    · rw [List.mem_map] at ho; obtain ⟨p, _, hp⟩ := ho; rw [e] at hp; cases hp
  unfold replaceOps at hr'
  rw [prefixStates_append] at hr'
  unfold kept
  rw [Bool.or_eq_true]
  rcases hr' with hr' | hr'
  · exact Or.inl (hasSnap_prefixStates id _ r (hpub id) h r' hr')
  · by_cases hin : ∃ p ∈ pairs, p.1 = id
    · obtain ⟨p, hp, hpid⟩ := hin
      right
      rw [List.any_eq_true]
      refine ⟨(p.1, p.2.id), List.mem_map.2 ⟨p, hp, rfl⟩, ?_⟩
      simp only [hpid, beq_self_eq_true, Bool.true_and]
      refine hasSnap_prefixStates p.2.id _ _ ?_ ?_ r' hr'
      · intro o ho e
        rw [List.mem_map] at ho
        obtain ⟨q, hq, hqo⟩ := ho
        rw [e] at hqo
        injection hqo with hqo
        exact hfresh p hp q hq hqo.symm
      · exact hasSnap_after_write p.2 _ r (List.mem_append_right _ (List.mem_map.2 ⟨p, hp, rfl⟩)) (hpub p.2.id)
    · left
      refine hasSnap_prefixStates id _ _ ?_ (hasSnap_applyAll id _ r (hpub id) h) r' hr'
      intro o ho e
      rw [List.mem_map] at ho
      obtain ⟨q, hq, hqo⟩ := ho
      rw [e] at hqo
      injection hqo with hqo
      exact hin ⟨q, hq, hqo⟩

/-- … in the form the driver's loss monitor decides: `firstLost` finds no prefix that has lost a snapshot of the state before. -/
theorem replace_protocol_monitor_clean (r : Repo) (writes : List Op) (pairs : List (Nat × Snap))
    (hw : ∀ o ∈ writes, o.isRemoveSnap = false) (hfresh : ∀ p ∈ pairs, ∀ q ∈ pairs, p.2.id ≠ q.1) :
    firstLost (pairs.map (fun p => (p.1, p.2.id))) (r.snaps.map (·.id)) r (replaceOps writes pairs) = none := by
  rw [firstLost_none]
  intro r' hr'
  unfold noneLost
  rw [List.all_eq_true]
  intro id hid
  refine replace_protocol_loses_no_snapshot r writes pairs hw hfresh id ?_ r' hr'
  rw [hasSnap_iff]
  rw [List.mem_map] at hid
  obtain ⟨s, hs, rfl⟩ := hid
  exact ⟨s, hs, rfl⟩

/-- the run-time loss monitor of the driver decides exactly "no prefix state has lost one of `olds`". -/
theorem loss_monitor_sound (succ : List (Nat × Nat)) (olds : List Nat) (r : Repo) (ops : List Op) :
    firstLost succ olds r ops = none ↔ ∀ r' ∈ prefixStates r ops, noneLost r' succ olds = true :=
  firstLost_none succ olds r ops

/-- **forget**: removing snapshot files is safe at every prefix. -/
theorem forget_protocol_safe (r : Repo) (ids : List Nat) (h : consistent r = true) :
    ∀ r' ∈ prefixStates r (ids.map Op.removeSnap), consistent r' = true :=
  safe_run _ r h (allSafe_removeSnaps ids r)

/-- **config / key add / key remove**: operations that touch neither packs, index nor snapshot files. -/
theorem config_key_protocol_safe (r : Repo) (n : Nat) (h : consistent r = true) :
    ∀ r' ∈ prefixStates r (List.replicate n Op.other), consistent r' = true := by
  apply safe_run _ r h
  induction n with
  | zero => rfl
  | succ n ih => simp [List.replicate_succ, allSafe, safeOp, apply]; exact ih

/-! ### (2b) protocol of prune: new packs + new index first, then old index files, then old packs -/

/-- what prune's removals need: every needed key stays listed in an index file that is not removed, and no pack to
be removed is listed (unmarked) by an index file that stays. -/
structure PruneCover (r1 : Repo) (rmIdx rmPacks : List Nat) : Prop where
  cover : ∀ s ∈ r1.snaps, ∀ k ∈ s.needs, ∃ i ∈ r1.indexes, i.id ∉ rmIdx ∧ ∃ p ∈ i.packs, k ∈ p.blobs
  unlisted : ∀ i ∈ r1.indexes, i.id ∉ rmIdx → ∀ p ∈ i.packs, p.id ∉ rmPacks

theorem allSafe_removeIndexes (rmIdx rmPacks : List Nat) : ∀ (l : List Nat) (r : Repo),
    (∀ id ∈ l, id ∈ rmIdx) → PruneCover r rmIdx rmPacks →
    allSafe r (l.map Op.removeIndex) = true ∧ PruneCover (applyAll r (l.map Op.removeIndex)) rmIdx rmPacks ∧
    (∀ i ∈ (applyAll r (l.map Op.removeIndex)).indexes, i ∈ r.indexes ∧ i.id ∉ l)
  | [], r, _, hc => ⟨rfl, hc, fun i hi => ⟨hi, by simp⟩⟩
  | id :: l, r, hl, hc => by
    have hid : id ∈ rmIdx := hl id List.mem_cons_self
    have hc' : PruneCover (apply r (.removeIndex id)) rmIdx rmPacks := by
      constructor
      · intro s hs k hk
        obtain ⟨i, hi, hni, x⟩ := hc.cover s hs k hk
        refine ⟨i, ?_, hni, x⟩
        simp only [apply, List.mem_filter]
        exact ⟨hi, by simp; intro e; exact hni (e ▸ hid)⟩
      · intro i hi
        simp only [apply, List.mem_filter] at hi
        exact hc.unlisted i hi.1
    obtain ⟨ih1, ih2, ih3⟩ := allSafe_removeIndexes rmIdx rmPacks l (apply r (.removeIndex id))
      (fun x hx => hl x (List.mem_cons_of_mem _ hx)) hc'
    refine ⟨?_, ih2, ?_⟩
    · simp only [List.map_cons, allSafe, Bool.and_eq_true]
      refine ⟨?_, ih1⟩
      simp only [safeOp, List.all_eq_true]
      intro s hs
      rw [readable_iff]
      intro k hk
      rw [indexed_iff]
      obtain ⟨i, hi, _, x⟩ := hc'.cover s hs k hk
      exact ⟨i, hi, x⟩
    · intro i hi
      obtain ⟨h1, h2⟩ := ih3 i hi
      simp only [apply, List.mem_filter] at h1
      refine ⟨h1.1, ?_⟩
      simp only [List.mem_cons, not_or]
      exact ⟨by simpa using h1.2, h2⟩

theorem allSafe_removePacks (rmPacks : List Nat) : ∀ (l : List Nat) (r : Repo), (∀ id ∈ l, id ∈ rmPacks) →
    (∀ i ∈ r.indexes, ∀ p ∈ i.packs, p.id ∉ rmPacks) → allSafe r (l.map Op.removePack) = true
  | [], _, _, _ => rfl
  | id :: l, r, hl, hu => by
    simp only [List.map_cons, allSafe, Bool.and_eq_true]
    constructor
    · simp only [safeOp, List.all_eq_true]
      intro i hi p hp
      have := hu i hi p hp
      simp; intro e; exact this (e ▸ hl id List.mem_cons_self)
    · exact allSafe_removePacks rmPacks l _ (fun x hx => hl x (List.mem_cons_of_mem _ hx)) hu

/-- the storage operations of prune (non-instant, or instant without `early_delete_index`). -/
def pruneOps (ps : List Pack) (idx : IndexFile) (rmIdx rmPacks : List Nat) : List Op :=
  ps.map Op.writePack ++ [Op.writeIndex idx] ++ rmIdx.map Op.removeIndex ++ rmPacks.map Op.removePack

/-- **prune**: new packs and the new index first, then removal of the rebuilt index files, then removal of pack
files.  If the new index lists only stored packs, every needed key stays covered by an index file that is kept, and
no removed pack is listed by a kept index file, then every prefix of prune's operations leaves a consistent
repository — nothing a snapshot needs is unreadable at any crash point. -/
theorem pruneOps_allSafe (r : Repo) (ps : List Pack) (idx : IndexFile) (rmIdx rmPacks : List Nat)
    (hidx : idx.packs.all (idxPackSound (applyAll r (ps.map Op.writePack))) = true)
    (hc : PruneCover (applyAll r (ps.map Op.writePack ++ [Op.writeIndex idx])) rmIdx rmPacks) :
    allSafe r (pruneOps ps idx rmIdx rmPacks) = true := by
  unfold pruneOps
  rw [allSafe_append, allSafe_append, allSafe_append]
  simp only [Bool.and_eq_true]
  obtain ⟨s1, s2, s3⟩ := allSafe_removeIndexes rmIdx rmPacks rmIdx
    (applyAll r (ps.map Op.writePack ++ [Op.writeIndex idx])) (fun _ h => h) hc
  refine ⟨⟨⟨allSafe_writePacks ps r, ?_⟩, ?_⟩, ?_⟩
  · simp only [allSafe, safeOp, Bool.and_true]; exact hidx
  · exact s1
  · apply allSafe_removePacks rmPacks rmPacks _ (fun _ h => h)
    intro i hi p hp
    rw [applyAll_append] at hi
    obtain ⟨h1, h2⟩ := s3 i hi
    exact s2.unlisted i hi h2 p hp

theorem prune_protocol_safe (r : Repo) (ps : List Pack) (idx : IndexFile) (rmIdx rmPacks : List Nat)
    (h : consistent r = true)
    (hidx : idx.packs.all (idxPackSound (applyAll r (ps.map Op.writePack))) = true)
    (hc : PruneCover (applyAll r (ps.map Op.writePack ++ [Op.writeIndex idx])) rmIdx rmPacks) :
    ∀ r' ∈ prefixStates r (pruneOps ps idx rmIdx rmPacks), consistent r' = true :=
  safe_run _ r h (pruneOps_allSafe r ps idx rmIdx rmPacks hidx hc)

/-- the flag combinations the property covers (only instant-delete + early-delete-index is excluded) all run the SAFE order:
in particular `early_delete_index` WITHOUT `instant_delete` is inert — the rebuilt index files are removed after the new
index is written (index removal last), exactly like plain prune. -/
theorem pruneOpsOpt_covered_is_safe_order (f : PruneFlags) (hf : ¬(f.instantDelete = true ∧ f.earlyDeleteIndex = true))
    (ps : List Pack) (idx : IndexFile) (rmIdx rmPacks : List Nat) :
    pruneOpsOpt f ps idx rmIdx rmPacks = pruneOps ps idx rmIdx rmPacks := by
  have he : f.early = false := by
    cases f with
    | mk i e => cases i <;> cases e <;> simp_all [PruneFlags.early]
  simp [pruneOpsOpt, pruneOps, he]

/-- **prune, every covered option combination** (`instant_delete` × `early_delete_index` except both): every prefix of the
operations `prune_repository` issues leaves a consistent repository (premises as in `prune_protocol_safe`). -/
theorem prune_protocol_safe_all_options (f : PruneFlags) (hf : ¬(f.instantDelete = true ∧ f.earlyDeleteIndex = true))
    (r : Repo) (ps : List Pack) (idx : IndexFile) (rmIdx rmPacks : List Nat)
    (h : consistent r = true)
    (hidx : idx.packs.all (idxPackSound (applyAll r (ps.map Op.writePack))) = true)
    (hc : PruneCover (applyAll r (ps.map Op.writePack ++ [Op.writeIndex idx])) rmIdx rmPacks) :
    ∀ r' ∈ prefixStates r (pruneOpsOpt f ps idx rmIdx rmPacks), consistent r' = true := by
  rw [pruneOpsOpt_covered_is_safe_order f hf]
  exact prune_protocol_safe r ps idx rmIdx rmPacks h hidx hc

/-- **all of `prune_repository`, every covered option combination**: with `instant_delete` the stored packs that no index
file lists (`unindexed`) are removed first, then the tail (`pruneOpsOpt`).  Every prefix is consistent. -/
theorem prune_full_protocol_safe (f : PruneFlags) (hf : ¬(f.instantDelete = true ∧ f.earlyDeleteIndex = true))
    (r : Repo) (unindexed : List Nat) (ps : List Pack) (idx : IndexFile) (rmIdx rmPacks : List Nat)
    (h : consistent r = true)
    (hun : ∀ i ∈ r.indexes, ∀ p ∈ i.packs, p.id ∉ unindexed)
    (hidx : idx.packs.all (idxPackSound (applyAll (applyAll r (if f.instantDelete then unindexed.map Op.removePack else []))
      (ps.map Op.writePack))) = true)
    (hc : PruneCover (applyAll (applyAll r (if f.instantDelete then unindexed.map Op.removePack else []))
      (ps.map Op.writePack ++ [Op.writeIndex idx])) rmIdx rmPacks) :
    ∀ r' ∈ prefixStates r (pruneOpsFull f unindexed ps idx rmIdx rmPacks), consistent r' = true := by
  apply safe_run _ r h
  unfold pruneOpsFull
  rw [allSafe_append, pruneOpsOpt_covered_is_safe_order f hf, Bool.and_eq_true]
  refine ⟨?_, pruneOps_allSafe _ ps idx rmIdx rmPacks hidx hc⟩
  cases f.instantDelete with
  | false => rfl
  | true => exact allSafe_removePacks unindexed unindexed r (fun _ h => h) hun

theorem dropWhile_append_all {α : Type} (q : α → Bool) : ∀ (l r : List α), (∀ c ∈ l, q c = true) →
    (l ++ r).dropWhile q = r.dropWhile q
  | [], _, _ => rfl
  | a :: l, r, h => by
    simp only [List.cons_append, List.dropWhile_cons, h a List.mem_cons_self, if_true]
    exact dropWhile_append_all q l r (fun c hc => h c (List.mem_cons_of_mem _ hc))

theorem dropWhile_none {α : Type} (q : α → Bool) : ∀ (l : List α), (∀ c ∈ l, q c = false) → l.dropWhile q = l
  | [], _ => rfl
  | a :: l, h => by simp [List.dropWhile_cons, h a List.mem_cons_self]

/-- the operations of the model are in the phase language the monitor uses for the command (so the table the driver checks
real traces against is the model's, not a second description) -/
theorem pruneOpsFull_in_phase_language (f : PruneFlags) (hf : ¬(f.instantDelete = true ∧ f.earlyDeleteIndex = true))
    (unindexed : List Nat) (ps : List Pack) (idx : IndexFile) (rmIdx rmPacks : List Nat) :
    matchPhases (prunePhases f) ((pruneOpsFull f unindexed ps idx rmIdx rmPacks).map Op.kind) = true := by
  have he : f.early = false := by
    cases f with
    | mk i e => cases i <;> cases e <;> simp_all [PruneFlags.early]
  have hP : ∀ c ∈ (ps.map Op.writePack).map Op.kind, c = 'P' := by
    intro c hc
    simp only [List.map_map, List.mem_map, Function.comp] at hc
    obtain ⟨_, _, rfl⟩ := hc; rfl
  have hi : ∀ c ∈ (rmIdx.map Op.removeIndex).map Op.kind, c = 'i' := by
    intro c hc
    simp only [List.map_map, List.mem_map, Function.comp] at hc
    obtain ⟨_, _, rfl⟩ := hc; rfl
  have hp : ∀ (l : List Nat), ∀ c ∈ (l.map Op.removePack).map Op.kind, c = 'p' := by
    intro l c hc
    simp only [List.map_map, List.mem_map, Function.comp] at hc
    obtain ⟨_, _, rfl⟩ := hc; rfl
  -- the tail: [P I]* i* p*
  have tail : matchPhases [['P', 'I'], ['i'], ['p']]
      ((ps.map Op.writePack).map Op.kind ++ (['I'] ++ ((rmIdx.map Op.removeIndex).map Op.kind ++
        (rmPacks.map Op.removePack).map Op.kind))) = true := by
    simp only [matchPhases]
    have e1 : ((ps.map Op.writePack).map Op.kind ++ (['I'] ++ ((rmIdx.map Op.removeIndex).map Op.kind ++
        (rmPacks.map Op.removePack).map Op.kind))).dropWhile (fun c => ['P', 'I'].contains c) =
        (rmIdx.map Op.removeIndex).map Op.kind ++ (rmPacks.map Op.removePack).map Op.kind := by
      rw [dropWhile_append_all (fun c => ['P', 'I'].contains c) ((ps.map Op.writePack).map Op.kind) _
          (fun c hc => by rw [hP c hc]; decide),
        dropWhile_append_all (fun c => ['P', 'I'].contains c) ['I'] _ (fun c hc => by simp at hc; subst hc; decide),
        dropWhile_none (fun c => ['P', 'I'].contains c) _ (fun c hc => by
          rcases List.mem_append.mp hc with h | h
          · rw [hi c h]; decide
          · rw [hp _ c h]; decide)]
    have e2 : ((rmIdx.map Op.removeIndex).map Op.kind ++ (rmPacks.map Op.removePack).map Op.kind).dropWhile
        (fun c => ['i'].contains c) = (rmPacks.map Op.removePack).map Op.kind := by
      rw [dropWhile_append_all (fun c => ['i'].contains c) ((rmIdx.map Op.removeIndex).map Op.kind) _
          (fun c hc => by rw [hi c hc]; decide),
        dropWhile_none (fun c => ['i'].contains c) _ (fun c hc => by rw [hp _ c hc]; decide)]
    have e3 : ((rmPacks.map Op.removePack).map Op.kind).dropWhile (fun c => ['p'].contains c) = [] := by
      have := dropWhile_append_all (fun c => ['p'].contains c) ((rmPacks.map Op.removePack).map Op.kind) []
        (fun c hc => by rw [hp _ c hc]; decide)
      simpa using this
    rw [e1, e2, e3]; rfl
  unfold pruneOpsFull prunePhases pruneOpsOpt
  simp only [he, Bool.false_eq_true, if_false, List.nil_append, List.append_nil, List.map_append, List.map_cons, List.map_nil,
    Op.kind, List.append_assoc]
  cases hI : f.instantDelete with
  | false => simpa using tail
  | true =>
    simp only [if_true, List.cons_append, List.nil_append, matchPhases]
    rw [dropWhile_append_all _ _ _ (fun c hc => by rw [hp _ c hc]; decide)]
    -- the next kind is `P` or `I`: the phase of the unindexed packs ends here
    have hstop : ∀ (l : List Char), (∀ c ∈ l, c = 'P') → ∀ rest,
        (l ++ ('I' :: rest)).dropWhile (fun c => ['p'].contains c) = l ++ ('I' :: rest) := by
      intro l hl rest
      cases l with
      | nil => simp [List.dropWhile_cons]
      | cons a l' =>
        have : a = 'P' := hl a List.mem_cons_self
        subst this
        simp [List.dropWhile_cons]
    rw [hstop _ hP]
    simpa [matchPhases] using tail

/-- `early_delete_index = true, instant_delete = false` — inside the property — is the order packs → new index → old index
files → old packs; were the option honoured on its own (seeded change C03-5) the old index files would go first and the
prefix after the first removal has a snapshot without index (`prune_early_delete_index_unsafe`). -/
theorem prune_early_without_instant_removes_index_last (ps : List Pack) (idx : IndexFile) (rmIdx rmPacks : List Nat) :
    pruneOpsOpt ⟨false, true⟩ ps idx rmIdx rmPacks =
      ps.map Op.writePack ++ [Op.writeIndex idx] ++ rmIdx.map Op.removeIndex ++ rmPacks.map Op.removePack ∧
    pruneOpsOpt ⟨true, true⟩ ps idx rmIdx rmPacks =
      rmIdx.map Op.removeIndex ++ ps.map Op.writePack ++ [Op.writeIndex idx] ++ rmPacks.map Op.removePack := by
  simp [pruneOpsOpt, PruneFlags.early]

/-! ### (3) negative results: orders that are *not* safe -/

def wKey : Key := (.data, 1)
def wRepo : Repo := { packs := [{ id := 1, blobs := [wKey] }], indexes := [{ id := 1, packs := [{ id := 1, blobs := [wKey] }] }],
                      snaps := [{ id := 1, needs := [wKey] }] }
example : consistent wRepo = true := by decide

/-- **repair snapshots before the fix** (`be.save_file(&snap)` inside the loop, `modifier.finalize()` after it): the
repaired snapshot needs a new tree blob whose pack and index entry are only flushed by `finalize` — the prefix
ending right after the snapshot write is inconsistent.  (DESIGN §7 #9.) -/
theorem repairSnapshots_prefix_unsafe :
    firstBad wRepo [.writeSnap { id := 2, needs := [(.tree, 9)] }, .writePack { id := 2, blobs := [(.tree, 9)] },
      .writeIndex { id := 2, packs := [{ id := 2, blobs := [(.tree, 9)] }] }, .removeSnap 1] = some 1 := by decide

/-- the same operations in the order of the repaired code (pack, index, snapshot, removal) are safe at every prefix. -/
theorem repairSnapshots_fixed_order_safe :
    firstBad wRepo [.writePack { id := 2, blobs := [(.tree, 9)] },
      .writeIndex { id := 2, packs := [{ id := 2, blobs := [(.tree, 9)] }] },
      .writeSnap { id := 2, needs := [(.tree, 9)] }, .removeSnap 1] = none := by decide

/-- **repair index --read-all** (`repair/index.rs`: the reduced index file is saved and the old one removed *before*
the pack headers are re-read and re-added): between the removal and the final index write the entries are missing.
(DESIGN §7 #10.) -/
theorem repairIndex_readAll_prefix_unsafe :
    firstBad wRepo [.removeIndex 1, .writeIndex { id := 2, packs := [{ id := 1, blobs := [wKey] }] }] = some 1 := by decide

/-- writing the rebuilt index first and removing the old index files afterwards is safe at every prefix. -/
theorem repairIndex_write_first_safe :
    firstBad wRepo [.writeIndex { id := 2, packs := [{ id := 1, blobs := [wKey] }] }, .removeIndex 1] = none := by decide

/-- prune with `instant_delete` + `early_delete_index` (excluded by the property, documented unsafe): removing the
old index files first leaves a prefix without index. -/
theorem prune_early_delete_index_unsafe :
    firstBad wRepo [.removeIndex 1, .writeIndex { id := 2, packs := [{ id := 1, blobs := [wKey] }] }] ≠ none := by decide

/-- non-vacuity + the witness: on `wRepo` (one pack, one index file, one snapshot) a prune that rebuilds the index is safe at
every prefix for (instant, early) ∈ {(0,0), (1,0), (0,1)} and has an inconsistent prefix for (1,1) -/
theorem prune_flag_table :
    let idx : IndexFile := { id := 2, packs := [{ id := 1, blobs := [wKey] }] }
    [(false, false), (true, false), (false, true), (true, true)].map
      (fun (i, e) => firstBad wRepo (pruneOpsOpt ⟨i, e⟩ [] idx [1] [])) = [none, none, none, some 1] := by decide

/-- **removing the originals before saving the rewritten snapshots** (the order `rewrite --forget` must not have): every
prefix is *consistent* (`firstBad = none`: there is simply no snapshot left) but the prefix after the removal has lost
snapshot 1 — the loss monitor, not the consistency monitor, sees it; in the order of the code nothing is lost. -/
theorem remove_before_save_loses_snapshot :
    let new : Snap := { id := 2, needs := [wKey] }
    firstBad wRepo [.removeSnap 1, .writeSnap new] = none ∧
    firstLost [(1, 2)] [1] wRepo [.removeSnap 1, .writeSnap new] = some 1 ∧
    firstLost [(1, 2)] [1] wRepo (replaceOps [] [(1, new)]) = none ∧
    mustKeep wRepo [(1, 2)] [.removeSnap 1, .writeSnap new] = [1] ∧ mustKeep wRepo [] [.removeSnap 1] = [] := by decide

/-- indexing a pack before writing it is visible as an unsound index at the prefix in between. -/
theorem index_before_pack_unsafe :
    firstBad wRepo [.writeIndex { id := 2, packs := [{ id := 2, blobs := [(.data, 2)] }] },
      .writePack { id := 2, blobs := [(.data, 2)] }] = some 1 := by decide

/-! ### (4) a failed operation stops the (sequential) protocol: the state is a prefix state and the run reports failure -/

theorem failed_op_stops_sequential_protocol : ∀ (ops : List Op) (r : Repo) (k : Nat), k < ops.length →
    (runWithFault r k ops).2 = false ∧ (runWithFault r k ops).1 ∈ prefixStates r ops
  | [], _, _, h => by simp at h
  | o :: ops, r, k, h => by
    unfold runWithFault
    by_cases hk : k = 0
    · simp [hk, prefixStates]
    · simp only [hk, if_false, prefixStates, List.mem_cons]
      have := failed_op_stops_sequential_protocol ops (apply r o) (k - 1) (by simp at h; omega)
      exact ⟨this.1, Or.inr this.2⟩

/-! ### (5) the packer / file-writer / indexer actor model (`Model/PackerActor.lean`), every schedule

The model has any number `n` of writer actors (raw packer → `Actor::send` → `process` = pack write → `indexer.add`, which
saves an index file on its own once it holds `maxCount` blobs or is too old → `finalize` collects the writers' statuses,
saves the remaining index and the snapshot).  A schedule is a list of events; it chooses the interleaving of all
stages of all actors (incl. the read-ahead between `process` and `index`), the pack contents, and which storage
operations fail.  The statements hold for **every** schedule, every `maxCount`, every number of writers. -/
open Rustic.PackerActor in
/-- **An index file only ever lists packs whose write has completed**: whatever the schedule and whichever operations
fail, in every reachable state every pack listed by a stored index file (auto-saved mid-run or saved by `finalize`) is a
stored pack file with exactly the listed blobs. -/
theorem index_lists_only_written_packs (maxCount n : Nat) (r : Repo) (evs : List Ev) (h : listedWritten r = true) :
    listedWritten (run maxCount (init r n) evs).repo = true := by
  rw [listedWritten_iff] at h ⊢
  exact (sound_run maxCount evs _ (sound_init r n h)).idx

open Rustic.PackerActor in
/-- … so the index is sound (`indexSound`, the first half of `consistent`) at every point of every schedule — every crash
point of the concurrent pipeline, and every state a failed run leaves behind. -/
theorem index_sound_at_every_schedule_point (maxCount n : Nat) (r : Repo) (evs : List Ev) (h : listedWritten r = true) :
    indexSound (run maxCount (init r n) evs).repo = true :=
  ((listedWritten_iff _).mp (index_lists_only_written_packs maxCount n r evs h)).indexSound

open Rustic.PackerActor in
/-- what the indexer still holds (its unsaved index file) lists only written packs as well. -/
theorem indexer_holds_only_written_packs (maxCount n : Nat) (r : Repo) (evs : List Ev) (h : listedWritten r = true) :
    ∀ p ∈ (run maxCount (init r n) evs).file, ∃ q ∈ (run maxCount (init r n) evs).repo.packs, q.id = p.id ∧ q.blobs = p.blobs :=
  (sound_run maxCount evs _ (sound_init r n ((listedWritten_iff _).mp h))).file

open Rustic.PackerActor in
/-- **A failed storage operation is reported**: for every schedule, if the command returned `Ok` (and so saved its snapshot)
no storage operation failed — a failed pack write in any writer, a failed auto-save of the index inside `indexer.add`, a
failed final index or snapshot write all reach `finalize` and the command result, however the stages were interleaved;
conversely the command only fails when an operation failed. -/
theorem failed_op_reports_error (maxCount n : Nat) (r : Repo) (evs : List Ev) :
    ((run maxCount (init r n) evs).result = some true → (run maxCount (init r n) evs).faults = 0) ∧
    ((run maxCount (init r n) evs).result = some false → 0 < (run maxCount (init r n) evs).faults) := by
  have h := report_run maxCount evs _ (report_init r n)
  constructor
  · intro hr
    by_cases hf : 0 < (run maxCount (init r n) evs).faults
    · rcases h.vis hf with hb | hb
      · exact absurd hb (not_bad_of_quiet (h.okq hr))
      · rw [hr] at hb; simp at hb
    · omega
  · intro hr
    exact h.rev (Or.inr hr)

open Rustic.PackerActor in
/-- once the command has returned `Ok` nothing is in flight any more: no later step of the schedule changes the state. -/
theorem ok_result_is_final (maxCount n : Nat) (r : Repo) (evs : List Ev) (e : Ev)
    (hr : (run maxCount (init r n) evs).result = some true) :
    step maxCount (run maxCount (init r n) evs) e = run maxCount (init r n) evs :=
  step_noop maxCount _ e hr ((report_run maxCount evs _ (report_init r n)).okq hr)

open Rustic.PackerActor in
/-- **Every crash point of the concurrent pipeline is consistent.**  `Covered` is the archiver's obligation, stated per
`finish` event of the schedule: the snapshot's closure consists of blobs indexed before the run or held by packs handed to
a writer before (in the state the event meets).  Then for every schedule — every interleaving of packers, writer stages
(with read-ahead), auto-saves and the command tail, every choice of failing operations — the repository is `consistent`
in every reachable state: the index is sound and every visible snapshot, old or new, is completely readable.  (A snapshot
is only written after every sent pack was written and listed: `Track`.) -/
theorem actor_every_schedule_point_consistent (maxCount n : Nat) (r : Repo) (evs : List Ev) (hc : consistent r = true)
    (hl : listedWritten r = true) (hcov : Covered maxCount r (init r n) evs) :
    consistent (run maxCount (init r n) evs).repo = true := by
  rw [consistent_iff] at hc ⊢
  have hS := sound_init r n ((listedWritten_iff r).mp hl)
  exact ⟨index_sound_at_every_schedule_point maxCount n r evs hl,
    (track_run maxCount r evs _ hS (track_init r n hc.2) hcov).snaps⟩

namespace ActorWitness
open Rustic.PackerActor
def p1 : Pack := { id := 1, blobs := [(.data, 1), (.data, 2)] }
def p2 : Pack := { id := 2, blobs := [(.data, 3), (.data, 4)] }
def p3 : Pack := { id := 3, blobs := [(.tree, 5)] }
def snap : Snap := { id := 9, needs := [(.data, 1), (.data, 2), (.data, 3), (.data, 4), (.tree, 5)] }
/-- auto-save threshold 4 blobs: the index file listing packs 1 and 2 is written while pack 3 is still queued. -/
def good : List Ev := [.send 0 p1, .send 0 p2, .write 0 true, .send 1 p3, .write 0 true, .index 0 false true, .index 0 false true,
  .write 1 true, .index 1 false true, .finish snap true true]
/-- the write of pack 2 fails; read-ahead lets pack 3 be written and indexed all the same. -/
def faulty : List Ev := [.send 0 p1, .send 0 p2, .write 0 true, .send 1 p3, .write 0 false, .index 0 false true,
  .write 1 true, .index 1 false true, .index 0 false true, .finish snap true true]
end ActorWitness

open Rustic.PackerActor ActorWitness in
/-- non-vacuity: a schedule with an index file auto-saved mid-run ends `Ok` with a consistent repository … -/
example : (run 4 (init {} 2) good).result = some true ∧ (run 4 (init {} 2) good).repo.indexes.length = 2 ∧
    consistent (run 4 (init {} 2) good).repo = true ∧
    (run 4 (init {} 2) (good.take 7)).repo.indexes.length = 1 ∧ hasPack (run 4 (init {} 2) (good.take 7)).repo 3 = false := by decide

open Rustic.PackerActor ActorWitness in
/-- the witness schedules satisfy the hypothesis `Covered` of `actor_every_schedule_point_consistent`. -/
example : Covered 4 {} (init {} 2) good ∧ Covered 4 {} (init {} 2) faulty := by
  simp [Covered, evCovered, good, faulty, step, init, setWr, addToIndexer, snap, p1, p2, p3, idxPackOf, anyDead, allDrained,
    Wr.drained, apply]

open Rustic.PackerActor ActorWitness in
/-- … and with a failed pack write the command fails, no snapshot is written, the stored state is consistent. -/
example : (run 4 (init {} 2) faulty).result = some false ∧ (run 4 (init {} 2) faulty).faults = 1 ∧
    (run 4 (init {} 2) faulty).repo.snaps = [] ∧ consistent (run 4 (init {} 2) faulty).repo = true := by decide

end Rustic.Props.C03
