/-
C02 — Forget and prune never lose data still referenced by a snapshot.

Property theorems about the model `Rustic.Prune` (commands/prune.rs after `fix: prune keys used_ids by (blob type,
id)`, i.e. `typed = true`; every theorem is stated for both values of `typed`, the counter-example for the code
before the fix is `untyped_keys_lose_blob`).  All statements quantify over every list of index files (duplicate
blobs inside and across packs, duplicate pack entries, packs listed as used *and* marked, >255 duplicates,
missing times), every set of used keys, every set of existing packs and every option set — no size bounds.
Helper lemmas: `Rustic/Lemmas/Prune.lean`.
-/
import Rustic.Lemmas.Prune
import Rustic.Lemmas.PruneExec
import Rustic.Lemmas.PruneBridge
import Rustic.Gen.Constants
namespace Rustic.Props.C02
open Rustic.Prune
open Rustic.Repo (BlobType Key)

/-- (1a) **Accounting**: `PackInfo::from_pack` counts every blob of a pack exactly once, as used or as unused
(so `used + unused` blobs add up and `SizeStats::unused_after_prune` subtracts parts of a sum from the sum). -/
theorem fromPack_accounting (typed : Bool) (tpe : BlobType) (bs : List Blob) (c : Counts) :
    (fromPack typed tpe bs c).1.usedBlobs + (fromPack typed tpe bs c).1.unusedBlobs = bs.length :=
  fromPack_partition typed tpe bs c

/-- (1b) The counter protocol of one `from_pack` call: a key with positive counter is either attributed to this
pack — which then has a used blob — or its counter drops by exactly its occurrences in the pack and stays > 0. -/
theorem fromPack_counter_protocol (typed : Bool) (tpe : BlobType) (bs : List Blob) (c : Counts) (k : Key) (n : Nat)
    (hk : c.get k = some (n + 1)) :
    ((fromPack typed tpe bs c).2.get k = some 0 ∧ k ∈ bs.map (keyOf typed) ∧ 0 < (fromPack typed tpe bs c).1.usedBlobs) ∨
    (occ typed k bs ≤ n ∧ (fromPack typed tpe bs c).2.get k = some (n + 1 - occ typed k bs)) :=
  (fromPack_counts typed tpe bs c).2 k n hk

/-- (1a') **`stats_no_underflow`**: `SizeStats::unused_after_prune` (`unused - remove - repackrm`, evaluated inside the
loop of `decide_repack` and when the repack pack size is chosen) never underflows: per blob type, what is booked as
`remove` (packs decided `MarkDelete`) plus what is booked as `repackrm` (packs decided `Repack`) is part of `unused` —
for *every* list of packs with *any* assignment of decisions, hence at every intermediate moment of planning (packs
not decided yet count as `Undecided`), for sizes and for blob counts. -/
theorem stats_no_underflow (ps : List PPack) (t : BlobType) :
    (sizeStats ps t).remove + (sizeStats ps t).repackrm ≤ (sizeStats ps t).unused ∧
    (blobStats ps t).remove + (blobStats ps t).repackrm ≤ (blobStats ps t).unused := by
  constructor
  · simp only [sizeStats]
    apply sumBy_add_le
    intro p
    cases p.todo <;> simp
  · simp only [blobStats]
    apply sumBy_add_le
    intro p
    cases p.todo <;> simp

/-- `count_used_blobs` saturates at `u8::MAX`: the counter of a used key is `min 255 (#occurrences)`. -/
theorem count_saturates (typed : Bool) (keys : List Key) (ps : List PPack) (k : Key) (hk : k ∈ keys) :
    (countUsed typed (Counts.ofKeys keys) ps).get k = some (min 255 (occAll typed k ps)) := by
  have h0 : (Counts.ofKeys keys).get k = some 0 := by simp [Counts.ofKeys, hk]
  have := (countUsed_spec typed ps (Counts.ofKeys keys) k).2 0 h0 (by omega)
  simpa using this

/-- the saturation constant of the model is the width of the counter type in the source (`u8`). -/
theorem saturation_is_u8 : 2 ^ Rustic.Gen.C02_COUNT_SATURATION - 1 = 255 := by decide

/-- (1c) **Every used key is attributed** (DESIGN §7a): if the plan is accepted (`check()` and
`check_existing_packs()` pass) then for every used key there is a pack of the plan that contains it, has a used blob,
and is decided `Keep`, `Repack` or `Recover` — never `MarkDelete`, `Delete`, `KeepMarked`.  Holds with any number of
duplicates (the u8 counter saturates) and for marked-first processing. -/
theorem used_key_attributed (typed : Bool) (kc : Consts) (o : Opts) (files : List IndexFile) (used : List Key)
    (existing : List (Nat × Nat)) (d : Decided) (h : plan typed kc o files used existing = some d) :
    ∀ k ∈ d.usedKeys, ∃ p ∈ d.packs, k ∈ p.blobs.map (keyOf typed) ∧ 0 < p.info.usedBlobs ∧
      (p.todo = .keep ∨ p.todo = .repack ∨ p.todo = .recover) := by
  unfold plan at h
  simp only at h
  split at h
  · simp at h
  · rename_i hcheck
    split at h
    · simp at h
    · rename_i ex c hce
      simp only [Option.some.injEq] at h
      subst h
      intro k hk
      simp only at hk ⊢
      have hcnt := count_saturates typed (used.map (normKey typed)) (newPlan kc files).packs k hk
      have hne : (countUsed typed (Counts.ofKeys (used.map (normKey typed))) (newPlan kc files).packs).get k ≠ some 0 := by
        have : checkCounts (used.map (normKey typed))
            (countUsed typed (Counts.ofKeys (used.map (normKey typed))) (newPlan kc files).packs) = true := by
          simpa using hcheck
        simp only [checkCounts, List.all_eq_true] at this
        have := this k hk
        simpa using this
      rw [hcnt] at hne
      have hocc : 1 ≤ occAll typed k (newPlan kc files).packs := by
        by_cases h0 : occAll typed k (newPlan kc files).packs = 0
        · rw [h0] at hne; simp at hne
        · omega
      obtain ⟨n, hn⟩ : ∃ n, min 255 (occAll typed k (newPlan kc files).packs) = n + 1 :=
        ⟨min 255 (occAll typed k (newPlan kc files).packs) - 1, by omega⟩
      rw [hn] at hcnt
      obtain ⟨p, hp, hmem, hpos, hproc⟩ := decidePacks_attributes typed kc o _ (newPlan kc files).packs k n hcnt
        (by rw [← occAll_split]; omega)
      obtain ⟨q, hq, hb, hmk, hi, _, _, _, htodo⟩ := mem_decideRepack_of_mem kc o _ p hp
      refine ⟨q, hq, by rw [hb]; exact hmem, by rw [hi]; exact hpos, ?_⟩
      have tab := decideOne_table kc o p p.info
      unfold Processed at hproc
      cases hm : p.mark with
      | true =>
        have := tab.2.2.2.1 hm hpos
        rw [← hproc] at this
        simp only [Prod.mk.injEq] at this
        rcases htodo with ⟨_, ht⟩ | ⟨hc, _⟩
        · right; right; rw [ht]; exact this.1
        · rw [this.2] at hc; simp at hc
      | false =>
        rcases htodo with ⟨hc, ht⟩ | ⟨_, ht⟩
        · rcases tab.2.2.2.2.1 hm hpos with h1 | h1
          · rw [← hproc] at h1
            simp only [Prod.mk.injEq] at h1
            left; rw [ht]; exact h1.1
          · rw [← hproc] at h1
            simp only at h1
            rw [hc] at h1; simp at h1
        · rcases ht with ht | ht
          · exact Or.inl ht
          · exact Or.inr (Or.inl ht)

/-- (2) **Decision table** for every pack of an accepted plan:
`MarkDelete` only for unmarked packs without used blob that are not too young; `Delete` only for marked packs
without used blob whose mark time + keep-delete has passed; `KeepMarked*` only for marked packs without used blob;
a marked pack with a used blob is `Recover`ed; an unmarked pack with a used blob is kept or repacked; no pack stays
`Undecided`. -/
theorem decision_table (typed : Bool) (kc : Consts) (o : Opts) (files : List IndexFile) (used : List Key)
    (existing : List (Nat × Nat)) (d : Decided) (h : plan typed kc o files used existing = some d) :
    ∀ q ∈ d.packs,
      q.todo ≠ .undecided ∧
      (q.todo = .markDelete → q.mark = false ∧ q.info.usedBlobs = 0 ∧ tooYoung o q.time = false) ∧
      (q.todo = .delete → q.mark = true ∧ q.info.usedBlobs = 0 ∧ ∃ t, q.time = some t ∧ t + o.keepDelete ≤ o.now) ∧
      ((q.todo = .keepMarked ∨ q.todo = .keepMarkedAndCorrect) → q.mark = true ∧ q.info.usedBlobs = 0) ∧
      (q.mark = true → 0 < q.info.usedBlobs → q.todo = .recover) ∧
      (q.mark = false → 0 < q.info.usedBlobs → q.todo = .keep ∨ q.todo = .repack) := by
  unfold plan at h
  simp only at h
  split at h
  · simp at h
  · split at h
    · simp at h
    · rename_i ex c hce
      simp only [Option.some.injEq] at h
      subst h
      intro q hq
      simp only at hq ⊢
      have hund := (checkExisting_spec typed _ _ _ _ _ hce).1 q hq
      obtain ⟨p, hp, _, hmk, hi, htm, _, _, hcand, htodo⟩ := decideRepack_mem kc o _ q hq
      have hproc := decidePacks_all typed kc o _ _ p hp
      have tab := decideOne_table kc o p p.info
      unfold Processed at hproc
      rw [← hproc] at tab
      simp only at tab
      rw [hmk, hi, htm]
      refine ⟨hund, ?_, ?_, ?_, ?_, ?_⟩
      · intro ht
        rcases htodo with ⟨_, e⟩ | ⟨_, e⟩
        · exact tab.1 (by rw [← e]; exact ht)
        · rcases e with e | e <;> rw [e] at ht <;> simp at ht
      · intro ht
        rcases htodo with ⟨_, e⟩ | ⟨_, e⟩
        · exact tab.2.1 (by rw [← e]; exact ht)
        · rcases e with e | e <;> rw [e] at ht <;> simp at ht
      · intro ht
        rcases htodo with ⟨_, e⟩ | ⟨_, e⟩
        · exact tab.2.2.1 (by rw [← e]; exact ht)
        · rcases e with e | e <;> rw [e] at ht <;> simp at ht
      · intro hm hpos
        have := tab.2.2.2.1 hm hpos
        simp only [Prod.mk.injEq] at this
        rcases htodo with ⟨_, e⟩ | ⟨hc, _⟩
        · rw [e]; exact this.1
        · rw [this.2] at hc; simp at hc
      · intro hm hpos
        rcases htodo with ⟨hc, e⟩ | ⟨_, e⟩
        · rcases tab.2.2.2.2.1 hm hpos with h1 | h1
          · simp only [Prod.mk.injEq] at h1
            left; rw [e]; exact h1.1
          · rw [hc] at h1; simp at h1
        · exact e

/-- the index file of every pack to repack is among those rebuilt. -/
def RepackRebuilt (d : Decided) : Prop := ∀ p ∈ d.packs, p.todo = .repack → d.rebuild.contains p.index = true

/-- **`filter_index_files` keeps what must change**: the index file of every pack whose decision is not `Keep` (and,
without instant-delete, not `KeepMarked`) is rebuilt — for every accepted plan.  Derived from the model of
`PrunePlan::new` (a pack's `index` is a position of the index-file list) and of `filter_index_files`. -/
theorem index_of_changed_pack_rebuilt (typed : Bool) (kc : Consts) (o : Opts) (files : List IndexFile) (used : List Key)
    (existing : List (Nat × Nat)) (d : Decided) (h : plan typed kc o files used existing = some d) :
    ∀ p ∈ d.packs, p.todo ≠ .keep → (o.instantDelete = true ∨ p.todo ≠ .keepMarked) →
      d.rebuild.contains p.index = true :=
  fun _ hp hk hm => rebuilt_of_not_kept h hp hk hm

/-- … in particular `RepackRebuilt` (formerly a hypothesis of (3), checked by the driver) is a theorem. -/
theorem repack_rebuilt (typed : Bool) (kc : Consts) (o : Opts) (files : List IndexFile) (used : List Key)
    (existing : List (Nat × Nat)) (d : Decided) (h : plan typed kc o files used existing = some d) :
    RepackRebuilt d :=
  fun _ hp ht => rebuilt_of_not_kept h hp (by rw [ht]; decide) (Or.inr (by rw [ht]; decide))

/-- (3) **Execution covers every used key**: after `prune_repository` every used key is either in a pack that is kept
(`Keep`) or brought back (`Recover`) — those packs are listed unmarked in the new index and are not removed — or its
blob is among the blobs copied into new packs (`pack.blobs.retain(used_ids.remove(..))` keeps the first copy in
execution order among the packs to repack of every key not already covered by a kept pack). -/
theorem prune_covers_used_keys (typed : Bool) (kc : Consts) (o : Opts) (files : List IndexFile) (used : List Key)
    (existing : List (Nat × Nat)) (d : Decided) (h : plan typed kc o files used existing = some d) :
    ∀ k ∈ d.usedKeys,
      (∃ p ∈ d.packs, (p.todo = .keep ∨ p.todo = .recover) ∧ k ∈ p.blobs.map (keyOf typed)) ∨
      (∃ b ∈ (execute typed o d).repacked, keyOf typed b = k) := by
  have hr : RepackRebuilt d := repack_rebuilt typed kc o files used existing d h
  intro k hk
  obtain ⟨p, hp, hmem, _, ht⟩ := used_key_attributed typed kc o files used existing d h k hk
  rcases ht with ht | ht | ht
  · exact Or.inl ⟨p, hp, Or.inl ht, hmem⟩
  · -- repack: the key is still in used_ids, or a kept pack holds it
    have hreb := hr p hp ht
    unfold plan at h
    simp only at h
    split at h
    · simp at h
    · split at h
      · simp at h
      · rename_i ex c hce
        simp only [Option.some.injEq] at h
        subst h
        simp only at hk hp hreb ⊢
        have h0 : (Counts.ofKeys (used.map (normKey typed))).get k = some 0 := by simp [Counts.ofKeys, hk]
        have hv0 := (countUsed_spec typed (newPlan kc files).packs _ k).2 0 h0 (by omega)
        obtain ⟨v1, hv1⟩ := decidePacks_some typed kc o (newPlan kc files).packs _ k _ hv0
        cases hleft : c.get k with
        | none =>
          rcases (checkExisting_spec typed _ _ _ _ _ hce).2.1 k hleft with e | ⟨q, hq, hq2⟩
          · rw [hv1] at e; simp at e
          · exact Or.inl ⟨q, hq, hq2⟩
        | some v =>
          right
          have hne' : ∀ l : List Nat, l.contains p.index = true → l.isEmpty = false := by
            intro l hl
            cases l with
            | nil => simp at hl
            | cons a l => rfl
          have hne := hne' _ hreb
          simp only [execute, hne]
          simp only [Bool.false_eq_true, if_false]
          rw [retainRepack_filter typed _ _ _ (fun q hq hqt => hr q hq hqt)]
          exact retainRepack_spec typed _ c k v hleft ⟨p, hp, ht, hmem⟩
  · exact Or.inl ⟨p, hp, Or.inr ht, hmem⟩

/-- every blob written into a new pack is copied out of a pack that is repacked (so it exists: `check_existing_packs`
has verified that pack's presence and size). -/
theorem repacked_from_repack_packs (typed : Bool) (o : Opts) (d : Decided) :
    ∀ b ∈ (execute typed o d).repacked, ∃ p ∈ d.packs, p.todo = .repack ∧ b ∈ p.blobs := by
  intro b hb
  unfold execute at hb
  simp only at hb
  split at hb
  · simp at hb
  · simp only at hb
    obtain ⟨p, hp, h⟩ := retainRepack_sub typed _ _ b hb
    exact ⟨p, (List.mem_filter.mp hp).1, h⟩

/-- kept, recovered and repacked packs exist with the size the index states (else the plan is refused). -/
theorem needed_packs_exist (typed : Bool) (kc : Consts) (o : Opts) (files : List IndexFile) (used : List Key)
    (existing : List (Nat × Nat)) (d : Decided) (h : plan typed kc o files used existing = some d) :
    ∀ p ∈ d.packs, (p.todo = .keep ∨ p.todo = .recover ∨ p.todo = .repack) → (p.id, p.size) ∈ existing := by
  unfold plan at h
  simp only at h
  split at h
  · simp at h
  · split at h
    · simp at h
    · rename_i ex c hce
      simp only [Option.some.injEq] at h
      subst h
      intro p hp ht
      obtain ⟨s, hs, rfl⟩ := (checkExisting_spec typed _ _ _ _ _ hce).2.2 p hp ht
      exact hs

/-- (4) **Marked packs stay**: without `instant_delete`, `prune` removes a pack file only if the plan decided
`Delete` for it — hence (decision table) only a pack that was already marked, holds no used blob, and whose mark time
plus `keep_delete` is not after the plan time.  No unreferenced pack is removed either. -/
theorem marked_packs_stay (typed : Bool) (kc : Consts) (o : Opts) (files : List IndexFile) (used : List Key)
    (existing : List (Nat × Nat)) (d : Decided) (h : plan typed kc o files used existing = some d)
    (hi : o.instantDelete = false) :
    (execute typed o d).removeFirst = [] ∧
    ∀ id ∈ (execute typed o d).removePacks, ∃ p ∈ d.packs, p.id = id ∧ p.todo = .delete ∧ p.mark = true ∧
      p.info.usedBlobs = 0 ∧ ∃ t, p.time = some t ∧ t + o.keepDelete ≤ o.now := by
  constructor
  · unfold execute; simp only [hi]; split <;> simp
  · intro id hid
    unfold execute at hid
    simp only [hi] at hid
    split at hid
    · simp at hid
    · simp only [List.mem_filterMap] at hid
      obtain ⟨p, hp, hpid⟩ := hid
      have hp' := (List.mem_filter.mp hp).1
      have tab := decision_table typed kc o files used existing d h p hp'
      cases ht : p.todo <;> rw [ht] at hpid <;> simp at hpid
      exact ⟨p, hp', hpid, ht, tab.2.2.1 ht⟩

/-- (4') **The normal index entry wins over a mark**: a pack that SOME index file lists normally — e.g. the packs of a backup
that was still running when an earlier prune planned: uploaded, not yet indexed, therefore marked as unreferenced, and indexed
when the backup finished — is treated as an unmarked pack by every accepted plan, whatever `packs_to_delete` entries exist for
it and however old their mark is: it is never decided `Delete` / `KeepMarked`, with a used blob it is kept or repacked, and a
non-instant prune does not remove its file.  (Seed C02-4 skipped the pass of `PrunePlan::new` that drops such marked entries
unless the index had other duplicates; replayed by the `h<k>` … `e` histories.) -/
theorem normal_index_entry_wins_over_mark (typed : Bool) (kc : Consts) (o : Opts) (files : List IndexFile) (used : List Key)
    (existing : List (Nat × Nat)) (d : Decided) (h : plan typed kc o files used existing = some d)
    (f : IndexFile) (hf : f ∈ files) (q : IndexPack) (hq : q ∈ f.packs) :
    (∃ p ∈ d.packs, p.id = q.id) ∧
    (∀ p ∈ d.packs, p.id = q.id → p.mark = false ∧ p.todo ≠ .delete ∧ p.todo ≠ .keepMarked ∧
      p.todo ≠ .keepMarkedAndCorrect ∧ (0 < p.info.usedBlobs → p.todo = .keep ∨ p.todo = .repack)) ∧
    (o.instantDelete = false → q.id ∉ (execute typed o d).removePacks) := by
  obtain ⟨_, hc, _, _, _⟩ := plan_shape h
  obtain ⟨hnd, _, _, _, _⟩ := newPlan_spec kc files
  obtain ⟨p0, hp0, hid0, hm0⟩ := newPlan_normal_entry_unmarked kc files f hf q hq
  have hunm : ∀ p ∈ d.packs, p.id = q.id → p.mark = false := by
    intro p hp hpid
    obtain ⟨p', hp', e⟩ := mem_of_core_eq hc hp
    simp only [PPack.core, Prod.mk.injEq] at e
    have : p' = p0 := eq_of_nodup_map (·.id) _ hnd p' hp' p0 hp0 (by simp only [e.2.2.1, hpid, hid0])
    rw [← e.2.2.2.1, this, hm0]
  have hall : ∀ p ∈ d.packs, p.id = q.id → p.mark = false ∧ p.todo ≠ .delete ∧ p.todo ≠ .keepMarked ∧
      p.todo ≠ .keepMarkedAndCorrect ∧ (0 < p.info.usedBlobs → p.todo = .keep ∨ p.todo = .repack) := by
    intro p hp hpid
    have hm := hunm p hp hpid
    have tab := decision_table typed kc o files used existing d h p hp
    refine ⟨hm, ?_, ?_, ?_, fun hu => tab.2.2.2.2.2 hm hu⟩
    · intro ht; have := (tab.2.2.1 ht).1; rw [hm] at this; cases this
    · intro ht; have := (tab.2.2.2.1 (Or.inl ht)).1; rw [hm] at this; cases this
    · intro ht; have := (tab.2.2.2.1 (Or.inr ht)).1; rw [hm] at this; cases this
  refine ⟨?_, hall, ?_⟩
  · have : p0.core ∈ d.packs.map PPack.core := by rw [hc]; exact List.mem_map_of_mem hp0
    obtain ⟨p, hp, e⟩ := List.mem_map.mp this
    simp only [PPack.core, Prod.mk.injEq] at e
    exact ⟨p, hp, by rw [e.2.2.1, hid0]⟩
  · intro hi hrem
    obtain ⟨p, hp, hpid, _, hmark, _⟩ := (marked_packs_stay typed kc o files used existing d h hi).2 q.id hrem
    rw [hunm p hp hpid] at hmark
    cases hmark

/-- (5) **Recover brings back**: a pack that is marked for deletion but holds a blob that is needed again is decided
`Recover`, and executing the plan lists it — with all its blobs — in the *unmarked* section of the new index and does
not remove it. -/
theorem recover_brings_back (typed : Bool) (kc : Consts) (o : Opts) (files : List IndexFile) (used : List Key)
    (existing : List (Nat × Nat)) (d : Decided) (h : plan typed kc o files used existing = some d)
    (p : PPack) (hp : p ∈ d.packs) (hm : p.mark = true) (hu : 0 < p.info.usedBlobs) :
    p.todo = .recover ∧ toIdx p (some o.now) ∈ (execute typed o d).newUnmarked := by
  have ht := (decision_table typed kc o files used existing d h p hp).2.2.2.2.1 hm hu
  have hreb : d.rebuild.contains p.index = true :=
    rebuilt_of_not_kept h hp (by rw [ht]; decide) (Or.inr (by rw [ht]; decide))
  refine ⟨ht, ?_⟩
  have hne : ¬ d.rebuild.isEmpty := by
    intro he; rw [List.isEmpty_iff] at he; rw [he] at hreb; simp at hreb
  simp only [execute, hne]
  simp only [Bool.false_eq_true, if_false]
  apply List.mem_append_left
  simp only [List.mem_filterMap]
  exact ⟨p, List.mem_filter.mpr ⟨hp, hreb⟩, by rw [ht]⟩

/-- prune writes and removes pack and index files only. -/
theorem prune_ops_leave_snapshots (o : Opts) (e : Exec) : (e.ops o).all Repo.Op.noSnap = true := by
  unfold Exec.ops
  simp only [List.all_append, List.all_map, Bool.and_eq_true]
  refine ⟨⟨⟨⟨?_, ?_⟩, ?_⟩, ?_⟩, ?_⟩
  · simp [Repo.Op.noSnap]
  · split <;> simp [Repo.Op.noSnap]
  · split
    · rfl
    · simp only [List.all_append, List.all_map, Bool.and_eq_true]
      constructor
      · simp [Repo.Op.noSnap]
      · split <;> simp [Repo.Op.noSnap]
  · split <;> simp [Repo.Op.noSnap]
  · simp [Repo.Op.noSnap]

/-- (3') **`prune_preserves_readable`** — the bridge from the prune model to the repository protocol of C03
(`prune_protocol_safe`, in the generality `Repo.prune_run_safe`): let `r` be a consistent repository (index sound, every
snapshot readable), let the plan be computed from what `prune_plan` reads off `r` (`Reads`: its index files, the keys its
snapshots need, its pack listing; marked packs truthful; ids of new files fresh) and be accepted.  Then after **every
prefix** of the storage operations `prune` executes — new packs, the new index file, removal of the rebuilt index files,
removal of packs; with `instant_delete` also the early removal of unreferenced packs — the repository is consistent and
every snapshot is still there and completely readable.  Holds for non-instant prune and for instant prune without
`early_delete_index` (for which C03 `prune_early_delete_index_unsafe` is the counter-example), for all option sets,
duplicates, marked packs and limits.  A theorem about the prune model — no comparison of operation lists involved. -/
theorem prune_preserves_readable (kc : Consts) (o : Opts) (r : Repo.Repo) (files : List IndexFile) (used : List Key)
    (existing : List (Nat × Nat)) (d : Decided)
    (hr : Reads r files used existing) (hc : Repo.consistent r = true)
    (h : plan true kc o files used existing = some d)
    (hearly : (o.earlyDeleteIndex && o.instantDelete) = false) :
    ∀ r' ∈ Repo.prefixStates r ((execute true o d).ops o),
      Repo.consistent r' = true ∧ r'.snaps = r.snaps ∧ ∀ s ∈ r.snaps, Repo.readable r' s = true := by
  intro r' hr'
  have hcons := execute_prefix_consistent kc o r files used existing d hr hc h hearly
    (prune_covers_used_keys true kc o files used existing d h)
    (needed_packs_exist true kc o files used existing d h) r' hr'
  have hsn := Repo.snaps_prefixStates _ r (prune_ops_leave_snapshots o _) r' hr'
  refine ⟨hcons, hsn, fun s hs => ?_⟩
  exact ((Repo.consistent_iff r').mp hcons).2 s (by rw [hsn]; exact hs)

/-- … in particular the final state: after the whole run every snapshot is readable. -/
theorem prune_result_readable (kc : Consts) (o : Opts) (r : Repo.Repo) (files : List IndexFile) (used : List Key)
    (existing : List (Nat × Nat)) (d : Decided)
    (hr : Reads r files used existing) (hc : Repo.consistent r = true)
    (h : plan true kc o files used existing = some d)
    (hearly : (o.earlyDeleteIndex && o.instantDelete) = false) :
    ∀ s ∈ r.snaps, Repo.readable (Repo.applyAll r ((execute true o d).ops o)) s = true := by
  have hlast : ∀ (ops : List Repo.Op) (r0 : Repo.Repo), Repo.applyAll r0 ops ∈ Repo.prefixStates r0 ops := by
    intro ops
    induction ops with
    | nil => intro r0; simp [Repo.applyAll, Repo.prefixStates]
    | cons op ops ih =>
      intro r0
      simp only [Repo.applyAll, List.foldl_cons, Repo.prefixStates, List.mem_cons]
      exact Or.inr (ih (Repo.apply r0 op))
  exact (prune_preserves_readable kc o r files used existing d hr hc h hearly _ (hlast _ r)).2.2

/-! ### (3'') a prune run in which a storage operation FAILS

`prune_repository` is sequential at the level of its phases and propagates every failed storage operation with `?` — the
write of a repacked pack surfaces at the next `copy` or, for the last pack of a repacker, at `BlobCopier::finalize`; the
index write at `Indexer::finalize`; removals at `delete_list`.  So a run with one failing operation is `Repo.runWithFault`
on the executed operation list: it stops there and returns `Err`.  (That the real code does not swallow a failure is checked
on the real code by the fault sweep of the `hist` channel, step `q`.) -/

/-- **`prune_failed_write_keeps_snapshots`**: under the hypotheses of `prune_preserves_readable`, if the `k`-th storage
operation of the prune run fails — the write of a repacked tree or data pack (the last one included), the write of the new
index file, the removal of an old index file or of a pack — the run reports failure, and the state it leaves behind is
consistent, has all snapshot files, and every snapshot is completely readable: nothing needed was removed, and nothing that
was not stored is listed.  Every `k`, every option set (except `early_delete_index` ∧ `instant_delete`), mark-only and
instant-delete. -/
theorem prune_failed_write_keeps_snapshots (kc : Consts) (o : Opts) (r : Repo.Repo) (files : List IndexFile) (used : List Key)
    (existing : List (Nat × Nat)) (d : Decided)
    (hr : Reads r files used existing) (hc : Repo.consistent r = true)
    (h : plan true kc o files used existing = some d)
    (hearly : (o.earlyDeleteIndex && o.instantDelete) = false)
    (k : Nat) (hk : k < ((execute true o d).ops o).length) :
    (Repo.runWithFault r k ((execute true o d).ops o)).2 = false ∧
    Repo.consistent (Repo.runWithFault r k ((execute true o d).ops o)).1 = true ∧
    (Repo.runWithFault r k ((execute true o d).ops o)).1.snaps = r.snaps ∧
    ∀ s ∈ r.snaps, Repo.readable (Repo.runWithFault r k ((execute true o d).ops o)).1 s = true := by
  obtain ⟨h1, h2⟩ := Rustic.Props.C03.failed_op_stops_sequential_protocol ((execute true o d).ops o) r k hk
  exact ⟨h1, prune_preserves_readable kc o r files used existing d hr hc h hearly _ h2⟩

/-- **`prune_failed_repack_write_keeps_index`**: a run that fails while it still WRITES — at the early removal of an
unreferenced pack, at the write of a repacked pack or at the write of the new index file (`k ≤ |removeFirst| + |new packs|`)
— stops before the clean-up: the index files (and snapshot files) are exactly those from before the run; no index file and
no listed pack has been removed, so what the old index lists is still what a reader finds.  For every execution record
(no hypothesis on the plan), every option set except `early_delete_index` ∧ `instant_delete`. -/
theorem prune_failed_repack_write_keeps_index (o : Opts) (r : Repo.Repo) (e : Exec)
    (hearly : (o.earlyDeleteIndex && o.instantDelete) = false)
    (k : Nat) (hk : k ≤ e.removeFirst.length + (execNewPacks e).length) :
    (Repo.runWithFault r k (e.ops o)).1.indexes = r.indexes ∧ (Repo.runWithFault r k (e.ops o)).1.snaps = r.snaps := by
  rw [ops_eq_pruneRunOps o e hearly]
  exact Repo.prune_run_fault_before_cleanup r _ _ _ _ _ k hk

/-! ### Witnesses (non-vacuity, and the defect fixed by `fix: prune keys used_ids by (blob type, id)`) -/

def wConsts : Consts :=
  { compOverhead := 32, lengthLen := 4, entryLen := 37, entryLenComp := 41, minIndexLen := 10000, maxPackSize := 4273995776 }
def wSizer : Sizer := { defaultSize := 200, growFactor := 0, sizeLimit := 4000000000, currentSize := 100, minPct := 30, maxPct := 300 }
def wOpts : Opts :=
  { now := 1000000, keepPack := 0, keepDelete := 82800, repackCacheableOnly := false, repackUncompressed := false,
    repackAll := false, noResize := false, instantDelete := false, earlyDeleteIndex := false,
    maxRepack := .percent 10, maxUnused := .percent 5, treeSizer := wSizer, dataSizer := wSizer }
/-- tree blob `t1` and data blob `d1` share the id 1; one pack each; both are used. -/
def wFiles : List IndexFile :=
  [{ id := 1, del := [], packs :=
      [{ id := 1, time := some 900000, size := some 97, blobs := [{ tpe := .tree, id := 1, offset := 0, length := 20, compressed := true }] },
       { id := 2, time := some 900000, size := some 97, blobs := [{ tpe := .data, id := 1, offset := 0, length := 20, compressed := true }] }] }]
def wTodos (typed : Bool) : Option (List ToDo) :=
  (plan typed wConsts wOpts wFiles [(.tree, 1), (.data, 1)] [(1, 97), (2, 97)]).map (fun d => d.packs.map (·.todo))

/-- with typed keys (the repaired code) both packs are kept … -/
theorem typed_keys_keep_both : wTodos true = some [.keep, .keep] := by decide +kernel
/-- … with the untyped `BTreeMap<BlobId, u8>` of the code before the fix, the tree pack — processed first, its blob
counted as a duplicate of the equal-id data blob — is marked for deletion although the snapshot needs it
(DESIGN §7 #8; replayed on the real code by corpus/C02/id_collision.ops). -/
theorem untyped_keys_lose_blob : wTodos false = some [.markDelete, .keep] := by decide +kernel

/-- non-vacuity of (4)/(5): a marked pack with a needed blob is recovered, an expired unneeded one deleted, a fresh
one kept marked. -/
example :
    (plan true wConsts wOpts
      [{ id := 1, packs := [], del :=
          [{ id := 1, time := some 900000, size := some 97, blobs := [{ tpe := .data, id := 1, offset := 0, length := 20, compressed := true }] },
           { id := 2, time := some 900000, size := some 97, blobs := [{ tpe := .data, id := 2, offset := 0, length := 20, compressed := true }] },
           { id := 3, time := some 999999, size := some 97, blobs := [{ tpe := .data, id := 3, offset := 0, length := 20, compressed := true }] }] }]
      [(.data, 1)] [(1, 97), (2, 97), (3, 97)]).map (fun d => d.packs.map (·.todo))
    = some [.recover, .delete, .keepMarked] := by decide +kernel

/-! non-vacuity of `prune_preserves_readable`: a concrete consistent repository — a partly used pack (repacked), an
unused pack (marked), a fresh marked pack (kept marked), an expired marked pack (deleted) — satisfies all hypotheses,
and the monitor of C03 confirms the conclusion on it. -/
def vBlob (id : Nat) : Blob := { tpe := .data, id := id, offset := 0, length := 20, compressed := true }
def vFiles : List IndexFile :=
  [{ id := 1,
     packs := [{ id := 1, time := some 900000, size := some 100, blobs := [vBlob 1, { vBlob 2 with offset := 20 }] },
               { id := 2, time := some 900000, size := some 100, blobs := [vBlob 3] }],
     del := [{ id := 3, time := some 999999, size := some 100, blobs := [vBlob 4] },
             { id := 4, time := some 900000, size := some 100, blobs := [vBlob 5] }] }]
def vRepo : Repo.Repo :=
  { packs := [{ id := 1, blobs := [(.data, 1), (.data, 2)] }, { id := 2, blobs := [(.data, 3)] },
              { id := 3, blobs := [(.data, 4)] }, { id := 4, blobs := [(.data, 5)] }],
    indexes := vFiles.map toRepoIndex,
    snaps := [{ id := 1, needs := [(.data, 1)] }] }
def vOpts : Opts := { wOpts with maxRepack := .unlimited, maxUnused := .size 0 }
def vExisting : List (Nat × Nat) := [(1, 100), (2, 100), (3, 100), (4, 100)]

theorem vReads : Reads vRepo vFiles [(.data, 1)] vExisting :=
  { indexes := rfl, indexIds := by decide, used := by decide, existing := by decide, markedTruthful := by decide,
    freshIndex := by decide, freshPacks := fun t => by cases t <;> decide }

example : Repo.consistent vRepo = true ∧
    (plan true wConsts vOpts vFiles [(.data, 1)] vExisting).map (fun d => d.packs.map (·.todo))
      = some [.repack, .markDelete, .keepMarked, .delete] ∧
    (plan true wConsts vOpts vFiles [(.data, 1)] vExisting).map
      (fun d => Repo.firstBad vRepo ((execute true vOpts d).ops vOpts)) = some none := by
  refine ⟨by decide, by decide +kernel, by decide +kernel⟩

/-- non-vacuity of `prune_failed_write_keeps_snapshots` / `prune_failed_repack_write_keeps_index` on the same repository: the
run has 4 storage operations (repacked pack, new index, removal of the old index file, removal of the expired pack); a fault
at operation k = 0 … 3 gives (`Err`, consistent state, number of index files 1, 1, 2, 1) — the old index file is still the
only one when the pack write or the index write fails; without fault (k = 4) the run returns `Ok`. -/
example :
    (plan true wConsts vOpts vFiles [(.data, 1)] vExisting).map (fun d =>
      (List.range (((execute true vOpts d).ops vOpts).length + 1)).map (fun k =>
        let x := Repo.runWithFault vRepo k ((execute true vOpts d).ops vOpts)
        (x.2, Repo.consistent x.1, x.1.indexes.length)))
      = some [(false, true, 1), (false, true, 1), (false, true, 2), (false, true, 1), (true, true, 1)] := by
  decide +kernel

/-! ### (8) `find_used_blobs`: the used keys hold the content of EVERY file node, whatever size the node records -/

/-- For every list of snapshot roots, everything the tree streamer yields, every streamed tree, every FILE node of it — with ANY
recorded `meta.size`, in particular 0 (stdin / command snapshots, `/proc`-like files, files that grew after `stat`) — and every
id of its content list: the data key of that id is among the used keys.  (With `Reads.used` ⇒ `prune_preserves_readable`: the
blob survives every prune.) -/
theorem used_holds_all_file_content (snapTrees : List Nat) (streamed : List (Nat × List TNode))
    (t : Nat) (nodes : List TNode) (n : TNode) (cs : List Nat) (c : Nat)
    (ht : (t, nodes) ∈ streamed) (hn : n ∈ nodes) (hf : n.type = .file) (hc : n.content = some cs) (hcs : c ∈ cs) :
    (BlobType.data, c) ∈ findUsed snapTrees streamed := by
  unfold findUsed
  refine List.mem_append_right _ (List.mem_flatMap.mpr ⟨(t, nodes), ht, List.mem_flatMap.mpr ⟨n, hn, ?_⟩⟩)
  simp only [nodeUsed, hf, hc, Option.getD_some]
  exact List.mem_map.mpr ⟨c, hcs, rfl⟩

/-- the used keys do not depend on the recorded sizes at all: rewriting `meta.size` of every node in any way gives the same keys. -/
theorem used_ignores_recorded_size (f : TNode → Nat) (snapTrees : List Nat) (streamed : List (Nat × List TNode)) :
    findUsed snapTrees (streamed.map (fun x => (x.1, x.2.map (fun n => { n with size := f n })))) = findUsed snapTrees streamed := by
  unfold findUsed
  congr 1
  simp only [List.flatMap_map]
  rfl

/-- the root tree of every snapshot and the subtree of every streamed directory node are used tree keys. -/
theorem used_holds_roots_and_dir_subtrees (snapTrees : List Nat) (streamed : List (Nat × List TNode)) :
    (∀ r ∈ snapTrees, (BlobType.tree, r) ∈ findUsed snapTrees streamed) ∧
    (∀ t nodes n u, (t, nodes) ∈ streamed → n ∈ nodes → n.type = .dir → n.subtree = some u →
      (BlobType.tree, u) ∈ findUsed snapTrees streamed) := by
  unfold findUsed
  refine ⟨fun r hr => List.mem_append_left _ (List.mem_map.mpr ⟨r, hr, rfl⟩), ?_⟩
  intro t nodes n u ht hn hd hs
  refine List.mem_append_right _ (List.mem_flatMap.mpr ⟨(t, nodes), ht, List.mem_flatMap.mpr ⟨n, hn, ?_⟩⟩)
  simp [nodeUsed, hd, hs]

/-- Witness (seeded change C02-8, replayed on the real code by every `hist` case — the sources record size 0 / a stale size for
4 of 6 contents): a command snapshot — root tree 1 with the file node `test`, recorded size 0, content [7].  The code's
`findUsed` holds the data key 7; with the guard `NodeType::File if node.meta.size > 0` it is lost, so prune would treat the
pack of blob 7 as unused. -/
theorem size_guard_loses_stdin_content :
    let streamed : List (Nat × List TNode) := [(1, [{ type := .file, size := 0, content := some [7] }])]
    (BlobType.data, 7) ∈ findUsed [1] streamed ∧ (BlobType.data, 7) ∉ findUsedSizeGuard [1] streamed := by
  decide

end Rustic.Props.C02
