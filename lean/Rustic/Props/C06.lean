/-
C06 — Chunking is a lossless, bounded, content-defined partition.

Property theorems only (helper lemmas live in `Rustic/Lemmas/Chunker.lean`).  All statements quantify
over every byte stream, every rolling hash (`Roll σ`), every read-fragmentation schedule, every buffer
size > 0 and every parameter set accepted by `WFp` — no bound on lengths.
-/
import Rustic.Lemmas.Chunker
import Rustic.Lemmas.ChunkerRabin
import Rustic.Lemmas.ChunkerErr
namespace Rustic.Props.C06
open Rustic.Chunker
variable {σ : Type}

/-- Parameters on which the iterator is specified: exactly `chunk_min_size ≥ 1` and `min ≤ max`
(`check_rabin_params` guarantees `min ≤ avg ≤ max`).  `min = 0` makes the real iterator yield empty chunks
forever (handed to C18). -/
def WFp (p : Params) : Prop := 0 < p.min ∧ p.min ≤ p.max

/-- All chunks the iterator yields for `input`, read through a reader that fragments by `sched`
into a buffer of `bufSize` bytes. -/
def chunksOf (r : Roll σ) (p : Params) (bufSize : Nat) (input : Bytes) (sched : List Ev) : List Bytes :=
  run r p (input.length + 2) (St.init bufSize input sched)

/-- (1) Refinement: the iterator computes the declarative specification, whatever the reader does. -/
theorem chunker_refines_spec (r : Roll σ) (p : Params) (hp : WFp p) (bufSize : Nat) (hb : 0 < bufSize)
    (input : Bytes) (sched : List Ev) :
    chunksOf r p bufSize input sched = chunksSpec r p input := by
  have hinv : (St.init bufSize input sched).Inv := ⟨hb, fun h => by simp [St.init] at h⟩
  have := run_eq_spec r p hp.1 (input.length + 2) (St.init bufSize input sched) hinv
    (by simp [St.init, Src.pending])
  simpa [chunksOf, St.init, Src.pending] using this

/-- (1') Independence of read fragmentation: 1-byte reads, short reads, `Interrupted` bursts and any
(shrinking) buffer size give identical chunks. -/
theorem fragmentation_independent (r : Roll σ) (p : Params) (hp : WFp p) (b₁ b₂ : Nat) (h₁ : 0 < b₁)
    (h₂ : 0 < b₂) (input : Bytes) (s₁ s₂ : List Ev) :
    chunksOf r p b₁ input s₁ = chunksOf r p b₂ input s₂ := by
  rw [chunker_refines_spec r p hp b₁ h₁, chunker_refines_spec r p hp b₂ h₂]

/-- (2) Lossless: the concatenation of the chunks is the stream. -/
theorem lossless (r : Roll σ) (p : Params) (hp : WFp p) (bufSize : Nat) (hb : 0 < bufSize)
    (input : Bytes) (sched : List Ev) :
    (chunksOf r p bufSize input sched).flatten = input := by
  rw [chunker_refines_spec r p hp bufSize hb]; exact chunksSpec_flatten r p hp.1 input

/-- (3) Bounds: no chunk is empty or longer than `max`; every chunk except the last is at least `min`. -/
theorem bounded (r : Roll σ) (p : Params) (hp : WFp p) (bufSize : Nat) (hb : 0 < bufSize)
    (input : Bytes) (sched : List Ev) :
    (∀ c ∈ chunksOf r p bufSize input sched, c ≠ [] ∧ c.length ≤ p.max) ∧
    (∀ i, i + 1 < (chunksOf r p bufSize input sched).length →
        p.min ≤ ((chunksOf r p bufSize input sched)[i]?.getD []).length) := by
  rw [chunker_refines_spec r p hp bufSize hb]; exact chunksSpec_bounds r p hp.1 hp.2 input

/-- (4) Content-defined cuts: the first chunk of a stream at least `min` long ends at the *first* length
`L ≥ min` at which `L ≥ max` or the rolling hash of the chunk's window (`fpState`) has zero low bits — or at
the end of the input. -/
theorem cut_is_first_boundary (r : Roll σ) (p : Params) (bs : Bytes) (hlen : p.min ≤ bs.length) :
    (∀ L, p.min ≤ L → L < cut r p bs → L < p.max ∧ r.hash (fpState r p bs L) &&& p.mask ≠ 0) ∧
    (cut r p bs = bs.length ∨ cut r p bs ≥ p.max ∨ r.hash (fpState r p bs (cut r p bs)) &&& p.mask = 0) :=
  cut_char r p bs hlen

/-- (5) Locality: cut points depend only on the bytes since the previous cut — after `j` chunks the
remaining chunks are the chunking of the remaining bytes alone. -/
theorem cuts_depend_only_on_bytes_since_previous_cut (r : Roll σ) (p : Params) (hp : WFp p) (bs : Bytes)
    (j : Nat) :
    (chunksSpec r p bs).drop j =
      chunksSpec r p (bs.drop ((chunksSpec r p bs).take j).flatten.length) := by
  have h := chunksSpec_suffix r p hp.1 bs j
  have h2 : chunksSpec r p bs = (chunksSpec r p bs).take j ++ (chunksSpec r p bs).drop j :=
    (List.take_append_drop j _).symm
  exact List.append_cancel_left (h2.symm.trans h)

/-- (5') Resynchronisation: two streams sharing the suffix `s` that both have a cut `k` bytes into `s`
are cut identically from there on. -/
theorem shared_suffix_resync (r : Roll σ) (p : Params) (hp : WFp p) (x y s : Bytes) (i j k : Nat)
    (hx : ((chunksSpec r p (x ++ s)).take i).flatten.length = x.length + k)
    (hy : ((chunksSpec r p (y ++ s)).take j).flatten.length = y.length + k) :
    (chunksSpec r p (x ++ s)).drop i = (chunksSpec r p (y ++ s)).drop j := by
  rw [cuts_depend_only_on_bytes_since_previous_cut r p hp, cuts_depend_only_on_bytes_since_previous_cut r p hp,
    hx, hy]
  have h1 : (x ++ s).drop (x.length + k) = s.drop k := by rw [← List.drop_drop, List.drop_left]
  have h2 : (y ++ s).drop (y.length + k) = s.drop k := by rw [← List.drop_drop, List.drop_left]
  rw [h1, h2]

/-- (5'') Appending (or editing later bytes) leaves every chunk before the last one untouched. -/
theorem append_changes_only_last_chunk (r : Roll σ) (p : Params) (hp : WFp p) (a t : Bytes) :
    chunksSpec r p (a ++ t) =
      (chunksSpec r p a).dropLast ++ chunksSpec r p ((chunksSpec r p a).getLast?.getD [] ++ t) :=
  chunksSpec_append r p hp.1 a t

/-- (0) Every parameter set the iterator accepts (`ChunkIter::new` runs `check_rabin_params` for every file, also when
the stored configuration bypassed the `config` command) satisfies `WFp`: the theorems above apply to every accepted
parameter set, and a set with `max < min`, `min = 0` or a non-power-of-two average is refused. -/
theorem accepted_params_are_wf (avg mn mx : Nat) (mask : UInt64) (h : checkRabinParams avg mn mx = true) :
    WFp { min := mn, max := mx, mask := mask } := by
  simp only [checkRabinParams, Bool.and_eq_true, bne_iff_ne, Bool.not_eq_true', decide_eq_false_iff_not] at h
  obtain ⟨⟨⟨_, h2⟩, h3⟩, h4⟩ := h
  exact ⟨Nat.pos_of_ne_zero h2, by simp only at *; omega⟩

/-- (0') … and the refusal is exact: a power-of-two average with `0 < min ≤ avg ≤ max` is accepted. -/
theorem wf_params_with_pow2_avg_accepted (avg mn mx : Nat) (hp : isPow2 avg = true) (h1 : 0 < mn) (h2 : mn ≤ avg)
    (h3 : avg ≤ mx) : checkRabinParams avg mn mx = true := by
  simp only [checkRabinParams, hp, Bool.true_and, Bool.and_eq_true, bne_iff_ne, Bool.not_eq_true',
    decide_eq_false_iff_not]
  exact ⟨⟨by omega, by omega⟩, by omega⟩

/-- (6) Fixed-size chunker: refinement, lossless, all chunks but the last have exactly `size` bytes. -/
theorem fixed_refines_spec (size : Nat) (hs : 0 < size) (input : Bytes) :
    fixedRun size (input.length + 2) { rest := input, finished := false } = fixedSpec size input :=
  fixedRun_eq_spec size hs _ _ (fun h => by simp at h) (by simp)

theorem fixed_lossless (size : Nat) (hs : 0 < size) (input : Bytes) :
    (fixedRun size (input.length + 2) { rest := input, finished := false }).flatten = input := by
  rw [fixed_refines_spec size hs]; exact fixedSpec_flatten size hs input

theorem fixed_sizes (size : Nat) (hs : 0 < size) (input : Bytes) :
    (∀ c ∈ fixedSpec size input, c ≠ [] ∧ c.length ≤ size) ∧
    (∀ i, i + 1 < (fixedSpec size input).length → ((fixedSpec size input)[i]?.getD []).length = size) :=
  fixedSpec_sizes size hs input

/-- (7) The table-driven rolling hash of `rustic_cdc::Rabin64` (out/mod tables, circular window) equals the
direct remainder computation over the most recent 64 bytes, for every polynomial of degree 8..55 (the
repository's have degree 53) and every byte sequence. -/
theorem rolling_hash_is_window_remainder (poly : UInt64) (hlo : 8 ≤ Rustic.Rabin.degree poly)
    (hhi : Rustic.Rabin.degree poly ≤ 55) (bs : Bytes) :
    ((bs.foldl (Rustic.Rabin.slide (Rustic.Rabin.Tables.mk' 6 poly))
        (Rustic.Rabin.reset (Rustic.Rabin.Tables.mk' 6 poly))).hash).toNat =
      Rustic.Rabin.pmod (Rustic.Rabin.bytesPoly (bs.drop (bs.length - 64))) poly.toNat :=
  Rustic.Rabin.slide_window_eq_pmod poly hlo hhi bs

/-- (7') `Polynom64::modulo` is *the* polynomial remainder over GF(2): degree bound, existence of a quotient
(carry-less product `clmul`), uniqueness. -/
theorem modulo_is_polynomial_remainder (p m : UInt64) (hm : m ≠ 0) :
    Rustic.Rabin.degree (Rustic.Rabin.modulo p m) < Rustic.Rabin.degree m ∧
    (∃ q : Nat, p.toNat = Rustic.Rabin.clmul q m.toNat ^^^ (Rustic.Rabin.modulo p m).toNat) ∧
    (∀ (q r : Nat), p.toNat = Rustic.Rabin.clmul q m.toNat ^^^ r → Rustic.Rabin.pdeg r < Rustic.Rabin.degree m →
      r = (Rustic.Rabin.modulo p m).toNat) :=
  Rustic.Rabin.modulo_spec p m hm

/-- (8) What the cut test looks at: at chunk length `L` the value compared with the split mask is the Rabin
fingerprint of the last 64 bytes of `codeWindowInput` … -/
theorem cut_test_is_rabin_fingerprint (poly : UInt64) (hlo : 8 ≤ Rustic.Rabin.degree poly)
    (hhi : Rustic.Rabin.degree poly ≤ 55) (p : Params) (bs : Bytes) (L : Nat) :
    ((Rustic.Rabin.roll (Rustic.Rabin.Tables.mk' 6 poly)).hash
        (fpState (Rustic.Rabin.roll (Rustic.Rabin.Tables.mk' 6 poly)) p bs L)).toNat =
      Rustic.Rabin.pmod (Rustic.Rabin.bytesPoly
        ((codeWindowInput p bs L).drop ((codeWindowInput p bs L).length - 64))) poly.toNat :=
  cut_hash_is_fingerprint poly hlo hhi p bs L

/-- (8') … which from `min + 64` on is literally the most recent 64 bytes of the chunk.  For
`min ≤ L < min + 64` it is not (byte `min − 1` is skipped): the listed known finding, decided by the
`litwin` channel with the witness in `corpus/C06/window_gap.ops`. -/
theorem window_is_most_recent_64_bytes_partial (p : Params) (bs : Bytes) (L : Nat) (hL : L ≤ bs.length)
    (h64 : p.min + 64 ≤ L) :
    (codeWindowInput p bs L).drop ((codeWindowInput p bs L).length - 64) = (bs.take L).drop (L - 64) :=
  codeWindow_literal p bs L hL h64

/-! ### (9) reader errors (`Model/ChunkerErr.lean`) -/

/-- What the consumer (`for chunk in iter { let chunk = chunk?; … }`) gets from a reader that delivers the first `failAt`
bytes of `input` — fragmented by `sched` in any way — and then answers with an error other than `Interrupted`:
the chunks before the first `Err`/`None`, and how the iteration ended. -/
def chunksOfFailing (r : Roll σ) (p : Params) (bufSize : Nat) (input : Bytes) (failAt : Nat) (sched : List Ev) :
    List Bytes × Outcome :=
  runE true r p (input.length + 2) (St.init bufSize (input.take failAt) sched)

/-- (9) A reader error is reported, never swallowed: for every stream, every failure position (also 0 and past the end:
the error then takes the place of the final `Ok(0)`), every fragmentation schedule and buffer size, the iteration ends with
`Some(Err)` — not with `None`, which would make a truncated stream look complete — and the chunks yielded before the error
are exactly the chunks of the delivered bytes up to (at most) the one chunk that the end of the data would have cut; in
particular their concatenation is a prefix of the stream. -/
theorem reader_error_is_reported (r : Roll σ) (p : Params) (hp : WFp p) (bufSize : Nat) (hb : 0 < bufSize)
    (input : Bytes) (failAt : Nat) (sched : List Ev) :
    (chunksOfFailing r p bufSize input failAt sched).2 = .error ∧
    (∃ tail, chunksSpec r p (input.take failAt) = (chunksOfFailing r p bufSize input failAt sched).1 ++ tail ∧
      tail.length ≤ 1) ∧
    (chunksOfFailing r p bufSize input failAt sched).1.flatten <+: input := by
  have hinv : (St.init bufSize (input.take failAt) sched).Inv := ⟨hb, fun h => by simp [St.init] at h⟩
  have hlen : (input.take failAt).length ≤ input.length := by simp [List.length_take]; omega
  have h := runE_failing_spec r p hp.1 (input.length + 2) (St.init bufSize (input.take failAt) sched) hinv rfl
    (by simp only [St.init, Src.pending, List.nil_append]; omega)
  simp only [St.init, Src.pending, List.nil_append] at h
  obtain ⟨ho, tail, ht, hl⟩ := h
  refine ⟨ho, ⟨tail, ht, hl⟩, ?_⟩
  have hf := chunksSpec_flatten r p hp.1 (input.take failAt)
  rw [ht, List.flatten_append] at hf
  refine ⟨tail.flatten ++ input.drop failAt, ?_⟩
  unfold chunksOfFailing
  simp only [St.init]
  rw [← List.append_assoc, hf, List.take_append_drop]

/-- (9') … and without a reader error there is none: the same consumer ends with `None` and has all chunks. -/
theorem no_reader_error_no_error (r : Roll σ) (p : Params) (hp : WFp p) (bufSize : Nat) (hb : 0 < bufSize)
    (input : Bytes) (sched : List Ev) :
    runE false r p (input.length + 2) (St.init bufSize input sched) = (chunksSpec r p input, .done) := by
  have hinv : (St.init bufSize input sched).Inv := ⟨hb, fun h => by simp [St.init] at h⟩
  have := runE_ok_spec r p hp.1 (input.length + 2) (St.init bufSize input sched) hinv
    (by simp [St.init, Src.pending])
  simpa [St.init, Src.pending] using this

/-- (9'') The fixed-size chunker likewise: a failing reader ends the iteration with `Some(Err)` after exactly the full-size
chunks of the delivered bytes (a partial last chunk is dropped, not yielded as if it were the end of the file). -/
theorem fixed_reader_error_is_reported (size : Nat) (hs : 0 < size) (input : Bytes) (failAt : Nat) :
    (fixedRunE true size (input.length + 2) { rest := input.take failAt, finished := false }).2 = .error ∧
    (∃ tail, fixedSpec size (input.take failAt) =
        (fixedRunE true size (input.length + 2) { rest := input.take failAt, finished := false }).1 ++ tail ∧ tail.length ≤ 1) ∧
    (fixedRunE true size (input.length + 2) { rest := input.take failAt, finished := false }).1.flatten <+: input := by
  have hlen : (input.take failAt).length ≤ input.length := by simp [List.length_take]; omega
  obtain ⟨ho, tail, ht, hl⟩ := fixedRunE_failing_spec size hs (input.length + 2)
    { rest := input.take failAt, finished := false } rfl (by simp only; omega)
  simp only at ht
  refine ⟨ho, ⟨tail, ht, hl⟩, ?_⟩
  have hf := fixedSpec_flatten size hs (input.take failAt)
  rw [ht, List.flatten_append] at hf
  refine ⟨tail.flatten ++ input.drop failAt, ?_⟩
  rw [← List.append_assoc, hf, List.take_append_drop]

/-! Non-vacuity: the hypotheses are met by concrete, non-trivial parameter sets (the repository default
and a tiny one below the 4 KiB buffer and below the 64-byte window). -/
example : WFp { min := 512 * 1024, max := 8 * 1024 * 1024, mask := 0xFFFFF } := ⟨by decide, by decide⟩
example : WFp { min := 16, max := 100, mask := 63 } := ⟨by decide, by decide⟩
/-- the crate's default polynomial (degree 53) meets the hypotheses of (7) and (8) -/
example : 8 ≤ Rustic.Rabin.degree 0x003DA3358B4DC173 ∧ Rustic.Rabin.degree 0x003DA3358B4DC173 ≤ 55 := by decide

end Rustic.Props.C06
