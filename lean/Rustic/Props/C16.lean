/-
C16 — Hot/cold repositories keep the hot copy complete at every moment.

Model: `Rustic/Model/HotCold.lean`.  `tree : Name → Bool` says which pack ids are tree packs (callers pass
`cacheable = tree id`), `content : Key → Bytes` is content addressing (a file id determines its bytes; key files
have unique random ids).  All statements: every initial state satisfying the invariant, every history, every
prefix of every call's sub-operations (failed or interrupted writes / removes), no bounds.

* (1) `hot_superset` — `Inv` (hot ⊇ cold on key/snapshot/index/tree packs with identical bytes ∧ no data pack in hot)
      after every prefix history;  `no_data_pack_in_hot` is its second component.
* (2) `read_full_equiv_partial`, `read_partial_equiv` — reads equal the single-store answers on mirrored files /
      for every ranged read;  `read_full_data_pack_fails`: **in every reachable state `read_full` of a data pack
      fails** although the cold store has it (DESIGN §7 #15, known finding: `check --read-data`).
* (3) `repair_hotcold_restores` — from ANY hot store (files missing, or incomplete = of another size) the repair makes
      hot ⊇ cold again and never changes a cold file (`repair_keeps_cold`) — for the repaired code.
* (4) `warmup_before_read` — the warm-up clause (`Model/WarmUp.lean`): for restore, prune repacking, repair index,
      check --read-data and repair hotcold, for both store layouts and EVERY order of the (threaded) reads, every read that
      reaches the cold store is preceded, in the same command, by a warm-up request for that pack.  The restore case rests
      on C14's `to_packs_covers_reads` (every plan).  The cold-strict store of the harness checks the real commands.
-/
import Rustic.Model.HotCold
import Rustic.Model.WarmUp
import Rustic.Lemmas.RestoreWalk
namespace Rustic.Props.C16
open Rustic.HotCold
open Rustic.Backends (FileType Key SpecMap Bytes Name Res)

section
variable (tree : Name → Bool) (content : Key → Bytes)

def Mirrored (k : Key) : Bool :=
  match k.1 with
  | .key => true | .snapshot => true | .index => true
  | .pack => tree k.2
  | .config => false

def HotSup (s : HC) : Prop := ∀ k d, Mirrored tree k = true → s.cold k = some d → s.hot k = some d
def NoDataHot (s : HC) : Prop := ∀ id, tree id = false → s.hot (.pack, id) = none
def ContentOK (s : HC) : Prop := ∀ k d, k.1 ≠ .config → (s.hot k = some d ∨ s.cold k = some d) → d = content k
def Inv (s : HC) : Prop := HotSup tree s ∧ NoDataHot tree s ∧ ContentOK content s

def OpWF : Op → Prop
  | .write t id cb d => (t = .pack → cb = tree id) ∧ (t ≠ .config → d = content (t, id))
  | .remove t id cb => (t = .pack → cb = tree id)

variable {tree content}

theorem mirrored_not_config {k : Key} (h : Mirrored tree k = true) : k.1 ≠ .config := by
  obtain ⟨t, id⟩ := k; cases t <;> simp [Mirrored] at h ⊢

theorem writesHot_eq {t : FileType} {id : Name} {cb : Bool} (h : t = .pack → cb = tree id) :
    writesHot t cb = Mirrored tree (t, id) := by
  cases t <;> simp [writesHot, Mirrored] at h ⊢
  exact h

theorem usesHot_of_mirrored {t : FileType} {id : Name} {cb : Bool} (h : t = .pack → cb = tree id)
    (hm : Mirrored tree (t, id) = true) : usesHot t cb = true := by
  cases t <;> simp [usesHot, Mirrored] at h hm ⊢
  rw [h]; exact hm

theorem usesHot_pack_false {id : Name} {cb : Bool} (h : cb = tree id) (hm : tree id = false) :
    usesHot .pack cb = false := by
  simp [usesHot, h, hm]

/-! #### single sub-operation patterns -/

theorem inv_hotW {s : HC} (hi : Inv tree content s) {k : Key} (hm : Mirrored tree k = true) :
    Inv tree content { s with hot := s.hot.write k (content k) } := by
  obtain ⟨h1, h2, h3⟩ := hi
  refine ⟨?_, ?_, ?_⟩
  · intro k' d hm' hc
    simp only [SpecMap.write] at hc ⊢
    by_cases e : k' = k
    · subst e; simp; exact (h3 k' d (mirrored_not_config hm) (Or.inr hc)).symm
    · simp [e]; exact h1 k' d hm' hc
  · intro id hid
    simp only [SpecMap.write]
    by_cases e : (FileType.pack, id) = k
    · subst e; simp [Mirrored, hid] at hm
    · simp [e]; exact h2 id hid
  · intro k' d hc hd
    simp only [SpecMap.write] at hd
    by_cases e : k' = k
    · subst e; simp at hd
      rcases hd with hd | hd
      · exact hd.symm
      · exact h3 k' d hc (Or.inr hd)
    · simp [e] at hd; exact h3 k' d hc hd

theorem inv_coldW {s : HC} (hi : Inv tree content s) {k : Key} {d : Bytes} (hd : k.1 ≠ .config → d = content k)
    (hh : Mirrored tree k = true → s.hot k = some d) :
    Inv tree content { s with cold := s.cold.write k d } := by
  obtain ⟨h1, h2, h3⟩ := hi
  refine ⟨?_, h2, ?_⟩
  · intro k' d' hm' hc
    simp only [SpecMap.write] at hc
    by_cases e : k' = k
    · subst e; simp at hc; subst hc; exact hh hm'
    · simp [e] at hc; exact h1 k' d' hm' hc
  · intro k' d' hc hd'
    simp only [SpecMap.write] at hd'
    by_cases e : k' = k
    · subst e; simp at hd'
      rcases hd' with hd' | hd'
      · exact h3 k' d' hc (Or.inl hd')
      · rw [← hd']; exact hd hc
    · simp [e] at hd'; exact h3 k' d' hc hd'

theorem inv_coldR {s : HC} (hi : Inv tree content s) (k : Key) :
    Inv tree content { s with cold := s.cold.remove k } := by
  obtain ⟨h1, h2, h3⟩ := hi
  refine ⟨?_, h2, ?_⟩
  · intro k' d hm hc
    simp only [SpecMap.remove] at hc
    by_cases e : k' = k
    · simp [e] at hc
    · simp [e] at hc; exact h1 k' d hm hc
  · intro k' d hc hd
    simp only [SpecMap.remove] at hd
    by_cases e : k' = k
    · simp [e] at hd; exact h3 k' d hc (Or.inl (e ▸ hd))
    · simp [e] at hd; exact h3 k' d hc hd

theorem inv_hotR {s : HC} (hi : Inv tree content s) {k : Key} (hc : s.cold k = none) :
    Inv tree content { s with hot := s.hot.remove k } := by
  obtain ⟨h1, h2, h3⟩ := hi
  refine ⟨?_, ?_, ?_⟩
  · intro k' d hm hcold
    simp only [SpecMap.remove]
    by_cases e : k' = k
    · subst e; simp only at hcold; rw [hc] at hcold; cases hcold
    · simp [e]; exact h1 k' d hm hcold
  · intro id hid
    simp only [SpecMap.remove]
    by_cases e : (FileType.pack, id) = k
    · simp [e]
    · simp [e]; exact h2 id hid
  · intro k' d hcfg hd
    simp only [SpecMap.remove] at hd
    by_cases e : k' = k
    · simp [e] at hd; exact h3 k' d hcfg (Or.inr (e ▸ hd))
    · simp [e] at hd; exact h3 k' d hcfg hd

/-- One call, stopped after any number of its sub-operations, keeps the invariant. -/
theorem prefix_preserves {s : HC} (hi : Inv tree content s) {op : Op} (hop : OpWF tree content op) (n : Nat) :
    Inv tree content (applySubs s ((subs op).take n)) := by
  cases op with
  | write t id cb d =>
    obtain ⟨hcb, hd⟩ := hop
    have hw := writesHot_eq (id := id) hcb
    by_cases hm : Mirrored tree (t, id) = true
    · have hd' : d = content (t, id) := hd (mirrored_not_config hm)
      subst hd'
      have e1 := inv_hotW hi hm
      have e2 : Inv tree content
          { hot := s.hot.write (t, id) (content (t, id)), cold := s.cold.write (t, id) (content (t, id)) } :=
        inv_coldW (s := { s with hot := s.hot.write (t, id) (content (t, id)) }) e1 (fun _ => rfl)
          (fun _ => by simp [SpecMap.write])
      match n with
      | 0 => simpa [subs, hw, hm, applySubs] using hi
      | 1 => simpa [subs, hw, hm, applySubs, applySub] using e1
      | n + 2 => simpa [subs, hw, hm, applySubs, applySub] using e2
    · have hm' : Mirrored tree (t, id) = false := by simpa using hm
      have e1 : Inv tree content { s with cold := s.cold.write (t, id) d } :=
        inv_coldW hi hd (fun h => by rw [hm'] at h; cases h)
      match n with
      | 0 => simpa [subs, hw, hm', applySubs] using hi
      | n + 1 => simpa [subs, hw, hm', applySubs, applySub] using e1
  | remove t id cb =>
    have e1 := inv_coldR hi (t, id)
    have e2 : Inv tree content { hot := s.hot.remove (t, id), cold := s.cold.remove (t, id) } :=
      inv_hotR (s := { s with cold := s.cold.remove (t, id) }) e1 (by simp [SpecMap.remove])
    by_cases hu : usesHot t cb = true
    · match n with
      | 0 => simpa [subs, hu, applySubs] using hi
      | 1 => simpa [subs, hu, applySubs, applySub] using e1
      | n + 2 => simpa [subs, hu, applySubs, applySub] using e2
    · have hu' : usesHot t cb = false := by simpa using hu
      match n with
      | 0 => simpa [subs, hu', applySubs] using hi
      | n + 1 => simpa [subs, hu', applySubs, applySub] using e1

/-- **(1) hot_superset** — at every crash point / after every failed sub-operation of every history. -/
theorem hot_superset {s : HC} (hi : Inv tree content s) (l : List (Op × Nat)) (hl : ∀ e ∈ l, OpWF tree content e.1) :
    Inv tree content (runPrefixes s l) := by
  induction l generalizing s with
  | nil => exact hi
  | cons e rest ih =>
    obtain ⟨op, n⟩ := e
    simp only [runPrefixes]
    exact ih (prefix_preserves hi (hl (op, n) List.mem_cons_self) n) (fun x hx => hl x (List.mem_cons_of_mem _ hx))

theorem empty_inv : Inv tree content { hot := fun _ => none, cold := fun _ => none } := by
  refine ⟨?_, ?_, ?_⟩
  · intro k d _ h; simp at h
  · intro id _; rfl
  · intro k d _ h; simp at h

/-- data packs are never placed in the hot store -/
theorem no_data_pack_in_hot (l : List (Op × Nat)) (hl : ∀ e ∈ l, OpWF tree content e.1) {id : Name}
    (hid : tree id = false) :
    (runPrefixes { hot := fun _ => none, cold := fun _ => none } l).hot (.pack, id) = none :=
  (hot_superset (empty_inv (tree := tree) (content := content)) l hl).2.1 id hid

/-! #### (2) reads -/

theorem read_full_equiv_partial {s : HC} (hi : Inv tree content s) {t : FileType} {id : Name}
    (hm : Mirrored tree (t, id) = true) {d : Bytes} (hc : s.cold (t, id) = some d) :
    readFull s t id = singleReadFull s t id := by
  simp [readFull, singleReadFull, hc, hi.1 (t, id) d hm hc]

/-- Every ranged read (tree pack → hot, data pack → cold, other files → hot) equals the single-store read. -/
theorem read_partial_equiv {s : HC} (hi : Inv tree content s) {t : FileType} {id : Name} {cb : Bool}
    (hcb : t = .pack → cb = tree id) (ht : t ≠ .config) {d : Bytes} (hc : s.cold (t, id) = some d) (off len : Nat) :
    readPartial s t id cb off len = singleReadPartial s t id off len := by
  unfold readPartial singleReadPartial
  by_cases hm : Mirrored tree (t, id) = true
  · rw [usesHot_of_mirrored hcb hm]; simp [hc, hi.1 (t, id) d hm hc]
  · have : t = .pack := by cases t <;> simp [Mirrored] at hm ht ⊢
    subst this
    have hm' : tree id = false := by simpa [Mirrored] using hm
    rw [usesHot_pack_false (hcb rfl) hm']; simp

/-- **DESIGN §7 #15**: whole-file reads of data packs always fail on a hot/cold repository, whatever the cold store
holds — `check --read-data` reads every pack this way. The full read-equivalence statement is therefore false. -/
theorem read_full_data_pack_fails {s : HC} (hi : Inv tree content s) {id : Name} (hid : tree id = false) :
    readFull s .pack id = .err := by
  simp [readFull, hi.2.1 id hid, resOf]

end

/-! #### (3) repair -/

theorem repairKey_other (s : HC) {k k' : Key} (h : k' ≠ k) :
    (repairKey s k).hot k' = s.hot k' ∧ (repairKey s k).cold k' = s.cold k' := by
  unfold repairKey
  cases hc : s.cold k <;> cases hh : s.hot k <;> simp [SpecMap.write, h]
  split <;> simp [SpecMap.write, h]

/-- The repair never changes or removes a file of the cold store. -/
theorem repairKey_keeps_cold (s : HC) (k k' : Key) {c : Bytes} (h : s.cold k' = some c) :
    (repairKey s k).cold k' = some c := by
  by_cases e : k' = k
  · subst e
    unfold repairKey
    rw [h]
    cases hh : s.hot k' <;> simp [h]
    split <;> simp [h]
  · rw [(repairKey_other s e).2]; exact h

theorem repair_keeps_cold (s : HC) (keys : List Key) (k' : Key) {c : Bytes} (h : s.cold k' = some c) :
    (repair s keys).cold k' = some c := by
  induction keys generalizing s with
  | nil => exact h
  | cons k rest ih => exact ih (repairKey s k) (repairKey_keeps_cold s k k' h)

/-- hot files are missing or of another size, never same-size corruptions -/
def HonestSizes (s : HC) : Prop :=
  ∀ k h c, s.hot k = some h → s.cold k = some c → h.length = c.length → h = c

theorem repairKey_fixes {s : HC} (hs : HonestSizes s) {k : Key} {c : Bytes} (hc : s.cold k = some c) :
    (repairKey s k).hot k = some c := by
  unfold repairKey
  rw [hc]
  cases hh : s.hot k with
  | none => simp [SpecMap.write]
  | some h =>
    simp only
    split
    · rename_i hl; rw [hh, hs k h c hh hc hl]
    · simp [SpecMap.write]

theorem repairKey_keeps_fixed (s : HC) (k k' : Key) {c : Bytes} (hh : s.hot k' = some c) (hc : s.cold k' = some c) :
    (repairKey s k).hot k' = some c := by
  by_cases e : k' = k
  · subst e; unfold repairKey; simp [hh, hc]
  · rw [(repairKey_other s e).1]; exact hh

theorem honest_repairKey {s : HC} (hs : HonestSizes s) (k : Key) : HonestSizes (repairKey s k) := by
  intro k' h c h1 h2 h3
  by_cases e : k' = k
  · subst e
    cases hcold : s.cold k' with
    | none =>
      cases hhot : s.hot k' with
      | none => simp [repairKey, hcold, hhot] at h1
      | some hb => simp [repairKey, hcold, hhot, SpecMap.write] at h1 h2; rw [← h1, ← h2]
    | some cb =>
      have h2' := repairKey_keeps_cold s k' k' hcold
      rw [h2'] at h2; cases h2
      have := repairKey_fixes hs hcold
      rw [this] at h1; cases h1; rfl
  · rw [(repairKey_other s e).1] at h1
    rw [(repairKey_other s e).2] at h2
    exact hs k' h c h1 h2 h3

theorem repair_keeps_fixed (s : HC) (keys : List Key) (k' : Key) {c : Bytes} (hh : s.hot k' = some c)
    (hc : s.cold k' = some c) : (repair s keys).hot k' = some c := by
  induction keys generalizing s with
  | nil => exact hh
  | cons k rest ih => exact ih (repairKey s k) (repairKey_keeps_fixed s k k' hh hc) (repairKey_keeps_cold s k k' hc)

theorem repair_fixes {s : HC} (hs : HonestSizes s) (keys : List Key) {k : Key} (hk : k ∈ keys) {c : Bytes}
    (hc : s.cold k = some c) : (repair s keys).hot k = some c := by
  induction keys generalizing s with
  | nil => cases hk
  | cons x rest ih =>
    show (repair (repairKey s x) rest).hot k = some c
    have hc' := repairKey_keeps_cold s x k hc
    by_cases e : k = x
    · subst e; exact repair_keeps_fixed _ rest k (repairKey_fixes hs hc) hc'
    · rcases List.mem_cons.1 hk with h | h
      · exact absurd h e
      · exact ih (honest_repairKey hs x) h hc'

/-- **(3) repair_hotcold_restores** — whatever is missing from or incomplete in the hot store: after the repair every
cold file among the repaired ids is in the hot store with identical bytes, and the cold store still holds every file
it held, unchanged (`repair_keeps_cold`). -/
theorem repair_hotcold_restores {s : HC} (hs : HonestSizes s) (keys : List Key) :
    (∀ k ∈ keys, ∀ c, s.cold k = some c → (repair s keys).hot k = some c ∧ (repair s keys).cold k = some c) :=
  fun _ hk _ hc => ⟨repair_fixes hs keys hk hc, repair_keeps_cold s keys _ hc⟩

/-- hot-only files (a write interrupted between the two stores) are completed into the cold store -/
theorem repairKey_hot_only (s : HC) {k : Key} {h : Bytes} (hc : s.cold k = none) (hh : s.hot k = some h) :
    (repairKey s k).cold k = some h := by
  simp [repairKey, hc, hh, SpecMap.write]

/-! #### non-vacuity / witnesses -/

def tIdA : Name := List.replicate 64 '1'
def dIdB : Name := List.replicate 64 'f'
def treeW : Name → Bool := fun id => id.head? == some '1'

/-- interrupted write of a snapshot (hot done, cold not) and interrupted remove (cold done, hot not): hot ⊇ cold -/
example :
    let s := runPrefixes { hot := fun _ => none, cold := fun _ => none }
      [(.write .snapshot tIdA false [1, 2], 1), (.write .index dIdB false [3], 2), (.remove .index dIdB false, 1)]
    s.hot (.snapshot, tIdA) = some [1, 2] ∧ s.cold (.snapshot, tIdA) = none ∧
    s.hot (.index, dIdB) = some [3] ∧ s.cold (.index, dIdB) = none := by decide
/-- #15 witness: a data pack is in cold only; `read_full` fails, the single store answers, `read_partial` agrees -/
example :
    let s := runPrefixes { hot := fun _ => none, cold := fun _ => none } [(.write .pack dIdB (treeW dIdB) [7, 8], 2)]
    readFull s .pack dIdB = .err ∧ singleReadFull s .pack dIdB = .ok [7, 8] ∧
    readPartial s .pack dIdB false 1 1 = .ok [8] := by decide
/-- repaired `repair`: an incomplete hot snapshot is replaced from cold, cold untouched (the unrepaired code copied
the 1-byte hot file over the cold one) -/
example :
    let s : HC := { hot := fun k => if k = (.snapshot, tIdA) then some [1] else none,
                    cold := fun k => if k = (.snapshot, tIdA) then some [1, 2, 3] else none }
    (repairKey s (.snapshot, tIdA)).hot (.snapshot, tIdA) = some [1, 2, 3] ∧
    (repairKey s (.snapshot, tIdA)).cold (.snapshot, tIdA) = some [1, 2, 3] := by decide


/-! ### (4) warm-up before cold reads -/

section warmup
open Rustic.WarmUp

/-- every read served by the cold store is preceded by a warm-up request for the same pack -/
def WarmBeforeRead (tr : List Ev) : Prop :=
  ∀ pre p post, tr = pre ++ Ev.coldRead p :: post → Ev.warm p ∈ pre

theorem route_cold_pack {l : Layout} {c : Call} {p : Nat} (h : route l c = Ev.coldRead p) : c.pack = p := by
  cases c with
  | full q => cases l <;> simp [route] at h; simpa [Call.pack] using h
  | partialRead q cb =>
    cases l
    · simp only [route] at h
      split at h
      · cases h
      · injection h
    · simp only [route] at h; injection h
  | coldDirect q => simp only [route] at h; injection h

theorem coldRead_not_warm (ws : List Nat) (p : Nat) : Ev.coldRead p ∉ warmUpWait ws := by
  simp [warmUpWait]

/-- one `warm_up_wait` whose argument covers the packs of all reads that follow ⇒ the property, whatever the reads' order -/
theorem warm_then_reads (l : Layout) (ws : List Nat) (rs : List Call) (h : ∀ c ∈ rs, c.pack ∈ ws) :
    WarmBeforeRead (trace l ws rs) := by
  intro pre p post heq
  unfold trace at heq
  have good : ∀ (x : List Ev), pre = warmUpWait ws ++ x → Ev.coldRead p ∈ rs.map (route l) → Ev.warm p ∈ pre := by
    intro x h1 hmem
    obtain ⟨c, hc, hr⟩ := List.mem_map.1 hmem
    have hp := route_cold_pack hr
    rw [h1]
    refine List.mem_append_left _ ?_
    simp only [warmUpWait, List.mem_map]
    exact ⟨p, by rw [← hp]; exact h c hc, rfl⟩
  rcases List.append_eq_append_iff.1 heq with ⟨a', h1, h2⟩ | ⟨c', h1, h2⟩
  · exact good a' h1 (by rw [h2]; simp)
  · cases c' with
    | nil =>
      simp only [List.append_nil] at h1
      simp only [List.nil_append] at h2
      exact good [] (by simp [h1]) (by rw [← h2]; simp)
    | cons e c'' =>
      -- the read would lie inside the warm-up requests: impossible
      simp only [List.cons_append] at h2
      injection h2 with h3 _
      have : Ev.coldRead p ∈ warmUpWait ws := by rw [h1, ← h3]; simp
      exact absurd this (coldRead_not_warm ws p)

theorem restore_reads_covered (hole limit : Nat) (r : Rustic.RestoreWalk.RInfo) :
    ∀ c ∈ (restoreCmd hole limit r).reads, c.pack ∈ (restoreCmd hole limit r).warm := by
  intro c hc
  simp only [restoreCmd, List.mem_map] at hc
  obtain ⟨p, hp, rfl⟩ := hc
  exact Rustic.RestoreWalk.packReads_subset_toPacks hole limit r p hp

theorem prune_reads_covered (idx : List (List PPack)) : ∀ c ∈ (pruneCmd idx).reads, c.pack ∈ (pruneCmd idx).warm := by
  intro c hc
  simp only [pruneCmd, List.mem_flatMap, List.mem_replicate] at hc
  obtain ⟨pk, hpk, _, rfl⟩ := hc
  simp only [pruneCmd, List.mem_map]
  exact ⟨pk, hpk, rfl⟩

theorem repairIndex_reads_covered (t : List (Nat × Nat)) :
    ∀ c ∈ (repairIndexCmd t).reads, c.pack ∈ (repairIndexCmd t).warm := by
  intro c hc
  simp only [repairIndexCmd, List.mem_flatMap, List.mem_replicate] at hc
  obtain ⟨x, hx, _, rfl⟩ := hc
  simp only [repairIndexCmd, List.mem_map]
  exact ⟨x, hx, rfl⟩

theorem reads_covered (c : Command) : ∀ x ∈ (cmdOf c).reads, x.pack ∈ (cmdOf c).warm := by
  cases c with
  | restore hole limit r => exact restore_reads_covered hole limit r
  | prune idx => exact prune_reads_covered idx
  | repairIndex t => exact repairIndex_reads_covered t
  | checkReadData ps =>
    intro x hx
    simp only [cmdOf, checkReadDataCmd, List.mem_map] at hx ⊢
    obtain ⟨p, hp, rfl⟩ := hx
    exact hp
  | repairHotcold m =>
    intro x hx
    simp only [cmdOf, repairHotcoldCmd, List.mem_map] at hx ⊢
    obtain ⟨p, hp, rfl⟩ := hx
    exact hp

/-- **warmup_before_read.**  For restore (every `RestorePlan`), prune repacking (every plan), repair index, check
--read-data and repair hotcold, on a hot/cold pair and on a single cold store, and for every order in which the reader
threads issue the reads: each read that reaches the cold store is preceded by a warm-up request for that pack. -/
theorem warmup_before_read (l : Layout) (c : Command) (rs : List Call) (hp : rs.Perm (cmdOf c).reads) :
    WarmBeforeRead (trace l (cmdOf c).warm rs) :=
  warm_then_reads l _ rs (fun x hx => reads_covered c x (hp.mem_iff.1 hx))

/-- a history of commands: still every cold read has an earlier warm-up request -/
theorem wbr_append {a b : List Ev} (ha : WarmBeforeRead a) (hb : WarmBeforeRead b) : WarmBeforeRead (a ++ b) := by
  intro pre p post heq
  rcases List.append_eq_append_iff.1 heq with ⟨a', h1, h2⟩ | ⟨c', h1, h2⟩
  · rw [h1]
    exact List.mem_append_right _ (hb a' p post h2)
  · cases c' with
    | nil =>
      simp only [List.nil_append] at h2
      have := hb [] p post (by simp [h2])
      cases this
    | cons e c'' =>
      simp only [List.cons_append] at h2
      injection h2 with h3 h4
      subst h3
      exact ha pre p c'' h1

theorem warmup_before_read_history (l : Layout) (cs : List Command) :
    WarmBeforeRead (cs.flatMap (fun c => trace l (cmdOf c).warm (cmdOf c).reads)) := by
  induction cs with
  | nil => intro pre p post h; cases pre <;> cases h
  | cons c cs ih =>
    simp only [List.flatMap_cons]
    exact wbr_append (warmup_before_read l c _ (List.Perm.refl _)) ih

/-- the predicate is not vacuous: a cold read before its warm-up request violates it … -/
example : ¬ WarmBeforeRead [Ev.coldRead 1, Ev.warm 1] := by
  intro h
  have := h [] 1 [Ev.warm 1] rfl
  cases this

/-- … and a concrete prune: tree pack 3 is read from hot, data pack 5 from cold after its request; pack 8 is kept -/
example : trace .hotcold (pruneCmd [[⟨3, true, true, 1⟩, ⟨5, false, true, 2⟩], [⟨8, false, false, 4⟩]]).warm
      (pruneCmd [[⟨3, true, true, 1⟩, ⟨5, false, true, 2⟩], [⟨8, false, false, 4⟩]]).reads =
    [.warm 3, .warm 5, .hotRead 3, .coldRead 5, .coldRead 5] := by decide

end warmup

end Rustic.Props.C16
