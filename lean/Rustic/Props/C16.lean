/-
C16 — Hot/cold repositories keep the hot copy complete at every moment.

Model: `Rustic/Model/HotCold.lean`.  `tree : Name → Bool` says which pack ids are tree packs (callers pass
`cacheable = tree id`), `content : Key → Bytes` is content addressing (a file id determines its bytes; key files
have unique random ids).  All statements: every initial state satisfying the invariant, every history, every
prefix of every call's sub-operations (failed or interrupted writes / removes), no bounds.

* (1) `hot_superset` — `Inv` (hot ⊇ cold on key/snapshot/index/tree packs with identical bytes ∧ no data pack in hot)
      after every prefix history;  `no_data_pack_in_hot` is its second component.
* (2) `read_full_equiv_partial`, `read_partial_equiv` — reads equal the single-store answers on mirrored files /
      for every ranged read;  `read_full_data_pack_fails`: **in every reachable state `read_full` of a data pack
      fails** although the cold store has it (DESIGN §7 #15, known finding: `check --read-data`).
* (3) `repair_hotcold_restores` — from ANY hot store (files missing, or incomplete = of another size) the repair makes
      hot ⊇ cold again and never changes a cold file (`repair_keeps_cold`) — for the repaired code.
* (4) `warmup_before_read` — the warm-up clause (`Model/WarmUp.lean`): for restore, prune repacking, repair index,
      check --read-data and repair hotcold, for both store layouts and EVERY order of the (threaded) reads, every read that
      reaches the cold store is preceded, in the same command, by a warm-up request for that pack.  The restore case rests
      on C14's `to_packs_covers_reads` (every plan).  The cold-strict store of the harness checks the real commands.
-/
import Rustic.Model.HotCold
import Rustic.Model.WarmUp
import Rustic.Lemmas.RestoreWalk
namespace Rustic.Props.C16
open Rustic.HotCold
open Rustic.Backends (FileType Key SpecMap Bytes Name Res)

section
variable (tree : Name → Bool) (content : Key → Bytes)

def Mirrored (k : Key) : Bool :=
  match k.1 with
  | .key => true | .snapshot => true | .index => true
  | .pack => tree k.2
  | .config => false

def HotSup (s : HC) : Prop := ∀ k d, Mirrored tree k = true → s.cold k = some d → s.hot k = some d
def NoDataHot (s : HC) : Prop := ∀ id, tree id = false → s.hot (.pack, id) = none
def ContentOK (s : HC) : Prop := ∀ k d, k.1 ≠ .config → (s.hot k = some d ∨ s.cold k = some d) → d = content k
def Inv (s : HC) : Prop := HotSup tree s ∧ NoDataHot tree s ∧ ContentOK content s

def OpWF : Op → Prop
  | .write t id cb d => (t = .pack → cb = tree id) ∧ (t ≠ .config → d = content (t, id))
  | .remove t id cb => (t = .pack → cb = tree id)

variable {tree content}

theorem mirrored_not_config {k : Key} (h : Mirrored tree k = true) : k.1 ≠ .config := by
  obtain ⟨t, id⟩ := k; cases t <;> simp [Mirrored] at h ⊢

theorem writesHot_eq {t : FileType} {id : Name} {cb : Bool} (h : t = .pack → cb = tree id) :
    writesHot t cb = Mirrored tree (t, id) := by
  cases t <;> simp [writesHot, Mirrored] at h ⊢
  exact h

theorem usesHot_of_mirrored {t : FileType} {id : Name} {cb : Bool} (h : t = .pack → cb = tree id)
    (hm : Mirrored tree (t, id) = true) : usesHot t cb = true := by
  cases t <;> simp [usesHot, Mirrored] at h hm ⊢
  rw [h]; exact hm

theorem usesHot_pack_false {id : Name} {cb : Bool} (h : cb = tree id) (hm : tree id = false) :
    usesHot .pack cb = false := by
  simp [usesHot, h, hm]

/-! #### single sub-operation patterns -/

theorem inv_hotW {s : HC} (hi : Inv tree content s) {k : Key} (hm : Mirrored tree k = true) :
    Inv tree content { s with hot := s.hot.write k (content k) } := by
  obtain ⟨h1, h2, h3⟩ := hi
  refine ⟨?_, ?_, ?_⟩
  · intro k' d hm' hc
    simp only [SpecMap.write] at hc ⊢
    by_cases e : k' = k
    · subst e; simp; exact (h3 k' d (mirrored_not_config hm) (Or.inr hc)).symm
    · simp [e]; exact h1 k' d hm' hc
  · intro id hid
    simp only [SpecMap.write]
    by_cases e : (FileType.pack, id) = k
    · subst e; simp [Mirrored, hid] at hm
    · simp [e]; exact h2 id hid
  · intro k' d hc hd
    simp only [SpecMap.write] at hd
    by_cases e : k' = k
    · subst e; simp at hd
      rcases hd with hd | hd
      · exact hd.symm
      · exact h3 k' d hc (Or.inr hd)
    · simp [e] at hd; exact h3 k' d hc hd

theorem inv_coldW {s : HC} (hi : Inv tree content s) {k : Key} {d : Bytes} (hd : k.1 ≠ .config → d = content k)
    (hh : Mirrored tree k = true → s.hot k = some d) :
    Inv tree content { s with cold := s.cold.write k d } := by
  obtain ⟨h1, h2, h3⟩ := hi
  refine ⟨?_, h2, ?_⟩
  · intro k' d' hm' hc
    simp only [SpecMap.write] at hc
    by_cases e : k' = k
    · subst e; simp at hc; subst hc; exact hh hm'
    · simp [e] at hc; exact h1 k' d' hm' hc
  · intro k' d' hc hd'
    simp only [SpecMap.write] at hd'
    by_cases e : k' = k
    · subst e; simp at hd'
      rcases hd' with hd' | hd'
      · exact h3 k' d' hc (Or.inl hd')
      · rw [← hd']; exact hd hc
    · simp [e] at hd'; exact h3 k' d' hc hd'

theorem inv_coldR {s : HC} (hi : Inv tree content s) (k : Key) :
    Inv tree content { s with cold := s.cold.remove k } := by
  obtain ⟨h1, h2, h3⟩ := hi
  refine ⟨?_, h2, ?_⟩
  · intro k' d hm hc
    simp only [SpecMap.remove] at hc
    by_cases e : k' = k
    · simp [e] at hc
    · simp [e] at hc; exact h1 k' d hm hc
  · intro k' d hc hd
    simp only [SpecMap.remove] at hd
    by_cases e : k' = k
    · simp [e] at hd; exact h3 k' d hc (Or.inl (e ▸ hd))
    · simp [e] at hd; exact h3 k' d hc hd

theorem inv_hotR {s : HC} (hi : Inv tree content s) {k : Key} (hc : s.cold k = none) :
    Inv tree content { s with hot := s.hot.remove k } := by
  obtain ⟨h1, h2, h3⟩ := hi
  refine ⟨?_, ?_, ?_⟩
  · intro k' d hm hcold
    simp only [SpecMap.remove]
    by_cases e : k' = k
    · subst e; simp only at hcold; rw [hc] at hcold; cases hcold
    · simp [e]; exact h1 k' d hm hcold
  · intro id hid
    simp only [SpecMap.remove]
    by_cases e : (FileType.pack, id) = k
    · simp [e]
    · simp [e]; exact h2 id hid
  · intro k' d hcfg hd
    simp only [SpecMap.remove] at hd
    by_cases e : k' = k
    · simp [e] at hd; exact h3 k' d hcfg (Or.inr (e ▸ hd))
    · simp [e] at hd; exact h3 k' d hcfg hd

/-- One call, stopped after any number of its sub-operations, keeps the invariant. -/
theorem prefix_preserves {s : HC} (hi : Inv tree content s) {op : Op} (hop : OpWF tree content op) (n : Nat) :
    Inv tree content (applySubs s ((subs op).take n)) := by
  cases op with
  | write t id cb d =>
    obtain ⟨hcb, hd⟩ := hop
    have hw := writesHot_eq (id := id) hcb
    by_cases hm : Mirrored tree (t, id) = true
    · have hd' : d = content (t, id) := hd (mirrored_not_config hm)
      subst hd'
      have e1 := inv_hotW hi hm
      have e2 : Inv tree content
          { hot := s.hot.write (t, id) (content (t, id)), cold := s.cold.write (t, id) (content (t, id)) } :=
        inv_coldW (s := { s with hot := s.hot.write (t, id) (content (t, id)) }) e1 (fun _ => rfl)
          (fun _ => by simp [SpecMap.write])
      match n with
      | 0 => simpa [subs, hw, hm, applySubs] using hi
      | 1 => simpa [subs, hw, hm, applySubs, applySub] using e1
      | n + 2 => simpa [subs, hw, hm, applySubs, applySub] using e2
    · have hm' : Mirrored tree (t, id) = false := by simpa using hm
      have e1 : Inv tree content { s with cold := s.cold.write (t, id) d } :=
        inv_coldW hi hd (fun h => by rw [hm'] at h; cases h)
      match n with
      | 0 => simpa [subs, hw, hm', applySubs] using hi
      | n + 1 => simpa [subs, hw, hm', applySubs, applySub] using e1
  | remove t id cb =>
    have e1 := inv_coldR hi (t, id)
    have e2 : Inv tree content { hot := s.hot.remove (t, id), cold := s.cold.remove (t, id) } :=
      inv_hotR (s := { s with cold := s.cold.remove (t, id) }) e1 (by simp [SpecMap.remove])
    by_cases hu : usesHot t cb = true
    · match n with
      | 0 => simpa [subs, hu, applySubs] using hi
      | 1 => simpa [subs, hu, applySubs, applySub] using e1
      | n + 2 => simpa [subs, hu, applySubs, applySub] using e2
    · have hu' : usesHot t cb = false := by simpa using hu
      match n with
      | 0 => simpa [subs, hu', applySubs] using hi
      | n + 1 => simpa [subs, hu', applySubs, applySub] using e1

/-- **(1) hot_superset** — at every crash point / after every failed sub-operation of every history. -/
theorem hot_superset {s : HC} (hi : Inv tree content s) (l : List (Op × Nat)) (hl : ∀ e ∈ l, OpWF tree content e.1) :
    Inv tree content (runPrefixes s l) := by
  induction l generalizing s with
  | nil => exact hi
  | cons e rest ih =>
    obtain ⟨op, n⟩ := e
    simp only [runPrefixes]
    exact ih (prefix_preserves hi (hl (op, n) List.mem_cons_self) n) (fun x hx => hl x (List.mem_cons_of_mem _ hx))

theorem empty_inv : Inv tree content { hot := fun _ => none, cold := fun _ => none } := by
  refine ⟨?_, ?_, ?_⟩
  · intro k d _ h; simp at h
  · intro id _; rfl
  · intro k d _ h; simp at h

/-- data packs are never placed in the hot store -/
theorem no_data_pack_in_hot (l : List (Op × Nat)) (hl : ∀ e ∈ l, OpWF tree content e.1) {id : Name}
    (hid : tree id = false) :
    (runPrefixes { hot := fun _ => none, cold := fun _ => none } l).hot (.pack, id) = none :=
  (hot_superset (empty_inv (tree := tree) (content := content)) l hl).2.1 id hid

/-! #### (2) reads -/

theorem read_full_equiv_partial {s : HC} (hi : Inv tree content s) {t : FileType} {id : Name}
    (hm : Mirrored tree (t, id) = true) {d : Bytes} (hc : s.cold (t, id) = some d) :
    readFull s t id = singleReadFull s t id := by
  simp [readFull, singleReadFull, hc, hi.1 (t, id) d hm hc]

/-- Every ranged read (tree pack → hot, data pack → cold, other files → hot) equals the single-store read. -/
theorem read_partial_equiv {s : HC} (hi : Inv tree content s) {t : FileType} {id : Name} {cb : Bool}
    (hcb : t = .pack → cb = tree id) (ht : t ≠ .config) {d : Bytes} (hc : s.cold (t, id) = some d) (off len : Nat) :
    readPartial s t id cb off len = singleReadPartial s t id off len := by
  unfold readPartial singleReadPartial
  by_cases hm : Mirrored tree (t, id) = true
  · rw [usesHot_of_mirrored hcb hm]; simp [hc, hi.1 (t, id) d hm hc]
  · have : t = .pack := by cases t <;> simp [Mirrored] at hm ht ⊢
    subst this
    have hm' : tree id = false := by simpa [Mirrored] using hm
    rw [usesHot_pack_false (hcb rfl) hm']; simp

/-- **DESIGN §7 #15**: whole-file reads of data packs always fail on a hot/cold repository, whatever the cold store
holds — `check --read-data` reads every pack this way. The full read-equivalence statement is therefore false. -/
theorem read_full_data_pack_fails {s : HC} (hi : Inv tree content s) {id : Name} (hid : tree id = false) :
    readFull s .pack id = .err := by
  simp [readFull, hi.2.1 id hid, resOf]

end

/-! #### (3) repair -/

theorem repairKey_other (s : HC) {k k' : Key} (h : k' ≠ k) :
    (repairKey s k).hot k' = s.hot k' ∧ (repairKey s k).cold k' = s.cold k' := by
  unfold repairKey
  cases hc : s.cold k <;> cases hh : s.hot k <;> simp [SpecMap.write, h]
  split <;> simp [SpecMap.write, h]

/-- The repair never changes or removes a file of the cold store. -/
theorem repairKey_keeps_cold (s : HC) (k k' : Key) {c : Bytes} (h : s.cold k' = some c) :
    (repairKey s k).cold k' = some c := by
  by_cases e : k' = k
  · subst e
    unfold repairKey
    rw [h]
    cases hh : s.hot k' <;> simp [h]
    split <;> simp [h]
  · rw [(repairKey_other s e).2]; exact h

theorem repair_keeps_cold (s : HC) (keys : List Key) (k' : Key) {c : Bytes} (h : s.cold k' = some c) :
    (repair s keys).cold k' = some c := by
  induction keys generalizing s with
  | nil => exact h
  | cons k rest ih => exact ih (repairKey s k) (repairKey_keeps_cold s k k' h)

/-- hot files are missing or of another size, never same-size corruptions -/
def HonestSizes (s : HC) : Prop :=
  ∀ k h c, s.hot k = some h → s.cold k = some c → h.length = c.length → h = c

theorem repairKey_fixes {s : HC} (hs : HonestSizes s) {k : Key} {c : Bytes} (hc : s.cold k = some c) :
    (repairKey s k).hot k = some c := by
  unfold repairKey
  rw [hc]
  cases hh : s.hot k with
  | none => simp [SpecMap.write]
  | some h =>
    simp only
    split
    · rename_i hl; rw [hh, hs k h c hh hc hl]
    · simp [SpecMap.write]

theorem repairKey_keeps_fixed (s : HC) (k k' : Key) {c : Bytes} (hh : s.hot k' = some c) (hc : s.cold k' = some c) :
    (repairKey s k).hot k' = some c := by
  by_cases e : k' = k
  · subst e; unfold repairKey; simp [hh, hc]
  · rw [(repairKey_other s e).1]; exact hh

theorem honest_repairKey {s : HC} (hs : HonestSizes s) (k : Key) : HonestSizes (repairKey s k) := by
  intro k' h c h1 h2 h3
  by_cases e : k' = k
  · subst e
    cases hcold : s.cold k' with
    | none =>
      cases hhot : s.hot k' with
      | none => simp [repairKey, hcold, hhot] at h1
      | some hb => simp [repairKey, hcold, hhot, SpecMap.write] at h1 h2; rw [← h1, ← h2]
    | some cb =>
      have h2' := repairKey_keeps_cold s k' k' hcold
      rw [h2'] at h2; cases h2
      have := repairKey_fixes hs hcold
      rw [this] at h1; cases h1; rfl
  · rw [(repairKey_other s e).1] at h1
    rw [(repairKey_other s e).2] at h2
    exact hs k' h c h1 h2 h3

theorem repair_keeps_fixed (s : HC) (keys : List Key) (k' : Key) {c : Bytes} (hh : s.hot k' = some c)
    (hc : s.cold k' = some c) : (repair s keys).hot k' = some c := by
  induction keys generalizing s with
  | nil => exact hh
  | cons k rest ih => exact ih (repairKey s k) (repairKey_keeps_fixed s k k' hh hc) (repairKey_keeps_cold s k k' hc)

theorem repair_fixes {s : HC} (hs : HonestSizes s) (keys : List Key) {k : Key} (hk : k ∈ keys) {c : Bytes}
    (hc : s.cold k = some c) : (repair s keys).hot k = some c := by
  induction keys generalizing s with
  | nil => cases hk
  | cons x rest ih =>
    show (repair (repairKey s x) rest).hot k = some c
    have hc' := repairKey_keeps_cold s x k hc
    by_cases e : k = x
    · subst e; exact repair_keeps_fixed _ rest k (repairKey_fixes hs hc) hc'
    · rcases List.mem_cons.1 hk with h | h
      · exact absurd h e
      · exact ih (honest_repairKey hs x) h hc'

/-- **(3) repair_hotcold_restores** — whatever is missing from or incomplete in the hot store: after the repair every
cold file among the repaired ids is in the hot store with identical bytes, and the cold store still holds every file
it held, unchanged (`repair_keeps_cold`). -/
theorem repair_hotcold_restores {s : HC} (hs : HonestSizes s) (keys : List Key) :
    (∀ k ∈ keys, ∀ c, s.cold k = some c → (repair s keys).hot k = some c ∧ (repair s keys).cold k = some c) :=
  fun _ hk _ hc => ⟨repair_fixes hs keys hk hc, repair_keeps_cold s keys _ hc⟩

/-- hot-only files (a write interrupted between the two stores) are completed into the cold store -/
theorem repairKey_hot_only (s : HC) {k : Key} {h : Bytes} (hc : s.cold k = none) (hh : s.hot k = some h) :
    (repairKey s k).cold k = some h := by
  simp [repairKey, hc, hh, SpecMap.write]

/-- a short pack name for the closed witnesses -/
def tIdA' : Name := ['1', 'a']

/-! #### (3b) which files the repair reaches: listings and the tree packs of the index (also those marked for deletion) -/

theorem repairKey_cold_cases (s : HC) (x k : Key) {d : Bytes} (h : (repairKey s x).cold k = some d) :
    s.cold k = some d ∨ (s.cold k = none ∧ s.hot k = some d) := by
  by_cases e : k = x
  · subst e
    cases hc : s.cold k with
    | some c => left; rw [repairKey_keeps_cold s k k hc] at h; exact h
    | none =>
      cases hh : s.hot k with
      | none => simp [repairKey, hc, hh] at h
      | some hb => right; simp [repairKey, hc, hh, SpecMap.write] at h; exact ⟨rfl, by rw [h]⟩
  · rw [(repairKey_other s e).2] at h; exact Or.inl h

theorem repairKey_cold_none {s : HC} {x k : Key} (h : (repairKey s x).cold k = none) : s.cold k = none := by
  cases hc : s.cold k with
  | none => rfl
  | some c => rw [repairKey_keeps_cold s x k hc] at h; cases h

theorem repairKey_hot_of_cold_none {s : HC} {x k : Key} (h : (repairKey s x).cold k = none) :
    (repairKey s x).hot k = s.hot k := by
  by_cases e : k = x
  · subst e
    have hc := repairKey_cold_none h
    cases hh : s.hot k with
    | none => simp [repairKey, hc, hh]
    | some hb => simp [repairKey, hc, hh, SpecMap.write] at h
  · exact (repairKey_other s e).1

/-- a file of the cold store after the repair was there before, or was a hot-only file (completed into the cold store) -/
theorem repair_cold_cases (s : HC) (keys : List Key) (k : Key) {d : Bytes} (h : (repair s keys).cold k = some d) :
    s.cold k = some d ∨ (s.cold k = none ∧ s.hot k = some d) := by
  induction keys generalizing s with
  | nil => exact Or.inl h
  | cons x rest ih =>
    rcases ih (repairKey s x) h with h1 | ⟨h1, h2⟩
    · exact repairKey_cold_cases s x k h1
    · exact Or.inr ⟨repairKey_cold_none h1, by rw [← repairKey_hot_of_cold_none h1]; exact h2⟩

/-- a hot-only file stays in the hot store, whatever is repaired -/
theorem repair_keeps_hot_only (s : HC) (keys : List Key) (k : Key) {d : Bytes} (hc : s.cold k = none)
    (hh : s.hot k = some d) : (repair s keys).hot k = some d := by
  induction keys generalizing s with
  | nil => exact hh
  | cons x rest ih =>
    show (repair (repairKey s x) rest).hot k = some d
    by_cases e : k = x
    · subst e
      have h1 : (repairKey s k).hot k = some d := by simp [repairKey, hc, hh]
      have h2 : (repairKey s k).cold k = some d := repairKey_hot_only s hc hh
      exact repair_keeps_fixed _ rest k h1 h2
    · exact ih (repairKey s x) (by rw [(repairKey_other s e).2]; exact hc) (by rw [(repairKey_other s e).1]; exact hh)

/-- **The repair re-establishes hot ⊇ cold whenever it reaches every mirrored file of the cold store**: `keys` = the ids the
repair works on.  (What "reaches" means for pack files is `treePacks`, below.) -/
theorem repair_hot_superset_of_covered {s : HC} (hs : HonestSizes s) (keys : List Key)
    (hk : ∀ k c, Mirrored tree k = true → s.cold k = some c → k ∈ keys) : HotSup tree (repair s keys) := by
  intro k d hm hc
  rcases repair_cold_cases s keys k hc with h | ⟨h1, h2⟩
  · exact repair_fixes hs keys (hk k d hm h) h
  · exact repair_keeps_hot_only s keys k h1 h2

theorem repair_append (s : HC) (a b : List Key) : repair (repair s a) b = repair s (a ++ b) := by
  simp [repair, List.foldl_append]

theorem mem_treePacks {idx : List IndexFileM} {id : Name} :
    id ∈ treePacks idx ↔ ∃ f ∈ idx, ∃ p, (p ∈ f.packs ∨ p ∈ f.packsToDelete) ∧ p.isTree = true ∧ p.id = id := by
  simp only [treePacks, IndexFileM.allPacks, List.mem_map, List.mem_filter, List.mem_flatMap, List.mem_append]
  constructor
  · rintro ⟨p, ⟨⟨f, hf, hp⟩, ht⟩, rfl⟩; exact ⟨f, hf, p, hp, ht, rfl⟩
  · rintro ⟨f, hf, p, hp, ht, rfl⟩; exact ⟨p, ⟨⟨f, hf, hp⟩, ht⟩, rfl⟩

theorem mem_packKeys {idx : List IndexFileM} {listed : List Name} {id : Name} :
    (FileType.pack, id) ∈ packKeys idx listed ↔ id ∈ listed ∧ id ∈ treePacks idx := by
  simp [packKeys, List.mem_map, List.mem_filter]

/-- **`repair hotcold` (all file types, then the packs) recreates the hot store from the cold one**: for every hot store
(files missing or incomplete), every history of index files — provided the listings are complete and every tree pack of
the cold store is listed by some index file under `packs` **or under `packs_to_delete`** (a pack a prune has only marked
is still in the cold store and must be in the hot store too) — afterwards hot ⊇ cold on keys, snapshots, index files and
tree packs, byte-identically, and the cold store holds what it held. -/
theorem repair_hotcold_repo_restores {s : HC} (hs : HonestSizes s) (keys : List Key) (idx : List IndexFileM)
    (listed : List Name)
    (hk : ∀ k c, k.1 ≠ .pack → Mirrored tree k = true → s.cold k = some c → k ∈ keys)
    (hl : ∀ id c, s.cold (.pack, id) = some c → id ∈ listed)
    (hidx : ∀ id c, tree id = true → s.cold (.pack, id) = some c →
      ∃ f ∈ idx, ∃ p, (p ∈ f.packs ∨ p ∈ f.packsToDelete) ∧ p.isTree = true ∧ p.id = id) :
    HotSup tree (repairRepo s keys idx listed) ∧
    ∀ k c, s.cold k = some c → (repairRepo s keys idx listed).cold k = some c := by
  unfold repairRepo repairPacks
  rw [repair_append]
  refine ⟨repair_hot_superset_of_covered hs _ ?_, fun k c h => repair_keeps_cold s _ k h⟩
  intro k c hm hc
  obtain ⟨t, id⟩ := k
  by_cases ht : t = .pack
  · subst ht
    have htree : tree id = true := by simpa [Mirrored] using hm
    exact List.mem_append_right _ (mem_packKeys.2 ⟨hl id c hc, mem_treePacks.2 (hidx id c htree hc)⟩)
  · exact List.mem_append_left _ (hk (t, id) c ht hm hc)

/-- pack files that are not tree packs of the index (data packs, unlisted packs) are never touched by the pack repair -/
theorem repairPacks_other (s : HC) (idx : List IndexFileM) (listed : List Name) {k : Key}
    (h : k ∉ packKeys idx listed) :
    (repairPacks s idx listed).hot k = s.hot k ∧ (repairPacks s idx listed).cold k = s.cold k := by
  unfold repairPacks
  generalize packKeys idx listed = keys at h
  induction keys generalizing s with
  | nil => exact ⟨rfl, rfl⟩
  | cons x rest ih =>
    have hx : k ≠ x := fun e => h (e ▸ List.mem_cons_self)
    have hr : k ∉ rest := fun e => h (List.mem_cons_of_mem _ e)
    have := ih (repairKey s x) hr
    exact ⟨this.1.trans (repairKey_other s hx).1, this.2.trans (repairKey_other s hx).2⟩

/-! #### non-vacuity / witnesses -/

/-- a tree pack that a prune has only MARKED (listed under `packs_to_delete`) is recreated in a lost hot store; a
relevance filter that looks at `packs` only (the seeded change C16-2) would leave it out: `packKeys` is then empty -/
example :
    let idx : List IndexFileM := [{ packs := [], packsToDelete := [⟨tIdA', true⟩] }]
    let s : HC := { hot := fun _ => none, cold := fun k => if k = (.pack, tIdA') then some [9, 9] else none }
    (repairPacks s idx [tIdA']).hot (.pack, tIdA') = some [9, 9] ∧
    packKeys [{ packs := [], packsToDelete := [] }] [tIdA'] = [] := by decide

def tIdA : Name := List.replicate 64 '1'
def dIdB : Name := List.replicate 64 'f'
def treeW : Name → Bool := fun id => id.head? == some '1'

/-- interrupted write of a snapshot (hot done, cold not) and interrupted remove (cold done, hot not): hot ⊇ cold -/
example :
    let s := runPrefixes { hot := fun _ => none, cold := fun _ => none }
      [(.write .snapshot tIdA false [1, 2], 1), (.write .index dIdB false [3], 2), (.remove .index dIdB false, 1)]
    s.hot (.snapshot, tIdA) = some [1, 2] ∧ s.cold (.snapshot, tIdA) = none ∧
    s.hot (.index, dIdB) = some [3] ∧ s.cold (.index, dIdB) = none := by decide
/-- #15 witness: a data pack is in cold only; `read_full` fails, the single store answers, `read_partial` agrees -/
example :
    let s := runPrefixes { hot := fun _ => none, cold := fun _ => none } [(.write .pack dIdB (treeW dIdB) [7, 8], 2)]
    readFull s .pack dIdB = .err ∧ singleReadFull s .pack dIdB = .ok [7, 8] ∧
    readPartial s .pack dIdB false 1 1 = .ok [8] := by decide
/-- repaired `repair`: an incomplete hot snapshot is replaced from cold, cold untouched (the unrepaired code copied
the 1-byte hot file over the cold one) -/
example :
    let s : HC := { hot := fun k => if k = (.snapshot, tIdA) then some [1] else none,
                    cold := fun k => if k = (.snapshot, tIdA) then some [1, 2, 3] else none }
    (repairKey s (.snapshot, tIdA)).hot (.snapshot, tIdA) = some [1, 2, 3] ∧
    (repairKey s (.snapshot, tIdA)).cold (.snapshot, tIdA) = some [1, 2, 3] := by decide


/-! ### (4) warm-up before cold reads -/

section warmup
open Rustic.WarmUp

/-- every read served by the cold store is preceded by a warm-up request for the same pack -/
def WarmBeforeRead (tr : List Ev) : Prop :=
  ∀ pre p post, tr = pre ++ Ev.coldRead p :: post → Ev.warm p ∈ pre

theorem route_cold_pack {l : Layout} {c : Call} {p : Nat} (h : route l c = Ev.coldRead p) : c.pack = p := by
  cases c with
  | full q => cases l <;> simp [route] at h; simpa [Call.pack] using h
  | partialRead q cb =>
    cases l
    · simp only [route] at h
      split at h
      · cases h
      · injection h
    · simp only [route] at h; injection h
  | coldDirect q => simp only [route] at h; injection h

theorem coldRead_not_warm (ws : List Nat) (p : Nat) : Ev.coldRead p ∉ warmUpWait ws := by
  simp [warmUpWait]

/-- one `warm_up_wait` whose argument covers the packs of all reads that follow ⇒ the property, whatever the reads' order -/
theorem warm_then_reads (l : Layout) (ws : List Nat) (rs : List Call) (h : ∀ c ∈ rs, c.pack ∈ ws) :
    WarmBeforeRead (trace l ws rs) := by
  intro pre p post heq
  unfold trace at heq
  have good : ∀ (x : List Ev), pre = warmUpWait ws ++ x → Ev.coldRead p ∈ rs.map (route l) → Ev.warm p ∈ pre := by
    intro x h1 hmem
    obtain ⟨c, hc, hr⟩ := List.mem_map.1 hmem
    have hp := route_cold_pack hr
    rw [h1]
    refine List.mem_append_left _ ?_
    simp only [warmUpWait, List.mem_map]
    exact ⟨p, by rw [← hp]; exact h c hc, rfl⟩
  rcases List.append_eq_append_iff.1 heq with ⟨a', h1, h2⟩ | ⟨c', h1, h2⟩
  · exact good a' h1 (by rw [h2]; simp)
  · cases c' with
    | nil =>
      simp only [List.append_nil] at h1
      simp only [List.nil_append] at h2
      exact good [] (by simp [h1]) (by rw [← h2]; simp)
    | cons e c'' =>
      -- the read would lie inside the warm-up requests: impossible
      simp only [List.cons_append] at h2
      injection h2 with h3 _
      have : Ev.coldRead p ∈ warmUpWait ws := by rw [h1, ← h3]; simp
      exact absurd this (coldRead_not_warm ws p)

theorem restore_reads_covered (hole limit : Nat) (r : Rustic.RestoreWalk.RInfo) :
    ∀ c ∈ (restoreCmd hole limit r).reads, c.pack ∈ (restoreCmd hole limit r).warm := by
  intro c hc
  simp only [restoreCmd, List.mem_map] at hc
  obtain ⟨p, hp, rfl⟩ := hc
  exact Rustic.RestoreWalk.packReads_subset_toPacks hole limit r p hp

theorem prune_reads_covered (idx : List (List PPack)) : ∀ c ∈ (pruneCmd idx).reads, c.pack ∈ (pruneCmd idx).warm := by
  intro c hc
  simp only [pruneCmd, List.mem_flatMap, List.mem_replicate] at hc
  obtain ⟨pk, hpk, _, rfl⟩ := hc
  simp only [pruneCmd, List.mem_map]
  exact ⟨pk, hpk, rfl⟩

theorem repairIndex_reads_covered (t : List (Nat × Nat)) :
    ∀ c ∈ (repairIndexCmd t).reads, c.pack ∈ (repairIndexCmd t).warm := by
  intro c hc
  simp only [repairIndexCmd, List.mem_flatMap, List.mem_replicate] at hc
  obtain ⟨x, hx, _, rfl⟩ := hc
  simp only [repairIndexCmd, List.mem_map]
  exact ⟨x, hx, rfl⟩

/-! #### repair index on a repository state: the un-indexed packs -/

open Rustic.Index in
theorem lookupRemove_mem_other {j s : Nat} {l rest : List (Nat × Nat)} (h : lookupRemove j l = some (s, rest))
    {e : Nat × Nat} (he : e ∈ l) (hne : e.1 ≠ j) : e ∈ rest := by
  induction l generalizing rest with
  | nil => cases he
  | cons x xs ih =>
    obtain ⟨i, s0⟩ := x
    simp only [lookupRemove] at h
    by_cases hi : i = j
    · simp only [hi, if_true, Option.some.injEq, Prod.mk.injEq] at h
      obtain ⟨_, rfl⟩ := h
      rcases List.mem_cons.1 he with rfl | he
      · exact absurd hi hne
      · exact he
    · simp only [hi, if_false] at h
      cases hr : lookupRemove j xs with
      | none => rw [hr] at h; cases h
      | some v =>
        obtain ⟨s', r'⟩ := v
        rw [hr] at h
        simp only [Option.some.injEq, Prod.mk.injEq] at h
        obtain ⟨rfl, rfl⟩ := h
        rcases List.mem_cons.1 he with rfl | he
        · exact List.mem_cons_self
        · exact List.mem_cons_of_mem _ (ih hr he)

open Rustic.Index in
/-- `check_pack` on an entry for ANOTHER pack leaves a listed pack in `self.packs` -/
theorem checkOne_keeps_other (readAll : Bool) (a : CheckAcc) (pd : IndexPack × Bool) {e : Nat × Nat}
    (he : e ∈ a.remaining) (hne : pd.1.id ≠ e.1) : e ∈ (checkOne readAll a pd).remaining := by
  unfold checkOne
  cases hl : lookupRemove pd.1.id a.remaining with
  | none => exact he
  | some v =>
    obtain ⟨size, rest⟩ := v
    have := lookupRemove_mem_other hl he (Ne.symm hne)
    simp only
    split <;> exact this

open Rustic.Index in
theorem foldl_checkOne_keeps_other (readAll : Bool) (L : List (IndexPack × Bool)) (a : CheckAcc) {e : Nat × Nat}
    (he : e ∈ a.remaining) (hne : ∀ pd ∈ L, pd.1.id ≠ e.1) : e ∈ (L.foldl (checkOne readAll) a).remaining := by
  induction L generalizing a with
  | nil => exact he
  | cons pd L ih =>
    simp only [List.foldl_cons]
    exact ih _ (checkOne_keeps_other readAll a pd he (hne pd List.mem_cons_self))
      (fun q hq => hne q (List.mem_cons_of_mem _ hq))

open Rustic.Index in
theorem foldl_repairFile_keeps_other (readAll : Bool) (files : List IndexFile) (st : RepairAcc) {e : Nat × Nat}
    (he : e ∈ st.remaining) (hne : ∀ f ∈ files, ∀ pd ∈ f.allPacks, pd.1.id ≠ e.1) :
    e ∈ (files.foldl (repairFile readAll) st).remaining := by
  induction files generalizing st with
  | nil => exact he
  | cons f files ih =>
    simp only [List.foldl_cons]
    refine ih _ ?_ (fun g hg => hne g (List.mem_cons_of_mem _ hg))
    simp only [repairFile]
    exact foldl_checkOne_keeps_other readAll f.allPacks _ he (hne f List.mem_cons_self)

/-- `pack_read_header` = the packs an index entry sent to a re-read, followed by the packs of the repository no index entry
claimed — by definition of `into_pack_to_read` -/
theorem packReadHeader_split (store : List (Nat × Nat)) (files : List Rustic.Index.IndexFile) (readAll : Bool) :
    packReadHeader store files readAll =
      fromIndex store files readAll ++ (unindexed store files readAll).map (fun e => (e.1, none, e.2)) := rfl

/-- the C08 model of the whole command (`Model/Index.lean repairIndex`) reads the headers of exactly `packReadHeader` -/
theorem repairIndex_reads_packReadHeader (readHeader : Nat → Option Nat → Nat → Option (List Rustic.Pack.IndexBlob))
    (store : List (Nat × Nat)) (files : List Rustic.Index.IndexFile) (readAll : Bool) :
    Rustic.Index.repairIndex readHeader store files readAll =
      (checkerAfter store files readAll).out ++
        (if ((packReadHeader store files readAll).filterMap fun r =>
              (readHeader r.1 r.2.1 r.2.2).map fun bl => ({ id := r.1, blobs := bl, size := none } : Rustic.Index.IndexPack)).isEmpty
         then []
         else [{ packs := (packReadHeader store files readAll).filterMap fun r =>
                  (readHeader r.1 r.2.1 r.2.2).map fun bl => ({ id := r.1, blobs := bl, size := none } : Rustic.Index.IndexPack)
                 packsToDelete := [] }]) := rfl

/-- **unindexed_pack_in_read_header.**  For every repository listing, every list of index files (none, some lost, entries with
wrong sizes, …) and both settings of `read_all`: a pack the repository lists and NO index entry names is in `pack_read_header`
(without size hint) — the branch `into_pack_to_read` adds. -/
theorem unindexed_pack_in_read_header (store : List (Nat × Nat)) (files : List Rustic.Index.IndexFile) (readAll : Bool)
    (id size : Nat) (hs : (id, size) ∈ store) (hno : ∀ f ∈ files, ∀ pd ∈ f.allPacks, pd.1.id ≠ id) :
    (id, none, size) ∈ packReadHeader store files readAll := by
  rw [packReadHeader_split]
  refine List.mem_append_right _ (List.mem_map.2 ⟨(id, size), ?_, rfl⟩)
  exact foldl_repairFile_keeps_other readAll files _ hs hno

/-- with all index files lost every pack of the repository is re-read -/
theorem all_packs_in_read_header_of_no_index (store : List (Nat × Nat)) (readAll : Bool) (id size : Nat)
    (hs : (id, size) ∈ store) : (id, none, size) ∈ packReadHeader store [] readAll :=
  unindexed_pack_in_read_header store [] readAll id size hs (fun _ h => by cases h)

/-- **repair_index_unindexed_requested_and_read.**  `repair_index` on any repository / index state: an un-indexed pack is in
the argument of `warm_up_wait` AND its header is read (`nreads` ≥ 1) — with `warmup_before_read` (constructor
`repairIndexOn`) the read follows the request, in both layouts and for every order of the reads.  The seeded change C16-4
requests the warm-up from `fromIndex` only: the `example` below. -/
theorem repair_index_unindexed_requested_and_read (store : List (Nat × Nat)) (files : List Rustic.Index.IndexFile)
    (readAll : Bool) (nreads : Nat × Option Nat × Nat → Nat) (id size : Nat) (hs : (id, size) ∈ store)
    (hno : ∀ f ∈ files, ∀ pd ∈ f.allPacks, pd.1.id ≠ id) (hn : 0 < nreads (id, none, size)) :
    id ∈ (cmdOf (.repairIndexOn store files readAll nreads)).warm ∧
      Call.partialRead id false ∈ (cmdOf (.repairIndexOn store files readAll nreads)).reads := by
  have hm := unindexed_pack_in_read_header store files readAll id size hs hno
  constructor
  · simp only [cmdOf, repairIndexCmd, repairIndexRun, List.map_map, List.mem_map]
    exact ⟨_, hm, rfl⟩
  · simp only [cmdOf, repairIndexCmd, repairIndexRun, List.mem_flatMap, List.mem_map, List.mem_replicate]
    exact ⟨(id, nreads (id, none, size)), ⟨_, hm, rfl⟩, by omega, rfl⟩

/-- **repair_index_warm_before_read.**  Every repository listing × every index state × `read_all` × both layouts × every order
of the header reads: each pack read that reaches the cold store was requested for warm-up before. -/
theorem repair_index_warm_before_read (l : Layout) (store : List (Nat × Nat)) (files : List Rustic.Index.IndexFile)
    (readAll : Bool) (nreads : Nat × Option Nat × Nat → Nat) (rs : List Call)
    (hp : rs.Perm (cmdOf (.repairIndexOn store files readAll nreads)).reads) :
    WarmBeforeRead (trace l (cmdOf (.repairIndexOn store files readAll nreads)).warm rs) :=
  warm_then_reads l _ rs (fun x hx => repairIndex_reads_covered _ x (hp.mem_iff.1 hx))

/-- the seeded change C16-4 (warm-up requested from `checker.packs_to_read` BEFORE `into_pack_to_read` extends it): index
files lost, pack 7 is un-indexed, its header is read from the cold store without a request … -/
example : ¬ WarmBeforeRead (trace .hotcold ((fromIndex [(7, 100)] [] false).map (·.1))
    (cmdOf (.repairIndexOn [(7, 100)] [] false (fun _ => 1))).reads) := by
  intro h
  have := h [] 7 [] (by decide)
  cases this

/-- … while the code as it is requests it; a pack whose index entry has a wrong size (3 ≠ 100 after the header) comes from
`fromIndex`, an un-indexed one from `unindexed`, a correctly indexed one is not read -/
example : trace .hotcold (cmdOf (.repairIndexOn [(7, 100), (8, 50)] [] false (fun _ => 1))).warm
      (cmdOf (.repairIndexOn [(7, 100), (8, 50)] [] false (fun _ => 1))).reads =
    [.warm 7, .warm 8, .coldRead 7, .coldRead 8] := by decide

/-! #### prune on a plan: both loops of `decide_repack` feed the request -/

theorem prunePlan_reads_covered (k : Rustic.Prune.Consts) (o : Rustic.Prune.Opts) (ps : List Rustic.Prune.PPack)
    (chunks : Rustic.Prune.PPack → Nat) :
    ∀ c ∈ (prunePlanCmd k o ps chunks).reads, c.pack ∈ (prunePlanCmd k o ps chunks).warm := by
  intro c hc
  simp only [prunePlanCmd, List.mem_flatMap, List.mem_replicate] at hc
  obtain ⟨pk, hpk, _, rfl⟩ := hc
  simp only [prunePlanCmd, repackPacks, List.mem_map]
  exact ⟨pk, hpk, rfl⟩

/-- every pack of the decided plan with `to_do == Repack` is in the warm-up request and, if it has blobs to copy, is read -/
theorem repack_decision_requested_and_read (k : Rustic.Prune.Consts) (o : Rustic.Prune.Opts) (ps : List Rustic.Prune.PPack)
    (chunks : Rustic.Prune.PPack → Nat) (p : Rustic.Prune.PPack) (hp : p ∈ Rustic.Prune.decideRepack k o ps)
    (ht : p.todo = .repack) :
    p.id ∈ (prunePlanCmd k o ps chunks).warm ∧
      (0 < chunks p → Call.partialRead p.id (Rustic.Prune.isCacheable p.blobType) ∈ (prunePlanCmd k o ps chunks).reads) := by
  refine ⟨?_, fun hc => ?_⟩
  · simp only [prunePlanCmd, repackPacks, List.mem_map, List.mem_filter]
    exact ⟨p, ⟨hp, by simp [ht]⟩, rfl⟩
  · simp only [prunePlanCmd, List.mem_flatMap, List.mem_filter, List.mem_replicate]
    exact ⟨p, ⟨hp, by simp [ht]⟩, by omega, rfl⟩

/-- **candidate_repack_requested.**  Every plan × every option set: a repack candidate of `decide_packs` — whatever its reason —
that `decide_repack` (first OR second loop: `repackDecisions` = `loop1` then `loop2`) decides to repack is in the argument of
prune's `warm_up_wait`. -/
theorem candidate_repack_requested (k : Rustic.Prune.Consts) (o : Rustic.Prune.Opts) (ps : List Rustic.Prune.PPack)
    (chunks : Rustic.Prune.PPack → Nat) (q : Rustic.Prune.PPack) (hq : q ∈ ps) (r : Rustic.Prune.Reason)
    (hc : q.cand = some r) (hd : Rustic.Prune.lookupTodo q.pos (Rustic.Prune.repackDecisions k o ps) = .repack) :
    q.id ∈ (prunePlanCmd k o ps chunks).warm := by
  have hmem : ({ q with todo := Rustic.Prune.lookupTodo q.pos (Rustic.Prune.repackDecisions k o ps) } : Rustic.Prune.PPack)
      ∈ Rustic.Prune.decideRepack k o ps := by
    simp only [Rustic.Prune.decideRepack, List.mem_map]
    exact ⟨q, hq, by simp [hc]⟩
  exact (repack_decision_requested_and_read k o ps chunks _ hmem hd).1

/-- **resize_repack_requested.**  The packs switched to Repack ONLY TO BE RESIZED (reason SizeMismatch: fully used, wrong size —
they go through `resize_packs` and the second loop of `decide_repack`) are requested like the partly used ones … -/
theorem resize_repack_requested (k : Rustic.Prune.Consts) (o : Rustic.Prune.Opts) (ps : List Rustic.Prune.PPack)
    (chunks : Rustic.Prune.PPack → Nat) (q : Rustic.Prune.PPack) (hq : q ∈ ps) (hc : q.cand = some .sizeMismatch)
    (hd : Rustic.Prune.lookupTodo q.pos (Rustic.Prune.repackDecisions k o ps) = .repack) :
    q.id ∈ (prunePlanCmd k o ps chunks).warm :=
  candidate_repack_requested k o ps chunks q hq _ hc hd

theorem partly_used_repack_requested (k : Rustic.Prune.Consts) (o : Rustic.Prune.Opts) (ps : List Rustic.Prune.PPack)
    (chunks : Rustic.Prune.PPack → Nat) (q : Rustic.Prune.PPack) (hq : q ∈ ps) (hc : q.cand = some .partlyUsed)
    (hd : Rustic.Prune.lookupTodo q.pos (Rustic.Prune.repackDecisions k o ps) = .repack) :
    q.id ∈ (prunePlanCmd k o ps chunks).warm :=
  candidate_repack_requested k o ps chunks q hq _ hc hd

/-- the second loop: a resize candidate of blob type data becomes Repack iff data packs are repacked anyway (`do_repack`) or the
accumulated repack size exceeds the target pack size; `repackDecisions` is the first loop followed by this one -/
theorem resize_follows_blob_type (k : Rustic.Prune.Consts) (o : Rustic.Prune.Opts) (st : Rustic.Prune.RState) (pos : Nat) :
    (Rustic.Prune.loop2 k o st (pos, .data, .resize)).2 = .repack ↔
      (st.doData = true ∨ st.repData > (o.sizer .data).packSize k) := by
  simp only [Rustic.Prune.loop2]
  by_cases h1 : st.doData = true <;> by_cases h2 : st.repData > (o.sizer .data).packSize k <;> simp [h1, h2]

theorem repackDecisions_eq_two_loops (k : Rustic.Prune.Consts) (o : Rustic.Prune.Opts) (ps : List Rustic.Prune.PPack) :
    Rustic.Prune.repackDecisions k o ps = (firstLoop o ps).1.map (Rustic.Prune.loop2 k o (firstLoop o ps).2) := rfl

/-- **prune_plan_warm_before_read.**  Every plan × options × layout × order of the reads: each read of prune's repacking that
reaches the cold store — of a partly used pack or of a pack that is only resized — has an earlier warm-up request. -/
theorem prune_plan_warm_before_read (l : Layout) (k : Rustic.Prune.Consts) (o : Rustic.Prune.Opts)
    (ps : List Rustic.Prune.PPack) (chunks : Rustic.Prune.PPack → Nat) (rs : List Call)
    (hp : rs.Perm (prunePlanCmd k o ps chunks).reads) :
    WarmBeforeRead (trace l (prunePlanCmd k o ps chunks).warm rs) :=
  warm_then_reads l _ rs (fun x hx => prunePlan_reads_covered k o ps chunks x (hp.mem_iff.1 hx))

theorem reads_covered (c : Command) : ∀ x ∈ (cmdOf c).reads, x.pack ∈ (cmdOf c).warm := by
  cases c with
  | restore hole limit r => exact restore_reads_covered hole limit r
  | prune idx => exact prune_reads_covered idx
  | prunePlan k o ps chunks => exact prunePlan_reads_covered k o ps chunks
  | repairIndex t => exact repairIndex_reads_covered t
  | repairIndexOn store files readAll nreads => exact repairIndex_reads_covered _
  | checkReadData ps =>
    intro x hx
    simp only [cmdOf, checkReadDataCmd, List.mem_map] at hx ⊢
    obtain ⟨p, hp, rfl⟩ := hx
    exact hp
  | repairHotcold m =>
    intro x hx
    simp only [cmdOf, repairHotcoldCmd, List.mem_map] at hx ⊢
    obtain ⟨p, hp, rfl⟩ := hx
    exact hp

/-- **warmup_before_read.**  For restore (every `RestorePlan`), prune repacking (every plan), repair index, check
--read-data and repair hotcold, on a hot/cold pair and on a single cold store, and for every order in which the reader
threads issue the reads: each read that reaches the cold store is preceded by a warm-up request for that pack. -/
theorem warmup_before_read (l : Layout) (c : Command) (rs : List Call) (hp : rs.Perm (cmdOf c).reads) :
    WarmBeforeRead (trace l (cmdOf c).warm rs) :=
  warm_then_reads l _ rs (fun x hx => reads_covered c x (hp.mem_iff.1 hx))

/-- a history of commands: still every cold read has an earlier warm-up request -/
theorem wbr_append {a b : List Ev} (ha : WarmBeforeRead a) (hb : WarmBeforeRead b) : WarmBeforeRead (a ++ b) := by
  intro pre p post heq
  rcases List.append_eq_append_iff.1 heq with ⟨a', h1, h2⟩ | ⟨c', h1, h2⟩
  · rw [h1]
    exact List.mem_append_right _ (hb a' p post h2)
  · cases c' with
    | nil =>
      simp only [List.nil_append] at h2
      have := hb [] p post (by simp [h2])
      cases this
    | cons e c'' =>
      simp only [List.cons_append] at h2
      injection h2 with h3 h4
      subst h3
      exact ha pre p c'' h1

theorem warmup_before_read_history (l : Layout) (cs : List Command) :
    WarmBeforeRead (cs.flatMap (fun c => trace l (cmdOf c).warm (cmdOf c).reads)) := by
  induction cs with
  | nil => intro pre p post h; cases pre <;> cases h
  | cons c cs ih =>
    simp only [List.flatMap_cons]
    exact wbr_append (warmup_before_read l c _ (List.Perm.refl _)) ih

/-- the predicate is not vacuous: a cold read before its warm-up request violates it … -/
example : ¬ WarmBeforeRead [Ev.coldRead 1, Ev.warm 1] := by
  intro h
  have := h [] 1 [Ev.warm 1] rfl
  cases this

/-- … and a concrete prune: tree pack 3 is read from hot, data pack 5 from cold after its request; pack 8 is kept -/
example : trace .hotcold (pruneCmd [[⟨3, true, true, 1⟩, ⟨5, false, true, 2⟩], [⟨8, false, false, 4⟩]]).warm
      (pruneCmd [[⟨3, true, true, 1⟩, ⟨5, false, true, 2⟩], [⟨8, false, false, 4⟩]]).reads =
    [.warm 3, .warm 5, .hotRead 3, .coldRead 5, .coldRead 5] := by decide

/-! #### a concrete plan with a resize repack (the shape of `backup {a,b}; backup {a,c}; forget 1; prune --max-unused 0 %`) -/

def wK : Rustic.Prune.Consts := { compOverhead := 0, lengthLen := 4, entryLen := 37, entryLenComp := 41, minIndexLen := 0, maxPackSize := 4000000000 }
def wSizer : Rustic.Prune.Sizer := { defaultSize := 1000, growFactor := 0, sizeLimit := 4000000000, currentSize := 0, minPct := 30, maxPct := 300 }
def wO : Rustic.Prune.Opts :=
  { now := 100, keepPack := 0, keepDelete := 0, repackCacheableOnly := false, repackUncompressed := false, repackAll := false,
    noResize := false, instantDelete := true, earlyDeleteIndex := false, maxRepack := .unlimited, maxUnused := .percent 0,
    treeSizer := wSizer, dataSizer := wSizer }
/-- pack 5: data, blobs a (used) and b (unused) — candidate PartlyUsed; pack 6: data, blob c, fully used but too small — candidate
SizeMismatch -/
def wPlan : List Rustic.Prune.PPack :=
  [ { pos := 0, index := 0, id := 5, blobType := .data, size := 100, mark := false, time := some 1, blobs := [],
      info := { blobType := .data, usedBlobs := 1, unusedBlobs := 1, usedSize := 50, unusedSize := 50 }, cand := some .partlyUsed },
    { pos := 1, index := 1, id := 6, blobType := .data, size := 60, mark := false, time := some 2, blobs := [],
      info := { blobType := .data, usedBlobs := 1, unusedBlobs := 0, usedSize := 60, unusedSize := 0 }, cand := some .sizeMismatch } ]

/-- the first loop sets pack 5 to Repack and parks pack 6 in `resize_packs`; the second loop switches pack 6 to Repack (data packs
are repacked anyway); the request holds both and both are read from the cold store after it -/
example : (firstLoop wO wPlan).1 = [(0, .data, .repack), (1, .data, .resize)] ∧
    Rustic.Prune.repackDecisions wK wO wPlan = [(0, .repack), (1, .repack)] ∧
    trace .hotcold (prunePlanCmd wK wO wPlan (fun _ => 1)).warm (prunePlanCmd wK wO wPlan (fun _ => 1)).reads =
      [.warm 5, .warm 6, .coldRead 5, .coldRead 6] := by decide

/-- the seeded change C16-6 (ids recorded by the first loop only): pack 6 is read without a request … -/
example : firstLoopRepackIds wO wPlan = [5] ∧
    ¬ WarmBeforeRead (trace .hotcold (firstLoopRepackIds wO wPlan) (prunePlanCmd wK wO wPlan (fun _ => 1)).reads) := by
  refine ⟨by decide, fun h => ?_⟩
  have := h [Ev.warm 5, Ev.coldRead 5] 6 [] (by decide)
  simp at this

/-- … and with `no_resize` pack 6 is kept and not read -/
example : trace .hotcold (prunePlanCmd wK { wO with noResize := true } wPlan (fun _ => 1)).warm
    (prunePlanCmd wK { wO with noResize := true } wPlan (fun _ => 1)).reads = [.warm 5, .coldRead 5] := by decide

/-! #### where the warm-up request goes: every file type, both layouts, warm-up by access or by the store's own call -/

/-- **access_warm_up_goes_to_cold.**  With `opts.warm_up` the request for ANY file (keys, config, snapshots, index files, packs)
is one access of that file ON THE COLD STORE — with and without a hot store, whatever the cold store says about itself. -/
theorem access_warm_up_goes_to_cold (n hasHot : Bool) (t : Rustic.Backends.FileType) (id : Nat) :
    (repoBe n true hasHot).warmUp t id = [SEv.read .cold t id] := by
  cases hasHot <;> rfl

theorem native_warm_up_goes_to_cold (n hasHot : Bool) (t : Rustic.Backends.FileType) (id : Nat) :
    (repoBe n false hasHot).warmUp t id = [SEv.warmReq .cold t id] := by
  cases hasHot <;> rfl

theorem needsWarmUp_repoBe (n w hasHot : Bool) : (repoBe n w hasHot).needsWarmUp = (w || n) := by
  cases hasHot <;> cases w <;> rfl

/-- `warm_up(repo, tpe, ids)`: nothing if neither `opts.warm_up` nor the store asks for it, else one request per id on the cold store -/
theorem warmUpRepo_eq (n w hasHot : Bool) (t : Rustic.Backends.FileType) (ids : List Nat) :
    warmUpRepo (repoBe n w hasHot) t ids =
      if w then ids.map (fun id => SEv.read .cold t id) else if n then ids.map (fun id => SEv.warmReq .cold t id) else [] := by
  unfold warmUpRepo
  rw [needsWarmUp_repoBe]
  cases w
  · cases n
    · rfl
    · simp only [Bool.false_or, if_true, Bool.false_eq_true, if_false]
      induction ids with
      | nil => rfl
      | cons a l ih => simp only [List.flatMap_cons, List.map_cons, native_warm_up_goes_to_cold, ih]; rfl
  · simp only [Bool.true_or, if_true]
    induction ids with
    | nil => rfl
    | cons a l ih => simp only [List.flatMap_cons, List.map_cons, access_warm_up_goes_to_cold, ih]; rfl

/-- **cold_reads_warmed_on_cold.**  `open_only_cold` (keys, config) and `repair hotcold` (keys, snapshots, index files, tree
packs): for EVERY file type, both layouts and both kinds of warm-up, a file the command reads from the cold store directly was
the subject of an earlier event ON THE COLD STORE — the access (`opts.warm_up`) or the store's own `warm_up()` — provided the
file is among the requested ids (it is: `keys` / `config_id` / `missing_hot` are both the request and the read list). -/
theorem cold_reads_warmed_on_cold (n w hasHot : Bool) (hneed : (w || n) = true) (t : Rustic.Backends.FileType)
    (ids reads : List Nat) (hsub : ∀ r ∈ reads, r ∈ ids) :
    ∀ pre r post, coldDirectCmd (repoBe n w hasHot) t ids reads = pre ++ SEv.read .cold t r :: post →
      r ∈ reads → (SEv.read .cold t r ∈ warmUpRepo (repoBe n w hasHot) t ids ∨ SEv.warmReq .cold t r ∈ warmUpRepo (repoBe n w hasHot) t ids) := by
  intro pre r post _ hr
  rw [warmUpRepo_eq]
  cases w
  · cases n
    · cases hneed
    · right
      simp only [Bool.false_eq_true, if_false, if_true, List.mem_map]
      exact ⟨r, hsub r hr, rfl⟩
  · left
    simp only [if_true, List.mem_map]
    exact ⟨r, hsub r hr, rfl⟩

/-- no event ever reaches the hot store from a warm-up request -/
theorem warm_up_never_touches_hot (n w hasHot : Bool) (t : Rustic.Backends.FileType) (ids : List Nat) (t' : Rustic.Backends.FileType)
    (id : Nat) : SEv.read .hot t' id ∉ warmUpRepo (repoBe n w hasHot) t ids := by
  rw [warmUpRepo_eq]
  cases w <;> cases n <;> simp

/-- the seeded change C16-7 (`WarmUpAccessBackend` on top of the `HotColdBackend`): the access for a key / snapshot / index /
config file is routed to the HOT store, the cold store sees nothing; packs (`cacheable = false`) still reach the cold store -/
example : (Be.warmAccess (.hotCold (.cold false) .hot)).warmUp .key 5 = [SEv.read .hot .key 5] ∧
    (Be.warmAccess (.hotCold (.cold false) .hot)).warmUp .snapshot 5 = [SEv.read .hot .snapshot 5] ∧
    (Be.warmAccess (.hotCold (.cold false) .hot)).warmUp .index 5 = [SEv.read .hot .index 5] ∧
    (Be.warmAccess (.hotCold (.cold false) .hot)).warmUp .config 5 = [SEv.read .hot .config 5] ∧
    (Be.warmAccess (.hotCold (.cold false) .hot)).warmUp .pack 5 = [SEv.read .cold .pack 5] := by decide

/-- the code as it is, `open_only_cold` with one key file on a hot/cold repository, `opts.warm_up`: access on cold, then the read -/
example : coldDirectCmd (repoBe false true true) .key [5] [5] = [SEv.read .cold .key 5, SEv.read .cold .key 5] := by decide

end warmup

end Rustic.Props.C16
