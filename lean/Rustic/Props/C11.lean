/-
C11 — Incremental backup with a parent equals a full backup.

Property theorems only (lemmas: `Rustic/Lemmas/Parent.lean`, `Rustic/Lemmas/ArchiveParent.lean`).  Models:
`Rustic.Parent` (`archiver/parent.rs`, cursor walk as written), `Rustic.Tree` (`TreeArchiver`, tree ids as an
arbitrary function `H` of the node list), `Rustic.Archive.archive` (the `Archiver::archive` pipeline).
All statements quantify over every hash `H`, every chunking function, every stored parent forest
(`load`), every index (`hasData`, `hasTree`), every option set, every number of parents and every item
stream — no size bounds.
-/
import Rustic.Lemmas.ArchiveParent
import Rustic.Lemmas.ArchiveComplete
import Rustic.Lemmas.TreeIter
import Rustic.Lemmas.SnapshotArchive
namespace Rustic.Props.C11
open Rustic.Tree Rustic.Parent Rustic.Archive

/-- (1) One cursor: if the parent tree is sorted and everything the cursor has passed is smaller than the
queried name, `p_node` returns exactly the node with that name (it never skips an equal name), and the
cursor stays usable for every later (not smaller) name. -/
theorem cursor_never_skips_equal_name {c : Cursor} {name : Name} (h : Ready c name) :
    (c.pNode name).2 = lookup name c.nodes ∧ (c.pNode name).1.nodes = c.nodes ∧
      (∀ n', nameLe name n' → Ready (c.pNode name).1 n') :=
  let ⟨h1, h2, h3⟩ := pNode_spec h
  ⟨h1, h2, fun _ hle => h3.mono hle⟩

/-- (1') The whole walk — several parents, nested directories (`set_dir`/`finish_dir` stack), lazily
advanced cursors: when every loadable parent tree has strictly increasing names and the names queried at
each directory level never decrease, `Parent::process` answers every item exactly as the cursor-free
specification does, i.e. by looking the name up in every parent tree of the current directory. -/
theorem cursor_walk_refines_lookup {γ} (o : Opts) (load : Id → Option (List Node)) (hasData : Id → Bool)
    (hs : SortedStore load) (roots : List Id) (items : List (Item γ)) (hq : queriesOK [none] items) :
    run o load hasData (PState.init load roots) items =
      specRun o load hasData (SState.init load roots) items :=
  run_eq_specRun o load hasData hs items [none] _ _ (sim_init load hs roots) hq

/-- (2) **Parent-based backup = full backup.**  If every parent entry found at the path of an item with
equal type, size, mtime and (unless `ignore_ctime`) ctime carries the content a fresh read would give
(`Faithful` — "each file that changed also changed its size, mtime or ctime"; the inode plays no role,
whatever the polarity of `ignore_inode`), then a backup using any number of parents that completes yields
the same root tree id as the backup of the same items with no parent (`force`).  `hasTree'` may differ:
the forced run may see another tree index. -/
theorem parent_eq_full {γ} (H : List Node → Id) (chunk : γ → List Id) (len : γ → Nat)
    (load : Id → Option (List Node)) (hasData hasTree hasTree' : Id → Bool) (o : Opts) (roots : List Id)
    (items : List (Item γ)) (hs : SortedStore load) (hq : queriesOK [none] items)
    (hf : Faithful o load hasData chunk (SState.init load roots) items)
    (a : ArchOut) (ha : archive H chunk len load hasData hasTree o roots items = some a) :
    ∃ b, archive H chunk len load hasData hasTree' o [] items = some b ∧ b.root = a.root := by
  have e1 := run_eq_specRun o load hasData hs items [none] _ _ (sim_init load hs roots) hq
  have e2 := run_eq_specRun o load hasData hs items [none] _ _ (sim_init load hs []) hq
  simp only [archive] at ha ⊢
  rw [e1] at ha; rw [e2]
  by_cases hp : hasPanic (specRun o load hasData (SState.init load roots) items) = true
  · simp [hp] at ha
  · have hp' : hasPanic (specRun o load hasData (SState.init load roots) items) = false := by simpa using hp
    have hE : EmptyLike (SState.init load []) := ⟨rfl, by intro t ht; cases ht⟩
    obtain ⟨q1, q2⟩ := filterMap_rel o load hasData chunk len items (SState.init load roots) (SState.init load []) hE rfl hf hp'
    simp only [hp', q1, Bool.false_eq_true, if_false] at ha ⊢
    rcases addAll_same H hasTree hasTree' _ _ q2 {} {} ⟨rfl, Rel2.nil⟩ with ⟨n1, _⟩ | ⟨t1, t2, m1, m2, mt⟩
    · rw [n1] at ha; cases ha
    · rw [m1] at ha; rw [m2]
      injection ha with ha; subst ha
      refine ⟨_, rfl, ?_⟩
      simp only [TA.finalize]
      rw [(backupTree_id H hasTree' t2 _).1, (backupTree_id H hasTree t1 _).1, mt.1]

/-- (3) A file is reused from the parent only if **all** its chunks are in the index: whenever
`Parent::process` answers `Matched` for a non-directory item, every blob of the content it put into the
node is indexed. -/
theorem reuse_requires_indexed {γ} (o : Opts) (load : Id → Option (List Node)) (hasData : Id → Bool)
    (st : PState) (node node' : Node) (x : γ) (r : PRes Unit)
    (h : (process o load hasData st (.other node x)).2 = .other node' x r) (hr : r.isMatched = true) :
    ∀ b ∈ node'.content.getD [], hasData b = true := by
  simp only [process] at h
  cases hp : (isParent o st node node.name).2 with
  | matched p =>
    simp only [hp] at h
    by_cases hall : (p.content.getD []).all hasData = true
    · simp only [hall, if_true] at h
      injection h with h1 _ _
      subst h1
      intro b hb
      exact List.all_eq_true.mp hall b hb
    · have : (p.content.getD []).all hasData = false := by simpa using hall
      simp only [this] at h
      injection h with _ _ h3
      subst h3; simp [PRes.isMatched] at hr
  | notFound => simp only [hp] at h; injection h with _ _ h3; subst h3; simp [PRes.isMatched] at hr
  | notMatched => simp only [hp] at h; injection h with _ _ h3; subst h3; simp [PRes.isMatched] at hr

/-- (3') … otherwise it is read again: a matching parent entry with a blob missing from the index gives
`NotFound` with the node untouched, and `FileArchiver::process` then reads the file and stores the chunk
ids of its *current* content. -/
theorem missing_blob_forces_reread {γ} (o : Opts) (load : Id → Option (List Node)) (hasData : Id → Bool)
    (chunk : γ → List Id) (len : γ → Nat) (st : PState) (node p : Node) (x : γ)
    (hm : (isParent o st node node.name).2 = .matched p)
    (hmiss : ∃ b ∈ p.content.getD [], hasData b = false) (hfile : node.kind = .file) :
    (process o load hasData st (.other node x)).2 = .other node x .notFound ∧
    fileStep chunk len hasData (process o load hasData st (.other node x)).2 =
      some (.other { node with content := some (chunk x) } .notFound (len x),
            (chunk x).filter (fun i => !hasData i), some node) := by
  have hall : (p.content.getD []).all hasData = false := by
    obtain ⟨b, hb, hb'⟩ := hmiss
    cases h : (p.content.getD []).all hasData with
    | false => rfl
    | true => have := List.all_eq_true.mp h b hb; simp [hb'] at this
  have e : (process o load hasData st (.other node x)).2 = .other node x .notFound := by
    simp only [process, hm, hall]; rfl
  exact ⟨e, by rw [e]; simp [fileStep, PRes.isMatched, hfile]⟩

/-- (4) A type change (file ↔ dir ↔ symlink, other link target) or a change of size or mtime never
matches — for unsorted or hostile parent trees too. -/
theorem changed_stat_never_matches {o : Opts} {st : PState} {node : Node} {name : Name} {p : Node}
    (h : (isParent o st node name).2 = .matched p) :
    p.kind = node.kind ∧ p.md.size = node.md.size ∧ p.md.mtime = node.md.mtime ∧
      (o.ignoreCtime = false → ∀ x y, p.md.ctime = some x → node.md.ctime = some y → x = y) := by
  have hm := isParent_matched h
  simp only [metaMatch, Bool.and_eq_true, decide_eq_true_eq, beq_iff_eq] at hm
  obtain ⟨⟨⟨⟨h1, h2⟩, h3⟩, h4⟩, _⟩ := hm
  refine ⟨h1, h2, h3, ?_⟩
  intro hic x y hx hy
  simp [matchCtime, hic, hx, hy] at h4
  exact h4

/-- the stamp encoding is injective on (second < 2^32, nanosecond < 2^32) -/
theorem stamp_injective {s n s' n' : Nat} (hs : s < 4294967296) (hs' : s' < 4294967296)
    (h : stamp s n = stamp s' n') : s = s' ∧ n = n' := by
  unfold stamp at h
  omega

/-- (4') Time stamps are compared to the NANOSECOND: a node whose mtime — or, unless `ignore_ctime`, ctime — differs from
the parent node's in the sub-second part only (same second, other nanoseconds: a same-length in-place rewrite right after
the write the parent recorded) never matches, so the file is read again.  (Seed C07-5 compared `as_second()`.) -/
theorem subsecond_change_never_matches {o : Opts} {st : PState} {node : Node} {name : Name} {p : Node}
    (h : (isParent o st node name).2 = .matched p) {s n s' n' : Nat} (hs : s < 4294967296) (hs' : s' < 4294967296) :
    (p.md.mtime = some (stamp s n) → node.md.mtime = some (stamp s' n') → s = s' ∧ n = n') ∧
    (o.ignoreCtime = false → p.md.ctime = some (stamp s n) → node.md.ctime = some (stamp s' n') → s = s' ∧ n = n') := by
  obtain ⟨_, _, hm, hc⟩ := changed_stat_never_matches h
  refine ⟨?_, ?_⟩
  · intro hp hn
    rw [hp, hn] at hm
    exact stamp_injective hs hs' (Option.some.inj hm)
  · intro hic hp hn
    exact stamp_injective hs hs' (hc hic _ _ hp hn)

/-- (5) With `ignore_inode` unset the inode is never compared (the polarity in `is_parent` is as written);
this does not touch (2), whose premise does not mention inodes. -/
theorem inode_ignored_unless_flag_set (o : Opts) (h : o.ignoreInode = false) (p n : Meta) :
    matchInode o p n = true := by simp [matchInode, h]

/-- (6) Every tree the archiver computes is handed to the tree packer unless the index already has it —
also when its id equals the matched parent subtree id (the "unchanged tree" arm; before the C11 repair that
arm returned early, so a parent whose tree blob had been removed from the index produced a snapshot with a
dangling tree: `corpus/C11/pruned_parent_tree.ops`). -/
theorem tree_saved_or_indexed (H : List Node → Id) (hasTree : Id → Bool) (s : TA) (p : PRes Id) :
    hasTree (s.backupTree H hasTree p).2 = true ∨
      (s.backupTree H hasTree p).2 ∈ (s.backupTree H hasTree p).1.adds.map (·.1) := by
  unfold TA.backupTree
  simp only []
  by_cases h : hasTree (H s.tree) = true
  · exact Or.inl h
  · right; simp [h]

/-- (6') … in particular the root tree of a completed parent-based backup, whatever the parents were. -/
theorem root_saved_or_indexed {γ} (H : List Node → Id) (chunk : γ → List Id) (len : γ → Nat)
    (load : Id → Option (List Node)) (hasData hasTree : Id → Bool) (o : Opts) (roots : List Id)
    (items : List (Item γ)) (a : ArchOut)
    (ha : archive H chunk len load hasData hasTree o roots items = some a) :
    hasTree a.root = true ∨ a.root ∈ a.treeAdds.map (·.1) := by
  simp only [archive] at ha
  split at ha
  · cases ha
  · split at ha
    · cases ha
    · injection ha with ha; subst ha
      exact tree_saved_or_indexed H hasTree _ _

/-- (6'') **The new snapshot is complete, whatever happened to the parents.**  For items as a source
produces them and any parent forest and index (e.g. parents whose blobs were partly removed from the
index): when the backup completes, the root tree and every tree it handed to the tree packer reference only
trees and data blobs that the index has or that this very run handed to the packers — reused content is
indexed, re-read content is uploaded unless indexed, unchanged sub-trees are saved unless indexed.  (With
C07 `uploaded_exactly_added`: all of them are in a pack and indexed at `finalize`.) -/
theorem new_snapshot_references_only_stored_blobs {γ} (H : List Node → Id) (chunk : γ → List Id)
    (len : γ → Nat) (load : Id → Option (List Node)) (hasData hasTree : Id → Bool) (o : Opts)
    (roots : List Id) (items : List (Item γ)) (hsrc : SrcItems items) (a : ArchOut)
    (ha : archive H chunk len load hasData hasTree o roots items = some a) :
    (hasTree a.root = true ∨ a.root ∈ a.treeAdds.map (·.1)) ∧
    ∀ t ∈ a.treeAdds, ∀ n ∈ t.2,
      (∀ st, n.subtree = some st → hasTree st = true ∨ st ∈ a.treeAdds.map (·.1)) ∧
      (∀ c ∈ n.content.getD [], hasData c = true ∨ c ∈ a.dataAdds) :=
  archive_complete H chunk len load hasData hasTree o roots items hsrc a ha

/-- (7) **`TreeIterator` over a name-sorted source yields `queriesOK` items** — the premise of (1') and (2) is a
theorem about the source, not something to be checked per run.  `src` is any source forest (`Snapshot.STree`: files,
symlinks, special files, directories of any depth and width) walked depth-first (`entriesL`: a directory's entry carries
its own path, every other entry its parent's, as `Archiver::archive` prepares them); `WalkableL`: directories are
directory nodes and no two adjacent sibling directories share a name; `SortedL none`: in every directory the names never
decrease in walk order (`Ord for OsStr`, what `LocalSource`'s sorted walk and the in-memory sources give).  Then the item
stream `TreeIterator` makes of it (`treeItems`: every `NewTree` / `EndTree` / `Other`) queries names in non-decreasing
order at every directory level. -/
theorem tree_iterator_sorted_source_queriesOK (src : List Snapshot.STree) (hw : Snapshot.WalkableL src)
    (hs : Snapshot.SortedL none src) : queriesOK [none] (treeItems (Snapshot.entriesL [] src)) :=
  Snapshot.sorted_source_queriesOK src hw hs

/-- (7') … and the iterator neither invents nor drops anything: its items are exactly the bracketed walk of the forest. -/
theorem tree_iterator_items (src : List Snapshot.STree) (hw : Snapshot.WalkableL src) :
    treeItems (Snapshot.entriesL [] src) = Snapshot.itemsL src :=
  Snapshot.tree_iterator_items src hw

/-- (2') **Parent-based backup = full backup, stated on the source.**  (2) with the item stream produced by the real
`TreeIterator` from a name-sorted source forest: no premise about the items is left. -/
theorem parent_eq_full_sorted_source (H : List Node → Id) (chunk : RoundTrip.Bytes → List Id) (len : RoundTrip.Bytes → Nat)
    (load : Id → Option (List Node)) (hasData hasTree hasTree' : Id → Bool) (o : Opts) (roots : List Id)
    (src : List Snapshot.STree) (hw : Snapshot.WalkableL src) (hsorted : Snapshot.SortedL none src)
    (hs : SortedStore load)
    (hf : Faithful o load hasData chunk (SState.init load roots) (treeItems (Snapshot.entriesL [] src)))
    (a : ArchOut)
    (ha : archive H chunk len load hasData hasTree o roots (treeItems (Snapshot.entriesL [] src)) = some a) :
    ∃ b, archive H chunk len load hasData hasTree' o [] (treeItems (Snapshot.entriesL [] src)) = some b ∧
      b.root = a.root :=
  parent_eq_full H chunk len load hasData hasTree hasTree' o roots _ hs
    (tree_iterator_sorted_source_queriesOK src hw hsorted) hf a ha

/-- (6+) … and for a source forest the premise `SrcItems` of (6'') is a theorem too: the new snapshot of ANY well-formed
source (`WFL`), under any parents and any index, references only stored blobs. -/
theorem new_snapshot_of_source_references_only_stored_blobs (H : List Node → Id) (chunk : RoundTrip.Bytes → List Id)
    (len : RoundTrip.Bytes → Nat) (load : Id → Option (List Node)) (hasData hasTree : Id → Bool) (o : Opts)
    (roots : List Id) (src : List Snapshot.STree) (hwf : Snapshot.WFL src) (hw : Snapshot.WalkableL src) (a : ArchOut)
    (ha : archive H chunk len load hasData hasTree o roots (treeItems (Snapshot.entriesL [] src)) = some a) :
    (hasTree a.root = true ∨ a.root ∈ a.treeAdds.map (·.1)) ∧
    ∀ t ∈ a.treeAdds, ∀ n ∈ t.2,
      (∀ st, n.subtree = some st → hasTree st = true ∨ st ∈ a.treeAdds.map (·.1)) ∧
      (∀ c ∈ n.content.getD [], hasData c = true ∨ c ∈ a.dataAdds) :=
  new_snapshot_references_only_stored_blobs H chunk len load hasData hasTree o roots _
    (by rw [Snapshot.tree_iterator_items src hw]; exact Snapshot.srcItems_list src hwf) a ha

/-! ### Non-vacuity: a concrete parent forest, source walk and index satisfying every hypothesis, with a
reused file, a re-read file (blob 7 missing from the index), a changed file and a sub-directory. -/

section Witness

private def fA : Node := { name := [97], kind := .file, md := { size := 5, mtime := some 10, ctime := some 20, inode := 1 }, content := some [1, 2] }
private def fB : Node := { name := [98], kind := .file, md := { size := 6, mtime := some 10, ctime := some 20, inode := 2 }, content := some [7] }
private def fC : Node := { name := [99], kind := .file, md := { size := 1, mtime := some 10, ctime := some 20, inode := 3 }, content := some [3] }
private def dD : Node := { name := [100], kind := .dir, md := { size := 0, mtime := some 10, ctime := some 20, inode := 4 }, subtree := some 50 }
private def wLoad : Id → Option (List Node)
  | 100 => some [fA, fB, dD]
  | 50 => some [fC]
  | _ => none
private def wHas (i : Id) : Bool := i != 7
private def src (n : Node) : Node := { n with content := none, subtree := none }
/-- current source: `a` unchanged, `b` unchanged (but blob 7 not indexed), `d/c` with a new mtime -/
private def wItems : List (Item (List Id)) :=
  [.other (src fA) [1, 2], .other (src fB) [7], .newTree (src dD) [100],
   .other { src fC with md := { fC.md with mtime := some 11 } } [9], .endTree]
private def wH (ns : List Node) : Id := ns.foldl (fun acc n => acc * 31 + n.name.length + (n.content.getD []).sum + n.subtree.getD 0) 7

private theorem wSorted : SortedStore wLoad := by
  intro id ns h
  unfold wLoad at h
  split at h
  · injection h with h; subst h; simp [Sorted, nameLt, cmpName, fA, fB, dD]
  · injection h with h; subst h; simp [Sorted, fC]
  · cases h

example : SrcItems wItems := by
  intro it hit
  simp [wItems, src] at hit
  rcases hit with rfl | rfl | rfl | rfl | rfl <;> simp

example : queriesOK [none] wItems := by
  simp [wItems, queriesOK, okAfter, nameLe, cmpName, src, fA, fB, fC, dD]

example : Faithful ⟨false, false⟩ wLoad wHas id (SState.init wLoad [100]) wItems := by
  simp [wItems, Faithful, SState.init, wLoad, specPNode, lookup, sameStat, matchCtime, fullContent, src, fA, fB, fC, dD,
    specProcess, specIsParent, specSetDir, metaMatch, matchInode, sortDedup, insertSorted, dedupAdj, wHas]

/-- the parent-based run completes, reuses `a`, re-reads `b` and `d/c`, and (2) applies to it -/
example : (archive wH id List.length wLoad wHas (fun _ => false) ⟨false, false⟩ [100] wItems).map
    (fun a => (a.reads.map (·.name), a.summary.filesUnmodified, a.summary.filesNew, a.summary.filesChanged)) =
    some ([[98], [99]], 1, 1, 1) := by decide

example : (archive wH id List.length wLoad wHas (fun _ => false) ⟨false, false⟩ [100] wItems).map (·.root) =
    (archive wH id List.length wLoad wHas (fun _ => false) ⟨false, false⟩ [] wItems).map (·.root) := by decide

/-- Outside the premise the conclusion fails: content changed, size/mtime/ctime kept — the parent-based
tree keeps the old content `[1,2]`, the full one has `[8]`. -/
example : (archive wH id List.length wLoad wHas (fun _ => false) ⟨false, false⟩ [100] [.other (src fA) [8]]).map (·.root) ≠
    (archive wH id List.length wLoad wHas (fun _ => false) ⟨false, false⟩ [] [.other (src fA) [8]]).map (·.root) := by decide

/-- (7) on a concrete forest: two files, a directory with a file and an empty directory, a trailing symlink -/
private def wSrc : List Snapshot.STree :=
  [.leaf (src fA) [1, 2], .leaf (src fB) [7],
   .dir (src dD) [.leaf (src fC) [3], .dir { src dD with name := [101] } []],
   .leaf { name := [122], kind := .symlink [0xff], md := { size := 0, mtime := none, ctime := none, inode := 9 } } []]

example : Snapshot.WalkableL wSrc ∧ Snapshot.SortedL none wSrc := by
  simp [wSrc, Snapshot.WalkableL, Snapshot.STree.Walkable, Snapshot.SortedL, Snapshot.STree.SortedNames, okAfter, nameLe,
    cmpName, Snapshot.STree.node, Node.isDir, src, fA, fB, fC, dD]

example : (treeItems (Snapshot.entriesL [] wSrc)).length = 8 := by decide

end Witness

end Rustic.Props.C11
