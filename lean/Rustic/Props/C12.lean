/-
C12 — Copy, merge, rewrite and repair preserve all content they keep.

Models: `Rustic/Model/TreeOps.lean` (`blob/tree.rs merge_trees / merge_nodes`, `blob/tree/{modify,rewrite}.rs`,
`commands/{copy,merge,rewrite}.rs`, `commands/repair/snapshots.rs`).  All statements quantify over every list
of trees of any size and depth, every exclusion predicate, every index, every destination.

The copy clause is proved at full strength since the indexer repair 17c26ec (`copy_restores_same`); the behaviour of
the code before it is kept as `copyStepUntyped` with the witness `copy_lost_tree_on_id_collision_before_fix`.
-/
import Rustic.Lemmas.TreeOps
namespace Rustic.Props.C12
open Rustic.TreeOps

/-! ## merge: lookup in the merged tree = resolve by the ordering over the union of paths -/

/-- (M1) One level: the entry named `n` of the merge of sorted trees is obtained from exactly the entries
named `n` of the inputs (`row n ts`, one per tree that has one): none if no input has it — so the names of the
merged tree are the union —, otherwise the `cmp`-maximal one (the last of equal maxima); if that is a directory
its subtree is the merge of the subtrees of *all* directories among them. -/
theorem merge_lookup (d : Nat) (ts : List (List Tr)) (hs : AllSorted ts) (n : Nat) :
    find n (mergeTrees (d + 1) ts) = mergeNodes (mergeTrees d) (row n ts) :=
  find_mergeTrees hs n

/-- (M1') **Whole paths.**  For input trees sorted at every depth (`AllDeepSorted`: the tree invariant, at every
level), the node found at ANY path `p` of the merged tree (`lookupPath`: descend through directories) is what the
specification `specLookup` computes from the inputs alone, level by level: at each component take the nodes with that
name — one per input (sub)tree that has one —; none ⇒ the path does not exist (union of paths); the `cmp`-maximal one
(last of equal maxima) wins; to continue below it the winner must be a directory (a file winning over directories hides
their contents), and the walk continues in the subtrees of ALL directories among them; at the last component the result
is `merge_nodes` of the nodes found.  `d` is the recursion depth of `merge_trees`, any value ≥ the path length. -/
theorem merge_lookup_path (p : List Nat) (d : Nat) (ts : List (List Tr)) (hs : AllDeepSorted ts) (hd : p.length ≤ d) :
    lookupPath (mergeTrees d ts) p = specLookup d ts p :=
  lookupPath_mergeTrees p d ts hs hd

/-- (M2) the merged tree is sorted by name without duplicates (so (M1) applies again one level down) -/
theorem merge_sorted (d : Nat) (ts : List (List Tr)) (hs : AllSorted ts) : Sorted (mergeTrees d ts) :=
  mergeTrees_sorted hs

/-- (M3) the winner is an input node with that name and no input node with that name has a larger key -/
theorem merge_winner_maximal (x : Tr) (l : List Tr) :
    lastMax x l ∈ x :: l ∧ ∀ y ∈ x :: l, y.key ≤ (lastMax x l).key :=
  ⟨lastMax_mem l x, lastMax_max l x⟩

/-- (M4) union of names: a name is in the merged tree iff some input tree has it -/
theorem merge_names_union (d : Nat) (ts : List (List Tr)) (hs : AllSorted ts) (n : Nat) :
    (find n (mergeTrees (d + 1) ts)).isSome ↔ ∃ t ∈ ts, (find n t).isSome := by
  rw [find_mergeTrees hs n]
  constructor
  · intro h
    cases hr : row n ts with
    | nil => simp [hr, mergeNodes] at h
    | cons y l =>
      have : y ∈ row n ts := by rw [hr]; exact List.mem_cons_self
      obtain ⟨t, ht, hf⟩ := List.mem_filterMap.mp this
      exact ⟨t, ht, by simp [hf]⟩
  · rintro ⟨t, ht, hf⟩
    obtain ⟨y, hy⟩ := Option.isSome_iff_exists.mp hf
    have : y ∈ row n ts := List.mem_filterMap.mpr ⟨t, ht, hy⟩
    cases hr : row n ts with
    | nil => rw [hr] at this; simp at this
    | cons a l => simp [mergeNodes]

/-- non-vacuity of (M1'): directory `1` in both inputs (the newer one wins the node, both subtrees are merged), below it
`5` is a file in one and a directory in the other (the newer file wins and hides `5/9`), `7` exists only in the older -/
example :
    let a : List Tr := [.node 1 10 true 100 [.node 5 3 true 0 [.node 9 1 false 0 []], .node 7 1 false 77 []]]
    let b : List Tr := [.node 1 20 true 200 [.node 5 8 false 55 []]]
    AllDeepSorted [a, b] ∧
    (lookupPath (mergeTrees 3 [a, b]) [1]).map (·.tag) = some 200 ∧
    (lookupPath (mergeTrees 3 [a, b]) [1, 5]).map (·.tag) = some 55 ∧
    (lookupPath (mergeTrees 3 [a, b]) [1, 7]).map (·.tag) = some 77 ∧
    lookupPath (mergeTrees 3 [a, b]) [1, 5, 9] = none ∧
    (specLookup 3 [a, b] [1, 7]).map (·.tag) = some 77 := by
  refine ⟨?_, by decide, by decide, by decide, by decide, by decide⟩
  intro t ht
  simp only [List.mem_cons, List.not_mem_nil, or_false] at ht
  rcases ht with rfl | rfl <;> simp [Sorted, DeepSortedL, Tr.DeepSorted, Tr.name]

/-! ## rewrite: removes exactly the excluded paths and changes nothing else -/

/-- (R1) The listing (path, type, key, tag — in order) of the rewritten tree is the listing of the original
with exactly those entries removed that have an excluded component (`blocked`): nothing else is removed, nothing
is added, every kept entry is unchanged and stays in place. -/
theorem rewrite_removes_exactly (ex : List Nat → Bool → Bool) (pre : List Nat) (l : List Tr) :
    listList (rwList ex pre l) = (listList l).filter (fun e => !blocked ex pre e.1 e.2.1) :=
  rwList_list ex pre l

/-- (R2) nothing excluded ⇒ the tree is unchanged as a listing -/
theorem rewrite_nothing_excluded (pre : List Nat) (l : List Tr) :
    listList (rwList (fun _ _ => false) pre l) = listList l := by
  rw [rwList_list]
  apply List.filter_eq_self.mpr
  intro e _
  have : ∀ (r pre : List Nat) (d : Bool), blocked (fun _ _ => false) pre r d = false := by
    intro r
    induction r with
    | nil => intro pre d; rfl
    | cons n r ih =>
      intro pre d
      cases r with
      | nil => rfl
      | cons m r' => simp [blocked, ih]
  simp [keep, this]

/-! ## repair snapshots -/

/-- (P1) On an undamaged repository (every tree readable, every directory has a subtree, every chunk of every
file indexed) `repair snapshots` leaves every snapshot as it is. -/
theorem repair_undamaged_unchanged (ix : Idx) (l : List RT) (h : goodList ix l = true) :
    repairRoot ix true l = none :=
  repair_good h

/-- (P2) A file that `repair` keeps without the suffix has exactly its original content, all of it indexed;
a file it marks keeps exactly the indexed part of its content, in order. -/
theorem repair_keeps_original (ix : Idx) (n k t s : Nat) (c : List Nat) :
    ∃ s' c' sfx', (repNode ix (.file n k t s c false)).1 = .file n k t s' c' sfx' ∧
      c' = c.filter (fun d => (ix d).isSome) ∧ (∀ d ∈ c', (ix d).isSome) ∧ (sfx' = false → c' = c) := by
  refine ⟨_, _, _, by simp only [repNode]; rfl, rfl, fun d hd => (List.mem_filter.mp hd).2, fun h => ?_⟩
  simp only [Bool.false_or, bne_eq_false_iff_eq] at h
  exact filter_eq_of_length h

/-- (P2a) The blob loop of `RepairState::process_node` AS WRITTEN (`blobLoop`: a missing blob sets `file_changed`, nothing
clears it) computes, for a content list of any length: flag = SOME blob is missing, content = the indexed blobs in
order, size = the sum of their `data_length`s — and `repNode` on a file is exactly that loop. -/
theorem repair_blob_loop_accumulates (ix : Idx) (c : List Nat) :
    blobLoop ix c = (c.any (fun d => !(ix d).isSome), c.filter (fun d => (ix d).isSome),
      ((c.filter (fun d => (ix d).isSome)).map (fun d => (ix d).getD 0)).sum) ∧
    ∀ n k t s sfx, repNode ix (.file n k t s c sfx) =
      (.file n k t (blobLoop ix c).2.2 (blobLoop ix c).2.1 (sfx || (blobLoop ix c).1), (blobLoop ix c).1) :=
  ⟨blobLoop_spec ix c, fun n k t s sfx => repNode_file_loop ix n k t s c sfx⟩

/-- (P2b) Partially lost files: a file with any number of chunks of which ANY non-empty subset is missing from the
index — the first, a middle one, the last, several, all — is marked with the suffix AND reported as changed (so its
tree is re-saved), and keeps exactly its indexed chunks in order, strictly fewer than before. -/
theorem repair_marks_partially_lost (ix : Idx) (n k t s : Nat) (c : List Nat) (h : ∃ d ∈ c, ix d = none) :
    ∃ s', repNode ix (.file n k t s c false) = (.file n k t s' (c.filter (fun d => (ix d).isSome)) true, true) ∧
      (c.filter (fun d => (ix d).isSome)).length < c.length := by
  obtain ⟨d, hd, hn⟩ := h
  have hany : c.any (fun d => !(ix d).isSome) = true := List.any_eq_true.mpr ⟨d, hd, by simp [hn]⟩
  have hne : ((c.filter (fun d => (ix d).isSome)).length != c.length) = true := by rw [filter_length_bne]; exact hany
  refine ⟨((c.filter (fun d => (ix d).isSome)).map (fun d => (ix d).getD 0)).sum, by simp only [repNode, hne, Bool.or_true], ?_⟩
  have hle := List.length_filter_le (fun d => (ix d).isSome) c
  have : (c.filter (fun d => (ix d).isSome)).length ≠ c.length := by simpa using hne
  omega

/-- (P2c) A file is kept unmarked (and unreported) exactly when every one of its chunks is indexed; the mark and the
reported change coincide. -/
theorem repair_unmarked_iff_complete (ix : Idx) (n k t s : Nat) (c : List Nat) :
    ((repNode ix (.file n k t s c false)).2 = false ↔ ∀ d ∈ c, (ix d).isSome = true) ∧
    ∃ s' c', (repNode ix (.file n k t s c false)).1 = .file n k t s' c' (repNode ix (.file n k t s c false)).2 := by
  refine ⟨?_, _, _, by simp only [repNode, Bool.false_or]; rfl⟩
  simp only [repNode, filter_length_bne, List.any_eq_false, Bool.not_eq_true', Bool.not_eq_false]

/-- Witness for the excluded behaviour (seeded change C12-4: `file_changed` ASSIGNED per blob, `blobLoopLastOnly`): a
three-chunk file whose first chunk is lost while the last survives comes out unflagged with two chunks — kept under
its name, silently truncated — whereas the loop as written flags it.  Replayed on the real code by the `repair.multi`
cases of harness/src/c12.rs (corpus/C12/repair_partially_lost_files.ops). -/
theorem repair_last_blob_only_keeps_truncated_file_unmarked :
    blobLoopLastOnly (fun d => if d = 0 then none else some 4096) [0, 1, 2] = (false, [1, 2], 8192) ∧
    blobLoop (fun d => if d = 0 then none else some 4096) [0, 1, 2] = (true, [1, 2], 8192) := by decide

/-- (P3) The same for whole snapshots: every file of the tree `repair` saves (`some t`) that is not marked with the
suffix is a file of the original tree at the same path with the same content list, and every chunk of it is
indexed; a snapshot repair leaves alone (`none`) has all chunks of all visible files indexed. -/
theorem repair_kept_files_keep_content (ix : Idx) (root : List RT) :
    (∀ t, repairRoot ix true root = some t → ∀ e ∈ filesList t, e.2.2 = false → e ∈ filesList root ∧ Indexed ix e) ∧
    (repairRoot ix true root = none → ∀ e ∈ filesList root, Indexed ix e) := by
  constructor
  · intro t ht e he hs
    simp only [repairRoot, Bool.not_true, Bool.false_eq_true, if_false, repList] at ht
    by_cases hh : (repNodes ix root).2 = true
    · simp only [hh, if_true, Option.some.injEq] at ht
      subst ht
      exact repNodes_kept ix root e he hs
    · simp [hh] at ht
  · intro h
    simp only [repairRoot, Bool.not_true, Bool.false_eq_true, if_false, repList] at h
    by_cases hh : (repNodes ix root).2 = true
    · simp [hh] at h
    · exact repNodes_unchanged_indexed ix root (by simpa using hh)

/-- (P4) Whole snapshots, exactly: the files visible in the tree `repair` saves are the files visible before, at the
same paths and in the same order, each with exactly its indexed chunks and marked iff it was marked already or SOME
chunk of it is missing (`repFile`) — at every depth, for files of any number of chunks and any set of lost chunks; a
snapshot left alone has no file that `repFile` would alter. -/
theorem repair_files_exact (ix : Idx) (root : List RT) :
    (∀ t, repairRoot ix true root = some t → filesList t = (filesList root).map (repFile ix)) ∧
    (repairRoot ix true root = none → (filesList root).map (repFile ix) = filesList root) := by
  have hl := repList_files ix root
  constructor
  · intro t ht
    simp only [repairRoot, Bool.not_true, Bool.false_eq_true, if_false] at ht
    split at ht
    · simp only [Option.some.injEq] at ht; subst ht; exact hl
    · simp at ht
  · intro h
    simp only [repairRoot, Bool.not_true, Bool.false_eq_true, if_false] at h
    split at h
    · simp at h
    · rename_i hh
      have : (repList ix root).1 = root := by
        simp only [repList] at hh ⊢
        split
        · rename_i h2; simp [h2] at hh
        · rfl
      rw [← hl, this]

/-- (P4') Hence a partially lost file is never left alone: if some chunk of a visible, unmarked file of the snapshot is
missing, `repair` replaces the snapshot, and the saved tree holds that file marked with exactly its indexed chunks. -/
theorem repair_partially_lost_file_is_marked (ix : Idx) (root : List RT) (p c : List Nat) (d : Nat)
    (he : (p, c, false) ∈ filesList root) (hd : d ∈ c) (hn : ix d = none) :
    ∃ t, repairRoot ix true root = some t ∧ (p, c.filter (fun d => (ix d).isSome), true) ∈ filesList t := by
  have hany : c.any (fun d => !(ix d).isSome) = true := List.any_eq_true.mpr ⟨d, hd, by simp [hn]⟩
  cases hr : repairRoot ix true root with
  | none =>
    have := (repair_kept_files_keep_content ix root).2 hr _ he d hd
    simp [hn] at this
  | some t =>
    refine ⟨t, rfl, ?_⟩
    rw [(repair_files_exact ix root).1 t hr]
    exact List.mem_map.mpr ⟨_, he, by simp only [repFile, hany, Bool.or_true]⟩

/-! ## copy -/

/-- (C1) After `copy` the destination holds every tree and every chunk reachable from the copied snapshots
(blobs already present are not copied again and stay) — for every source repository, including tree/data id
collisions (the indexer's set is typed since the repair 17c26ec). -/
theorem copy_restores_same (dst : Dest) (roots : List Nat) (reach : List CTree) :
    destComplete (copyStep dst roots reach) roots reach = true :=
  copy_complete dst roots reach

/-- (C1, whole run) `copy` of any snapshots into ANY destination — empty, complete, or holding an arbitrary subset of
the blobs, e.g. a snapshot's root tree but nothing below it (after `forget` + `prune` of a partly used pack, or after a
lost pack + `repair index`) — leaves every given snapshot completely readable from the destination: its tree blob,
every chunk of every file, every sub-tree at every depth.  `copyRun` starts the walk from the root trees of ALL
snapshots; `dst` is universally quantified, nothing is assumed about it. -/
theorem copy_restores_all (dst : Dest) (snaps : List STree) : ∀ s ∈ snaps, s.present (copyRun dst snaps) = true :=
  STree.presentL_mem (copyRun_presentL dst snaps)

/-- … and nothing the destination already held is dropped. -/
theorem copy_keeps_destination (dst : Dest) (snaps : List STree) :
    (∀ t ∈ dst.trees, t ∈ (copyRun dst snaps).trees) ∧ (∀ d ∈ dst.data, d ∈ (copyRun dst snaps).data) := by
  unfold copyRun copyStep
  exact ⟨fun t ht => List.mem_append_left _ ht, fun d hd => List.mem_append_left _ hd⟩

/-- Why the walk must not be restricted to the snapshots whose root tree is missing ("the destination has the root, so
it has everything below"): destination = root tree 1 only, snapshot = tree 1 → sub-tree 2 → chunk 5.  The shortcut
copies nothing and the saved snapshot is unreadable; `copyRun` completes it (seeded change C12-3; replayed on the real
code by the `H:lose` / `H:prune` destination histories of `c12 copy`). -/
theorem copy_walk_from_missing_roots_only_loses_content :
    let snap := STree.node 1 [] [.node 2 [5] []]
    snap.present (copyRunMissingRootsOnly ⟨[1], []⟩ [snap]) = false ∧ snap.present (copyRun ⟨[1], []⟩ [snap]) = true := by
  decide

/-! ### copy when the destination fails to store something (seeded change C12-7) -/

/-- (C1, write faults) Whatever writes the destination backend fails during a `copy` — any set of packs of either phase, whether
or not a failed pack is the one flushed by `copier.finalize()`, the index file, a snapshot file —: if `copy` (as written: every step
followed by `?`, the result of `finalize()` included) returns Ok, then every given snapshot is completely readable from the
destination.  "copy returns Err, or the destination is complete" — for every destination and every fault pattern. -/
theorem copy_ok_implies_complete (f : CopyFaults) (dst : Dest) (snaps : List STree) (d : Dest)
    (h : copyRunFaulty true f dst snaps = some d) : ∀ s ∈ snaps, s.present d = true := by
  rw [copyRunFaulty_checked_some h]
  exact copy_restores_all dst snaps

/-- … and a failed `copy` saves no snapshot (`none`), so nothing in the destination refers to a blob that was not stored; running the
same `copy` again without a fault completes the destination from WHATEVER the failed run left behind (`left`: any subset of the
blobs indexed, orphan packs do not matter) — `copy_restores_all` holds for every destination. -/
theorem copy_retry_completes (left : Dest) (snaps : List STree) : ∀ s ∈ snaps, s.present (copyRun left snaps) = true :=
  copy_restores_all left snaps

/-- without faults the run is `copyRun`, whether or not `finalize()` is checked -/
theorem copy_without_faults (c : Bool) (l1 l2 : Nat → Bool) (dst : Dest) (snaps : List STree) :
    copyRunFaulty c ⟨fun _ => false, fun _ => false, l1, l2, false, false⟩ dst snaps = some (copyRun dst snaps) := by
  simp [copyRunFaulty, copyPhase, copyRun, copyStep]

/-- Why the result of `copier.finalize()` must not be dropped: snapshot = tree 1 with chunk 5, empty destination, the destination
fails to store the (only, hence last) data pack.  As written `copy` returns an error and saves nothing; with the result of
`finalize()` dropped (seeded change C12-7) it returns Ok with the snapshot saved and its chunk missing.  Replayed on the real code by
the `H:fault` sweeps of `c12 copy` (every write of the destination failed in turn). -/
theorem copy_dropped_finalize_error_saves_unreadable_snapshot :
    let snap := STree.node 1 [5] []
    let f : CopyFaults := ⟨fun _ => true, fun _ => false, fun _ => true, fun _ => true, false, false⟩
    copyRunFaulty true f ⟨[], []⟩ [snap] = none ∧
    (copyRunFaulty false f ⟨[], []⟩ [snap]).map snap.present = some false := by
  decide

/-- DESIGN §7 #7: snapshot 1 = {src → {d → f, g}} where file `g`'s chunk id equals the id of tree `d` (id 3). -/
def collision : List CTree := [⟨1, [2], []⟩, ⟨2, [3], [3]⟩, ⟨3, [], [4]⟩]

/-- With the untyped id set of the code before 17c26ec the copy lost tree 3 (witness replayed on the real code by
corpus/C12/copy_collision.ops: it failed before the repair and passes now). -/
theorem copy_lost_tree_on_id_collision_before_fix :
    destComplete (copyStepUntyped ⟨[], []⟩ [1] collision) [1] collision = false ∧
    destComplete (copyStep ⟨[], []⟩ [1] collision) [1] collision = true := by
  refine ⟨by decide, by decide⟩

/-! ## non-vacuity -/

def leaf (n k t : Nat) : Tr := .node n k false t []
def dir (n k t : Nat) (s : List Tr) : Tr := .node n k true t s

/-- two sorted trees with an overlapping name of differing type (`2`: file in the first, directory in the
second) and a shared directory (`1`) -/
def tA : List Tr := [dir 1 10 0 [leaf 5 10 1], leaf 2 30 2]
def tB : List Tr := [dir 1 20 3 [leaf 5 25 4, leaf 6 20 5], dir 2 20 6 [leaf 7 20 7]]

example : AllSorted [tA, tB] := by
  intro t ht
  simp only [List.mem_cons, List.mem_nil_iff, or_false] at ht
  rcases ht with rfl | rfl <;> simp [Sorted, tA, tB, dir, leaf, Tr.name]

example : listList (mergeTrees 8 [tA, tB]) =
    [([1], true, 20, 3), ([1, 5], false, 25, 4), ([1, 6], false, 20, 5), ([2], false, 30, 2)] := by decide

example : listList (rwList (fun p d => p == [1, 5] || (p == [2] && d)) [] tB) =
    [([1], true, 20, 3), ([1, 6], false, 20, 5)] := by decide

example : TypedDisjoint ⟨[], []⟩ [1] [⟨1, [2], [7]⟩, ⟨2, [], [8]⟩] := by
  intro t ht hd
  revert ht hd
  simp [needTrees, needData]
  omega

/-- non-vacuity of the repair statements: a three-chunk file in a sub-directory losing its FIRST chunk (1) while the last
(3, shared with the one-chunk file next to it) survives: the file comes out marked with chunks 2,3; the neighbours stay. -/
example :
    filesList ((repairRoot (fun d => if d = 1 then none else some 64) true
      [.dir 7 0 0 0 [.file 1 0 0 192 [1, 2, 3] false, .file 2 0 0 64 [3] false], .file 9 0 0 128 [2, 2] false]).getD []) =
    [([7, 1], [2, 3], true), ([7, 2], [3], false), ([9], [2, 2], false)] := by
  simp [repairRoot, repList, repNodes, repNode, filesList, filesNode]

end Rustic.Props.C12
