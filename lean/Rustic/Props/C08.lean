/-
C08 — Pack files, their headers and the index always agree; the index is rebuildable.

Property theorems only (lemmas: `Rustic/Lemmas/Pack.lean`, `Rustic/Lemmas/Index.lean`; model:
`Rustic/Model/Pack.lean`).  Quantification: every blob list / every sequence of `add_raw` calls (any data,
ids, duplicates, compressed or not), every size hint, every encryption satisfying the two facts in `AE`
(`|encrypt x| = |x| + 32`, `decrypt ∘ encrypt = id`) — no size bound other than the format's own
(`u32` lengths: `WFBlob`, `packSize < 2^32`).

`fromFile` models `PackHeader::from_file` as repaired by the `fix:` commit in /repo (size hint clamped to the
pack; a pack shorter than the length field and an oversized length field are errors instead of `u32`
under/overflow).  Before the fix `parse_build` was false for every hint > pack size − 4 (witness:
corpus/C08/witnesses.ops, `panic:attempt_to_subtract_with_overflow` in checked builds, a wrapped offset →
read error → `repair_index` drops the intact pack in release builds).
-/
import Rustic.Lemmas.Pack
import Rustic.Lemmas.Index
import Rustic.Lemmas.PackWriter
import Rustic.Model.HotCold
import Rustic.Props.C17
import Rustic.Gen.Constants
namespace Rustic.Props.C08
open Rustic.Pack

/-- The entry lengths the code declares (`ENTRY_LEN = 37`, `ENTRY_LEN_COMPRESSED = 41`, regenerated from the
source on every run) are the lengths of what is actually written: magic + len (+ len_data) + id. -/
theorem entry_lengths (b : IndexBlob) :
    (encodeEntry b).length = entryLen b ∧
    Rustic.Gen.PACK_ENTRY_LEN = 1 + 4 + ID_LEN ∧ Rustic.Gen.PACK_ENTRY_LEN_COMPRESSED = 1 + 4 + 4 + ID_LEN :=
  ⟨encodeEntry_length b, by decide, by decide⟩

/-- `PackHeaderRef::size` is the length of the encrypted header: `to_binary` bytes + crypto overhead. -/
theorem header_size_is_encrypted_length (bs : List IndexBlob) :
    headerSize bs = (toBinary bs).length + Rustic.Gen.PACK_COMP_OVERHEAD := by
  rw [headerSize_eq, toBinary_length]; omega

/-- (1) Header round trip: parsing the written header gives back every entry — id, type, length,
uncompressed length, order — with the offsets recomputed cumulatively from 0. -/
theorem header_roundtrip (bs : List IndexBlob) (h : ∀ b ∈ bs, WFBlob b) :
    fromBinary (toBinary bs) = some (reoffset 0 bs) := fromBinary_toBinary bs h

/-- (2) Cumulative offsets are an invariant of `add_raw` for ANY sequence of adds (skipped duplicates
included): offsets are the running sum of the lengths from 0, `size` is their total, the file holds one chunk
per indexed blob of exactly the recorded length, all blobs have the packer's type, no id occurs twice. -/
theorem packer_offsets_cumulative (t : BlobType) (adds : List (Bytes × Nat × Option Nat)) :
    ((Packer.new t).run adds).Inv := Packer.run_inv _ (Packer.new_inv t) adds

/-- (2') … and the byte range `[offset, offset+length)` the index records for the `i`-th blob holds exactly the `i`-th
chunk that was written (the data of the `i`-th accepted `add_raw`). -/
theorem packer_blob_bytes (t : BlobType) (adds : List (Bytes × Nat × Option Nat)) (i : Nat) (b : IndexBlob) (c : Bytes)
    (hb : ((Packer.new t).run adds).blobs[i]? = some b) (hc : ((Packer.new t).run adds).file[i]? = some c) :
    ((((Packer.new t).run adds).file.flatten.drop b.loc.offset).take b.loc.length) = c :=
  (packer_offsets_cumulative t adds).blob_bytes i b c hb hc

/-- (1+2) so the header of any pack the packer writes parses back to exactly the blob list that goes to
the index. -/
theorem packer_header_roundtrip (t : BlobType) (adds : List (Bytes × Nat × Option Nat))
    (hwf : ∀ b ∈ ((Packer.new t).run adds).blobs, WFBlob b) :
    fromBinary ((Packer.new t).run adds).headerBytes = some ((Packer.new t).run adds).blobs := by
  rw [Packer.headerBytes, fromBinary_toBinary _ hwf, (packer_offsets_cumulative t adds).offsets]

/-- (3) The pack's byte length is the size the index computes for it (`IndexPack::pack_size` of an entry
without `size` field = `PackHeaderRef::pack_size`), using only `|encrypt x| = |x| + 32`. -/
theorem pack_bytes_length (enc : Bytes → Bytes)
    (hlen : ∀ x, (enc x).length = x.length + Rustic.Gen.PACK_COMP_OVERHEAD)
    (t : BlobType) (adds : List (Bytes × Nat × Option Nat)) :
    (((Packer.new t).run adds).finish enc).1.length = packSize (((Packer.new t).run adds).finish enc).2 ∧
    (({ id := 0, blobs := (((Packer.new t).run adds).finish enc).2, size := none } : Rustic.Index.IndexPack).packSize
      = (((Packer.new t).run adds).finish enc).1.length) := by
  have h := finish_length enc hlen _ (packer_offsets_cumulative t adds)
  exact ⟨h, h.symm⟩

/-- (4) parse(build) = blobs for EVERY size hint — none, too small (second read), exact, too large, larger
than the pack — using only the two `AE` facts. -/
theorem parse_build (enc : Bytes → Bytes) (dec : Bytes → Option Bytes) (ae : AE enc dec)
    (t : BlobType) (adds : List (Bytes × Nat × Option Nat))
    (hwf : ∀ b ∈ ((Packer.new t).run adds).blobs, WFBlob b)
    (hfit : packSize ((Packer.new t).run adds).blobs < 4294967296) (hint : Option Nat) :
    fromFile dec (((Packer.new t).run adds).finish enc).1 hint
        (((Packer.new t).run adds).finish enc).1.length
      = .ok (((Packer.new t).run adds).finish enc).2 := by
  have hinv := packer_offsets_cumulative t adds
  rw [finish_length enc ae.len _ hinv]
  exact fromFile_finish enc dec ae _ hinv hwf hfit hint

/-- header size of a pack whose blobs are all compressed: the crypto overhead plus one 41-byte entry per blob -/
theorem headerSize_all_compressed (bs : List IndexBlob) (hc : ∀ b ∈ bs, b.loc.ulen ≠ none) :
    headerSize bs = Rustic.Gen.PACK_COMP_OVERHEAD + bs.length * Rustic.Gen.PACK_ENTRY_LEN_COMPRESSED := by
  have key : ∀ (l : List IndexBlob) (acc : Nat), (∀ b ∈ l, b.loc.ulen ≠ none) →
      l.foldl (fun acc b => acc + entryLen b) acc = acc + l.length * Rustic.Gen.PACK_ENTRY_LEN_COMPRESSED := by
    intro l
    induction l with
    | nil => intro acc _; simp
    | cons b l ih =>
      intro acc h
      have hb : entryLen b = Rustic.Gen.PACK_ENTRY_LEN_COMPRESSED := by
        unfold entryLen
        cases hu : b.loc.ulen with
        | none => exact absurd hu (h b (List.mem_cons_self ..))
        | some _ => rfl
      rw [List.foldl_cons, ih _ (fun x hx => h x (List.mem_cons_of_mem _ hx)), hb, List.length_cons]
      rw [Nat.add_mul, Nat.one_mul]; omega
  exact key bs _ hc

/-- (4-full) The FULLEST pack the packer writes: `PACKER_MAX_COUNT` blobs (the count limit of `BasicPacker::should_save`,
regenerated from `blob/packer.rs`), every one compressed — so its header is the largest there is,
`PACK_COMP_OVERHEAD + PACKER_MAX_COUNT · PACK_ENTRY_LEN_COMPRESSED` (410,032 bytes with the constants 32 / 10,000 / 41; strictly more than
`COMP_OVERHEAD + MAX_COUNT · ENTRY_LEN`, the bound seed C08-4 put into `from_file` — third conjunct) — is read back by `from_file` for EVERY size
hint.  Corollary of `parse_build`; replayed on the real `from_file` by the `packn … max … c` cases and on a real repository by
`repair fullpack`. -/
theorem full_pack_header_parses (enc : Bytes → Bytes) (dec : Bytes → Option Bytes) (ae : AE enc dec)
    (t : BlobType) (adds : List (Bytes × Nat × Option Nat))
    (hfull : ((Packer.new t).run adds).blobs.length = Rustic.Gen.PACKER_MAX_COUNT)
    (hcomp : ∀ b ∈ ((Packer.new t).run adds).blobs, b.loc.ulen ≠ none)
    (hwf : ∀ b ∈ ((Packer.new t).run adds).blobs, WFBlob b)
    (hfit : packSize ((Packer.new t).run adds).blobs < 4294967296) (hint : Option Nat) :
    fromFile dec (((Packer.new t).run adds).finish enc).1 hint (((Packer.new t).run adds).finish enc).1.length
        = .ok (((Packer.new t).run adds).finish enc).2 ∧
    headerSize (((Packer.new t).run adds).finish enc).2
        = Rustic.Gen.PACK_COMP_OVERHEAD + Rustic.Gen.PACKER_MAX_COUNT * Rustic.Gen.PACK_ENTRY_LEN_COMPRESSED ∧
    Rustic.Gen.PACK_COMP_OVERHEAD + Rustic.Gen.PACKER_MAX_COUNT * Rustic.Gen.PACK_ENTRY_LEN
        < headerSize (((Packer.new t).run adds).finish enc).2 := by
  have hs : headerSize ((Packer.new t).run adds).blobs
      = Rustic.Gen.PACK_COMP_OVERHEAD + Rustic.Gen.PACKER_MAX_COUNT * Rustic.Gen.PACK_ENTRY_LEN_COMPRESSED := by
    rw [headerSize_all_compressed _ hcomp, hfull]
  refine ⟨parse_build enc dec ae t adds hwf hfit hint, hs, ?_⟩
  show _ < headerSize ((Packer.new t).run adds).blobs
  rw [hs]
  decide

/-- (4') Whatever `from_file` accepts is consistent with the sizes it was given: the blobs it returns compute
to exactly the stated pack size (so a header can never be accepted for a file of a different length). -/
theorem from_file_ok_sizes (dec : Bytes → Option Bytes) (file : Bytes) (hint : Option Nat) (ps : Nat)
    (bl : List IndexBlob) (h : fromFile dec file hint ps = .ok bl) : packSize bl = ps := by
  unfold fromFile at h
  split at h
  · cases h
  · simp only at h
    split at h
    · cases h
    · split at h
      · cases h
      · split at h
        · cases h
        · split at h
          · cases h
          · split at h
            · cases h
            · split at h
              · cases h
              · split at h
                · cases h
                · rename_i hps
                  cases h
                  exact Classical.byContradiction fun hne => hps hne

/-- (4b) `from_file` never accepts a header for a file of another size: whatever the file, the hint and the claimed pack size,
a blob list whose computed pack size differs from the size given is not returned (contrapositive of `from_file_ok_sizes`; the
size comparison is `≠`, not `>`: seed C04-7 accepted every file LARGER than its header describes). -/
theorem from_file_rejects_other_size (dec : Bytes → Option Bytes) (file : Bytes) (hint : Option Nat) (ps : Nat)
    (bl : List IndexBlob) (hne : packSize bl ≠ ps) : fromFile dec file hint ps ≠ .ok bl :=
  fun h => hne (from_file_ok_sizes dec file hint ps bl h)

/-- (4c) A pack EXTENDED AT ITS FRONT is refused.  The header sits at the END of the pack and records only the blob LENGTHS
(offsets are implied, back to back from 0), so after putting ANY non-empty prefix in front of a pack the packer wrote, the file
still ends in the intact, authenticated header — `from_file`, called with the new true file size (as `repair index` and
`to_indexed_checked` call it), finds and decrypts that header for EVERY size hint, and the ONLY thing that refuses the file is
the size comparison: the result is the pack-size error, never a blob list (whose offsets would all be wrong for this file).
Prefix = junk, a copy of the first blob, the whole pack (`pre = file`: the pack duplicated) … all covered.  Replayed on the
real `from_file` by the `F<k>` / `FB` / `FP` reads of the `pack` / `packn` channel; end to end by `c04 tamper front`. -/
theorem from_file_rejects_front_extended (enc : Bytes → Bytes) (dec : Bytes → Option Bytes) (ae : AE enc dec)
    (t : BlobType) (adds : List (Bytes × Nat × Option Nat))
    (hwf : ∀ b ∈ ((Packer.new t).run adds).blobs, WFBlob b) (pre : Bytes) (hpre : pre ≠ [])
    (hfit : (pre ++ (((Packer.new t).run adds).finish enc).1).length < 4294967296) (hint : Option Nat) :
    fromFile dec (pre ++ (((Packer.new t).run adds).finish enc).1) hint (pre ++ (((Packer.new t).run adds).finish enc).1).length
      = .error .packSize := by
  have hinv := packer_offsets_cumulative t adds
  rw [List.length_append, finish_length enc ae.len _ hinv] at hfit ⊢
  exact fromFile_front_extended enc dec ae _ hinv hwf pre hpre hfit hint

/-- (4d) the pack duplicated (`file ++ file`) is the front extension by the whole pack -/
theorem from_file_rejects_duplicated_pack (enc : Bytes → Bytes) (dec : Bytes → Option Bytes) (ae : AE enc dec)
    (t : BlobType) (adds : List (Bytes × Nat × Option Nat))
    (hwf : ∀ b ∈ ((Packer.new t).run adds).blobs, WFBlob b)
    (hfit : 2 * packSize ((Packer.new t).run adds).blobs < 4294967296) (hint : Option Nat) :
    let file := (((Packer.new t).run adds).finish enc).1
    fromFile dec (file ++ file) hint (file ++ file).length = .error .packSize := by
  intro file
  have hinv := packer_offsets_cumulative t adds
  have hl : file.length = packSize ((Packer.new t).run adds).blobs := finish_length enc ae.len _ hinv
  have hpos : 0 < packSize ((Packer.new t).run adds).blobs := by
    rw [packSize_eq]; simp only [Rustic.Gen.PACK_COMP_OVERHEAD, Rustic.Gen.PACK_LENGTH_LEN]; omega
  apply from_file_rejects_front_extended enc dec ae t adds hwf file
  · intro h0; rw [h0] at hl; simp at hl; omega
  · rw [List.length_append, hl]; omega

/-- (5) Rebuilding the index from the pack headers gives the same lookups: if the index listed exactly the
packs (in any order), and the rebuilt index lists for each pack what `from_file` reads from it (with any size
hint), then presence, lookup success and totals agree for every mode, type and id — whichever sorted
permutations the two loads produce (C17's `Loaded`). -/
theorem rebuild_index_lookup_equiv (enc : Bytes → Bytes) (dec : Bytes → Option Bytes) (ae : AE enc dec)
    (packs : List (Nat × BlobType × List (Bytes × Nat × Option Nat)))
    (hwf : ∀ q ∈ packs, ∀ b ∈ ((Packer.new q.2.1).run q.2.2).blobs, WFBlob b)
    (hfit : ∀ q ∈ packs, packSize ((Packer.new q.2.1).run q.2.2).blobs < 4294967296)
    (hints : Nat → Option Nat)
    (listedPacks rebuilt : List Rustic.Index.IndexPack)
    (hlisted : listedPacks.Perm (packs.map fun q =>
      { id := q.1, blobs := ((Packer.new q.2.1).run q.2.2).blobs, size := none }))
    (hrebuilt : rebuilt = packs.map fun q =>
      { id := q.1, size := none
        blobs := match fromFile dec (((Packer.new q.2.1).run q.2.2).finish enc).1 (hints q.1)
                    (((Packer.new q.2.1).run q.2.2).finish enc).1.length with
                 | .ok bl => bl
                 | .error _ => [] })
    (m : Rustic.Index.IndexType) (i i' : Rustic.Index.Index)
    (h : i.IsIndexOf ((Rustic.Index.Collector.new m).extend listedPacks))
    (h' : i'.IsIndexOf ((Rustic.Index.Collector.new m).extend rebuilt))
    (t : BlobType) (id : Nat) :
    i.has t id = i'.has t id ∧ (i.getId t id).isSome = (i'.getId t id).isSome ∧
      i.totalSize t = i'.totalSize t := by
  have : rebuilt = packs.map fun q =>
      ({ id := q.1, blobs := ((Packer.new q.2.1).run q.2.2).blobs, size := none } : Rustic.Index.IndexPack) := by
    rw [hrebuilt]
    apply List.map_congr_left
    intro q hq
    rw [parse_build enc dec ae q.2.1 q.2.2 (hwf q hq) (hfit q hq)]
    rfl
  rw [← this] at hlisted
  exact Rustic.Index.answers_of_perm hlisted h h' t id

/-- the packs a repository stores, for the `repair_index` theorem: id, type and the add sequence that built it -/
abbrev Built := Nat × BlobType × List (Bytes × Nat × Option Nat)

def Built.packer (q : Built) : Packer := (Packer.new q.2.1).run q.2.2
def Built.file (enc : Bytes → Bytes) (q : Built) : Bytes := (q.packer.finish enc).1

/-- (6) The index is rebuildable — for ALL subsets of index files removed before `repair_index` (incl. all of them):
let `packs` be the stored packs (any packer output, distinct ids), `files` ANY set of index files that do not mark
packs for deletion and whose entries agree with the packs they name (e.g. what is left of a consistent index after
deleting index files), `readHeader` = `PackHeader::from_file` on the stored files.  Then the repaired index lists
exactly the stored packs with the blobs of their headers, so a lookup `(t, id)` is listed in an unmarked pack iff some
stored pack contains that blob — the same answers the complete index gave (C17 `has_iff` / `get_succeeds_iff` turn this
into equal `has` / `get_id` results, hence every snapshot restores identically). -/
theorem index_rebuildable (enc : Bytes → Bytes) (dec : Bytes → Option Bytes) (ae : AE enc dec)
    (packs : List Built)
    (hids : (packs.map (·.1)).Nodup)
    (hwf : ∀ q ∈ packs, ∀ b ∈ q.packer.blobs, WFBlob b)
    (hfit : ∀ q ∈ packs, packSize q.packer.blobs < 4294967296)
    (files : List Rustic.Index.IndexFile)
    (hnomark : ∀ f ∈ files, f.packsToDelete = [])
    (hcons : ∀ f ∈ files, ∀ p ∈ f.packs, ∀ q ∈ packs, q.1 = p.id → p.blobs = q.packer.blobs ∧ p.packSize = (q.file enc).length)
    (readHeader : Nat → Option Nat → Nat → Option (List IndexBlob))
    (hread : ∀ q ∈ packs, ∀ hint, readHeader q.1 hint (q.file enc).length =
      (fromFile dec (q.file enc) hint (q.file enc).length).toOption)
    (t : BlobType) (id : Nat) :
    Rustic.Props.C17.ListedUnmarked
        (Rustic.Index.repairIndex readHeader (packs.map fun q => (q.1, (q.file enc).length)) files false) t id ↔
      ∃ q ∈ packs, ∃ b ∈ q.packer.blobs, b.tpe = t ∧ b.id = id := by
  -- the header of every stored pack
  let blobsOf : Nat → List IndexBlob := fun i =>
    match packs.find? (fun q => q.1 == i) with
    | some q => q.packer.blobs
    | none => []
  have hblobs : ∀ q ∈ packs, blobsOf q.1 = q.packer.blobs := by
    intro q hq
    simp only [blobsOf]
    have : packs.find? (fun x => x.1 == q.1) = some q := find_by_fst packs hids q hq
    rw [this]
  have hstoreNd : ((packs.map fun q => (q.1, (q.file enc).length)).map (·.1)).Nodup := by
    simpa [List.map_map, Function.comp_def] using hids
  have hspec := Rustic.Index.repairIndex_spec readHeader (packs.map fun q => (q.1, (q.file enc).length)) blobsOf files
    hstoreNd
    (by
      intro e he hint
      obtain ⟨q, hq, rfl⟩ := List.mem_map.mp he
      simp only
      rw [hread q hq hint, hblobs q hq]
      have := parse_build enc dec ae q.2.1 q.2.2 (hwf q hq) (hfit q hq) hint
      simp only [Built.file, Built.packer] at this ⊢
      rw [this]; rfl)
    (by
      intro f hf p hp e he hid
      obtain ⟨q, hq, rfl⟩ := List.mem_map.mp he
      simp only at hid ⊢
      have hpk : p ∈ f.packs := by
        rcases hp with h | h
        · exact h
        · rw [hnomark f hf] at h; cases h
      obtain ⟨h1, h2⟩ := hcons f hf p hpk q hq hid
      exact ⟨by rw [h1, ← hid, hblobs q hq], h2⟩)
  have hnm := Rustic.Index.repairIndex_noMarks readHeader (packs.map fun q => (q.1, (q.file enc).length)) files false hnomark
  generalize Rustic.Index.repairIndex readHeader (packs.map fun q => (q.1, (q.file enc).length)) files false = R at hspec hnm
  obtain ⟨hsound, hcover⟩ := hspec
  constructor
  · rintro ⟨f, hf, p, hp, b, hb, ht, hid⟩
    obtain ⟨⟨e, he, heid⟩, hpb⟩ := hsound p ⟨f, hf, Or.inl hp⟩
    obtain ⟨q, hq, rfl⟩ := List.mem_map.mp he
    simp only at heid
    refine ⟨q, hq, b, ?_, ht, hid⟩
    rw [← hblobs q hq, heid, ← hpb]; exact hb
  · rintro ⟨q, hq, b, hb, ht, hid⟩
    obtain ⟨p, ⟨f, hf, hp⟩, hpid⟩ := hcover (q.1, (q.file enc).length) (List.mem_map.mpr ⟨q, hq, rfl⟩)
    simp only at hpid
    have hpk : p ∈ f.packs := by
      rcases hp with h | h
      · exact h
      · rw [hnm f hf] at h; cases h
    obtain ⟨_, hpb⟩ := hsound p ⟨f, hf, Or.inl hpk⟩
    refine ⟨f, hf, p, hpk, b, ?_, ht, hid⟩
    rw [hpb, hpid, hblobs q hq]; exact hb

/-! ### non-vacuity -/

/-- a toy `AE` instance: the hypotheses are satisfiable -/
def exEnc (x : Bytes) : Bytes := List.replicate 16 0 ++ x ++ List.replicate 16 0
def exDec (c : Bytes) : Option Bytes := some ((c.drop 16).take (c.length - 32))

example : AE exEnc exDec :=
  ⟨fun x => by simp [exEnc, Rustic.Gen.PACK_COMP_OVERHEAD],
   fun x => by simp [exEnc, exDec, List.take_left']⟩

/-! ### (7) ORDER: a pack reaches the indexer — and any index file — only after its bytes were written

Model `Model/PackWriter.lean`: the two `RawPacker`s (tree, data) with their writer actors and the shared `Indexer`, as a
transition system whose events are the packer calls (`add_raw` with ANY size limit / age = every flush point, `finalize`),
the actor stages (`process` = hash + `write_bytes`, which may fail; `index` = `Indexer::add`, which saves an index file on
its own after `INDEXER_MAX_COUNT` blobs or `MAX_AGE`, and that save may fail) and `Indexer::finalize`, in ANY interleaving.
`log` is what the backend sees (pack and index file writes with their outcome) plus every `indexer.add`. -/
open Rustic.PackWriter in
/-- For every event sequence (all add sequences, flush points, interleavings of the stages of both packers, failing pack
and index writes): every `indexer.add(p)` and every index file write listing `p` is preceded in the log by a SUCCESSFUL
`write_bytes(Pack, p.id, file)` whose length is the size the index entry computes (`IndexPack::pack_size`).  `Ordered` is
the predicate the harness's `order` oracle evaluates on the recorded `MemBackend` log of real commands. -/
theorem index_only_after_write (enc : Bytes → Bytes) (hash : Bytes → Nat)
    (hlen : ∀ x, (enc x).length = x.length + Rustic.Gen.PACK_COMP_OVERHEAD) (evs : List Ev) :
    Ordered (run enc hash St.init evs).log := by
  rw [ordered_iff]
  exact (inv_run evs _ (init_inv enc hash)).ordered.imp (fun _ _ h => h.written hlen)

open Rustic.PackWriter in
/-- … and it is the very file: what was written under `p.id` hashes to `p.id`, has the recorded size, `p` carries no
explicit `size` field, and (`parse_build`) its header read back by `PackHeader::from_file` with ANY size hint gives exactly
`p.blobs` — for packs handed to the indexer and for every pack listed by any index file write, failed or not. -/
theorem indexed_pack_is_the_written_file (enc : Bytes → Bytes) (hash : Bytes → Nat) (dec : Bytes → Option Bytes)
    (ae : AE enc dec) (evs : List Ev) (pre post : List Log) (e : Log)
    (hlog : (run enc hash St.init evs).log = pre ++ e :: post) (p : Rustic.Index.IndexPack)
    (hp : e = .indexAdd p ∨ ∃ packs ok, e = .indexWrite packs ok ∧ p ∈ packs) :
    ∃ file, Log.packWrite p.id file true ∈ pre ∧ p.id = hash file ∧ file.length = p.packSize ∧ p.size = none ∧
      ((∀ b ∈ p.blobs, WFBlob b) → packSize p.blobs < 4294967296 →
        ∀ hint, fromFile dec file hint file.length = .ok p.blobs) := by
  have hinv := (inv_run evs _ (init_inv enc hash)).ordered pre e post hlog
  have hb : Backed enc hash pre p := by
    rcases hp with rfl | ⟨packs, ok, rfl, hmem⟩
    · exact hinv
    · exact hinv p hmem
  obtain ⟨file, hbuilt, hmem, hid, hsz⟩ := hb
  refine ⟨file, hmem, hid, ?_, hsz, ?_⟩
  · rw [hbuilt.length ae.len, Rustic.Index.IndexPack.packSize, hsz]
  · intro hwf hfit hint
    have hl := hbuilt.length ae.len
    obtain ⟨q, hq, rfl, hblobs⟩ := hbuilt
    rw [hl, hblobs]
    rw [hblobs] at hwf hfit
    exact fromFile_finish enc dec ae q hq hwf hfit hint

open Rustic.PackWriter in
/-- (7') … and without faults nothing is left out: for every fault-free event sequence followed by the end of the command
(`data_packer.finalize()`, `tree_packer.finalize()`, `indexer.finalize()`), every pack write in the log succeeded and its
pack is listed by a successfully written index file — packs written = packs indexed (with `index_only_after_write`:
the index files list exactly the stored packs). -/
theorem finalize_indexes_every_written_pack (enc : Bytes → Bytes) (hash : Bytes → Nat) (evs : List Ev)
    (hev : ∀ e ∈ evs, e.faultFree = true) (id : Nat) (file : Bytes) (ok : Bool)
    (hw : Log.packWrite id file ok ∈ (finalizeAll enc hash (run enc hash St.init evs)).log) :
    ok = true ∧ ∃ packs, Log.indexWrite packs true ∈ (finalizeAll enc hash (run enc hash St.init evs)).log ∧
      ∃ p ∈ packs, p.id = id := by
  obtain ⟨hl, hd⟩ := finalizeAll_live (enc := enc) (hash := hash) (live_run evs hev St.init init_live)
  have hok : ok = true := by
    cases ok with
    | true => rfl
    | false => exact absurd rfl ((hl.noFault _ hw).1 id file)
  subst hok
  refine ⟨rfl, ?_⟩
  rcases hl.acc id file hw with ⟨t, p, hp, _⟩ | ⟨p, hp, hid⟩ | h3
  · rw [hd t] at hp; cases hp
  · unfold finalizeAll at hp ⊢
    simp only at hp ⊢
    obtain ⟨packs, hpk, hpp⟩ := finalizeIndexer_covers _ p hp
    exact ⟨packs, hpk, p, hpp, hid⟩
  · exact h3

set_option maxRecDepth 10000 in
open Rustic.PackWriter in
/-- The order matters (seeded change C08-2): with `process` handing the pack to the indexer BEFORE `write_bytes`
(`stepSwapped`), one add, a flush, a failing pack write and `Indexer::finalize` leave an index file write that lists a pack
which was never stored — the log is not `Ordered`; the same events through the real order write no index file at all. -/
theorem swapped_order_breaks_it :
    let evs : List Ev := [.add .data [1, 2, 3] 7 none 1000 false, .flush .data, .write .data true, .finalizeIndexer false]
    ¬ Ordered (evs.foldl (stepSwapped exEnc List.length) St.init).log ∧
      ((evs.foldl (stepSwapped exEnc List.length) St.init).log.any fun e => match e with
        | .indexWrite [p] true => p.id == 76 && p.blobs == [⟨7, .data, ⟨0, 3, none⟩⟩]
        | _ => false) = true ∧
      ((run exEnc List.length St.init evs).log.all fun e => match e with
        | .packWrite 76 _ false => true
        | _ => false) = true := by
  refine ⟨?_, by decide, by decide⟩
  rw [ordered_iff_check]
  decide

/-- the pack writer on two adds (one per lane), then the end of the command: two pack writes, each followed by its
`indexer.add`, and one index file listing both packs — `Ordered`, nothing failing -/
example :
    let s := Rustic.PackWriter.finalizeAll exEnc List.length (Rustic.PackWriter.run exEnc List.length Rustic.PackWriter.St.init
      [.add .data [1, 2, 3] 7 none 1000 false, .add .tree [4] 8 none 1000 false])
    Rustic.PackWriter.orderedFrom [] s.log = true ∧ s.log.length = 5 ∧
      (s.log.any fun e => match e with | .indexWrite [_, _] true => true | _ => false) = true := by decide
/-- two blobs and a skipped duplicate; header is 32 + 37 + 41, pack is 3 + 5 + header + 4 -/
def exAdds : List (Bytes × Nat × Option Nat) := [([1, 2, 3], 7, none), ([9], 7, none), ([4, 5, 6, 7, 8], 300, some 77)]

example : ((Packer.new .data).run exAdds).blobs =
    [⟨7, .data, ⟨0, 3, none⟩⟩, ⟨300, .data, ⟨3, 5, some 77⟩⟩] := by decide
example : ((((Packer.new .data).run exAdds).finish exEnc).1.length = 3 + 5 + (32 + 37 + 41) + 4) := by decide
set_option maxRecDepth 10000 in
example : (fromFile exDec (((Packer.new .data).run exAdds).finish exEnc).1 (some 5) 122).toOption =
    some [⟨7, .data, ⟨0, 3, none⟩⟩, ⟨300, .data, ⟨3, 5, some 77⟩⟩] := by decide
set_option maxRecDepth 10000 in
example : (fromFile exDec (((Packer.new .data).run exAdds).finish exEnc).1 (some 100000) 122).toOption =
    some [⟨7, .data, ⟨0, 3, none⟩⟩, ⟨300, .data, ⟨3, 5, some 77⟩⟩] := by decide
set_option maxRecDepth 10000 in
example : (fromFile exDec (((Packer.new .data).run exAdds).finish exEnc).1 none 121).toOption = none := by decide
/-- is the verdict the pack-size error? -/
def isPackSizeErr (r : Except FileErr (List IndexBlob)) : Bool :=
  match r with
  | .error .packSize => true
  | _ => false

set_option maxRecDepth 10000 in
/-- the same toy pack with one junk byte, with a copy of its first blob, and with itself in front: refused (pack-size error) -/
example : isPackSizeErr (fromFile exDec ([9] ++ (((Packer.new .data).run exAdds).finish exEnc).1) none 123) = true ∧
    isPackSizeErr (fromFile exDec ([1, 2, 3] ++ (((Packer.new .data).run exAdds).finish exEnc).1) (some 110) 125) = true ∧
    isPackSizeErr (fromFile exDec ((((Packer.new .data).run exAdds).finish exEnc).1 ++ (((Packer.new .data).run exAdds).finish exEnc).1)
      none 244) = true := by decide
example : fromBinary (toBinary [⟨5, .tree, ⟨99, 40, none⟩⟩, ⟨6, .data, ⟨7, 2, some 9⟩⟩]) =
    some [⟨5, .tree, ⟨0, 40, none⟩⟩, ⟨6, .data, ⟨40, 2, some 9⟩⟩] := by decide
/-- truncated entry, unknown magic, `len_data = 0` -/
example : fromBinary ((toBinary [⟨5, .tree, ⟨0, 40, none⟩⟩]).take 36) = none ∧ fromBinary [7] = none ∧
    fromBinary (2 :: (le32 8 ++ le32 0 ++ beBytes 32 1)) = some [⟨1, .data, ⟨0, 8, none⟩⟩] := by decide

/-! ### Round 3: pack-header reads on a hot/cold repository, and the dry run of `repair_index` -/

open Rustic.HotCold Rustic.Backends in
/-- (C08-6) `PackHeader::from_file` reads with `cacheable = false`, so `HotColdBackend::read_partial` never routes a header
read to the hot part — for tree packs and data packs alike. -/
theorem header_read_never_routed_to_hot (t : BlobType) : usesHot FileType.pack (headerReadCacheable t) = false := rfl

open Rustic.HotCold Rustic.Backends in
/-- … hence, WHATEVER the hot part holds (it holds tree packs only), a header read on a hot/cold repository returns what
the cold store alone (a single-store repository) returns: `repair_index` on hot/cold sees every pack of the cold store. -/
theorem header_read_on_hotcold_eq_cold (s : HC) (t : BlobType) (id : Name) (off len : Nat) :
    HotCold.readPartial s FileType.pack id (headerReadCacheable t) off len = singleReadPartial s FileType.pack id off len := by
  simp [HotCold.readPartial, singleReadPartial, usesHot, headerReadCacheable]

open Rustic.HotCold Rustic.Backends in
/-- … and it is the very ranged read `fromFile` (the model of `PackHeader::from_file`) performs on the pack file of the cold
store (`Pack.readPartial file`), so `parse_build` / `index_rebuildable` speak about header reads on hot/cold repositories too. -/
theorem header_read_on_hotcold_reads_cold_file (s : HC) (t : BlobType) (id : Name) (file : Rustic.Pack.Bytes) (off len : Nat)
    (hcold : s.cold (FileType.pack, id) = some file) :
    HotCold.readPartial s FileType.pack id (headerReadCacheable t) off len =
      (match Rustic.Pack.readPartial file off len with | some d => Res.ok d | none => Res.err) := by
  simp only [HotCold.readPartial, usesHot, headerReadCacheable, hcold, slice, Rustic.Pack.readPartial]
  by_cases h : off + len ≤ List.length file <;> simp [h]

open Rustic.HotCold Rustic.Backends in
/-- the same at the level of the command: let `rd hot` be the header read (`from_file`) served by the hot (`true`) / cold
(`false`) part; `repair_index` on hot/cold — every read routed by `usesHot` with the flag `from_file` passes — computes the
index files `repair_index` computes on the cold store alone, whatever type `tpeOf` the packs have. -/
theorem repair_index_hotcold_eq_cold (rd : Bool → Nat → Option Nat → Nat → Option (List IndexBlob)) (tpeOf : Nat → BlobType)
    (store : List (Nat × Nat)) (files : List Rustic.Index.IndexFile) (readAll dry : Bool) :
    Rustic.Index.repairIndexD dry (fun id hint sz => rd (usesHot FileType.pack (headerReadCacheable (tpeOf id))) id hint sz)
        store files readAll =
      Rustic.Index.repairIndexD dry (rd false) store files readAll := rfl

open Rustic.HotCold Rustic.Backends in
/-- blob reads: data blobs come from the cold store, tree blobs from the hot part (`BlobType::is_cacheable`). -/
theorem blob_read_routing (s : HC) (id : Name) (off len : Nat) :
    HotCold.readPartial s FileType.pack id (blobReadCacheable .data) off len = singleReadPartial s FileType.pack id off len ∧
    HotCold.readPartial s FileType.pack id (blobReadCacheable .tree) off len = slice (s.hot (FileType.pack, id)) off len := by
  simp [HotCold.readPartial, singleReadPartial, usesHot, blobReadCacheable]

open Rustic.HotCold Rustic.Backends in
/-- counter-model (seeded change C08-6: header reads with `cacheable = true`): a data pack that is stored in the cold part
only — as every data pack is — cannot be read, while the non-cacheable read of the code succeeds. -/
theorem cacheable_header_read_misses_data_pack :
    ∃ (s : HC) (id : Name), s.hot (FileType.pack, id) = none ∧
      HotCold.readPartial s FileType.pack id true 0 1 = .err ∧
      HotCold.readPartial s FileType.pack id (headerReadCacheable .data) 0 1 = .ok [7] := by
  refine ⟨{ hot := fun _ => none, cold := SpecMap.write (fun _ => none) (FileType.pack, ['a']) [7] }, ['a'], ?_, ?_, ?_⟩ <;> decide

/-- the in-memory rebuild (`Repository::to_indexed_checked` = `index_checked_from_collector`, model `checkedPacks`): whenever it
succeeds, it indexes exactly the unmarked listings of the index files `repair_index` would write (same packs, blobs, order) — for
every store, every damaged set of index files, every header-read function; so `index_rebuildable` describes it as well. -/
theorem checked_index_eq_repaired_index (readHeader : Nat → Option Nat → Nat → Option (List IndexBlob)) (store : List (Nat × Nat))
    (files : List Rustic.Index.IndexFile) (ps : List Rustic.Index.IndexPack)
    (h : Rustic.Index.checkedPacks readHeader store files = some ps) :
    ps = Rustic.Index.unmarked (Rustic.Index.repairIndex readHeader store files false) :=
  Rustic.Index.checkedPacks_eq_repaired readHeader store files ps h

/-- non-vacuity: one listed pack, one unlisted readable pack → both indexed; an unreadable unlisted pack fails the load. -/
example : (Rustic.Index.checkedPacks (fun _ _ _ => some []) [(1, 36), (2, 36)]
      [{ packs := [{ id := 1, blobs := [], size := none }], packsToDelete := [] }]).map (·.map (·.id)) = some [1, 2] ∧
    (Rustic.Index.checkedPacks (fun _ _ _ => none) [(1, 36), (2, 36)]
      [{ packs := [{ id := 1, blobs := [], size := none }], packsToDelete := [] }]).isNone = true := by decide

/-- (C08-7) a dry run of `repair_index` changes nothing: the index files afterwards are the index files before, for every
store, every set of index files (damaged or not), every header-read outcome and `read_all` on or off. -/
theorem dry_run_changes_nothing (readHeader : Nat → Option Nat → Nat → Option (List IndexBlob)) (store : List (Nat × Nat))
    (files : List Rustic.Index.IndexFile) (readAll : Bool) :
    Rustic.Index.repairIndexD true readHeader store files readAll = files :=
  Rustic.Index.repairIndexD_dry readHeader store files readAll

/-- … and the real run after a dry run (with any options) is the real run: `index_rebuildable` applies to it unchanged. -/
theorem dry_run_then_repair_eq_repair (readHeader : Nat → Option Nat → Nat → Option (List IndexBlob)) (store : List (Nat × Nat))
    (files : List Rustic.Index.IndexFile) (readAllDry readAll : Bool) :
    Rustic.Index.repairIndexD false readHeader store (Rustic.Index.repairIndexD true readHeader store files readAllDry) readAll =
      Rustic.Index.repairIndex readHeader store files readAll := by
  rw [Rustic.Index.repairIndexD_dry, Rustic.Index.repairIndexD_false]

/-- a dry run inspects exactly what the real run would: the header reads (pack, size hint, pack size — in order) do not depend
on `dry_run`, and the real run after the dry run repeats them. -/
theorem dry_run_reads_same_headers (store : List (Nat × Nat)) (files : List Rustic.Index.IndexFile) (readAll : Bool)
    (readHeader : Nat → Option Nat → Nat → Option (List IndexBlob)) :
    Rustic.Index.repairReadsD true store files readAll = Rustic.Index.repairReadsD false store files readAll ∧
    Rustic.Index.repairReadsD false store (Rustic.Index.repairIndexD true readHeader store files readAll) readAll =
      Rustic.Index.repairReadsD false store files readAll := by
  rw [Rustic.Index.repairIndexD_dry]
  exact ⟨Rustic.Index.repairReadsD_dry_irrelevant true false store files readAll, rfl⟩

/-- non-vacuity: an index file listing a pack that no longer exists WOULD be modified by the real run (here: dropped), the dry run
keeps it (seeded change C08-7 removes it in the dry run as well). -/
example :
    (Rustic.Index.repairIndex (fun _ _ _ => none) [] [{ packs := [{ id := 2, blobs := [], size := none }], packsToDelete := [] }] false).length = 0 ∧
    (Rustic.Index.repairIndexD true (fun _ _ _ => none) [] [{ packs := [{ id := 2, blobs := [], size := none }], packsToDelete := [] }] false).length = 1 := by
  decide

end Rustic.Props.C08
