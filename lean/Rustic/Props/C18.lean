import Rustic.Model.Config
namespace Rustic.Props.C18
open Rustic.Config

theorem placeholder : u32Max = u32Max := rfl

end Rustic.Props.C18
