import Rustic.Lemmas.Config
import Rustic.Props.C06
/-
C18 — Accepted configurations work; refused or unnamed settings change nothing.

Model: `Rustic/Model/Config.lean` — `ConfigOptions::apply`, `apply_config`, `init`, the `ConfigFile`
getters, `check_rabin_params`, `PackSizer::pack_size` and the limit arithmetic of `decide_repack`, all
AFTER the six `fix:` commits of this property (extra_verify, chunk_size = 0, chunk_min_size = 0,
fixed-size chunk_size = 0, pack_size overflow, prune limits); the arithmetic of the code before the
repairs is kept as `…Old` (in `Except Fail`, panics explicit) for the witnesses at the end.
All statements quantify over every stored configuration and every option value (any `Nat`/`Int`,
i.e. also beyond the integer widths).
-/
namespace Rustic.Props.C18
open Rustic.Config

/-- A configuration change alters only the settings it names: every setting whose option is unset keeps
its stored value (and `id`, polynomial, `is_hot` can never be changed). -/
theorem apply_changes_only_named (o : ConfigOptions) (c c' : ConfigFile) (h : apply o c = .ok c') :
    c'.id = c.id ∧ c'.poly = c.poly ∧ c'.isHot = c.isHot ∧
    (o.setVersion = none → c'.version = c.version) ∧
    (o.setChunker = none → c'.chunker = c.chunker) ∧
    (o.setChunkSize = none → c'.chunkSize = c.chunkSize) ∧
    (o.setChunkMinSize = none → c'.chunkMinSize = c.chunkMinSize) ∧
    (o.setChunkMaxSize = none → c'.chunkMaxSize = c.chunkMaxSize) ∧
    (o.setCompression = none → c'.compression = c.compression) ∧
    (o.setAppendOnly = none → c'.appendOnly = c.appendOnly) ∧
    (o.setTreepackSize = none → c'.treepackSize = c.treepackSize) ∧
    (o.setTreepackGrowfactor = none → c'.treepackGrowfactor = c.treepackGrowfactor) ∧
    (o.setTreepackSizeLimit = none → c'.treepackSizeLimit = c.treepackSizeLimit) ∧
    (o.setDatapackSize = none → c'.datapackSize = c.datapackSize) ∧
    (o.setDatapackGrowfactor = none → c'.datapackGrowfactor = c.datapackGrowfactor) ∧
    (o.setDatapackSizeLimit = none → c'.datapackSizeLimit = c.datapackSizeLimit) ∧
    (o.setMinPackPct = none → c'.minPackPct = c.minPackPct) ∧
    (o.setMaxPackPct = none → c'.maxPackPct = c.maxPackPct) ∧
    (o.setExtraVerify = none → c'.extraVerify = c.extraVerify) := by
  obtain ⟨e, _⟩ := apply_ok h
  subst e
  refine ⟨rfl, rfl, rfl, ?_, ?_, ?_, ?_, ?_, ?_, ?_, ?_, ?_, ?_, ?_, ?_, ?_, ?_, ?_, ?_⟩ <;>
    (intro hn; simp [applied, hn])

/-- …and every named setting receives exactly the named value. -/
theorem apply_sets_named (o : ConfigOptions) (c c' : ConfigFile) (h : apply o c = .ok c') : c' = applied o c :=
  (apply_ok h).1

/-- The empty option set changes nothing (in particular it no longer resets `extra_verify`). -/
theorem apply_nothing_named (c c' : ConfigFile) (h : apply {} c = .ok c') : c' = c := by
  rw [(apply_ok h).1]; rfl

/-- Version downgrades are refused, the version never decreases, and only versions 1 and 2 can be set. -/
theorem no_downgrade (o : ConfigOptions) (c : ConfigFile) :
    (∀ v, o.setVersion = some v → v < c.version → apply o c = .error (.err .unsupported)) ∧
    (∀ c', apply o c = .ok c' → c.version ≤ c'.version ∧ (∀ v, o.setVersion = some v → c'.version = v ∧ 1 ≤ v ∧ v ≤ 2)) := by
  constructor
  · intro v hv hlt
    have : applyVersion o c = .error (.err .unsupported) := by
      unfold applyVersion
      simp only [hv]
      split
      · rfl
      · simp [hlt]
    unfold apply
    simp [this, bind, Except.bind]
  · intro c' h
    obtain ⟨e, hle, hr, _⟩ := apply_ok h
    refine ⟨hle, ?_⟩
    intro v hv
    refine ⟨?_, hr v hv⟩
    rw [e]; simp [applied, hv]

/-- A refused change leaves the stored configuration untouched and writes nothing; an accepted change
that alters nothing writes nothing; an accepted change writes the config file once. -/
theorem refused_leaves_stored_config (st : Store) (o : ConfigOptions) :
    (∀ e, (applyConfig st o).2 = .error e → (applyConfig st o).1 = st) ∧
    ((applyConfig st o).2 = .ok false → (applyConfig st o).1 = st) ∧
    ((applyConfig st o).2 = .ok true →
      apply o st.config = .ok (applyConfig st o).1.config ∧ (applyConfig st o).1.writes = st.writes + 1) := by
  unfold applyConfig
  split
  · simp
  · cases ha : apply o st.config with
    | error e => simp
    | ok c' =>
      simp only
      split <;> simp_all

/-- The same for the IN-MEMORY copy of the open handle (`repo.config()`, what every append-only guard reads): a refused
`apply_config` — refused by the append-only guard or by any validation inside `ConfigOptions::apply` — leaves the
handle's in-memory config, the stored config and the write count exactly as they were, for every in-memory copy
(coherent with the store or not).  `ConfigOptions::apply` itself DOES assign fields before it fails
(`apply_assigns_before_failing`), so this holds only because `apply_config` works on a clone. -/
theorem refused_leaves_handle_config (mem : ConfigFile) (st : Store) (o : ConfigOptions) (e : Fail)
    (h : (applyConfigH mem st o).2.2 = .error e) :
    (applyConfigH mem st o).1 = mem ∧ (applyConfigH mem st o).2.1 = st :=
  applyConfigH_refused h

/-- The in-memory copy follows the store: starting coherent (`open` reads the stored config), after any `apply_config`
— accepted, unchanged or refused — the handle's config is again the stored one, and result and store are those of
`applyConfig` (so every theorem above about `applyConfig` is a theorem about the handle). -/
theorem handle_config_follows_store (st : Store) (o : ConfigOptions) :
    (applyConfigH st.config st o).1 = (applyConfigH st.config st o).2.1.config ∧
    (applyConfigH st.config st o).2 = applyConfig st o := by
  rw [applyConfigH_eq_applyConfig]
  exact ⟨rfl, rfl⟩

/-- … along any sequence of changes on one handle. -/
theorem handle_config_follows_store_seq (os : List ConfigOptions) (st : Store) :
    let fin := os.foldl (fun (p : ConfigFile × Store) o => ((applyConfigH p.1 p.2 o).1, (applyConfigH p.1 p.2 o).2.1))
      (st.config, st)
    fin.1 = fin.2.config ∧ fin.2 = os.foldl (fun st o => (applyConfig st o).1) st := by
  induction os generalizing st with
  | nil => exact ⟨rfl, rfl⟩
  | cons o os ih =>
    simp only [List.foldl_cons]
    have h := handle_config_follows_store st o
    have e1 : (applyConfigH st.config st o).1 = (applyConfig st o).1.config := by rw [h.1, h.2]
    have e2 : (applyConfigH st.config st o).2.1 = (applyConfig st o).1 := by rw [h.2]
    rw [e1, e2]
    exact ih (applyConfig st o).1

/-- `ConfigOptions::apply` on its `&mut` target agrees with `apply` (same value on success, same error) … -/
theorem apply_mut_agrees (o : ConfigOptions) (c : ConfigFile) :
    (∀ c', applyMut o c = (c', none) ↔ apply o c = .ok c') ∧ (∀ e, (applyMut o c).2 = some e ↔ apply o c = .error e) :=
  ⟨fun _ => applyMut_ok, fun _ => applyMut_err⟩

/-- … and really leaves the target partly assigned when it fails: `set_append_only(false)` together with an option
that is rejected later (here `min_packsize_tolerate_percent = 200`) returns the error with `append_only` already
cleared in the target; applied in place to the live config this would switch off every append-only guard of the
handle while the stored config still says append-only (seeded change C15-1; corpus `c15 hnd plain config.ao0.xminpct,forget`). -/
theorem apply_assigns_before_failing :
    let c := { ConfigFile.new 2 7 9 with appendOnly := some true }
    let o : ConfigOptions := { setAppendOnly := some false, setMinPackPct := some 200 }
    applyMut o c = ({ c with appendOnly := some false }, some (.err .invalidInput)) ∧
    (applyConfigH c ⟨c, 1⟩ o) = (c, ⟨c, 1⟩, .error (.err .invalidInput)) := by
  decide

/-- A refused `init` writes nothing at all (the configuration is validated before the first write). -/
theorem refused_init_writes_nothing (id poly : Nat) (o : ConfigOptions) (e : Fail)
    (h : apply o (ConfigFile.new 2 id poly) = .error e) : initConfig id poly o = .error e := by
  simp [initConfig, h]

/-- Append-only repositories refuse every change except switching append-only off. -/
theorem append_only_refuses_config_change (st : Store) (o : ConfigOptions)
    (ha : st.config.appendOnly = some true) (ho : o.setAppendOnly ≠ some false) :
    applyConfig st o = (st, .error (.err .appendOnly)) := by
  simp [applyConfig, ha, ho]

/-! ### accepted ⇒ no panic -/

/-- Validation itself cannot panic: `apply` returns a configuration or an error for every input. -/
theorem apply_returns_result_or_error (o : ConfigOptions) (c : ConfigFile) (w : String) :
    apply o c ≠ .error (.panic w) :=
  apply_no_panic o c w

theorem apply_config_never_panics (st : Store) (o : ConfigOptions) (w : String) :
    (applyConfig st o).2 ≠ .error (.panic w) := by
  unfold applyConfig
  split
  · simp
  · cases ha : apply o st.config with
    | error e =>
      simp only
      intro h
      cases h
      exact apply_no_panic o st.config w ha
    | ok c' => simp only; split <;> simp

/-- Every accepted configuration carries chunker settings on which the chunkers are well defined. -/
theorem accepted_chunker_valid (o : ConfigOptions) (c c' : ConfigFile) (h : apply o c = .ok c') : ChunkerValid c' :=
  (apply_ok h).2.2.2

def rabinParams (c : ConfigFile) : Rustic.Chunker.Params :=
  { min := c.chunkMinSizeOrDefault, max := c.chunkMaxSizeOrDefault, mask := (c.chunkSizeOrDefault - 1).toUInt64 }

/-- Accepted rabin parameters satisfy the chunker's precondition `WFp` of C06 … -/
theorem accepted_rabin_wf (o : ConfigOptions) (c c' : ConfigFile) (h : apply o c = .ok c')
    (hk : c'.chunkerOrDefault = .rabin) : Rustic.Props.C06.WFp (rabinParams c') := by
  have hv := accepted_chunker_valid o c c' h
  simp only [ChunkerValid, hk] at hv
  exact ⟨hv.2.2.1, by simp only [rabinParams]; omega⟩

/-- … hence (C06) chunking with an accepted configuration terminates, is lossless and bounded for every
input, every reader fragmentation and every rolling hash — it can neither loop on empty chunks
(`chunk_min_size = 0`) nor lose the file content (`chunk_size = 0`). -/
theorem accepted_rabin_chunking_lossless {σ : Type} (o : ConfigOptions) (c c' : ConfigFile) (h : apply o c = .ok c')
    (hk : c'.chunkerOrDefault = .rabin) (r : Rustic.Chunker.Roll σ) (bufSize : Nat) (hb : 0 < bufSize)
    (input : Rustic.Chunker.Bytes) (sched : List Rustic.Chunker.Ev) :
    (Rustic.Props.C06.chunksOf r (rabinParams c') bufSize input sched).flatten = input ∧
    (∀ ch ∈ Rustic.Props.C06.chunksOf r (rabinParams c') bufSize input sched, ch ≠ [] ∧ ch.length ≤ c'.chunkMaxSizeOrDefault) :=
  ⟨Rustic.Props.C06.lossless r _ (accepted_rabin_wf o c c' h hk) bufSize hb input sched,
   (Rustic.Props.C06.bounded r _ (accepted_rabin_wf o c c' h hk) bufSize hb input sched).1⟩

theorem accepted_fixed_chunking_lossless (o : ConfigOptions) (c c' : ConfigFile) (h : apply o c = .ok c')
    (hk : c'.chunkerOrDefault = .fixedSize) (input : Rustic.Chunker.Bytes) :
    (Rustic.Chunker.fixedRun c'.chunkSizeOrDefault (input.length + 2) { rest := input, finished := false }).flatten = input := by
  have hv := accepted_chunker_valid o c c' h
  simp only [ChunkerValid, hk] at hv
  exact Rustic.Props.C06.fixed_lossless _ hv input

/-- `PackSizer::pack_size` is total for every configuration and repository size, stays within u32,
the configured limit and MAX_SIZE … -/
theorem pack_size_bounds (c : ConfigFile) (tree : Bool) (cur : Nat) :
    (PackSizer.fromConfig c tree cur).packSize ≤ packMaxSize ∧
    (PackSizer.fromConfig c tree cur).packSize ≤ (PackSizer.fromConfig c tree cur).sizeLimit ∧
    (PackSizer.fromConfig c tree cur).packSize ≤ u32Max :=
  ⟨(packSize_bounds _).1, (packSize_bounds _).2, Nat.le_trans (packSize_bounds _).1 packMaxSize_le_u32⟩

/-- … and equals the value the unrepaired arithmetic computed wherever that did not overflow. -/
theorem pack_size_conservative (p : PackSizer) (n : Nat) (h : p.packSizeOld = .ok n) : p.packSize = n :=
  packSize_eq_old h

/-- The prune limits are total for every limit option (0 %, 100 %, > 100 %, huge sizes …), stay within
u64, and equal the unrepaired arithmetic wherever that did not panic. -/
theorem prune_limits_total (r : Bool) (l : LimitOption) (x : Nat) (hs : ∀ s, l = .size s → s ≤ u64Max) :
    maxUnusedLimit r l x ≤ u64Max ∧ maxRepackLimit l x ≤ u64Max ∧
    (∀ n, maxUnusedLimitOld r l x = .ok n → maxUnusedLimit r l x = n) ∧
    (∀ n, maxRepackLimitOld l x = .ok n → maxRepackLimit l x = n) :=
  ⟨maxUnusedLimit_le r l x hs, maxRepackLimit_le l x hs, fun _ h => maxUnusedLimit_eq_old h,
   fun _ h => maxRepackLimit_eq_old h⟩

/-- ≥ 100 % unused space is always tolerated; 0 % tolerates nothing. -/
theorem prune_limit_values (used : Nat) (p : Nat) (hp : 100 ≤ p) :
    maxUnusedLimit false (.percentage p) used = u64Max ∧ maxUnusedLimit false (.percentage 0) used = 0 := by
  constructor
  · simp [maxUnusedLimit, hp]
  · simp [maxUnusedLimit]

/-- What the computed limits mean (tied value by value to the limits `decide_repack` computes, channel `limits`):
below 100 %, an amount of unused data is within `max_unused` exactly when it is at most `p` % of the repository
size after pruning (`used + unused`), and `x` bytes are within `max_repack` exactly when they are at most `p` % of
the total size — whenever the products fit u64; when they saturate the limit only gets tighter. -/
theorem prune_limit_percent_meaning (p used total x : Nat) :
    (p < 100 → p * used ≤ u64Max →
      (x ≤ maxUnusedLimit false (.percentage p) used ↔ 100 * x ≤ p * (used + x))) ∧
    (p < 100 → x ≤ maxUnusedLimit false (.percentage p) used → 100 * x ≤ p * (used + x)) ∧
    (p * total ≤ u64Max → (x ≤ maxRepackLimit (.percentage p) total ↔ 100 * x ≤ p * total)) :=
  ⟨fun hp hf => maxUnusedLimit_pct_meaning hp hf, fun hp h => maxUnusedLimit_pct_sound hp h,
   fun hf => maxRepackLimit_pct_meaning hf⟩

/-- The size comparisons of `is_too_small` / `is_too_large` (`u64::from(size) * 100` against
`u64::from(target) * u64::from(percent)`) cannot overflow u64 for u32 operands. -/
theorem size_ok_products_fit (size target pct : Nat) (h1 : size ≤ u32Max) (h2 : target ≤ u32Max) (h3 : pct ≤ u32Max) :
    size * 100 ≤ u64Max ∧ target * pct ≤ u64Max := by
  have e32 : u32Max = 4294967295 := by decide
  have e64 : u64Max = 18446744073709551615 := by decide
  constructor
  · omega
  · calc target * pct ≤ u32Max * u32Max := Nat.mul_le_mul h2 h3
      _ ≤ u64Max := by rw [e32, e64]; decide

/-- accepted ⇒ no panic, assembled: validation returns a result or an error; an accepted configuration
has valid chunker settings; pack sizes and prune limits are total. -/
theorem accepted_no_panic (o : ConfigOptions) (c c' : ConfigFile) (h : apply o c = .ok c') :
    (∀ w, apply o c ≠ .error (.panic w)) ∧ ChunkerValid c' ∧
    (∀ tree cur, (PackSizer.fromConfig c' tree cur).packSize ≤ u32Max) :=
  ⟨apply_no_panic o c, accepted_chunker_valid o c c' h, fun tree cur => (pack_size_bounds c' tree cur).2.2⟩

/-! ### witnesses: the defects of the code before the repairs (replayed on the real code: corpus/C18/witnesses.ops) -/

/-- DESIGN §7 #3: `config.extra_verify = self.set_extra_verify` reset an unnamed setting. -/
theorem extra_verify_old_resets_unnamed :
    let c := { ConfigFile.new 2 0 0 with extraVerify := some false }
    let o : ConfigOptions := { setTreepackGrowfactor := some 3 }
    o.setExtraVerify = none ∧ (applyExtraVerifyOld o c).extraVerify = none ∧ c.extraVerify = some false ∧
      (applyExtraVerify o c).extraVerify = some false := by
  decide

/-- #4 remainder: `check_rabin_params(0, _, _)` panicked (`chunk_size - 1`); `chunk_min_size = 0` was accepted. -/
theorem check_rabin_params_old_defects :
    checkRabinParamsOld 0 0 0 = .error (.panic "attempt to subtract with overflow") ∧
    checkRabinParamsOld 64 0 64 = .ok () ∧
    checkRabinParams 0 0 0 = .error (.err .unsupported) ∧ checkRabinParams 64 0 64 = .error (.err .unsupported) := by
  decide

/-- `chunk_min_size = 0` is outside the chunker's precondition: the real iterator yields empty chunks forever. -/
theorem min_zero_not_wf : ¬ Rustic.Props.C06.WFp { min := 0, max := 64, mask := 63 } := by
  intro h; exact absurd h.1 (by decide)

/-- fixed-size chunker with size 0: no chunks at all — the content of a non-empty file is lost. -/
theorem fixed_size_zero_loses_content :
    Rustic.Chunker.fixedRun 0 10 { rest := [1, 2, 3], finished := false } = [] := by
  decide

/-- #5: `isqrt(current) * grow_factor + default` overflowed u32. -/
theorem pack_size_old_overflows :
    PackSizer.packSizeOld ⟨0, u32Max, u32Max, 4, 30, u32Max⟩ = .error (.panic "attempt to multiply with overflow") ∧
    PackSizer.packSizeOld ⟨u32Max, 1, u32Max, 1, 30, u32Max⟩ = .error (.panic "attempt to add with overflow") ∧
    PackSizer.packSize ⟨0, u32Max, u32Max, 4, 30, u32Max⟩ = packMaxSize := by
  decide

/-- #6: `max_unused = 100 %` divided by zero, `> 100 %` underflowed, huge percentages overflowed. -/
theorem prune_limit_old_panics :
    maxUnusedLimitOld false (.percentage 100) 5 = .error (.panic "attempt to divide by zero") ∧
    maxUnusedLimitOld false (.percentage 150) 5 = .error (.panic "attempt to subtract with overflow") ∧
    maxRepackLimitOld (.percentage u64Max) 2 = .error (.panic "attempt to multiply with overflow") := by
  decide

/-! ### non-vacuity -/

def exCfg : ConfigFile := { ConfigFile.new 2 7 9 with extraVerify := some false, compression := some 3 }
def exOpts : ConfigOptions := { setChunkSize := some 4096, setChunkMinSize := some 1, setTreepackGrowfactor := some 3 }

example : apply exOpts exCfg = .ok { exCfg with chunkSize := some 4096, chunkMinSize := some 1, treepackGrowfactor := some 3 } := by
  decide
/-- huge sizes are accepted (the smoke runs back up, check and restore with them: seeded change C18-2) -/
example : (apply { setChunkSize := some (2 ^ 63), setChunkMinSize := some (2 ^ 63), setChunkMaxSize := some u64Max } exCfg).isOk = true
    ∧ (apply { setChunker := some .fixedSize, setChunkSize := some u64Max } exCfg).isOk = true := by decide
example : apply { setVersion := some 1 } exCfg = .error (.err .unsupported) := by decide
example : apply { setChunkMinSize := some 0 } exCfg = .error (.err .unsupported) := by decide
example : (applyConfig ⟨exCfg, 1⟩ exOpts).2 = .ok true := by decide
example : (applyConfig ⟨exCfg, 1⟩ { setMinPackPct := some 101 }) = (⟨exCfg, 1⟩, .error (.err .invalidInput)) := by decide
example : maxUnusedLimit false (.percentage 5) 1900 = 100 := by decide
example : maxRepackLimit (.percentage 10) 12345 = 1234 ∧ maxRepackLimit (.percentage u64Max) 2 = u64Max / 100 := by decide

end Rustic.Props.C18
