import Rustic.Lemmas.CommandTable
/-
C15 — Append-only and dry-run modes never remove or overwrite stored data.

Model: `Rustic/Model/CommandTable.lean` — one row per public repository operation: refused with which
error (before any storage operation) or which kinds of storage operations it may issue, depending on
the repository's append-only flag and the command's dry-run flag.  The theorems are exactly as good as
the table; the traffic check (`harness/src/c15.rs`, recorded `MemBackend` log of the real commands)
validates the table on every run.  Files are content-addressed (a write under an existing id carries the
same bytes — the harness checks the bytes of every pre-existing file after every command).
-/
namespace Rustic.Props.C15
open Rustic.CommandTable

/-- On an append-only repository no operation issues a removal of a snapshot, index or pack file. -/
theorem append_only_no_removal (cmd : Cmd) :
    match run true cmd with
    | .refused _ => True
    | .runs ops => ∀ op ∈ ops, op.isProtectedRemoval = false := by
  cases h : run true cmd with
  | refused e => trivial
  | runs ops => exact run_appendOnly_no_protected_removal cmd ops h

/-- Every operation that (on an ordinary repository) may remove a snapshot, index or pack file is refused
on an append-only repository — with an error, before touching storage (`refused` carries no operations:
`conforms` demands an empty operation list). -/
theorem destructive_refused_before_storage (cmd : Cmd) (ops : List Op) (h : run false cmd = .runs ops)
    (hd : ∃ op ∈ ops, op.isProtectedRemoval = true) : ∃ e, run true cmd = .refused e := by
  cases cmd with
  | backup d => cases d <;> (cases h; simp [dataWrites, Op.isProtectedRemoval] at hd)
  | deleteSnapshots => exact ⟨_, rfl⟩
  | saveSnapshots => cases h; simp [Op.isProtectedRemoval] at hd
  | prunePlan => cases h; simp at hd
  | prune => exact ⟨_, rfl⟩
  | repairIndex d => exact ⟨_, rfl⟩
  | repairSnapshots del d =>
    cases del
    · cases d <;> (cases h; simp [dataWrites, Op.isProtectedRemoval] at hd)
    · exact ⟨_, rfl⟩
  | rewriteSnapshots fg d =>
    cases fg
    · cases d <;> (cases h; simp [Op.isProtectedRemoval] at hd)
    · exact ⟨_, rfl⟩
  | rewriteTrees fg d =>
    cases fg
    · cases d <;> (cases h; simp [dataWrites, Op.isProtectedRemoval] at hd)
    · exact ⟨_, rfl⟩
  | applyConfig c => cases c <;> (cases h; simp [Op.isProtectedRemoval] at hd)
  | addKey => cases h; simp [Op.isProtectedRemoval] at hd
  | deleteKey => cases h; simp [Op.isProtectedRemoval] at hd
  | copyInto => cases h; simp [dataWrites, Op.isProtectedRemoval] at hd
  | mergeSnapshots => cases h; simp [dataWrites, Op.isProtectedRemoval] at hd
  | repairHotcold d => simp [run] at h
  | readOnly => cases h; simp at hd

/-- The destructive operations and the error each returns on an append-only repository. -/
theorem destructive_commands_table :
    run true .deleteSnapshots = .refused .repository ∧ run true .prune = .refused .appendOnly ∧
    (∀ d, run true (.repairIndex d) = .refused .appendOnly) ∧
    (∀ d, run true (.repairSnapshots true d) = .refused .appendOnly) ∧
    (∀ d, run true (.rewriteSnapshots true d) = .refused .appendOnly) ∧
    (∀ d, run true (.rewriteTrees true d) = .refused .appendOnly) ∧
    (∀ c, c ≠ .setAppendOnly false → run true (.applyConfig c) = .refused .appendOnly) := by
  refine ⟨rfl, rfl, fun _ => rfl, fun _ => rfl, fun _ => rfl, fun _ => rfl, ?_⟩
  intro c hc
  simp [run, hc]

/-- A command run with its dry-run flag performs no write and no removal at all (or is refused). -/
theorem dry_run_no_ops (appendOnly : Bool) (cmd : Cmd) (h : cmd.isDryRun = true) :
    run appendOnly cmd = .runs [] ∨ ∃ e, run appendOnly cmd = .refused e := by
  cases cmd <;> simp [Cmd.isDryRun] at h
  case backup d => subst h; left; rfl
  case repairIndex d => subst h; cases appendOnly <;> simp [run]
  case repairSnapshots del d => subst h; cases appendOnly <;> cases del <;> simp [run]
  case rewriteSnapshots fg d => subst h; cases appendOnly <;> cases fg <;> simp [run]
  case rewriteTrees fg d => subst h; cases appendOnly <;> cases fg <;> simp [run]
  case repairHotcold d => right; exact ⟨_, rfl⟩

/-- Histories: along any sequence of operations that conform to the table, as long as the repository is
marked append-only before each of them, every snapshot / index / pack file present at the start is still
present at the end (any number of operations, any concrete files). -/
theorem append_only_history_keeps_files (s : State) (es : List Exec) (h : AllAppendOnly s es) (f : File)
    (hf : f ∈ s.files) (hp : f.isProtected = true) : f ∈ (es.foldl step s).files :=
  history_keeps es s h f hf hp

/-- Append-only can only be left through `apply_config(set_append_only = false)`. -/
theorem append_only_left_only_by_config (s : State) (e : Exec) (hao : s.appendOnly = true)
    (h : (step s e).appendOnly = false) : e.cmd = .applyConfig (.setAppendOnly false) := by
  simp only [step] at h
  cases hc : e.cmd with
  | applyConfig c =>
    cases c with
    | setAppendOnly b =>
      cases b
      · rfl
      · simp [hc, run, hao] at h
    | other ch => simp [hc, run, hao] at h
  | _ => simp [hc, hao] at h

/-- The harness tokens: what the traffic check expects is a refusal exactly where the table refuses. -/
def aoTokens : List String :=
  ["backup.new", "backup.same", "backup.dry.new", "backup.dry.same", "forget", "prune", "prune.instant", "prune.all",
   "prune_plan", "repair_index", "repair_index.dry", "repair_index.readall", "repair_index.readall.dry",
   "repair_snap.delete", "repair_snap.delete.dry", "repair_snap.keep", "repair_snap.keep.dry", "rewrite.forget",
   "rewrite.forget.dry", "rewrite.keep", "rewrite.keep.dry", "rewtrees.forget", "rewtrees.forget.dry", "rewtrees.keep",
   "rewtrees.keep.dry", "config.tg", "config.ev", "config.none", "config.ao1", "config.ao0", "key.add", "key.del",
   "check", "restore", "hotcold", "hotcold.packs", "hotcold.dry", "hotcold.packs.dry", "copy"]

def refusalAgrees (ao : Bool) (tok : String) : Bool :=
  match cmdOfToken tok, expected { appendOnly := ao } tok with
  | some c, some (res, kinds, _) =>
    (match run ao c with
     | .refused .appendOnly => res == "err:AppendOnly" && kinds == "-"
     | .refused .repository => res == "err:Repository"
     | .runs ops => res == "ok" &&
         -- a shown removal / write of config, key, snapshot must be allowed by the table
         (!(kinds == "r.snapshot") || ops.contains (.remove .snapshot)) &&
         (!(kinds == "w.snapshot") || ops.contains (.write .snapshot)) &&
         (!(kinds == "w.config") || ops.contains (.write .config)) &&
         (!(kinds == "w.key") || ops.contains (.write .key)) &&
         (!(kinds == "r.key") || ops.contains (.remove .key)))
  | _, _ => false

theorem expected_agrees_with_table : ∀ ao, aoTokens.all (refusalAgrees ao) = true := by
  decide

/-! ### non-vacuity -/
example : run true .prune = .refused .appendOnly := rfl
example : run false .prune = .runs [.write .pack, .write .index, .remove .index, .remove .pack] := rfl
example : AllAppendOnly ⟨true, [⟨.snapshot, 1⟩, ⟨.pack, 2⟩]⟩
    [⟨.backup false, [.write ⟨.pack, 3⟩, .write ⟨.index, 4⟩, .write ⟨.snapshot, 5⟩]⟩, ⟨.prune, []⟩,
     ⟨.rewriteSnapshots false false, [.write ⟨.snapshot, 6⟩]⟩] := by
  decide
example : ¬ AllAppendOnly ⟨true, [⟨.snapshot, 1⟩]⟩ [⟨.deleteSnapshots, [.remove ⟨.snapshot, 1⟩]⟩] := by
  decide

end Rustic.Props.C15
